/-
  GLib machine: `StepFacts` for every instruction (`step_facts`) and every transition (`trans_facts`).
-/
import Simpleline.Lemmas.GMfStep

namespace Simpleline.G

theorem handlersOf_mem {L : GSt} {cls : Cls} {k : Nat} {h : HRef} {d : Option Nat}
    (hk : (handlersOf L cls)[k]? = some (h, d)) : (cls, h, d) ∈ L.handlers := by
  have hm : (h, d) ∈ handlersOf L cls := List.mem_of_getElem? hk
  unfold handlersOf at hm
  obtain ⟨x, hx, hx2⟩ := List.mem_map.1 hm
  obtain ⟨hx3, hx4⟩ := List.mem_filter.1 hx
  have : x = (cls, h, d) := by
    obtain ⟨a, b⟩ := x
    simp at hx4 hx2
    simp [hx4, hx2]
  exact this ▸ hx3

theorem newIH_keep (c : Cfg) (src : Src) (skip : Bool) (cb : Option Nat) :
    Keep c (newIH c src skip cb).2 ∧ (newIH c src skip cb).2.code = c.code :=
  ⟨⟨List.prefix_append _ _, rfl, rfl, rfl, rfl, [], rfl, by simp⟩, rfl⟩

macro "k_eq" : term => `((by exact Keep.of_eq rfl rfl rfl))
macro "k_cons" : term => `((by exact Keep.cons _ rfl rfl rfl (by rfl)))
macro "k_then" x:term : term => `((by refine Keep.trans ?_ $x; exact Keep.of_eq rfl rfl rfl))
theorem cnt_map {α} (l : List α) (f : α → Instr) (h : ∀ x, qa (f x) = false) : (l.map f).countP qa = 0 := by
  rw [List.countP_eq_zero]
  intro i hi
  obtain ⟨x, _, rfl⟩ := List.mem_map.1 hi
  simp [h x]
theorem cnt_comp {α} (l : List α) (f : α → Instr) (h : ∀ x, qa (f x) = false) : List.countP (qa ∘ f) l = 0 := by
  rw [List.countP_eq_zero]
  intro x _
  simp [h x]
macro "cntac" : tactic => `(tactic| simp [push, rcfg, qa, List.countP_cons, List.countP_append, cnt_map, cnt_comp, *])
macro "brg" : term => `((by simp [Instr.boring]))

theorem step_facts (P : Prog) (c0 : Cfg) : StepFacts c0 (rcfg (step P c0)) := by
  unfold step
  split
  · rename_i hc
    exact ⟨Nat.le_refl _, rfl, fun _ => rfl, Or.inl rfl, ⟨[], rfl, by simp⟩, List.prefix_refl _, fun i hi _ => by simp [rcfg, hc] at hi, fun hf _ => hf,
      fun h1 h2 => by simp only [rcfg] at h2; rw [h1] at h2; cases h2⟩
  · rename_i ins rest hc
    have k0 : Keep c0 { c0 with code := rest } := Keep.of_eq rfl rfl rfl
    have s0 : ({ c0 with code := rest } : Cfg).code <:+ rest := List.suffix_refl _
    have sr : ∀ {l : List Instr}, l <:+ l := List.suffix_refl _
    cases ins with
    | act a => exact doAct_facts hc
    | apprun =>
      have hfq : c0.L.forceQuit = true → c0.code.head? ≠ some Instr.apprun → ∀ X : Cfg, X.L.forceQuit = true :=
        fun _ h => absurd (by simp [hc]) h
      simp only
      split
      · exact facts_plain hc s0 k0
      · split
        · refine ⟨by simp [push, Cfg.setCtx, hc, qa, List.countP_cons], rfl, fun _ => rfl, Or.inl rfl, ⟨[], rfl, by simp⟩, List.prefix_refl _, fun i hi hb => ?_, fun a b => hfq a b _, fun _ h2 => by cases h2⟩
          simp [push, Cfg.setCtx] at hi
          rcases hi with rfl | rfl | hi
          · cases hb
          · right; show c0.code.head? = some Instr.apprun; simp [hc]
          · left; simp [hc, hi]
        · have g := raise_good ({ c0 with code := rest, L := { c0.L with forceQuit := false } } : Cfg) .err
          obtain ⟨new, e, hq⟩ := g.2.tr
          refine ⟨cnt_suffix hc g.1, g.2.qcb, fun _ => g.2.logq, Or.inl g.2.tickets, ⟨new, e, fun t ht hl => by rw [hq t ht] at hl; cases hl⟩, g.2.handlers, fun i hi _ => ?_, fun a b => hfq a b _,
            fun _ h2 => by rw [g.2.fq] at h2; cases h2⟩
          left; rw [hc]; exact g.1.subset hi
    | quitCb =>
      simp only
      split
      · rename_i d hd
        have kk := deliverD_keep ({ c0 with code := rest, log := Ev.quitcb d :: c0.log } : Cfg)
        obtain ⟨new, e, hq⟩ := kk.tr
        have hcode : (Cfg.emit P ({ c0 with code := rest } : Cfg) (.quitcb d)).code = rest := by simp
        refine facts_gen hc ⟨?_, ?_, ?_, ?_, fun hh => absurd (by simp [hc]) hh, ?_⟩ (fun i hi _ => Or.inl (by have h' : i ∈ (Cfg.emit P ({ c0 with code := rest } : Cfg) (.quitcb d)).code := hi; rw [hcode] at h'; exact h')) (by show (Cfg.emit P ({ c0 with code := rest } : Cfg) (.quitcb d)).code.countP qa ≤ _; rw [hcode]; exact cnt_suffix hc (List.suffix_refl _))
        all_goals (unfold Cfg.emit; simp only; split)
        · exact kk.handlers
        · exact List.prefix_refl _
        · exact kk.fq
        · rfl
        · exact Or.inl kk.tickets
        · exact Or.inl rfl
        · exact kk.qcb
        · rfl
        · exact ⟨new, e, fun t ht hl => by rw [hq t ht] at hl; cases hl⟩
        · exact ⟨[], rfl, by simp⟩
      · exact facts_plain hc s0 k0
    | gRun q =>
      simp only
      split
      · exact facts_push hc _ brg s0 k0
      · exact facts_plain hc sr k_cons
    | gIter q mode =>
      have key : ∀ (mode' : Mode) (c2 : Cfg) (e : Nat), Keep c0 c2 → c2.code = rest → StepFacts c0 (rcfg (
          match minPrio (c2.ctx q).ready with
          | none =>
            match mode' with
            | .block => .error (.blocked, c2)
            | .poll => if c2.A.readers = [] then .error (.livelock, c2) else .ok (c2.gtrace (.idle q e))
            | .once => .ok (c2.gtrace (.idle q e))
          | some p =>
            .ok (push (c2.gtrace (.iter q e p (c2.ctx q).sources ((c2.ctx q).ready.filter fun g => g.sig.prio = p)))
              (((c2.ctx q).ready.filter fun g => g.sig.prio = p).map fun g => .gDisp q e g)))) := by
        intro mode' c2 e hk2 hcode2
        split
        · split
          · exact facts_plain hc (by simp [hcode2]) hk2
          · split
            · exact facts_plain hc (by simp [hcode2]) hk2
            · exact facts_plain hc (by simp [hcode2]) (hk2.trans k_cons)
          · exact facts_plain hc (by simp [hcode2]) (hk2.trans k_cons)
        · rename_i p hp
          obtain ⟨new, e', hq⟩ := hk2.tr
          refine facts_gen hc ⟨hk2.handlers, hk2.fq, Or.inl hk2.tickets, hk2.qcb, fun _ => hk2.logq, Tr.iter q e p (c2.ctx q).sources ((c2.ctx q).ready.filter fun g => g.sig.prio = p) :: new, by simp [push, Cfg.gtrace, e'], ?_⟩ ?_ (by cntac; rw [cnt_comp _ _ (fun _ => rfl)]; omega)
          · intro t ht hl
            rcases List.mem_cons.1 ht with rfl | ht
            · exact ⟨⟨mode, by simp [hc]⟩, hp, rfl⟩
            · rw [hq t ht] at hl; cases hl
          · intro i hi hb
            simp only [rcfg_ok, push_code, gtrace_code, List.mem_append, List.mem_map] at hi
            rcases hi with ⟨g, hg, rfl⟩ | hi
            · right
              exact ⟨⟨mode, by simp [hc]⟩, p, _, _, List.mem_cons_self, hg⟩
            · left; rw [hcode2] at hi; exact hi
      have hk2 : ∀ (b : Prop) [Decidable b] (c1 : Cfg), Keep c0 c1 → c1.code = rest →
          Keep c0 (if b then c1.deliver.getD c1 else c1) ∧ (if b then c1.deliver.getD c1 else c1).code = rest := by
        intro b _ c1 h1 h2
        split
        · exact ⟨h1.trans (deliverD_keep _), by rw [deliverD_code]; exact h2⟩
        · exact ⟨h1, h2⟩
      exact key mode _ _ (hk2 _ _ k_eq rfl).1 (hk2 _ _ k_eq rfl).2
    | gDisp q e g =>
      simp only
      split
      · exact facts_plain hc sr k_cons
      · split
        · exact facts_plain hc sr k_cons
        · split
          · exact facts_plain hc sr k_cons
          · refine facts_gen hc ((KeepL.loud (c0 := c0) (X := (({ c0 with code := rest } : Cfg).setInCall q g.id true).gtrace (.disp q e g)) (.disp q e g) (by simp [LoudOK, hc]) rfl rfl rfl).trans k_cons) ?_ (by cntac)
            intro i hi hb
            simp [push] at hi
            rcases hi with rfl | rfl | hi
            · cases hb
            · cases hb
            · exact Or.inl hi
    | runH q g =>
      simp only
      split
      · exact facts_push hc _ brg s0 k0
      · rename_i hf
        refine facts_gen hc (k0.toL.trans k_eq) ?_ (by cntac)
        intro i hi hb
        simp [push] at hi
        rcases hi with rfl | rfl | rfl | hi
        · right; exact Or.inr ⟨q, g, by simp [hc], rfl, rfl, by simpa using hf, rfl⟩
        · cases hb
        · cases hb
        · exact Or.inl hi
    | gCall s hs i =>
      simp only
      split
      · split
        · rename_i h d hk
          split
          · exact facts_plain hc sr k_cons
          · rename_i hf
            refine facts_gen hc (k0.toL.trans k_eq) ?_ (by cntac)
            intro j hj hb
            simp [push] at hj
            rcases hj with rfl | rfl | hj
            · right; exact ⟨⟨i, by simp [hc], hk, by simp [push, hc]⟩, handlersOf_mem hk, by simpa using hf⟩
            · right; exact Or.inl ⟨i, by simp [hc], rfl⟩
            · exact Or.inl hj
        · exact facts_plain hc sr k_cons
      · split
        · rename_i hi0
          refine facts_gen hc (k0.toL.trans k_eq) ?_ (by cntac)
          intro j hj hb
          simp [push] at hj
          rcases hj with rfl | rfl | hj
          · cases hb
          · right; exact Or.inl ⟨i, by simp [hc], by omega⟩
          · exact Or.inl hj
        · exact facts_plain hc sr k_cons
      · exact facts_plain hc sr k_cons
    | catchRun => exact facts_plain hc s0 k0
    | endRun q g =>
      exact facts_gen hc ⟨List.prefix_refl _, rfl, Or.inr (by simp [TicketOK, hc]; rfl), rfl, fun _ => rfl, [_], rfl, by simp [Tr.quiet]⟩
        (fun i hi _ => Or.inl hi) (by cntac)
    | gAfter q sid => exact facts_plain hc sr k_eq
    | kill s => exact facts_good hc (raise_good _ _) sr k_cons
    | callH h d s =>
      have kl : KeepL c0 (({ c0 with code := rest } : Cfg).trace (.call h d s)) :=
        KeepL.loud (.m (.call h d s)) (by simp [LoudOK, hc]) rfl rfl rfl
      simp only
      cases h with
      | user hid =>
        refine facts_gen hc ((kl.trans (emit_keep P _ (.h hid s.id d c0.L.loops.length) rfl)).trans k_eq) ?_ (by cntac; rw [cnt_comp _ _ (fun _ => rfl)]; omega)
        intro i hi hb
        rcases List.mem_append.1 hi with h | h
        · rcases List.mem_append.1 h with h | h
          · rw [boring_acts _ i h] at hb; cases hb
          · simp at h; subst h; cases hb
        · exact Or.inl (by simpa using h)
      | render => exact facts_gen hc (kl.trans k_eq) (fun i hi hb => by simp [push] at hi; rcases hi with rfl | hi; cases hb; exact Or.inl hi) (by cntac)
      | close => exact facts_gen hc (kl.trans k_eq) (fun i hi hb => by simp [push] at hi; rcases hi with rfl | hi; cases hb; exact Or.inl hi) (by cntac)
      | itm => exact facts_gen hc (kl.trans k_eq) (fun i hi hb => by simp [push] at hi; rcases hi with rfl | hi; cases hb; exact Or.inl hi) (by cntac)
      | ih n => exact facts_gen hc (kl.trans k_eq) (fun i hi hb => by simp [push] at hi; rcases hi with rfl | hi; cases hb; exact Or.inl hi) (by cntac)
      | exc => exact facts_gen hc (kl.trans (emit_keep P _ _ (by rfl))) (fun i hi _ => by simp at hi; exact Or.inl hi) (by cntac)
    | hret hid => exact facts_plain hc (by simp) (k0.trans (emit_keep _ _ _ (by rfl)))
    | note w => exact facts_plain hc (by simp) (k0.trans (emit_keep _ _ _ (by rfl)))
    | procWait cls =>
      simp only
      split
      · exact facts_good hc (raise_good _ _) s0 k0
      · refine facts_gen hc ⟨List.prefix_refl _, rfl, Or.inr (by simp [TicketOK, hc, push, Cfg.trace]), rfl, fun _ => rfl, [_], rfl, by simp [Tr.quiet]⟩ ?_ (by cntac)
        intro i hi hb
        simp [push] at hi
        rcases hi with rfl | hi
        · cases hb
        · exact Or.inl hi
    | gWait cls t q =>
      simp only
      split
      · exact facts_gen hc ⟨List.prefix_refl _, rfl, Or.inr (by simp [TicketOK, hc, Cfg.trace]), rfl, fun _ => rfl, [_], rfl, by simp [Tr.quiet]⟩
          (fun i hi _ => Or.inl hi) (by cntac)
      · split
        · exact facts_plain hc sr k_cons
        · exact facts_push hc _ brg s0 k0
    | procIter =>
      simp only
      split
      · exact facts_good hc (raise_good _ _) s0 k0
      · exact facts_push hc _ brg s0 k0
    | newLoop s =>
      simp only
      split
      · exact facts_plain hc s0 k0
      · have hg := enqueue_good (({ c0 with code := rest, L := { c0.L with ctxs := c0.L.ctxs ++ [({} : Ctx)], loops := c0.L.loops ++ [c0.L.ctxs.length] } } : Cfg).trace (.openLevel c0.L.ctxs.length true)) s
        exact facts_bind_push hc hg sr k_cons (fun c => c.setCtx c0.L.ctxs.length fun x => { x with running := true }) (fun c => ⟨rfl, Keep.of_eq rfl rfl rfl⟩) [.gRun c0.L.ctxs.length] brg
    | closeLoop =>
      simp only
      split
      · exact facts_good hc (raise_good _ _) s0 k0
      · exact facts_plain hc sr k_cons
    | pushModal scr args =>
      exact facts_push hc _ brg sr (by exact ⟨List.prefix_refl _, rfl, rfl, rfl, rfl, [_, _], rfl, by simp [Tr.quiet]⟩)
    | modalRet e => exact facts_plain hc sr k_cons
    | closeScreen frm =>
      simp only
      split
      · exact facts_good hc (raise_good _ _) s0 k0
      · split
        · exact facts_good hc (raise_good _ _) s0 k0
        · exact facts_push hc _ brg sr k_cons
    | closeScreen2 e frm =>
      simp only
      split
      · exact facts_good hc (raise_good _ _) s0 k0
      · split
        · exact facts_push hc _ brg s0 k0
        · exact facts_push hc _ brg s0 k0
    | closeScreen3 e =>
      simp only
      split
      · refine facts_good hc (c1 := { c0 with code := rest }) (Good.bind (redraw_good _) fun c1 => ?_) s0 k0
        split
        · exact raise_good _ _
        · exact Good.ok _ _ sr (Keep.refl _)
      · refine facts_good hc (c1 := { c0 with code := rest }) (Good.bind (Good.ok _ _ sr (Keep.refl _)) fun c1 => ?_) s0 k0
        split
        · exact raise_good _ _
        · exact Good.ok _ _ sr (Keep.refl _)
    | processScreen =>
      simp only
      split
      · exact facts_good hc (raise_good _ _) s0 k0
      · split
        · exact facts_push hc _ brg s0 k0
        · exact facts_push hc _ brg s0 k0
    | afterSetup top =>
      simp only
      split
      · exact facts_push hc _ brg s0 k0
      · split
        · exact facts_good hc (raise_good _ _) s0 k0
        · split
          · exact facts_push hc _ brg sr k_cons
          · exact facts_good hc (redraw_good _) sr k_cons
    | afterSetupFail e =>
      simp only
      split
      · exact facts_good hc (raise_good _ _) s0 k0
      · exact facts_plain hc s0 k0
    | afterSetup2 top =>
      exact facts_bind_push hc (regSource_good _ _) s0 k0 (fun c => c.trace (.refresh top)) (fun c => ⟨rfl, k_cons⟩) _ brg
    | identCheck top =>
      simp only
      split
      · exact facts_good hc (raise_good _ _) s0 k0
      · split
        · exact facts_plain hc (List.dropWhile_suffix _) k_eq
        · exact facts_push hc _ brg s0 k0
    | catchPS => exact facts_plain hc s0 k0
    | drawScreen top =>
      simp only
      split
      · exact facts_push hc _ brg sr k_cons
      · exact facts_push hc _ brg sr k_cons
    | catchDraw => exact facts_plain hc s0 k0
    | maybeInput top =>
      simp only
      split
      · exact facts_push hc _ brg s0 k0
      · exact facts_plain hc s0 k0
    | callScr scr cb arg key =>
      refine facts_push hc _ ?_ (by simp) (k_then (emit_keep P _ _ (by rfl)))
      intro i hi
      simp only [List.mem_append] at hi
      rcases hi with (hi | hi) | hi
      · split at hi
        · simp at hi; subst hi; rfl
        · cases hi
      · exact boring_acts _ i hi
      · simp at hi; subst hi; rfl
    | scrRet scr cb ret key =>
      cases cb with
      | setup =>
        simp only
        split
        · exact facts_plain hc sr k_eq
        · exact facts_bind_map hc (regSource_good _ _) sr k_eq _ (fun c => ⟨rfl, Keep.of_eq rfl rfl rfl⟩)
      | prompt => exact facts_plain hc sr k_eq
      | input => exact facts_plain hc sr k_eq
      | refresh => exact facts_plain hc s0 k0
      | «show» => exact facts_plain hc s0 k0
      | closed => exact facts_plain hc s0 k0
    | printWidget scr =>
      simp only
      split
      · exact facts_good hc (raise_good _ _) s0 k0
      · split
        · exact facts_plain hc s0 k0
        · exact facts_push hc _ (chunkOut_boring scr _ _ _ (by simp)) s0 k0
    | printLines ls => exact facts_plain hc sr k_eq
    | getInput scr args => exact facts_push hc _ brg s0 k0
    | getInput2 scr args =>
      simp only
      split
      · exact facts_plain hc sr k_eq
      · exact facts_good hc (startRequest_good _ _ _ _) sr (k_then (newIH_keep _ _ _ _).1)
    | blockingInput scr cont =>
      exact facts_good' hc (startRequest_good _ _ _ _) [.waitInput c0.A.ihs.length] brg (by exact sr) (by exact ⟨List.prefix_append _ _, rfl, rfl, rfl, rfl, [], rfl, by simp⟩)
    | waitInput ih =>
      simp only
      split
      · exact facts_plain hc s0 k0
      · split
        · exact facts_plain hc s0 k0
        · exact facts_push hc _ brg s0 k0
    | inputReceived s =>
      simp only
      split
      · exact facts_good hc (raise_good _ _) s0 k0
      · refine facts_good hc (c1 := { c0 with code := rest, nextSid := c0.nextSid + 1 }) (Good.bind (enqueue_good _ _) fun c1 => Good.bind (foldlM_good _ (fun c t => ?_) _ _) fun c2 => Good.ok _ _ sr k_eq) sr k_eq
        exact (enqueue_good _ _).mono sr (Keep.of_eq rfl rfl rfl)
    | inputReady n s =>
      simp only
      split
      · exact facts_plain hc s0 k0
      · split
        · exact facts_plain hc sr k_eq
        · split
          · exact facts_push hc _ brg sr k_eq
          · exact facts_plain hc sr k_eq
    | processInput scr key => exact facts_push hc _ brg s0 k0
    | classify scr => exact facts_plain hc sr k_eq
    | catchPI scr => exact facts_plain hc s0 k0
    | countAndAct scr =>
      simp only
      generalize c0.A.setScr scr _ = A'
      split
      · exact facts_good hc (raise_good _ _) sr k_eq
      · split
        · split
          · exact facts_good hc (redraw_good _) sr k_eq
          · exact facts_push hc _ brg sr k_eq
        · exact facts_plain hc sr k_eq
        · exact facts_good hc (redraw_good _) sr k_eq
        · exact facts_push hc _ brg sr k_eq
        · split
          · exact facts_push hc _ brg sr k_eq
          · exact facts_good hc (raise_good _ _) sr k_eq
    | endPI => exact facts_plain hc s0 k0
    | afterQuit q =>
      simp only
      split
      · exact facts_good hc (raise_good _ _) s0 k0
      · exact facts_good hc (raise_good _ _) s0 k0
      · exact facts_good hc (redraw_good _) s0 k0

end Simpleline.G
