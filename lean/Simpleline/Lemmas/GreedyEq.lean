/-
  Helper lemmas for C11b, part 1: the wrap loop of the model (`wrapStep`, `wrapLoop`, `pyWrap`) is the
  greedy wrap of `Spec/GreedySpec.lean`.
-/
import Simpleline.Spec.GreedySpec
import Simpleline.Lemmas.TextWrap

namespace Simpleline

/-! ### the two ways of counting -/

theorem chunksWidth_eq_totalLen (cs : List (List Char)) : chunksWidth cs = totalLen cs :=
  (totalLen_eq_flatten cs).symm

theorem chunksMeasure_eq_wrapMeasure (cs : List (List Char)) : chunksMeasure cs = wrapMeasure cs := by
  rw [chunksMeasure, wrapMeasure, chunksWidth_eq_totalLen]

/-! ### the stages of `wrapStep` -/

theorem takeFit_eq_fitCount (w : Nat) : ∀ (len : Nat) (cs : List (List Char)), len ≤ w →
    takeFit w len cs = (cs.take (fitCount (w - len) cs), cs.drop (fitCount (w - len) cs))
  | _, [], _ => by simp [takeFit, fitCount]
  | len, c :: cs, h => by
    unfold takeFit fitCount
    by_cases hc : len + c.length ≤ w
    · have hc' : c.length ≤ w - len := by omega
      have hsub : w - (len + c.length) = w - len - c.length := by omega
      rw [if_pos hc, if_pos hc', takeFit_eq_fitCount w (len + c.length) cs hc, hsub]
      rfl
    · have hc' : ¬ c.length ≤ w - len := by omega
      rw [if_neg hc, if_neg hc']
      rfl

/-- the inner loop followed by `_handle_long_word` is `greedyLine` -/
theorem fitBreak_eq_greedyLine (w : Nat) (cs : List (List Char)) :
    breakLong w (totalLen (takeFit w 0 cs).1) (takeFit w 0 cs).1 (takeFit w 0 cs).2 =
      greedyLine w cs := by
  rw [takeFit_eq_fitCount w 0 cs (Nat.zero_le _), Nat.sub_zero]
  unfold greedyLine
  simp only []
  cases cs.drop (fitCount w cs) with
  | nil => rfl
  | cons c rest =>
    simp only [breakLong]
    by_cases hc : c.length ≤ w
    · rw [if_pos hc, if_neg (by omega)]
    · rw [if_neg hc, if_pos (by omega), chunksWidth_eq_totalLen]

theorem dropTrail_eq_dropBlankLast (cc : CharClass) (cur : List (List Char)) :
    dropTrail cc cur = dropBlankLast cc cur := by
  rcases List.eq_nil_or_concat cur with rfl | ⟨init, l, rfl⟩
  · rfl
  · rw [List.concat_eq_append, dropTrail_concat]
    simp only [dropBlankLast, List.reverse_append, List.reverse_cons, List.reverse_nil,
      List.nil_append, List.cons_append, dropBlankHead]
    split <;> simp

theorem dropLead_eq_dropBlankHead (cc : CharClass) (haveLines : Bool) (chunks : List (List Char)) :
    dropLead cc haveLines chunks =
      if (!haveLines) = true then chunks else dropBlankHead cc chunks := by
  cases chunks with
  | nil => cases haveLines <;> rfl
  | cons c cs => cases haveLines <;> simp [dropLead, dropBlankHead]

/-! ### one iteration -/

/-- the chunks put on the line in one iteration, before the trailing blank chunk is dropped -/
theorem stepCur_eq_greedyLine (cc : CharClass) (w : Nat) (haveLines : Bool)
    (chunks : List (List Char)) :
    stepCur cc w haveLines chunks = (greedyLine w (dropLead cc haveLines chunks)).1 := by
  rw [stepCur, fitBreak_eq_greedyLine]

theorem wrapStep_snd_eq_greedyLine (cc : CharClass) (w : Nat) (haveLines : Bool)
    (chunks : List (List Char)) :
    (wrapStep cc w haveLines chunks).2 = (greedyLine w (dropLead cc haveLines chunks)).2 := by
  rw [wrapStep_snd, fitBreak_eq_greedyLine]

/-- One iteration of the outer loop of `_wrap_chunks` is one step of the greedy wrap. -/
theorem wrapStep_eq_greedy (cc : CharClass) (w : Nat) (haveLines : Bool)
    (chunks : List (List Char)) :
    wrapStep cc w haveLines chunks =
      (if dropBlankLast cc (greedyLine w
            (if (!haveLines) = true then chunks else dropBlankHead cc chunks)).1 = [] then none
       else some (dropBlankLast cc (greedyLine w
            (if (!haveLines) = true then chunks else dropBlankHead cc chunks)).1).flatten,
       (greedyLine w (if (!haveLines) = true then chunks else dropBlankHead cc chunks)).2) := by
  rw [← dropLead_eq_dropBlankHead]
  apply Prod.ext
  · rw [wrapStep_fst, stepCur_eq_greedyLine, dropTrail_eq_dropBlankLast]
    simp only [List.isEmpty_iff]
  · exact wrapStep_snd_eq_greedyLine cc w haveLines chunks

/-- every iteration consumes a character or a chunk (no hypothesis on the chunks) -/
theorem wrapStep_measure_lt (cc : CharClass) (w : Nat) (hw : 1 ≤ w) (haveLines : Bool)
    (chunks : List (List Char)) (hne : chunks ≠ []) :
    wrapMeasure (wrapStep cc w haveLines chunks).2 < wrapMeasure chunks := by
  rw [wrapStep_eq_greedy, ← chunksMeasure_eq_wrapMeasure, ← chunksMeasure_eq_wrapMeasure]
  exact greedy_rest_lt cc w (!haveLines) chunks (by
    intro h
    rcases h with h | h
    · exact hne h
    · omega)

/-! ### the loop -/

theorem greedyFrom_nil (cc : CharClass) (w : Nat) (first : Bool) : greedyFrom cc w first [] = [] := by
  rw [greedyFrom]
  simp

theorem greedyFrom_unfold (cc : CharClass) (w : Nat) (hw : 1 ≤ w) (first : Bool)
    (chunks : List (List Char)) (hne : chunks ≠ []) :
    greedyFrom cc w first chunks =
      if dropBlankLast cc (greedyLine w (if first = true then chunks else dropBlankHead cc chunks)).1 = []
      then greedyFrom cc w first
        (greedyLine w (if first = true then chunks else dropBlankHead cc chunks)).2
      else dropBlankLast cc (greedyLine w (if first = true then chunks else dropBlankHead cc chunks)).1 ::
        greedyFrom cc w false
          (greedyLine w (if first = true then chunks else dropBlankHead cc chunks)).2 := by
  have h : ¬ (chunks = [] ∨ w = 0) := by
    intro h
    rcases h with h | h
    · exact hne h
    · omega
  rw [greedyFrom, dif_neg h]

theorem wrapLoop_eq_greedyFrom (cc : CharClass) (w : Nat) (hw : 1 ≤ w) (haveLines : Bool)
    (chunks : List (List Char)) :
    wrapLoop cc w haveLines chunks = (greedyFrom cc w (!haveLines) chunks).map List.flatten := by
  induction haveLines, chunks using wrapLoop.induct cc w with
  | case1 hl => rw [wrapLoop, if_pos rfl, greedyFrom_nil]; rfl
  | case2 hl chunks hne hlt l hl' ih =>
    have hfst := congrArg Prod.fst (wrapStep_eq_greedy cc w hl chunks)
    have hsnd := congrArg Prod.snd (wrapStep_eq_greedy cc w hl chunks)
    rw [wrapLoop, if_neg hne, if_pos hlt, hl', greedyFrom_unfold cc w hw _ chunks hne]
    generalize (if (!hl) = true then chunks else dropBlankHead cc chunks) = start at hfst hsnd ⊢
    simp only [] at hfst hsnd ⊢
    rw [ih, hsnd]
    rw [hl'] at hfst
    by_cases hline : dropBlankLast cc (greedyLine w start).1 = []
    · rw [if_pos hline] at hfst
      cases hfst
    · rw [if_neg hline] at hfst ⊢
      simp only [Option.some.injEq] at hfst
      rw [List.map_cons, ← hfst]
      rfl
  | case3 hl chunks hne hlt hl' ih =>
    have hfst := congrArg Prod.fst (wrapStep_eq_greedy cc w hl chunks)
    have hsnd := congrArg Prod.snd (wrapStep_eq_greedy cc w hl chunks)
    rw [wrapLoop, if_neg hne, if_pos hlt, hl', greedyFrom_unfold cc w hw _ chunks hne]
    generalize (if (!hl) = true then chunks else dropBlankHead cc chunks) = start at hfst hsnd ⊢
    simp only [] at hfst hsnd ⊢
    rw [ih, hsnd]
    rw [hl'] at hfst
    by_cases hline : dropBlankLast cc (greedyLine w start).1 = []
    · rw [if_pos hline]
    · rw [if_neg hline] at hfst
      cases hfst
  | case4 hl chunks hne hlt =>
    exact absurd (wrapStep_measure_lt cc w hw hl chunks hne) hlt

theorem pyWrap_eq_greedyLines (cc : CharClass) (l : List Char) (w : Nat) (hw : 1 ≤ w) :
    pyWrap cc l w = (greedyLines cc w (splitChunks cc (munge l))).map List.flatten :=
  wrapLoop_eq_greedyFrom cc w hw false _

end Simpleline
