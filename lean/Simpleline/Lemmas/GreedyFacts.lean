/-
  Helper lemmas for C11b, part 2: the characteristic facts of a greedy wrap — `fitCount` is the longest
  prefix that fits, a line ends only before a chunk that does not fit, the rule for cutting a long
  word, and nothing but blanks is lost — for the specification (`greedyLine`) and, through
  `Lemmas/GreedyEq.lean`, for the model (`wrapStep`, `wrapLoop`, `pyWrap`).
-/
import Simpleline.Lemmas.GreedyEq

namespace Simpleline

/-! ### `fitCount` is the longest prefix that fits -/

theorem chunksWidth_cons (c : List Char) (cs : List (List Char)) :
    chunksWidth (c :: cs) = c.length + chunksWidth cs := by
  simp [chunksWidth]

theorem fitCount_le_length : ∀ (room : Nat) (cs : List (List Char)), fitCount room cs ≤ cs.length
  | _, [] => Nat.le_refl _
  | room, c :: cs => by
    unfold fitCount
    split
    · have := fitCount_le_length (room - c.length) cs
      simp only [List.length_cons]
      omega
    · exact Nat.zero_le _

theorem fitCount_max : ∀ (room : Nat) (cs : List (List Char)) (n : Nat), n ≤ cs.length →
    chunksWidth (cs.take n) ≤ room → n ≤ fitCount room cs
  | _, [], n, hn, _ => by
    have : n = 0 := by simpa using hn
    omega
  | _, _ :: _, 0, _, _ => Nat.zero_le _
  | room, c :: cs, n + 1, hn, hfit => by
    rw [List.take_succ_cons, chunksWidth_cons] at hfit
    have hc : c.length ≤ room := by omega
    rw [fitCount, if_pos hc]
    have := fitCount_max (room - c.length) cs n (by simpa using hn) (by omega)
    omega

/-- the chunk after the prefix does not fit -/
theorem fitCount_next : ∀ (room : Nat) (cs : List (List Char)) (c : List Char)
    (rest : List (List Char)), cs.drop (fitCount room cs) = c :: rest →
    room < chunksWidth (cs.take (fitCount room cs)) + c.length
  | _, [], c, rest, h => by simp at h
  | room, d :: ds, c, rest, h => by
    unfold fitCount at h ⊢
    split
    · next hd =>
      rw [if_pos hd, List.drop_succ_cons] at h
      have := fitCount_next (room - d.length) ds c rest h
      rw [List.take_succ_cons, chunksWidth_cons]
      omega
    · next hd =>
      rw [if_neg hd, List.drop_zero] at h
      simp only [List.cons.injEq] at h
      obtain ⟨rfl, _⟩ := h
      simp only [List.take_zero, chunksWidth, List.flatten_nil, List.length_nil]
      omega

/-- the prefix stops at a chunk that is too long for what is left -/
theorem fitCount_append : ∀ (room : Nat) (pre : List (List Char)) (c : List Char)
    (post : List (List Char)), chunksWidth pre ≤ room → room < chunksWidth pre + c.length →
    fitCount room (pre ++ c :: post) = pre.length
  | room, [], c, post, _, hc => by
    simp only [chunksWidth, List.flatten_nil, List.length_nil, Nat.zero_add] at hc
    rw [List.nil_append, fitCount, if_neg (by omega)]
    rfl
  | room, d :: ds, c, post, hpre, hc => by
    rw [chunksWidth_cons] at hpre hc
    rw [List.cons_append, fitCount, if_pos (by omega),
      fitCount_append (room - d.length) ds c post (by omega) (by omega)]
    rfl

/-! ### `greedyLine` -/

/-- a line ends only before a chunk that does not fit on it -/
theorem greedyLine_maximal (w : Nat) (chunks : List (List Char)) (c : List Char)
    (rest : List (List Char)) (h : (greedyLine w chunks).2 = c :: rest) :
    w < chunksWidth (greedyLine w chunks).1 + c.length := by
  have hnext := fitCount_next w chunks
  unfold greedyLine at h ⊢
  simp only [] at h ⊢
  cases hd : chunks.drop (fitCount w chunks) with
  | nil => rw [hd] at h; cases h
  | cons d ds =>
    rw [hd] at h
    have hnext := hnext d ds hd
    simp only [] at h ⊢
    by_cases hfit : d.length ≤ w
    · rw [if_pos hfit] at h ⊢
      simp only [List.cons.injEq] at h
      obtain ⟨rfl, _⟩ := h
      exact hnext
    · rw [if_neg hfit] at h ⊢
      simp only [List.cons.injEq] at h
      obtain ⟨rfl, _⟩ := h
      simp only [chunksWidth, List.flatten_append, List.flatten_cons, List.flatten_nil,
        List.append_nil, List.length_append, List.length_take, List.length_drop]
      omega

/-- a chunk longer than the line is cut at `cutPoint` of the room left -/
theorem greedyLine_long (w : Nat) (pre : List (List Char)) (c : List Char) (post : List (List Char))
    (hpre : chunksWidth pre ≤ w) (hc : w < c.length) :
    greedyLine w (pre ++ c :: post) =
      (pre ++ [c.take (cutPoint c (w - chunksWidth pre))],
       c.drop (cutPoint c (w - chunksWidth pre)) :: post) := by
  have hn := fitCount_append w pre c post hpre (by omega)
  unfold greedyLine
  simp only [hn, List.take_left', List.drop_left']
  rw [if_neg (by omega)]

/-! ### `cutPoint`: at the room left, or earlier right after the last hyphen that leaves room -/

theorem nthIs_isHyphen (c : List Char) (i : Nat) : nthIs isHyphen c i = true ↔ c[i]? = some '-' := by
  unfold nthIs
  cases c[i]? with
  | none => simp
  | some x => simp [isHyphen]

theorem rfindHyphen_some (c : List Char) : ∀ (s h : Nat), rfindHyphen c s = some h →
    h < s ∧ c[h]? = some '-' ∧ ∀ i, h < i → i < s → c[i]? ≠ some '-'
  | 0, h, hh => by simp [rfindHyphen] at hh
  | s + 1, h, hh => by
    unfold rfindHyphen at hh
    split at hh
    · next hs =>
      simp only [Option.some.injEq] at hh
      subst hh
      exact ⟨Nat.lt_succ_self _, (nthIs_isHyphen c s).1 hs, fun i h1 h2 => by omega⟩
    · next hs =>
      obtain ⟨h1, h2, h3⟩ := rfindHyphen_some c s h hh
      refine ⟨by omega, h2, fun i hi1 hi2 => ?_⟩
      by_cases hi : i = s
      · subst hi
        exact fun e => hs ((nthIs_isHyphen c i).2 e)
      · exact h3 i hi1 (by omega)

/-- The rule of `_handle_long_word` for the place of the cut in a room of `s` columns: at `s`, or
earlier right after a hyphen — the last hyphen before column `s`, provided the chunk has a
character other than a hyphen before it. -/
theorem cutPoint_rule (c : List Char) (s : Nat) :
    cutPoint c s = s ∨
    (cutPoint c s < s ∧ 2 ≤ cutPoint c s ∧ c[cutPoint c s - 1]? = some '-' ∧
      (∃ x ∈ c.take (cutPoint c s - 1), x ≠ '-') ∧
      ∀ i, cutPoint c s ≤ i → i < s → c[i]? ≠ some '-') := by
  unfold cutPoint
  split
  · next h hh =>
    obtain ⟨h1, h2, h3⟩ := rfindHyphen_some c s h hh
    split
    · next hcond =>
      by_cases hs : h + 1 = s
      · left; exact hs
      · right
        obtain ⟨hpos, hany⟩ := hcond
        simp only [List.any_eq_true, bne_iff_ne] at hany
        refine ⟨by omega, by omega, by simpa using h2, by simpa using hany, fun i hi1 hi2 => ?_⟩
        exact h3 i (by omega) hi2
    · left; rfl
  · left; rfl

/-! ### the same facts for one iteration of the model's loop -/

theorem wrapStep_maximal (cc : CharClass) (w : Nat) (haveLines : Bool) (chunks : List (List Char))
    (c : List Char) (rest : List (List Char)) (h : (wrapStep cc w haveLines chunks).2 = c :: rest) :
    w < totalLen (stepCur cc w haveLines chunks) + c.length := by
  rw [wrapStep_snd_eq_greedyLine] at h
  rw [stepCur_eq_greedyLine, ← chunksWidth_eq_totalLen]
  exact greedyLine_maximal w _ c rest h

theorem wrapStep_long (cc : CharClass) (w : Nat) (haveLines : Bool) (chunks : List (List Char))
    (pre : List (List Char)) (c : List Char) (post : List (List Char))
    (hs : dropLead cc haveLines chunks = pre ++ c :: post) (hpre : totalLen pre ≤ w)
    (hc : w < c.length) :
    stepCur cc w haveLines chunks = pre ++ [c.take (cutPoint c (w - totalLen pre))] ∧
    (wrapStep cc w haveLines chunks).2 = c.drop (cutPoint c (w - totalLen pre)) :: post := by
  rw [stepCur_eq_greedyLine, wrapStep_snd_eq_greedyLine, hs,
    greedyLine_long w pre c post (by rwa [chunksWidth_eq_totalLen]) hc, chunksWidth_eq_totalLen]
  exact ⟨rfl, rfl⟩

/-- the piece of a long word put on a line fills the line exactly, or ends right after a hyphen -/
theorem wrapStep_long_fills (cc : CharClass) (w : Nat) (haveLines : Bool) (chunks : List (List Char))
    (pre : List (List Char)) (c : List Char) (post : List (List Char))
    (hs : dropLead cc haveLines chunks = pre ++ c :: post) (hpre : totalLen pre ≤ w)
    (hc : w < c.length) :
    ∃ k, k = cutPoint c (w - totalLen pre) ∧
      stepCur cc w haveLines chunks = pre ++ [c.take k] ∧
      (wrapStep cc w haveLines chunks).2 = c.drop k :: post ∧
      (totalLen (stepCur cc w haveLines chunks) = w ∨
       (totalLen (stepCur cc w haveLines chunks) < w ∧ 2 ≤ k ∧ c[k - 1]? = some '-' ∧
        (∃ x ∈ c.take (k - 1), x ≠ '-') ∧
        ∀ i, k ≤ i → i < w - totalLen pre → c[i]? ≠ some '-')) := by
  obtain ⟨h1, h2⟩ := wrapStep_long cc w haveLines chunks pre c post hs hpre hc
  refine ⟨_, rfl, h1, h2, ?_⟩
  have hle := cutPoint_le c (w - totalLen pre)
  have hlen : totalLen (stepCur cc w haveLines chunks) =
      totalLen pre + cutPoint c (w - totalLen pre) := by
    rw [h1]
    simp only [totalLen_append, totalLen_cons, totalLen_nil, List.length_take]
    omega
  rw [hlen]
  rcases cutPoint_rule c (w - totalLen pre) with h | ⟨h3, h4, h5, h6, h7⟩
  · left; omega
  · right; exact ⟨by omega, h4, h5, h6, h7⟩

/-! ### nothing but blanks is lost -/

theorem WithBlanks.blank_nil_line (cc : CharClass) {src : List Char} {lines : List (List Char)}
    (h : WithBlanks cc src lines) : WithBlanks cc ([] ++ src) lines := by
  simpa using h

theorem wrapLoop_withBlanks (cc : CharClass) (w : Nat) (hw : 1 ≤ w) (haveLines : Bool)
    (chunks : List (List Char)) :
    WithBlanks cc chunks.flatten (wrapLoop cc w haveLines chunks) := by
  induction haveLines, chunks using wrapLoop.induct cc w with
  | case1 hl => rw [wrapLoop, if_pos rfl]; exact .nil
  | case2 hl chunks hne hlt l hl' ih =>
    rw [wrapLoop, if_neg hne, if_pos hlt, hl']
    obtain ⟨lead, trail, he, hbl, hbt⟩ := wrapStep_struct cc w hl chunks
    rw [hl'] at he
    rw [he]
    simp only [Option.getD_some, List.append_assoc]
    exact .blank hbl (.line (.blank hbt ih))
  | case3 hl chunks hne hlt hl' ih =>
    rw [wrapLoop, if_neg hne, if_pos hlt, hl']
    obtain ⟨lead, trail, he, hbl, hbt⟩ := wrapStep_struct cc w hl chunks
    rw [hl'] at he
    rw [he]
    simp only [Option.getD_none, List.append_nil, List.append_assoc]
    exact .blank hbl (.blank hbt ih)
  | case4 hl chunks hne hlt =>
    exact absurd (wrapStep_measure_lt cc w hw hl chunks hne) hlt

theorem pyWrap_withBlanks (cc : CharClass) (l : List Char) (w : Nat) (hw : 1 ≤ w) :
    WithBlanks cc (munge l) (pyWrap cc l w) := by
  have := wrapLoop_withBlanks cc w hw false (splitChunks cc (munge l))
  rwa [splitChunks, splitAux_flatten] at this

end Simpleline
