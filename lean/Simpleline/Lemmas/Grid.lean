/-
  Helper lemmas for `draw` and the typewriter (C15). Statements used by `Props/C15.lean`.
-/
import Simpleline.Spec.GridSpec

namespace Simpleline

/-! ### rows: `padTo`, `overlay` -/

theorem padTo_length (n : Nat) (r : List Char) : (padTo n r).length = max r.length n := by
  simp only [padTo, List.length_append, List.length_replicate]; omega

theorem padTo_getElem? (n : Nat) (r : List Char) (c : Nat) :
    (padTo n r)[c]? = if c < r.length then r[c]? else if c < n then some ' ' else none := by
  unfold padTo
  rw [List.getElem?_append]
  split
  · rfl
  · rw [List.getElem?_replicate]
    split <;> split <;> first | rfl | omega

theorem overlay_length (r s : List Char) (col : Nat) :
    (overlay r s col).length = max r.length (col + s.length) := by
  simp only [overlay, List.length_append, List.length_take, List.length_drop, padTo_length]; omega

theorem overlay_getElem? (r s : List Char) (col c : Nat) :
    (overlay r s col)[c]? =
      if c < col then (padTo (col + s.length) r)[c]?
      else if c < col + s.length then s[c - col]?
      else (padTo (col + s.length) r)[c]? := by
  have hl : ((padTo (col + s.length) r).take col).length = col := by
    rw [List.length_take, padTo_length]; omega
  unfold overlay
  rw [List.append_assoc, List.getElem?_append, hl]
  split
  · rw [List.getElem?_take]; simp [*]
  · rw [List.getElem?_append]
    split
    · rw [if_pos (by omega)]
    · rw [if_neg (by omega), List.getElem?_drop]
      congr 1; omega

theorem overlay_getElem?_inside (r s : List Char) (col b : Nat) (hb : b < s.length) :
    (overlay r s col)[col + b]? = s[b]? := by
  rw [overlay_getElem?, if_neg (by omega), if_pos (by omega)]
  congr 1; omega

theorem overlay_getElem?_outside (r s : List Char) (col c : Nat) (hc : c < col ∨ col + s.length ≤ c) :
    (overlay r s col)[c]? =
      if c < r.length then r[c]? else if c < col + s.length then some ' ' else none := by
  rw [overlay_getElem?]
  rcases hc with hc | hc
  · rw [if_pos hc, padTo_getElem?]
  · rw [if_neg (by omega), if_neg (by omega), padTo_getElem?]

/-! ### grids: `extendRows`, `drawInto` -/

theorem extendRows_length (buf : Grid) (n : Nat) : (extendRows buf n).length = max buf.length n := by
  simp only [extendRows, List.length_append, List.length_replicate]; omega

theorem extendRows_getD (buf : Grid) (n i : Nat) : (extendRows buf n).getD i [] = buf.getD i [] := by
  simp only [extendRows, List.getD_eq_getElem?_getD, List.getElem?_append]
  split
  · rfl
  · rw [List.getElem?_replicate, List.getElem?_eq_none (by omega)]
    split <;> rfl

theorem cell_extendRows (buf : Grid) (n r c : Nat) : cell (extendRows buf n) r c = cell buf r c := by
  simp only [cell, extendRows_getD]

theorem drawInto_length (buf src : Grid) (row col : Nat) :
    (drawInto buf src row col).length = max buf.length (row + src.length) := by
  simp only [drawInto, List.length_mapIdx, extendRows_length]

theorem drawInto_getD (buf src : Grid) (row col i : Nat) :
    (drawInto buf src row col).getD i [] =
      if row ≤ i ∧ i < row + src.length then overlay (buf.getD i []) (src.getD (i - row) []) col
      else buf.getD i [] := by
  have hx := extendRows_getD buf (row + src.length) i
  have hlen := extendRows_length buf (row + src.length)
  simp only [List.getD_eq_getElem?_getD] at hx ⊢
  simp only [drawInto, List.getElem?_mapIdx]
  by_cases hi : i < (extendRows buf (row + src.length)).length
  · rw [List.getElem?_eq_getElem hi] at hx ⊢
    simp only [Option.map_some, Option.getD_some] at hx ⊢
    rw [hx]
    simp only [List.getD_eq_getElem?_getD]
  · have hn : (extendRows buf (row + src.length))[i]? = none := List.getElem?_eq_none (by omega)
    rw [hn] at hx ⊢
    simp only [Option.map_none, Option.getD_none] at hx ⊢
    rw [if_neg (by omega), ← hx]

theorem drawInto_other_rows (buf src : Grid) (row col i : Nat)
    (hi : i < row ∨ row + src.length ≤ i) :
    (drawInto buf src row col).getD i [] = buf.getD i [] := by
  rw [drawInto_getD, if_neg (by omega)]

theorem drawInto_row (buf src : Grid) (row col a : Nat) (ha : a < src.length) :
    (drawInto buf src row col).getD (row + a) [] =
      overlay (buf.getD (row + a) []) (src.getD a []) col := by
  rw [drawInto_getD, if_pos (by omega)]
  congr 2; omega

theorem drawInto_row_length (buf src : Grid) (row col a : Nat) (ha : a < src.length) :
    ((drawInto buf src row col).getD (row + a) []).length =
      max (buf.getD (row + a) []).length (col + (src.getD a []).length) := by
  rw [drawInto_row buf src row col a ha, overlay_length]

theorem drawInto_inside (buf src : Grid) (row col a b : Nat)
    (ha : a < src.length) (hb : b < (src.getD a []).length) :
    cell (drawInto buf src row col) (row + a) (col + b) = cell src a b := by
  simp only [cell]
  rw [drawInto_row buf src row col a ha, overlay_getElem?_inside _ _ _ _ hb]

theorem drawInto_outside (buf src : Grid) (row col a c : Nat)
    (ha : a < src.length) (hc : c < col ∨ col + (src.getD a []).length ≤ c) :
    cell (drawInto buf src row col) (row + a) c =
      if c < (buf.getD (row + a) []).length then cell buf (row + a) c
      else if c < col + (src.getD a []).length then some ' ' else none := by
  simp only [cell]
  rw [drawInto_row buf src row col a ha, overlay_getElem?_outside _ _ _ _ hc]

/-! ### `setCell` -/

theorem setCell_getD_ne (buf : Grid) (x y i : Nat) (ch : Char) (h : i ≠ x) :
    (setCell buf x y ch).getD i [] = buf.getD i [] := by
  simp only [setCell, List.getD_eq_getElem?_getD]
  rw [List.getElem?_modify_ne _ _ (Ne.symm h)]

theorem setCell_getD_eq (buf : Grid) (x y : Nat) (ch : Char) (hx : x < buf.length) :
    (setCell buf x y ch).getD x [] = (padTo (y + 1) (buf.getD x [])).set y ch := by
  simp only [setCell, List.getD_eq_getElem?_getD, List.getElem?_modify_eq,
    List.getElem?_eq_getElem hx, Option.map_eq_map, Option.map_some, Option.getD_some]

theorem cell_setCell_same (buf : Grid) (x y : Nat) (ch : Char) (hx : x < buf.length) :
    cell (setCell buf x y ch) x y = some ch := by
  simp only [cell]
  rw [setCell_getD_eq _ _ _ _ hx, List.getElem?_set, if_pos rfl, if_pos]
  rw [padTo_length]; omega

theorem cell_setCell_other (buf : Grid) (x y : Nat) (ch : Char) (r c : Nat) (hx : x < buf.length)
    (h : (x, y) ≠ (r, c)) :
    cell (setCell buf x y ch) r c = cell buf r c ∨
      (cell buf r c = none ∧ cell (setCell buf x y ch) r c = some ' ') := by
  by_cases hr : r = x
  · subst hr
    have hcy : y ≠ c := fun e => h (by rw [e])
    simp only [cell]
    rw [setCell_getD_eq _ _ _ _ hx, List.getElem?_set, if_neg hcy, padTo_getElem?]
    by_cases h1 : c < (buf.getD r []).length
    · left; rw [if_pos h1]
    · rw [if_neg h1, List.getElem?_eq_none (by omega)]
      by_cases h2 : c < y + 1
      · right; rw [if_pos h2]; exact ⟨rfl, rfl⟩
      · left; rw [if_neg h2]
  · left
    simp only [cell]
    rw [setCell_getD_ne _ _ _ _ _ hr]

/-! ### positions: `advance`, `pathFrom` -/

/-- reading order on positions -/
def posLt (p q : Nat × Nat) : Prop := p.1 < q.1 ∨ (p.1 = q.1 ∧ p.2 < q.2)

theorem posLt_trans {p q r : Nat × Nat} (h1 : posLt p q) (h2 : posLt q r) : posLt p r := by
  unfold posLt at *; omega

theorem posLt_ne {p q : Nat × Nat} (h : posLt p q) : q ≠ p := by
  intro e; subst e; unfold posLt at h; omega

theorem advance_gt (col : Nat) (width : Option Int) (block : Bool) (p : Nat × Nat) (c : Char) :
    posLt p (advance col width block p c) := by
  unfold advance posLt
  split
  · left; simp
  · cases width with
    | none => right; simp
    | some w =>
      simp only
      split
      · left; simp
      · right; simp

theorem path_gt (col : Nat) (width : Option Int) (block : Bool) (cs : List Char) :
    ∀ (p q : Nat × Nat) (j : Nat), posLt p q → j < cs.length →
      posLt p ((pathFrom col width block q cs).getD j (0, 0)) := by
  induction cs with
  | nil => intro p q j _ hj; simp at hj
  | cons c cs ih =>
    intro p q j hpq hj
    cases j with
    | zero => simpa only [pathFrom, List.getD_cons_zero] using hpq
    | succ j =>
      simp only [pathFrom, List.getD_cons_succ]
      exact ih p _ j (posLt_trans hpq (advance_gt ..)) (by simpa using hj)

theorem path_increasing_gen (col : Nat) (width : Option Int) (block : Bool) (text : List Char) :
    ∀ (p : Nat × Nat) (i j : Nat), i < j → j < text.length →
      posLt ((pathFrom col width block p text).getD i (0, 0))
        ((pathFrom col width block p text).getD j (0, 0)) := by
  induction text with
  | nil => intro p i j _ hj; simp at hj
  | cons c cs ih =>
    intro p i j hij hj
    cases j with
    | zero => omega
    | succ j =>
      have hj' : j < cs.length := by simpa using hj
      cases i with
      | zero =>
        simp only [pathFrom, List.getD_cons_zero, List.getD_cons_succ]
        exact path_gt col width block cs p _ j (advance_gt ..) hj'
      | succ i =>
        simp only [pathFrom, List.getD_cons_succ]
        exact ih _ i j (by omega) hj'

theorem path_increasing (text : List Char) (row col : Nat) (width : Option Int) (block : Bool)
    (i j : Nat) (hij : i < j) (hj : j < text.length) :
    ((pathFrom col width block (row, col) text).getD i (0, 0)).1 <
        ((pathFrom col width block (row, col) text).getD j (0, 0)).1 ∨
      (((pathFrom col width block (row, col) text).getD i (0, 0)).1 =
          ((pathFrom col width block (row, col) text).getD j (0, 0)).1 ∧
        ((pathFrom col width block (row, col) text).getD i (0, 0)).2 <
          ((pathFrom col width block (row, col) text).getD j (0, 0)).2) :=
  path_increasing_gen col width block text (row, col) i j hij hj

theorem advance_within (col w : Nat) (hw : 1 ≤ w) (block : Bool) (hb : block = true ∨ col = 0)
    (p : Nat × Nat) (c : Char) (hp : p.2 < col + w ∧ col ≤ p.2) :
    (advance col (some (w : Int)) block p c).2 < col + w ∧
      col ≤ (advance col (some (w : Int)) block p c).2 := by
  have h0 : (if block = true then col else 0) = col := by
    rcases hb with hb | hb
    · rw [if_pos hb]
    · subst hb; split <;> rfl
  unfold advance
  simp only [h0]
  split
  · simp only; omega
  · split
    · simp only; omega
    · simp only; omega

theorem path_within_gen (col w : Nat) (hw : 1 ≤ w) (block : Bool) (hb : block = true ∨ col = 0)
    (text : List Char) :
    ∀ (p : Nat × Nat) (i : Nat), (p.2 < col + w ∧ col ≤ p.2) → i < text.length →
      ((pathFrom col (some (w : Int)) block p text).getD i (0, 0)).2 < col + w ∧
      col ≤ ((pathFrom col (some (w : Int)) block p text).getD i (0, 0)).2 := by
  induction text with
  | nil => intro p i _ hi; simp at hi
  | cons c cs ih =>
    intro p i hp hi
    cases i with
    | zero => simpa only [pathFrom, List.getD_cons_zero] using hp
    | succ i =>
      simp only [pathFrom, List.getD_cons_succ]
      exact ih _ i (advance_within col w hw block hb p c hp) (by simpa using hi)

theorem path_within (text : List Char) (row col : Nat) (w : Nat) (hw : 1 ≤ w) (block : Bool)
    (hb : block = true ∨ col = 0) (i : Nat) (hi : i < text.length) :
    ((pathFrom col (some (w : Int)) block (row, col) text).getD i (0, 0)).2 < col + w ∧
    col ≤ ((pathFrom col (some (w : Int)) block (row, col) text).getD i (0, 0)).2 :=
  path_within_gen col w hw block hb text (row, col) i ⟨by simp only; omega, Nat.le_refl _⟩ hi

/-! ### one typewriter step -/

theorem twStep_pos (col : Nat) (width : Option Int) (block : Bool) (s : TW) (ch : Char) :
    ((twStep col width block s ch).x, (twStep col width block s ch).y) =
      advance col width block (s.x, s.y) ch := by
  unfold twStep advance
  split
  · rfl
  · cases width with
    | none => rfl
    | some w => simp only; split <;> rfl

theorem twStep_buf_nl (col : Nat) (width : Option Int) (block : Bool) (s : TW) :
    (twStep col width block s '\n').buf = extendRows s.buf (s.x + 2) := by
  simp only [twStep, if_true]

theorem twStep_buf_char (col : Nat) (width : Option Int) (block : Bool) (s : TW) (ch : Char)
    (hc : ch ≠ '\n') :
    (twStep col width block s ch).buf = setCell (extendRows s.buf (s.x + 1)) s.x s.y ch := by
  unfold twStep
  rw [if_neg hc]
  cases width with
  | none => rfl
  | some w => simp only; split <;> rfl

theorem twStep_cell_same (col : Nat) (width : Option Int) (block : Bool) (s : TW) (ch : Char)
    (hc : ch ≠ '\n') :
    cell (twStep col width block s ch).buf s.x s.y = some ch := by
  rw [twStep_buf_char _ _ _ _ _ hc]
  exact cell_setCell_same _ _ _ _ (by rw [extendRows_length]; omega)

theorem twStep_cell_other (col : Nat) (width : Option Int) (block : Bool) (s : TW) (ch : Char)
    (r c : Nat) (h : ch ≠ '\n' → (s.x, s.y) ≠ (r, c)) :
    cell (twStep col width block s ch).buf r c = cell s.buf r c ∨
      (cell s.buf r c = none ∧ cell (twStep col width block s ch).buf r c = some ' ') := by
  by_cases hc : ch = '\n'
  · subst hc
    left
    rw [twStep_buf_nl, cell_extendRows]
  · rw [twStep_buf_char _ _ _ _ _ hc]
    have := cell_setCell_other (extendRows s.buf (s.x + 1)) s.x s.y ch r c
      (by rw [extendRows_length]; omega) (h hc)
    rwa [cell_extendRows] at this

/-! ### the whole text -/

theorem foldl_twStep_pos (col : Nat) (width : Option Int) (block : Bool) (text : List Char) :
    ∀ s : TW, ((text.foldl (twStep col width block) s).x, (text.foldl (twStep col width block) s).y) =
      text.foldl (advance col width block) (s.x, s.y) := by
  induction text with
  | nil => intro s; rfl
  | cons c cs ih =>
    intro s
    simp only [List.foldl_cons]
    rw [ih, twStep_pos]

theorem typewrite_pos (buf : Grid) (text : List Char) (row col : Nat) (width : Option Int) (block : Bool) :
    ((typewrite buf text row col width block).x, (typewrite buf text row col width block).y) =
      text.foldl (advance col width block) (row, col) :=
  foldl_twStep_pos col width block text { buf := buf, x := row, y := col }

theorem foldl_twStep_frame (col : Nat) (width : Option Int) (block : Bool) (r c : Nat)
    (text : List Char) :
    ∀ s : TW,
      (∀ i, (hi : i < text.length) → text[i] ≠ '\n' →
        (pathFrom col width block (s.x, s.y) text).getD i (0, 0) ≠ (r, c)) →
      cell (text.foldl (twStep col width block) s).buf r c = cell s.buf r c ∨
        (cell s.buf r c = none ∧
          (cell (text.foldl (twStep col width block) s).buf r c = some ' ' ∨
           cell (text.foldl (twStep col width block) s).buf r c = none)) := by
  induction text with
  | nil => intro s _; left; rfl
  | cons ch cs ih =>
    intro s hoff
    simp only [List.foldl_cons]
    have hstep := twStep_cell_other col width block s ch r c (by
      intro hc
      have := hoff 0 (by simp) (by simpa using hc)
      simpa only [pathFrom, List.getD_cons_zero] using this)
    have hrest := ih (twStep col width block s ch) (by
      intro i hi hc
      have := hoff (i + 1) (by simpa using hi) (by simpa using hc)
      rw [twStep_pos]
      simpa only [pathFrom, List.getD_cons_succ] using this)
    rcases hrest with h1 | ⟨h1, h2⟩
    · rcases hstep with h3 | ⟨h3, h4⟩
      · left; rw [h1, h3]
      · right; exact ⟨h3, Or.inl (by rw [h1, h4])⟩
    · rcases hstep with h3 | ⟨h3, h4⟩
      · right; exact ⟨by rw [← h3, h1], h2⟩
      · rw [h4] at h1; cases h1

theorem typewrite_frame (buf : Grid) (text : List Char) (row col : Nat) (width : Option Int) (block : Bool)
    (r c : Nat)
    (hoff : ∀ i, (hi : i < text.length) → text[i] ≠ '\n' →
      (pathFrom col width block (row, col) text).getD i (0, 0) ≠ (r, c)) :
    cell (typewrite buf text row col width block).buf r c = cell buf r c ∨
      (cell buf r c = none ∧
        (cell (typewrite buf text row col width block).buf r c = some ' ' ∨
         cell (typewrite buf text row col width block).buf r c = none)) :=
  foldl_twStep_frame col width block r c text { buf := buf, x := row, y := col } hoff

theorem foldl_twStep_cell (col : Nat) (width : Option Int) (block : Bool) (text : List Char) :
    ∀ (s : TW) (i : Nat) (hi : i < text.length), text[i] ≠ '\n' →
      cell (text.foldl (twStep col width block) s).buf
        ((pathFrom col width block (s.x, s.y) text).getD i (0, 0)).1
        ((pathFrom col width block (s.x, s.y) text).getD i (0, 0)).2 = some text[i] := by
  induction text with
  | nil => intro s i hi; simp at hi
  | cons ch cs ih =>
    intro s i hi hc
    simp only [List.foldl_cons]
    cases i with
    | zero =>
      simp only [pathFrom, List.getD_cons_zero, List.getElem_cons_zero] at hc ⊢
      have hsame := twStep_cell_same col width block s ch hc
      have hfr := foldl_twStep_frame col width block s.x s.y cs (twStep col width block s ch) (by
        intro j hj _
        rw [twStep_pos]
        exact posLt_ne (path_gt col width block cs (s.x, s.y) _ j (advance_gt ..) hj))
      rcases hfr with h | ⟨h, _⟩
      · rw [h, hsame]
      · rw [hsame] at h; cases h
    | succ i =>
      simp only [pathFrom, List.getD_cons_succ, List.getElem_cons_succ] at hc ⊢
      have := ih (twStep col width block s ch) i (by simpa using hi) hc
      rwa [twStep_pos] at this

theorem typewrite_cell (buf : Grid) (text : List Char) (row col : Nat) (width : Option Int) (block : Bool)
    (i : Nat) (hi : i < text.length) (hc : text[i] ≠ '\n') :
    cell (typewrite buf text row col width block).buf
      ((pathFrom col width block (row, col) text).getD i (0, 0)).1
      ((pathFrom col width block (row, col) text).getD i (0, 0)).2 = some text[i] :=
  foldl_twStep_cell col width block text { buf := buf, x := row, y := col } i hi hc

end Simpleline
