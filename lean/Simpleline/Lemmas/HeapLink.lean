/-
  Link to the vocabulary of C01: the sorted list a heap-based queue stands for is a well-formed
  `EQueue` (`EQueue.Sorted` of `Spec/LoopSpec.lean`).
-/
import Simpleline.Lemmas.HeapQueue
import Simpleline.Spec.LoopSpec

namespace Simpleline.Heapq

theorem abs_sorted {q : HQueue} (h : Inv q) : (abs q).Sorted where
  ordered := by
    have s := sortL_sorted q.heap.toList
    have d : DistinctSeq (sortL q.heap.toList) := DistinctSeq.perm h.2.2.1 (sortL_perm _).symm
    unfold SortedL at s
    unfold DistinctSeq at d
    refine (s.and d).imp ?_
    intro a b hab
    have := (entryLt_false_iff b a).1 hab.1
    have := hab.2
    unfold Simpleline.entryLt
    omega
  fresh := fun e he => h.2.1 e ((sortL_perm _).subset he)
  prio := fun e he => h.2.2.2 e ((sortL_perm _).subset he)

end Simpleline.Heapq
