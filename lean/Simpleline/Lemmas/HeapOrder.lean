/-
  Heaps: the order assumptions, the heap property, "the root is a minimum".
-/
import Simpleline.Model.Heapq

namespace Simpleline.Heapq

variable {α : Type}

/-- what `heapq` needs from `<`: a strict weak order (`a ≤ b` is read as `¬ b < a`) -/
structure StrictOrd (lt : α → α → Bool) : Prop where
  asymm : ∀ a b, lt a b = true → lt b a = false
  le_trans : ∀ a b c, lt b a = false → lt c b = false → lt c a = false

theorem StrictOrd.irrefl {lt : α → α → Bool} (so : StrictOrd lt) (a : α) : lt a a = false := by
  cases h : lt a a
  · rfl
  · have := so.asymm a a h; simp_all

/-- `z ≤ y` and `x < y`… : from `x < y` and `y ≤ z` follows `x ≤ z` -/
theorem StrictOrd.lt_le {lt : α → α → Bool} (so : StrictOrd lt) (x y z : α)
    (h1 : lt x y = true) (h2 : lt z y = false) : lt z x = false :=
  so.le_trans x y z (so.asymm x y h1) h2

/-- the root of a heap is a minimum -/
theorem IsHeap.root_le {lt : α → α → Bool} (so : StrictOrd lt) {a : Array α} (H : IsHeap lt a) :
    ∀ i (h : i < a.size), lt a[i] (a[0]'(by omega)) = false := by
  intro i
  induction i using Nat.strongRecOn with
  | _ i ih =>
    intro h
    by_cases hi : i = 0
    · subst hi; exact so.irrefl _
    · exact so.le_trans _ _ _ (ih ((i - 1) / 2) (by omega) (by omega)) (H i h (by omega))

theorem isHeap_empty (lt : α → α → Bool) : IsHeap lt (#[] : Array α) := by
  intro i h; simp at h

/-- removing the last element keeps the heap property -/
theorem IsHeap.pop {lt : α → α → Bool} {a : Array α} (H : IsHeap lt a) : IsHeap lt a.pop := by
  intro i h hi
  simp only [Array.size_pop] at h
  simpa using H i (by omega) hi

end Simpleline.Heapq
