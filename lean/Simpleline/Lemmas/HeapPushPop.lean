/-
  `heappush` / `heappop`: heap property preserved, multiset preserved, the popped element is the root,
  which is a minimum.
-/
import Simpleline.Lemmas.HeapSiftup

namespace Simpleline.Heapq

variable {α : Type}

theorem get_push_lt (a : Array α) (x : α) (i : Nat) (h : i < (a.push x).size) (h' : i < a.size) :
    (a.push x)[i] = a[i] := by
  simp [Array.getElem_push, h']

theorem heappush_size (lt : α → α → Bool) (a : Array α) (x : α) : (heappush lt a x).size = a.size + 1 := by
  simp [heappush, siftdown_size]

theorem heappush_isHeap {lt : α → α → Bool} (so : StrictOrd lt) (a : Array α) (x : α) (H : IsHeap lt a) :
    IsHeap lt (heappush lt a x) := by
  unfold heappush
  apply siftdown_isHeap so _ _ (by simp)
  simp only [Array.size_push, Nat.pred_eq_sub_one, Nat.add_sub_cancel]
  refine ⟨fun i hi hi0 hik => ?_, fun c hc hc0 hck hk0 => ?_⟩
  · have hi' : i < a.size := by simp only [Array.size_push] at hi; omega
    rw [get_push_lt a x i hi hi', get_push_lt a x _ _ (by omega)]
    exact H i hi' hi0
  · simp only [Array.size_push] at hc; omega

theorem heappush_perm (lt : α → α → Bool) (a : Array α) (x : α) :
    (heappush lt a x).toList.Perm (x :: a.toList) := by
  unfold heappush
  refine (siftdown_perm ..).toList.trans ?_
  simp only [Array.toList_push]
  exact List.perm_append_singleton x a.toList

theorem heappop_none {lt : α → α → Bool} {a : Array α} : heappop lt a = none ↔ a.size = 0 := by
  unfold heappop
  split
  · next h =>
    have : a.size ≠ 0 := by omega
    dsimp only; split <;> simp [this]
  · next h =>
    have : a.size = 0 := by omega
    simp [this]

/-- the list before a pop: the popped list with the last element appended -/
theorem toList_pop_back (a : Array α) (h : 0 < a.size) : a.toList = a.pop.toList ++ [a[a.size - 1]] := by
  have hne : a.toList ≠ [] := by
    intro h'; have := congrArg List.length h'; simp at this; subst this; simp at h
  have := List.dropLast_concat_getLast hne
  rw [List.getLast_eq_getElem] at this
  simpa using this.symm

theorem heappop_perm {lt : α → α → Bool} {a a' : Array α} {r : α} (h : heappop lt a = some (r, a')) :
    a.toList.Perm (r :: a'.toList) := by
  unfold heappop at h
  split at h
  · next h0 =>
    dsimp only at h
    rw [toList_pop_back a h0]
    split at h
    · next h1 =>
      simp only [Option.some.injEq, Prod.mk.injEq] at h
      obtain ⟨rfl, rfl⟩ := h
      refine .trans ?_ (List.Perm.cons _ (siftup_perm ..).toList.symm)
      generalize a[a.size - 1] = last
      generalize hb : a.pop = b at *
      obtain ⟨l⟩ := b
      cases l with
      | nil => simp at h1
      | cons y l =>
        simp only [List.getElem_toArray, List.getElem_cons_zero, List.setIfInBounds_toArray,
          List.set_cons_zero, List.cons_append]
        exact (List.perm_append_singleton last l).cons y
    · next h1 =>
      simp only [Option.some.injEq, Prod.mk.injEq] at h
      obtain ⟨rfl, rfl⟩ := h
      exact List.perm_append_singleton _ _
  · simp at h

/-- the popped element is the root -/
theorem heappop_root {lt : α → α → Bool} {a a' : Array α} {r : α} (h : heappop lt a = some (r, a')) :
    ∃ h0 : 0 < a.size, r = a[0] := by
  unfold heappop at h
  split at h
  · next h0 =>
    refine ⟨h0, ?_⟩
    dsimp only at h
    split at h
    · next h1 =>
      simp only [Option.some.injEq, Prod.mk.injEq] at h
      rw [← h.1]; simp
    · next h1 =>
      simp only [Option.some.injEq, Prod.mk.injEq] at h
      rw [← h.1]
      simp only [Array.size_pop] at h1
      congr 1; omega
  · simp at h

theorem heappop_isHeap {lt : α → α → Bool} (so : StrictOrd lt) {a a' : Array α} {r : α}
    (h : heappop lt a = some (r, a')) (H : IsHeap lt a) : IsHeap lt a' := by
  unfold heappop at h
  split at h
  · next h0 =>
    dsimp only at h
    split at h
    · next h1 =>
      simp only [Option.some.injEq, Prod.mk.injEq] at h
      rw [← h.2]
      exact siftup_isHeap so _ (by simpa using h1) (H.pop.holeHeap_root _)
    · next h1 =>
      simp only [Option.some.injEq, Prod.mk.injEq] at h
      rw [← h.2]; exact H.pop
  · simp at h

/-- the popped element is not larger than any element of the heap -/
theorem heappop_min {lt : α → α → Bool} (so : StrictOrd lt) {a a' : Array α} {r : α}
    (h : heappop lt a = some (r, a')) (H : IsHeap lt a) : ∀ y ∈ a.toList, lt y r = false := by
  obtain ⟨h0, rfl⟩ := heappop_root h
  intro y hy
  obtain ⟨i, hi, rfl⟩ := List.getElem_of_mem hy
  exact H.root_le so i (by simpa using hi)

end Simpleline.Heapq
