/-
  The heap-based `EventQueue` (`HQueue`) refines the sorted-list `EQueue` of the machine model.
-/
import Simpleline.Lemmas.HeapPushPop
import Simpleline.Lemmas.HeapSort

namespace Simpleline.Heapq

/-- `Inv` on the list alone, with the counter value `n` -/
def InvH (n : Nat) (a : Array Entry) : Prop :=
  IsHeap entryLt a ∧ (∀ e ∈ a.toList, e.2.1 < n) ∧ DistinctSeq a.toList ∧ (∀ e ∈ a.toList, e.1 = e.2.2.prio)

theorem inv_iff (q : HQueue) : Inv q ↔ InvH q.seq q.heap := Iff.rfl

theorem invH_empty (n : Nat) : InvH n #[] :=
  ⟨isHeap_empty _, by simp, by simp [DistinctSeq], by simp⟩

theorem InvH.mono {n m : Nat} {a : Array Entry} (h : InvH n a) (hnm : n ≤ m) : InvH m a :=
  ⟨h.1, fun e he => Nat.lt_of_lt_of_le (h.2.1 e he) hnm, h.2.2.1, h.2.2.2⟩

/-- pushing an entry with a fresh arrival number -/
theorem invH_push {n : Nat} {a : Array Entry} (h : InvH n a) (e : Entry) (hn : e.2.1 < n)
    (hfresh : ∀ y ∈ a.toList, e.2.1 ≠ y.2.1) (hp : e.1 = e.2.2.prio) :
    InvH n (heappush entryLt a e) ∧ sortL (heappush entryLt a e).toList = insertEntry e (sortL a.toList) := by
  have p := heappush_perm entryLt a e
  have d : DistinctSeq (e :: a.toList) := List.pairwise_cons.2 ⟨hfresh, h.2.2.1⟩
  refine ⟨⟨heappush_isHeap entryLt_strictOrd a e h.1, fun y hy => ?_, d.perm p.symm, fun y hy => ?_⟩, ?_⟩
  · rcases List.mem_cons.1 (p.subset hy) with rfl | hy
    · exact hn
    · exact h.2.1 y hy
  · rcases List.mem_cons.1 (p.subset hy) with rfl | hy
    · exact hp
    · exact h.2.2.2 y hy
  · exact sortL_congr p (d.perm p.symm)

/-- popping: the popped entry is the head of the sorted list -/
theorem invH_pop {n : Nat} {a a' : Array Entry} {e : Entry} (h : InvH n a)
    (hpop : heappop entryLt a = some (e, a')) :
    InvH n a' ∧ sortL a.toList = e :: sortL a'.toList ∧ e.2.1 < n ∧ (∀ y ∈ a'.toList, e.2.1 ≠ y.2.1) ∧
      e.1 = e.2.2.prio ∧ a.toList.Perm (e :: a'.toList) := by
  have p := heappop_perm hpop
  have d : DistinctSeq (e :: a'.toList) := h.2.2.1.perm p
  have d' := List.pairwise_cons.1 d
  have hmem : ∀ y ∈ a'.toList, y ∈ a.toList := fun y hy => p.symm.subset (List.mem_cons_of_mem _ hy)
  have he : e ∈ a.toList := p.symm.subset List.mem_cons_self
  exact ⟨⟨heappop_isHeap entryLt_strictOrd hpop h.1, fun y hy => h.2.1 y (hmem y hy), d'.2,
      fun y hy => h.2.2.2 y (hmem y hy)⟩,
    sortL_of_min p h.2.2.1 (heappop_min entryLt_strictOrd hpop h.1), h.2.1 e he, d'.1, h.2.2.2 e he, p⟩

theorem sortL_eq_nil {l : List Entry} : sortL l = [] ↔ l = [] := by
  constructor
  · intro h
    have := (sortL_perm l).length_eq
    rw [h] at this
    exact List.length_eq_zero_iff.1 this.symm
  · rintro rfl; rfl

theorem heappop_none_iff_abs (q : HQueue) : heappop entryLt q.heap = none ↔ (abs q).entries = [] := by
  rw [heappop_none]
  show _ ↔ sortL q.heap.toList = []
  rw [sortL_eq_nil]
  simp

/-! ### the queue operations -/

theorem inv_empty : Inv HQueue.empty := invH_empty 0

theorem inv_put {q : HQueue} (h : Inv q) (s : Sig) : Inv (q.put s) ∧ abs (q.put s) = (abs q).put s := by
  have := invH_push ((inv_iff q).1 h |>.mono (Nat.le_succ _)) (s.prio, q.seq, s) (Nat.lt_succ_self _)
    (fun y hy => Nat.ne_of_gt (h.2.1 y hy)) rfl
  refine ⟨this.1, ?_⟩
  simp only [abs, HQueue.put, EQueue.put, this.2]

theorem get_eq_none {q : HQueue} : q.get = none ↔ heappop entryLt q.heap = none := by
  unfold HQueue.get; split <;> simp_all

theorem get_eq_some {q q' : HQueue} {s : Sig} (h : q.get = some (s, q')) :
    ∃ e a', heappop entryLt q.heap = some (e, a') ∧ s = e.2.2 ∧ q' = { q with heap := a' } := by
  unfold HQueue.get at h; split at h
  · simp at h
  · next e a' hp =>
    simp only [Option.some.injEq, Prod.mk.injEq] at h
    exact ⟨e, a', hp, h.1.symm, h.2.symm⟩

theorem inv_get {q q' : HQueue} {s : Sig} (h : Inv q) (hg : q.get = some (s, q')) :
    Inv q' ∧ ∃ p n rest, (abs q).entries = (p, n, s) :: rest ∧ abs q' = { abs q with entries := rest } := by
  obtain ⟨e, a', hp, rfl, rfl⟩ := get_eq_some hg
  have := invH_pop h hp
  exact ⟨this.1, e.1, e.2.1, sortL a'.toList, this.2.1, rfl⟩

theorem getTop_eq_none {q : HQueue} {p : Int} :
    q.getTopIfPriority p = none ↔ heappop entryLt q.heap = none := by
  unfold HQueue.getTopIfPriority; split
  · simp_all
  · split <;> simp_all

theorem getTop_eq_some {q q' : HQueue} {p : Int} {r : Option Sig} (h : q.getTopIfPriority p = some (r, q')) :
    ∃ e a', heappop entryLt q.heap = some (e, a') ∧
      ((e.2.2.prio = p ∧ r = some e.2.2 ∧ q' = { q with heap := a' }) ∨
       (e.2.2.prio ≠ p ∧ r = none ∧ q' = { q with heap := heappush entryLt a' e })) := by
  unfold HQueue.getTopIfPriority at h; split at h
  · simp at h
  · next e a' hp =>
    refine ⟨e, a', hp, ?_⟩
    split at h
    · next hpr =>
      simp only [Option.some.injEq, Prod.mk.injEq] at h
      exact .inl ⟨hpr, h.1.symm, h.2.symm⟩
    · next hpr =>
      simp only [Option.some.injEq, Prod.mk.injEq] at h
      exact .inr ⟨hpr, h.1.symm, h.2.symm⟩

/-- `get_top_event_if_priority`: with `e` the head of the sorted list, either the priority matches and
the call behaves like `get`, or it does not and the sorted list is unchanged -/
theorem inv_getTop {q q' : HQueue} {p : Int} {r : Option Sig} (h : Inv q)
    (hg : q.getTopIfPriority p = some (r, q')) :
    Inv q' ∧ ∃ e rest, (abs q).entries = e :: rest ∧
      ((e.2.2.prio = p ∧ r = some e.2.2 ∧ abs q' = { abs q with entries := rest }) ∨
       (e.2.2.prio ≠ p ∧ r = none ∧ abs q' = abs q)) := by
  obtain ⟨e, a', hp, hcase⟩ := getTop_eq_some hg
  have P := invH_pop h hp
  rcases hcase with ⟨hpr, rfl, rfl⟩ | ⟨hpr, rfl, rfl⟩
  · exact ⟨P.1, e, sortL a'.toList, P.2.1, .inl ⟨hpr, rfl, rfl⟩⟩
  · have Q := invH_push P.1 e P.2.2.1 P.2.2.2.1 P.2.2.2.2.1
    refine ⟨Q.1, e, sortL a'.toList, P.2.1, .inr ⟨hpr, rfl, ?_⟩⟩
    have e1 : sortL (heappush entryLt a' e).toList = sortL q.heap.toList := by
      rw [Q.2, ← sortL_cons]
      exact (sortL_congr P.2.2.2.2.2 h.2.2.1).symm
    simp only [abs, e1]

/-! ### operation sequences -/

theorem step_refines {q : HQueue} (h : Inv q) (o : Op) :
    Inv (q.step o).2 ∧ (q.step o).1 = (stepE (abs q) o).1 ∧ abs (q.step o).2 = (stepE (abs q) o).2 := by
  cases o with
  | put s => exact ⟨(inv_put h s).1, rfl, (inv_put h s).2⟩
  | get =>
    simp only [HQueue.step, stepE]
    cases hg : q.get with
    | none =>
      have := (heappop_none_iff_abs q).1 (get_eq_none.1 hg)
      simp only [this]
      exact ⟨h, by first | trivial | rfl, by first | trivial | rfl⟩
    | some r =>
      obtain ⟨s, q'⟩ := r
      obtain ⟨hi, p, n, rest, he, ha⟩ := inv_get h hg
      simp only [he]
      exact ⟨hi, by first | trivial | rfl, ha⟩
  | getTop p =>
    simp only [HQueue.step, stepE]
    cases hg : q.getTopIfPriority p with
    | none =>
      have := (heappop_none_iff_abs q).1 (getTop_eq_none.1 hg)
      simp only [this]
      exact ⟨h, by first | trivial | rfl, by first | trivial | rfl⟩
    | some r =>
      obtain ⟨r, q'⟩ := r
      obtain ⟨hi, e, rest, he, hcase⟩ := inv_getTop h hg
      simp only [he]
      rcases hcase with ⟨hpr, rfl, ha⟩ | ⟨hpr, rfl, ha⟩
      · simp only [if_pos hpr]; exact ⟨hi, by first | trivial | rfl, ha⟩
      · simp only [if_neg hpr]; exact ⟨hi, by first | trivial | rfl, ha⟩

theorem run_refines (ops : List Op) : ∀ {q : HQueue}, Inv q →
    Inv (q.run ops).2 ∧ (q.run ops).1 = (runE (abs q) ops).1 ∧ abs (q.run ops).2 = (runE (abs q) ops).2 := by
  induction ops with
  | nil => intro q h; exact ⟨h, rfl, rfl⟩
  | cons o os ih =>
    intro q h
    obtain ⟨h1, h2, h3⟩ := step_refines h o
    obtain ⟨i1, i2, i3⟩ := ih h1
    simp only [HQueue.run, runE]
    rw [← h3, ← h2]
    exact ⟨i1, by rw [i2], i3⟩

theorem abs_empty : abs HQueue.empty = {} := rfl

end Simpleline.Heapq
