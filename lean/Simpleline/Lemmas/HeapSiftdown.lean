/-
  `_siftdown(heap, 0, pos)` restores the heap property and only permutes the list.
-/
import Simpleline.Lemmas.HeapOrder

namespace Simpleline.Heapq

variable {α : Type}

theorem get_set (a : Array α) (k i : Nat) (x : α) (h : i < (a.setIfInBounds k x).size) :
    (a.setIfInBounds k x)[i] = if k = i then x else a[i]'(by simpa using h) :=
  Array.getElem_setIfInBounds _

theorem set_get_self (a : Array α) (k : Nat) (h : k < a.size) : a.setIfInBounds k a[k] = a := by
  apply Array.ext
  · simp
  · intro i h1 h2; simp only [get_set]; split
    · subst_vars; rfl
    · rfl

/-- the invariant of the `_siftdown` loop, on the list with the held item written into the hole `k`:
every element except `k` is not smaller than its parent, and the children of `k` are not smaller than
the parent of `k` -/
def HeapExcept (lt : α → α → Bool) (a : Array α) (k : Nat) : Prop :=
  (∀ i (h : i < a.size), 0 < i → i ≠ k → lt a[i] (a[(i - 1) / 2]'(by omega)) = false) ∧
  (∀ c (h : c < a.size) (_ : 0 < c) (_ : (c - 1) / 2 = k), 0 < k → lt a[c] (a[(k - 1) / 2]'(by omega)) = false)

theorem IsHeap.heapExcept {lt : α → α → Bool} (so : StrictOrd lt) {a : Array α} (H : IsHeap lt a) (k : Nat) :
    HeapExcept lt a k := by
  refine ⟨fun i h hi _ => H i h hi, fun c h hc hk hk0 => ?_⟩
  have h1 := H c h hc
  have h2 := H k (by omega) hk0
  simp only [hk] at h1
  exact so.le_trans _ _ _ h2 h1

/-- one iteration of the loop: the parent moves down into the hole, the hole moves up -/
theorem heapExcept_step {lt : α → α → Bool} (so : StrictOrd lt) (x : α) (k : Nat) (h : Array α)
    (hk : k < h.size) (hk0 : 0 < k) (H : HeapExcept lt (h.setIfInBounds k x) k)
    (hlt : lt x (h[(k - 1) / 2]'(by omega)) = true) :
    HeapExcept lt ((h.setIfInBounds k (h[(k - 1) / 2]'(by omega))).setIfInBounds ((k - 1) / 2) x)
      ((k - 1) / 2) := by
  obtain ⟨H1, H2⟩ := H
  have T := so.lt_le
  have T2 := so.asymm
  have T3 := so.le_trans
  refine ⟨fun i hi hi0 hip => ?_, fun c hc hc0 hcp hp0 => ?_⟩
  · have hi' : i < h.size := by simpa using hi
    have A := H1 i (by simpa using hi') hi0
    have B := H2 i (by simpa using hi') hi0
    have C := H1 ((k - 1) / 2) (by simp; omega)
    simp only [get_set] at A B C ⊢
    clear H1 H2 so
    grind
  · have hc' : c < h.size := by simpa using hc
    have A := H1 c (by simpa using hc') hc0
    have C := H1 ((k - 1) / 2) (by simp; omega)
    simp only [get_set] at A C ⊢
    clear H1 H2 so
    grind

/-- the loop ends: the item is not smaller than its parent (or is at the root) -/
theorem heapExcept_done {lt : α → α → Bool} {a : Array α} {k : Nat} (hk : k < a.size)
    (H : HeapExcept lt a k) (hle : 0 < k → lt a[k] (a[(k - 1) / 2]'(by omega)) = false) : IsHeap lt a := by
  intro i hi hi0
  by_cases h : i = k
  · subst h; exact hle hi0
  · exact H.1 i hi hi0 h

theorem siftdownLoop_size (lt : α → α → Bool) (x : α) (h : Array α) (s k : Nat) :
    (siftdownLoop lt x h s k).size = h.size := by
  fun_induction siftdownLoop lt x h s k <;> simp_all

theorem siftdownLoop_isHeap {lt : α → α → Bool} (so : StrictOrd lt) (x : α) :
    ∀ k (h : Array α), k < h.size → HeapExcept lt (h.setIfInBounds k x) k →
      IsHeap lt (siftdownLoop lt x h 0 k) := by
  intro k
  induction k using Nat.strongRecOn with
  | _ k ih =>
    intro h hk H
    rw [siftdownLoop]
    split
    · next hc =>
      dsimp only
      split
      · next hlt =>
        exact ih ((k - 1) / 2) (by omega) _ (by simp only [Array.size_setIfInBounds]; omega)
          (heapExcept_step so x k h hk hc.1 H hlt)
      · next hlt =>
        refine heapExcept_done (k := k) (by simpa using hk) H fun _ => ?_
        simp only [get_set, if_true]
        rw [if_neg (by omega)]
        simpa using hlt
    · next hc =>
      exact heapExcept_done (k := k) (by simpa using hk) H fun h0 => absurd ⟨h0, hk⟩ hc

theorem siftdown_size (lt : α → α → Bool) (h : Array α) (s k : Nat) : (siftdown lt h s k).size = h.size := by
  unfold siftdown; split
  · exact siftdownLoop_size ..
  · rfl

/-- `_siftdown(heap, 0, pos)`: if only `heap[pos]` may be too small for its place, the result is a heap -/
theorem siftdown_isHeap {lt : α → α → Bool} (so : StrictOrd lt) (h : Array α) (k : Nat) (hk : k < h.size)
    (H : HeapExcept lt h k) : IsHeap lt (siftdown lt h 0 k) := by
  unfold siftdown
  rw [dif_pos hk]
  apply siftdownLoop_isHeap so _ k h hk
  rw [set_get_self]; exact H

/-! ### permutation -/

/-- moving the hole: the lists with the held item written into the hole are permutations of each other -/
theorem hole_move_perm (h : Array α) (k p : Nat) (x : α) (hk : k < h.size) (hp : p < h.size) (hne : k ≠ p) :
    ((h.setIfInBounds k h[p]).setIfInBounds p x).Perm (h.setIfInBounds k x) := by
  have e : (h.setIfInBounds k h[p]).setIfInBounds p x
      = (h.setIfInBounds k x).swap k p (by simpa using hk) (by simpa using hp) := by
    apply Array.ext
    · simp
    · intro i h1 h2
      simp only [Array.getElem_swap, get_set]
      grind
  rw [e]
  exact Array.swap_perm _ _

theorem siftdownLoop_perm (lt : α → α → Bool) (x : α) (h : Array α) (s k : Nat) :
    (siftdownLoop lt x h s k).Perm (h.setIfInBounds k x) := by
  fun_induction siftdownLoop lt x h s k with
  | case1 h k hc pp parent hlt ih =>
    refine ih.trans ?_
    exact hole_move_perm h k pp x hc.2 (by omega) (by omega)
  | case2 => exact .rfl
  | case3 => exact .rfl

theorem siftdown_perm (lt : α → α → Bool) (h : Array α) (s k : Nat) : (siftdown lt h s k).Perm h := by
  unfold siftdown; split
  · next hk =>
    refine (siftdownLoop_perm ..).trans ?_
    rw [set_get_self]
  · exact .rfl

end Simpleline.Heapq
