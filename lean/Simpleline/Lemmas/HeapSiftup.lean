/-
  `_siftup(heap, 0)` (the leaf-bound variant of CPython) restores the heap property and only permutes.
-/
import Simpleline.Lemmas.HeapSiftdown

namespace Simpleline.Heapq

variable {α : Type}

/-- the invariant of the `_siftup` loop, on the list with a hole at `k` (the value stored at `k` is
irrelevant): every element not adjacent to the hole is not smaller than its parent, and the children
of the hole are not smaller than the parent of the hole -/
def HoleHeap (lt : α → α → Bool) (a : Array α) (k : Nat) : Prop :=
  (∀ i (h : i < a.size), 0 < i → i ≠ k → (i - 1) / 2 ≠ k → lt a[i] (a[(i - 1) / 2]'(by omega)) = false) ∧
  (∀ c (h : c < a.size) (_ : 0 < c) (_ : (c - 1) / 2 = k), 0 < k → lt a[c] (a[(k - 1) / 2]'(by omega)) = false)

/-- the selected child is not larger than either child -/
theorem smallerChild_spec {lt : α → α → Bool} (so : StrictOrd lt) (a : Array α) (k : Nat) (h : 2 * k + 1 < a.size) :
    (smallerChild lt a (2 * k + 1) h = 2 * k + 1 ∨ smallerChild lt a (2 * k + 1) h = 2 * k + 2) ∧
    ∀ s (hs : s < a.size), (s - 1) / 2 = k → 0 < s →
      lt a[s] (a[smallerChild lt a (2 * k + 1) h]'(smallerChild_lt ..)) = false := by
  have T := so.asymm
  have T2 := so.irrefl
  unfold smallerChild
  split
  · next h' =>
    split
    · next hlt =>
      refine ⟨.inr rfl, fun s hs hsk hs0 => ?_⟩
      have : s = 2 * k + 1 ∨ s = 2 * k + 2 := by omega
      rcases this with rfl | rfl
      · simpa using hlt
      · exact T2 _
    · next hlt =>
      refine ⟨.inl rfl, fun s hs hsk hs0 => ?_⟩
      have : s = 2 * k + 1 ∨ s = 2 * k + 2 := by omega
      rcases this with rfl | rfl
      · exact T2 _
      · exact T _ _ (by simpa using hlt)
  · next h' =>
    refine ⟨.inl rfl, fun s hs hsk hs0 => ?_⟩
    have : s = 2 * k + 1 := by omega
    subst this; exact T2 _

/-- one iteration: the smaller child `c` moves up into the hole -/
theorem holeHeap_step {lt : α → α → Bool} (a : Array α) (k c : Nat) (hc : c < a.size)
    (hck : c = 2 * k + 1 ∨ c = 2 * k + 2)
    (hmin : ∀ s (hs : s < a.size), (s - 1) / 2 = k → 0 < s → lt a[s] a[c] = false)
    (H : HoleHeap lt a k) : HoleHeap lt (a.setIfInBounds k a[c]) c := by
  obtain ⟨H1, H2⟩ := H
  refine ⟨fun i hi hi0 hic hipc => ?_, fun g hg hg0 hgc hc0 => ?_⟩
  · have hi' : i < a.size := by simpa using hi
    have A := H1 i hi' hi0
    have B := hmin i hi'
    have C := H2 c hc
    simp only [get_set] at A B C ⊢
    clear H1 H2 hmin
    grind
  · have hg' : g < a.size := by simpa using hg
    have A := H1 g hg' hg0
    simp only [get_set] at A ⊢
    clear H1 H2 hmin
    grind

/-- at a leaf: writing any item into the hole gives the `_siftdown` precondition -/
theorem holeHeap_leaf {lt : α → α → Bool} (a : Array α) (k : Nat) (x : α) (hleaf : ¬ 2 * k + 1 < a.size)
    (H : HoleHeap lt a k) : HeapExcept lt (a.setIfInBounds k x) k := by
  obtain ⟨H1, H2⟩ := H
  refine ⟨fun i hi hi0 hik => ?_, fun c hc hc0 hck hk0 => ?_⟩
  · have hi' : i < a.size := by simpa using hi
    have A := H1 i hi' hi0 hik (by omega)
    simp only [get_set]
    rw [if_neg (by omega), if_neg (by omega)]
    exact A
  · have hc' : c < a.size := by simpa using hc
    omega

theorem siftupLoop_spec {lt : α → α → Bool} (so : StrictOrd lt) (a : Array α) (k : Nat) :
    k < a.size → HoleHeap lt a k →
      (siftupLoop lt a k).1.size = a.size ∧ (siftupLoop lt a k).2 < a.size ∧
      ∀ x, HeapExcept lt ((siftupLoop lt a k).1.setIfInBounds (siftupLoop lt a k).2 x) (siftupLoop lt a k).2 := by
  fun_induction siftupLoop lt a k with
  | case1 a k h c ih =>
    intro hk H
    have sp := smallerChild_spec so a k h
    have hc := smallerChild_lt lt a (2 * k + 1) h
    have := ih (by simpa using hc) (holeHeap_step a k c hc sp.1 sp.2 H)
    simpa using this
  | case2 a k h =>
    intro hk H
    exact ⟨rfl, hk, fun x => holeHeap_leaf a k x h H⟩

theorem siftupLoop_perm (lt : α → α → Bool) (a : Array α) (k : Nat) (hk : k < a.size) (x : α) :
    ((siftupLoop lt a k).1.setIfInBounds (siftupLoop lt a k).2 x).Perm (a.setIfInBounds k x) := by
  fun_induction siftupLoop lt a k with
  | case1 a k h c ih =>
    have hc := smallerChild_lt lt a (2 * k + 1) h
    have hle := le_smallerChild lt a (2 * k + 1) h
    refine (ih (by simpa using hc)).trans ?_
    exact hole_move_perm a k c x hk hc (by omega)
  | case2 a k h => exact .rfl

/-- a heap whose root has been replaced satisfies the loop invariant at the root -/
theorem IsHeap.holeHeap_root {lt : α → α → Bool} {a : Array α} (x : α) (H : IsHeap lt a) :
    HoleHeap lt (a.setIfInBounds 0 x) 0 := by
  refine ⟨fun i hi hi0 _ hp => ?_, fun c hc hc0 _ h0 => by omega⟩
  have hi' : i < a.size := by simpa using hi
  simp only [get_set]
  rw [if_neg (by omega), if_neg (by omega)]
  exact H i hi' hi0

theorem siftup_size (lt : α → α → Bool) (a : Array α) (k : Nat) (hk : k < a.size) (H : HoleHeap lt a k)
    (so : StrictOrd lt) : (siftup lt a k).size = a.size := by
  unfold siftup
  rw [dif_pos hk]
  simp [siftdown_size, (siftupLoop_spec so a k hk H).1]

/-- `_siftup(heap, 0)` on a heap whose root has been replaced gives a heap -/
theorem siftup_isHeap {lt : α → α → Bool} (so : StrictOrd lt) (a : Array α) (h0 : 0 < a.size)
    (H : HoleHeap lt a 0) : IsHeap lt (siftup lt a 0) := by
  unfold siftup
  rw [dif_pos h0]
  have sp := siftupLoop_spec so a 0 h0 H
  exact siftdown_isHeap so _ _ (by simp only [Array.size_setIfInBounds]; omega) (sp.2.2 _)

theorem siftup_perm (lt : α → α → Bool) (a : Array α) (k : Nat) : (siftup lt a k).Perm a := by
  unfold siftup
  split
  · next hk =>
    refine (siftdown_perm ..).trans ((siftupLoop_perm lt a k hk _).trans ?_)
    rw [set_get_self]
  · exact .rfl

end Simpleline.Heapq
