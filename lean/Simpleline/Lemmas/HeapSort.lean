/-
  `_QueueItem.__lt__` is a strict weak order; the sorted list of the machine model is the unique
  sorted arrangement of a multiset of entries with distinct arrival numbers.
-/
import Simpleline.Lemmas.HeapOrder

namespace Simpleline.Heapq

theorem entryLt_iff (a b : Entry) : entryLt a b = true ↔ a.1 < b.1 ∨ (a.1 = b.1 ∧ a.2.1 < b.2.1) := by
  simp [entryLt]

theorem entryLt_false_iff (a b : Entry) :
    entryLt a b = false ↔ ¬ (a.1 < b.1 ∨ (a.1 = b.1 ∧ a.2.1 < b.2.1)) := by
  rw [← entryLt_iff]; simp

theorem entryLt_strictOrd : StrictOrd entryLt where
  asymm a b := by rw [entryLt_iff, entryLt_false_iff]; omega
  le_trans a b c := by rw [entryLt_false_iff, entryLt_false_iff, entryLt_false_iff]; omega

/-- sorted w.r.t. `__lt__`: no later entry is smaller than an earlier one -/
def SortedL (l : List Entry) : Prop := l.Pairwise (fun a b => entryLt b a = false)

def DistinctSeq (l : List Entry) : Prop := l.Pairwise (fun a b => a.2.1 ≠ b.2.1)

theorem insertEntry_perm (e : Entry) (l : List Entry) : (insertEntry e l).Perm (e :: l) := by
  induction l with
  | nil => exact .rfl
  | cons x xs ih =>
    unfold insertEntry; split
    · exact .rfl
    · exact (ih.cons x).trans (List.Perm.swap _ _ _)

theorem insertEntry_sorted (e : Entry) (l : List Entry) (h : SortedL l) : SortedL (insertEntry e l) := by
  induction l with
  | nil => simp [insertEntry, SortedL]
  | cons x xs ih =>
    unfold SortedL at *
    rw [List.pairwise_cons] at h
    unfold insertEntry; split
    · next hlt =>
      rw [List.pairwise_cons]
      refine ⟨fun y hy => ?_, List.pairwise_cons.2 h⟩
      have hex : entryLt e x = true := (entryLt_iff _ _).2 hlt
      rcases List.mem_cons.1 hy with rfl | hy
      · exact entryLt_strictOrd.asymm _ _ hex
      · exact entryLt_strictOrd.lt_le _ _ _ hex (h.1 y hy)
    · next hlt =>
      rw [List.pairwise_cons]
      refine ⟨fun y hy => ?_, ih h.2⟩
      rcases List.mem_cons.1 ((insertEntry_perm e xs).subset hy) with rfl | hy
      · exact (entryLt_false_iff _ _).2 hlt
      · exact h.1 y hy

theorem sortL_perm (l : List Entry) : (sortL l).Perm l := by
  induction l with
  | nil => exact .rfl
  | cons x xs ih => exact (insertEntry_perm x _).trans (ih.cons x)

theorem sortL_sorted (l : List Entry) : SortedL (sortL l) := by
  induction l with
  | nil => simp [sortL, SortedL]
  | cons x xs ih => exact insertEntry_sorted x _ ih

theorem sortL_cons (e : Entry) (l : List Entry) : sortL (e :: l) = insertEntry e (sortL l) := rfl

theorem distinctSeq_inj : ∀ (l : List Entry), DistinctSeq l → ∀ a ∈ l, ∀ b ∈ l, a.2.1 = b.2.1 → a = b := by
  intro l
  induction l with
  | nil => intro _ a ha; simp at ha
  | cons x xs ih =>
    intro h a ha b hb hab
    unfold DistinctSeq at h
    rw [List.pairwise_cons] at h
    rcases List.mem_cons.1 ha with rfl | ha' <;> rcases List.mem_cons.1 hb with rfl | hb'
    · rfl
    · exact absurd hab (h.1 b hb')
    · exact absurd hab.symm (h.1 a ha')
    · exact ih h.2 a ha' b hb' hab

theorem DistinctSeq.perm {l l' : List Entry} (h : DistinctSeq l) (p : l.Perm l') : DistinctSeq l' :=
  List.Perm.pairwise p h (fun h => Ne.symm h)

/-- two sorted arrangements of the same entries (distinct arrival numbers) are the same list -/
theorem sorted_unique {l₁ l₂ : List Entry} (p : l₁.Perm l₂) (d : DistinctSeq l₁)
    (s₁ : SortedL l₁) (s₂ : SortedL l₂) : l₁ = l₂ := by
  refine List.Perm.eq_of_pairwise (le := fun a b => entryLt b a = false) ?_ s₁ s₂ p
  intro a b ha hb h1 h2
  rw [entryLt_false_iff] at h1 h2
  exact distinctSeq_inj l₁ d a ha b (p.symm.subset hb) (by omega)

/-- permuted lists with distinct arrival numbers sort to the same list -/
theorem sortL_congr {l₁ l₂ : List Entry} (p : l₁.Perm l₂) (d : DistinctSeq l₁) : sortL l₁ = sortL l₂ :=
  sorted_unique ((sortL_perm l₁).trans (p.trans (sortL_perm l₂).symm)) (d.perm (sortL_perm l₁).symm)
    (sortL_sorted _) (sortL_sorted _)

/-- an entry not larger than all others is the head of the sorted list -/
theorem sortL_of_min {l l' : List Entry} {e : Entry} (p : l.Perm (e :: l')) (d : DistinctSeq l)
    (hmin : ∀ y ∈ l, entryLt y e = false) : sortL l = e :: sortL l' := by
  have p' : (sortL l).Perm (e :: sortL l') := (sortL_perm l).trans (p.trans ((sortL_perm l').symm.cons e))
  refine sorted_unique p' (d.perm (sortL_perm l).symm) (sortL_sorted _) ?_
  unfold SortedL
  rw [List.pairwise_cons]
  refine ⟨fun y hy => hmin y ?_, sortL_sorted l'⟩
  exact p.symm.subset (List.mem_cons_of_mem _ ((sortL_perm l').subset hy))

end Simpleline.Heapq
