/-
  Proofs of the C06 statements about single transitions (delivery, `processInput`, `callScr`,
  `maybeInput`, `getInput`, `getInput2`) and "the input arguments change only by a request".
-/
import Simpleline.Lemmas.InputOnceStep
import Simpleline.Lemmas.InputC18

namespace Simpleline.Input

theorem deliver_step {c c' : Cfg} (h : c.deliver = some c') :
    ∃ r rs, c.A.readers = r :: rs ∧ c'.A.readers = rs ∧ c'.A.stdin = c.A.stdin.tail ∧
      newLog c c' = [.read (c.A.stdin.headD [])] ∧ newTr c c' = [enqEvent c (readSig c r)] ∧
      c'.code = c.code ∧ c'.A.ihs = c.A.ihs ∧ c'.A.reqs = c.A.reqs ∧ c'.A.inputStack = c.A.inputStack := by
  obtain ⟨r, rs, hr, rfl⟩ := deliver_eq h
  refine ⟨r, rs, hr, by simp, by simp, ?_, ?_, by simp, by simp, by simp, by simp⟩
  · apply newLog_of_append (new := [.read (c.A.stdin.headD [])]); simp
  · apply newTr_of_append (new := [enqEvent c (readSig c r)])
    rw [enqueue_tr]; rfl

theorem step_processInput (P : Prog) (c : Cfg) (scr : Nat) (key : Str) (rest : List Instr)
    (hc : c.code = .processInput scr key :: rest) :
    step P c = .ok { c with code := [.callScr scr .input (c.A.scr scr).inputArgs (some key), .classify scr,
                                     .catchPI scr, .countAndAct scr, .endPI] ++ rest } := by
  unfold step; simp only [hc]; rfl

theorem step_callScr_log (P : Prog) (c : Cfg) (scr : Nat) (cb : Cb) (arg : Option Nat) (key : Option Str)
    (rest : List Instr) (hc : c.code = .callScr scr cb arg key :: rest) :
    ∃ c', step P c = .ok c' ∧ ∃ pre, c'.log = pre ++ .cb scr cb arg key :: c.log ∧ (pre = [] ∨ ∃ l, pre = [.read l]) := by
  unfold step
  simp only [hc]
  refine ⟨_, rfl, ?_⟩
  simp only [push_log]
  generalize hX : ({ c with code := rest, A := c.A.setScr scr fun s => { s with counts := bump s.counts cb } } : Cfg) = X
  have hl : X.log = c.log := by rw [← hX]
  rcases emit_cases P X (.cb scr cb arg key) with h | h
  · exact ⟨[], by rw [h, emit0_log, hl]; rfl, Or.inl rfl⟩
  · exact ⟨[.read ((emit0 X (.cb scr cb arg key)).A.stdin.headD [])], by rw [deliver_log h, emit0_log, hl]; rfl,
      Or.inr ⟨_, rfl⟩⟩

theorem step_maybeInput (P : Prog) (c : Cfg) (top : Entry) (rest : List Instr) (hc : c.code = .maybeInput top :: rest) :
    step P c = .ok (if (P.spec top.screen).inputRequired then
      { c with code := .getInput top.screen top.args :: rest } else { c with code := rest }) := by
  unfold step; simp only [hc]; split <;> rfl

theorem step_getInput (P : Prog) (c : Cfg) (scr : Nat) (args : Option Nat) (rest : List Instr)
    (hc : c.code = .getInput scr args :: rest) :
    step P c = .ok { c with code := .callScr scr .prompt args none :: .getInput2 scr args :: rest } := by
  unfold step; simp only [hc]; rfl

theorem getInput2_args (P : Prog) (c : Cfg) (scr : Nat) (args : Option Nat) (rest : List Instr)
    (hc : c.code = .getInput2 scr args :: rest) (hp : c.retPromptNone = false) (j : Nat) :
    ((final (step P c)).A.scr j).inputArgs = if scr = j then args else (c.A.scr j).inputArgs := by
  rw [step_getInput2_some P c scr args rest hc hp]
  unfold AppSt.scr
  rw [startRequest_screens]
  show (((c.A.setScr scr fun s => { s with inputArgs := args }).screens.getD j {})).inputArgs = _
  rw [setScr_getD]
  split <;> rfl

theorem trans_inpTrans {P : Prog} {c c' : Cfg} (ht : Trans P c c') : InpTrans c c' := by
  cases ht with
  | step h => have := step_inpTrans P c; rwa [h] at this
  | deliver h => exact .frame (InpFrame_deliver (Same_refl c) h)
  | halt h => have := step_inpTrans P c; rwa [h] at this

/-- the input arguments a screen's `input` callback will get change only when that screen asks for input -/
theorem inputArgs_change {P : Prog} {c c' : Cfg} (ht : Trans P c c') (j : Nat)
    (hne : (c'.A.scr j).inputArgs ≠ (c.A.scr j).inputArgs) :
    ∃ args rest, c.code = .getInput2 j args :: rest ∧ c.retPromptNone = false ∧ (c'.A.scr j).inputArgs = args := by
  have hcases : (∃ o, step P c = .ok c' ∨ step P c = .error (o, c')) ∨ c.deliver = some c' := by
    cases ht with
    | step h => exact Or.inl ⟨.returned, Or.inl h⟩
    | deliver h => exact Or.inr h
    | halt h => exact Or.inl ⟨_, Or.inr h⟩
  have hfr : ∀ {x : Cfg}, InpFrame c x → (x.A.scr j).inputArgs = (c.A.scr j).inputArgs := by
    intro x hf
    have := hf.inputArgs j
    simpa [AppSt.scr, List.getD_eq_getElem?_getD] using this
  rcases hcases with ⟨o, hs⟩ | hd
  · have hfin : final (step P c) = c' := by rcases hs with hs | hs <;> rw [hs] <;> rfl
    cases hcode : c.code with
    | nil =>
      exact absurd (hfr (hfin ▸ step_frame P c (by simp [hcode]))) hne
    | cons ins rest =>
      by_cases hi : ∃ args, ins = .getInput2 j args
      · obtain ⟨args, rfl⟩ := hi
        cases hp : c.retPromptNone
        · refine ⟨args, rest, rfl, rfl, ?_⟩
          have := getInput2_args P c j args rest hcode hp j
          rw [hfin] at this
          simpa using this
        · exfalso
          have := step_getInput2_none P c j args rest hcode hp
          rw [this] at hfin
          apply hne
          rw [← hfin]
          show (((c.A.setScr j fun s => { s with err := 0 }).screens.getD j {})).inputArgs = _
          rw [setScr_getD]; simp [AppSt.scr]
      · exfalso
        have ht' := step_inpTrans P c
        rw [hfin] at ht'
        cases ht' with
        | frame hf => exact hne (hfr hf)
        | screenReq scr args sk text hr hargs hhead _ =>
          have := hargs j
          have hsj : scr ≠ j := by
            rintro rfl
            obtain ⟨rest', hh⟩ := hhead
            rw [hcode] at hh
            cases hh
            exact hi ⟨args, rfl⟩
          rw [if_neg hsj] at this
          exact hne (by simpa [AppSt.scr, List.getD_eq_getElem?_getD] using this)
        | blockingReq scr sk text hr hscr => exact hne (by unfold AppSt.scr; rw [hscr])
        | handoff s rest' _ _ eA _ _ => exact hne (by rw [eA]; rfl)
        | ready n s rest' f _ _ _ eA _ _ => exact hne (by rw [eA]; rfl)
  · exact absurd (hfr (InpFrame_deliver (Same_refl c) hd)) hne

end Simpleline.Input
