/-
  Proofs of the C06 statements about single transitions (delivery, `processInput`, `callScr`,
  `maybeInput`, `getInput`, `getInput2`) and "the input arguments change only by a request".
-/
import Simpleline.Lemmas.InputOnceStep
import Simpleline.Lemmas.InputC18

namespace Simpleline.Input

theorem deliver_step {c c' : Cfg} (h : c.deliver = some c') :
    ∃ r rs, c.A.readers = r :: rs ∧ c'.A.readers = rs ∧ c'.A.stdin = c.A.stdin.tail ∧
      newLog c c' = [.read (c.A.stdin.headD [])] ∧ newTr c c' = [enqEvent c (readSig c r)] ∧
      c'.code = c.code ∧ c'.A.ihs = c.A.ihs ∧ c'.A.reqs = c.A.reqs ∧ c'.A.inputStack = c.A.inputStack := by
  obtain ⟨r, rs, hr, rfl⟩ := deliver_eq h
  refine ⟨r, rs, hr, by simp, by simp, ?_, ?_, by simp, by simp, by simp, by simp⟩
  · apply newLog_of_append (new := [.read (c.A.stdin.headD [])]); simp
  · apply newTr_of_append (new := [enqEvent c (readSig c r)])
    rw [enqueue_tr]; rfl

theorem step_processInput (P : Prog) (c : Cfg) (scr : Nat) (key : Str) (rest : List Instr)
    (hc : c.code = .processInput scr key :: rest) :
    step P c = .ok { c with code := [.callScr scr .input (c.A.scr scr).inputArgs (some key), .classify scr,
                                     .catchPI scr, .countAndAct scr, .endPI] ++ rest } := by
  unfold step; simp only [hc]; rfl

theorem step_callScr_log (P : Prog) (c : Cfg) (scr : Nat) (cb : Cb) (arg : Option Nat) (key : Option Str)
    (rest : List Instr) (hc : c.code = .callScr scr cb arg key :: rest) :
    ∃ c', step P c = .ok c' ∧ ∃ pre, c'.log = pre ++ .cb scr cb arg key :: c.log ∧ (pre = [] ∨ ∃ l, pre = [.read l]) := by
  unfold step
  simp only [hc]
  refine ⟨_, rfl, ?_⟩
  simp only [push_log]
  generalize hX : ({ c with code := rest, A := c.A.setScr scr fun s => { s with counts := bump s.counts cb } } : Cfg) = X
  have hl : X.log = c.log := by rw [← hX]
  rcases emit_cases P X (.cb scr cb arg key) with h | h
  · exact ⟨[], by rw [h, emit0_log, hl]; rfl, Or.inl rfl⟩
  · exact ⟨[.read ((emit0 X (.cb scr cb arg key)).A.stdin.headD [])], by rw [deliver_log h, emit0_log, hl]; rfl,
      Or.inr ⟨_, rfl⟩⟩

theorem step_maybeInput (P : Prog) (c : Cfg) (top : Entry) (rest : List Instr) (hc : c.code = .maybeInput top :: rest) :
    step P c = .ok (if (P.spec top.screen).inputRequired then
      { c with code := .getInput top.screen top.args :: rest } else { c with code := rest }) := by
  unfold step; simp only [hc]; split <;> rfl

theorem step_getInput (P : Prog) (c : Cfg) (scr : Nat) (args : Option Nat) (rest : List Instr)
    (hc : c.code = .getInput scr args :: rest) :
    step P c = .ok { c with code := .callScr scr .prompt args none :: .getInput2 scr args :: rest } := by
  unfold step; simp only [hc]; rfl

theorem getInput2_args (P : Prog) (c : Cfg) (scr : Nat) (args : Option Nat) (rest : List Instr)
    (hc : c.code = .getInput2 scr args :: rest) (hp : c.retPromptNone = false) (j : Nat) :
    ((final (step P c)).A.scr j).inputArgs = if scr = j then args else (c.A.scr j).inputArgs := by
  rw [step_getInput2_some P c scr args rest hc hp]
  unfold AppSt.scr
  rw [startRequest_screens]
  show (((c.A.setScr scr fun s => { s with inputArgs := args }).screens.getD j {})).inputArgs = _
  rw [setScr_getD]
  split <;> rfl

/-- the input arguments a screen's `input` callback will get change only when that screen asks for input -/
theorem inputArgs_change {P : Prog} {c c' : Cfg} (ht : Trans P c c') (j : Nat)
    (hne : (c'.A.scr j).inputArgs ≠ (c.A.scr j).inputArgs) :
    ∃ args rest, c.code = .getInput2 j args :: rest ∧ c.retPromptNone = false ∧ (c'.A.scr j).inputArgs = args := by
  have hcases : (∃ o, step P c = .ok c' ∨ step P c = .error (o, c')) ∨ c.deliver = some c' := by
    cases ht with
    | step h => exact Or.inl ⟨.returned, Or.inl h⟩
    | deliver h => exact Or.inr h
    | halt h => exact Or.inl ⟨_, Or.inr h⟩
  have hfr : ∀ {x : Cfg}, InpFrame c x → (x.A.scr j).inputArgs = (c.A.scr j).inputArgs := by
    intro x hf
    have := hf.inputArgs j
    simpa [AppSt.scr, List.getD_eq_getElem?_getD] using this
  rcases hcases with ⟨o, hs⟩ | hd
  · have hfin : final (step P c) = c' := by rcases hs with hs | hs <;> rw [hs] <;> rfl
    cases hcode : c.code with
    | nil =>
      exact absurd (hfr (hfin ▸ step_frame P c (by simp [hcode]))) hne
    | cons ins rest =>
      by_cases hi : ∃ args, ins = .getInput2 j args
      · obtain ⟨args, rfl⟩ := hi
        cases hp : c.retPromptNone
        · refine ⟨args, rest, rfl, rfl, ?_⟩
          have := getInput2_args P c j args rest hcode hp j
          rw [hfin] at this
          simpa using this
        · exfalso
          have := step_getInput2_none P c j args rest hcode hp
          rw [this] at hfin
          apply hne
          rw [← hfin]
          show (((c.A.setScr j fun s => { s with err := 0 }).screens.getD j {})).inputArgs = _
          rw [setScr_getD]; simp [AppSt.scr]
      · exfalso
        have ht' := step_inpTrans P c
        rw [hfin] at ht'
        cases ht' with
        | frame hf => exact hne (hfr hf)
        | screenReq scr args sk text hr hargs hhead _ =>
          have := hargs j
          have hsj : scr ≠ j := by
            rintro rfl
            obtain ⟨rest', hh⟩ := hhead
            rw [hcode] at hh
            cases hh
            exact hi ⟨args, rfl⟩
          rw [if_neg hsj] at this
          exact hne (by simpa [AppSt.scr, List.getD_eq_getElem?_getD] using this)
        | blockingReq scr sk text hr hscr => exact hne (by unfold AppSt.scr; rw [hscr])
        | handoff s rest' _ _ eA _ _ => exact hne (by rw [eA]; rfl)
        | ready n s rest' f _ _ _ eA _ _ => exact hne (by rw [eA]; rfl)
  · exact absurd (hfr (InpFrame_deliver (Same_refl c) hd)) hne

theorem eof_empty {c c' : Cfg} (h : c.deliver = some c') (heof : c.A.stdin = []) :
    newLog c c' = [.read []] ∧ ∀ r, (readSig c r).line = [] := by
  obtain ⟨r, rs, _, _, _, h4, _⟩ := deliver_step h
  rw [heof] at h4
  exact ⟨h4, fun r => by simp [readSig, heof]⟩

theorem handoff_forwards (reqs : List Request) (rs : List Nat) (r : Nat) (line : Str) (sid : Nat) :
    (handoffSigs reqs rs r line sid).head? = some (okSig reqs r line sid) ∧
    (okSig reqs r line sid).line = line ∧ (okSig reqs r line sid).ok = true ∧
    ∀ x ∈ (handoffSigs reqs rs r line sid).tail, x.ok = false ∧ x.line = [] ∧ x.carriesLine = false := by
  refine ⟨rfl, rfl, rfl, ?_⟩
  intro x hx
  have := failSigs_all reqs rs (sid + 1) x hx
  exact ⟨this.2.2.1, this.2.2.2, by simp [Sig.carriesLine, this.1, this.2.2.1]⟩

theorem handler_forwards (P : Prog) (c : Cfg) (n : Nat) (s : Sig) (rest : List Instr) (scr : Nat)
    (hc : c.code = .inputReady n s :: rest) (hn : n < c.A.ihs.length) (hs : s.ih = n) (hok : s.ok = true)
    (hcb : (c.A.ihs.getD n default).cb = some scr) :
    ∃ c', step P c = .ok c' ∧ c'.code = .processInput scr s.line :: rest ∧
      (c'.A.ihs.getD n default).value = some s.line ∧ (c'.A.ihs.getD n default).cb = none := by
  obtain ⟨c', h1, _, _, _, _, _, _, _, h2, _⟩ := inputReady_result P c n s rest hc hn hs
  obtain ⟨h3, h4, h5⟩ := h2 hok
  exact ⟨c', h1, by rw [h5, hcb]; rfl, h3, h4⟩

theorem line_intact {P : Prog} {c0 c : Cfg} (h0 : Started c0) (hU : UserHandlers c0) (hF : NoForge P c0)
    (hr : Reach P c0 c) :
    (∀ s ∈ c.pending, s.carriesLine = true → s.line ∈ readLines c.log) ∧
    (∀ q s, (Tr.enq q s ∈ c.tr ∨ Tr.dropped s ∈ c.tr) → s.carriesLine = true → s.line ∈ readLines c.log) ∧
    (∀ l ∈ inputLines c.log, l ∈ readLines c.log) := by
  have h := linesInv_reach h0 hU hF hr
  refine ⟨?_, ?_, ?_⟩
  · intro s hs hc
    obtain ⟨q, hq, hsq⟩ := List.mem_flatMap.mp hs
    obtain ⟨e, he, rfl⟩ := List.mem_map.mp hsq
    exact (mem_readLines _ _).mpr (h.qt.1 q hq e he hc)
  · intro q s hs hc
    rcases hs with hs | hs
    · exact (mem_readLines _ _).mpr (h.qt.2 _ hs hc)
    · exact (mem_readLines _ _).mpr (h.qt.2 _ hs hc)
  · intro l hl
    obtain ⟨scr, a, hm⟩ := (mem_inputLines _ _).mp hl
    exact (mem_readLines _ _).mpr (h.log _ hm)

end Simpleline.Input
