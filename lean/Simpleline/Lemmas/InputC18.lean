/-
  Proofs of the C18 statements about single operations (`startRequest`, hand-off, handler step, wait).
-/
import Simpleline.Lemmas.InputFlightInv
import Simpleline.Lemmas.InputHandoff

namespace Simpleline.Input

theorem startRequest_refuse (c : Cfg) (ih : Nat) (requester : Src) (text : Str)
    (hs : c.A.inputStack ≠ []) (hk : (c.A.ihs.getD ih default).skip = false) :
    startRequest c ih requester text = ({ c with A := reqRecorded c.A ih requester text } : Cfg).raise .err := by
  rw [startRequest_eq, if_pos ⟨hs, hk⟩]

theorem startRequest_accept (c : Cfg) (ih : Nat) (requester : Src) (text : Str)
    (h : c.A.inputStack = [] ∨ (c.A.ihs.getD ih default).skip = true) :
    startRequest c ih requester text = .ok
      (({ c with A := { reqRecorded c.A ih requester text with
          inputStack := c.A.inputStack ++ [c.A.reqs.length], processing := true,
          readers := if c.A.processing then c.A.readers else c.A.readers ++ [c.A.reqs.length] } } : Cfg).write text) := by
  rw [startRequest_eq]
  have : ¬ (c.A.inputStack ≠ [] ∧ (c.A.ihs.getD ih default).skip = false) := by
    rintro ⟨h1, h2⟩
    rcases h with h | h
    · exact h1 h
    · rw [h2] at h; cases h
  rw [if_neg this]
  cases hp : c.A.processing
  · simp
  · simp [reqRecorded, hp]

/-- the hand-off in terms of the history -/
theorem handoff_history (P : Prog) (c : Cfg) (s : Sig) (rest : List Instr) (rs : List Nat) (r : Nat)
    (hc : c.code = .inputReceived s :: rest) (hst : c.A.inputStack = rs ++ [r]) :
    ∃ c', step P c = .ok c' ∧
      (newTr c c').reverse = (handoffSigs c.A.reqs rs r s.line (c.nextSid + 1)).map (enqEvent c) ∧
      c'.L = (enqueueAll c (handoffSigs c.A.reqs rs r s.line (c.nextSid + 1))).L ∧
      c'.A = { c.A with inputStack := [], processing := false } ∧ c'.code = rest ∧ c'.log = c.log := by
  obtain ⟨c', h1, h2, h3, h4, h5, h6, h7⟩ := step_inputReceived P c s rest rs r hc hst
  refine ⟨c', h1, ?_, congrArg (·.1) h7, h2, h3, h4⟩
  have htr : c'.tr = (enqueueAll c (handoffSigs c.A.reqs rs r s.line (c.nextSid + 1))).tr := congrArg (·.2) h7
  rw [enqueueAll_tr] at htr
  rw [newTr_of_append htr, List.reverse_reverse]

theorem handoffSigs_spec (reqs : List Request) (rs : List Nat) (r : Nat) (line : Str) (sid : Nat) :
    (handoffSigs reqs rs r line sid).length = 1 + rs.length ∧
    (∀ x ∈ handoffSigs reqs rs r line sid, x.cls = .inputReady ∧ x.prio = 0) ∧
    (handoffSigs reqs rs r line sid)[0]? = some (okSig reqs r line sid) ∧
    (∀ i, (hi : i < rs.length) →
      (handoffSigs reqs rs r line sid)[i + 1]? = some (failSig reqs rs[i] (sid + 1 + i))) := by
  refine ⟨by simp [handoffSigs, failSigs_length]; omega, ?_, rfl, ?_⟩
  · intro x hx
    simp only [handoffSigs, List.mem_cons] at hx
    rcases hx with rfl | hx
    · exact ⟨rfl, rfl⟩
    · have := failSigs_all _ _ _ x hx; exact ⟨this.1, this.2.1⟩
  · intro i hi
    simp only [handoffSigs, List.getElem?_cons_succ]
    rw [List.getElem?_eq_getElem (by rw [failSigs_length]; exact hi), failSigs_getElem _ _ _ _ hi]

theorem handoffSigs_handlers_nodup {c : Cfg} (hr : RefsInv c) (rs : List Nat) (r : Nat) (line : Str) (sid : Nat)
    (hst : c.A.inputStack = rs ++ [r]) :
    ((handoffSigs c.A.reqs rs r line sid).map (·.ih)).Nodup := by
  have h := stack_handlers_nodup hr
  rw [hst, List.map_append, List.pairwise_append] at h
  obtain ⟨h1, _, h3⟩ := h
  simp only [handoffSigs, List.map_cons, failSigs_map_ih, List.nodup_cons, okSig]
  refine ⟨?_, h1.imp (fun h => Nat.ne_of_lt h)⟩
  intro hm
  have := h3 _ hm (c.A.reqs.getD r default).ih (by simp)
  omega

theorem inputReady_result (P : Prog) (c : Cfg) (n : Nat) (s : Sig) (rest : List Instr)
    (hc : c.code = .inputReady n s :: rest) (hn : n < c.A.ihs.length) (hs : s.ih = n) :
    ∃ c', step P c = .ok c' ∧
      (c'.A.ihs.getD n default).received = true ∧ (c'.A.ihs.getD n default).ok = s.ok ∧
      (c'.A.ihs.getD n default).source = (c.A.ihs.getD n default).source ∧
      (∀ m, m ≠ n → c'.A.ihs.getD m default = c.A.ihs.getD m default) ∧
      c'.log = c.log ∧ c'.L = c.L ∧ c'.tr = c.tr ∧
      (s.ok = true →
        (c'.A.ihs.getD n default).value = some s.line ∧ (c'.A.ihs.getD n default).cb = none ∧
        c'.code = (match (c.A.ihs.getD n default).cb with
                   | some scr => [.processInput scr s.line]
                   | none => []) ++ rest) ∧
      (s.ok = false →
        (c'.A.ihs.getD n default).value = (c.A.ihs.getD n default).value ∧
        (c'.A.ihs.getD n default).cb = (c.A.ihs.getD n default).cb ∧ c'.code = rest) := by
  rw [step_inputReady P c n s rest hc]
  refine ⟨_, rfl, ?_⟩
  have hne : ∀ m, m ≠ n → ¬ (n = m ∧ m < c.A.ihs.length) := fun m hm h => hm h.1.symm
  have hnn : ¬ s.ih ≠ n := fun h => h hs
  rw [if_neg hnn]
  cases hok : s.ok
  · rw [if_pos rfl]
    have key : (listSet c.A.ihs n IHandler.failed).getD n default = (c.A.ihs.getD n default).failed := by
      rw [listSet_getD, if_pos ⟨rfl, hn⟩]
    refine ⟨?ga, ?gb, ?gc, ?gd, rfl, rfl, rfl, ?ge, ?gf⟩
    case ga =>
      show ((listSet c.A.ihs n IHandler.failed).getD n default).received = true
      rw [key]; rfl
    case gb =>
      show ((listSet c.A.ihs n IHandler.failed).getD n default).ok = false
      rw [key]; rfl
    case gc =>
      show ((listSet c.A.ihs n IHandler.failed).getD n default).source = _
      rw [key]; rfl
    case gd =>
      intro m hm
      show (listSet c.A.ihs n IHandler.failed).getD m default = _
      rw [listSet_getD, if_neg (hne m hm)]
    case ge => intro h; cases h
    case gf =>
      intro _
      refine ⟨?_, ?_, rfl⟩
      · show ((listSet c.A.ihs n IHandler.failed).getD n default).value = _
        rw [key]; rfl
      · show ((listSet c.A.ihs n IHandler.failed).getD n default).cb = _
        rw [key]; rfl
  · rw [if_neg (by simp)]
    have key : (listSet c.A.ihs n (·.answered s.line)).getD n default = (c.A.ihs.getD n default).answered s.line := by
      rw [listSet_getD, if_pos ⟨rfl, hn⟩]
    refine ⟨?ga, ?gb, ?gc, ?gd, rfl, rfl, rfl, ?ge, ?gf⟩
    case ga =>
      show ((listSet c.A.ihs n (·.answered s.line)).getD n default).received = true
      rw [key]; rfl
    case gb =>
      show ((listSet c.A.ihs n (·.answered s.line)).getD n default).ok = true
      rw [key]; rfl
    case gc =>
      show ((listSet c.A.ihs n (·.answered s.line)).getD n default).source = _
      rw [key]; rfl
    case gd =>
      intro m hm
      show (listSet c.A.ihs n (·.answered s.line)).getD m default = _
      rw [listSet_getD, if_neg (hne m hm)]
    case gf => intro h; cases h
    case ge =>
      intro _
      refine ⟨?_, ?_, rfl⟩
      · show ((listSet c.A.ihs n (·.answered s.line)).getD n default).value = _
        rw [key]; rfl
      · show ((listSet c.A.ihs n (·.answered s.line)).getD n default).cb = _
        rw [key]; rfl

/-! ### consequences of the pipeline invariant -/

theorem one_reader_of_inv {c0 c : Cfg} (hi : InputInv c0 c) : c.A.readers.length ≤ 1 := by
  have := hi.one_flight
  unfold inFlight at this; omega

theorem reader_busy_of_inv {c0 c : Cfg} (hi : InputInv c0 c) (hrd : c.A.readers ≠ []) :
    c.A.processing = true ∧ c.A.inputStack ≠ [] ∧ c.A.readers.length = 1 ∧ irQueued c = 0 ∧ irCode c.code = 0 := by
  have h1 := hi.one_flight
  have hl : 0 < c.A.readers.length := List.length_pos_iff.mpr hrd
  unfold inFlight at h1
  have hp := hi.flight_processing (by unfold inFlight; omega)
  exact ⟨hp, hi.processing_iff.mp hp, by omega, by omega, by omega⟩

theorem idle_quiet_of_inv {c0 c : Cfg} (hi : InputInv c0 c) (hp : c.A.processing = false) :
    c.A.readers = [] ∧ c.A.inputStack = [] ∧ irQueued c = 0 ∧ irCode c.code = 0 := by
  have h1 := hi.one_flight
  have h0' : inFlight c = 0 := by
    have := hi.flight_processing
    rw [hp] at this
    have h2 : inFlight c ≠ 1 := fun h => by cases this h
    omega
  unfold inFlight at h0'
  refine ⟨List.length_eq_zero_iff.mp (by omega), ?_, by omega, by omega⟩
  have := hi.processing_iff
  rw [hp] at this
  exact Decidable.byContradiction fun hne => by cases this.mpr hne

theorem handoff_finds_request_of_inv {c0 c : Cfg} (hi : InputInv c0 c) (s : Sig) (rest : List Instr)
    (hc : c.code = .inputReceived s :: rest) : c.A.inputStack ≠ [] := by
  have h1 := hi.one_flight
  apply hi.processing_iff.mp
  apply hi.flight_processing
  unfold inFlight at h1 ⊢
  rw [hc] at h1 ⊢
  simp [irCode, Instr.irPending] at h1 ⊢
  omega

theorem startRequest_ok_iff (c : Cfg) (ih : Nat) (requester : Src) (text : Str) :
    (∃ c', startRequest c ih requester text = .ok c') ↔
      (c.A.inputStack = [] ∨ (c.A.ihs.getD ih default).skip = true) ∨
      ∃ c', ({ c with A := reqRecorded c.A ih requester text } : Cfg).raise .err = .ok c' := by
  by_cases h : c.A.inputStack = [] ∨ (c.A.ihs.getD ih default).skip = true
  · exact ⟨fun _ => Or.inl h, fun _ => ⟨_, startRequest_accept c ih requester text h⟩⟩
  · have h' : c.A.inputStack ≠ [] ∧ (c.A.ihs.getD ih default).skip = false := by
      refine ⟨fun e => h (Or.inl e), ?_⟩
      cases hk : (c.A.ihs.getD ih default).skip
      · rfl
      · exact absurd (Or.inr hk) h
    rw [startRequest_refuse c ih requester text h'.1 h'.2]
    exact ⟨fun h1 => Or.inr h1, fun h1 => h1.resolve_left h⟩

theorem refuse_no_trace (c : Cfg) (ih : Nat) (requester : Src) (text : Str)
    (hs : c.A.inputStack ≠ []) (hk : (c.A.ihs.getD ih default).skip = false) :
    (final (startRequest c ih requester text)).A.inputStack = c.A.inputStack ∧
    (final (startRequest c ih requester text)).A.out = c.A.out ∧
    (final (startRequest c ih requester text)).A.readers = c.A.readers ∧
    (final (startRequest c ih requester text)).A.processing = c.A.processing := by
  rw [startRequest_refuse c ih requester text hs hk]
  simp only [raise_A]
  exact ⟨rfl, rfl, rfl, rfl⟩

theorem idle_after_handoff (P : Prog) (c : Cfg) (s : Sig) (rest : List Instr) (rs : List Nat) (r : Nat)
    (hc : c.code = .inputReceived s :: rest) (hst : c.A.inputStack = rs ++ [r])
    (ih : Nat) (requester : Src) (text : Str) :
    ∃ c' c'', step P c = .ok c' ∧ startRequest c' ih requester text = .ok c'' ∧
      c''.A.inputStack = [c'.A.reqs.length] ∧ c''.A.readers = c'.A.readers ++ [c'.A.reqs.length] ∧
      c''.A.processing = true := by
  obtain ⟨c', h1, _, _, h4, _⟩ := handoff_history P c s rest rs r hc hst
  have h5 := startRequest_accept c' ih requester text (Or.inl (by rw [h4]))
  refine ⟨c', _, h1, h5, ?_, ?_, rfl⟩
  · show c'.A.inputStack ++ [c'.A.reqs.length] = _
    rw [h4]; rfl
  · show (if c'.A.processing then c'.A.readers else c'.A.readers ++ [c'.A.reqs.length]) = _
    rw [h4]; rfl

theorem wait_returns_iff (P : Prog) (c c' : Cfg) (ih : Nat) (rest : List Instr)
    (hc : c.code = .waitInput ih :: rest) (hst : step P c = .ok c') :
    c'.code = rest ↔ (c.A.ihs.getD ih default).received = true := by
  rw [step_waitInput P c ih rest hc] at hst
  split at hst
  · cases hst; exact ⟨fun _ => ‹_›, fun _ => rfl⟩
  · split at hst
    · cases hst
    · cases hst
      refine ⟨fun h => ?_, fun h => absurd h ‹_›⟩
      have := congrArg List.length h
      simp at this
      omega

theorem trans_inpTrans {P : Prog} {c c' : Cfg} (ht : Trans P c c') : InpTrans c c' := by
  cases ht with
  | step h => have := step_inpTrans P c; rwa [h] at this
  | deliver h => exact .frame (InpFrame_deliver (Same_refl c) h)
  | halt h => have := step_inpTrans P c; rwa [h] at this

theorem screen_request (P : Prog) (c : Cfg) (scr : Nat) (args : Option Nat) (rest : List Instr)
    (hc : c.code = .getInput2 scr args :: rest) (hp : c.retPromptNone = false) :
    Requested c (final (step P c)) (freshIH (.scr scr) (P.spec scr).skipCheck (some scr))
      (promptText P defaultPrompt) := by
  rw [step_getInput2_some P c scr args rest hc hp]
  exact Requested_congr (requested_of_newIH _ _ _ _ _ _) rfl rfl rfl rfl rfl rfl rfl rfl rfl

theorem blocking_request (P : Prog) (c : Cfg) (scr : Nat) (cont : Bool) (rest : List Instr)
    (hc : c.code = .blockingInput scr cont :: rest) :
    Requested c (final (step P c)) (freshIH (.im scr) (P.spec scr).skipCheck none) (blockingText P cont) := by
  rw [step_blockingInput P c scr cont rest hc]
  exact Requested_congr (requested_of_newIH _ _ _ _ _ _) rfl rfl rfl rfl rfl rfl rfl rfl rfl

end Simpleline.Input
