/-
  The pending instructions never forge an input signal, and the library's two input handlers are only
  ever invoked with signals of their own class (needs `NoForge` and `UserHandlers`).
-/
import Simpleline.Lemmas.InputInv

namespace Simpleline.Input

/-! ### the registered handlers serve the right classes -/

/-- `InputThreadManager`'s handler is registered for `InputReceivedSignal` only, first in line, and every
`InputHandler`'s handler for `InputReadySignal` only -/
structure HandlersOK (c : Cfg) : Prop where
  itm : ∀ x ∈ c.L.handlers, x.2.1 = .itm → x.1 = .inputReceived
  ih : ∀ x ∈ c.L.handlers, ∀ n, x.2.1 = .ih n → x.1 = .inputReady
  first : ∃ us, handlersOf c.L .inputReceived = (.itm, none) :: us ∧ ∀ u ∈ us, u.1 ≠ .itm

theorem handlersOK_reach {P : Prog} {c0 c : Cfg} (h0 : Started c0) (hU : UserHandlers c0) (h : Reach P c0 c) :
    HandlersOK c := by
  have hh := handlers_reach h0 h
  obtain ⟨i, hs, q, sin, rfl⟩ := h0
  have hU' : ∀ x ∈ hs, x.2.1.isApp = true := by
    intro x hx; exact hU x (by simpa [initCfg] using hx)
  have hmem : ∀ x ∈ c.L.handlers, x = (.render, .render, none) ∨ x = (.close, .close, none) ∨
      x = (.inputReceived, .itm, none) ∨ x ∈ hs ∨ ∃ n, x = ihReg n := by
    intro x hx
    rw [hh] at hx
    rcases List.mem_append.mp hx with hx | hx
    · simp only [initCfg, List.cons_append, List.nil_append, List.mem_cons] at hx
      rcases hx with hx | hx | hx | hx
      · exact Or.inl hx
      · exact Or.inr (Or.inl hx)
      · exact Or.inr (Or.inr (Or.inl hx))
      · exact Or.inr (Or.inr (Or.inr (Or.inl hx)))
    · obtain ⟨n, _, rfl⟩ := List.mem_map.mp hx
      exact Or.inr (Or.inr (Or.inr (Or.inr ⟨n, rfl⟩)))
  refine ⟨?_, ?_, ?_⟩
  · intro x hx hi
    rcases hmem x hx with rfl | rfl | rfl | hx | ⟨n, rfl⟩
    · cases hi
    · cases hi
    · rfl
    · have := hU' x hx; rw [hi] at this; cases this
    · cases hi
  · intro x hx n hi
    rcases hmem x hx with rfl | rfl | rfl | hx | ⟨m, rfl⟩
    · cases hi
    · cases hi
    · cases hi
    · have := hU' x hx; rw [hi] at this; cases this
    · rfl
  · refine ⟨((hs.filter (·.1 = .inputReceived)).map (·.2)), ?_, ?_⟩
    · unfold handlersOf
      rw [hh]
      simp only [initCfg, List.cons_append, List.nil_append, List.filter_cons, List.filter_append]
      simp [ihReg, List.filter_eq_nil_iff]
    · intro u hu hi
      obtain ⟨x, hx, rfl⟩ := List.mem_map.mp hu
      have := hU' x (List.mem_filter.mp hx).1
      rw [hi] at this; cases this

theorem handlersOf_mem {L : LoopSt} {cls : Cls} {i : Nat} {h : HRef} {d : Option Nat}
    (hg : (handlersOf L cls)[i]? = some (h, d)) : (cls, h, d) ∈ L.handlers := by
  have := List.mem_of_getElem? hg
  unfold handlersOf at this
  obtain ⟨x, hx, hx2⟩ := List.mem_map.mp this
  obtain ⟨hx1, hx3⟩ := List.mem_filter.mp hx
  have : x = (cls, h, d) := by
    obtain ⟨a, b⟩ := x
    simp at hx3 hx2; subst hx3; subst hx2; rfl
  rwa [← this]

/-! ### clean code -/

def _root_.Simpleline.Instr.clean : Instr → Bool
  | .act a => !a.forges
  | .newLoop s => !s.cls.isInput
  | .callH .itm _ s => s.cls = .inputReceived
  | .callH (.ih _) _ s => s.cls = .inputReady
  | .inputReceived s => s.cls = .inputReceived
  | .inputReady _ s => s.cls = .inputReady
  | _ => true

def cleanCode (code : List Instr) : Prop := ∀ ins ∈ code, ins.clean = true

@[simp] theorem cleanCode_nil : cleanCode [] := by simp [cleanCode]
@[simp] theorem cleanCode_cons (i : Instr) (is : List Instr) : cleanCode (i :: is) ↔ i.clean = true ∧ cleanCode is := by
  simp [cleanCode]
@[simp] theorem cleanCode_append (is js : List Instr) : cleanCode (is ++ js) ↔ cleanCode is ∧ cleanCode js := by
  simp [cleanCode, or_imp, forall_and]

theorem cleanCode_sublist {is js : List Instr} (h : is.Sublist js) (hj : cleanCode js) : cleanCode is :=
  fun ins hi => hj ins (h.subset hi)

theorem cleanCode_raise {c : Cfg} (k : Kind) (h : cleanCode c.code) : cleanCode (final (c.raise k)).code :=
  cleanCode_sublist (raise_code c k) h

theorem cleanCode_acts (acts : List Act) (h : ∀ a ∈ acts, a.forges = false) : cleanCode (acts.map .act) := by
  intro ins hi
  obtain ⟨a, ha, rfl⟩ := List.mem_map.mp hi
  simp [Instr.clean, h a ha]

theorem cleanCode_go (scr : Nat) (evs : List OutEv) (cur : List Str) (acc : List Instr) (h : cleanCode acc) :
    cleanCode (step.go scr evs cur acc) := by
  induction evs generalizing cur acc with
  | nil => unfold step.go; split <;> simp [h, Instr.clean]
  | cons e es ih =>
    unfold step.go
    cases e with
    | line l => exact ih _ _ h
    | ask => apply ih; split <;> simp [h, Instr.clean]

theorem cleanCode_take {c1 : Cfg} (f : Sig → List Instr) (h : cleanCode c1.code) (hf : ∀ s, cleanCode (f s)) :
    cleanCode (final (do let x ← c1.take; pure (push x.2 (f x.1)))).code := by
  obtain ⟨c2, h2, h3⟩ := take_cases c1
  have hc2 : c2.code = c1.code := by
    rcases h2 with rfl | h2
    · rfl
    · exact deliver_code h2
  rcases h3 with ⟨_, h3⟩ | ⟨e, es, _, h3⟩
  · rw [h3]; show cleanCode c2.code; rw [hc2]; exact h
  · rw [h3]
    show cleanCode (push (c2.pop e es) (f e.2.2)).code
    simp [hc2, h, hf]

theorem doAct_clean (c : Cfg) (a : Act) (ha : a.forges = false) (h : cleanCode c.code) :
    cleanCode (final (doAct c a)).code := by
  unfold doAct
  split <;> (try dsimp only) <;>
    first
    | exact cleanCode_raise _ h
    | (simp [Instr.clean, h]; done)
    | (split <;> first | exact cleanCode_raise _ h | (simp [h]; done))
    | skip
  · simp [Act.forges] at ha
    simp [Instr.clean, h, ha]

theorem startRequest_clean (c : Cfg) (ih : Nat) (requester : Src) (text : Str) (h : cleanCode c.code) :
    cleanCode (final (startRequest c ih requester text)).code := by
  rw [startRequest_eq]
  split
  · exact cleanCode_raise _ h
  · split <;> simpa using h

theorem clean_callH {c : Cfg} {s : Sig} {i : Nat} {h : HRef} {d : Option Nat} (hH : HandlersOK c)
    (hg : (handlersOf c.L s.cls)[i]? = some (h, d)) : (Instr.callH h d s).clean = true := by
  have hm := handlersOf_mem hg
  cases h <;> simp only [Instr.clean, decide_eq_true_eq]
  · exact hH.itm _ hm rfl
  · exact hH.ih _ hm _ rfl

theorem inputReceived_code (P : Prog) (c : Cfg) (s : Sig) (rest : List Instr)
    (hc : c.code = .inputReceived s :: rest) : (final (step P c)).code.Sublist rest := by
  cases hst : c.A.inputStack.getLast? with
  | none =>
    rw [step_inputReceived_empty P c s rest hc (List.getLast?_eq_none_iff.mp hst)]
    exact raise_code _ _
  | some r =>
    obtain ⟨rs, hst'⟩ := List.getLast?_eq_some_iff.mp hst
    obtain ⟨c', h1, h2, h3, _⟩ := step_inputReceived P c s rest rs r hc hst'
    rw [h1, final_ok, h3]
    exact List.Sublist.refl _

macro "inp_clean_leaf" : tactic => `(tactic| first
    | (apply cleanCode_raise; simp [*, Instr.clean]; done)
    | (simp [*, Instr.clean, Cfg.newSig, Cls.isInput]; done)
    | (apply cleanCode_take (f := fun s => [Instr.processSignal s]) <;> simp [*, Instr.clean]; done)
    | (apply cleanCode_take (f := fun s => [Instr.processSignal s, _]) <;> simp [*, Instr.clean]; done)
    | (apply doAct_clean <;> simp [*, Instr.clean]; done)
    | (apply startRequest_clean; simp [*, Instr.clean, newIH]; done))

theorem cleanCode_step (P : Prog) (c : Cfg) (hP : P.NoForge) (hH : HandlersOK c) (hc : cleanCode c.code) :
    cleanCode (final (step P c)).code := by
  by_cases hir : ∃ s rest, c.code = .inputReceived s :: rest
  · obtain ⟨s, rest, hcode⟩ := hir
    rw [hcode] at hc
    exact cleanCode_sublist (inputReceived_code P c s rest hcode) (by simp_all)
  have hir' : ∀ s rest, ¬ c.code = .inputReceived s :: rest := fun s rest h => hir ⟨s, rest, h⟩
  unfold step
  split
  · simpa using hc
  · rename_i ins rest hcode
    rw [hcode] at hc
    simp only [cleanCode_cons] at hc
    obtain ⟨hins, hrest⟩ := hc
    split
    all_goals try (exact absurd hcode (hir' _ _))
    all_goals clear hir hir'
    all_goals try simp only [Instr.clean, Bool.not_eq_eq_eq_not, Bool.not_true, decide_eq_true_eq] at hins
    all_goals dsimp only
    all_goals try (inp_clean_leaf; done)
    all_goals try (split <;> try (inp_clean_leaf; done))
    all_goals try (split <;> try (inp_clean_leaf; done))
    all_goals try (split <;> try (inp_clean_leaf; done))
    all_goals try (split <;> try (inp_clean_leaf; done))
    -- dispatch
    · have := clean_callH (s := ‹Sig›) hH ‹_›
      simp only [final_ok, push_code, List.cons_append, List.nil_append, cleanCode_cons, this, hrest, and_true, true_and]
      exact ⟨rfl, rfl⟩
    -- callH user
    · simp [hrest, Instr.clean, cleanCode_acts _ (hP.2 _ _)]
    -- identCheck
    · exact cleanCode_sublist (List.dropWhile_sublist _) hrest
    -- callScr
    · simp [hrest, Instr.clean, cleanCode_acts _ (hP.1 _ _ _)]
    · simp [hrest, Instr.clean, cleanCode_acts _ (hP.1 _ _ _)]
    -- printWidget
    · simp [hrest, cleanCode_go]

theorem cleanCode_reach {P : Prog} {c0 c : Cfg} (h0 : Started c0) (hU : UserHandlers c0) (hF : NoForge P c0)
    (h : Reach P c0 c) : cleanCode c.code := by
  refine reach_induction (I := fun c => cleanCode c.code) ?_ ?_ ?_ h
  · intro ins hi
    have hcode : ∃ init : List Act, c0.code = init.map Instr.act ++ [Instr.apprun] := by
      obtain ⟨i, hs, q, sin, rfl⟩ := h0; exact ⟨i, rfl⟩
    obtain ⟨init, hcode⟩ := hcode
    rw [hcode] at hi
    simp only [List.mem_append, List.mem_map, List.mem_singleton] at hi
    rcases hi with ⟨a, ha, rfl⟩ | rfl
    · have := hF.2 (.act a) (by rw [hcode]; simp [ha])
      simp only [Instr.forges] at this
      simp [Instr.clean, this]
    · rfl
  · intro c hr hi
    exact cleanCode_step P c hF.1 (handlersOK_reach h0 hU hr) hi
  · intro c c' _ hi hd
    rw [deliver_code hd]; exact hi

end Simpleline.Input
