/-
  Counting lemmas for "a typed line is handed to at most one `input` callback" (C06): the number of
  pending signals carrying a given line, per queue store.
-/
import Simpleline.Lemmas.InputFlightInv

namespace Simpleline.Input

/-- the signal carries the typed line `l` -/
def lineIs (l : Str) (s : Sig) : Bool := s.carriesLine && decide (s.line = l)

def lq (l : Str) (q : EQueue) : Nat := q.sigs.countP (lineIs l)

def lQ (l : Str) (qs : List EQueue) : Nat := (qs.map (lq l)).sum

theorem lq_put (l : Str) (q : EQueue) (s : Sig) : lq l (q.put s) = lq l q + (if lineIs l s then 1 else 0) := by
  unfold lq EQueue.sigs EQueue.put
  exact insertEntry_countP (lineIs l) _ _

theorem lQ_listSet_le (l : Str) (qs : List EQueue) (i : Nat) (f : EQueue → EQueue) (k : Nat)
    (hf : ∀ q, lq l (f q) ≤ lq l q + k) : lQ l (listSet qs i f) ≤ lQ l qs + k := by
  unfold lQ listSet
  induction qs generalizing i with
  | nil => simp
  | cons q qs ih =>
    cases i with
    | zero => simp only [List.modify_zero_cons, List.map_cons, List.sum_cons]; have := hf q; omega
    | succ i => simp only [List.modify_succ_cons, List.map_cons, List.sum_cons]; have := ih i; omega

theorem lQ_listSet_eq (l : Str) (qs : List EQueue) (i : Nat) (f : EQueue → EQueue)
    (hf : ∀ q, lq l (f q) = lq l q) : lQ l (listSet qs i f) = lQ l qs := by
  unfold lQ listSet
  induction qs generalizing i with
  | nil => simp
  | cons q qs ih =>
    cases i with
    | zero => simp only [List.modify_zero_cons, List.map_cons, List.sum_cons, hf]
    | succ i => simp only [List.modify_succ_cons, List.map_cons, List.sum_cons, ih i]

theorem lQ_listSet_sub (l : Str) (qs : List EQueue) (i : Nat) (f : EQueue → EQueue) (k : Nat) (hi : i < qs.length)
    (hf : lq l (f (qs.getD i {})) + k = lq l (qs.getD i {})) : lQ l (listSet qs i f) + k = lQ l qs := by
  unfold lQ listSet
  induction qs generalizing i with
  | nil => simp at hi
  | cons q qs ih =>
    cases i with
    | zero =>
      simp only [List.modify_zero_cons, List.map_cons, List.sum_cons]
      simp only [List.getD_cons_zero] at hf
      omega
    | succ i =>
      simp only [List.modify_succ_cons, List.map_cons, List.sum_cons]
      simp only [List.getD_cons_succ] at hf
      have := ih i (by simpa using hi) hf
      omega

@[simp] theorem lQ_append_empty (l : Str) (qs : List EQueue) : lQ l (qs ++ [({} : EQueue)]) = lQ l qs := by
  simp [lQ, lq, EQueue.sigs]

theorem lq_addSource (l : Str) (q : EQueue) (s : Src) : lq l (addSource q s) = lq l q := by
  unfold addSource; split <;> rfl

@[simp] theorem lQ_addSource (l : Str) (qs : List EQueue) (i : Nat) (s : Src) :
    lQ l (listSet qs i (addSource · s)) = lQ l qs :=
  lQ_listSet_eq _ _ _ _ (fun q => lq_addSource l q s)

theorem lQ_enqueue_le (l : Str) (c : Cfg) (s : Sig) :
    lQ l (c.enqueue s).L.queues ≤ lQ l c.L.queues + (if lineIs l s then 1 else 0) := by
  rw [enqueue_queues]
  split
  · omega
  · exact lQ_listSet_le _ _ _ _ _ (fun q => by rw [lq_put]; omega)

theorem lQ_enqueue (l : Str) (c : Cfg) (s : Sig) (h : lineIs l s = false) :
    lQ l (c.enqueue s).L.queues = lQ l c.L.queues := by
  rw [enqueue_queues]
  split
  · rfl
  · exact lQ_listSet_eq _ _ _ _ (fun q => by rw [lq_put, h]; rfl)

theorem lineIs_of_not_carries {l : Str} {s : Sig} (h : s.carriesLine = false) : lineIs l s = false := by
  simp [lineIs, h]

@[simp] theorem lQ_redraw (l : Str) (c : Cfg) : lQ l c.redraw.L.queues = lQ l c.L.queues := by
  unfold Cfg.redraw
  exact lQ_enqueue _ _ _ rfl

@[simp] theorem lQ_excEnq (l : Str) (c : Cfg) (src : Src) : lQ l (excEnq c src).L.queues = lQ l c.L.queues := by
  unfold excEnq
  exact lQ_enqueue _ _ _ rfl

@[simp] theorem lQ_raise (l : Str) (c : Cfg) (k : Kind) : lQ l (final (c.raise k)).L.queues = lQ l c.L.queues := by
  obtain ⟨cT, hT, code', _, c1, h1, hf⟩ := raise_final c k
  rw [hf]; rcases hT with rfl | rfl <;> rcases h1 with rfl | ⟨src, rfl⟩ <;> simp

theorem lQ_pop (l : Str) (c : Cfg) (e : Int × Nat × Sig) (es : List (Int × Nat × Sig))
    (h : c.L.activeQ.entries = e :: es) :
    lQ l (c.pop e es).L.queues + (if lineIs l e.2.2 then 1 else 0) = lQ l c.L.queues := by
  unfold Cfg.pop
  simp only
  have hi : c.L.active < c.L.queues.length := by
    refine Decidable.byContradiction fun hn => ?_
    have : c.L.activeQ = {} := by
      unfold LoopSt.activeQ
      rw [List.getD_eq_getElem?_getD, List.getElem?_eq_none (Nat.le_of_not_lt hn)]; rfl
    rw [this] at h; cases h
  apply lQ_listSet_sub _ _ _ _ _ hi
  unfold LoopSt.activeQ at h
  unfold lq EQueue.sigs
  rw [h]
  simp only [List.map_cons, List.countP_cons]

/-! ### the log -/

def readCount (l : Str) (log : List Ev) : Nat := (readLines log).count l
def inputCount (l : Str) (log : List Ev) : Nat := (inputLines log).count l

theorem readCount_cons_read (l k : Str) (log : List Ev) :
    readCount l (.read k :: log) = readCount l log + (if k = l then 1 else 0) := by
  unfold readCount
  rw [readLines_cons_read, List.count_append]
  simp [List.count_cons]

theorem readCount_cons (l : Str) (e : Ev) (log : List Ev) (h : e.isRead = false) :
    readCount l (e :: log) = readCount l log := by
  unfold readCount; rw [readLines_cons _ _ h]

/-- the line an event hands to an `input` callback -/
def _root_.Simpleline.Ev.inputLine? : Ev → Option Str
  | .cb _ .input _ (some k) => some k
  | _ => none

theorem inputLines_cons (e : Ev) (log : List Ev) :
    inputLines (e :: log) = inputLines log ++ e.inputLine?.toList := by
  unfold inputLines
  cases e with
  | cb scr cb a key => cases cb <;> cases key <;> simp [Ev.inputLine?]
  | _ => simp [Ev.inputLine?]

theorem inputCount_cons (l : Str) (e : Ev) (log : List Ev) :
    inputCount l (e :: log) = inputCount l log + (if e.inputLine? = some l then 1 else 0) := by
  unfold inputCount
  rw [inputLines_cons, List.count_append]
  cases h : e.inputLine? with
  | none => simp
  | some k => simp [List.count_cons]

theorem inputCount_cons_read (l k : Str) (log : List Ev) : inputCount l (.read k :: log) = inputCount l log := by
  rw [inputCount_cons]; rfl

end Simpleline.Input
