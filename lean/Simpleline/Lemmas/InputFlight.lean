/-
  At most one typed line is in flight between the console and the hand-off (C18): counting lemmas
  for the queues and the invariant `FlightOK`.
-/
import Simpleline.Lemmas.InputCode

namespace Simpleline.Input

/-! ### counting `InputReceivedSignal`s in the queues -/

def isIR (s : Sig) : Bool := s.cls = .inputReceived

def irq (q : EQueue) : Nat := q.sigs.countP isIR

def irQ (qs : List EQueue) : Nat := (qs.map irq).sum

theorem irQueued_eq (c : Cfg) : irQueued c = irQ c.L.queues := by
  unfold irQueued Cfg.pending irQ
  induction c.L.queues with
  | nil => rfl
  | cons q qs ih =>
    simp only [List.flatMap_cons, List.countP_append, List.map_cons, List.sum_cons]
    rw [ih]; rfl

theorem insertEntry_countP (p : Sig → Bool) (e : Int × Nat × Sig) (l : List (Int × Nat × Sig)) :
    ((insertEntry e l).map (·.2.2)).countP p = (l.map (·.2.2)).countP p + (if p e.2.2 then 1 else 0) := by
  induction l with
  | nil => simp [insertEntry, List.countP_cons]
  | cons x xs ih =>
    unfold insertEntry
    split
    · simp only [List.map_cons, List.countP_cons]
    · simp only [List.map_cons, List.countP_cons, ih]; omega

theorem irq_put (q : EQueue) (s : Sig) : irq (q.put s) = irq q + (if isIR s then 1 else 0) := by
  unfold irq EQueue.sigs EQueue.put
  exact insertEntry_countP isIR _ _

theorem irQ_listSet_le (qs : List EQueue) (i : Nat) (f : EQueue → EQueue) (k : Nat)
    (hf : ∀ q, irq (f q) ≤ irq q + k) : irQ (listSet qs i f) ≤ irQ qs + k := by
  unfold irQ listSet
  induction qs generalizing i with
  | nil => simp
  | cons q qs ih =>
    cases i with
    | zero => simp only [List.modify_zero_cons, List.map_cons, List.sum_cons]; have := hf q; omega
    | succ i => simp only [List.modify_succ_cons, List.map_cons, List.sum_cons]; have := ih i; omega

theorem irQ_listSet_eq (qs : List EQueue) (i : Nat) (f : EQueue → EQueue)
    (hf : ∀ q, irq (f q) = irq q) : irQ (listSet qs i f) = irQ qs := by
  unfold irQ listSet
  induction qs generalizing i with
  | nil => simp
  | cons q qs ih =>
    cases i with
    | zero => simp only [List.modify_zero_cons, List.map_cons, List.sum_cons, hf]
    | succ i => simp only [List.modify_succ_cons, List.map_cons, List.sum_cons, ih i]

/-- removing `k` matching signals from queue `i` -/
theorem irQ_listSet_sub (qs : List EQueue) (i : Nat) (f : EQueue → EQueue) (k : Nat) (hi : i < qs.length)
    (hf : irq (f (qs.getD i {})) + k = irq (qs.getD i {})) : irQ (listSet qs i f) + k = irQ qs := by
  unfold irQ listSet
  induction qs generalizing i with
  | nil => simp at hi
  | cons q qs ih =>
    cases i with
    | zero =>
      simp only [List.modify_zero_cons, List.map_cons, List.sum_cons]
      simp only [List.getD_cons_zero] at hf
      omega
    | succ i =>
      simp only [List.modify_succ_cons, List.map_cons, List.sum_cons]
      simp only [List.getD_cons_succ] at hf
      have := ih i (by simpa using hi) hf
      omega

@[simp] theorem irQ_append_empty (qs : List EQueue) : irQ (qs ++ [({} : EQueue)]) = irQ qs := by
  simp [irQ, irq, EQueue.sigs]

theorem irq_addSource (q : EQueue) (s : Src) : irq (addSource q s) = irq q := by
  unfold addSource; split <;> rfl

@[simp] theorem irQ_addSource (qs : List EQueue) (i : Nat) (s : Src) :
    irQ (listSet qs i (addSource · s)) = irQ qs :=
  irQ_listSet_eq _ _ _ (fun q => irq_addSource q s)

theorem irQ_enqueue_le (c : Cfg) (s : Sig) :
    irQ (c.enqueue s).L.queues ≤ irQ c.L.queues + (if isIR s then 1 else 0) := by
  rw [enqueue_queues]
  split
  · omega
  · exact irQ_listSet_le _ _ _ _ (fun q => by rw [irq_put]; omega)

theorem irQ_enqueue (c : Cfg) (s : Sig) (h : isIR s = false) : irQ (c.enqueue s).L.queues = irQ c.L.queues := by
  rw [enqueue_queues]
  split
  · rfl
  · exact irQ_listSet_eq _ _ _ (fun q => by rw [irq_put, h]; rfl)

@[simp] theorem irQ_redraw (c : Cfg) : irQ c.redraw.L.queues = irQ c.L.queues := by
  unfold Cfg.redraw
  exact irQ_enqueue _ _ rfl

@[simp] theorem irQ_excEnq (c : Cfg) (src : Src) : irQ (excEnq c src).L.queues = irQ c.L.queues := by
  unfold excEnq
  exact irQ_enqueue _ _ rfl

@[simp] theorem irQ_raise (c : Cfg) (k : Kind) : irQ (final (c.raise k)).L.queues = irQ c.L.queues := by
  obtain ⟨cT, hT, code', _, c1, h1, hf⟩ := raise_final c k
  rw [hf]; rcases hT with rfl | rfl <;> rcases h1 with rfl | ⟨src, rfl⟩ <;> simp

theorem irQ_pop (c : Cfg) (e : Int × Nat × Sig) (es : List (Int × Nat × Sig)) (h : c.L.activeQ.entries = e :: es) :
    irQ (c.pop e es).L.queues + (if isIR e.2.2 then 1 else 0) = irQ c.L.queues := by
  unfold Cfg.pop
  simp only
  have hi : c.L.active < c.L.queues.length := by
    refine Decidable.byContradiction fun hn => ?_
    have : c.L.activeQ = {} := by
      unfold LoopSt.activeQ
      rw [List.getD_eq_getElem?_getD, List.getElem?_eq_none (Nat.le_of_not_lt hn)]; rfl
    rw [this] at h; cases h
  apply irQ_listSet_sub _ _ _ _ hi
  unfold LoopSt.activeQ at h
  unfold irq EQueue.sigs
  rw [h]
  simp only [List.map_cons, List.countP_cons]

theorem irQ_deliver {c c' : Cfg} (h : c.deliver = some c') :
    c'.A.readers.length + irQ c'.L.queues ≤ c.A.readers.length + irQ c.L.queues := by
  obtain ⟨r, rs, hr, rfl⟩ := deliver_eq h
  simp only [enqueue_A, hr, List.length_cons]
  refine Nat.le_trans (Nat.add_le_add_left (irQ_enqueue_le _ _) _) ?_
  simp only [isIR, decide_true, if_true]
  omega

/-! ### counting in the code -/

@[simp] theorem irCode_nil : irCode [] = 0 := rfl
@[simp] theorem irCode_cons (i : Instr) (is : List Instr) : irCode (i :: is) = i.irPending + irCode is := by
  simp [irCode]
@[simp] theorem irCode_append (is js : List Instr) : irCode (is ++ js) = irCode is + irCode js := by
  simp [irCode]

theorem irCode_sublist {is js : List Instr} (h : is.Sublist js) : irCode is ≤ irCode js := by
  induction h with
  | slnil => simp
  | cons a _ ih => simp; omega
  | cons_cons a _ ih => simp; omega

theorem irCode_acts (acts : List Act) : irCode (acts.map .act) = 0 := by
  induction acts with
  | nil => rfl
  | cons a as ih => simp [ih, Instr.irPending]

theorem irCode_go (scr : Nat) (evs : List OutEv) (cur : List Str) (acc : List Instr) (h : irCode acc = 0) :
    irCode (step.go scr evs cur acc) = 0 := by
  induction evs generalizing cur acc with
  | nil => unfold step.go; split <;> simp [h, Instr.irPending]
  | cons e es ih =>
    unfold step.go
    cases e with
    | line l => exact ih _ _ h
    | ask => apply ih; split <;> simp [h, Instr.irPending]

end Simpleline.Input
