/-
  The invariant `FlightOK`: at most one typed line is in flight between the console and the hand-off,
  and only while the input subsystem is busy (needs `NoForge` and `UserHandlers`).
-/
import Simpleline.Lemmas.InputFlight

namespace Simpleline.Input

/-- lines in flight -/
def fl (c : Cfg) : Nat := c.A.readers.length + irQ c.L.queues + irCode c.code

def FlightOK (c : Cfg) : Prop := fl c ≤ c.A.processing.toNat

theorem fl_eq_inFlight (c : Cfg) : fl c = inFlight c := by
  unfold fl inFlight; rw [irQueued_eq]

theorem flight_emit_le (P : Prog) (X : Cfg) (e : Ev) (K B : Nat)
    (h : X.A.readers.length + irQ X.L.queues + K ≤ B) :
    (X.emit P e).A.readers.length + irQ (X.emit P e).L.queues + K ≤ B := by
  rcases emit_cases P X e with h1 | h1
  · rw [h1]; exact h
  · have := irQ_deliver h1
    simp only [emit0_A, emit0_L] at this
    omega

theorem flight_take (c1 : Cfg) (f : Sig → List Instr) (B : Nat)
    (hf : ∀ s, irCode (f s) = (if isIR s then 1 else 0))
    (h : c1.A.readers.length + irQ c1.L.queues + irCode c1.code ≤ B) :
    fl (final (do let x ← c1.take; pure (push x.2 (f x.1)))) ≤ B ∧
    (final (do let x ← c1.take; pure (push x.2 (f x.1)))).A.processing = c1.A.processing := by
  obtain ⟨c2, h2, h3⟩ := take_cases c1
  have hc2 : c2.code = c1.code ∧ c2.A.processing = c1.A.processing ∧
      c2.A.readers.length + irQ c2.L.queues ≤ c1.A.readers.length + irQ c1.L.queues := by
    rcases h2 with rfl | h2
    · exact ⟨rfl, rfl, Nat.le_refl _⟩
    · exact ⟨deliver_code h2, deliver_processing h2, irQ_deliver h2⟩
  obtain ⟨e1, e2, e3⟩ := hc2
  rcases h3 with ⟨_, h3⟩ | ⟨e, es, he, h3⟩
  · rw [h3]
    refine ⟨?_, e2⟩
    show fl c2 ≤ B
    unfold fl; rw [e1]; omega
  · rw [h3]
    refine ⟨?_, e2⟩
    show fl (push (c2.pop e es) (f e.2.2)) ≤ B
    have := irQ_pop c2 e es he
    unfold fl
    simp only [push_A, pop_A, push_L, push_code, pop_code, irCode_append, hf, e1]
    omega

/-- the transition does not put a line in flight and leaves the busy flag alone -/
def Fle (c' c : Cfg) : Prop := fl c' ≤ fl c ∧ c'.A.processing = c.A.processing

theorem Fle_raise (c : Cfg) (k : Kind) : Fle (final (c.raise k)) c := by
  unfold Fle fl
  have := irCode_sublist (raise_code c k)
  simp only [raise_A, irQ_raise, and_true]
  omega

theorem Fle_trans {a b c : Cfg} (h1 : Fle a b) (h2 : Fle b c) : Fle a c :=
  ⟨Nat.le_trans h1.1 h2.1, h1.2.trans h2.2⟩

theorem isIR_of_not_input {s : Sig} (h : s.cls.isInput = false) : isIR s = false := by
  unfold isIR; cases hs : s.cls <;> simp_all [Cls.isInput]

macro "inp_fle_leaf" : tactic => `(tactic| first
    | (with_reducible exact Fle_raise _ _)
    | (unfold Fle fl; simp [Instr.irPending, irQ_enqueue, isIR, Cfg.newSig, irCode_acts]; done)
    | (unfold Fle fl; simp [Instr.irPending, irQ_enqueue, isIR, Cfg.newSig, irCode_acts]; omega))

theorem Fle_doAct (c : Cfg) (a : Act) (ha : a.forges = false) : Fle (final (doAct c a)) c := by
  unfold doAct
  split <;> (try dsimp only) <;>
    first
    | inp_fle_leaf
    | (split <;> inp_fle_leaf)
    | skip
  · simp only [Act.forges] at ha
    unfold Fle fl
    simp [irQ_enqueue _ _ (isIR_of_not_input (s := { id := _, cls := _, prio := _, src := _ }) ha)]

theorem FlightOK_of_Fle {c c' : Cfg} (h : Fle c' c) (hf : FlightOK c) : FlightOK c' := by
  unfold FlightOK at *; rw [h.2]; exact Nat.le_trans h.1 hf

theorem FlightOK_take (c1 : Cfg) (f : Sig → List Instr)
    (hf : ∀ s, irCode (f s) = (if isIR s then 1 else 0)) (h : FlightOK c1) :
    FlightOK (final (do let x ← c1.take; pure (push x.2 (f x.1)))) := by
  have := flight_take c1 f c1.A.processing.toNat hf h
  unfold FlightOK
  rw [this.2]; exact this.1

macro "inp_fl_close" : tactic => `(tactic|
  (simp [FlightOK, fl, Instr.irPending, irQ_enqueue, isIR, Cfg.newSig, irCode_acts] at * <;> omega))

macro "inp_fl_leaf" : tactic => `(tactic| first
    | ((with_reducible apply FlightOK_of_Fle (Fle_raise _ _)); inp_fl_close)
    | inp_fl_close)

theorem irPending_callH {c : Cfg} {s : Sig} {i : Nat} {h : HRef} {d : Option Nat} (hH : HandlersOK c)
    (hg : (handlersOf c.L s.cls)[i]? = some (h, d)) :
    (Instr.callH h d s).irPending = if s.cls = .inputReceived ∧ i = 0 then 1 else 0 := by
  have hm := handlersOf_mem hg
  by_cases hc : s.cls = .inputReceived
  · obtain ⟨us, hus, hno⟩ := hH.first
    rw [hc, hus] at hg
    cases i with
    | zero =>
      simp only [List.getElem?_cons_zero, Option.some.injEq, Prod.mk.injEq] at hg
      obtain ⟨rfl, rfl⟩ := hg
      simp [Instr.irPending, hc]
    | succ i =>
      simp only [List.getElem?_cons_succ] at hg
      have := hno _ (List.mem_of_getElem? hg)
      simp only [hc, Nat.succ_ne_zero, and_false, if_false]
      cases h <;> simp_all [Instr.irPending]
  · have : h ≠ .itm := fun hh => hc (hH.itm _ hm hh)
    simp only [hc, false_and, if_false]
    cases h <;> simp_all [Instr.irPending]

theorem FlightOK_startRequest (c : Cfg) (ih : Nat) (requester : Src) (text : Str) (h : FlightOK c) :
    FlightOK (final (startRequest c ih requester text)) := by
  rw [startRequest_eq]
  split
  · refine FlightOK_of_Fle (Fle_raise _ _) ?_
    simpa [FlightOK, fl, reqRecorded] using h
  · split
    · rename_i hp
      simp [FlightOK, fl, reqRecorded, hp] at h ⊢
      exact h
    · rename_i hp
      have hp' : c.A.processing = false := by simpa using hp
      unfold FlightOK fl at h ⊢
      rw [hp'] at h
      simp only [final_ok, write_readers, write_L, write_code, write_processing, reqRecorded, List.length_append,
        List.length_cons, List.length_nil, Bool.toNat_true, Bool.toNat_false] at h ⊢
      omega

theorem FlightOK_inputReceived (P : Prog) (c : Cfg) (s : Sig) (rest : List Instr)
    (hc : c.code = .inputReceived s :: rest) (hf : FlightOK c) : FlightOK (final (step P c)) := by
  cases hst : c.A.inputStack.getLast? with
  | none =>
    rw [step_inputReceived_empty P c s rest hc (List.getLast?_eq_none_iff.mp hst)]
    refine FlightOK_of_Fle (Fle_raise _ _) ?_
    unfold FlightOK fl at hf ⊢
    rw [hc] at hf
    simp [Instr.irPending] at hf ⊢
    omega
  | some r =>
    obtain ⟨rs, hst'⟩ := List.getLast?_eq_some_iff.mp hst
    obtain ⟨c', h1, h2, h3, h4, h5, h6, h7⟩ := step_inputReceived P c s rest rs r hc hst'
    rw [h1, final_ok]
    unfold FlightOK fl at hf ⊢
    rw [hc] at hf
    simp only [irCode_cons, Instr.irPending] at hf
    have hq : irQ c'.L.queues ≤ irQ c.L.queues := by
      have : c'.L = (enqueueAll c (handoffSigs c.A.reqs rs r s.line (c.nextSid + 1))).L := congrArg (·.1) h7
      rw [this]
      have key : ∀ (sigs : List Sig) (c : Cfg), (∀ x ∈ sigs, isIR x = false) →
          irQ (enqueueAll c sigs).L.queues = irQ c.L.queues := by
        intro sigs
        induction sigs with
        | nil => intro c _; rfl
        | cons x xs ih =>
          intro c hx
          rw [enqueueAll_cons, ih _ (fun y hy => hx y (List.mem_cons_of_mem _ hy)),
            irQ_enqueue _ _ (hx x List.mem_cons_self)]
      refine Nat.le_of_eq (key _ _ ?_)
      intro x hx
      have hcls : ∀ (ts : List Nat) (sid : Nat), ∀ x ∈ failSigs c.A.reqs ts sid, x.cls = .inputReady := by
        intro ts
        induction ts with
        | nil => intro sid x hx; cases hx
        | cons t ts ih =>
          intro sid x hx
          simp only [failSigs, List.mem_cons] at hx
          rcases hx with rfl | hx
          · rfl
          · exact ih _ x hx
      simp only [handoffSigs, List.mem_cons] at hx
      rcases hx with rfl | hx
      · rfl
      · simp [isIR, hcls _ _ x hx]
    have hb : c.A.processing.toNat ≤ 1 := by cases c.A.processing <;> simp
    rw [h2, h3]
    simp only [Bool.toNat_false, Nat.le_zero_eq]
    omega

theorem flight_step (P : Prog) (c : Cfg) (hc : cleanCode c.code) (hH : HandlersOK c) (hf : FlightOK c) :
    FlightOK (final (step P c)) := by
  by_cases hir : ∃ s rest, c.code = .inputReceived s :: rest
  · obtain ⟨s, rest, hcode⟩ := hir
    exact FlightOK_inputReceived P c s rest hcode hf
  have hir' : ∀ s rest, ¬ c.code = .inputReceived s :: rest := fun s rest h => hir ⟨s, rest, h⟩
  unfold step
  split
  · simpa using hf
  · rename_i ins rest hcode
    rw [hcode] at hc
    simp only [cleanCode_cons] at hc
    obtain ⟨hins, hrest⟩ := hc
    clear hrest
    have hf' : c.A.readers.length + irQ c.L.queues + (ins.irPending + irCode rest) ≤ c.A.processing.toNat := by
      unfold FlightOK fl at hf; rw [hcode, irCode_cons] at hf; exact hf
    clear hf
    split
    all_goals try (exact absurd hcode (hir' _ _))
    all_goals clear hir hir'
    all_goals try simp only [Instr.clean, Bool.not_eq_eq_eq_not, Bool.not_true, decide_eq_true_eq] at hins
    all_goals simp only [Instr.irPending] at hf'
    all_goals dsimp only
    all_goals try (inp_fl_leaf; done)
    all_goals try (first
      | ((with_reducible apply FlightOK_take (f := fun s => [Instr.processSignal s])) <;> inp_fl_close; done)
      | ((with_reducible refine FlightOK_of_Fle (Fle_doAct _ _ hins) ?_); inp_fl_close))
    all_goals try (split <;> try (inp_fl_leaf; done))
    all_goals try (first
      | ((with_reducible apply FlightOK_take (f := fun s => [Instr.processSignal s, _])) <;> inp_fl_close; done))
    all_goals try (split <;> try (inp_fl_leaf; done))
    all_goals try (split <;> try (inp_fl_leaf; done))
    all_goals try (split <;> try (inp_fl_leaf; done))
    all_goals try ((with_reducible apply FlightOK_startRequest); simp [FlightOK, fl, newIH, Instr.irPending] at * <;> omega)
    all_goals try (simp [FlightOK, fl, irCode_acts] at *)
    all_goals try ((with_reducible apply flight_emit_le); simp [Instr.irPending]; omega)
    -- dispatch
    · rw [irPending_callH hH ‹_›]
      have : ∀ (s : Sig) (i : Nat), ¬ (s.cls = .inputReceived ∧ i + 1 = 0) := by intro s i h; omega
      simp only [Instr.irPending, this, if_false] at hf' ⊢
      omega
    -- procIter
    · have := irQ_pop c _ _ ‹_›
      simp only [Cfg.pop, isIR, decide_eq_true_eq] at this
      simp only [Instr.irPending]
      omega
    · have := irQ_pop c _ _ ‹_›
      simp only [Cfg.pop, isIR, decide_eq_true_eq] at this
      simp only [Instr.irPending]
      omega
    -- newLoop
    · rw [irQ_enqueue _ _ (isIR_of_not_input hins)]
      simp [Instr.irPending]
      omega
    -- identCheck
    · exact Nat.le_trans (Nat.add_le_add_left (irCode_sublist (List.dropWhile_sublist _)) _) hf'
    -- printWidget
    · rw [irCode_go _ _ _ _ rfl]
      omega

theorem flight_reach {P : Prog} {c0 c : Cfg} (h0 : Started c0) (hU : UserHandlers c0) (hF : NoForge P c0)
    (h : Reach P c0 c) : FlightOK c := by
  refine reach_induction (I := FlightOK) ?_ ?_ ?_ h
  · obtain ⟨i, hs, q, sin, rfl⟩ := h0
    simp [FlightOK, fl, initCfg, irCode_acts, Instr.irPending, irQ, irq, EQueue.sigs]
  · intro c hr hi
    exact flight_step P c (cleanCode_reach h0 hU hF hr) (handlersOK_reach h0 hU hr) hi
  · intro c c' _ hi hd
    unfold FlightOK fl at hi ⊢
    have := irQ_deliver hd
    rw [deliver_code hd, deliver_processing hd]
    omega

/-- the pipeline invariant of C18 -/
theorem inputInv_reach {P : Prog} {c0 c : Cfg} (h0 : Started c0) (hU : UserHandlers c0) (hF : NoForge P c0)
    (h : Reach P c0 c) : InputInv c0 c := by
  have hr := refsInv_reach h0 h
  have hfl := flight_reach h0 hU hF h
  unfold FlightOK at hfl
  rw [fl_eq_inFlight] at hfl
  have hb : c.A.processing.toNat ≤ 1 := by cases c.A.processing <;> simp
  refine ⟨hr.stack_valid, hr.readers_valid, hr.reqs_valid, handlers_reach h0 h, Nat.le_trans hfl hb, ?_,
    processing_reach h0 h⟩
  intro h1
  rw [h1] at hfl
  cases hp : c.A.processing
  · rw [hp] at hfl; simp at hfl
  · rfl

end Simpleline.Input
