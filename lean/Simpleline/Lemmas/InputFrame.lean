/-
  Frame lemmas for the input-pipeline proofs (C06, C18): what the machine's primitive operations
  (`enqueue`, `redraw`, `deliver`, `emit`, `take`, `unwind`/`raise`, `newIH`, `setScr`) do to the
  components the pipeline invariants talk about.
-/
import Simpleline.Spec.InputSpec

namespace Simpleline.Input

@[simp] theorem final_ok (c : Cfg) : final (.ok c) = c := rfl
@[simp] theorem final_error (o : Outcome) (c : Cfg) : final (.error (o, c)) = c := rfl
@[simp] theorem final_pure (c : Cfg) : final (pure c : Except (Outcome × Cfg) Cfg) = c := rfl

/-! ### `listSet` -/

@[simp] theorem listSet_length {α} (l : List α) (i : Nat) (f : α → α) : (listSet l i f).length = l.length := by
  simp [listSet]

theorem listSet_getElem? {α} (l : List α) (i j : Nat) (f : α → α) :
    (listSet l i f)[j]? = if i = j then l[j]?.map f else l[j]? := by
  simp only [listSet, List.getElem?_modify]
  split <;> simp

theorem listSet_getD {α} (l : List α) (i j : Nat) (f : α → α) (d : α) :
    (listSet l i f).getD j d = if i = j ∧ j < l.length then f (l.getD j d) else l.getD j d := by
  simp only [List.getD_eq_getElem?_getD, listSet_getElem?]
  by_cases hij : i = j
  · subst hij
    by_cases hl : i < l.length
    · simp [hl]
    · simp [hl]
  · simp [hij]

theorem mem_listSet {α} {l : List α} {i : Nat} {f : α → α} {x : α} (h : x ∈ listSet l i f) :
    x ∈ l ∨ ∃ y ∈ l, x = f y := by
  obtain ⟨j, hj, rfl⟩ := List.getElem_of_mem h
  have hj' : j < l.length := by simpa using hj
  have := listSet_getElem? l i j f
  rw [List.getElem?_eq_getElem hj, List.getElem?_eq_getElem hj'] at this
  split at this
  · right; exact ⟨l[j], List.getElem_mem _, by simpa using this⟩
  · left; have : (listSet l i f)[j] = l[j] := by simpa using this
    rw [this]; exact List.getElem_mem _

/-! ### `trace`, `write`, `push`, `newSig` (definitional) -/

@[simp] theorem trace_A (c : Cfg) (t : Tr) : (c.trace t).A = c.A := rfl
@[simp] theorem trace_L (c : Cfg) (t : Tr) : (c.trace t).L = c.L := rfl
@[simp] theorem trace_code (c : Cfg) (t : Tr) : (c.trace t).code = c.code := rfl
@[simp] theorem trace_log (c : Cfg) (t : Tr) : (c.trace t).log = c.log := rfl
@[simp] theorem trace_tr (c : Cfg) (t : Tr) : (c.trace t).tr = t :: c.tr := rfl
@[simp] theorem trace_nextSid (c : Cfg) (t : Tr) : (c.trace t).nextSid = c.nextSid := rfl
@[simp] theorem trace_retPromptNone (c : Cfg) (t : Tr) : (c.trace t).retPromptNone = c.retPromptNone := rfl

@[simp] theorem write_L (c : Cfg) (t : Str) : (c.write t).L = c.L := rfl
@[simp] theorem write_code (c : Cfg) (t : Str) : (c.write t).code = c.code := rfl
@[simp] theorem write_log (c : Cfg) (t : Str) : (c.write t).log = c.log := rfl
@[simp] theorem write_tr (c : Cfg) (t : Str) : (c.write t).tr = c.tr := rfl
@[simp] theorem write_nextSid (c : Cfg) (t : Str) : (c.write t).nextSid = c.nextSid := rfl
@[simp] theorem write_ihs (c : Cfg) (t : Str) : (c.write t).A.ihs = c.A.ihs := rfl
@[simp] theorem write_reqs (c : Cfg) (t : Str) : (c.write t).A.reqs = c.A.reqs := rfl
@[simp] theorem write_inputStack (c : Cfg) (t : Str) : (c.write t).A.inputStack = c.A.inputStack := rfl
@[simp] theorem write_processing (c : Cfg) (t : Str) : (c.write t).A.processing = c.A.processing := rfl
@[simp] theorem write_readers (c : Cfg) (t : Str) : (c.write t).A.readers = c.A.readers := rfl
@[simp] theorem write_stdin (c : Cfg) (t : Str) : (c.write t).A.stdin = c.A.stdin := rfl
@[simp] theorem write_screens (c : Cfg) (t : Str) : (c.write t).A.screens = c.A.screens := rfl
@[simp] theorem write_stack (c : Cfg) (t : Str) : (c.write t).A.stack = c.A.stack := rfl
@[simp] theorem write_out (c : Cfg) (t : Str) : (c.write t).A.out = c.A.out ++ [t] := rfl

@[simp] theorem push_A (c : Cfg) (is : List Instr) : (push c is).A = c.A := rfl
@[simp] theorem push_L (c : Cfg) (is : List Instr) : (push c is).L = c.L := rfl
@[simp] theorem push_code (c : Cfg) (is : List Instr) : (push c is).code = is ++ c.code := rfl
@[simp] theorem push_log (c : Cfg) (is : List Instr) : (push c is).log = c.log := rfl
@[simp] theorem push_tr (c : Cfg) (is : List Instr) : (push c is).tr = c.tr := rfl
@[simp] theorem push_nextSid (c : Cfg) (is : List Instr) : (push c is).nextSid = c.nextSid := rfl

@[simp] theorem newSig_A (c : Cfg) (cls prio src line ih ok) : (c.newSig cls prio src line ih ok).2.A = c.A := rfl
@[simp] theorem newSig_L (c : Cfg) (cls prio src line ih ok) : (c.newSig cls prio src line ih ok).2.L = c.L := rfl
@[simp] theorem newSig_code (c : Cfg) (cls prio src line ih ok) : (c.newSig cls prio src line ih ok).2.code = c.code := rfl
@[simp] theorem newSig_log (c : Cfg) (cls prio src line ih ok) : (c.newSig cls prio src line ih ok).2.log = c.log := rfl
@[simp] theorem newSig_tr (c : Cfg) (cls prio src line ih ok) : (c.newSig cls prio src line ih ok).2.tr = c.tr := rfl
@[simp] theorem newSig_retPromptNone (c : Cfg) (cls prio src line ih ok) :
    (c.newSig cls prio src line ih ok).2.retPromptNone = c.retPromptNone := rfl
@[simp] theorem newSig_nextSid (c : Cfg) (cls prio src line ih ok) :
    (c.newSig cls prio src line ih ok).2.nextSid = c.nextSid + 1 := rfl
@[simp] theorem newSig_sig (c : Cfg) (cls prio src line ih ok) :
    (c.newSig cls prio src line ih ok).1 =
      { id := c.nextSid + 1, cls := cls, prio := prio, src := src, line := line, ih := ih, ok := ok } := rfl

/-! ### `setScr` -/

@[simp] theorem setScr_ihs (A : AppSt) (i f) : (A.setScr i f).ihs = A.ihs := rfl
@[simp] theorem setScr_reqs (A : AppSt) (i f) : (A.setScr i f).reqs = A.reqs := rfl
@[simp] theorem setScr_inputStack (A : AppSt) (i f) : (A.setScr i f).inputStack = A.inputStack := rfl
@[simp] theorem setScr_processing (A : AppSt) (i f) : (A.setScr i f).processing = A.processing := rfl
@[simp] theorem setScr_readers (A : AppSt) (i f) : (A.setScr i f).readers = A.readers := rfl
@[simp] theorem setScr_stdin (A : AppSt) (i f) : (A.setScr i f).stdin = A.stdin := rfl
@[simp] theorem setScr_stack (A : AppSt) (i f) : (A.setScr i f).stack = A.stack := rfl
@[simp] theorem setScr_out (A : AppSt) (i f) : (A.setScr i f).out = A.out := rfl

theorem setScr_getD (A : AppSt) (i j : Nat) (f : ScreenObj → ScreenObj) :
    (A.setScr i f).screens.getD j {} = if i = j then f (A.screens.getD j {}) else A.screens.getD j {} := by
  unfold AppSt.setScr
  simp only [listSet_getD]
  by_cases hij : i = j
  · subst hij
    have : i < (A.screens ++ List.replicate (i + 1 - A.screens.length) ({} : ScreenObj)).length := by
      simp; omega
    simp only [this, and_self, if_true]
    congr 1
    simp only [List.getD_eq_getElem?_getD]
    by_cases hl : i < A.screens.length
    · simp [List.getElem?_append_left hl]
    · have hl' : A.screens.length ≤ i := Nat.le_of_not_lt hl
      rw [List.getElem?_append_right hl', List.getElem?_eq_none hl']
      simp only [List.getElem?_replicate]
      split <;> rfl
  · simp only [hij, false_and, if_false]
    simp only [List.getD_eq_getElem?_getD]
    by_cases hl : j < A.screens.length
    · simp [List.getElem?_append_left hl]
    · have hl' : A.screens.length ≤ j := Nat.le_of_not_lt hl
      rw [List.getElem?_append_right hl', List.getElem?_eq_none hl']
      simp only [List.getElem?_replicate]
      split <;> rfl

theorem setScr_getElem? (A : AppSt) (i j : Nat) (f : ScreenObj → ScreenObj) :
    (A.setScr i f).screens[j]?.getD {} = if i = j then f (A.screens[j]?.getD {}) else A.screens[j]?.getD {} := by
  simpa only [List.getD_eq_getElem?_getD] using setScr_getD A i j f

/-! ### `enqueue`, `redraw` -/

@[simp] theorem enqueue_A (c : Cfg) (s : Sig) : (c.enqueue s).A = c.A := by
  unfold Cfg.enqueue; split <;> rfl
@[simp] theorem enqueue_code (c : Cfg) (s : Sig) : (c.enqueue s).code = c.code := by
  unfold Cfg.enqueue; split <;> rfl
@[simp] theorem enqueue_log (c : Cfg) (s : Sig) : (c.enqueue s).log = c.log := by
  unfold Cfg.enqueue; split <;> rfl
@[simp] theorem enqueue_nextSid (c : Cfg) (s : Sig) : (c.enqueue s).nextSid = c.nextSid := by
  unfold Cfg.enqueue; split <;> rfl
@[simp] theorem enqueue_retPromptNone (c : Cfg) (s : Sig) : (c.enqueue s).retPromptNone = c.retPromptNone := by
  unfold Cfg.enqueue; split <;> rfl
@[simp] theorem enqueue_handlers (c : Cfg) (s : Sig) : (c.enqueue s).L.handlers = c.L.handlers := by
  unfold Cfg.enqueue; split <;> rfl
@[simp] theorem enqueue_levels (c : Cfg) (s : Sig) : (c.enqueue s).L.levels = c.L.levels := by
  unfold Cfg.enqueue; split <;> rfl
@[simp] theorem enqueue_active (c : Cfg) (s : Sig) : (c.enqueue s).L.active = c.L.active := by
  unfold Cfg.enqueue; split <;> rfl
@[simp] theorem enqueue_forceQuit (c : Cfg) (s : Sig) : (c.enqueue s).L.forceQuit = c.L.forceQuit := by
  unfold Cfg.enqueue; split <;> rfl
@[simp] theorem enqueue_runLoop (c : Cfg) (s : Sig) : (c.enqueue s).L.runLoop = c.L.runLoop := by
  unfold Cfg.enqueue; split <;> rfl
theorem enqueue_tr (c : Cfg) (s : Sig) : (c.enqueue s).tr = enqEvent c s :: c.tr := by
  unfold Cfg.enqueue enqEvent; split <;> rfl
theorem enqueue_queues (c : Cfg) (s : Sig) :
    (c.enqueue s).L.queues = if c.L.forceQuit then c.L.queues else listSet c.L.queues (c.L.route s.src) (·.put s) := by
  unfold Cfg.enqueue; split <;> rfl

@[simp] theorem redraw_A (c : Cfg) : c.redraw.A = c.A := by simp [Cfg.redraw]
@[simp] theorem redraw_code (c : Cfg) : c.redraw.code = c.code := by simp [Cfg.redraw]
@[simp] theorem redraw_log (c : Cfg) : c.redraw.log = c.log := by simp [Cfg.redraw]
@[simp] theorem redraw_handlers (c : Cfg) : c.redraw.L.handlers = c.L.handlers := by simp [Cfg.redraw]
@[simp] theorem redraw_retPromptNone (c : Cfg) : c.redraw.retPromptNone = c.retPromptNone := by simp [Cfg.redraw]

/-! ### `deliver`, `emit` -/

/-- the configuration after logging `e`, before a possible delivery -/
def emit0 (c : Cfg) (e : Ev) : Cfg := { c with log := e :: c.log }

/-- the exact effect of a delivery -/
theorem deliver_eq {c c' : Cfg} (h : c.deliver = some c') :
    ∃ r rs, c.A.readers = r :: rs ∧
      c' = ({ c with A := { c.A with readers := rs, stdin := c.A.stdin.tail },
                     log := .read (c.A.stdin.headD []) :: c.log,
                     nextSid := c.nextSid + 1 } : Cfg).enqueue
            { id := c.nextSid + 1, cls := .inputReceived, prio := 0, src := .req r, line := c.A.stdin.headD [] } := by
  unfold Cfg.deliver at h
  split at h
  · cases h
  · rename_i r rs hr
    refine ⟨r, rs, hr, ?_⟩
    simp only [Option.some.injEq] at h
    rw [← h]; rfl

theorem deliver_none {c : Cfg} (h : c.deliver = none) : c.A.readers = [] := by
  unfold Cfg.deliver at h
  split at h
  · assumption
  · cases h

theorem emit_cases (P : Prog) (c : Cfg) (e : Ev) :
    c.emit P e = emit0 c e ∨ (emit0 c e).deliver = some (c.emit P e) := by
  unfold Cfg.emit
  simp only
  split
  · cases h : Cfg.deliver { c with log := e :: c.log }
    · left; rfl
    · right; simpa [emit0] using h
  · left; rfl

@[simp] theorem emit0_A (c : Cfg) (e : Ev) : (emit0 c e).A = c.A := rfl
@[simp] theorem emit0_L (c : Cfg) (e : Ev) : (emit0 c e).L = c.L := rfl
@[simp] theorem emit0_code (c : Cfg) (e : Ev) : (emit0 c e).code = c.code := rfl
@[simp] theorem emit0_log (c : Cfg) (e : Ev) : (emit0 c e).log = e :: c.log := rfl
@[simp] theorem emit0_tr (c : Cfg) (e : Ev) : (emit0 c e).tr = c.tr := rfl
@[simp] theorem emit0_nextSid (c : Cfg) (e : Ev) : (emit0 c e).nextSid = c.nextSid := rfl
@[simp] theorem emit0_retPromptNone (c : Cfg) (e : Ev) : (emit0 c e).retPromptNone = c.retPromptNone := rfl

theorem deliver_code {c c' : Cfg} (h : c.deliver = some c') : c'.code = c.code := by
  obtain ⟨r, rs, _, rfl⟩ := deliver_eq h; simp
theorem deliver_handlers {c c' : Cfg} (h : c.deliver = some c') : c'.L.handlers = c.L.handlers := by
  obtain ⟨r, rs, _, rfl⟩ := deliver_eq h; simp
theorem deliver_ihs {c c' : Cfg} (h : c.deliver = some c') : c'.A.ihs = c.A.ihs := by
  obtain ⟨r, rs, _, rfl⟩ := deliver_eq h; simp
theorem deliver_reqs {c c' : Cfg} (h : c.deliver = some c') : c'.A.reqs = c.A.reqs := by
  obtain ⟨r, rs, _, rfl⟩ := deliver_eq h; simp
theorem deliver_inputStack {c c' : Cfg} (h : c.deliver = some c') : c'.A.inputStack = c.A.inputStack := by
  obtain ⟨r, rs, _, rfl⟩ := deliver_eq h; simp
theorem deliver_processing {c c' : Cfg} (h : c.deliver = some c') : c'.A.processing = c.A.processing := by
  obtain ⟨r, rs, _, rfl⟩ := deliver_eq h; simp
theorem deliver_screens {c c' : Cfg} (h : c.deliver = some c') : c'.A.screens = c.A.screens := by
  obtain ⟨r, rs, _, rfl⟩ := deliver_eq h; simp
theorem deliver_readers {c c' : Cfg} (h : c.deliver = some c') : c'.A.readers = c.A.readers.tail := by
  obtain ⟨r, rs, hr, rfl⟩ := deliver_eq h; simp [hr]
theorem deliver_stdin {c c' : Cfg} (h : c.deliver = some c') : c'.A.stdin = c.A.stdin.tail := by
  obtain ⟨r, rs, _, rfl⟩ := deliver_eq h; simp
theorem deliver_log {c c' : Cfg} (h : c.deliver = some c') : c'.log = .read (c.A.stdin.headD []) :: c.log := by
  obtain ⟨r, rs, _, rfl⟩ := deliver_eq h; simp
theorem deliver_retPromptNone {c c' : Cfg} (h : c.deliver = some c') : c'.retPromptNone = c.retPromptNone := by
  obtain ⟨r, rs, _, rfl⟩ := deliver_eq h; simp

@[simp] theorem emit_code (P : Prog) (c : Cfg) (e : Ev) : (c.emit P e).code = c.code := by
  rcases emit_cases P c e with h | h
  · rw [h]; rfl
  · rw [deliver_code h]; rfl
@[simp] theorem emit_handlers (P : Prog) (c : Cfg) (e : Ev) : (c.emit P e).L.handlers = c.L.handlers := by
  rcases emit_cases P c e with h | h
  · rw [h]; rfl
  · rw [deliver_handlers h]; rfl
@[simp] theorem emit_ihs (P : Prog) (c : Cfg) (e : Ev) : (c.emit P e).A.ihs = c.A.ihs := by
  rcases emit_cases P c e with h | h
  · rw [h]; rfl
  · rw [deliver_ihs h]; rfl
@[simp] theorem emit_reqs (P : Prog) (c : Cfg) (e : Ev) : (c.emit P e).A.reqs = c.A.reqs := by
  rcases emit_cases P c e with h | h
  · rw [h]; rfl
  · rw [deliver_reqs h]; rfl
@[simp] theorem emit_inputStack (P : Prog) (c : Cfg) (e : Ev) : (c.emit P e).A.inputStack = c.A.inputStack := by
  rcases emit_cases P c e with h | h
  · rw [h]; rfl
  · rw [deliver_inputStack h]; rfl
@[simp] theorem emit_processing (P : Prog) (c : Cfg) (e : Ev) : (c.emit P e).A.processing = c.A.processing := by
  rcases emit_cases P c e with h | h
  · rw [h]; rfl
  · rw [deliver_processing h]; rfl
@[simp] theorem emit_screens (P : Prog) (c : Cfg) (e : Ev) : (c.emit P e).A.screens = c.A.screens := by
  rcases emit_cases P c e with h | h
  · rw [h]; rfl
  · rw [deliver_screens h]; rfl
@[simp] theorem emit_retPromptNone (P : Prog) (c : Cfg) (e : Ev) : (c.emit P e).retPromptNone = c.retPromptNone := by
  rcases emit_cases P c e with h | h
  · rw [h]; rfl
  · rw [deliver_retPromptNone h]; rfl

/-! ### `take` -/

/-- the head `e` of the active queue is taken for dispatch, `es` stay -/
def _root_.Simpleline.Cfg.pop (c : Cfg) (e : Int × Nat × Sig) (es : List (Int × Nat × Sig)) : Cfg :=
  { c with L := { c.L with queues := listSet c.L.queues c.L.active fun q => { q with entries := es } },
           tr := .take c.L.active e.2.2 :: c.tr }

@[simp] theorem pop_A (c : Cfg) (e es) : (c.pop e es).A = c.A := rfl
@[simp] theorem pop_code (c : Cfg) (e es) : (c.pop e es).code = c.code := rfl
@[simp] theorem pop_log (c : Cfg) (e es) : (c.pop e es).log = c.log := rfl
@[simp] theorem pop_handlers (c : Cfg) (e es) : (c.pop e es).L.handlers = c.L.handlers := rfl
@[simp] theorem pop_tr (c : Cfg) (e es) : (c.pop e es).tr = .take c.L.active e.2.2 :: c.tr := rfl
@[simp] theorem pop_nextSid (c : Cfg) (e es) : (c.pop e es).nextSid = c.nextSid := rfl
@[simp] theorem pop_retPromptNone (c : Cfg) (e es) : (c.pop e es).retPromptNone = c.retPromptNone := rfl

/-- `take`: possibly a delivery first (when the active queue is empty), then either nothing to take
(the run blocks) or the head of the active queue is removed -/
theorem take_cases (c : Cfg) : ∃ c1, (c1 = c ∨ c.deliver = some c1) ∧
    ((c1.L.activeQ.entries = [] ∧ c.take = .error (.blocked, c1)) ∨
     ∃ e es, c1.L.activeQ.entries = e :: es ∧ c.take = .ok (e.2.2, c1.pop e es)) := by
  unfold Cfg.take
  simp only
  generalize hc1 : (if c.L.activeQ.entries = [] then (c.deliver).getD c else c) = c1
  refine ⟨c1, ?_, ?_⟩
  · rw [← hc1]; split
    · cases h : c.deliver
      · left; rfl
      · right; rfl
    · left; rfl
  · split
    · left; exact ⟨‹_›, rfl⟩
    · rename_i e es he
      right; exact ⟨e, es, he, rfl⟩

/-! ### `unwind`, `raise` -/

/-- an `ExceptionSignal` is enqueued for source `src` -/
def excEnq (c : Cfg) (src : Src) : Cfg :=
  (c.newSig .exception (-20) src).2.enqueue (c.newSig .exception (-20) src).1

@[simp] theorem excEnq_A (c : Cfg) (src : Src) : (excEnq c src).A = c.A := by simp [excEnq]
@[simp] theorem excEnq_log (c : Cfg) (src : Src) : (excEnq c src).log = c.log := by simp [excEnq]
@[simp] theorem excEnq_code (c : Cfg) (src : Src) : (excEnq c src).code = c.code := by simp [excEnq]
@[simp] theorem excEnq_handlers (c : Cfg) (src : Src) : (excEnq c src).L.handlers = c.L.handlers := by simp [excEnq]
@[simp] theorem excEnq_retPromptNone (c : Cfg) (src : Src) : (excEnq c src).retPromptNone = c.retPromptNone := by
  simp [excEnq]

/-- unwinding drops instructions and, at a catcher, enqueues one `ExceptionSignal`; nothing else -/
theorem unwind_final (k : Kind) (code : List Instr) (c : Cfg) :
    ∃ code', code'.Sublist code ∧ ∃ c1, (c1 = c ∨ ∃ src, c1 = excEnq c src) ∧
      final (unwind k code c) = { c1 with code := code' } := by
  induction code with
  | nil =>
    refine ⟨[], List.Sublist.refl _, c, Or.inl rfl, ?_⟩
    unfold unwind; cases k <;> rfl
  | cons ins rest ih =>
    obtain ⟨code', hsub, c1, hc1, hfin⟩ := ih
    unfold unwind
    split
    · exact ⟨rest, List.sublist_cons_self _ _, _, Or.inr ⟨.loop, rfl⟩, rfl⟩
    · exact ⟨rest, List.sublist_cons_self _ _, _, Or.inr ⟨.sched, rfl⟩, rfl⟩
    · exact ⟨rest, List.sublist_cons_self _ _, _, Or.inr ⟨.sched, rfl⟩, rfl⟩
    · rename_i scr
      refine ⟨_, ?_, _, Or.inr ⟨.im scr, rfl⟩, rfl⟩
      exact ((List.drop_sublist _ _).trans (List.dropWhile_sublist _)).trans (List.sublist_cons_self _ _)
    · exact ⟨rest, List.sublist_cons_self _ _, c, Or.inl rfl, rfl⟩
    · exact ⟨code', hsub.trans (List.sublist_cons_self _ _), c1, hc1, hfin⟩

theorem raise_final (c : Cfg) (k : Kind) :
    ∃ cT, (cT = c ∨ cT = c.trace .exit) ∧ ∃ code', code'.Sublist c.code ∧
      ∃ c1, (c1 = cT ∨ ∃ src, c1 = excEnq cT src) ∧ final (c.raise k) = { c1 with code := code' } := by
  unfold Cfg.raise
  cases k
  · exact ⟨c.trace .exit, Or.inr rfl, unwind_final .exit c.code (c.trace .exit)⟩
  · exact ⟨c, Or.inl rfl, unwind_final .err c.code c⟩
  · exact ⟨c, Or.inl rfl, unwind_final .sysexit c.code c⟩

@[simp] theorem raise_A (c : Cfg) (k : Kind) : (final (c.raise k)).A = c.A := by
  obtain ⟨cT, hT, code', _, c1, h1, hf⟩ := raise_final c k
  rw [hf]; rcases hT with rfl | rfl <;> rcases h1 with rfl | ⟨src, rfl⟩ <;> simp
@[simp] theorem raise_handlers (c : Cfg) (k : Kind) : (final (c.raise k)).L.handlers = c.L.handlers := by
  obtain ⟨cT, hT, code', _, c1, h1, hf⟩ := raise_final c k
  rw [hf]; rcases hT with rfl | rfl <;> rcases h1 with rfl | ⟨src, rfl⟩ <;> simp
@[simp] theorem raise_log (c : Cfg) (k : Kind) : (final (c.raise k)).log = c.log := by
  obtain ⟨cT, hT, code', _, c1, h1, hf⟩ := raise_final c k
  rw [hf]; rcases hT with rfl | rfl <;> rcases h1 with rfl | ⟨src, rfl⟩ <;> simp
@[simp] theorem raise_retPromptNone (c : Cfg) (k : Kind) : (final (c.raise k)).retPromptNone = c.retPromptNone := by
  obtain ⟨cT, hT, code', _, c1, h1, hf⟩ := raise_final c k
  rw [hf]; rcases hT with rfl | rfl <;> rcases h1 with rfl | ⟨src, rfl⟩ <;> simp
theorem raise_code (c : Cfg) (k : Kind) : (final (c.raise k)).code.Sublist c.code := by
  obtain ⟨cT, hT, code', hs, c1, h1, hf⟩ := raise_final c k
  rw [hf]; exact hs

theorem final_ite (p : Prop) [Decidable p] (a b : Except (Outcome × Cfg) Cfg) :
    final (if p then a else b) = if p then final a else final b := by split <;> rfl

end Simpleline.Input
