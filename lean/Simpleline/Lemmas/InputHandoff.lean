/-
  Lemmas for the C18 hand-off and wait theorems: the trace of a batch of enqueues, facts about
  `handoffSigs`, the `waitInput` step, and "`received` is set only by the handler's own signal".
-/
import Simpleline.Lemmas.InputInv

namespace Simpleline.Input

/-! ### routing is not affected by enqueuing -/

theorem sources_listSet_put (qs : List EQueue) (q0 q : Nat) (s : Sig) :
    ((listSet qs q0 (·.put s)).getD q {}).sources = (qs.getD q {}).sources := by
  rw [listSet_getD]; split <;> rfl

theorem route_enqueue (c : Cfg) (s : Sig) (src : Src) : (c.enqueue s).L.route src = c.L.route src := by
  unfold LoopSt.route
  simp only [enqueue_levels, enqueue_active, enqueue_queues]
  by_cases hf : c.L.forceQuit = true
  · simp only [hf, if_true]
  · have hf' : c.L.forceQuit = false := by simpa using hf
    simp only [hf', Bool.false_eq_true, if_false, sources_listSet_put]

theorem enqEvent_enqueue (c : Cfg) (s s' : Sig) : enqEvent (c.enqueue s) s' = enqEvent c s' := by
  unfold enqEvent; rw [route_enqueue, enqueue_forceQuit]

theorem enqueueAll_tr (sigs : List Sig) (c : Cfg) :
    (enqueueAll c sigs).tr = (sigs.map (enqEvent c)).reverse ++ c.tr := by
  induction sigs generalizing c with
  | nil => rfl
  | cons s ss ih =>
    rw [enqueueAll_cons, ih, enqueue_tr]
    simp [enqEvent_enqueue]

/-! ### `newTr` -/

theorem newTr_of_append {c c' : Cfg} {new : List Tr} (h : c'.tr = new ++ c.tr) : newTr c c' = new := by
  unfold newTr; rw [h]; simp

theorem newLog_of_append {c c' : Cfg} {new : List Ev} (h : c'.log = new ++ c.log) : newLog c c' = new := by
  unfold newLog; rw [h]; simp

/-! ### the signals of a hand-off -/

theorem failSigs_length (reqs : List Request) (ts : List Nat) (sid : Nat) : (failSigs reqs ts sid).length = ts.length := by
  induction ts generalizing sid with
  | nil => rfl
  | cons t ts ih => simp [failSigs, ih]

theorem failSigs_getElem (reqs : List Request) (ts : List Nat) (sid i : Nat) (hi : i < ts.length) :
    (failSigs reqs ts sid)[i]'(by rw [failSigs_length]; exact hi) = failSig reqs ts[i] (sid + i) := by
  induction ts generalizing sid i with
  | nil => cases hi
  | cons t ts ih =>
    cases i with
    | zero => simp [failSigs]
    | succ i =>
      simp only [failSigs, List.getElem_cons_succ]
      rw [ih (sid + 1) i (by simpa using hi)]
      congr 1
      omega

theorem failSigs_map_ih (reqs : List Request) (ts : List Nat) (sid : Nat) :
    (failSigs reqs ts sid).map (·.ih) = ts.map fun t => (reqs.getD t default).ih := by
  induction ts generalizing sid with
  | nil => rfl
  | cons t ts ih => simp [failSigs, ih, failSig]

theorem failSigs_all (reqs : List Request) (ts : List Nat) (sid : Nat) :
    ∀ x ∈ failSigs reqs ts sid, x.cls = .inputReady ∧ x.prio = 0 ∧ x.ok = false ∧ x.line = [] := by
  induction ts generalizing sid with
  | nil => intro x hx; cases hx
  | cons t ts ih =>
    intro x hx
    simp only [failSigs, List.mem_cons] at hx
    rcases hx with rfl | hx
    · exact ⟨rfl, rfl, rfl, rfl⟩
    · exact ih _ x hx

/-- on a reachable configuration the requests on the stack belong to pairwise different handlers -/
theorem stack_handlers_nodup {c : Cfg} (hr : RefsInv c) :
    (c.A.inputStack.map fun t => (c.A.reqs.getD t default).ih).Pairwise (· < ·) := by
  have hmono : ∀ a b, a < b → b < c.A.reqs.length →
      (c.A.reqs.getD a default).ih < (c.A.reqs.getD b default).ih := by
    intro a b hab hb
    have ha : a < c.A.reqs.length := Nat.lt_trans hab hb
    have := List.pairwise_iff_getElem.mp hr.reqs_sorted a b (by simpa using ha) (by simpa using hb) hab
    simpa [List.getD_eq_getElem?_getD, ha, hb] using this
  rw [List.pairwise_map]
  refine List.Pairwise.imp_of_mem ?_ hr.stack_sorted
  intro a b _ hb hab
  exact hmono a b hab (hr.stack_valid b hb)

/-! ### the wait -/

theorem step_waitInput (P : Prog) (c : Cfg) (ih : Nat) (rest : List Instr) (hc : c.code = .waitInput ih :: rest) :
    step P c =
      if (c.A.ihs.getD ih default).received then .ok { c with code := rest }
      else if ¬ c.L.runLoop then .error (.livelock, { c with code := rest })
      else .ok { c with code := .procWait .inputReady :: .waitInput ih :: rest } := by
  unfold step; simp only [hc]; rfl

theorem default_received : (default : IHandler).received = false := rfl

/-- `received` of a handler is set only by an `inputReady` step for a signal meant for that handler, which also
sets the success flag and (on success) the value -/
theorem received_set_only_by_own_signal {c c' : Cfg} (ht : InpTrans c c') (n : Nat)
    (h0 : (c.A.ihs.getD n default).received = false) (h1 : (c'.A.ihs.getD n default).received = true) :
    ∃ s rest, c.code = .inputReady n s :: rest ∧ s.ih = n ∧ n < c.A.ihs.length ∧
      (c'.A.ihs.getD n default).ok = s.ok ∧
      (s.ok = true → (c'.A.ihs.getD n default).value = some s.line) ∧
      (s.ok = false → (c'.A.ihs.getD n default).value = (c.A.ihs.getD n default).value) := by
  cases ht with
  | frame hf => rw [hf.ihs, h0] at h1; cases h1
  | screenReq scr args sk text hr _ | blockingReq scr sk text hr _ =>
    exfalso
    rw [hr.ihs] at h1
    simp only [List.getD_eq_getElem?_getD] at h0 h1
    rw [List.getElem?_append] at h1
    split at h1
    · rw [h0] at h1; cases h1
    · cases hk : ([_][n - c.A.ihs.length]? : Option IHandler) with
      | none => rw [hk] at h1; cases h1
      | some h => rw [hk, singleton_getElem? hk] at h1; cases h1
  | handoff s rest _ _ eA _ _ => simp only [eA] at h1; rw [h0] at h1; cases h1
  | ready m s rest f hc hs hf eA _ _ =>
    simp only [eA, listSet_getD] at h1 ⊢
    by_cases hmn : m = n ∧ n < c.A.ihs.length
    · obtain ⟨rfl, hlt⟩ := hmn
      refine ⟨s, rest, hc, hs, hlt, ?_⟩
      simp only [hlt, and_self, if_true]
      rcases hf with ⟨hok, rfl⟩ | ⟨hok, rfl⟩
      · exact ⟨by simp [IHandler.failed, hok], by simp [hok], fun _ => rfl⟩
      · exact ⟨by simp [IHandler.answered, hok], fun _ => rfl, by simp [hok]⟩
    · rw [if_neg hmn, h0] at h1; cases h1

/-- the one-shot callback of an existing handler is never re-armed -/
theorem cb_never_rearmed {c c' : Cfg} (ht : InpTrans c c') (n : Nat) (hn : n < c.A.ihs.length) (scr : Nat)
    (h1 : (c'.A.ihs.getD n default).cb = some scr) : (c.A.ihs.getD n default).cb = some scr := by
  cases ht with
  | frame hf => rwa [hf.ihs] at h1
  | screenReq scr' args sk text hr _ | blockingReq scr' sk text hr _ =>
    rw [hr.ihs] at h1
    simp only [List.getD_eq_getElem?_getD] at h1 ⊢
    rwa [List.getElem?_append_left hn] at h1
  | handoff s rest _ _ eA _ _ => simpa only [eA] using h1
  | ready m s rest f hc hs hf eA _ _ =>
    simp only [eA, listSet_getD] at h1
    split at h1
    · rcases hf with ⟨_, rfl⟩ | ⟨_, rfl⟩
      · exact h1
      · simp [IHandler.answered] at h1
    · exact h1

/-! ### the registered handlers, counted -/

theorem count_ihReg_range (n len : Nat) : ((List.range len).map ihReg).count (ihReg n) = if n < len then 1 else 0 := by
  induction len with
  | zero => simp
  | succ k ih =>
    rw [List.range_succ, List.map_append, List.count_append, ih]
    simp only [List.map_cons, List.map_nil, List.count_cons, List.count_nil, ihReg, beq_iff_eq, Prod.mk.injEq,
      HRef.ih.injEq, true_and, and_true]
    by_cases h1 : n < k
    · have : ¬ k = n := by omega
      have : n < k + 1 := by omega
      simp [*]
    · by_cases h2 : k = n
      · subst h2; simp
      · have : ¬ n < k + 1 := by omega
        simp [*]

theorem handlers_counts {P : Prog} {c0 c : Cfg} (h0 : Started c0) (hU : UserHandlers c0) (h : Reach P c0 c) :
    c.L.handlers.count (.inputReceived, .itm, none) = 1 ∧
    ∀ n, c.L.handlers.count (ihReg n) = if n < c.A.ihs.length then 1 else 0 := by
  have hh := handlers_reach h0 h
  obtain ⟨i, hs, q, sin, rfl⟩ := h0
  have hU' : ∀ x ∈ hs, x.2.1.isApp = true := by
    intro x hx; exact hU x (by simpa [initCfg] using hx)
  have hcount : ∀ y : Cls × HRef × Option Nat, y.2.1.isApp = false → hs.count y = 0 := by
    intro y hy
    rw [List.count_eq_zero]
    intro hm
    have := hU' y hm
    rw [hy] at this; cases this
  rw [hh]
  refine ⟨?_, ?_⟩
  · rw [List.count_append]
    have : ((List.range c.A.ihs.length).map ihReg).count (.inputReceived, .itm, none) = 0 := by
      rw [List.count_eq_zero]
      intro hm
      obtain ⟨n, _, hn⟩ := List.mem_map.mp hm
      simp [ihReg] at hn
    rw [this]
    have h1 := hcount (.inputReceived, .itm, none) rfl
    simp only [initCfg, List.cons_append, List.nil_append, List.count_cons, h1]
    decide
  · intro n
    rw [List.count_append, count_ihReg_range]
    have h1 := hcount (ihReg n) rfl
    simp only [ihReg] at h1
    simp only [initCfg, List.cons_append, List.nil_append, List.count_cons, ihReg, h1]
    simp

end Simpleline.Input
