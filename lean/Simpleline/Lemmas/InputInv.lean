/-
  Invariants of the input pipeline that hold for every program (C06, C18), proved by induction over
  `Reach` through the transition relation `InpTrans`.
-/
import Simpleline.Lemmas.InputStep

namespace Simpleline.Input

/-! ### induction principles -/

theorem reach_induction {P : Prog} {c0 : Cfg} {I : Cfg → Prop} (h0 : I c0)
    (hs : ∀ c, Reach P c0 c → I c → I (final (step P c)))
    (hd : ∀ c c', Reach P c0 c → I c → c.deliver = some c' → I c') :
    ∀ {c}, Reach P c0 c → I c := by
  intro c h
  induction h with
  | init => exact h0
  | step hr hst ih => have := hs _ hr ih; rwa [hst] at this
  | deliver hr hdl ih => exact hd _ _ hr ih hdl
  | halt hr hst ih => have := hs _ hr ih; rwa [hst] at this

theorem reach_inpTrans_induction {P : Prog} {c0 : Cfg} {I : Cfg → Prop} (h0 : I c0)
    (ht : ∀ c c', Reach P c0 c → I c → InpTrans c c' → I c') :
    ∀ {c}, Reach P c0 c → I c :=
  reach_induction h0 (fun c hr hi => ht c _ hr hi (step_inpTrans P c))
    (fun c _ hr hi hd => ht c _ hr hi (.frame (InpFrame_deliver (Same_refl c) hd)))

/-- a bounded run only visits reachable configurations -/
theorem reach_runFuel (P : Prog) (c0 : Cfg) (n : Nat) (c : Cfg) (h : Reach P c0 c) :
    Reach P c0 (runFuel P n c).1 := by
  induction n generalizing c with
  | zero => exact h
  | succ n ih =>
    unfold runFuel
    split
    · rename_i c' hs; exact ih c' (.step h hs)
    · rename_i o c' hs; exact .halt h hs

theorem started_A {c0 : Cfg} (h : Started c0) :
    c0.A.ihs = [] ∧ c0.A.reqs = [] ∧ c0.A.inputStack = [] ∧ c0.A.readers = [] ∧ c0.A.processing = false ∧
      c0.log = [] ∧ c0.tr = [] := by
  obtain ⟨i, hs, q, sin, rfl⟩ := h
  simp [initCfg]

/-! ### references are valid; requests and stack are in creation order -/

structure RefsInv (c : Cfg) : Prop where
  stack_valid : ∀ r ∈ c.A.inputStack, r < c.A.reqs.length
  readers_valid : ∀ r ∈ c.A.readers, r < c.A.reqs.length
  reqs_valid : ∀ R ∈ c.A.reqs, R.ih < c.A.ihs.length
  reqs_sorted : (c.A.reqs.map (·.ih)).Pairwise (· < ·)
  stack_sorted : c.A.inputStack.Pairwise (· < ·)

theorem refsInv_trans {c c' : Cfg} (hi : RefsInv c) (ht : InpTrans c c') : RefsInv c' := by
  obtain ⟨h1, h2, h3, h4, h5⟩ := hi
  cases ht with
  | frame hf =>
    obtain ⟨e1, e2, e3, e4, e5, e6, e7⟩ := hf
    refine ⟨by rwa [e3, e2], ?_, by rwa [e2, e1], by rwa [e2], by rwa [e3]⟩
    rw [e2]
    rcases e7 with ⟨e7, _⟩ | ⟨_, e7, _⟩
    · rwa [e7]
    · rw [e7]; exact fun r hr => h2 r (List.mem_of_mem_tail hr)
  | screenReq scr args sk text hr _ | blockingReq scr sk text hr _ =>
    obtain ⟨e1, e2, e3, e4, e5, e6⟩ := hr
    have hlen : c'.A.reqs.length = c.A.reqs.length + 1 := by rw [e2]; simp
    have hvalid : ∀ R ∈ c'.A.reqs, R.ih < c'.A.ihs.length := by
      rw [e1, e2]
      intro R hR
      simp only [List.mem_append, List.mem_singleton] at hR
      rcases hR with hR | rfl
      · have := h3 R hR; simp; omega
      · simp
    have hsorted : (c'.A.reqs.map (·.ih)).Pairwise (· < ·) := by
      rw [e2, List.map_append, List.pairwise_append]
      refine ⟨h4, by simp, ?_⟩
      intro a ha b hb
      simp only [List.map_cons, List.map_nil, List.mem_singleton] at hb
      obtain ⟨R, hR, rfl⟩ := List.mem_map.mp ha
      rw [hb]; exact h3 R hR
    rcases e6 with ⟨_, _, e7, _, e9, _⟩ | ⟨_, e7, _, _, e9⟩
    · refine ⟨?_, ?_, hvalid, hsorted, by rwa [e7]⟩
      · rw [e7, hlen]; exact fun r hr => Nat.lt_succ_of_lt (h1 r hr)
      · rw [e9, hlen]; exact fun r hr => Nat.lt_succ_of_lt (h2 r hr)
    · refine ⟨?_, ?_, hvalid, hsorted, ?_⟩
      · rw [e7, hlen]
        intro r hr
        simp only [List.mem_append, List.mem_singleton] at hr
        rcases hr with hr | rfl
        · exact Nat.lt_succ_of_lt (h1 r hr)
        · omega
      · rw [hlen]
        rcases e9 with ⟨_, e9⟩ | ⟨_, e9⟩ <;> rw [e9]
        · exact fun r hr => Nat.lt_succ_of_lt (h2 r hr)
        · intro r hr
          simp only [List.mem_append, List.mem_singleton] at hr
          rcases hr with hr | rfl
          · exact Nat.lt_succ_of_lt (h2 r hr)
          · omega
      · rw [e7, List.pairwise_append]
        refine ⟨h5, by simp, ?_⟩
        intro a ha b hb
        simp only [List.mem_singleton] at hb
        rw [hb]; exact h1 a ha
  | handoff s rest _ _ eA _ _ =>
    refine ⟨?_, ?_, ?_, ?_, ?_⟩ <;> simp only [eA]
    · simp
    · exact h2
    · exact h3
    · exact h4
    · simp
  | ready n s rest f _ _ _ eA _ _ =>
    refine ⟨?_, ?_, ?_, ?_, ?_⟩ <;> simp only [eA, listSet_length] <;> assumption

theorem refsInv_reach {P : Prog} {c0 c : Cfg} (h0 : Started c0) (h : Reach P c0 c) : RefsInv c := by
  refine reach_inpTrans_induction ?_ (fun c c' _ hi ht => refsInv_trans hi ht) h
  obtain ⟨e1, e2, e3, e4, _⟩ := started_A h0
  refine ⟨?_, ?_, ?_, ?_, ?_⟩ <;> simp [e1, e2, e3, e4]

/-! ### the registered handlers -/

theorem handlers_trans {c0 c c' : Cfg}
    (hi : c.L.handlers = c0.L.handlers ++ (List.range c.A.ihs.length).map ihReg) (ht : InpTrans c c') :
    c'.L.handlers = c0.L.handlers ++ (List.range c'.A.ihs.length).map ihReg := by
  cases ht with
  | frame hf => rw [hf.handlers, hf.ihs, hi]
  | screenReq scr args sk text hr _ | blockingReq scr sk text hr _ =>
    rw [hr.handlers, hr.ihs, hi]
    simp [List.range_succ]
  | handoff s rest _ _ eA eH _ => rw [eH, eA, hi]
  | ready n s rest f _ _ _ eA eH _ => rw [eH, eA, hi]; simp

theorem handlers_reach {P : Prog} {c0 c : Cfg} (h0 : Started c0) (h : Reach P c0 c) :
    c.L.handlers = c0.L.handlers ++ (List.range c.A.ihs.length).map ihReg := by
  refine reach_inpTrans_induction ?_ (fun c c' _ hi ht => handlers_trans hi ht) h
  simp [(started_A h0).1]

/-! ### busy exactly while requests are outstanding -/

theorem processing_trans {c c' : Cfg} (hi : c.A.processing = true ↔ c.A.inputStack ≠ []) (ht : InpTrans c c') :
    c'.A.processing = true ↔ c'.A.inputStack ≠ [] := by
  cases ht with
  | frame hf => rw [hf.processing, hf.inputStack]; exact hi
  | screenReq scr args sk text hr _ | blockingReq scr sk text hr _ =>
    rcases hr.outcome with ⟨_, _, e1, e2, _⟩ | ⟨_, e1, e2, _⟩
    · rw [e1, e2]; exact hi
    · rw [e1, e2]; simp
  | handoff s rest _ _ eA _ _ => simp [eA]
  | ready n s rest f _ _ _ eA _ _ => simpa [eA] using hi

theorem processing_reach {P : Prog} {c0 c : Cfg} (h0 : Started c0) (h : Reach P c0 c) :
    c.A.processing = true ↔ c.A.inputStack ≠ [] := by
  refine reach_inpTrans_induction ?_ (fun c c' _ hi ht => processing_trans hi ht) h
  obtain ⟨_, _, e3, _, e5, _⟩ := started_A h0
  simp [e3, e5]

/-! ### callbacks, sources and requesters -/

theorem singleton_getElem? {α} {a h : α} {k : Nat} (hk : [a][k]? = some h) : h = a := by
  rw [List.getElem?_singleton] at hk
  split at hk <;> simp_all

structure CbInv (c : Cfg) : Prop where
  /-- a handler whose one-shot callback is screen `scr`'s `process_input` was created by that screen -/
  cb_source : ∀ (n : Nat) (h : IHandler), c.A.ihs[n]? = some h → ∀ scr, h.cb = some scr → h.source = .scr scr
  /-- a request's requester is the source of its handler -/
  req_source : ∀ R ∈ c.A.reqs, ∃ h, c.A.ihs[R.ih]? = some h ∧ R.requester = h.source
  /-- no value without a received result -/
  unreceived : ∀ (n : Nat) (h : IHandler), c.A.ihs[n]? = some h → h.received = false → h.value = none

theorem cbInv_trans {c c' : Cfg} (hi : CbInv c) (ht : InpTrans c c') : CbInv c' := by
  obtain ⟨h1, h2, h3⟩ := hi
  cases ht with
  | frame hf => exact ⟨by rwa [hf.ihs], by rwa [hf.ihs, hf.reqs], by rwa [hf.ihs]⟩
  | screenReq scr args sk text hr _ | blockingReq scr sk text hr _ =>
    obtain ⟨e1, e2, _⟩ := hr
    refine ⟨?_, ?_, ?_⟩
    · intro n h hn scr' hcb
      rw [e1, List.getElem?_append] at hn
      split at hn
      · exact h1 n h hn scr' hcb
      · have := singleton_getElem? hn
        subst this
        simp_all [freshIH]
    · intro R hR
      rw [e2] at hR
      simp only [List.mem_append, List.mem_singleton] at hR
      rcases hR with hR | rfl
      · obtain ⟨h, hh, hs⟩ := h2 R hR
        refine ⟨h, ?_, hs⟩
        rw [e1, List.getElem?_append_left (by
          have := (List.getElem?_eq_some_iff.mp hh).1; exact this)]
        exact hh
      · exact ⟨_, by rw [e1]; simp, rfl⟩
    · intro n h hn hrcv
      rw [e1, List.getElem?_append] at hn
      split at hn
      · exact h3 n h hn hrcv
      · have := singleton_getElem? hn
        subst this
        rfl
  | handoff s rest _ _ eA _ _ =>
    exact ⟨by simpa [eA] using h1, by simpa [eA] using h2, by simpa [eA] using h3⟩
  | ready n s rest f _ _ hf eA _ _ =>
    have hsrc : ∀ h, (f h).source = h.source := by
      rcases hf with ⟨_, rfl⟩ | ⟨_, rfl⟩ <;> intro h <;> rfl
    have hcb : ∀ h scr, (f h).cb = some scr → h.cb = some scr := by
      rcases hf with ⟨_, rfl⟩ | ⟨_, rfl⟩ <;> intro h scr hh
      · exact hh
      · simp [IHandler.answered] at hh
    have hrc : ∀ h, (f h).received = true := by
      rcases hf with ⟨_, rfl⟩ | ⟨_, rfl⟩ <;> intro h <;> rfl
    refine ⟨?_, ?_, ?_⟩
    · intro m h hm scr hc
      simp only [eA, listSet_getElem?] at hm
      split at hm
      · obtain ⟨h0, hh0, rfl⟩ := Option.map_eq_some_iff.mp hm
        rw [hsrc]; exact h1 m h0 hh0 scr (hcb _ _ hc)
      · exact h1 m h hm scr hc
    · intro R hR
      simp only [eA] at hR ⊢
      obtain ⟨h, hh, hs⟩ := h2 R hR
      simp only [listSet_getElem?]
      split
      · exact ⟨f h, by simp [hh], by rw [hsrc]; exact hs⟩
      · exact ⟨h, hh, hs⟩
    · intro m h hm hr
      simp only [eA, listSet_getElem?] at hm
      split at hm
      · obtain ⟨h0, hh0, rfl⟩ := Option.map_eq_some_iff.mp hm
        rw [hrc] at hr; cases hr
      · exact h3 m h hm hr

theorem cbInv_reach {P : Prog} {c0 c : Cfg} (h0 : Started c0) (h : Reach P c0 c) : CbInv c := by
  refine reach_inpTrans_induction ?_ (fun c c' _ hi ht => cbInv_trans hi ht) h
  obtain ⟨e1, e2, _⟩ := started_A h0
  refine ⟨?_, ?_, ?_⟩ <;> simp [e1, e2]

/-! ### lines are read from the console in order -/

/-- the lines read so far are the first lines of the console input (the empty line once it is exhausted),
and the console holds the rest -/
def ReadOrder (c0 c : Cfg) : Prop :=
  readLines c.log = (List.range (readLines c.log).length).map (c0.A.stdin.getD · []) ∧
  c.A.stdin = c0.A.stdin.drop (readLines c.log).length

theorem readOrder_trans {c0 c c' : Cfg} (hi : ReadOrder c0 c) (ht : InpTrans c c') : ReadOrder c0 c' := by
  have same : c'.A.stdin = c.A.stdin → readLines c'.log = readLines c.log → ReadOrder c0 c' := by
    intro e1 e2; unfold ReadOrder; rw [e1, e2]; exact hi
  cases ht with
  | frame hf =>
    rcases hf.reader with ⟨_, e1, e2⟩ | ⟨_, _, e1, e2⟩
    · exact same e1 e2
    · obtain ⟨i1, i2⟩ := hi
      unfold ReadOrder
      rw [e1, e2, i2]
      refine ⟨?_, by simp [Nat.add_comm]⟩
      simp only [List.length_append, List.length_cons, List.length_nil, List.range_succ, List.map_append,
        List.map_cons, List.map_nil, Nat.zero_add]
      rw [← i1]
      congr 2
      rw [List.getD_eq_getElem?_getD, List.headD_eq_head?_getD, List.head?_drop]
  | screenReq scr args sk text hr _ | blockingReq scr sk text hr _ => exact same hr.stdin (by rw [hr.log])
  | handoff s rest _ _ eA _ eL => exact same (by rw [eA]) (by rw [eL])
  | ready n s rest f _ _ _ eA _ eL => exact same (by rw [eA]) (by rw [eL])

theorem readOrder_reach {P : Prog} {c0 c : Cfg} (h0 : Started c0) (h : Reach P c0 c) : ReadOrder c0 c := by
  refine reach_inpTrans_induction ?_ (fun c c' _ hi ht => readOrder_trans hi ht) h
  obtain ⟨_, _, _, _, _, e6, _⟩ := started_A h0
  simp [ReadOrder, e6, readLines]

end Simpleline.Input
