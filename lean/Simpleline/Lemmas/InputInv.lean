/-
  Invariants of the input pipeline that hold for every program (C06, C18), proved by induction over
  `Reach` through the transition relation `InpTrans`.
-/
import Simpleline.Lemmas.InputStep

namespace Simpleline

/-! ### induction principles -/

theorem reach_induction {P : Prog} {c0 : Cfg} {I : Cfg → Prop} (h0 : I c0)
    (hs : ∀ c, Reach P c0 c → I c → I (final (step P c)))
    (hd : ∀ c c', Reach P c0 c → I c → c.deliver = some c' → I c') :
    ∀ {c}, Reach P c0 c → I c := by
  intro c h
  induction h with
  | init => exact h0
  | step hr hst ih => have := hs _ hr ih; rwa [hst] at this
  | deliver hr hdl ih => exact hd _ _ hr ih hdl
  | halt hr hst ih => have := hs _ hr ih; rwa [hst] at this

theorem reach_inpTrans_induction {P : Prog} {c0 : Cfg} {I : Cfg → Prop} (h0 : I c0)
    (ht : ∀ c c', Reach P c0 c → I c → InpTrans c c' → I c') :
    ∀ {c}, Reach P c0 c → I c :=
  reach_induction h0 (fun c hr hi => ht c _ hr hi (step_inpTrans P c))
    (fun c _ hr hi hd => ht c _ hr hi (.frame (InpFrame_deliver (Same_refl c) hd)))

theorem started_A {c0 : Cfg} (h : Started c0) :
    c0.A.ihs = [] ∧ c0.A.reqs = [] ∧ c0.A.inputStack = [] ∧ c0.A.readers = [] ∧ c0.A.processing = false ∧
      c0.log = [] ∧ c0.tr = [] := by
  obtain ⟨i, hs, q, sin, rfl⟩ := h
  simp [initCfg]

/-! ### references are valid; requests and stack are in creation order -/

structure RefsInv (c : Cfg) : Prop where
  stack_valid : ∀ r ∈ c.A.inputStack, r < c.A.reqs.length
  readers_valid : ∀ r ∈ c.A.readers, r < c.A.reqs.length
  reqs_valid : ∀ R ∈ c.A.reqs, R.ih < c.A.ihs.length
  reqs_sorted : (c.A.reqs.map (·.ih)).Pairwise (· < ·)
  stack_sorted : c.A.inputStack.Pairwise (· < ·)

theorem refsInv_trans {c c' : Cfg} (hi : RefsInv c) (ht : InpTrans c c') : RefsInv c' := by
  obtain ⟨h1, h2, h3, h4, h5⟩ := hi
  cases ht with
  | frame hf =>
    obtain ⟨e1, e2, e3, e4, e5, e6, e7⟩ := hf
    refine ⟨by rwa [e3, e2], ?_, by rwa [e2, e1], by rwa [e2], by rwa [e3]⟩
    rw [e2]
    rcases e7 with ⟨e7, _⟩ | ⟨_, e7, _⟩
    · rwa [e7]
    · rw [e7]; exact fun r hr => h2 r (List.mem_of_mem_tail hr)
  | screenReq scr args sk text hr _ | blockingReq scr sk text hr _ =>
    obtain ⟨e1, e2, e3, e4, e5, e6⟩ := hr
    have hlen : c'.A.reqs.length = c.A.reqs.length + 1 := by rw [e2]; simp
    have hvalid : ∀ R ∈ c'.A.reqs, R.ih < c'.A.ihs.length := by
      rw [e1, e2]
      intro R hR
      simp only [List.mem_append, List.mem_singleton] at hR
      rcases hR with hR | rfl
      · have := h3 R hR; simp; omega
      · simp
    have hsorted : (c'.A.reqs.map (·.ih)).Pairwise (· < ·) := by
      rw [e2, List.map_append, List.pairwise_append]
      refine ⟨h4, by simp, ?_⟩
      intro a ha b hb
      simp only [List.map_cons, List.map_nil, List.mem_singleton] at hb
      obtain ⟨R, hR, rfl⟩ := List.mem_map.mp ha
      rw [hb]; exact h3 R hR
    rcases e6 with ⟨_, _, e7, _, e9, _⟩ | ⟨_, e7, _, _, e9⟩
    · refine ⟨?_, ?_, hvalid, hsorted, by rwa [e7]⟩
      · rw [e7, hlen]; exact fun r hr => Nat.lt_succ_of_lt (h1 r hr)
      · rw [e9, hlen]; exact fun r hr => Nat.lt_succ_of_lt (h2 r hr)
    · refine ⟨?_, ?_, hvalid, hsorted, ?_⟩
      · rw [e7, hlen]
        intro r hr
        simp only [List.mem_append, List.mem_singleton] at hr
        rcases hr with hr | rfl
        · exact Nat.lt_succ_of_lt (h1 r hr)
        · omega
      · rw [hlen]
        rcases e9 with ⟨_, e9⟩ | ⟨_, e9⟩ <;> rw [e9]
        · exact fun r hr => Nat.lt_succ_of_lt (h2 r hr)
        · intro r hr
          simp only [List.mem_append, List.mem_singleton] at hr
          rcases hr with hr | rfl
          · exact Nat.lt_succ_of_lt (h2 r hr)
          · omega
      · rw [e7, List.pairwise_append]
        refine ⟨h5, by simp, ?_⟩
        intro a ha b hb
        simp only [List.mem_singleton] at hb
        rw [hb]; exact h1 a ha
  | handoff s rest _ _ eA _ _ =>
    refine ⟨?_, ?_, ?_, ?_, ?_⟩ <;> simp only [eA]
    · simp
    · exact h2
    · exact h3
    · exact h4
    · simp
  | ready n s rest f _ _ _ eA _ _ =>
    refine ⟨?_, ?_, ?_, ?_, ?_⟩ <;> simp only [eA, listSet_length] <;> assumption

theorem refsInv_reach {P : Prog} {c0 c : Cfg} (h0 : Started c0) (h : Reach P c0 c) : RefsInv c := by
  refine reach_inpTrans_induction ?_ (fun c c' _ hi ht => refsInv_trans hi ht) h
  obtain ⟨e1, e2, e3, e4, _⟩ := started_A h0
  refine ⟨?_, ?_, ?_, ?_, ?_⟩ <;> simp [e1, e2, e3, e4]

/-! ### the registered handlers -/

theorem handlers_trans {c0 c c' : Cfg}
    (hi : c.L.handlers = c0.L.handlers ++ (List.range c.A.ihs.length).map ihReg) (ht : InpTrans c c') :
    c'.L.handlers = c0.L.handlers ++ (List.range c'.A.ihs.length).map ihReg := by
  cases ht with
  | frame hf => rw [hf.handlers, hf.ihs, hi]
  | screenReq scr args sk text hr _ | blockingReq scr sk text hr _ =>
    rw [hr.handlers, hr.ihs, hi]
    simp [List.range_succ]
  | handoff s rest _ _ eA eH _ => rw [eH, eA, hi]
  | ready n s rest f _ _ _ eA eH _ => rw [eH, eA, hi]; simp

theorem handlers_reach {P : Prog} {c0 c : Cfg} (h0 : Started c0) (h : Reach P c0 c) :
    c.L.handlers = c0.L.handlers ++ (List.range c.A.ihs.length).map ihReg := by
  refine reach_inpTrans_induction ?_ (fun c c' _ hi ht => handlers_trans hi ht) h
  simp [(started_A h0).1]

/-! ### busy exactly while requests are outstanding -/

theorem processing_trans {c c' : Cfg} (hi : c.A.processing = true ↔ c.A.inputStack ≠ []) (ht : InpTrans c c') :
    c'.A.processing = true ↔ c'.A.inputStack ≠ [] := by
  cases ht with
  | frame hf => rw [hf.processing, hf.inputStack]; exact hi
  | screenReq scr args sk text hr _ | blockingReq scr sk text hr _ =>
    rcases hr.outcome with ⟨_, _, e1, e2, _⟩ | ⟨_, e1, e2, _⟩
    · rw [e1, e2]; exact hi
    · rw [e1, e2]; simp
  | handoff s rest _ _ eA _ _ => simp [eA]
  | ready n s rest f _ _ _ eA _ _ => simpa [eA] using hi

theorem processing_reach {P : Prog} {c0 c : Cfg} (h0 : Started c0) (h : Reach P c0 c) :
    c.A.processing = true ↔ c.A.inputStack ≠ [] := by
  refine reach_inpTrans_induction ?_ (fun c c' _ hi ht => processing_trans hi ht) h
  obtain ⟨_, _, e3, _, e5, _⟩ := started_A h0
  simp [e3, e5]

end Simpleline
