/-
  Every typed line that travels through the pipeline was read from the console (C06): the invariant
  `LinesInv` — for pending signals, signals being dispatched, the enqueue history and the `input`
  callbacks logged — and its preservation by the primitive operations.
-/
import Simpleline.Lemmas.InputCode

namespace Simpleline.Input

/-- a signal that carries a typed line carries one that was read from the console -/
def sigOK (log : List Ev) (s : Sig) : Prop := s.carriesLine = true → Ev.read s.line ∈ log

def _root_.Simpleline.Instr.lineOK (log : List Ev) : Instr → Prop
  | .processSignal s | .dispatch s _ | .callH _ _ s | .newLoop s | .inputReceived s | .inputReady _ s => sigOK log s
  | .processInput _ key => Ev.read key ∈ log
  | .callScr _ .input _ (some key) => Ev.read key ∈ log
  | _ => True

def _root_.Simpleline.Tr.lineOK (log : List Ev) : Tr → Prop
  | .enq _ s | .dropped s => sigOK log s
  | _ => True

def _root_.Simpleline.Ev.lineOK (log : List Ev) : Ev → Prop
  | .cb _ .input _ (some key) => Ev.read key ∈ log
  | _ => True

/-- queues and enqueue history -/
def QTL (qs : List EQueue) (tr : List Tr) (log : List Ev) : Prop :=
  (∀ q ∈ qs, ∀ e ∈ q.entries, sigOK log e.2.2) ∧ ∀ t ∈ tr, t.lineOK log

def codeOK (log : List Ev) (code : List Instr) : Prop := ∀ ins ∈ code, ins.lineOK log

def logOK (log : List Ev) : Prop := ∀ e ∈ log, e.lineOK log

structure LinesInv (c : Cfg) : Prop where
  qt : QTL c.L.queues c.tr c.log
  code : codeOK c.log c.code
  log : logOK c.log

/-! ### monotonicity in the log -/

theorem sigOK_mono {log log' : List Ev} (h : ∀ e ∈ log, e ∈ log') {s : Sig} (hs : sigOK log s) : sigOK log' s :=
  fun hc => h _ (hs hc)

theorem Instr.lineOK_mono {log log' : List Ev} (h : ∀ e ∈ log, e ∈ log') {i : Instr} (hi : i.lineOK log) :
    i.lineOK log' := by
  unfold Instr.lineOK at *
  split <;> first | exact sigOK_mono h hi | exact h _ hi | trivial

theorem Tr.lineOK_mono {log log' : List Ev} (h : ∀ e ∈ log, e ∈ log') {t : Tr} (ht : t.lineOK log) :
    t.lineOK log' := by
  unfold Tr.lineOK at *
  split <;> first | exact sigOK_mono h ht | trivial

theorem Ev.lineOK_mono {log log' : List Ev} (h : ∀ e ∈ log, e ∈ log') {e : Ev} (he : e.lineOK log) :
    e.lineOK log' := by
  unfold Ev.lineOK at *
  split <;> first | exact h _ he | trivial

theorem QTL_mono {qs tr} {log log' : List Ev} (h : ∀ e ∈ log, e ∈ log') (hq : QTL qs tr log) : QTL qs tr log' :=
  ⟨fun q hq' e he => sigOK_mono h (hq.1 q hq' e he), fun t ht => Tr.lineOK_mono h (hq.2 t ht)⟩

theorem codeOK_mono {code} {log log' : List Ev} (h : ∀ e ∈ log, e ∈ log') (hc : codeOK log code) : codeOK log' code :=
  fun i hi => Instr.lineOK_mono h (hc i hi)

theorem logOK_cons {log : List Ev} {e : Ev} (he : e.lineOK log) (hl : logOK log) : logOK (e :: log) := by
  intro e' he'
  rcases List.mem_cons.mp he' with rfl | he'
  · exact Ev.lineOK_mono (fun x hx => List.mem_cons_of_mem _ hx) he
  · exact Ev.lineOK_mono (fun x hx => List.mem_cons_of_mem _ hx) (hl e' he')

/-! ### code -/

@[simp] theorem codeOK_nil (log : List Ev) : codeOK log [] := by simp [codeOK]
@[simp] theorem codeOK_cons (log : List Ev) (i : Instr) (is : List Instr) :
    codeOK log (i :: is) ↔ i.lineOK log ∧ codeOK log is := by simp [codeOK]
@[simp] theorem codeOK_append (log : List Ev) (is js : List Instr) :
    codeOK log (is ++ js) ↔ codeOK log is ∧ codeOK log js := by
  simp [codeOK, or_imp, forall_and]

theorem codeOK_sublist {log : List Ev} {is js : List Instr} (h : is.Sublist js) (hj : codeOK log js) : codeOK log is :=
  fun ins hi => hj ins (h.subset hi)

theorem codeOK_acts (log : List Ev) (acts : List Act) : codeOK log (acts.map .act) := by
  intro ins hi
  obtain ⟨a, _, rfl⟩ := List.mem_map.mp hi
  trivial

theorem codeOK_go (log : List Ev) (scr : Nat) (evs : List OutEv) (cur : List Str) (acc : List Instr)
    (h : codeOK log acc) : codeOK log (step.go scr evs cur acc) := by
  induction evs generalizing cur acc with
  | nil => unfold step.go; split <;> simp [h, Instr.lineOK]
  | cons e es ih =>
    unfold step.go
    cases e with
    | line l => exact ih _ _ h
    | ask => apply ih; split <;> simp [h, Instr.lineOK]

/-! ### queues and trace -/

theorem mem_insertEntry {e x : Int × Nat × Sig} {l : List (Int × Nat × Sig)} (h : x ∈ insertEntry e l) :
    x = e ∨ x ∈ l := by
  induction l with
  | nil => simp [insertEntry] at h; exact Or.inl h
  | cons y ys ih =>
    unfold insertEntry at h
    split at h
    · rcases List.mem_cons.mp h with h | h
      · exact Or.inl h
      · exact Or.inr h
    · rcases List.mem_cons.mp h with h | h
      · exact Or.inr (h ▸ List.mem_cons_self)
      · rcases ih h with h | h
        · exact Or.inl h
        · exact Or.inr (List.mem_cons_of_mem _ h)

theorem QTL_listSet {qs : List EQueue} {tr log} (i : Nat) (f : EQueue → EQueue)
    (hf : ∀ q, (∀ e ∈ q.entries, sigOK log e.2.2) → ∀ e ∈ (f q).entries, sigOK log e.2.2)
    (h : QTL qs tr log) : QTL (listSet qs i f) tr log := by
  refine ⟨?_, h.2⟩
  intro q hq
  rcases mem_listSet hq with hq | ⟨q0, hq0, rfl⟩
  · exact h.1 q hq
  · exact hf q0 (h.1 q0 hq0)

theorem QTL_enqueue {c : Cfg} {log : List Ev} {s : Sig} (hs : sigOK log s) (h : QTL c.L.queues c.tr log) :
    QTL (c.enqueue s).L.queues (c.enqueue s).tr log := by
  rw [enqueue_tr, enqueue_queues]
  have htr : ∀ t ∈ enqEvent c s :: c.tr, t.lineOK log := by
    intro t ht
    rcases List.mem_cons.mp ht with rfl | ht
    · unfold enqEvent; split <;> exact hs
    · exact h.2 t ht
  split
  · exact ⟨h.1, htr⟩
  · refine ⟨(QTL_listSet _ _ ?_ h).1, htr⟩
    intro q hq e he
    rcases mem_insertEntry he with rfl | he
    · exact hs
    · exact hq e he

theorem sigOK_of_not_carries {log : List Ev} {s : Sig} (h : s.carriesLine = false) : sigOK log s :=
  fun hc => by rw [h] at hc; cases hc

theorem carriesLine_of_not_input {s : Sig} (h : s.cls.isInput = false) : s.carriesLine = false := by
  unfold Sig.carriesLine; cases hs : s.cls <;> simp_all [Cls.isInput]

theorem QTL_redraw {c : Cfg} {log : List Ev} (h : QTL c.L.queues c.tr log) :
    QTL c.redraw.L.queues c.redraw.tr log := by
  unfold Cfg.redraw
  exact QTL_enqueue (sigOK_of_not_carries rfl) h

theorem QTL_excEnq {c : Cfg} {log : List Ev} (src : Src) (h : QTL c.L.queues c.tr log) :
    QTL (excEnq c src).L.queues (excEnq c src).tr log := by
  unfold excEnq
  exact QTL_enqueue (sigOK_of_not_carries rfl) h

theorem QTL_raise {c : Cfg} {log : List Ev} (k : Kind) (h : QTL c.L.queues c.tr log) :
    QTL (final (c.raise k)).L.queues (final (c.raise k)).tr log := by
  obtain ⟨cT, hT, code', _, c1, h1, hf⟩ := raise_final c k
  rw [hf]
  have hT' : QTL cT.L.queues cT.tr log := by
    rcases hT with rfl | rfl
    · exact h
    · exact ⟨h.1, fun t ht => by
        rcases List.mem_cons.mp ht with rfl | ht
        · trivial
        · exact h.2 t ht⟩
  rcases h1 with rfl | ⟨src, rfl⟩
  · exact hT'
  · exact QTL_excEnq src hT'

theorem QTL_pop {c : Cfg} {log : List Ev} {e : Int × Nat × Sig} {es : List (Int × Nat × Sig)}
    (he : c.L.activeQ.entries = e :: es) (h : QTL c.L.queues c.tr log) :
    QTL (c.pop e es).L.queues (c.pop e es).tr log ∧ sigOK log e.2.2 := by
  have hi : c.L.active < c.L.queues.length := by
    refine Decidable.byContradiction fun hn => ?_
    have : c.L.activeQ = {} := by
      unfold LoopSt.activeQ
      rw [List.getD_eq_getElem?_getD, List.getElem?_eq_none (Nat.le_of_not_lt hn)]; rfl
    rw [this] at he; cases he
  have hq : c.L.activeQ ∈ c.L.queues := by
    unfold LoopSt.activeQ
    rw [List.getD_eq_getElem?_getD, List.getElem?_eq_getElem hi]
    exact List.getElem_mem _
  have hall : ∀ x ∈ e :: es, sigOK log x.2.2 := by rw [← he]; exact h.1 _ hq
  refine ⟨⟨?_, ?_⟩, hall e List.mem_cons_self⟩
  · intro q hq'
    rcases mem_listSet hq' with hq' | ⟨q0, hq0, rfl⟩
    · exact h.1 q hq'
    · intro x hx
      refine hall x (List.mem_cons_of_mem _ hx)
  · intro t ht
    rcases List.mem_cons.mp ht with rfl | ht
    · trivial
    · exact h.2 t ht

end Simpleline.Input
