/-
  Preservation of `LinesInv` by every transition (C06; needs `NoForge` and `UserHandlers`).
-/
import Simpleline.Lemmas.InputLines

namespace Simpleline.Input

theorem QTL_cons_tr (qs : List EQueue) (t : Tr) (tr : List Tr) (log : List Ev) :
    QTL qs (t :: tr) log ↔ t.lineOK log ∧ QTL qs tr log := by
  unfold QTL
  simp only [List.mem_cons, forall_eq_or_imp]
  exact ⟨fun ⟨a, b, c⟩ => ⟨b, a, c⟩, fun ⟨b, a, c⟩ => ⟨a, b, c⟩⟩

theorem QTL_append_empty (qs : List EQueue) (tr : List Tr) (log : List Ev) :
    QTL (qs ++ [({} : EQueue)]) tr log ↔ QTL qs tr log := by
  unfold QTL
  simp [or_imp, forall_and]

theorem QTL_addSource {qs : List EQueue} {tr log} (i : Nat) (src : Src) (h : QTL qs tr log) :
    QTL (listSet qs i (addSource · src)) tr log := by
  refine QTL_listSet i _ ?_ h
  intro q hq e he
  have : (addSource q src).entries = q.entries := by unfold addSource; split <;> rfl
  rw [this] at he; exact hq e he

theorem LinesInv_deliver {c c' : Cfg} (h : LinesInv c) (hd : c.deliver = some c') : LinesInv c' := by
  obtain ⟨r, rs, hr, rfl⟩ := deliver_eq hd
  have hsub : ∀ e ∈ c.log, e ∈ Ev.read (c.A.stdin.headD []) :: c.log := fun e he => List.mem_cons_of_mem _ he
  refine ⟨?_, ?_, ?_⟩
  · simp only [enqueue_log]
    refine QTL_enqueue (fun _ => List.mem_cons_self) (QTL_mono hsub h.qt)
  · simp only [enqueue_log, enqueue_code]
    exact codeOK_mono hsub h.code
  · simp only [enqueue_log]
    exact logOK_cons (by trivial) h.log

theorem LinesInv_emit {c : Cfg} (P : Prog) (e : Ev) (h : LinesInv c) (he : e.lineOK c.log) :
    LinesInv (c.emit P e) := by
  have hsub : ∀ x ∈ c.log, x ∈ e :: c.log := fun x hx => List.mem_cons_of_mem _ hx
  have h0 : LinesInv (emit0 c e) :=
    ⟨QTL_mono hsub h.qt, codeOK_mono hsub h.code, logOK_cons he h.log⟩
  rcases emit_cases P c e with h1 | h1
  · rw [h1]; exact h0
  · exact LinesInv_deliver h0 h1

theorem emit_log_sub (P : Prog) (c : Cfg) (e : Ev) : ∀ x ∈ c.log, x ∈ (c.emit P e).log := by
  intro x hx
  rcases emit_cases P c e with h1 | h1
  · rw [h1]; exact List.mem_cons_of_mem _ hx
  · rw [deliver_log h1]; exact List.mem_cons_of_mem _ (List.mem_cons_of_mem _ hx)

theorem LinesInv_push {c : Cfg} (is : List Instr) (h : LinesInv c) (hi : codeOK c.log is) : LinesInv (push c is) :=
  ⟨h.qt, by simp [hi, h.code], h.log⟩

/-- the same configuration up to parts the invariant does not look at, with new code -/
theorem LinesInv_congr {c c' : Cfg} (h : LinesInv c) (hq : c'.L.queues = c.L.queues) (ht : c'.tr = c.tr)
    (hl : c'.log = c.log) (hc : codeOK c.log c'.code) : LinesInv c' :=
  ⟨by rw [hq, ht, hl]; exact h.qt, by rw [hl]; exact hc, by rw [hl]; exact h.log⟩

theorem LinesInv_raise {c : Cfg} (k : Kind) (h : LinesInv c) : LinesInv (final (c.raise k)) :=
  ⟨by rw [raise_log]; exact QTL_raise k h.qt, by rw [raise_log]; exact codeOK_sublist (raise_code c k) h.code,
    by rw [raise_log]; exact h.log⟩

theorem LinesInv_take {c1 : Cfg} (f : Sig → List Instr) (h : LinesInv c1)
    (hf : ∀ s log, sigOK log s → codeOK log (f s)) :
    LinesInv (final (do let x ← c1.take; pure (push x.2 (f x.1)))) := by
  obtain ⟨c2, h2, h3⟩ := take_cases c1
  have hc2 : LinesInv c2 := by
    rcases h2 with rfl | h2
    · exact h
    · exact LinesInv_deliver h h2
  rcases h3 with ⟨_, h3⟩ | ⟨e, es, he, h3⟩
  · rw [h3]; exact hc2
  · rw [h3]
    show LinesInv (push (c2.pop e es) (f e.2.2))
    have := QTL_pop he hc2.qt
    exact LinesInv_push _ ⟨this.1, hc2.code, hc2.log⟩ (hf _ _ this.2)

theorem LinesInv_enqueue {c : Cfg} {s : Sig} (h : LinesInv c) (hs : sigOK c.log s) : LinesInv (c.enqueue s) :=
  ⟨by rw [enqueue_log]; exact QTL_enqueue hs h.qt, by rw [enqueue_log, enqueue_code]; exact h.code,
    by rw [enqueue_log]; exact h.log⟩

theorem LinesInv_redraw {c : Cfg} (h : LinesInv c) : LinesInv c.redraw := by
  unfold Cfg.redraw
  exact LinesInv_enqueue (c := (c.newSig .render 0 .sched).2) ⟨h.qt, h.code, h.log⟩ (sigOK_of_not_carries rfl)

theorem LinesInv_trace {c : Cfg} (t : Tr) (h : LinesInv c) (ht : t.lineOK c.log) : LinesInv (c.trace t) :=
  ⟨(QTL_cons_tr _ _ _ _).mpr ⟨ht, h.qt⟩, h.code, h.log⟩

theorem sigOK_lit (log : List Ev) (id : Nat) (cls : Cls) (prio : Int) (src : Src) (h : cls.isInput = false) :
    sigOK log { id := id, cls := cls, prio := prio, src := src } :=
  sigOK_of_not_carries (carriesLine_of_not_input h)

theorem sigOK_newSig (log : List Ev) (c : Cfg) (cls : Cls) (prio : Int) (src : Src) (h : cls.isInput = false) :
    sigOK log (c.newSig cls prio src).1 :=
  sigOK_of_not_carries (carriesLine_of_not_input h)

/-- proves `QTL X.L.queues X.tr log` for `X` built from a configuration satisfying it by the primitive
operations -/
macro "inp_qtl" : tactic => `(tactic|
  repeat' (first
    | assumption
    | (with_reducible refine QTL_enqueue ?_ ?_)
    | (with_reducible refine QTL_redraw ?_)
    | (with_reducible refine QTL_excEnq _ ?_)
    | (with_reducible refine QTL_addSource _ _ ?_)
    | (with_reducible refine QTL_raise _ ?_)
    | (with_reducible refine sigOK_newSig _ _ _ _ _ rfl)
    | (with_reducible refine sigOK_lit _ _ _ _ _ ?_)
    | (simp only [push_L, push_tr, push_log, trace_L, trace_tr, trace_log, write_L, write_tr, write_log,
        newSig_L, newSig_tr, newSig_log, enqueue_log, redraw_log, raise_log, QTL_cons_tr, QTL_append_empty,
        Tr.lineOK, true_and, and_true, final_ok])))

macro "inp_ln_base" : tactic => `(tactic|
  (refine ⟨?_, ?_, ?_⟩
   · inp_qtl
   · simp [*, Instr.lineOK, codeOK_acts, Cfg.write, Cfg.newSig, sigOK_lit, Cls.isInput]
   · simp [*, Cfg.write, Cfg.newSig]))

macro "inp_ln_leaf" : tactic => `(tactic| first
    | ((with_reducible apply LinesInv_raise); inp_ln_base; done)
    | (inp_ln_base; done))

theorem LinesInv_doAct (c : Cfg) (a : Act) (ha : a.forges = false) (h : LinesInv c) : LinesInv (final (doAct c a)) := by
  obtain ⟨hq, hcode, hlog⟩ := h
  unfold doAct
  split <;> (try dsimp only) <;> (try simp only [final_ok]) <;>
    first
    | inp_ln_leaf
    | (split <;> (try simp only [final_ok]) <;> inp_ln_leaf)
    | skip
  · simp only [Act.forges] at ha
    exact LinesInv_push _ ⟨hq, hcode, hlog⟩ (by simp [Instr.lineOK, sigOK_lit _ _ _ _ _ ha])

theorem LinesInv_startRequest (c : Cfg) (ih : Nat) (requester : Src) (text : Str) (h : LinesInv c) :
    LinesInv (final (startRequest c ih requester text)) := by
  rw [startRequest_eq]
  split
  · exact LinesInv_raise _ ⟨h.qt, h.code, h.log⟩
  · split <;> exact ⟨h.qt, h.code, h.log⟩

theorem enqueueAll_QTL {log : List Ev} (sigs : List Sig) (c : Cfg) (hs : ∀ s ∈ sigs, sigOK log s)
    (h : QTL c.L.queues c.tr log) : QTL (enqueueAll c sigs).L.queues (enqueueAll c sigs).tr log := by
  induction sigs generalizing c with
  | nil => exact h
  | cons s ss ih =>
    rw [enqueueAll_cons]
    exact ih _ (fun x hx => hs x (List.mem_cons_of_mem _ hx)) (QTL_enqueue (hs s List.mem_cons_self) h)

theorem LinesInv_inputReceived (P : Prog) (c : Cfg) (s : Sig) (rest : List Instr)
    (hc : c.code = .inputReceived s :: rest) (hcl : s.cls = .inputReceived) (h : LinesInv c) :
    LinesInv (final (step P c)) := by
  have hcode := h.code
  rw [hc, codeOK_cons] at hcode
  cases hst : c.A.inputStack.getLast? with
  | none =>
    rw [step_inputReceived_empty P c s rest hc (List.getLast?_eq_none_iff.mp hst)]
    exact LinesInv_raise _ ⟨h.qt, hcode.2, h.log⟩
  | some r =>
    obtain ⟨rs, hst'⟩ := List.getLast?_eq_some_iff.mp hst
    obtain ⟨c', h1, h2, h3, h4, h5, h6, h7⟩ := step_inputReceived P c s rest rs r hc hst'
    rw [h1, final_ok]
    have hL : c'.L = (enqueueAll c (handoffSigs c.A.reqs rs r s.line (c.nextSid + 1))).L := congrArg (·.1) h7
    have hT : c'.tr = (enqueueAll c (handoffSigs c.A.reqs rs r s.line (c.nextSid + 1))).tr := congrArg (·.2) h7
    have hread : Ev.read s.line ∈ c.log := hcode.1 (by simp [Sig.carriesLine, hcl])
    refine ⟨?_, by rw [h4, h3]; exact hcode.2, by rw [h4]; exact h.log⟩
    rw [hL, hT, h4]
    refine enqueueAll_QTL _ _ ?_ h.qt
    intro x hx
    simp only [handoffSigs, List.mem_cons] at hx
    rcases hx with rfl | hx
    · exact fun _ => hread
    · have hfail : ∀ (ts : List Nat) (sid : Nat), ∀ x ∈ failSigs c.A.reqs ts sid, x.carriesLine = false := by
        intro ts
        induction ts with
        | nil => intro sid x hx; cases hx
        | cons t ts ih =>
          intro sid x hx
          simp only [failSigs, List.mem_cons] at hx
          rcases hx with rfl | hx
          · rfl
          · exact ih _ x hx
      exact sigOK_of_not_carries (hfail _ _ x hx)

theorem lineOK_cb_of_callScr {log : List Ev} {scr : Nat} {cb : Cb} {arg : Option Nat} {key : Option Str}
    (h : (Instr.callScr scr cb arg key).lineOK log) : (Ev.cb scr cb arg key).lineOK log := by
  cases cb <;> cases key <;> first | trivial | exact h

end Simpleline.Input
