/-
  `LinesInv` is preserved by every machine step, hence holds in every reachable configuration (C06).
-/
import Simpleline.Lemmas.InputLinesInv

namespace Simpleline.Input

theorem LinesInv_emit_push {c : Cfg} (P : Prog) (e : Ev) (is : List Instr) (h : LinesInv c) (he : e.lineOK c.log)
    (hi : codeOK c.log is) : LinesInv (push (c.emit P e) is) :=
  LinesInv_push _ (LinesInv_emit P e h he) (codeOK_mono (emit_log_sub P c e) hi)

theorem LinesInv_step (P : Prog) (c : Cfg) (hc : cleanCode c.code) (h : LinesInv c) :
    LinesInv (final (step P c)) := by
  by_cases hir : ∃ s rest, c.code = .inputReceived s :: rest
  · obtain ⟨s, rest, hcode⟩ := hir
    have := hc (.inputReceived s) (by rw [hcode]; exact List.mem_cons_self)
    exact LinesInv_inputReceived P c s rest hcode (by simpa [Instr.clean] using this) h
  have hir' : ∀ s rest, ¬ c.code = .inputReceived s :: rest := fun s rest h => hir ⟨s, rest, h⟩
  obtain ⟨hq, hcode, hlog⟩ := h
  unfold step
  split
  · exact ⟨hq, hcode, hlog⟩
  · rename_i ins rest hcd
    rw [hcd] at hc hcode
    simp only [cleanCode_cons] at hc
    simp only [codeOK_cons] at hcode
    obtain ⟨hcl, _⟩ := hc
    obtain ⟨hins, hrest⟩ := hcode
    have hb : LinesInv { c with code := rest } := ⟨hq, hrest, hlog⟩
    split
    all_goals try (exact absurd hcd (hir' _ _))
    all_goals clear hir hir'
    all_goals try simp only [Instr.clean, Bool.not_eq_eq_eq_not, Bool.not_true, decide_eq_true_eq] at hcl
    all_goals try simp only [Instr.lineOK] at hins
    all_goals dsimp only
    all_goals try simp only [final_ok]
    all_goals try (inp_ln_leaf; done)
    all_goals try (first
      | ((with_reducible apply LinesInv_doAct) <;> first | assumption | exact hb)
      | ((with_reducible apply LinesInv_take (f := fun s => [Instr.processSignal s])) <;>
          first | exact hb | (intro s log hs; simpa [Instr.lineOK] using hs)))
    all_goals try (split <;> (try simp only [final_ok]) <;> try (inp_ln_leaf; done))
    all_goals try (first
      | ((with_reducible apply LinesInv_take (f := fun s => [Instr.processSignal s, _])) <;>
          first | exact hb | (intro s log hs; simpa [Instr.lineOK] using hs)))
    all_goals try (split <;> (try simp only [final_ok]) <;> try (inp_ln_leaf; done))
    all_goals try (split <;> (try simp only [final_ok]) <;> try (inp_ln_leaf; done))
    all_goals try (split <;> (try simp only [final_ok]) <;> try (inp_ln_leaf; done))
    all_goals try (first
      | ((with_reducible apply LinesInv_emit_push) <;>
          first | exact hb | (inp_ln_base; done) | (exact lineOK_cb_of_callScr hins) | (simp [Ev.lineOK]; done)
                | (simp [*, Instr.lineOK, codeOK_acts]; done))
      | ((with_reducible apply LinesInv_emit) <;>
          first | exact hb | (inp_ln_base; done) | (simp [Ev.lineOK]; done))
      | ((with_reducible apply LinesInv_startRequest); simp only [newIH]; inp_ln_base; done))
    -- procIter
    · have := QTL_pop (c := c) ‹_› hq
      exact ⟨this.1, by simp [*, Instr.lineOK, this.2], hlog⟩
    · have := QTL_pop (c := c) ‹_› hq
      exact ⟨this.1, by simp [*, Instr.lineOK, this.2], hlog⟩
    -- pushModal
    · refine ⟨?_, ?_, ?_⟩
      · inp_qtl
      · have : ∀ n : Nat, sigOK c.log { id := n, cls := .render, prio := 0, src := .sched } :=
          fun n => sigOK_lit _ _ _ _ _ rfl
        simp [hrest, Instr.lineOK, this]
      · simpa using hlog
    -- identCheck
    · exact ⟨hq, codeOK_sublist (List.dropWhile_sublist _) hrest, hlog⟩
    -- printWidget
    · exact LinesInv_push _ hb (codeOK_go _ _ _ _ _ (codeOK_nil _))
    -- inputReady
    · rename_i n s _ hnok _ _ _
      refine LinesInv_push _ ⟨hq, hrest, hlog⟩ ?_
      have hok : s.ok = true := by simpa using hnok
      have : Ev.read s.line ∈ c.log := hins (by simp [Sig.carriesLine, hcl, hok])
      simpa [Instr.lineOK] using this

theorem linesInv_reach {P : Prog} {c0 c : Cfg} (h0 : Started c0) (hU : UserHandlers c0) (hF : NoForge P c0)
    (h : Reach P c0 c) : LinesInv c := by
  refine reach_induction (I := LinesInv) ?_ ?_ ?_ h
  · obtain ⟨i, hs, q, sin, rfl⟩ := h0
    refine ⟨⟨?_, ?_⟩, ?_, ?_⟩
    · intro q hq e he
      simp only [initCfg, List.mem_singleton] at hq
      subst hq; cases he
    · intro t ht; cases ht
    · intro ins hi
      simp only [initCfg, List.mem_append, List.mem_map, List.mem_singleton] at hi
      rcases hi with ⟨a, _, rfl⟩ | rfl <;> trivial
    · intro e he; cases he
  · intro c hr hi
    exact LinesInv_step P c (cleanCode_reach h0 hU hF hr) hi
  · intro c c' _ hi hd
    exact LinesInv_deliver hi hd

theorem mem_readLines (l : Str) (log : List Ev) : l ∈ readLines log ↔ Ev.read l ∈ log := by
  unfold readLines
  simp only [List.mem_reverse, List.mem_filterMap]
  constructor
  · rintro ⟨e, he, h⟩
    cases e <;> simp at h
    subst h; exact he
  · intro h; exact ⟨_, h, rfl⟩

theorem mem_inputLines (l : Str) (log : List Ev) :
    l ∈ inputLines log ↔ ∃ scr a, Ev.cb scr .input a (some l) ∈ log := by
  unfold inputLines
  simp only [List.mem_reverse, List.mem_filterMap]
  constructor
  · rintro ⟨e, he, h⟩
    cases e with
    | cb scr cb a key =>
      cases cb <;> cases key <;> simp at h
      subst h; exact ⟨scr, a, he⟩
    | _ => simp at h
  · rintro ⟨scr, a, h⟩; exact ⟨_, h, rfl⟩

end Simpleline.Input
