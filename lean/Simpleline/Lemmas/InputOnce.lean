/-
  A typed line is handed to at most one `input` callback (C06): the potential `once` — callbacks already
  made with the line, plus everything in the machine that can still lead to one — never exceeds the
  number of times the line was read.
-/
import Simpleline.Lemmas.InputCount
import Simpleline.Lemmas.InputLinesStep

namespace Simpleline.Input

/-- number of application handlers for `InputReadySignal` registered at start: the handler of
`InputHandler n` is number `k0 + n` in the dispatch order of that class -/
def k0 (c0 : Cfg) : Nat := (handlersOf c0.L .inputReady).length

/-- how many `input` callbacks with line `l` the instruction can still lead to -/
def _root_.Simpleline.Instr.pot (l : Str) (k : Nat) : Instr → Nat
  | .callScr _ .input _ (some key) => (decide (key = l)).toNat
  | .processInput _ key => (decide (key = l)).toNat
  | .inputReady n s => (s.ok && decide (s.ih = n) && decide (s.line = l)).toNat
  | .callH (.ih n) _ s => (s.ok && decide (s.ih = n) && decide (s.line = l)).toNat
  | .callH .itm _ s => (decide (s.line = l)).toNat
  | .inputReceived s => (decide (s.line = l)).toNat
  | .dispatch s i =>
    if s.cls = .inputReceived then (decide (i = 0) && decide (s.line = l)).toNat
    else if s.cls = .inputReady then (s.ok && decide (i ≤ k + s.ih) && decide (s.line = l)).toNat
    else 0
  | .processSignal s => (lineIs l s).toNat
  | .newLoop s => (lineIs l s).toNat
  | _ => 0

def potCode (l : Str) (k : Nat) (code : List Instr) : Nat := (code.map (Instr.pot l k)).sum

@[simp] theorem potCode_nil (l : Str) (k : Nat) : potCode l k [] = 0 := rfl
@[simp] theorem potCode_cons (l : Str) (k : Nat) (i : Instr) (is : List Instr) :
    potCode l k (i :: is) = i.pot l k + potCode l k is := by simp [potCode]
@[simp] theorem potCode_append (l : Str) (k : Nat) (is js : List Instr) :
    potCode l k (is ++ js) = potCode l k is + potCode l k js := by simp [potCode]

theorem potCode_sublist {l : Str} {k : Nat} {is js : List Instr} (h : is.Sublist js) :
    potCode l k is ≤ potCode l k js := by
  induction h with
  | slnil => simp
  | cons a _ ih => simp; omega
  | cons_cons a _ ih => simp; omega

theorem potCode_acts (l : Str) (k : Nat) (acts : List Act) : potCode l k (acts.map .act) = 0 := by
  induction acts with
  | nil => rfl
  | cons a as ih => simp [ih, Instr.pot]

theorem potCode_go (l : Str) (k : Nat) (scr : Nat) (evs : List OutEv) (cur : List Str) (acc : List Instr)
    (h : potCode l k acc = 0) : potCode l k (step.go scr evs cur acc) = 0 := by
  induction evs generalizing cur acc with
  | nil => unfold step.go; split <;> simp [h, Instr.pot]
  | cons e es ih =>
    unfold step.go
    cases e with
    | line l => exact ih _ _ h
    | ask => apply ih; split <;> simp [h, Instr.pot]

/-- the potential for line `l` -/
def once (l : Str) (k : Nat) (c : Cfg) : Nat := inputCount l c.log + potCode l k c.code + lQ l c.L.queues

def OnceOK (l : Str) (k : Nat) (c : Cfg) : Prop := once l k c ≤ readCount l c.log

theorem deliver_lQ_le (l : Str) {c c' : Cfg} (hd : c.deliver = some c') :
    lQ l c'.L.queues ≤ lQ l c.L.queues + (if c.A.stdin.headD [] = l then 1 else 0) := by
  obtain ⟨r, rs, hr, rfl⟩ := deliver_eq hd
  refine Nat.le_trans (lQ_enqueue_le _ _ _) ?_
  simp only [lineIs, Sig.carriesLine, decide_true, Bool.true_or, Bool.true_and, decide_eq_true_eq]
  exact Nat.le_refl _

theorem once_deliver {l : Str} {k : Nat} {c c' : Cfg} (h : OnceOK l k c) (hd : c.deliver = some c') : OnceOK l k c' := by
  have := deliver_lQ_le l hd
  unfold OnceOK once at *
  rw [deliver_log hd, deliver_code hd, readCount_cons_read, inputCount_cons_read]
  by_cases hk : c.A.stdin.headD [] = l <;> simp only [hk, if_true, if_false] at this ⊢ <;> omega

/-- emitting an event: the `input` callback it reports, if any, moves from "can still happen" to "happened" -/
theorem once_emit_le (l : Str) (P : Prog) (X : Cfg) (e : Ev) (K : Nat) (he : e.isRead = false)
    (h : inputCount l X.log + (if e.inputLine? = some l then 1 else 0) + K + lQ l X.L.queues ≤ readCount l X.log) :
    inputCount l (X.emit P e).log + K + lQ l (X.emit P e).L.queues ≤ readCount l (X.emit P e).log := by
  rcases emit_cases P X e with h1 | h1
  · rw [h1]
    simp only [emit0_log, emit0_L, inputCount_cons, readCount_cons _ _ _ he]
    omega
  · have := deliver_lQ_le l h1
    rw [deliver_log h1, inputCount_cons_read]
    simp only [emit0_log, emit0_L, emit0_A, readCount_cons_read, inputCount_cons,
      readCount_cons _ _ _ he] at this ⊢
    by_cases hk : X.A.stdin.headD [] = l <;> simp only [hk, if_true, if_false] at this ⊢ <;> omega

/-! ### the dispatch order of `InputReadySignal` -/

structure ReadyHandlers (c0 c : Cfg) : Prop where
  eq : handlersOf c.L .inputReady =
    handlersOf c0.L .inputReady ++ (List.range c.A.ihs.length).map (fun n => (HRef.ih n, none))
  app : ∀ u ∈ handlersOf c0.L .inputReady, u.1.isApp = true

theorem readyHandlers_reach {P : Prog} {c0 c : Cfg} (h0 : Started c0) (hU : UserHandlers c0) (h : Reach P c0 c) :
    ReadyHandlers c0 c := by
  have hh := handlers_reach h0 h
  refine ⟨?_, ?_⟩
  · unfold handlersOf
    rw [hh, List.filter_append, List.map_append]
    congr 1
    have : ((List.range c.A.ihs.length).map ihReg).filter (fun x => decide (x.1 = Cls.inputReady)) =
        (List.range c.A.ihs.length).map ihReg := by
      rw [List.filter_eq_self]
      intro x hx
      obtain ⟨n, _, rfl⟩ := List.mem_map.mp hx
      simp [ihReg]
    rw [this, List.map_map]
    rfl
  · obtain ⟨i, hs, q, sin, rfl⟩ := h0
    intro u hu
    unfold handlersOf at hu
    obtain ⟨x, hx, rfl⟩ := List.mem_map.mp hu
    obtain ⟨hx1, hx2⟩ := List.mem_filter.mp hx
    simp only [initCfg, List.cons_append, List.nil_append, List.mem_cons] at hx1
    rcases hx1 with rfl | rfl | rfl | hx1
    · simp at hx2
    · simp at hx2
    · simp at hx2
    · exact hU x (by simpa [initCfg] using hx1)

theorem pot_dispatch {l : Str} {c0 c : Cfg} (hH : HandlersOK c) (hR : ReadyHandlers c0 c) {s : Sig} {i : Nat}
    {h : HRef} {d : Option Nat} (hg : (handlersOf c.L s.cls)[i]? = some (h, d)) :
    (Instr.callH h d s).pot l (k0 c0) + (Instr.dispatch s (i + 1)).pot l (k0 c0) =
      (Instr.dispatch s i).pot l (k0 c0) := by
  have hm := handlersOf_mem hg
  by_cases hc : s.cls = .inputReceived
  · obtain ⟨us, hus, hno⟩ := hH.first
    have hnih : ∀ n, h ≠ .ih n := fun n hh => by
      have := hH.ih _ hm n hh
      simp only at this
      rw [hc] at this; cases this
    rw [hc, hus] at hg
    cases i with
    | zero =>
      simp only [List.getElem?_cons_zero, Option.some.injEq, Prod.mk.injEq] at hg
      obtain ⟨rfl, rfl⟩ := hg
      simp [Instr.pot, hc]
    | succ i =>
      simp only [List.getElem?_cons_succ] at hg
      have hni := hno _ (List.mem_of_getElem? hg)
      simp only at hni
      have : (Instr.callH h d s).pot l (k0 c0) = 0 := by
        cases h <;> first | rfl | exact absurd rfl hni | exact absurd rfl (hnih _)
      rw [this]; simp [Instr.pot, hc]
  · have hni : h ≠ .itm := fun hh => hc (hH.itm _ hm hh)
    by_cases hr : s.cls = .inputReady
    · rw [hr, hR.eq] at hg
      have hk : (handlersOf c0.L .inputReady).length = k0 c0 := rfl
      by_cases hik : i < k0 c0
      · rw [List.getElem?_append_left (by rw [hk]; exact hik)] at hg
        have happ := hR.app _ (List.mem_of_getElem? hg)
        simp only at happ
        have : (Instr.callH h d s).pot l (k0 c0) = 0 := by
          cases h <;> first | rfl | cases happ
        have e1 : decide (i ≤ k0 c0 + s.ih) = true := by simp; omega
        have e2 : decide (i + 1 ≤ k0 c0 + s.ih) = true := by simp; omega
        rw [this]; simp [Instr.pot, hr, e1, e2]
      · obtain ⟨m, rfl⟩ : ∃ m, i = k0 c0 + m := ⟨i - k0 c0, by omega⟩
        rw [List.getElem?_append_right (by rw [hk]; omega), hk, Nat.add_sub_cancel_left] at hg
        have hlt : m < c.A.ihs.length := by
          have := (List.getElem?_eq_some_iff.mp hg).1
          simpa using this
        rw [List.getElem?_map, List.getElem?_range hlt] at hg
        simp only [Option.map_some, Option.some.injEq, Prod.mk.injEq] at hg
        obtain ⟨rfl, rfl⟩ := hg
        simp only [Instr.pot, hr, if_true]
        rcases Nat.lt_trichotomy s.ih m with h1 | h1 | h1
        · have a1 : ¬ s.ih = m := by omega
          have a2 : ¬ k0 c0 + m ≤ k0 c0 + s.ih := by omega
          have a3 : ¬ k0 c0 + m + 1 ≤ k0 c0 + s.ih := by omega
          simp [a1, a2, a3]
        · have a3 : ¬ k0 c0 + m + 1 ≤ k0 c0 + m := by omega
          simp [h1, a3]
        · have a1 : ¬ s.ih = m := by omega
          have a2 : k0 c0 + m ≤ k0 c0 + s.ih := by omega
          have a3 : k0 c0 + m + 1 ≤ k0 c0 + s.ih := by omega
          simp [a1, a2, a3]
    · have hnih : ∀ n, h ≠ .ih n := fun n hh => hr (hH.ih _ hm n hh)
      have : (Instr.callH h d s).pot l (k0 c0) = 0 := by
        cases h <;> first | rfl | exact absurd rfl hni | exact absurd rfl (hnih _)
      rw [this]; simp [Instr.pot, hc, hr]

end Simpleline.Input
