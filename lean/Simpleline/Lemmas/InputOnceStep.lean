/-
  `OnceOK` is preserved by every transition (C06; needs `NoForge` and `UserHandlers`).
-/
import Simpleline.Lemmas.InputOnce

namespace Simpleline.Input

/-- the transition does not log anything and does not create potential -/
def Ole (l : Str) (k : Nat) (c' c : Cfg) : Prop :=
  c'.log = c.log ∧ potCode l k c'.code + lQ l c'.L.queues ≤ potCode l k c.code + lQ l c.L.queues

theorem OnceOK_of_Ole {l : Str} {k : Nat} {c c' : Cfg} (h : Ole l k c' c) (hf : OnceOK l k c) : OnceOK l k c' := by
  unfold OnceOK once at *
  rw [h.1]; have := h.2; omega

theorem Ole_raise (l : Str) (k : Nat) (c : Cfg) (kd : Kind) : Ole l k (final (c.raise kd)) c := by
  unfold Ole
  have := potCode_sublist (l := l) (k := k) (raise_code c kd)
  simp only [raise_log, lQ_raise, true_and]
  omega

theorem lineIs_of_not_input {l : Str} {s : Sig} (h : s.cls.isInput = false) : lineIs l s = false :=
  lineIs_of_not_carries (carriesLine_of_not_input h)

macro "inp_ole_leaf" : tactic => `(tactic| first
    | (with_reducible exact Ole_raise _ _ _ _)
    | (unfold Ole; simp [Instr.pot, lQ_enqueue, lineIs, Sig.carriesLine, Cfg.newSig, potCode_acts]; done)
    | (unfold Ole; simp [Instr.pot, lQ_enqueue, lineIs, Sig.carriesLine, Cfg.newSig, potCode_acts]; omega))

theorem Ole_doAct (l : Str) (k : Nat) (c : Cfg) (a : Act) (ha : a.forges = false) : Ole l k (final (doAct c a)) c := by
  unfold doAct
  split <;> (try dsimp only) <;>
    first
    | inp_ole_leaf
    | (split <;> inp_ole_leaf)
    | skip
  · simp only [Act.forges] at ha
    unfold Ole
    simp [lQ_enqueue _ _ _ (lineIs_of_not_input (l := l) (s := { id := _, cls := _, prio := _, src := _ }) ha)]
  · simp only [Act.forges] at ha
    unfold Ole
    simp [Instr.pot, lineIs_of_not_input (l := l) (s := { id := _, cls := _, prio := _, src := _ }) ha]

theorem OnceOK_take {l : Str} {k : Nat} (c1 : Cfg) (f : Sig → List Instr)
    (hf : ∀ s, potCode l k (f s) = (lineIs l s).toNat) (h : OnceOK l k c1) :
    OnceOK l k (final (do let x ← c1.take; pure (push x.2 (f x.1)))) := by
  obtain ⟨c2, h2, h3⟩ := take_cases c1
  have hc2 : OnceOK l k c2 := by
    rcases h2 with rfl | h2
    · exact h
    · exact once_deliver h h2
  rcases h3 with ⟨_, h3⟩ | ⟨e, es, he, h3⟩
  · rw [h3]; exact hc2
  · rw [h3]
    show OnceOK l k (push (c2.pop e es) (f e.2.2))
    have := lQ_pop l c2 e es he
    unfold OnceOK once at hc2 ⊢
    simp only [push_log, pop_log, push_code, pop_code, potCode_append, hf, push_L]
    cases hl : lineIs l e.2.2 <;> simp [hl] at this ⊢ <;> omega

theorem OnceOK_startRequest {l : Str} {k : Nat} (c : Cfg) (ih : Nat) (requester : Src) (text : Str)
    (h : OnceOK l k c) : OnceOK l k (final (startRequest c ih requester text)) := by
  rw [startRequest_eq]
  split
  · exact OnceOK_of_Ole (Ole_raise _ _ _ _) h
  · split <;> exact h

theorem enqueueAll_lQ_le (l : Str) (sigs : List Sig) (c : Cfg) :
    lQ l (enqueueAll c sigs).L.queues ≤ lQ l c.L.queues + sigs.countP (lineIs l) := by
  induction sigs generalizing c with
  | nil => simp
  | cons s ss ih =>
    rw [enqueueAll_cons, List.countP_cons]
    have h1 := ih (c.enqueue s)
    have h2 := lQ_enqueue_le l c s
    omega

theorem failSigs_countP (l : Str) (reqs : List Request) (ts : List Nat) (sid : Nat) :
    (failSigs reqs ts sid).countP (lineIs l) = 0 := by
  induction ts generalizing sid with
  | nil => rfl
  | cons t ts ih => simp [failSigs, ih, lineIs, Sig.carriesLine, failSig]

theorem OnceOK_inputReceived {l : Str} {k : Nat} (P : Prog) (c : Cfg) (s : Sig) (rest : List Instr)
    (hc : c.code = .inputReceived s :: rest) (h : OnceOK l k c) : OnceOK l k (final (step P c)) := by
  cases hst : c.A.inputStack.getLast? with
  | none =>
    rw [step_inputReceived_empty P c s rest hc (List.getLast?_eq_none_iff.mp hst)]
    refine OnceOK_of_Ole (Ole_raise _ _ _ _) ?_
    unfold OnceOK once at h ⊢
    rw [hc] at h
    simp only [potCode_cons] at h ⊢
    omega
  | some r =>
    obtain ⟨rs, hst'⟩ := List.getLast?_eq_some_iff.mp hst
    obtain ⟨c', h1, h2, h3, h4, h5, h6, h7⟩ := step_inputReceived P c s rest rs r hc hst'
    rw [h1, final_ok]
    have hL : c'.L = (enqueueAll c (handoffSigs c.A.reqs rs r s.line (c.nextSid + 1))).L := congrArg (·.1) h7
    have hq := enqueueAll_lQ_le l (handoffSigs c.A.reqs rs r s.line (c.nextSid + 1)) c
    unfold OnceOK once at h ⊢
    rw [hc] at h
    rw [h3, h4, hL]
    simp only [potCode_cons, Instr.pot] at h
    have hcnt : (handoffSigs c.A.reqs rs r s.line (c.nextSid + 1)).countP (lineIs l) =
        (decide (s.line = l)).toNat := by
      have : lineIs l (okSig c.A.reqs r s.line (c.nextSid + 1)) = decide (s.line = l) := by
        simp [lineIs, Sig.carriesLine, okSig]
      simp only [handoffSigs, List.countP_cons, failSigs_countP, Nat.zero_add, this]
      cases decide (s.line = l) <;> rfl
    rw [hcnt] at hq
    omega

theorem pot_callScr (l : Str) (k : Nat) (scr : Nat) (cb : Cb) (arg : Option Nat) (key : Option Str) :
    (Instr.callScr scr cb arg key).pot l k = if (Ev.cb scr cb arg key).inputLine? = some l then 1 else 0 := by
  cases cb <;> cases key <;> simp [Instr.pot, Ev.inputLine?]
  split <;> simp_all

theorem pot_processSignal (l : Str) (k : Nat) (s : Sig) :
    (Instr.dispatch s 0).pot l k = (Instr.processSignal s).pot l k := by
  simp only [Instr.pot, lineIs, Sig.carriesLine]
  cases hc : s.cls <;> simp

macro "inp_on_close" : tactic => `(tactic|
  (simp [OnceOK, once, Instr.pot, lQ_enqueue, lineIs, Sig.carriesLine, Cfg.newSig, potCode_acts] at * <;> omega))

macro "inp_on_leaf" : tactic => `(tactic| first
    | ((with_reducible apply OnceOK_of_Ole (Ole_raise _ _ _ _)); inp_on_close)
    | inp_on_close)

theorem OnceOK_step {l : Str} {c0 : Cfg} (P : Prog) (c : Cfg) (hc : cleanCode c.code) (hH : HandlersOK c)
    (hR : ReadyHandlers c0 c) (hf : OnceOK l (k0 c0) c) : OnceOK l (k0 c0) (final (step P c)) := by
  by_cases hir : ∃ s rest, c.code = .inputReceived s :: rest
  · obtain ⟨s, rest, hcode⟩ := hir
    exact OnceOK_inputReceived P c s rest hcode hf
  have hir' : ∀ s rest, ¬ c.code = .inputReceived s :: rest := fun s rest h => hir ⟨s, rest, h⟩
  unfold step
  split
  · simpa using hf
  · rename_i ins rest hcode
    rw [hcode] at hc
    simp only [cleanCode_cons] at hc
    obtain ⟨hins, hrest⟩ := hc
    clear hrest
    have hf' : inputCount l c.log + (ins.pot l (k0 c0) + potCode l (k0 c0) rest) + lQ l c.L.queues ≤
        readCount l c.log := by
      unfold OnceOK once at hf; rw [hcode, potCode_cons] at hf; exact hf
    clear hf
    split
    all_goals try (exact absurd hcode (hir' _ _))
    all_goals clear hir hir'
    all_goals try simp only [Instr.clean, Bool.not_eq_eq_eq_not, Bool.not_true, decide_eq_true_eq] at hins
    all_goals dsimp only
    all_goals try (inp_on_leaf; done)
    all_goals try (first
      | ((with_reducible apply OnceOK_take (f := fun s => [Instr.processSignal s])) <;> inp_on_close; done)
      | ((with_reducible refine OnceOK_of_Ole (Ole_doAct _ _ _ _ hins) ?_); inp_on_close))
    all_goals try (split <;> try (inp_on_leaf; done))
    all_goals try (first
      | ((with_reducible apply OnceOK_take (f := fun s => [Instr.processSignal s, _])) <;> inp_on_close; done))
    all_goals try (split <;> try (inp_on_leaf; done))
    all_goals try (split <;> try (inp_on_leaf; done))
    all_goals try (split <;> try (inp_on_leaf; done))
    all_goals try ((with_reducible apply OnceOK_startRequest); simp [OnceOK, once, newIH, Instr.pot] at * <;> omega)
    all_goals try rw [pot_callScr] at hf'
    all_goals try (simp [OnceOK, once, potCode_acts] at *)
    all_goals try ((with_reducible apply once_emit_le) <;> simp [Instr.pot, Ev.isRead, Ev.inputLine?] <;> omega)
    -- processSignal
    · rw [pot_processSignal]; exact hf'
    -- dispatch
    · rw [← pot_dispatch hH hR ‹_›] at hf'
      simp only [Instr.pot] at hf' ⊢
      omega
    -- procIter
    · have := lQ_pop l c _ _ ‹_›
      simp only [Cfg.pop] at this
      simp only [Instr.pot] at hf' ⊢
      cases hl : lineIs l _ <;> simp [hl] at this ⊢ <;> omega
    · have := lQ_pop l c _ _ ‹_›
      simp only [Cfg.pop] at this
      simp only [Instr.pot] at hf' ⊢
      cases hl : lineIs l _ <;> simp [hl] at this ⊢ <;> omega
    -- newLoop
    · rw [lQ_enqueue _ _ _ (lineIs_of_not_input hins)]
      simp [Instr.pot, lineIs_of_not_input (l := l) hins] at hf' ⊢
      omega
    -- identCheck
    · simp only [Instr.pot] at hf'
      refine Nat.le_trans (Nat.add_le_add_right (Nat.add_le_add_left
        (potCode_sublist (List.dropWhile_sublist _)) _) _) ?_
      omega
    -- callScr
    · refine once_emit_le l P _ _ _ rfl ?_
      simp [Instr.pot]
      omega
    · refine once_emit_le l P _ _ _ rfl ?_
      simp [Instr.pot]
      omega
    -- printWidget
    · rw [potCode_go _ _ _ _ _ _ rfl]
      simp only [Instr.pot] at hf'
      omega
    -- inputReady
    · rename_i n s _ _ hih hok _
      simp only [Instr.pot, hih, hok, decide_true, Bool.true_and] at hf' ⊢
      exact hf'

theorem once_reach {P : Prog} {c0 c : Cfg} (h0 : Started c0) (hU : UserHandlers c0) (hF : NoForge P c0)
    (h : Reach P c0 c) (l : Str) : OnceOK l (k0 c0) c := by
  refine reach_induction (I := OnceOK l (k0 c0)) ?_ ?_ ?_ h
  · obtain ⟨i, hs, q, sin, rfl⟩ := h0
    simp [OnceOK, once, initCfg, potCode_acts, Instr.pot, lQ, lq, EQueue.sigs, inputCount, inputLines, readCount]
  · intro c hr hi
    exact OnceOK_step P c (cleanCode_reach h0 hU hF hr) (handlersOK_reach h0 hU hr) (readyHandlers_reach h0 hU hr) hi
  · intro c c' _ hi hd
    exact once_deliver hi hd

/-- every line was handed to `input` callbacks at most as often as it was read -/
theorem inputCount_le_readCount {P : Prog} {c0 c : Cfg} (h0 : Started c0) (hU : UserHandlers c0) (hF : NoForge P c0)
    (h : Reach P c0 c) (l : Str) : (inputLines c.log).count l ≤ (readLines c.log).count l := by
  have := once_reach h0 hU hF h l
  unfold OnceOK once inputCount readCount at this
  omega

end Simpleline.Input
