/-
  Exact descriptions of the input operations of the machine (C06, C18): `startRequest`
  (`InputThreadManager.start_input_thread`), the hand-off step `inputReceived`
  (`InputThreadManager._input_received_handler`), the handler step `inputReady`
  (`InputHandler._input_received_handler`), `getInput2`, `blockingInput`, `waitInput`, `processInput`.
-/
import Simpleline.Lemmas.InputFrame

namespace Simpleline.Input

/-! ### `startRequest` -/

theorem skip_listSet_cleared (ihs : List IHandler) (ih : Nat) :
    ((listSet ihs ih fun h => { h with received := false, value := none }).getD ih default).skip =
      (ihs.getD ih default).skip := by
  rw [listSet_getD]; split <;> rfl

theorem startRequest_eq (c : Cfg) (ih : Nat) (requester : Src) (text : Str) :
    startRequest c ih requester text =
      if c.A.inputStack ≠ [] ∧ (c.A.ihs.getD ih default).skip = false then
        ({ c with A := reqRecorded c.A ih requester text } : Cfg).raise .err
      else if c.A.processing then
        .ok (({ c with A := { reqRecorded c.A ih requester text with
                  inputStack := c.A.inputStack ++ [c.A.reqs.length] } } : Cfg).write text)
      else
        .ok (({ c with A := { reqRecorded c.A ih requester text with
                  inputStack := c.A.inputStack ++ [c.A.reqs.length], processing := true,
                  readers := c.A.readers ++ [c.A.reqs.length] } } : Cfg).write text) := by
  unfold startRequest
  simp only [skip_listSet_cleared, List.length_append, List.length_cons, List.length_nil,
    List.dropLast_concat, List.getLastD_concat]
  have h1 : (c.A.inputStack.length + (0 + 1) ≠ 1) ↔ c.A.inputStack ≠ [] := by
    rw [Ne, Ne, ← List.length_eq_zero_iff]; omega
  have h2 : (c.A.reqs ++ [({ ih := ih, requester := requester, text := text } : Request)]).getD c.A.reqs.length default
      = { ih := ih, requester := requester, text := text } := by
    simp [List.getD_eq_getElem?_getD]
  simp only [h1, h2, Bool.not_eq_true]
  rfl

theorem startRequest_screens (c : Cfg) (ih : Nat) (requester : Src) (text : Str) :
    (final (startRequest c ih requester text)).A.screens = c.A.screens := by
  rw [startRequest_eq]
  split
  · simp [reqRecorded]
  · split <;> simp [reqRecorded]

/-! ### `enqueue` only looks at, and only changes, the loop state and the trace -/

/-- the part of a configuration `enqueue_signal` works on -/
def _root_.Simpleline.Cfg.LT (c : Cfg) : LoopSt × List Tr := (c.L, c.tr)

/-- the scratch registers holding callback results -/
def _root_.Simpleline.Cfg.rets (c : Cfg) : Bool × Bool × Ret × Str × UAction :=
  (c.retSetup, c.retPromptNone, c.retInput, c.retKey, c.retAction)

def enqLT (lt : LoopSt × List Tr) (s : Sig) : LoopSt × List Tr :=
  if lt.1.forceQuit then (lt.1, .dropped s :: lt.2)
  else ({ lt.1 with queues := listSet lt.1.queues (lt.1.route s.src) (·.put s) }, .enq (lt.1.route s.src) s :: lt.2)

theorem enqueue_LT (c : Cfg) (s : Sig) : (c.enqueue s).LT = enqLT c.LT s := by
  unfold Cfg.enqueue enqLT Cfg.LT; split <;> rfl

@[simp] theorem enqueue_rets (c : Cfg) (s : Sig) : (c.enqueue s).rets = c.rets := by
  unfold Cfg.enqueue Cfg.rets; split <;> rfl

@[simp] theorem enqueueAll_nil (c : Cfg) : enqueueAll c [] = c := rfl
@[simp] theorem enqueueAll_cons (c : Cfg) (s : Sig) (ss : List Sig) :
    enqueueAll c (s :: ss) = enqueueAll (c.enqueue s) ss := rfl

theorem enqueueAll_LT (sigs : List Sig) (c : Cfg) : (enqueueAll c sigs).LT = sigs.foldl enqLT c.LT := by
  induction sigs generalizing c with
  | nil => rfl
  | cons s ss ih => simp [ih, enqueue_LT]

@[simp] theorem enqueueAll_A (sigs : List Sig) (c : Cfg) : (enqueueAll c sigs).A = c.A := by
  induction sigs generalizing c with
  | nil => rfl
  | cons s ss ih => simp [ih]
@[simp] theorem enqueueAll_code (sigs : List Sig) (c : Cfg) : (enqueueAll c sigs).code = c.code := by
  induction sigs generalizing c with
  | nil => rfl
  | cons s ss ih => simp [ih]
@[simp] theorem enqueueAll_log (sigs : List Sig) (c : Cfg) : (enqueueAll c sigs).log = c.log := by
  induction sigs generalizing c with
  | nil => rfl
  | cons s ss ih => simp [ih]
@[simp] theorem enqueueAll_nextSid (sigs : List Sig) (c : Cfg) : (enqueueAll c sigs).nextSid = c.nextSid := by
  induction sigs generalizing c with
  | nil => rfl
  | cons s ss ih => simp [ih]
@[simp] theorem enqueueAll_handlers (sigs : List Sig) (c : Cfg) : (enqueueAll c sigs).L.handlers = c.L.handlers := by
  induction sigs generalizing c with
  | nil => rfl
  | cons s ss ih => simp [ih]
@[simp] theorem enqueueAll_forceQuit (sigs : List Sig) (c : Cfg) : (enqueueAll c sigs).L.forceQuit = c.L.forceQuit := by
  induction sigs generalizing c with
  | nil => rfl
  | cons s ss ih => simp [ih]
@[simp] theorem enqueueAll_levels (sigs : List Sig) (c : Cfg) : (enqueueAll c sigs).L.levels = c.L.levels := by
  induction sigs generalizing c with
  | nil => rfl
  | cons s ss ih => simp [ih]
@[simp] theorem enqueueAll_active (sigs : List Sig) (c : Cfg) : (enqueueAll c sigs).L.active = c.L.active := by
  induction sigs generalizing c with
  | nil => rfl
  | cons s ss ih => simp [ih]

/-! ### the hand-off -/

/-- the loop of `_input_received_handler` over the earlier requests -/
def failLoop (c : Cfg) (others : List Nat) : Cfg :=
  others.foldl (fun c t =>
    (c.newSig .inputReady 0 (c.A.reqs.getD t default).requester [] (c.A.reqs.getD t default).ih false).2.enqueue
      (c.newSig .inputReady 0 (c.A.reqs.getD t default).requester [] (c.A.reqs.getD t default).ih false).1) c

theorem handoff_fold (others : List Nat) (c : Cfg) :
    (failLoop c others).LT = (failSigs c.A.reqs others (c.nextSid + 1)).foldl enqLT c.LT ∧
      (failLoop c others).nextSid = c.nextSid + others.length ∧ (failLoop c others).A = c.A ∧
      (failLoop c others).code = c.code ∧ (failLoop c others).log = c.log ∧ (failLoop c others).rets = c.rets := by
  induction others generalizing c with
  | nil => simp [failSigs, failLoop]
  | cons t ts ih =>
    simp only [failLoop, List.foldl_cons, failSigs, List.length_cons]
    obtain ⟨h1, h2, h3, h4, h5, h6⟩ := ih ((c.newSig .inputReady 0 (c.A.reqs.getD t default).requester []
      (c.A.reqs.getD t default).ih false).2.enqueue (c.newSig .inputReady 0 (c.A.reqs.getD t default).requester []
      (c.A.reqs.getD t default).ih false).1)
    simp only [failLoop] at h1 h2 h3 h4 h5 h6
    refine ⟨?_, ?_, ?_, ?_, ?_, ?_⟩
    · rw [h1, enqueue_LT]; simp [Cfg.LT, failSig]
    · rw [h2]; simp; omega
    · rw [h3]; simp
    · rw [h4]; simp
    · rw [h5]; simp
    · rw [h6, enqueue_rets]; rfl

/-- the hand-off step, exactly: with the request stack `rs ++ [r]` the signals `handoffSigs` are enqueued in
order, then the stack is emptied and the busy flag cleared -/
theorem step_inputReceived (P : Prog) (c : Cfg) (s : Sig) (rest : List Instr) (rs : List Nat) (r : Nat)
    (hc : c.code = .inputReceived s :: rest) (hst : c.A.inputStack = rs ++ [r]) :
    ∃ c', step P c = .ok c' ∧
      c'.A = { c.A with inputStack := [], processing := false } ∧ c'.code = rest ∧ c'.log = c.log ∧
      c'.nextSid = c.nextSid + (rs.length + 1) ∧ c'.rets = c.rets ∧
      c'.LT = (enqueueAll c (handoffSigs c.A.reqs rs r s.line (c.nextSid + 1))).LT := by
  unfold step
  simp only [hc, hst, List.getLast?_concat, List.dropLast_concat]
  refine ⟨_, rfl, ?_⟩
  generalize hc1 : Cfg.enqueue _ _ = c1
  have e1 : c1.A = c.A := by rw [← hc1]; simp
  have e2 : c1.nextSid = c.nextSid + 1 := by rw [← hc1]; simp
  have e4 : c1.code = rest := by rw [← hc1]; simp
  have e5 : c1.log = c.log := by rw [← hc1]; simp
  have e6 : c1.rets = c.rets := by rw [← hc1, enqueue_rets]; rfl
  have e7 : c1.LT = enqLT c.LT (handoffSigs c.A.reqs rs r s.line (c.nextSid + 1)).head! := by
    rw [← hc1, enqueue_LT]; rfl
  obtain ⟨h1, h2, h3, h4, h5, h6⟩ := handoff_fold rs c1
  unfold failLoop at h1 h2 h3 h4 h5 h6
  generalize List.foldl _ c1 rs = F at *
  refine ⟨?_, h4.trans e4, h5.trans e5, ?_, h6.trans e6, ?_⟩
  · show ({ F.A with inputStack := [], processing := false } : AppSt) = _
    rw [h3, e1]
  · show F.nextSid = _
    rw [h2, e2]; omega
  · show F.LT = _
    rw [enqueueAll_LT, handoffSigs, List.foldl_cons, h1, e7, e1, e2]
    rfl

/-- the hand-off step with an empty request stack: `IndexError` -/
theorem step_inputReceived_empty (P : Prog) (c : Cfg) (s : Sig) (rest : List Instr)
    (hc : c.code = .inputReceived s :: rest) (hst : c.A.inputStack = []) :
    step P c = ({ c with code := rest } : Cfg).raise .err := by
  unfold step
  simp only [hc, hst, List.getLast?_nil]

/-! ### the handler step -/

theorem listSet_listSet {α} (l : List α) (i : Nat) (f g : α → α) :
    listSet (listSet l i f) i g = listSet l i (g ∘ f) := by
  apply List.ext_getElem?
  intro j
  simp only [listSet_getElem?]
  split <;> simp

theorem step_inputReady (P : Prog) (c : Cfg) (n : Nat) (s : Sig) (rest : List Instr)
    (hc : c.code = .inputReady n s :: rest) :
    step P c = .ok
      (if s.ih ≠ n then { c with code := rest }
       else if s.ok = false then
         { c with code := rest, A := { c.A with ihs := listSet c.A.ihs n IHandler.failed } }
       else
         { c with
           code := (match (c.A.ihs.getD n default).cb with
                    | some scr => [.processInput scr s.line]
                    | none => []) ++ rest,
           A := { c.A with ihs := listSet c.A.ihs n (·.answered s.line) } }) := by
  unfold step
  simp only [hc]
  by_cases h1 : s.ih = n
  · simp only [h1, ne_eq, not_true_eq_false, if_false]
    cases hok : s.ok
    · rfl
    · simp only [if_false, listSet_listSet, Bool.true_eq_false]
      cases hcb : (c.A.ihs.getD n default).cb
      · simp only [List.nil_append]
        have : listSet c.A.ihs n (fun x => x.answered s.line) =
            listSet c.A.ihs n ((fun h => { h with value := some s.line }) ∘ fun h => { h with received := true, ok := true }) := by
          apply List.ext_getElem?
          intro j
          simp only [listSet_getElem?]
          split
          · subst_vars
            simp only [List.getD_eq_getElem?_getD] at hcb
            cases hj : c.A.ihs[s.ih]? with
            | none => rfl
            | some h =>
              simp only [hj, Option.getD_some] at hcb
              simp [IHandler.answered, hcb]
          · rfl
        rw [this]; simp
      · simp only [not_true_eq_false, if_false]; rfl
  · simp [h1]

/-! ### a new request: `getInput2`, `blockingInput` -/

theorem listSet_append_fresh (ihs : List IHandler) (source : Src) (skip : Bool) (cb : Option Nat) :
    listSet (ihs ++ [freshIH source skip cb]) ihs.length IHandler.cleared = ihs ++ [freshIH source skip cb] := by
  apply List.ext_getElem?
  intro j
  simp only [listSet_getElem?]
  split
  · subst_vars; simp [IHandler.cleared, freshIH]
  · rfl

theorem requested_of_newIH (c : Cfg) (source : Src) (skip : Bool) (cb : Option Nat) (text : Str) (is : List Instr) :
    Requested c (final (startRequest (push (newIH c source skip cb).2 is) (newIH c source skip cb).1 source text))
      (freshIH source skip cb) text := by
  rw [startRequest_eq]
  have hsk : ((push (newIH c source skip cb).2 is).A.ihs.getD (newIH c source skip cb).1 default).skip = skip := by
    simp [newIH, push, List.getD_eq_getElem?_getD]
  have hih : listSet (push (newIH c source skip cb).snd is).A.ihs (newIH c source skip cb).fst IHandler.cleared =
      c.A.ihs ++ [freshIH source skip cb] := listSet_append_fresh c.A.ihs source skip cb
  rw [hsk]
  split
  · rename_i h
    refine ⟨?_, ?_, ?_, ?_, ?_, Or.inl ⟨?_, ?_, ?_, ?_, ?_, ?_⟩⟩ <;>
      (try simp only [raise_A, raise_handlers, raise_log, reqRecorded, hih]) <;> first | rfl | exact h.1 | exact h.2
  · rename_i h
    have h' : c.A.inputStack = [] ∨ skip = true := by
      by_cases h1 : c.A.inputStack = []
      · exact Or.inl h1
      · right; cases skip
        · exact absurd ⟨h1, rfl⟩ h
        · rfl
    split
    · rename_i hp
      refine ⟨?_, ?_, ?_, ?_, ?_, Or.inr ⟨h', ?_, ?_, ?_, Or.inl ⟨?_, ?_⟩⟩⟩ <;>
        (try simp only [final_ok, reqRecorded, hih, write_ihs, write_reqs, write_L, write_stdin, write_log,
          write_inputStack, write_processing, write_out, write_readers]) <;> first | rfl | exact hp
    · rename_i hp
      refine ⟨?_, ?_, ?_, ?_, ?_, Or.inr ⟨h', ?_, ?_, ?_, Or.inr ⟨?_, ?_⟩⟩⟩ <;>
        (try simp only [final_ok, reqRecorded, hih, write_ihs, write_reqs, write_L, write_stdin, write_log,
          write_inputStack, write_processing, write_out, write_readers]) <;>
        first | rfl | (simpa [newIH, push] using hp)

end Simpleline.Input
