/-
  C06b: the typed lines the pending instructions can still hand to an `input` callback, *in order*
  (the list-valued refinement of `Instr.pot` of `Lemmas/InputOnce.lean`).

  `Instr.pre k` : a successful `InputReadySignal` on its way to the handler of its `InputHandler`
  (`processSignal`, `dispatch` up to handler number `k + s.ih`, the call of that handler);
  `Instr.post`  : the line once that handler runs (`inputReady`, `processInput`, the `input` callback itself).
-/
import Simpleline.Lemmas.InputOnce
import Simpleline.Spec.InputOrderSpec

namespace Simpleline.InputOrder
open Input

def _root_.Simpleline.Instr.pre (k : Nat) : Instr → List Str
  | .processSignal s => if s.okReady = true then [s.line] else []
  | .dispatch s i => if s.okReady = true ∧ i ≤ k + s.ih then [s.line] else []
  | .callH (.ih n) _ s => if s.okReady = true ∧ s.ih = n then [s.line] else []
  | _ => []

def _root_.Simpleline.Instr.post : Instr → List Str
  | .inputReady n s => if s.okReady = true ∧ s.ih = n then [s.line] else []
  | .processInput _ key => [key]
  | .callScr _ .input _ (some key) => [key]
  | _ => []

/-- the lines of successful `InputReadySignal`s the instruction is still going to deliver -/
def _root_.Simpleline.Instr.lines (k : Nat) (i : Instr) : List Str := i.pre k ++ i.post

def Qc (k : Nat) (code : List Instr) : List Str := code.flatMap (Instr.lines k)

def nPre (k : Nat) (code : List Instr) : Nat := (code.map fun i => (i.pre k).length).sum

def postFree (code : List Instr) : Prop := ∀ i ∈ code, i.post = []

/-! ### `Qc` -/

@[simp] theorem Qc_nil (k : Nat) : Qc k [] = [] := rfl
@[simp] theorem Qc_cons (k : Nat) (i : Instr) (is : List Instr) : Qc k (i :: is) = i.lines k ++ Qc k is := by
  simp [Qc]
@[simp] theorem Qc_append (k : Nat) (is js : List Instr) : Qc k (is ++ js) = Qc k is ++ Qc k js := by
  simp [Qc]

theorem Qc_sublist {k : Nat} {is js : List Instr} (h : is.Sublist js) : (Qc k is).Sublist (Qc k js) := by
  induction h with
  | slnil => simp
  | cons a _ ih => rw [Qc_cons]; exact ih.trans (List.sublist_append_right _ _)
  | cons_cons a _ ih => rw [Qc_cons, Qc_cons]; exact (List.Sublist.refl _).append ih

theorem Qc_acts (k : Nat) (acts : List Act) : Qc k (acts.map .act) = [] := by
  induction acts with
  | nil => rfl
  | cons a as ih => simp [ih, Instr.lines, Instr.pre, Instr.post]

theorem Qc_go (k : Nat) (scr : Nat) (evs : List OutEv) (cur : List Str) (acc : List Instr)
    (h : Qc k acc = []) : Qc k (step.go scr evs cur acc) = [] := by
  induction evs generalizing cur acc with
  | nil => unfold step.go; split <;> simp [h, Instr.lines, Instr.pre, Instr.post]
  | cons e es ih =>
    unfold step.go
    cases e with
    | line l => exact ih _ _ h
    | ask => apply ih; split <;> simp [h, Instr.lines, Instr.pre, Instr.post]

/-! ### `nPre` -/

@[simp] theorem nPre_nil (k : Nat) : nPre k [] = 0 := rfl
@[simp] theorem nPre_cons (k : Nat) (i : Instr) (is : List Instr) : nPre k (i :: is) = (i.pre k).length + nPre k is := by
  simp [nPre]
@[simp] theorem nPre_append (k : Nat) (is js : List Instr) : nPre k (is ++ js) = nPre k is + nPre k js := by
  simp [nPre]

theorem nPre_sublist {k : Nat} {is js : List Instr} (h : is.Sublist js) : nPre k is ≤ nPre k js := by
  induction h with
  | slnil => simp
  | cons a _ ih => simp; omega
  | cons_cons a _ ih => simp; omega

theorem nPre_acts (k : Nat) (acts : List Act) : nPre k (acts.map .act) = 0 := by
  induction acts with
  | nil => rfl
  | cons a as ih => simp [ih, Instr.pre]

theorem nPre_go (k : Nat) (scr : Nat) (evs : List OutEv) (cur : List Str) (acc : List Instr)
    (h : nPre k acc = 0) : nPre k (step.go scr evs cur acc) = 0 := by
  induction evs generalizing cur acc with
  | nil => unfold step.go; split <;> simp [h, Instr.pre]
  | cons e es ih =>
    unfold step.go
    cases e with
    | line l => exact ih _ _ h
    | ask => apply ih; split <;> simp [h, Instr.pre]

/-! ### `postFree` -/

@[simp] theorem postFree_nil : postFree [] := by simp [postFree]
@[simp] theorem postFree_cons (i : Instr) (is : List Instr) : postFree (i :: is) ↔ i.post = [] ∧ postFree is := by
  simp [postFree]
@[simp] theorem postFree_append (is js : List Instr) : postFree (is ++ js) ↔ postFree is ∧ postFree js := by
  simp [postFree, or_imp, forall_and]

theorem postFree_sublist {is js : List Instr} (h : is.Sublist js) (hj : postFree js) : postFree is :=
  fun i hi => hj i (h.subset hi)

theorem postFree_tail {is : List Instr} (h : postFree is) : postFree is.tail :=
  postFree_sublist (List.tail_sublist _) h

theorem postFree_acts (acts : List Act) : postFree (acts.map .act) := by
  intro i hi
  obtain ⟨a, _, rfl⟩ := List.mem_map.mp hi
  rfl

theorem postFree_go (scr : Nat) (evs : List OutEv) (cur : List Str) (acc : List Instr) (h : postFree acc) :
    postFree (step.go scr evs cur acc) := by
  induction evs generalizing cur acc with
  | nil => unfold step.go; split <;> simp [h, Instr.post]
  | cons e es ih =>
    unfold step.go
    cases e with
    | line l => exact ih _ _ h
    | ask => apply ih; split <;> simp [h, Instr.post]

/-- with no `post` instruction and no `pre` instruction, the code delivers nothing -/
theorem Qc_eq_nil {k : Nat} {code : List Instr} (h1 : nPre k code = 0) (h2 : postFree code) : Qc k code = [] := by
  induction code with
  | nil => rfl
  | cons i is ih =>
    simp only [nPre_cons, Nat.add_eq_zero_iff, List.length_eq_zero_iff] at h1
    simp only [postFree_cons] at h2
    simp [Instr.lines, h1.1, h2.1, ih h1.2 h2.2]

/-! ### dispatching a successful `InputReadySignal` -/

theorem okReady_cls {s : Sig} (h : s.okReady = true) : s.cls = .inputReady := by
  simp [Sig.okReady] at h; exact h.1

/-- calling handler number `i` and going on with number `i + 1` delivers what `dispatch s i` delivers -/
theorem pre_dispatch {c0 c : Cfg} (hR : ReadyHandlers c0 c) {s : Sig} {i : Nat}
    {h : HRef} {d : Option Nat} (hg : (handlersOf c.L s.cls)[i]? = some (h, d)) :
    (Instr.callH h d s).pre (k0 c0) ++ (Instr.dispatch s (i + 1)).pre (k0 c0) = (Instr.dispatch s i).pre (k0 c0) := by
  by_cases hok : s.okReady = true
  · have hr := okReady_cls hok
    rw [hr, hR.eq] at hg
    have hk : (handlersOf c0.L .inputReady).length = k0 c0 := rfl
    by_cases hik : i < k0 c0
    · rw [List.getElem?_append_left (by rw [hk]; exact hik)] at hg
      have happ := hR.app _ (List.mem_of_getElem? hg)
      simp only at happ
      have : (Instr.callH h d s).pre (k0 c0) = [] := by
        cases h <;> first | rfl | cases happ
      have e1 : i ≤ k0 c0 + s.ih := by omega
      have e2 : i + 1 ≤ k0 c0 + s.ih := by omega
      rw [this]; simp [Instr.pre, hok, e1, e2]
    · obtain ⟨m, rfl⟩ : ∃ m, i = k0 c0 + m := ⟨i - k0 c0, by omega⟩
      rw [List.getElem?_append_right (by rw [hk]; omega), hk, Nat.add_sub_cancel_left] at hg
      have hlt : m < c.A.ihs.length := by
        have := (List.getElem?_eq_some_iff.mp hg).1
        simpa using this
      rw [List.getElem?_map, List.getElem?_range hlt] at hg
      simp only [Option.map_some, Option.some.injEq, Prod.mk.injEq] at hg
      obtain ⟨rfl, rfl⟩ := hg
      simp only [Instr.pre, hok, true_and]
      rcases Nat.lt_trichotomy s.ih m with h1 | h1 | h1
      · have a1 : ¬ s.ih = m := by omega
        have a2 : ¬ k0 c0 + m ≤ k0 c0 + s.ih := by omega
        have a3 : ¬ k0 c0 + m + 1 ≤ k0 c0 + s.ih := by omega
        simp [a1, a2, a3]
      · have a3 : ¬ k0 c0 + m + 1 ≤ k0 c0 + m := by omega
        simp [h1, a3]
      · have a1 : ¬ s.ih = m := by omega
        have a2 : k0 c0 + m ≤ k0 c0 + s.ih := by omega
        have a3 : k0 c0 + m + 1 ≤ k0 c0 + s.ih := by omega
        simp [a1, a2, a3]
  · have : (Instr.callH h d s).pre (k0 c0) = [] := by
      cases h <;> simp [Instr.pre, hok]
    rw [this]; simp [Instr.pre, hok]

theorem post_callH (h : HRef) (d : Option Nat) (s : Sig) : (Instr.callH h d s).post = [] := rfl
theorem post_dispatch (s : Sig) (i : Nat) : (Instr.dispatch s i).post = [] := rfl

theorem lines_dispatch {c0 c : Cfg} (hR : ReadyHandlers c0 c) {s : Sig} {i : Nat}
    {h : HRef} {d : Option Nat} (hg : (handlersOf c.L s.cls)[i]? = some (h, d)) :
    (Instr.callH h d s).lines (k0 c0) ++ (Instr.dispatch s (i + 1)).lines (k0 c0) = (Instr.dispatch s i).lines (k0 c0) := by
  simp only [Instr.lines, post_callH, post_dispatch, List.append_nil]
  exact pre_dispatch hR hg

theorem pre_dispatch_zero (k : Nat) (s : Sig) : (Instr.dispatch s 0).pre k = (Instr.processSignal s).pre k := by
  simp [Instr.pre]

theorem lines_dispatch_zero (k : Nat) (s : Sig) : (Instr.dispatch s 0).lines k = (Instr.processSignal s).lines k := by
  simp [Instr.lines, Instr.pre, Instr.post]

end Simpleline.InputOrder
