/-
  C06b: the link between the pending code and the history's dispatch depth. In every reachable configuration
  the number of successful `InputReadySignal`s the code is still carrying towards the handler of their
  `InputHandler` (`nPre`) is at most `readyDepth` of the history (needs `NoForge`/`UserHandlers` only through the
  shape of the handler table).
-/
import Simpleline.Lemmas.InputOrderCode
import Simpleline.Lemmas.InputOrderTrace

namespace Simpleline.InputOrder
open Input

/-! ### `readyDepth` is not affected by enqueues -/

theorem rd_enqEvent (c : Cfg) (s : Sig) (tr : List Tr) : readyDepth (enqEvent c s :: tr) = readyDepth tr := by
  unfold enqEvent; split <;> rfl

@[simp] theorem rd_enqueue (c : Cfg) (s : Sig) : readyDepth (c.enqueue s).tr = readyDepth c.tr := by
  rw [enqueue_tr, rd_enqEvent]

@[simp] theorem rd_redraw (c : Cfg) : readyDepth c.redraw.tr = readyDepth c.tr := by
  unfold Cfg.redraw; simp

@[simp] theorem rd_excEnq (c : Cfg) (src : Src) : readyDepth (excEnq c src).tr = readyDepth c.tr := by
  unfold excEnq; simp

@[simp] theorem rd_raise (c : Cfg) (k : Kind) : readyDepth (final (c.raise k)).tr = readyDepth c.tr := by
  obtain ⟨cT, hT, code', _, c1, h1, hf⟩ := raise_final c k
  rw [hf]; rcases hT with rfl | rfl <;> rcases h1 with rfl | ⟨src, rfl⟩ <;> simp [readyDepth]

theorem rd_deliver {c c' : Cfg} (h : c.deliver = some c') : readyDepth c'.tr = readyDepth c.tr := by
  obtain ⟨r, rs, _, rfl⟩ := deliver_eq h; simp

@[simp] theorem rd_emit (P : Prog) (c : Cfg) (e : Ev) : readyDepth (c.emit P e).tr = readyDepth c.tr := by
  rcases emit_cases P c e with h | h
  · rw [h]; rfl
  · rw [rd_deliver h]; rfl

/-! ### the invariant -/

def DepthOK (k : Nat) (c : Cfg) : Prop := nPre k c.code ≤ readyDepth c.tr

/-- the transition does not add to the code's `pre` lines and leaves the depth alone -/
def Dle (k : Nat) (c' c : Cfg) : Prop := nPre k c'.code ≤ nPre k c.code ∧ readyDepth c'.tr = readyDepth c.tr

theorem Dle_raise (k : Nat) (c : Cfg) (kd : Kind) : Dle k (final (c.raise kd)) c :=
  ⟨nPre_sublist (raise_code c kd), rd_raise c kd⟩

theorem DepthOK_of_Dle {k : Nat} {c c' : Cfg} (h : Dle k c' c) (hf : DepthOK k c) : DepthOK k c' := by
  unfold DepthOK at *; rw [h.2]; exact Nat.le_trans h.1 hf

macro "ord_dle_leaf" : tactic => `(tactic| first
    | (with_reducible exact Dle_raise _ _ _)
    | (unfold Dle; simp [Instr.pre, Cfg.newSig, nPre_acts, readyDepth]; done)
    | (unfold Dle; simp [Instr.pre, Cfg.newSig, nPre_acts, readyDepth]; omega))

theorem Dle_doAct (k : Nat) (c : Cfg) (a : Act) : Dle k (final (doAct c a)) c := by
  unfold doAct
  split <;> (try dsimp only) <;>
    first
    | ord_dle_leaf
    | (split <;> ord_dle_leaf)

theorem DepthOK_take {k : Nat} (c1 : Cfg) (f : Sig → List Instr)
    (hf : ∀ s, nPre k (f s) = (if s.okReady = true then 1 else 0)) (h : DepthOK k c1) :
    DepthOK k (final (do let x ← c1.take; pure (push x.2 (f x.1)))) := by
  obtain ⟨c2, h2, h3⟩ := take_cases c1
  have hc2 : c2.code = c1.code ∧ readyDepth c2.tr = readyDepth c1.tr := by
    rcases h2 with rfl | h2
    · exact ⟨rfl, rfl⟩
    · exact ⟨deliver_code h2, rd_deliver h2⟩
  obtain ⟨e1, e2⟩ := hc2
  unfold DepthOK at h ⊢
  rcases h3 with ⟨_, h3⟩ | ⟨e, es, he, h3⟩
  · rw [h3]
    show nPre k c2.code ≤ readyDepth c2.tr
    rw [e1, e2]; exact h
  · rw [h3]
    show nPre k (push (c2.pop e es) (f e.2.2)).code ≤ readyDepth (push (c2.pop e es) (f e.2.2)).tr
    simp only [push_code, pop_code, nPre_append, hf, e1, push_tr, pop_tr, readyDepth, e2]
    omega

theorem DepthOK_startRequest {k : Nat} (c : Cfg) (ih : Nat) (requester : Src) (text : Str) (h : DepthOK k c) :
    DepthOK k (final (startRequest c ih requester text)) := by
  rw [startRequest_eq]
  split
  · exact DepthOK_of_Dle (Dle_raise _ _ _) h
  · split <;> exact h

theorem DepthOK_inputReceived {k : Nat} (P : Prog) (c : Cfg) (s : Sig) (rest : List Instr)
    (hc : c.code = .inputReceived s :: rest) (h : DepthOK k c) : DepthOK k (final (step P c)) := by
  unfold DepthOK at h
  rw [hc] at h
  simp only [nPre_cons, Instr.pre, List.length_nil, Nat.zero_add] at h
  cases hst : c.A.inputStack.getLast? with
  | none =>
    rw [step_inputReceived_empty P c s rest hc (List.getLast?_eq_none_iff.mp hst)]
    exact DepthOK_of_Dle (Dle_raise _ _ _) h
  | some r =>
    obtain ⟨rs, hst'⟩ := List.getLast?_eq_some_iff.mp hst
    obtain ⟨c', h1, h2, h3, h4, h5, h6, h7⟩ := step_inputReceived P c s rest rs r hc hst'
    rw [h1, final_ok]
    have hT : c'.tr = (enqueueAll c (handoffSigs c.A.reqs rs r s.line (c.nextSid + 1))).tr := congrArg (·.2) h7
    unfold DepthOK
    rw [h3, hT]
    have key : ∀ (sigs : List Sig) (c : Cfg), readyDepth (enqueueAll c sigs).tr = readyDepth c.tr := by
      intro sigs
      induction sigs with
      | nil => intro c; rfl
      | cons x xs ih => intro c; rw [enqueueAll_cons, ih, rd_enqueue]
    rw [key]; exact h

macro "ord_dp_close" : tactic => `(tactic|
  (simp [DepthOK, Instr.pre, Cfg.newSig, nPre_acts, readyDepth] at * <;> omega))

macro "ord_dp_leaf" : tactic => `(tactic| first
    | ((with_reducible apply DepthOK_of_Dle (Dle_raise _ _ _)); ord_dp_close)
    | ord_dp_close)

theorem depth_step {c0 : Cfg} (P : Prog) (c : Cfg) (hR : ReadyHandlers c0 c) (hf : DepthOK (k0 c0) c) :
    DepthOK (k0 c0) (final (step P c)) := by
  by_cases hir : ∃ s rest, c.code = .inputReceived s :: rest
  · obtain ⟨s, rest, hcode⟩ := hir
    exact DepthOK_inputReceived P c s rest hcode hf
  have hir' : ∀ s rest, ¬ c.code = .inputReceived s :: rest := fun s rest h => hir ⟨s, rest, h⟩
  unfold step
  split
  · simpa using hf
  · rename_i ins rest hcode
    have hf' : (ins.pre (k0 c0)).length + nPre (k0 c0) rest ≤ readyDepth c.tr := by
      unfold DepthOK at hf; rw [hcode, nPre_cons] at hf; exact hf
    clear hf
    split
    all_goals try (exact absurd hcode (hir' _ _))
    all_goals clear hir hir'
    all_goals dsimp only
    all_goals try (ord_dp_leaf; done)
    all_goals try (first
      | ((with_reducible apply DepthOK_take (f := fun s => [Instr.processSignal s])) <;> ord_dp_close; done)
      | ((with_reducible refine DepthOK_of_Dle (Dle_doAct _ _ _) ?_); ord_dp_close))
    all_goals try (split <;> try (ord_dp_leaf; done))
    all_goals try (first
      | ((with_reducible apply DepthOK_take (f := fun s => [Instr.processSignal s, _])) <;> ord_dp_close; done))
    all_goals try (split <;> try (ord_dp_leaf; done))
    all_goals try (split <;> try (ord_dp_leaf; done))
    all_goals try (split <;> try (ord_dp_leaf; done))
    all_goals try ((with_reducible apply DepthOK_startRequest); simp [DepthOK, newIH, Instr.pre] at * <;> omega)
    -- getDispatch
    · refine DepthOK_take _ (fun s => [Instr.processSignal s]) (fun s => ?_) ?_
      · simp only [nPre_cons, nPre_nil, Instr.pre]; split <;> rfl
      · simpa [DepthOK, Instr.pre] using hf'
    -- dispatch
    · have := congrArg List.length (pre_dispatch hR ‹_›)
      simp only [List.length_append] at this
      simp only [DepthOK, final_ok, push_code, List.cons_append, List.nil_append, nPre_cons, push_tr]
      have e : (Instr.pre (k0 c0) Instr.catchHandler).length = 0 := rfl
      omega
    -- callH (.ih n)
    · rename_i d s _ n
      simp only [DepthOK, final_ok, push_code, List.cons_append, List.nil_append, nPre_cons, push_tr, trace_tr,
        trace_code, readyDepth]
      simp only [Instr.pre, List.length_nil] at hf' ⊢
      by_cases hl : s.okReady = true ∧ s.ih = n <;> simp [hl] at hf' ⊢ <;> omega
    -- waitStep
    · refine DepthOK_take _ (fun s => [Instr.processSignal s, _]) (fun s => ?_) ?_
      · simp only [nPre_cons, nPre_nil, Instr.pre]; split <;> rfl
      · simpa [DepthOK, Instr.pre] using hf'
    -- procIter
    · simp only [DepthOK, final_ok, push_code, List.cons_append, List.nil_append, nPre_cons, push_tr, readyDepth]
      simp only [Instr.pre, List.length_nil] at hf' ⊢
      split <;> simp <;> omega
    · simp only [DepthOK, final_ok, push_code, List.cons_append, List.nil_append, nPre_cons, push_tr, readyDepth]
      simp only [Instr.pre, List.length_nil] at hf' ⊢
      split <;> simp <;> omega
    -- identCheck
    · simp only [Instr.pre, List.length_nil, Nat.zero_add] at hf'
      exact Nat.le_trans (nPre_sublist (List.dropWhile_sublist _)) hf'
    -- printWidget
    · simp only [Instr.pre, List.length_nil, Nat.zero_add] at hf'
      simp only [DepthOK, final_ok, push_code, nPre_append, nPre_go _ _ _ _ _ (nPre_nil _), push_tr]
      omega

theorem depth_reach {P : Prog} {c0 c : Cfg} (h0 : Started c0) (hU : UserHandlers c0) (h : Reach P c0 c) :
    DepthOK (k0 c0) c := by
  refine reach_induction (I := DepthOK (k0 c0)) ?_ ?_ ?_ h
  · obtain ⟨i, hs, q, sin, rfl⟩ := h0
    simp [DepthOK, initCfg, nPre_acts, Instr.pre, readyDepth]
  · intro c hr hi
    exact depth_step P c (readyHandlers_reach h0 hU hr) hi
  · intro c c' _ hi hd
    unfold DepthOK at hi ⊢
    rw [deliver_code hd, rd_deliver hd]; exact hi

end Simpleline.InputOrder
