/-
  C06b: `OrdInv` in every reachable configuration whose history satisfies `NoReadyCovered` and
  `NoReadyReentry`; the order theorem; positions made explicit.
-/
import Simpleline.Lemmas.InputOrderStep
import Simpleline.Lemmas.InputOrderSigStep
import Simpleline.Lemmas.InputOrderView

namespace Simpleline.InputOrder
open Input

theorem ordInv_init {c0 : Cfg} (h0 : Started c0) : OrdInv (k0 c0) c0 := by
  obtain ⟨i, hs, q, sin, rfl⟩ := h0
  unfold OrdInv ordL
  simp [initCfg, Qc_acts, Instr.lines, Instr.pre, Instr.post, readyQ, flyL, inputLines, readLines]

theorem trans_suffix {P : Prog} {c c' : Cfg} (ht : Trans P c c') : ∃ new, c'.tr = new ++ c.tr :=
  eff_tr (trans_eff ht)

theorem ordInv_trans_step {P : Prog} {c0 c c' : Cfg} (h0 : Started c0) (hU : UserHandlers c0) (hF : NoForge P c0)
    (hr : Reach P c0 c) (hfin : final (step P c) = c') (ht : Trans P c c') (ih : OrdInv (k0 c0) c)
    (hN1 : NoReadyCovered c'.tr) (hN2 : NoReadyReentry c'.tr ∨ TakeQuiet (k0 c0) c) : OrdInv (k0 c0) c' := by
  obtain ⟨new, hnew⟩ := trans_suffix ht
  have hN1c : NoReadyCovered c.tr := noReadyCovered_suffix (hnew ▸ hN1)
  rw [← hfin] at hN1 hN2 ⊢
  exact ord_step P c (cleanCode_reach h0 hU hF hr) (readyHandlers_reach h0 hU hr) (depth_reach h0 hU hr)
    (postTop_reach h0 hr) (covered_no_ready h0 hr hN1c) (inputInv_reach h0 hU hF hr) (lastInv_reach h0 hU hF hr)
    (WF.reach h0 hr) (levOK_reach h0 hr) hN1 hN2 ih

theorem ordInv_reach {P : Prog} {c0 c : Cfg} (h0 : Started c0) (hU : UserHandlers c0) (hF : NoForge P c0)
    (hr : Reach P c0 c) : NoReadyCovered c.tr → NoReadyReentry c.tr → OrdInv (k0 c0) c := by
  induction hr with
  | init => intro _ _; exact ordInv_init h0
  | @step c c' hr hs ih =>
    intro hN1 hN2
    obtain ⟨new, hnew⟩ := trans_suffix (.step hs)
    exact ordInv_trans_step h0 hU hF hr (by rw [hs]; rfl) (.step hs)
      (ih (noReadyCovered_suffix (hnew ▸ hN1)) (noReadyReentry_suffix (hnew ▸ hN2))) hN1 (.inl hN2)
  | @deliver c c' hr hd ih =>
    intro hN1 hN2
    obtain ⟨new, hnew⟩ := trans_suffix (P := P) (.deliver hd)
    exact OrdInv_deliver (ih (noReadyCovered_suffix (hnew ▸ hN1)) (noReadyReentry_suffix (hnew ▸ hN2))) hd
  | @halt c c' o hr hs ih =>
    intro hN1 hN2
    obtain ⟨new, hnew⟩ := trans_suffix (.halt hs)
    exact ordInv_trans_step h0 hU hF hr (by rw [hs]; rfl) (.halt hs)
      (ih (noReadyCovered_suffix (hnew ▸ hN1)) (noReadyReentry_suffix (hnew ▸ hN2))) hN1 (.inl hN2)

/-- the same, with the static alternative `TakeQuiet` (for all reachable configurations) in place of
`NoReadyReentry` -/
theorem ordInv_reach_static {P : Prog} {c0 c : Cfg} (h0 : Started c0) (hU : UserHandlers c0) (hF : NoForge P c0)
    (hT : ∀ c, Reach P c0 c → TakeQuiet (k0 c0) c) (hr : Reach P c0 c) :
    NoReadyCovered c.tr → OrdInv (k0 c0) c := by
  induction hr with
  | init => intro _; exact ordInv_init h0
  | @step c c' hr hs ih =>
    intro hN1
    obtain ⟨new, hnew⟩ := trans_suffix (.step hs)
    exact ordInv_trans_step h0 hU hF hr (by rw [hs]; rfl) (.step hs)
      (ih (noReadyCovered_suffix (hnew ▸ hN1))) hN1 (.inr (hT c hr))
  | @deliver c c' hr hd ih =>
    intro hN1
    obtain ⟨new, hnew⟩ := trans_suffix (P := P) (.deliver hd)
    exact OrdInv_deliver (ih (noReadyCovered_suffix (hnew ▸ hN1))) hd
  | @halt c c' o hr hs ih =>
    intro hN1
    obtain ⟨new, hnew⟩ := trans_suffix (.halt hs)
    exact ordInv_trans_step h0 hU hF hr (by rw [hs]; rfl) (.halt hs)
      (ih (noReadyCovered_suffix (hnew ▸ hN1))) hN1 (.inr (hT c hr))

/-- the order theorem -/
theorem order_reach {P : Prog} {c0 c : Cfg} (h0 : Started c0) (hU : UserHandlers c0) (hF : NoForge P c0)
    (hr : Reach P c0 c) (hN1 : NoReadyCovered c.tr) (hN2 : NoReadyReentry c.tr) :
    (inputLines c.log).Sublist (readLines c.log) := by
  have := ordInv_reach h0 hU hF hr hN1 hN2
  unfold OrdInv ordL at this
  exact (List.sublist_append_left _ _).trans this

/-! ### positions -/

theorem embedsAt_of_sublist {α} {l₁ l₂ : List α} (h : l₁.Sublist l₂) : ∃ f, EmbedsAt f l₁ l₂ := by
  induction h with
  | slnil => exact ⟨id, ⟨fun i j _ hj => (by cases hj), fun k hk => (by cases hk)⟩⟩
  | @cons l₁ l₂ a _ ih =>
    obtain ⟨f, h1, h2⟩ := ih
    refine ⟨fun k => f k + 1, fun i j hij hj => Nat.succ_lt_succ (h1 i j hij hj), fun k hk => ?_⟩
    obtain ⟨h3, h4⟩ := h2 k hk
    exact ⟨by simp; omega, by simpa using h4⟩
  | @cons_cons l₁ l₂ a _ ih =>
    obtain ⟨f, h1, h2⟩ := ih
    refine ⟨fun k => match k with | 0 => 0 | k + 1 => f k + 1, ?_, ?_⟩
    · intro i j hij hj
      cases j with
      | zero => omega
      | succ j =>
        cases i with
        | zero => simp
        | succ i =>
          simp only [List.length_cons] at hj
          exact Nat.succ_lt_succ (h1 i j (by omega) (by omega))
    · intro k hk
      cases k with
      | zero => simp
      | succ k =>
        simp only [List.length_cons] at hk
        obtain ⟨h3, h4⟩ := h2 k (by omega)
        exact ⟨by simp; omega, by simpa using h4⟩

end Simpleline.InputOrder

namespace Simpleline.InputOrder
open Input

/-- the delivered lines are typed lines at strictly increasing positions of the console input -/
theorem order_positions {P : Prog} {c0 c : Cfg} (h0 : Started c0) (hU : UserHandlers c0) (hF : NoForge P c0)
    (hr : Reach P c0 c) (hN1 : NoReadyCovered c.tr) (hN2 : NoReadyReentry c.tr) :
    ∃ f : Nat → Nat, (∀ i j, i < j → j < (inputLines c.log).length → f i < f j) ∧
      ∀ k, k < (inputLines c.log).length →
        f k < (readLines c.log).length ∧ (inputLines c.log)[k]? = some (c0.A.stdin.getD (f k) []) := by
  obtain ⟨f, h1, h2⟩ := embedsAt_of_sublist (order_reach h0 hU hF hr hN1 hN2)
  refine ⟨f, h1, fun k hk => ?_⟩
  obtain ⟨h3, h4⟩ := h2 k hk
  refine ⟨h3, ?_⟩
  rw [h4]
  have hro := (readOrder_reach h0 hr).1
  generalize hn : (readLines c.log).length = n at hro h3
  rw [hro, List.getElem?_map, List.getElem?_range h3]
  rfl

/-- the successful `InputReadySignal`s of a queue, spec-level spelling -/
theorem readyQ_eq (c : Cfg) (q : Nat) :
    readyQ c.L.queues q = ((c.queue q).sigs.filter Sig.okReady).map (·.line) := by
  unfold readyQ readyL Cfg.queue EQueue.sigs
  rw [List.filter_map, List.map_map]
  rfl

/-- delivered lines, then the lines waiting in the active queue: still in the order read -/
theorem pending_order_reach {P : Prog} {c0 c : Cfg} (h0 : Started c0) (hU : UserHandlers c0) (hF : NoForge P c0)
    (hr : Reach P c0 c) (hN1 : NoReadyCovered c.tr) (hN2 : NoReadyReentry c.tr) :
    (inputLines c.log ++ ((c.queue c.L.active).sigs.filter Sig.okReady).map (·.line)).Sublist (readLines c.log) := by
  have := ordInv_reach h0 hU hF hr hN1 hN2
  unfold OrdInv ordL at this
  rw [← readyQ_eq]
  refine List.Sublist.trans ?_ this
  refine (List.Sublist.refl _).append ?_
  exact (List.sublist_append_left _ _).trans (List.sublist_append_right _ _)

end Simpleline.InputOrder
