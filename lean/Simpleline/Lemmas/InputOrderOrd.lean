/-
  C06b: the order invariant `OrdInv`. The lines already handed to `input` callbacks, then the lines the pending
  code is about to hand over, then the lines of the successful `InputReadySignal`s waiting in the active queue
  (in queue order), then the line still on its way to the hand-off — in this order they form a subsequence of
  the lines read. This file: the invariant and what the primitive operations do to it.
-/
import Simpleline.Lemmas.InputOrderQueue
import Simpleline.Lemmas.InputOrderCode
import Simpleline.Lemmas.InputOrderLink
import Simpleline.Lemmas.InputOrderPost
import Simpleline.Lemmas.InputHandoff
import Simpleline.Lemmas.LoopWF

namespace Simpleline.InputOrder
open Input

/-- the line between the console and the hand-off (if the subsystem is busy and no reader thread is waiting, the
line read last may still be on its way) -/
def flyL (processing : Bool) (readers : List Nat) (log : List Ev) : List Str :=
  if processing = true ∧ readers = [] then (lastL log).toList else []

def ordL (k : Nat) (c : Cfg) : List Str :=
  inputLines c.log ++ (Qc k c.code ++ (readyQ c.L.queues c.L.active ++ flyL c.A.processing c.A.readers c.log))

def OrdInv (k : Nat) (c : Cfg) : Prop := (ordL k c).Sublist (readLines c.log)

theorem flyL_cons (p : Bool) (rs : List Nat) (e : Ev) (log : List Ev) (h : e.isRead = false) :
    flyL p rs (e :: log) = flyL p rs log := by
  unfold flyL; rw [lastL_cons _ _ h]

theorem flyL_sub_read (p : Bool) (rs : List Nat) (l : Str) (log : List Ev) : (flyL p rs (.read l :: log)).Sublist [l] := by
  unfold flyL; rw [lastL_cons_read]; split <;> simp

theorem inputLines_cons_read (l : Str) (log : List Ev) : inputLines (.read l :: log) = inputLines log := by
  rw [inputLines_cons]; simp [Ev.inputLine?]

theorem sub_drop_last {D K Q F R : List Str} (h : (D ++ (K ++ (Q ++ F))).Sublist R) : (D ++ (K ++ Q)).Sublist R := by
  refine List.Sublist.trans ?_ h
  refine (List.Sublist.refl D).append ((List.Sublist.refl K).append ?_)
  exact List.sublist_append_left Q F

/-! ### the reader thread delivers -/

theorem ord_deliver {c c' : Cfg} (K : List Str)
    (h : (inputLines c.log ++ (K ++ (readyQ c.L.queues c.L.active ++ flyL c.A.processing c.A.readers c.log))).Sublist
      (readLines c.log)) (hd : c.deliver = some c') :
    (inputLines c'.log ++ (K ++ (readyQ c'.L.queues c'.L.active ++ flyL c'.A.processing c'.A.readers c'.log))).Sublist
      (readLines c'.log) := by
  obtain ⟨r, rs, hr, rfl⟩ := deliver_eq hd
  simp only [enqueue_log, enqueue_A, enqueue_active, inputLines_cons_read, readLines_cons_read]
  rw [readyQ_enqueue _ _ _ rfl]
  have h' := sub_drop_last h
  have := h'.append (flyL_sub_read c.A.processing rs (c.A.stdin.headD []) c.log)
  simpa [List.append_assoc] using this

theorem OrdInv_deliver {k : Nat} {c c' : Cfg} (h : OrdInv k c) (hd : c.deliver = some c') : OrdInv k c' := by
  unfold OrdInv ordL at *
  rw [Input.deliver_code hd]
  exact ord_deliver _ h hd

/-- logging an event: the `input` callback it reports, if any, moves from "about to happen" to "happened" -/
theorem ord_emit (P : Prog) (X : Cfg) (e : Ev) (K : List Str) (he : e.isRead = false)
    (h : (inputLines X.log ++ (e.inputLine?.toList ++ (K ++ (readyQ X.L.queues X.L.active ++
      flyL X.A.processing X.A.readers X.log)))).Sublist (readLines X.log)) :
    (inputLines (X.emit P e).log ++ (K ++ (readyQ (X.emit P e).L.queues (X.emit P e).L.active ++
      flyL (X.emit P e).A.processing (X.emit P e).A.readers (X.emit P e).log))).Sublist (readLines (X.emit P e).log) := by
  have h0 : (inputLines (emit0 X e).log ++ (K ++ (readyQ (emit0 X e).L.queues (emit0 X e).L.active ++
      flyL (emit0 X e).A.processing (emit0 X e).A.readers (emit0 X e).log))).Sublist (readLines (emit0 X e).log) := by
    simp only [emit0_log, emit0_L, emit0_A, inputLines_cons, readLines_cons _ _ he, flyL_cons _ _ _ _ he,
      List.append_assoc]
    exact h
  rcases emit_cases P X e with h1 | h1
  · rw [h1]; exact h0
  · exact ord_deliver K h0 h1

/-! ### quiet transitions -/

/-- nothing is logged, the code loses lines at most, the active queue's successful signals and the reader state
stay -/
def OrdLe (k : Nat) (c' c : Cfg) : Prop :=
  c'.log = c.log ∧ (Qc k c'.code).Sublist (Qc k c.code) ∧
    readyQ c'.L.queues c'.L.active = readyQ c.L.queues c.L.active ∧
    c'.A.processing = c.A.processing ∧ c'.A.readers = c.A.readers

theorem OrdInv_of_Le {k : Nat} {c c' : Cfg} (h : OrdLe k c' c) (hf : OrdInv k c) : OrdInv k c' := by
  obtain ⟨h1, h2, h3, h4, h5⟩ := h
  unfold OrdInv ordL at *
  rw [h1, h3, h4, h5]
  refine List.Sublist.trans ?_ hf
  exact (List.Sublist.refl _).append (h2.append (List.Sublist.refl _))

theorem OrdLe_raise (k : Nat) (c : Cfg) (kd : Kind) : OrdLe k (final (c.raise kd)) c :=
  ⟨raise_log c kd, Qc_sublist (raise_code c kd), raise_readyQ c kd, by rw [raise_A], by rw [raise_A]⟩

theorem OrdLe_trans {k : Nat} {a b c : Cfg} (h1 : OrdLe k a b) (h2 : OrdLe k b c) : OrdLe k a c :=
  ⟨h1.1.trans h2.1, h1.2.1.trans h2.2.1, h1.2.2.1.trans h2.2.2.1, h1.2.2.2.1.trans h2.2.2.2.1,
    h1.2.2.2.2.trans h2.2.2.2.2⟩

macro "ord_le_leaf" : tactic => `(tactic| first
    | (with_reducible exact OrdLe_raise _ _ _)
    | (unfold OrdLe; simp [Instr.lines, Instr.pre, Instr.post, readyQ_enqueue, Sig.okReady, Cfg.newSig, Qc_acts,
        Cfg.write, Cfg.trace]; done))

theorem OrdLe_doAct (k : Nat) (c : Cfg) (a : Act) (ha : a.forges = false) : OrdLe k (final (doAct c a)) c := by
  unfold doAct
  split <;> (try dsimp only) <;>
    first
    | ord_le_leaf
    | (split <;> ord_le_leaf)
    | skip
  · rename_i cls prio src sid
    simp only [Act.forges] at ha
    have : ({ id := sid, cls := cls, prio := prio, src := src } : Sig).okReady = false := by
      apply okReady_of_cls
      intro h; simp only at h; rw [h] at ha; cases ha
    unfold OrdLe
    simp [readyQ_enqueue _ _ _ this]

theorem OrdInv_startRequest {k : Nat} (c : Cfg) (ih : Nat) (requester : Src) (text : Str) (h : OrdInv k c) :
    OrdInv k (final (startRequest c ih requester text)) := by
  rw [startRequest_eq]
  split
  · refine OrdInv_of_Le (OrdLe_raise _ _ _) ?_
    exact h
  · split
    · rename_i hp
      unfold OrdInv ordL at *
      simpa [reqRecorded, Cfg.write, hp] using h
    · rename_i hp
      have hp' : c.A.processing = false := by simpa using hp
      unfold OrdInv ordL at *
      simp only [final_ok, Cfg.write, reqRecorded]
      have e1 : flyL c.A.processing c.A.readers c.log = [] := by simp [flyL, hp']
      have e2 : flyL true (c.A.readers ++ [c.A.reqs.length]) c.log = [] := by simp [flyL]
      rw [e1] at h
      rw [e2]; exact h

/-! ### taking a signal for dispatch -/

theorem Qc_nil_of_take {k : Nat} {c1 c2 : Cfg} {q : Nat} {s : Sig} {X : List Tr}
    (hN : NoReadyReentry (.take q s :: c2.tr)) (hs : s.okReady = true)
    (h2 : c2 = c1 ∨ c1.deliver = some c2) (hD : DepthOK k c1) (hP : postFree c1.code) (_ : X = c2.tr) :
    Qc k c1.code = [] := by
  have h0 := readyDepth_zero_of_take hN hs
  have : readyDepth c1.tr = 0 := by
    rcases h2 with rfl | h2
    · exact h0
    · rw [← rd_deliver h2]; exact h0
  unfold DepthOK at hD
  exact Qc_eq_nil (by omega) hP

theorem OrdInv_take {k : Nat} (c1 : Cfg) (f : Sig → List Instr)
    (hf : ∀ s, Qc k (f s) = (if s.okReady = true then [s.line] else []))
    (hN : NoReadyReentry (final (do let x ← c1.take; pure (push x.2 (f x.1)))).tr ∨ nPre k c1.code = 0)
    (hD : DepthOK k c1) (hP : postFree c1.code) (h : OrdInv k c1) :
    OrdInv k (final (do let x ← c1.take; pure (push x.2 (f x.1)))) := by
  obtain ⟨c2, h2, h3⟩ := Input.take_cases c1
  have hc2 : OrdInv k c2 := by
    rcases h2 with rfl | h2
    · exact h
    · exact OrdInv_deliver h h2
  have hcode : c2.code = c1.code := by
    rcases h2 with rfl | h2
    · rfl
    · exact Input.deliver_code h2
  rcases h3 with ⟨_, h3⟩ | ⟨e, es, he, h3⟩
  · rw [h3]; exact hc2
  · rw [h3] at hN ⊢
    have hN' : NoReadyReentry (.take c2.L.active e.2.2 :: c2.tr) ∨ nPre k c1.code = 0 := hN
    show OrdInv k (push (c2.pop e es) (f e.2.2))
    unfold OrdInv ordL at hc2 ⊢
    simp only [push_log, pop_log, push_code, pop_code, Qc_append, hf, push_L, push_A, pop_A]
    have hq : readyQ (c2.pop e es).L.queues (c2.pop e es).L.active = readyL es := readyQ_pop he
    rw [hq]
    rw [readyQ_of_activeQ he, hcode] at hc2
    rw [hcode]
    by_cases hs : e.2.2.okReady = true
    · have : Qc k c1.code = [] := by
        rcases hN' with hN' | hN'
        · exact Qc_nil_of_take hN' hs h2 hD hP rfl
        · exact Qc_eq_nil hN' hP
      simp only [hs, if_true, this, List.append_nil, List.nil_append] at hc2 ⊢
      simpa [List.append_assoc] using hc2
    · simp only [hs] at hc2 ⊢
      simpa using hc2

end Simpleline.InputOrder

namespace Simpleline.InputOrder
open Input

/-! ### the hand-off -/

theorem enqueueAll_readyQ (sigs : List Sig) (c : Cfg) (a : Nat) (hs : ∀ s ∈ sigs, s.okReady = false) :
    readyQ (enqueueAll c sigs).L.queues a = readyQ c.L.queues a := by
  induction sigs generalizing c with
  | nil => rfl
  | cons s ss ih =>
    rw [enqueueAll_cons, ih _ (fun x hx => hs x (List.mem_cons_of_mem _ hx)),
      readyQ_enqueue _ _ _ (hs s List.mem_cons_self)]

theorem failSigs_not_ok (reqs : List Request) (ts : List Nat) (sid : Nat) :
    ∀ x ∈ failSigs reqs ts sid, x.okReady = false := by
  intro x hx
  have := failSigs_all reqs ts sid x hx
  simp [Sig.okReady, this.2.2.1]

theorem getLast_of_mem_not_dropLast {l : List Nat} {x : Nat} (h : x ∈ l) (h' : x ∉ l.dropLast) :
    l.getLast? = some x := by
  cases hl : l.getLast? with
  | none => rw [List.getLast?_eq_none_iff] at hl; subst hl; cases h
  | some y =>
    obtain ⟨ys, rfl⟩ := List.getLast?_eq_some_iff.mp hl
    simp only [List.dropLast_concat] at h'
    simp only [List.mem_append, List.mem_singleton] at h
    rcases h with h | h
    · exact absurd h h'
    · rw [h]

/-- under `NoReadyCovered` the successful signal of a hand-off goes into the active queue -/
theorem route_active_of_covered {c : Cfg} {s : Sig} (hW : WF c.view) (hlev : levelsOf c.tr = c.L.levels)
    (hs : s.okReady = true) (hN : coveredFree (.enq (c.L.route s.src) s :: c.tr)) : c.L.route s.src = c.L.active := by
  rcases route_mem c.view s.src with hm | hm
  · have hm' : c.L.route s.src ∈ c.L.levels := hm
    have hnd : c.L.route s.src ∉ c.L.levels.dropLast := by
      intro hd
      have := hN (c.L.route s.src) (by simpa [levelsOf, hlev] using hd)
      simp [readyPending, hs] at this
    have hl := getLast_of_mem_not_dropLast hm' hnd
    rcases hW.top with ht | ht
    · have ht' : c.L.levels.getLast? = some c.L.active := ht
      rw [hl] at ht'; exact Option.some.inj ht'
    · have ht' : c.L.levels = [] := ht
      rw [ht'] at hm'; cases hm'
  · exact hm

theorem getD_mem_of_lt {l : List EQueue} {i : Nat} (h : i < l.length) : l.getD i {} ∈ l := by
  rw [List.getD_eq_getElem?_getD, List.getElem?_eq_getElem h]
  exact List.getElem_mem _

theorem lines_inputReceived (k : Nat) (s : Sig) : (Instr.inputReceived s).lines k = [] := rfl

theorem OrdInv_inputReceived {k : Nat} {c0 : Cfg} (P : Prog) (c : Cfg) (s : Sig) (rest : List Instr)
    (hc : c.code = .inputReceived s :: rest) (hI : InputInv c0 c) (hL : LastInv c) (hW : WF c.view)
    (hlev : levelsOf c.tr = c.L.levels) (hN : NoReadyCovered (final (step P c)).tr) (h : OrdInv k c) :
    OrdInv k (final (step P c)) := by
  have h' : OrdInv k { c with code := rest } := by
    unfold OrdInv ordL at h ⊢
    rw [hc, Qc_cons, lines_inputReceived] at h
    exact h
  cases hst : c.A.inputStack.getLast? with
  | none =>
    rw [step_inputReceived_empty P c s rest hc (List.getLast?_eq_none_iff.mp hst)]
    exact OrdInv_of_Le (OrdLe_raise _ _ _) h'
  | some r =>
    obtain ⟨rs, hst'⟩ := List.getLast?_eq_some_iff.mp hst
    obtain ⟨c', h1, h2, h3, h4, h5, h6, h7⟩ := step_inputReceived P c s rest rs r hc hst'
    rw [h1, final_ok] at hN ⊢
    have hLq : c'.L = (enqueueAll c (handoffSigs c.A.reqs rs r s.line (c.nextSid + 1))).L := congrArg (·.1) h7
    have hT : c'.tr = (enqueueAll c (handoffSigs c.A.reqs rs r s.line (c.nextSid + 1))).tr := congrArg (·.2) h7
    -- the reader state before the hand-off
    have hfl := hI.one_flight
    unfold inFlight at hfl
    rw [hc] at hfl
    simp only [irCode_cons, Instr.irPending] at hfl
    have hrd : c.A.readers = [] := List.length_eq_zero_iff.mp (by omega)
    have hpr : c.A.processing = true := by
      apply hI.flight_processing
      unfold inFlight
      rw [hc]
      simp only [irCode_cons, Instr.irPending]
      omega
    have hlast : lastL c.log = some s.line := by
      have := hL.code
      rw [hc, codeL_cons] at this
      exact this.1 s rfl
    have hfly : flyL c.A.processing c.A.readers c.log = [s.line] := by simp [flyL, hpr, hrd, hlast]
    -- the queues after the hand-off
    have hokr : (okSig c.A.reqs r s.line (c.nextSid + 1)).okReady = true := rfl
    have hq : readyQ c'.L.queues c'.L.active =
        readyQ (c.enqueue (okSig c.A.reqs r s.line (c.nextSid + 1))).L.queues c.L.active := by
      rw [hLq]
      simp only [handoffSigs, enqueueAll_cons, enqueueAll_active, enqueue_active]
      exact enqueueAll_readyQ _ _ _ (failSigs_not_ok _ _ _)
    unfold OrdInv ordL at h' ⊢
    simp only at h'
    rw [h4, h3, hq, h2]
    have e2 : flyL false c.A.readers c.log = [] := by simp [flyL]
    simp only [e2, List.append_nil]
    rw [hfly] at h'
    by_cases hf : c.L.forceQuit = true
    · rw [enqueue_queues, if_pos hf]
      refine List.Sublist.trans ?_ h'
      exact (List.Sublist.refl _).append ((List.Sublist.refl _).append (List.sublist_append_left _ _))
    · have hf' : c.L.forceQuit = false := by simpa using hf
      -- where the successful signal goes
      have hcov : coveredFree (.enq (c.L.route (okSig c.A.reqs r s.line (c.nextSid + 1)).src)
          (okSig c.A.reqs r s.line (c.nextSid + 1)) :: c.tr) := by
        rw [hT] at hN
        simp only [handoffSigs, enqueueAll_tr, List.map_cons, List.reverse_cons, List.append_assoc,
          List.singleton_append] at hN
        have := noReadyCovered_suffix hN
        have h0 := this.1
        simpa [enqEvent, hf'] using h0
      have hroute := route_active_of_covered hW hlev hokr hcov
      rw [enqueue_queues, if_neg hf, hroute, readyQ_listSet, if_pos ⟨rfl, hW.active_lt⟩]
      have hS : (c.L.queues.getD c.L.active {}).Sorted := hW.sorted c.L.active
      have hprio : ∀ e ∈ (c.L.queues.getD c.L.active {}).entries, e.2.2.okReady = true → e.2.2.prio = 0 := by
        intro e he ho
        have hm : c.L.queues.getD c.L.active {} ∈ c.L.queues := getD_mem_of_lt hW.active_lt
        exact (hL.q _ hm e he).2 (okReady_cls ho)
      rw [readyL_put hS hokr rfl hprio]
      exact h'
end Simpleline.InputOrder
