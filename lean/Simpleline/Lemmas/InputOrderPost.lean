/-
  C06b: the instructions that hand a typed line to the `input` callback (`inputReady` for the signal's own
  handler, `processInput`, the callback itself) are executed as soon as they are pushed: they only ever occur
  at the head of the pending code (`PostTop`, for every program).
-/
import Simpleline.Lemmas.InputOrderCode

namespace Simpleline.InputOrder
open Input

def PostTop (c : Cfg) : Prop := postFree c.code.tail

theorem postFree_raise {c : Cfg} (k : Kind) (h : postFree c.code) : postFree (final (c.raise k)).code :=
  postFree_sublist (raise_code c k) h

theorem postFree_take {c1 : Cfg} (f : Sig → List Instr) (h : postFree c1.code) (hf : ∀ s, postFree (f s)) :
    postFree (final (do let x ← c1.take; pure (push x.2 (f x.1)))).code := by
  obtain ⟨c2, h2, h3⟩ := take_cases c1
  have hc2 : c2.code = c1.code := by
    rcases h2 with rfl | h2
    · rfl
    · exact deliver_code h2
  rcases h3 with ⟨_, h3⟩ | ⟨e, es, _, h3⟩
  · rw [h3]; show postFree c2.code; rw [hc2]; exact h
  · rw [h3]
    show postFree (push (c2.pop e es) (f e.2.2)).code
    simp [hc2, h, hf]

theorem doAct_postFree (c : Cfg) (a : Act) (h : postFree c.code) : postFree (final (doAct c a)).code := by
  unfold doAct
  split <;> (try dsimp only) <;>
    first
    | exact postFree_raise _ h
    | (simp [Instr.post, h]; done)
    | (split <;> first | exact postFree_raise _ h | (simp [h]; done))

theorem startRequest_postFree (c : Cfg) (ih : Nat) (requester : Src) (text : Str) (h : postFree c.code) :
    postFree (final (startRequest c ih requester text)).code := by
  rw [startRequest_eq]
  split
  · exact postFree_raise _ h
  · split <;> simpa using h

/-- the whole new code is free of `post` instructions -/
macro "ord_pf_all" : tactic => `(tactic| first
    | (apply postFree_raise; simp [*, Instr.post]; done)
    | (simp [*, Instr.post, Cfg.newSig, postFree_acts]; done)
    | (apply postFree_take (f := fun s => [Instr.processSignal s]) <;> simp [*, Instr.post]; done)
    | (apply postFree_take (f := fun s => [Instr.processSignal s, _]) <;> simp [*, Instr.post]; done)
    | (apply doAct_postFree; simp [*, Instr.post]; done)
    | (apply startRequest_postFree; simp [*, Instr.post, newIH]; done))

macro "ord_pt_leaf" : tactic => `(tactic| first
    | (apply postFree_tail; ord_pf_all; done)
    | (simp [*, Instr.post, postFree_tail]; done))

theorem postTop_step (P : Prog) (c : Cfg) (hc : PostTop c) : PostTop (final (step P c)) := by
  unfold PostTop at *
  by_cases hir : ∃ s rest, c.code = .inputReceived s :: rest
  · obtain ⟨s, rest, hcode⟩ := hir
    rw [hcode] at hc
    exact postFree_tail (postFree_sublist (inputReceived_code P c s rest hcode) hc)
  have hir' : ∀ s rest, ¬ c.code = .inputReceived s :: rest := fun s rest h => hir ⟨s, rest, h⟩
  unfold step
  split
  · rename_i h; simp [h]
  · rename_i ins rest hcode
    rw [hcode] at hc
    simp only [List.tail_cons] at hc
    split
    all_goals try (exact absurd hcode (hir' _ _))
    all_goals clear hir hir'
    all_goals dsimp only
    all_goals try simp only [final_ok]
    all_goals try (ord_pt_leaf; done)
    all_goals try (split <;> (try simp only [final_ok]) <;> try (ord_pt_leaf; done))
    all_goals try (split <;> (try simp only [final_ok]) <;> try (ord_pt_leaf; done))
    all_goals try (split <;> (try simp only [final_ok]) <;> try (ord_pt_leaf; done))
    all_goals try (split <;> (try simp only [final_ok]) <;> try (ord_pt_leaf; done))
    -- identCheck
    · exact postFree_tail (postFree_sublist (List.dropWhile_sublist _) hc)
    -- printWidget
    · apply postFree_tail
      simp [hc, postFree_go]

theorem postTop_reach {P : Prog} {c0 c : Cfg} (h0 : Started c0) (h : Reach P c0 c) : PostTop c := by
  refine reach_induction (I := PostTop) ?_ ?_ ?_ h
  · obtain ⟨i, hs, q, sin, rfl⟩ := h0
    unfold PostTop
    apply postFree_tail
    simp [initCfg, postFree_acts, Instr.post]
  · intro c _ hi
    exact postTop_step P c hi
  · intro c c' _ hi hd
    unfold PostTop at *
    rw [deliver_code hd]; exact hi

end Simpleline.InputOrder
