/-
  C06b: the successful `InputReadySignal`s waiting in the active queue, in queue order (`readyQ`), and what
  `put`, `take`, opening a level and registering a source do to that list. A priority-0 signal enqueued into a
  well-formed queue in which every such signal has priority 0 goes *behind* all of them (C01: FIFO within a
  priority).
-/
import Simpleline.Lemmas.InputOrderSig
import Simpleline.Lemmas.LoopQueue

namespace Simpleline.InputOrder
open Input

/-- the lines of the successful `InputReadySignal`s among the entries, in order -/
def readyL (es : List (Int × Nat × Sig)) : List Str := (es.filter fun e => e.2.2.okReady).map (·.2.2.line)

/-- … of queue object `a` -/
def readyQ (qs : List EQueue) (a : Nat) : List Str := readyL (qs.getD a {}).entries

@[simp] theorem readyL_nil : readyL [] = [] := rfl

theorem readyL_cons (e : Int × Nat × Sig) (es : List (Int × Nat × Sig)) :
    readyL (e :: es) = (if e.2.2.okReady = true then [e.2.2.line] else []) ++ readyL es := by
  unfold readyL
  by_cases h : e.2.2.okReady = true <;> simp [h]

theorem readyL_append (l1 l2 : List (Int × Nat × Sig)) : readyL (l1 ++ l2) = readyL l1 ++ readyL l2 := by
  simp [readyL]

theorem readyL_eq_nil {es : List (Int × Nat × Sig)} (h : ∀ e ∈ es, e.2.2.okReady = false) : readyL es = [] := by
  unfold readyL
  rw [List.filter_eq_nil_iff.mpr (by intro e he; simp [h e he])]; rfl

theorem readyL_insert_other (e : Int × Nat × Sig) (l : List (Int × Nat × Sig)) (h : e.2.2.okReady = false) :
    readyL (insertEntry e l) = readyL l := by
  induction l with
  | nil => simp [insertEntry, readyL_cons, h]
  | cons x xs ih =>
    unfold insertEntry
    split
    · rw [readyL_cons, h]; simp
    · rw [readyL_cons, readyL_cons, ih]

theorem readyL_filter_of {p : (Int × Nat × Sig) → Bool} {l : List (Int × Nat × Sig)}
    (h : ∀ e ∈ l, e.2.2.okReady = true → p e = true) : readyL (l.filter p) = readyL l := by
  unfold readyL
  rw [List.filter_filter]
  congr 1
  apply List.filter_congr
  intro e he
  cases ho : e.2.2.okReady
  · simp
  · simp [h e he ho]

theorem readyL_filter_none {p : (Int × Nat × Sig) → Bool} {l : List (Int × Nat × Sig)}
    (h : ∀ e ∈ l, e.2.2.okReady = true → p e = false) : readyL (l.filter p) = [] := by
  apply readyL_eq_nil
  intro e he
  obtain ⟨h1, h2⟩ := List.mem_filter.mp he
  cases ho : e.2.2.okReady
  · rfl
  · rw [h e h1 ho] at h2; cases h2

/-- FIFO: a successful `InputReadySignal` of priority 0 is put behind all the others -/
theorem readyL_put {q : EQueue} {s : Sig} (hS : q.Sorted) (hs : s.okReady = true) (hp : s.prio = 0)
    (hq : ∀ e ∈ q.entries, e.2.2.okReady = true → e.2.2.prio = 0) :
    readyL (q.put s).entries = readyL q.entries ++ [s.line] := by
  rw [put_place s hS, readyL_append, readyL_append]
  have h1 : readyL (q.entries.filter fun x => decide (x.1 ≤ s.prio)) = readyL q.entries := by
    apply readyL_filter_of
    intro e he ho
    have := hq e he ho
    rw [← hS.prio e he] at this
    simp [this, hp]
  have h2 : readyL (q.entries.filter fun x => decide (s.prio < x.1)) = [] := by
    apply readyL_filter_none
    intro e he ho
    have := hq e he ho
    rw [← hS.prio e he] at this
    simp [this, hp]
  rw [h1, h2, readyL_cons]
  simp [hs]

/-! ### `readyQ` -/

theorem readyQ_listSet (qs : List EQueue) (i a : Nat) (f : EQueue → EQueue) :
    readyQ (listSet qs i f) a =
      if i = a ∧ a < qs.length then readyL (f (qs.getD a {})).entries else readyQ qs a := by
  unfold readyQ
  rw [listSet_getD]
  split <;> rfl

theorem readyQ_listSet_same (qs : List EQueue) (i a : Nat) (f : EQueue → EQueue)
    (hf : ∀ q, readyL (f q).entries = readyL q.entries) : readyQ (listSet qs i f) a = readyQ qs a := by
  rw [readyQ_listSet]
  split
  · rw [hf]; rfl
  · rfl

theorem okReady_of_cls {s : Sig} (h : s.cls ≠ .inputReady) : s.okReady = false := by
  simp [Sig.okReady, h]

theorem readyQ_enqueue (c : Cfg) (s : Sig) (a : Nat) (h : s.okReady = false) :
    readyQ (c.enqueue s).L.queues a = readyQ c.L.queues a := by
  rw [enqueue_queues]
  split
  · rfl
  · exact readyQ_listSet_same _ _ _ _ (fun q => readyL_insert_other _ _ h)

@[simp] theorem readyQ_redraw (c : Cfg) (a : Nat) : readyQ c.redraw.L.queues a = readyQ c.L.queues a := by
  unfold Cfg.redraw
  exact readyQ_enqueue _ _ _ rfl

@[simp] theorem readyQ_excEnq (c : Cfg) (src : Src) (a : Nat) : readyQ (excEnq c src).L.queues a = readyQ c.L.queues a := by
  unfold excEnq
  exact readyQ_enqueue _ _ _ rfl

@[simp] theorem excEnq_active (c : Cfg) (src : Src) : (excEnq c src).L.active = c.L.active := by simp [excEnq]
@[simp] theorem redraw_active (c : Cfg) : c.redraw.L.active = c.L.active := by simp [Cfg.redraw]

theorem raise_readyQ (c : Cfg) (k : Kind) :
    readyQ (final (c.raise k)).L.queues (final (c.raise k)).L.active = readyQ c.L.queues c.L.active := by
  obtain ⟨cT, hT, code', _, c1, h1, hf⟩ := raise_final c k
  rw [hf]; rcases hT with rfl | rfl <;> rcases h1 with rfl | ⟨src, rfl⟩ <;> simp

@[simp] theorem readyQ_addSource (qs : List EQueue) (i a : Nat) (s : Src) :
    readyQ (listSet qs i (addSource · s)) a = readyQ qs a :=
  readyQ_listSet_same _ _ _ _ (fun q => by rw [addSource_entries])

theorem readyQ_append_empty_lt (qs : List EQueue) (a : Nat) (h : a < qs.length) :
    readyQ (qs ++ [({} : EQueue)]) a = readyQ qs a := by
  unfold readyQ
  simp [List.getD_eq_getElem?_getD, List.getElem?_append_left h]

theorem readyQ_append_empty_new (qs : List EQueue) : readyQ (qs ++ [({} : EQueue)]) qs.length = [] := by
  unfold readyQ
  simp [List.getD_eq_getElem?_getD]

theorem readyQ_of_activeQ {c : Cfg} {e : Int × Nat × Sig} {es : List (Int × Nat × Sig)}
    (he : c.L.activeQ.entries = e :: es) :
    readyQ c.L.queues c.L.active = (if e.2.2.okReady = true then [e.2.2.line] else []) ++ readyL es := by
  unfold readyQ
  have : (c.L.queues.getD c.L.active {}).entries = e :: es := he
  rw [this, readyL_cons]

theorem active_lt_of_entries {c : Cfg} {e : Int × Nat × Sig} {es : List (Int × Nat × Sig)}
    (he : c.L.activeQ.entries = e :: es) : c.L.active < c.L.queues.length := by
  refine Decidable.byContradiction fun hn => ?_
  have : c.L.activeQ = {} := by
    unfold LoopSt.activeQ
    rw [List.getD_eq_getElem?_getD, List.getElem?_eq_none (Nat.le_of_not_lt hn)]; rfl
  rw [this] at he; cases he

theorem readyQ_pop {c : Cfg} {e : Int × Nat × Sig} {es : List (Int × Nat × Sig)}
    (he : c.L.activeQ.entries = e :: es) :
    readyQ (listSet c.L.queues c.L.active fun q => { q with entries := es }) c.L.active = readyL es := by
  rw [readyQ_listSet, if_pos ⟨rfl, active_lt_of_entries he⟩]

end Simpleline.InputOrder
