/-
  C06b: what the signals of the input pipeline look like in every reachable configuration (needs `NoForge`
  and `UserHandlers`): every `InputReceivedSignal` still on its way to the thread manager — in a queue or in
  the pending code — carries the line read *last* (no other line is read before it is handed off), and every
  `InputReadySignal` in a queue has priority 0. The invariant `LastInv`, its frame lemmas.
-/
import Simpleline.Lemmas.InputOnce
import Simpleline.Spec.InputOrderSpec

namespace Simpleline.InputOrder
open Input

/-- the line read last -/
def lastL (log : List Ev) : Option Str := (readLines log).getLast?

theorem lastL_cons_read (l : Str) (log : List Ev) : lastL (.read l :: log) = some l := by
  simp [lastL, readLines_cons_read]

theorem lastL_cons (e : Ev) (log : List Ev) (h : e.isRead = false) : lastL (e :: log) = lastL log := by
  unfold lastL; rw [readLines_cons _ _ h]

def sigL (last : Option Str) (s : Sig) : Prop :=
  (s.cls = .inputReceived → last = some s.line) ∧ (s.cls = .inputReady → s.prio = 0)

/-- the `InputReceivedSignal` the instruction is still going to hand to the thread manager
(the signal counted by `Instr.irPending`) -/
def _root_.Simpleline.Instr.recvSig? : Instr → Option Sig
  | .processSignal s => if s.cls = .inputReceived then some s else none
  | .dispatch s i => if s.cls = .inputReceived ∧ i = 0 then some s else none
  | .callH .itm _ s => some s
  | .inputReceived s => some s
  | _ => none

def _root_.Simpleline.Instr.recvL (last : Option Str) (i : Instr) : Prop :=
  ∀ s, i.recvSig? = some s → last = some s.line

def queuesL (last : Option Str) (qs : List EQueue) : Prop := ∀ q ∈ qs, ∀ e ∈ q.entries, sigL last e.2.2

def codeL (last : Option Str) (code : List Instr) : Prop := ∀ ins ∈ code, ins.recvL last

structure LastInv (c : Cfg) : Prop where
  q : queuesL (lastL c.log) c.L.queues
  code : codeL (lastL c.log) c.code

/-! ### a new line is read: nothing may be in flight -/

theorem recvSig?_none_of_irPending {i : Instr} (h : i.irPending = 0) : i.recvSig? = none := by
  cases i <;> simp only [Instr.irPending, Instr.recvSig?] at h ⊢
  case processSignal s => split <;> simp_all
  case dispatch s n => split <;> simp_all
  case callH hr d s => cases hr <;> simp_all
  case inputReceived s => simp at h

theorem codeL_of_irCode {last' : Option Str} {code : List Instr} (h : irCode code = 0) : codeL last' code := by
  intro ins hi s hs
  have : ins.irPending = 0 := by
    unfold irCode at h
    have := List.sum_eq_zero_iff_forall_eq_nat.mp h ins.irPending (List.mem_map.mpr ⟨ins, hi, rfl⟩)
    exact this
  rw [recvSig?_none_of_irPending this] at hs; cases hs

theorem queuesL_of_irQ {last last' : Option Str} {qs : List EQueue} (hq : queuesL last qs) (h : irQ qs = 0) :
    queuesL last' qs := by
  intro q hqm e he
  refine ⟨?_, (hq q hqm e he).2⟩
  intro hc
  exfalso
  unfold irQ at h
  have h1 : irq q = 0 := List.sum_eq_zero_iff_forall_eq_nat.mp h (irq q) (List.mem_map.mpr ⟨q, hqm, rfl⟩)
  unfold irq at h1
  rw [List.countP_eq_zero] at h1
  have := h1 e.2.2 (List.mem_map.mpr ⟨e, he, rfl⟩)
  simp [isIR, hc] at this

/-! ### code -/

@[simp] theorem codeL_nil (last : Option Str) : codeL last [] := by simp [codeL]
@[simp] theorem codeL_cons (last : Option Str) (i : Instr) (is : List Instr) :
    codeL last (i :: is) ↔ i.recvL last ∧ codeL last is := by simp [codeL]
@[simp] theorem codeL_append (last : Option Str) (is js : List Instr) :
    codeL last (is ++ js) ↔ codeL last is ∧ codeL last js := by
  simp [codeL, or_imp, forall_and]

theorem codeL_sublist {last : Option Str} {is js : List Instr} (h : is.Sublist js) (hj : codeL last js) : codeL last is :=
  fun ins hi => hj ins (h.subset hi)

theorem codeL_acts (last : Option Str) (acts : List Act) : codeL last (acts.map .act) := by
  intro ins hi
  obtain ⟨a, _, rfl⟩ := List.mem_map.mp hi
  intro s hs; cases hs

theorem recvL_of_none {last : Option Str} {i : Instr} (h : i.recvSig? = none) : i.recvL last := by
  intro s hs; rw [h] at hs; cases hs

theorem codeL_go (last : Option Str) (scr : Nat) (evs : List OutEv) (cur : List Str) (acc : List Instr)
    (h : codeL last acc) : codeL last (step.go scr evs cur acc) := by
  induction evs generalizing cur acc with
  | nil => unfold step.go; split <;> simp [h, Instr.recvL, Instr.recvSig?]
  | cons e es ih =>
    unfold step.go
    cases e with
    | line l => exact ih _ _ h
    | ask => apply ih; split <;> simp [h, Instr.recvL, Instr.recvSig?]

/-! ### queues -/

theorem queuesL_listSet {qs : List EQueue} {last : Option Str} (i : Nat) (f : EQueue → EQueue)
    (hf : ∀ q, (∀ e ∈ q.entries, sigL last e.2.2) → ∀ e ∈ (f q).entries, sigL last e.2.2)
    (h : queuesL last qs) : queuesL last (listSet qs i f) := by
  intro q hq
  rcases mem_listSet hq with hq | ⟨q0, hq0, rfl⟩
  · exact h q hq
  · exact hf q0 (h q0 hq0)

theorem queuesL_enqueue {c : Cfg} {last : Option Str} {s : Sig} (hs : sigL last s) (h : queuesL last c.L.queues) :
    queuesL last (c.enqueue s).L.queues := by
  rw [enqueue_queues]
  split
  · exact h
  · refine queuesL_listSet _ _ ?_ h
    intro q hq e he
    rcases Input.mem_insertEntry he with rfl | he
    · exact hs
    · exact hq e he

theorem sigL_of_not_input {last : Option Str} {s : Sig} (h : s.cls.isInput = false) : sigL last s := by
  constructor <;> intro hc <;> rw [hc] at h <;> cases h

theorem queuesL_redraw {c : Cfg} {last : Option Str} (h : queuesL last c.L.queues) : queuesL last c.redraw.L.queues := by
  unfold Cfg.redraw
  exact queuesL_enqueue (sigL_of_not_input rfl) h

theorem queuesL_excEnq {c : Cfg} {last : Option Str} (src : Src) (h : queuesL last c.L.queues) :
    queuesL last (excEnq c src).L.queues := by
  unfold excEnq
  exact queuesL_enqueue (sigL_of_not_input rfl) h

theorem queuesL_raise {c : Cfg} {last : Option Str} (k : Kind) (h : queuesL last c.L.queues) :
    queuesL last (final (c.raise k)).L.queues := by
  obtain ⟨cT, hT, code', _, c1, h1, hf⟩ := raise_final c k
  rw [hf]
  have hT' : queuesL last cT.L.queues := by
    rcases hT with rfl | rfl
    · exact h
    · exact h
  rcases h1 with rfl | ⟨src, rfl⟩
  · exact hT'
  · exact queuesL_excEnq src hT'

theorem queuesL_pop {c : Cfg} {last : Option Str} {e : Int × Nat × Sig} {es : List (Int × Nat × Sig)}
    (he : c.L.activeQ.entries = e :: es) (h : queuesL last c.L.queues) :
    queuesL last (c.pop e es).L.queues ∧ sigL last e.2.2 := by
  have hi : c.L.active < c.L.queues.length := by
    refine Decidable.byContradiction fun hn => ?_
    have : c.L.activeQ = {} := by
      unfold LoopSt.activeQ
      rw [List.getD_eq_getElem?_getD, List.getElem?_eq_none (Nat.le_of_not_lt hn)]; rfl
    rw [this] at he; cases he
  have hq : c.L.activeQ ∈ c.L.queues := by
    unfold LoopSt.activeQ
    rw [List.getD_eq_getElem?_getD, List.getElem?_eq_getElem hi]
    exact List.getElem_mem _
  have hall : ∀ x ∈ e :: es, sigL last x.2.2 := by rw [← he]; exact h _ hq
  refine ⟨?_, hall e List.mem_cons_self⟩
  intro q hq'
  rcases mem_listSet hq' with hq' | ⟨q0, hq0, rfl⟩
  · exact h q hq'
  · intro x hx
    exact hall x (List.mem_cons_of_mem _ hx)

theorem queuesL_append_empty (qs : List EQueue) (last : Option Str) :
    queuesL last (qs ++ [({} : EQueue)]) ↔ queuesL last qs := by
  unfold queuesL
  simp [or_imp, forall_and]

theorem queuesL_addSource {qs : List EQueue} {last : Option Str} (i : Nat) (src : Src) (h : queuesL last qs) :
    queuesL last (listSet qs i (addSource · src)) := by
  refine queuesL_listSet i _ ?_ h
  intro q hq e he
  have : (addSource q src).entries = q.entries := by unfold addSource; split <;> rfl
  rw [this] at he; exact hq e he

end Simpleline.InputOrder
