/-
  C06b: `LastInv` is preserved by every transition, hence holds in every reachable configuration (needs
  `NoForge` and `UserHandlers`; the one-line-at-a-time invariant of C18 is used where the reader thread delivers).
-/
import Simpleline.Lemmas.InputOrderSig
import Simpleline.Lemmas.InputHandoff
import Simpleline.Lemmas.InputC18

namespace Simpleline.InputOrder
open Input

/-- while a reader thread exists nothing is in flight (C18) -/
def Guard (c : Cfg) : Prop := c.A.readers ≠ [] → irQ c.L.queues = 0 ∧ irCode c.code = 0

theorem LastInv_deliver {c c' : Cfg} (h : LastInv c) (hg : Guard c) (hd : c.deliver = some c') : LastInv c' := by
  obtain ⟨r, rs, hr, rfl⟩ := deliver_eq hd
  have hq := hg (by rw [hr]; simp)
  refine ⟨?_, ?_⟩
  · simp only [enqueue_log, lastL_cons_read]
    refine queuesL_enqueue ⟨fun _ => rfl, fun hc => by cases hc⟩ (queuesL_of_irQ h.q hq.1)
  · simp only [enqueue_log, enqueue_code]
    exact codeL_of_irCode hq.2

theorem LastInv_emit {c : Cfg} (P : Prog) (e : Ev) (he : e.isRead = false) (h : LastInv c) (hg : Guard c) :
    LastInv (c.emit P e) := by
  have h0 : LastInv (emit0 c e) := ⟨by simpa [lastL_cons _ _ he] using h.q, by simpa [lastL_cons _ _ he] using h.code⟩
  rcases emit_cases P c e with h1 | h1
  · rw [h1]; exact h0
  · exact LastInv_deliver h0 hg h1

theorem LastInv_push {c : Cfg} (is : List Instr) (h : LastInv c) (hi : codeL (lastL c.log) is) : LastInv (push c is) :=
  ⟨h.q, by simp [hi, h.code]⟩

theorem LastInv_raise {c : Cfg} (k : Kind) (h : LastInv c) : LastInv (final (c.raise k)) :=
  ⟨by rw [raise_log]; exact queuesL_raise k h.q, by rw [raise_log]; exact codeL_sublist (raise_code c k) h.code⟩

theorem emit_lastL_push {c : Cfg} (P : Prog) (e : Ev) (is : List Instr) (he : e.isRead = false) (h : LastInv c)
    (hg : Guard c) (hi : ∀ last, codeL last is) : LastInv (push (c.emit P e) is) :=
  LastInv_push _ (LastInv_emit P e he h hg) (hi _)

theorem LastInv_take {c1 : Cfg} (f : Sig → List Instr) (h : LastInv c1) (hg : Guard c1)
    (hf : ∀ s last, sigL last s → codeL last (f s)) :
    LastInv (final (do let x ← c1.take; pure (push x.2 (f x.1)))) := by
  obtain ⟨c2, h2, h3⟩ := take_cases c1
  have hc2 : LastInv c2 := by
    rcases h2 with rfl | h2
    · exact h
    · exact LastInv_deliver h hg h2
  rcases h3 with ⟨_, h3⟩ | ⟨e, es, he, h3⟩
  · rw [h3]; exact hc2
  · rw [h3]
    show LastInv (push (c2.pop e es) (f e.2.2))
    have := queuesL_pop he hc2.q
    exact LastInv_push _ ⟨this.1, hc2.code⟩ (hf _ _ this.2)

theorem sigL_lit (last : Option Str) (id : Nat) (cls : Cls) (prio : Int) (src : Src) (h : cls.isInput = false) :
    sigL last { id := id, cls := cls, prio := prio, src := src } :=
  sigL_of_not_input h

theorem sigL_newSig (last : Option Str) (c : Cfg) (cls : Cls) (prio : Int) (src : Src) (h : cls.isInput = false) :
    sigL last (c.newSig cls prio src).1 :=
  sigL_of_not_input h

/-- proves `queuesL last X.L.queues` for `X` built from a configuration satisfying it by the primitive operations -/
macro "ord_ql" : tactic => `(tactic|
  repeat' (first
    | assumption
    | (with_reducible refine queuesL_enqueue ?_ ?_)
    | (with_reducible refine queuesL_redraw ?_)
    | (with_reducible refine queuesL_excEnq _ ?_)
    | (with_reducible refine queuesL_addSource _ _ ?_)
    | (with_reducible refine queuesL_raise _ ?_)
    | (with_reducible refine sigL_newSig _ _ _ _ _ rfl)
    | (with_reducible refine sigL_lit _ _ _ _ _ ?_)
    | (simp only [push_L, push_log, trace_L, trace_log, write_L, write_log,
        newSig_L, newSig_log, enqueue_log, redraw_log, raise_log, queuesL_append_empty, final_ok])))

macro "ord_li_base" : tactic => `(tactic|
  (refine ⟨?_, ?_⟩
   · ord_ql
   · simp [*, Instr.recvL, Instr.recvSig?, codeL_acts, Cfg.write, Cfg.newSig, Cls.isInput]))

macro "ord_li_leaf" : tactic => `(tactic| first
    | ((with_reducible apply LastInv_raise); ord_li_base; done)
    | (ord_li_base; done))

theorem LastInv_doAct (c : Cfg) (a : Act) (ha : a.forges = false) (h : LastInv c) : LastInv (final (doAct c a)) := by
  obtain ⟨hq, hcode⟩ := h
  unfold doAct
  split <;> (try dsimp only) <;> (try simp only [final_ok]) <;>
    first
    | ord_li_leaf
    | (split <;> (try simp only [final_ok]) <;> ord_li_leaf)

theorem LastInv_startRequest (c : Cfg) (ih : Nat) (requester : Src) (text : Str) (h : LastInv c) :
    LastInv (final (startRequest c ih requester text)) := by
  rw [startRequest_eq]
  split
  · exact LastInv_raise _ ⟨h.q, h.code⟩
  · split <;> exact ⟨h.q, h.code⟩

theorem enqueueAll_queuesL {last : Option Str} (sigs : List Sig) (c : Cfg) (hs : ∀ s ∈ sigs, sigL last s)
    (h : queuesL last c.L.queues) : queuesL last (enqueueAll c sigs).L.queues := by
  induction sigs generalizing c with
  | nil => exact h
  | cons s ss ih =>
    rw [enqueueAll_cons]
    exact ih _ (fun x hx => hs x (List.mem_cons_of_mem _ hx)) (queuesL_enqueue (hs s List.mem_cons_self) h)

theorem handoffSigs_sigL (last : Option Str) (reqs : List Request) (rs : List Nat) (r : Nat) (line : Str) (sid : Nat) :
    ∀ x ∈ handoffSigs reqs rs r line sid, sigL last x := by
  intro x hx
  simp only [handoffSigs, List.mem_cons] at hx
  rcases hx with rfl | hx
  · exact ⟨fun hc => (by cases hc), fun _ => rfl⟩
  · have := failSigs_all reqs rs (sid + 1) x hx
    exact ⟨fun hc => (by rw [this.1] at hc; cases hc), fun _ => this.2.1⟩

theorem LastInv_inputReceived (P : Prog) (c : Cfg) (s : Sig) (rest : List Instr)
    (hc : c.code = .inputReceived s :: rest) (h : LastInv c) : LastInv (final (step P c)) := by
  have hcode := h.code
  rw [hc, codeL_cons] at hcode
  cases hst : c.A.inputStack.getLast? with
  | none =>
    rw [step_inputReceived_empty P c s rest hc (List.getLast?_eq_none_iff.mp hst)]
    exact LastInv_raise _ ⟨h.q, hcode.2⟩
  | some r =>
    obtain ⟨rs, hst'⟩ := List.getLast?_eq_some_iff.mp hst
    obtain ⟨c', h1, h2, h3, h4, h5, h6, h7⟩ := step_inputReceived P c s rest rs r hc hst'
    rw [h1, final_ok]
    have hL : c'.L = (enqueueAll c (handoffSigs c.A.reqs rs r s.line (c.nextSid + 1))).L := congrArg (·.1) h7
    refine ⟨?_, by rw [h4, h3]; exact hcode.2⟩
    rw [hL, h4]
    exact enqueueAll_queuesL _ _ (handoffSigs_sigL _ _ _ _ _ _) h.q

end Simpleline.InputOrder

namespace Simpleline.InputOrder
open Input

theorem Guard_of {c X : Cfg} (hg : Guard c) (hr : X.A.readers = c.A.readers) (hq : X.L.queues = c.L.queues)
    (hc : irCode X.code ≤ irCode c.code) : Guard X := by
  intro h
  rw [hr] at h
  have := hg h
  rw [hq]
  exact ⟨this.1, by omega⟩

theorem recvL_callH {c : Cfg} {last : Option Str} {s : Sig} {i : Nat} {h : HRef} {d : Option Nat} (hH : HandlersOK c)
    (hg : (handlersOf c.L s.cls)[i]? = some (h, d)) (hi : (Instr.dispatch s i).recvL last) :
    (Instr.callH h d s).recvL last := by
  have hm := handlersOf_mem hg
  intro s' hs'
  cases h <;> simp only [Instr.recvSig?, Option.some.injEq] at hs' <;> try (cases hs'; done)
  subst hs'
  have hc : s.cls = .inputReceived := hH.itm _ hm rfl
  obtain ⟨us, hus, hno⟩ := hH.first
  rw [hc, hus] at hg
  cases i with
  | zero => exact hi s (by simp [Instr.recvSig?, hc])
  | succ i =>
    simp only [List.getElem?_cons_succ] at hg
    exact absurd rfl (hno _ (List.mem_of_getElem? hg))

theorem Guard_of' {c X : Cfg} {ins : Instr} {rest : List Instr} (hg : Guard c) (hcd : c.code = ins :: rest)
    (hr : X.A.readers = c.A.readers) (hq : X.L.queues = c.L.queues) (hc : X.code = rest) : Guard X :=
  Guard_of hg hr hq (by rw [hc, hcd]; simp)

theorem LastInv_step (P : Prog) (c : Cfg) (hc : cleanCode c.code) (hH : HandlersOK c) (hg : Guard c) (h : LastInv c) :
    LastInv (final (step P c)) := by
  by_cases hir : ∃ s rest, c.code = .inputReceived s :: rest
  · obtain ⟨s, rest, hcode⟩ := hir
    exact LastInv_inputReceived P c s rest hcode h
  have hir' : ∀ s rest, ¬ c.code = .inputReceived s :: rest := fun s rest h => hir ⟨s, rest, h⟩
  obtain ⟨hq, hcode⟩ := h
  unfold step
  split
  · exact ⟨hq, hcode⟩
  · rename_i ins rest hcd
    rw [hcd] at hc hcode
    simp only [cleanCode_cons] at hc
    simp only [codeL_cons] at hcode
    obtain ⟨hcl, _⟩ := hc
    obtain ⟨hins, hrest⟩ := hcode
    have hb : LastInv { c with code := rest } := ⟨hq, hrest⟩
    have hgb : Guard { c with code := rest } := Guard_of hg rfl rfl (by rw [hcd]; simp)
    split
    all_goals try (exact absurd hcd (hir' _ _))
    all_goals clear hir hir'
    all_goals try simp only [Instr.clean, Bool.not_eq_eq_eq_not, Bool.not_true, decide_eq_true_eq] at hcl
    all_goals dsimp only
    all_goals try simp only [final_ok]
    all_goals try (ord_li_leaf; done)
    all_goals try (first
      | ((with_reducible apply LastInv_doAct) <;> first | assumption | exact hb)
      | ((with_reducible apply LastInv_take (f := fun s => [Instr.processSignal s])) <;>
          first | exact hb | exact hgb | (intro s last hs; simpa [Instr.recvL, Instr.recvSig?] using hs.1)))
    all_goals try (split <;> (try simp only [final_ok]) <;> try (ord_li_leaf; done))
    all_goals try (first
      | ((with_reducible apply LastInv_take (f := fun s => [Instr.processSignal s, _])) <;>
          first | exact hb | exact hgb | (intro s last hs; simpa [Instr.recvL, Instr.recvSig?] using hs.1)))
    all_goals try (split <;> (try simp only [final_ok]) <;> try (ord_li_leaf; done))
    all_goals try (split <;> (try simp only [final_ok]) <;> try (ord_li_leaf; done))
    all_goals try (split <;> (try simp only [final_ok]) <;> try (ord_li_leaf; done))
    all_goals try (first
      | ((with_reducible apply emit_lastL_push) <;>
          first | exact ⟨hq, hrest⟩ | exact Guard_of' hg hcd rfl rfl rfl | rfl
                | (intro last; simp [Instr.recvL, Instr.recvSig?, codeL_acts]; done))
      | ((with_reducible apply LastInv_emit) <;> first | exact ⟨hq, hrest⟩ | exact Guard_of' hg hcd rfl rfl rfl | rfl)
      | ((with_reducible apply LastInv_startRequest); simp only [newIH]; ord_li_base; done))
    -- processSignal
    · refine LastInv_push _ ⟨hq, hrest⟩ ?_
      simp only [Instr.recvL, Instr.recvSig?] at hins
      simpa [Instr.recvL, Instr.recvSig?] using hins
    -- dispatch
    · refine LastInv_push _ ⟨hq, hrest⟩ ?_
      simp only [codeL_cons, codeL_nil, and_true]
      exact ⟨recvL_callH hH ‹_› hins, by simp [Instr.recvL, Instr.recvSig?], by simp [Instr.recvL, Instr.recvSig?]⟩
    -- callH .itm
    · refine LastInv_push _ ⟨hq, hrest⟩ ?_
      simp only [Instr.recvL, Instr.recvSig?] at hins
      simpa [Instr.recvL, Instr.recvSig?] using hins
    -- procIter
    · have := queuesL_pop (c := c) ‹_› hq
      refine ⟨this.1, ?_⟩
      simp only [push_code, List.cons_append, List.nil_append, codeL_cons]
      exact ⟨by simpa [Instr.recvL, Instr.recvSig?] using this.2.1, by simp [Instr.recvL, Instr.recvSig?], hrest⟩
    · have := queuesL_pop (c := c) ‹_› hq
      refine ⟨this.1, ?_⟩
      simp only [push_code, List.cons_append, List.nil_append, codeL_cons]
      exact ⟨by simpa [Instr.recvL, Instr.recvSig?] using this.2.1, by simp [Instr.recvL, Instr.recvSig?], hrest⟩
    -- newLoop
    · refine ⟨?_, by simp [hrest, Instr.recvL, Instr.recvSig?]⟩
      simp only [push_L, push_log, enqueue_log, trace_log]
      refine queuesL_enqueue (sigL_of_not_input hcl) ?_
      simpa [queuesL_append_empty] using hq
    -- identCheck
    · exact ⟨hq, codeL_sublist (List.dropWhile_sublist _) hrest⟩
    -- printWidget
    · exact LastInv_push _ ⟨hq, hrest⟩ (codeL_go _ _ _ _ _ (codeL_nil _))

theorem guard_reach {P : Prog} {c0 c : Cfg} (h0 : Started c0) (hU : UserHandlers c0) (hF : NoForge P c0)
    (h : Reach P c0 c) : Guard c := by
  intro hrd
  have := (reader_busy_of_inv (inputInv_reach h0 hU hF h) hrd).2.2
  rw [irQueued_eq] at this
  exact this.2

theorem lastInv_reach {P : Prog} {c0 c : Cfg} (h0 : Started c0) (hU : UserHandlers c0) (hF : NoForge P c0)
    (h : Reach P c0 c) : LastInv c := by
  refine reach_induction (I := LastInv) ?_ ?_ ?_ h
  · obtain ⟨i, hs, q, sin, rfl⟩ := h0
    refine ⟨?_, ?_⟩
    · intro q hq e he
      simp only [initCfg, List.mem_singleton] at hq
      subst hq; cases he
    · intro ins hi
      simp only [initCfg, List.mem_append, List.mem_map, List.mem_singleton] at hi
      rcases hi with ⟨a, _, rfl⟩ | rfl <;> (intro s hs; cases hs)
  · intro c hr hi
    exact LastInv_step P c (cleanCode_reach h0 hU hF hr) (handlersOK_reach h0 hU hr) (guard_reach h0 hU hF hr) hi
  · intro c c' hr hi hd
    exact LastInv_deliver hi (guard_reach h0 hU hF hr) hd

end Simpleline.InputOrder
