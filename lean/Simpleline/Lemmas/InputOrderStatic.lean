/-
  C06b: the static alternative to `NoReadyReentry`. If the application registered no handler of its own for
  `InputReadySignal` (`k0 c0 = 0`), no application code runs between the moment a successful `InputReadySignal`
  is taken from the queue and the call of the handler of its `InputHandler`: while such a signal is on its way, the
  pending code is `processSignal s`, `dispatch s i`, or one of the three shapes around a handler call. Hence whenever
  the next instruction takes a signal, the rest of the code carries none (`TakeQuiet`).
-/
import Simpleline.Lemmas.InputOrderMain

namespace Simpleline.InputOrder
open Input

/-- the rest of the code carries no successful `InputReadySignal` towards its handler, or the code is a handler call
of a dispatch in progress -/
def ChainOK (code : List Instr) : Prop :=
  nPre 0 code.tail = 0 ∨
  (∃ n d s rest, code = .callH (.ih n) d s :: .catchHandler :: .dispatch s (n + 1) :: rest ∧ nPre 0 rest = 0) ∨
  (∃ n s rest, code = .inputReady n s :: .catchHandler :: .dispatch s (n + 1) :: rest ∧ nPre 0 rest = 0) ∨
  (∃ s j rest, code = .catchHandler :: .dispatch s j :: rest ∧ nPre 0 rest = 0)

theorem takeQuiet_of_chainOK {c : Cfg} (h : ChainOK c.code) : TakeQuiet 0 c := by
  intro ins rest hc ht
  rcases h with h | ⟨n, d, s, r, h, _⟩ | ⟨n, s, r, h, _⟩ | ⟨s, j, r, h, _⟩
  · rw [hc] at h; exact h
  · rw [hc] at h; cases h; cases ht
  · rw [hc] at h; cases h; cases ht
  · rw [hc] at h; cases h; cases ht

theorem nPre_tail_le (k : Nat) (code : List Instr) : nPre k code.tail ≤ nPre k code :=
  nPre_sublist (List.tail_sublist _)

/-- quiet code stays quiet -/
def Quiet (code : List Instr) : Prop := nPre 0 code = 0

theorem quiet_of_le {a b : List Instr} (h : nPre 0 b = 0) (hle : nPre 0 a ≤ nPre 0 b) : nPre 0 a = 0 := by omega

theorem chainOK_of_tail {code : List Instr} (h : nPre 0 code.tail = 0) : ChainOK code := .inl h

theorem chainOK_of_quiet {code : List Instr} (h : Quiet code) : ChainOK code :=
  .inl (quiet_of_le h (nPre_tail_le 0 code))

theorem quiet_raise {c : Cfg} (k : Kind) (h : Quiet c.code) : Quiet (final (c.raise k)).code :=
  quiet_of_le h (nPre_sublist (raise_code c k))

theorem quiet_take_tail {c1 : Cfg} (f : Sig → List Instr) (h : Quiet c1.code) (hf : ∀ s, nPre 0 (f s).tail = 0)
    (hne : ∀ s, f s ≠ []) :
    nPre 0 (final (do let x ← c1.take; pure (push x.2 (f x.1)))).code.tail = 0 := by
  obtain ⟨c2, h2, h3⟩ := Input.take_cases c1
  have hc2 : c2.code = c1.code := by
    rcases h2 with rfl | h2
    · rfl
    · exact Input.deliver_code h2
  rcases h3 with ⟨_, h3⟩ | ⟨e, es, _, h3⟩
  · rw [h3]
    show nPre 0 c2.code.tail = 0
    rw [hc2]; exact quiet_of_le h (nPre_tail_le 0 _)
  · rw [h3]
    show nPre 0 (push (c2.pop e es) (f e.2.2)).code.tail = 0
    simp only [push_code, pop_code, hc2]
    cases hfs : f e.2.2 with
    | nil => exact absurd hfs (hne _)
    | cons i is =>
      have := hf e.2.2
      rw [hfs] at this
      simp only [List.tail_cons] at this
      simp only [List.cons_append, List.tail_cons, nPre_append, this, Nat.zero_add]
      exact h

theorem chainOK_take {c1 : Cfg} (f : Sig → List Instr) (h : Quiet c1.code) (hf : ∀ s, nPre 0 (f s).tail = 0)
    (hne : ∀ s, f s ≠ []) : ChainOK (final (do let x ← c1.take; pure (push x.2 (f x.1)))).code :=
  .inl (quiet_take_tail f h hf hne)

theorem doAct_quiet (c : Cfg) (a : Act) (h : Quiet c.code) : Quiet (final (doAct c a)).code := by
  unfold Quiet at *
  unfold doAct
  split <;> (try dsimp only) <;>
    first
    | exact quiet_raise _ h
    | (simp [Instr.pre, h]; done)
    | (split <;> first | exact quiet_raise _ h | (simp [h]; done))

theorem startRequest_quiet (c : Cfg) (ih : Nat) (requester : Src) (text : Str) (h : Quiet c.code) :
    Quiet (final (startRequest c ih requester text)).code := by
  rw [startRequest_eq]
  split
  · exact quiet_raise _ h
  · split <;> simpa using h

/-- the whole new code is quiet -/
macro "ord_q_all" hq:ident : tactic => `(tactic| first
    | ((with_reducible apply quiet_raise); simp [Quiet, $hq:ident, Instr.pre]; done)
    | ((with_reducible apply doAct_quiet); simp [Quiet, $hq:ident, Instr.pre]; done)
    | ((with_reducible apply startRequest_quiet); simp [Quiet, $hq:ident, Instr.pre, newIH]; done)
    | (simp [Quiet, $hq:ident, Instr.pre, Cfg.newSig, nPre_acts]; done))

macro "ord_ch_leaf" hq:ident : tactic => `(tactic| first
    | ((with_reducible apply chainOK_take (f := fun s => [Instr.processSignal s])) <;>
        simp [Quiet, $hq:ident, Instr.pre]; done)
    | ((with_reducible apply chainOK_take (f := fun s => [Instr.processSignal s, _])) <;>
        simp [Quiet, $hq:ident, Instr.pre]; done)
    | ((with_reducible apply chainOK_of_quiet); ord_q_all $hq; done)
    | ((with_reducible apply chainOK_of_tail); simp [$hq:ident, Instr.pre, nPre_acts]; done))

theorem chainOK_step {c0 : Cfg} (P : Prog) (c : Cfg) (hk : k0 c0 = 0) (hR : ReadyHandlers c0 c)
    (hc : ChainOK c.code) : ChainOK (final (step P c)).code := by
  rcases hc with hq | ⟨n, d, s, rest, hcode, hq⟩ | ⟨n, s, rest, hcode, hq⟩ | ⟨s, j, rest, hcode, hq⟩
  rotate_left
  · -- the call of handler `n`
    refine .inr (.inr (.inl ⟨n, s, rest, ?_, hq⟩))
    unfold step
    simp only [hcode]
    rfl
  · -- handler `n` runs
    rw [step_inputReady P c n s _ hcode]
    simp only [final_ok]
    split
    · exact .inr (.inr (.inr ⟨s, n + 1, rest, rfl, hq⟩))
    · rename_i hih
      have hih' : s.ih = n := by simpa using hih
      split
      · exact .inr (.inr (.inr ⟨s, n + 1, rest, rfl, hq⟩))
      · cases hcb : (c.A.ihs.getD n default).cb with
        | none => exact .inr (.inr (.inr ⟨s, n + 1, rest, rfl, hq⟩))
        | some scr =>
          refine .inl ?_
          have hpre : (Instr.dispatch s (n + 1)).pre 0 = [] := by
            simp only [Instr.pre]; rw [if_neg (by omega)]
          simp only [List.cons_append, List.nil_append, List.tail_cons, nPre_cons, hpre, hq]
          rfl
  · -- back in the dispatch loop
    refine .inl ?_
    unfold step
    simp only [hcode]
    exact hq
  · -- the rest of the code is quiet
    by_cases hir : ∃ s rest, c.code = .inputReceived s :: rest
    · obtain ⟨s, rest, hcode⟩ := hir
      rw [hcode] at hq
      simp only [List.tail_cons] at hq
      refine chainOK_of_quiet ?_
      exact quiet_of_le hq (nPre_sublist (inputReceived_code P c s rest hcode))
    have hir' : ∀ s rest, ¬ c.code = .inputReceived s :: rest := fun s rest h => hir ⟨s, rest, h⟩
    unfold step
    split
    · rename_i h; exact .inl (by simp [h])
    · rename_i ins rest hcode
      rw [hcode] at hq
      simp only [List.tail_cons] at hq
      unfold Quiet at *
      split
      all_goals try (exact absurd hcode (hir' _ _))
      all_goals clear hir hir'
      all_goals dsimp only
      all_goals try simp only [final_ok]
      all_goals try (ord_ch_leaf hq; done)
      all_goals try (split <;> (try simp only [final_ok]) <;> try (ord_ch_leaf hq; done))
      all_goals try (split <;> (try simp only [final_ok]) <;> try (ord_ch_leaf hq; done))
      all_goals try (split <;> (try simp only [final_ok]) <;> try (ord_ch_leaf hq; done))
      all_goals try (split <;> (try simp only [final_ok]) <;> try (ord_ch_leaf hq; done))
      -- dispatch
      · rename_i s i _ h d hg _
        by_cases hs : s.okReady = true
        · have hr := okReady_cls hs
          rw [hr, hR.eq] at hg
          have hk' : (handlersOf c0.L .inputReady).length = 0 := hk
          rw [List.length_eq_zero_iff.mp hk', List.nil_append] at hg
          have hlt : i < c.A.ihs.length := by
            have := (List.getElem?_eq_some_iff.mp hg).1
            simpa using this
          rw [List.getElem?_map, List.getElem?_range hlt] at hg
          simp only [Option.map_some, Option.some.injEq, Prod.mk.injEq] at hg
          obtain ⟨rfl, rfl⟩ := hg
          exact .inr (.inl ⟨i, none, s, rest, rfl, hq⟩)
        · apply chainOK_of_tail
          simp [Instr.pre, hs, hq]
      -- identCheck
      · exact chainOK_of_quiet (quiet_of_le hq (nPre_sublist (List.dropWhile_sublist _)))
      -- printWidget
      · apply chainOK_of_quiet
        simp only [Quiet, push_code, nPre_append, hq, Nat.add_zero]
        exact nPre_go _ _ _ _ _ (nPre_nil _)

theorem chainOK_reach {P : Prog} {c0 c : Cfg} (h0 : Started c0) (hU : UserHandlers c0) (hk : k0 c0 = 0)
    (h : Reach P c0 c) : ChainOK c.code := by
  refine reach_induction (I := fun c => ChainOK c.code) ?_ ?_ ?_ h
  · obtain ⟨i, hs, q, sin, rfl⟩ := h0
    apply chainOK_of_quiet
    simp [Quiet, initCfg, nPre_acts, Instr.pre]
  · intro c hr hi
    exact chainOK_step P c hk (readyHandlers_reach h0 hU hr) hi
  · intro c c' _ hi hd
    rw [Input.deliver_code hd]; exact hi


/-! ### the order theorem, static form -/

theorem k0_of_noReadyHandler {c0 : Cfg} (h : NoReadyHandler c0) : k0 c0 = 0 := by
  unfold k0 handlersOf
  rw [List.length_map, List.length_eq_zero_iff, List.filter_eq_nil_iff]
  intro x hx
  simpa using h x hx

theorem takeQuiet_reach {P : Prog} {c0 c : Cfg} (h0 : Started c0) (hU : UserHandlers c0) (hH : NoReadyHandler c0)
    (h : Reach P c0 c) : TakeQuiet (k0 c0) c := by
  rw [k0_of_noReadyHandler hH]
  exact takeQuiet_of_chainOK (chainOK_reach h0 hU (k0_of_noReadyHandler hH) h)

theorem order_reach_static {P : Prog} {c0 c : Cfg} (h0 : Started c0) (hU : UserHandlers c0) (hF : NoForge P c0)
    (hH : NoReadyHandler c0) (hr : Reach P c0 c) (hN1 : NoReadyCovered c.tr) :
    (inputLines c.log).Sublist (readLines c.log) := by
  have := ordInv_reach_static h0 hU hF (fun c hc => takeQuiet_reach h0 hU hH hc) hr hN1
  unfold OrdInv ordL at this
  exact (List.sublist_append_left _ _).trans this

end Simpleline.InputOrder
