/-
  C06b: `OrdInv` is preserved by every machine step, given the history hypotheses `NoReadyCovered` and
  `NoReadyReentry` for the configuration the step ends in.
-/
import Simpleline.Lemmas.InputOrderOrd

namespace Simpleline.InputOrder
open Input

theorem lines_callScr (k : Nat) (scr : Nat) (cb : Cb) (arg : Option Nat) (key : Option Str) :
    (Instr.callScr scr cb arg key).lines k = (Ev.cb scr cb arg key).inputLine?.toList := by
  cases cb <;> cases key <;> simp [Instr.lines, Instr.pre, Instr.post, Ev.inputLine?]

theorem sub_drop_head {D H K Q F R : List Str} (h : (D ++ ((H ++ K) ++ (Q ++ F))).Sublist R) :
    (D ++ (K ++ (Q ++ F))).Sublist R := by
  refine List.Sublist.trans ?_ h
  exact (List.Sublist.refl D).append ((List.sublist_append_right H K).append (List.Sublist.refl _))

theorem sub_drop_queue {D K Q F R : List Str} (h : (D ++ (K ++ (Q ++ F))).Sublist R) :
    (D ++ (K ++ F)).Sublist R := by
  refine List.Sublist.trans ?_ h
  exact (List.Sublist.refl D).append ((List.Sublist.refl K).append (List.sublist_append_right Q F))

theorem sub_code {D K K' Q F R : List Str} (hk : K'.Sublist K) (h : (D ++ (K ++ (Q ++ F))).Sublist R) :
    (D ++ (K' ++ (Q ++ F))).Sublist R := by
  refine List.Sublist.trans ?_ h
  exact (List.Sublist.refl D).append (hk.append (List.Sublist.refl _))

theorem OrdInv_emit {k : Nat} (P : Prog) (X : Cfg) (e : Ev) (he : e.isRead = false)
    (h : (inputLines X.log ++ (e.inputLine?.toList ++ (Qc k X.code ++ (readyQ X.L.queues X.L.active ++
      flyL X.A.processing X.A.readers X.log)))).Sublist (readLines X.log)) : OrdInv k (X.emit P e) := by
  unfold OrdInv ordL
  rw [emit_code]
  exact ord_emit P X e _ he h

theorem OrdInv_emit_push {k : Nat} (P : Prog) (X : Cfg) (e : Ev) (is : List Instr) (he : e.isRead = false)
    (h : (inputLines X.log ++ (e.inputLine?.toList ++ (Qc k (is ++ X.code) ++ (readyQ X.L.queues X.L.active ++
      flyL X.A.processing X.A.readers X.log)))).Sublist (readLines X.log)) : OrdInv k (push (X.emit P e) is) := by
  unfold OrdInv ordL
  simp only [push_log, push_code, push_L, push_A, emit_code]
  exact ord_emit P X e _ he h

/-- `process_signals`' own take (no waiting for the reader thread) -/
theorem OrdInv_pop {k : Nat} (c1 : Cfg) (e : Int × Nat × Sig) (es : List (Int × Nat × Sig)) (is : List Instr)
    (he : c1.L.activeQ.entries = e :: es)
    (his : Qc k is = (if e.2.2.okReady = true then [e.2.2.line] else []))
    (hN : NoReadyReentry (.take c1.L.active e.2.2 :: c1.tr) ∨ nPre k c1.code = 0)
    (hD : DepthOK k c1) (hP : postFree c1.code) (h : OrdInv k c1) : OrdInv k (push (c1.pop e es) is) := by
  unfold OrdInv ordL at h ⊢
  simp only [push_log, pop_log, push_code, pop_code, Qc_append, his, push_L, push_A, pop_A]
  have hq : readyQ (c1.pop e es).L.queues (c1.pop e es).L.active = readyL es := readyQ_pop he
  rw [hq]
  rw [readyQ_of_activeQ he] at h
  by_cases hs : e.2.2.okReady = true
  · have : Qc k c1.code = [] := by
      rcases hN with hN | hN
      · exact Qc_nil_of_take (c1 := c1) (c2 := c1) hN hs (Or.inl rfl) hD hP rfl
      · exact Qc_eq_nil hN hP
    simp only [hs, if_true, this, List.append_nil, List.nil_append] at h ⊢
    simpa [List.append_assoc] using h
  · simp only [hs] at h ⊢
    simpa using h

/-- the instructions that take a signal from the active queue -/
def _root_.Simpleline.Instr.isTakeI : Instr → Bool
  | .getDispatch | .waitStep .. | .procIter _ => true
  | _ => false

/-- when the next instruction takes a signal, the rest of the code carries no successful `InputReadySignal`
towards its handler (the static alternative to `NoReadyReentry`) -/
def TakeQuiet (k : Nat) (c : Cfg) : Prop :=
  ∀ ins rest, c.code = ins :: rest → ins.isTakeI = true → nPre k rest = 0

macro "ord_close" hf:ident : tactic => `(tactic|
  (simp [OrdInv, ordL, Instr.lines, Instr.pre, Instr.post, readyQ_enqueue, Sig.okReady, Cfg.newSig, Qc_acts,
      Cfg.write, Cfg.trace] at $hf:ident ⊢ <;> exact $hf))

macro "ord_leaf" hf:ident : tactic => `(tactic| first
    | (intro _; (with_reducible apply OrdInv_of_Le (OrdLe_raise _ _ _)); ord_close $hf)
    | (intro _; ord_close $hf))

theorem ord_step {c0 : Cfg} (P : Prog) (c : Cfg) (hc : cleanCode c.code) (hR : ReadyHandlers c0 c)
    (hD : DepthOK (k0 c0) c) (hPT : PostTop c)
    (hcov : ∀ q ∈ c.L.levels.dropLast, ∀ s ∈ (c.queue q).sigs, s.okReady = false)
    (hI : InputInv c0 c) (hL : LastInv c) (hW : WF c.view) (hlev : levelsOf c.tr = c.L.levels)
    (hN1 : NoReadyCovered (final (step P c)).tr)
    (hN2 : NoReadyReentry (final (step P c)).tr ∨ TakeQuiet (k0 c0) c)
    (hf : OrdInv (k0 c0) c) : OrdInv (k0 c0) (final (step P c)) := by
  by_cases hir : ∃ s rest, c.code = .inputReceived s :: rest
  · obtain ⟨s, rest, hcode⟩ := hir
    exact OrdInv_inputReceived P c s rest hcode hI hL hW hlev hN1 hf
  have hir' : ∀ s rest, ¬ c.code = .inputReceived s :: rest := fun s rest h => hir ⟨s, rest, h⟩
  clear hN1 hI hL hlev
  revert hN2
  unfold step
  split
  · intro _; simpa using hf
  · rename_i ins rest hcode
    rw [hcode] at hc
    simp only [cleanCode_cons] at hc
    obtain ⟨hins, hrest⟩ := hc
    clear hrest
    have hf' : (inputLines c.log ++ ((ins.lines (k0 c0) ++ Qc (k0 c0) rest) ++ (readyQ c.L.queues c.L.active ++
        flyL c.A.processing c.A.readers c.log))).Sublist (readLines c.log) := by
      unfold OrdInv ordL at hf; rw [hcode, Qc_cons] at hf; exact hf
    clear hf
    have hD' : DepthOK (k0 c0) { c with code := rest } := by
      unfold DepthOK at hD ⊢
      rw [hcode, nPre_cons] at hD
      exact Nat.le_trans (Nat.le_add_left _ _) hD
    have hP' : postFree rest := by
      unfold PostTop at hPT; rw [hcode] at hPT; exact hPT
    clear hD hPT
    split
    all_goals try (exact absurd hcode (hir' _ _))
    all_goals clear hir hir'
    all_goals try simp only [Instr.clean, Bool.not_eq_eq_eq_not, Bool.not_true, decide_eq_true_eq] at hins
    all_goals dsimp only
    all_goals try (ord_leaf hf'; done)
    all_goals try (split <;> try (ord_leaf hf'; done))
    all_goals try (split <;> try (ord_leaf hf'; done))
    all_goals try (split <;> try (ord_leaf hf'; done))
    all_goals try (split <;> try (ord_leaf hf'; done))
    -- act
    · intro _
      refine OrdInv_of_Le (OrdLe_doAct _ _ _ hins) ?_
      ord_close hf'
    -- quitCb
    · intro _
      refine OrdInv_emit P _ _ rfl ?_
      ord_close hf'
    -- getDispatch
    · intro hN
      refine OrdInv_take _ (fun s => [Instr.processSignal s]) (fun s => ?_) (hN.imp id (fun h => h _ _ hcode rfl))
        hD' hP' ?_
      · simp [Instr.lines, Instr.pre, Instr.post]
      · ord_close hf'
    -- processSignal: no handler
    · intro _
      have := sub_drop_head hf'
      ord_close this
    · intro _
      have := sub_drop_head hf'
      ord_close this
    -- dispatch
    · intro _
      have := sub_drop_head hf'
      ord_close this
    · intro _
      rw [← lines_dispatch hR ‹_›] at hf'
      simp only [OrdInv, ordL, final_ok, push_code, push_log, push_L, push_A, List.cons_append, List.nil_append,
        Qc_cons]
      have e : Instr.lines (k0 c0) Instr.catchHandler = [] := rfl
      rw [e]
      simpa [List.append_assoc] using hf'
    · intro _
      have := sub_drop_head hf'
      ord_close this
    -- callH exc
    · intro _
      refine OrdInv_emit P _ _ rfl ?_
      ord_close hf'
    -- callH user
    · intro _
      refine OrdInv_emit_push P _ _ _ rfl ?_
      ord_close hf'
    -- hret, note
    · intro _
      refine OrdInv_emit P _ _ rfl ?_
      ord_close hf'
    · intro _
      refine OrdInv_emit P _ _ rfl ?_
      ord_close hf'
    -- waitStep
    · intro hN
      refine OrdInv_take _ (fun s => [Instr.processSignal s, _]) (fun s => ?_)
        (hN.imp id (fun h => h _ _ hcode rfl)) hD' hP' ?_
      · simp [Instr.lines, Instr.pre, Instr.post]
      · ord_close hf'
    -- procIter
    · intro hN
      refine OrdInv_pop { c with code := rest } _ _ _ ‹_› ?_ (hN.imp id (fun h => h _ _ hcode rfl)) hD' hP' ?_
      · simp [Instr.lines, Instr.pre, Instr.post]
      · ord_close hf'
    · intro hN
      refine OrdInv_pop { c with code := rest } _ _ _ ‹_› ?_ (hN.imp id (fun h => h _ _ hcode rfl)) hD' hP' ?_
      · simp [Instr.lines, Instr.pre, Instr.post]
      · ord_close hf'
    -- newLoop
    · rename_i s _
      intro _
      have hs : s.okReady = false := okReady_of_cls (fun h => by rw [h] at hins; cases hins)
      have := sub_drop_queue (sub_drop_head hf')
      simp only [OrdInv, ordL, final_ok, push_code, push_log, push_L, push_A, enqueue_log, enqueue_A,
        enqueue_active, trace_log, trace_A, trace_L, readyQ_enqueue _ _ _ hs, readyQ_append_empty_new,
        List.cons_append, List.nil_append, Qc_cons]
      simpa [Instr.lines, Instr.pre, Instr.post] using this
    -- popLevel
    · rename_i a ha
      intro _
      have hq : readyQ c.L.queues a = [] := by
        apply readyL_eq_nil
        intro e he
        have hm : a ∈ c.L.levels.dropLast := List.mem_of_getLast? ha
        exact hcov a hm e.2.2 (List.mem_map.mpr ⟨e, he, rfl⟩)
      have := sub_drop_queue (sub_drop_head hf')
      simp only [OrdInv, ordL, final_ok, trace_log, trace_code, trace_A, trace_L, hq, List.nil_append]
      exact this
    -- identCheck
    · intro _
      simp only [OrdInv, ordL, final_ok]
      exact sub_code (Qc_sublist (List.dropWhile_sublist _)) (sub_drop_head hf')
    -- callScr
    · intro _
      rw [lines_callScr] at hf'
      refine OrdInv_emit_push P _ _ _ rfl ?_
      simpa [Qc_acts, Instr.lines, Instr.pre, Instr.post, List.append_assoc] using hf'
    · intro _
      rw [lines_callScr] at hf'
      refine OrdInv_emit_push P _ _ _ rfl ?_
      simpa [Qc_acts, Instr.lines, Instr.pre, Instr.post, List.append_assoc] using hf'
    -- printWidget
    · intro _
      have := sub_drop_head hf'
      simp only [OrdInv, ordL, final_ok, push_code, push_log, push_L, push_A, Qc_append,
        Qc_go _ _ _ _ _ (Qc_nil _), List.nil_append]
      exact this
    -- getInput2
    · intro _
      apply OrdInv_startRequest
      simp only [newIH]
      ord_close hf'
    -- blockingInput
    · intro _
      apply OrdInv_startRequest
      simp only [newIH]
      ord_close hf'
    · intro _
      apply OrdInv_startRequest
      simp only [newIH]
      ord_close hf'
    · intro _
      apply OrdInv_startRequest
      simp only [newIH]
      ord_close hf'
    -- inputReady
    · intro _
      have := sub_drop_head hf'
      ord_close this
    · intro _
      have := sub_drop_head hf'
      ord_close this
    · rename_i n s hih hnok _ _ _
      intro _
      have hok : s.ok = true := by simpa using hnok
      have hih' : s.ih = n := by simpa using hih
      have hl : Instr.lines (k0 c0) (Instr.inputReady n s) = [s.line] := by
        simp [Instr.lines, Instr.pre, Instr.post, Sig.okReady, hins, hok, hih']
      rw [hl] at hf'
      ord_close hf'
    · intro _
      have := sub_drop_head hf'
      ord_close this

end Simpleline.InputOrder
