/-
  Pure lemmas about the history predicates of `Spec/InputOrderSpec.lean` (C06b): they are closed under
  going back in time, `readyPending` counts the successful `InputReadySignal`s of the replayed queue, and a
  history without `execute_new_loop` never has a covered level.
-/
import Simpleline.Spec.InputOrderSpec
import Simpleline.Spec.LoopSpec

namespace Simpleline.InputOrder

/-! ### earlier moments -/

theorem noReadyCovered_suffix {a b : List Tr} (h : NoReadyCovered (a ++ b)) : NoReadyCovered b := by
  induction a with
  | nil => exact h
  | cons t a ih => exact ih h.2

theorem noReadyCovered_now {tr : List Tr} (h : NoReadyCovered tr) : coveredFree tr := by
  cases tr with
  | nil => intro q hq; simp [levelsOf] at hq
  | cons t tr => exact h.1

theorem noReadyReentry_cons {t : Tr} {tr : List Tr} (h : NoReadyReentry (t :: tr)) : NoReadyReentry tr := by
  cases t <;> first | exact h | exact h.2

theorem noReadyReentry_suffix {a b : List Tr} (h : NoReadyReentry (a ++ b)) : NoReadyReentry b := by
  induction a with
  | nil => exact h
  | cons t a ih => exact ih (noReadyReentry_cons h)

theorem noReadyReentry_take {q : Nat} {s : Sig} {tr : List Tr} (h : NoReadyReentry (.take q s :: tr))
    (hs : s.okReady = true) : readyInDispatch tr = false := h.1 hs

/-! ### nesting depth of `InputReadySignal` dispatches -/

/-- how many successful `InputReadySignal`s have been taken for dispatch and not yet handed to the handler of
their `InputHandler` (hypothesis-free version of `readyInDispatch`) -/
def readyDepth : List Tr → Nat
  | [] => 0
  | .take _ s :: tr => readyDepth tr + (if s.okReady = true then 1 else 0)
  | .call (.ih n) _ s :: tr => readyDepth tr - (if s.okReady = true ∧ s.ih = n then 1 else 0)
  | _ :: tr => readyDepth tr

theorem readyDepth_eq {tr : List Tr} (h : NoReadyReentry tr) : readyDepth tr = (readyInDispatch tr).toNat := by
  induction tr with
  | nil => rfl
  | cons t tr ih =>
    have ih := ih (noReadyReentry_cons h)
    cases t with
    | take q s =>
      simp only [readyDepth, readyInDispatch]
      cases hs : s.okReady
      · simp [ih]
      · have := h.1 hs
        rw [this] at ih
        simp [ih]
    | call hr d s =>
      cases hr with
      | ih n =>
        simp only [readyDepth, readyInDispatch]
        split
        · have : (readyInDispatch tr).toNat ≤ 1 := by cases readyInDispatch tr <;> simp
          simp; omega
        · simp [ih]
      | _ => exact ih
    | _ => exact ih

/-- under `NoReadyReentry`, when a successful `InputReadySignal` is taken no other one is on its way -/
theorem readyDepth_zero_of_take {q : Nat} {s : Sig} {tr : List Tr} (h : NoReadyReentry (.take q s :: tr))
    (hs : s.okReady = true) : readyDepth tr = 0 := by
  rw [readyDepth_eq (noReadyReentry_cons h), h.1 hs]; rfl

/-! ### `readyPending` and the replayed queue -/

theorem countP_filter_split (p q : Sig → Bool) (l : List Sig) :
    (l.filter q).countP p + (l.filter (fun x => !q x)).countP p = l.countP p := by
  induction l with
  | nil => rfl
  | cons x xs ih =>
    simp only [List.filter_cons, List.countP_cons]
    cases hq : q x <;> simp [List.countP_cons] <;> omega

theorem countP_stableInsert (p : Sig → Bool) (s : Sig) (l : List Sig) :
    (stableInsert s l).countP p = l.countP p + (if p s = true then 1 else 0) := by
  unfold stableInsert
  rw [List.countP_append, List.countP_cons]
  have h := countP_filter_split p (fun x => decide (x.prio ≤ s.prio)) l
  have e : (fun x : Sig => !decide (x.prio ≤ s.prio)) = (fun x => decide (s.prio < x.prio)) := by
    funext x
    by_cases hx : x.prio ≤ s.prio
    · have : ¬ s.prio < x.prio := by omega
      simp [hx, this]
    · have : s.prio < x.prio := by omega
      simp [hx, this]
  rw [e] at h
  omega

theorem countP_tail_of_head (p : Sig → Bool) {l : List Sig} {s : Sig} (h : l.head? = some s) :
    l.tail.countP p = l.countP p - (if p s = true then 1 else 0) := by
  cases l with
  | nil => cases h
  | cons x xs =>
    simp only [List.head?_cons, Option.some.injEq] at h
    subst h
    simp only [List.tail_cons, List.countP_cons]
    split <;> simp

/-- the history's count is the number of successful `InputReadySignal`s in the replayed stable priority queue -/
theorem readyPending_eq_replay (q : Nat) {tr : List Tr} (h : TakesAreHeads tr) :
    readyPending q tr = (replayQ q tr).countP Sig.okReady := by
  induction tr with
  | nil => rfl
  | cons t tr ih =>
    cases t with
    | enq q' s =>
      have ih := ih h
      simp only [readyPending, replayQ]
      by_cases hq : q' = q
      · simp only [hq, true_and, if_true, countP_stableInsert, ih]
      · simp only [hq, false_and, if_false, ih, Nat.add_zero]
    | take q' s =>
      have ih := ih h.2
      simp only [readyPending, replayQ]
      by_cases hq : q' = q
      · subst hq
        simp only [true_and, if_true, ih]
        rw [countP_tail_of_head _ h.1]
      · simp only [hq, false_and, if_false, ih, Nat.sub_zero]
    | _ => exact ih h

/-! ### a single level -/

def _root_.Simpleline.Tr.isStruct : Tr → Bool
  | .openLevel .. | .closeLevel .. | .forceQuit => true
  | _ => false

theorem levelsOf_cons_other (t : Tr) (tr : List Tr) (h : t.isStruct = false) : levelsOf (t :: tr) = levelsOf tr := by
  cases t <;> first | rfl | cases h

theorem levelsOf_length_of_noOpen {tr : List Tr} (h : NoOpenLevel tr) : (levelsOf tr).length ≤ 1 := by
  induction tr with
  | nil => simp [levelsOf]
  | cons t tr ih =>
    have ih := ih (fun t' ht' => h t' (List.mem_cons_of_mem _ ht'))
    cases t with
    | openLevel q r => exact absurd rfl (h _ List.mem_cons_self q r)
    | closeLevel q => simp only [levelsOf, List.length_dropLast]; omega
    | forceQuit => simp [levelsOf]
    | _ => exact ih

theorem noReadyCovered_of_noOpen {tr : List Tr} (h : NoOpenLevel tr) : NoReadyCovered tr := by
  induction tr with
  | nil => trivial
  | cons t tr ih =>
    refine ⟨?_, ih (fun t' ht' => h t' (List.mem_cons_of_mem _ ht'))⟩
    intro q hq
    have := levelsOf_length_of_noOpen h
    have hl : (levelsOf (t :: tr)).dropLast = [] := by
      rw [← List.length_eq_zero_iff, List.length_dropLast]; omega
    rw [hl] at hq; cases hq

end Simpleline.InputOrder
