/-
  C06b: the history predicates of `Spec/InputOrderSpec.lean` describe the state. The replayed level stack
  `levelsOf c.tr` is `c.L.levels` in every reachable configuration, and `readyPending q c.tr` is the number of
  successful `InputReadySignal`s in queue object `q` (through `C01_history`). Hence under `NoReadyCovered`
  no covered level holds such a signal.
-/
import Simpleline.Lemmas.InputOrderTrace
import Simpleline.Lemmas.LoopProps

namespace Simpleline.InputOrder

def LevOK (v : QView) : Prop := levelsOf v.tr = v.levels

theorem isStruct_of_boring {t : Tr} (h : t.boring = true) : t.isStruct = false := by
  cases t <;> first | rfl | cases h

theorem LevOK.note {v : QView} (h : LevOK v) (t : Tr) (ht : t.isStruct = false) : LevOK (v.note t) := by
  show levelsOf (t :: v.tr) = v.levels
  rw [levelsOf_cons_other t _ ht]; exact h

theorem LevOK.enq {v : QView} (h : LevOK v) (s : Sig) : LevOK (v.enq s) := by
  unfold LevOK
  rw [enq_tr, enq_levels, levelsOf_cons_other _ _ (by split <;> rfl)]
  exact h

theorem LevOK.enqSteps {v v' : QView} (hs : EnqSteps v v') (h : LevOK v) : LevOK v' := by
  induction hs with
  | refl => exact h
  | enq s _ ih => exact ih.enq s
  | note t hb _ ih => exact ih.note t (isStruct_of_boring hb)

theorem LevOK.struct {v v' : QView} (hs : StructOp v v') (h : LevOK v) : LevOK v' := by
  cases hs with
  | addSrc s => exact h
  | forceQuit => rfl
  | apprun => exact h
  | setRun => exact h
  | «open» hf =>
    show levelsOf (Tr.openLevel _ _ :: v.tr) = v.levels ++ [_]
    simp only [levelsOf]; rw [h]
  | pop q hq =>
    unfold LevOK
    rw [pop_levels]
    have : (v.pop q).tr = .closeLevel q :: v.tr := by unfold QView.pop; split <;> rfl
    rw [this]
    simp only [levelsOf]; rw [h]

theorem LevOK.plain {v v' : QView} (hp : Plain v v') (h : LevOK v) : LevOK v' := by
  obtain ⟨vm, h1, h2⟩ := hp
  rcases h1 with rfl | h1
  · exact h.enqSteps h2
  · exact (h.struct h1).enqSteps h2

theorem LevOK.takeV {v v' : QView} (ht : TakeV v v') (h : LevOK v) : LevOK v' := by
  obtain ⟨e, es, _, rfl⟩ := ht
  exact h

theorem LevOK.eff {c c' : Cfg} (he : Eff c c') (h : LevOK c.view) : LevOK c'.view := by
  rcases he with hp | ⟨vm, h1, h2⟩ | ⟨e, es, _, h2⟩
  · exact h.plain hp
  · rcases h1 with rfl | ⟨_, d, hd, rfl⟩
    · exact h.takeV h2
    · exact (h.plain (Plain.deliver hd Plain.rfl')).takeV h2
  · rw [h2]; exact h

theorem levOK_reach {P : Prog} {c0 c : Cfg} (h0 : Started c0) (h : Reach P c0 c) : levelsOf c.tr = c.L.levels := by
  show LevOK c.view
  induction h with
  | init => obtain ⟨i, hd, qc, si, rfl⟩ := h0; rfl
  | step _ hs ih => exact ih.eff (trans_eff (.step hs))
  | deliver _ hd ih => exact ih.eff (trans_eff (P := P) (.deliver hd))
  | halt _ hs ih => exact ih.eff (trans_eff (.halt hs))

/-- the history's count is the state's -/
theorem readyPending_reach {P : Prog} {c0 c : Cfg} (h0 : Started c0) (h : Reach P c0 c) (q : Nat) :
    readyPending q c.tr = (c.queue q).sigs.countP Sig.okReady := by
  have wf := WF.reach h0 h
  have := wf.replay q
  show _ = (c.view.queue q).sigs.countP _
  rw [this]
  exact readyPending_eq_replay q wf.heads

/-- under `NoReadyCovered` no covered level holds a successful `InputReadySignal` -/
theorem covered_no_ready {P : Prog} {c0 c : Cfg} (h0 : Started c0) (h : Reach P c0 c) (hN : NoReadyCovered c.tr) :
    ∀ q ∈ c.L.levels.dropLast, ∀ s ∈ (c.queue q).sigs, s.okReady = false := by
  intro q hq s hs
  have h1 := noReadyCovered_now hN q (by rw [levOK_reach h0 h]; exact hq)
  rw [readyPending_reach h0 h q, List.countP_eq_zero] at h1
  simpa using h1 s hs

end Simpleline.InputOrder
