/-
  What one machine step does to the input pipeline's state (C06, C18):
  * `step_frame`: every instruction other than the four input operations (`getInput2`,
    `blockingInput`, `inputReceived`, `inputReady`) leaves handlers, requests, request stack, busy
    flag, registered handlers and the screens' input arguments alone, and at most lets the reader thread
    deliver one line (`InpFrame`);
  * exact descriptions of `startRequest` and of the four input operations.
-/
import Simpleline.Lemmas.InputOps

namespace Simpleline.Input

/-! ### `readLines` -/

def _root_.Simpleline.Ev.isRead : Ev → Bool
  | .read _ => true
  | _ => false

theorem readLines_cons_read (l : Str) (log : List Ev) : readLines (.read l :: log) = readLines log ++ [l] := by
  simp [readLines]

theorem readLines_cons (e : Ev) (log : List Ev) (h : e.isRead = false) : readLines (e :: log) = readLines log := by
  cases e <;> simp_all [readLines, Ev.isRead]

/-! ### the frame of a step -/

def _root_.Simpleline.Instr.isInputOp : Instr → Bool
  | .getInput2 .. | .blockingInput .. | .inputReceived _ | .inputReady .. => true
  | _ => false

/-- nothing of the input pipeline changed -/
def Same (c c' : Cfg) : Prop :=
  c'.A.ihs = c.A.ihs ∧ c'.A.reqs = c.A.reqs ∧ c'.A.inputStack = c.A.inputStack ∧
  c'.A.processing = c.A.processing ∧ c'.L.handlers = c.L.handlers ∧
  (∀ j, (c'.A.screens.getD j {}).inputArgs = (c.A.screens.getD j {}).inputArgs) ∧
  c'.A.readers = c.A.readers ∧ c'.A.stdin = c.A.stdin ∧ readLines c'.log = readLines c.log

/-- the reader thread delivered the next line -/
def Delivered (c c' : Cfg) : Prop :=
  c.A.readers ≠ [] ∧ c'.A.readers = c.A.readers.tail ∧ c'.A.stdin = c.A.stdin.tail ∧
    readLines c'.log = readLines c.log ++ [c.A.stdin.headD []]

structure InpFrame (c c' : Cfg) : Prop where
  ihs : c'.A.ihs = c.A.ihs
  reqs : c'.A.reqs = c.A.reqs
  inputStack : c'.A.inputStack = c.A.inputStack
  processing : c'.A.processing = c.A.processing
  handlers : c'.L.handlers = c.L.handlers
  inputArgs : ∀ j, (c'.A.screens.getD j {}).inputArgs = (c.A.screens.getD j {}).inputArgs
  reader : (c'.A.readers = c.A.readers ∧ c'.A.stdin = c.A.stdin ∧ readLines c'.log = readLines c.log) ∨
    Delivered c c'

theorem InpFrame_of_same {c c' : Cfg} (h : Same c c') : InpFrame c c' := by
  obtain ⟨h1, h2, h3, h4, h5, h6, h7, h8, h9⟩ := h
  exact ⟨h1, h2, h3, h4, h5, h6, Or.inl ⟨h7, h8, h9⟩⟩

theorem InpFrame_congr {c c1 c2 : Cfg} (hA : c2.A = c1.A) (hH : c2.L.handlers = c1.L.handlers) (hl : c2.log = c1.log)
    (h : InpFrame c c1) : InpFrame c c2 := by
  obtain ⟨h1, h2, h3, h4, h5, h6, h7⟩ := h
  refine ⟨?_, ?_, ?_, ?_, ?_, ?_, ?_⟩ <;> simp only [hA, hH, hl, Delivered] <;> assumption

theorem InpFrame_push {c c1 : Cfg} (is : List Instr) (h : InpFrame c c1) : InpFrame c (push c1 is) :=
  InpFrame_congr (c1 := c1) rfl rfl rfl h

theorem InpFrame_deliver {c c1 c' : Cfg} (hs : Same c c1) (h : c1.deliver = some c') : InpFrame c c' := by
  obtain ⟨h1, h2, h3, h4, h5, h6, h7, h8, h9⟩ := hs
  obtain ⟨r, rs, hr, rfl⟩ := deliver_eq h
  refine ⟨by simpa, by simpa, by simpa, by simpa, by simpa, by simpa, Or.inr ?_⟩
  refine ⟨by rw [← h7, hr]; simp, by simp [← h7, hr], by simp [h8], ?_⟩
  simp [readLines_cons_read, h9, h8]

theorem InpFrame_emit {c c1 : Cfg} (P : Prog) (e : Ev) (hs : Same c c1) (he : e.isRead = false) :
    InpFrame c (c1.emit P e) := by
  have hs0 : Same c (emit0 c1 e) := by
    obtain ⟨h1, h2, h3, h4, h5, h6, h7, h8, h9⟩ := hs
    exact ⟨h1, h2, h3, h4, h5, h6, h7, h8, by simp [readLines_cons _ _ he, h9]⟩
  rcases emit_cases P c1 e with h | h
  · rw [h]; exact InpFrame_of_same hs0
  · exact InpFrame_deliver hs0 h

theorem InpFrame_raise {c c1 : Cfg} (k : Kind) (hs : Same c c1) : InpFrame c (final (c1.raise k)) := by
  apply InpFrame_of_same
  obtain ⟨h1, h2, h3, h4, h5, h6, h7, h8, h9⟩ := hs
  refine ⟨?_, ?_, ?_, ?_, ?_, ?_, ?_, ?_, ?_⟩ <;> simpa

theorem InpFrame_take {c c1 : Cfg} (hs : Same c c1) (f : Sig → List Instr) :
    InpFrame c (final (do let x ← c1.take; pure (push x.2 (f x.1)))) := by
  obtain ⟨c2, h2, h3⟩ := take_cases c1
  have hf : InpFrame c c2 := by
    rcases h2 with rfl | h2
    · exact InpFrame_of_same hs
    · exact InpFrame_deliver hs h2
  rcases h3 with ⟨_, h3⟩ | ⟨e, es, _, h3⟩
  · rw [h3]; exact hf
  · rw [h3]; exact InpFrame_congr (c1 := c2) (c2 := push (c2.pop e es) (f e.2.2)) rfl rfl rfl hf

theorem Same_refl (c : Cfg) : Same c c := ⟨rfl, rfl, rfl, rfl, rfl, fun _ => rfl, rfl, rfl, rfl⟩

macro "inp_frame_leaf" hs:ident : tactic => `(tactic| first
    | exact InpFrame_raise _ $hs
    | (apply InpFrame_of_same; simpa [Same, push, Cfg.write] using $hs))

theorem doAct_frame (c c1 : Cfg) (a : Act) (hs : Same c c1) : InpFrame c (final (doAct c1 a)) := by
  unfold doAct
  split <;> (try dsimp only) <;>
    first
    | inp_frame_leaf hs
    | (split <;> inp_frame_leaf hs)

macro "inp_same_tac" : tactic => `(tactic|
  (simp [Same, push, Cfg.write, setScr_getElem?, Ev.isRead] <;> (try (intro j; split <;> rfl))))

macro "inp_frame_step" : tactic => `(tactic| first
    | (apply InpFrame_of_same; inp_same_tac; done)
    | (apply InpFrame_raise; inp_same_tac; done)
    | (apply InpFrame_push; apply InpFrame_emit <;> inp_same_tac; done)
    | (apply InpFrame_emit <;> inp_same_tac; done)
    | (apply InpFrame_take (f := fun s => [Instr.processSignal s]); inp_same_tac; done)
    | (apply InpFrame_take (f := fun s => [Instr.processSignal s, _]); inp_same_tac; done)
    | (apply doAct_frame; inp_same_tac; done))

theorem step_frame (P : Prog) (c : Cfg) (hb : ∀ ins rest, c.code = ins :: rest → ins.isInputOp = false) :
    InpFrame c (final (step P c)) := by
  unfold step
  split
  · exact InpFrame_of_same (Same_refl c)
  · rename_i ins rest hcode
    have hb := hb ins rest hcode
    split
    all_goals try (simp [Instr.isInputOp] at hb; done)
    all_goals dsimp only
    all_goals try simp only [final_ok]
    all_goals try (inp_frame_step; done)
    all_goals try (split <;> try (inp_frame_step; done))
    all_goals try (split <;> try (inp_frame_step; done))
    all_goals try (split <;> try (inp_frame_step; done))
    all_goals try (split <;> try (inp_frame_step; done))

/-! ### the four input operations, and the transition relation on the pipeline state -/

theorem step_getInput2_none (P : Prog) (c : Cfg) (scr : Nat) (args : Option Nat) (rest : List Instr)
    (hc : c.code = .getInput2 scr args :: rest) (hp : c.retPromptNone = true) :
    step P c = .ok { c with code := rest, A := c.A.setScr scr fun s => { s with err := 0 } } := by
  unfold step; simp only [hc, hp, if_true]

theorem step_getInput2_some (P : Prog) (c : Cfg) (scr : Nat) (args : Option Nat) (rest : List Instr)
    (hc : c.code = .getInput2 scr args :: rest) (hp : c.retPromptNone = false) :
    step P c =
      startRequest (push (newIH { c with code := rest, A := c.A.setScr scr fun s => { s with inputArgs := args } }
          (.scr scr) (P.spec scr).skipCheck (some scr)).2 [])
        (newIH { c with code := rest, A := c.A.setScr scr fun s => { s with inputArgs := args } }
          (.scr scr) (P.spec scr).skipCheck (some scr)).1 (.scr scr) (promptText P defaultPrompt) := by
  unfold step; simp only [hc, hp, Bool.false_eq_true, if_false]; rfl

theorem step_blockingInput (P : Prog) (c : Cfg) (scr : Nat) (cont : Bool) (rest : List Instr)
    (hc : c.code = .blockingInput scr cont :: rest) :
    step P c =
      startRequest (push (newIH { c with code := rest } (.im scr) (P.spec scr).skipCheck none).2
          [.waitInput (newIH { c with code := rest } (.im scr) (P.spec scr).skipCheck none).1])
        (newIH { c with code := rest } (.im scr) (P.spec scr).skipCheck none).1 (.im scr) (blockingText P cont) := by
  unfold step; simp only [hc]; rfl

theorem Requested_congr {c c1 c' : Cfg} {h : IHandler} {t : Str} (hr : Requested c1 c' h t)
    (e1 : c1.A.ihs = c.A.ihs) (e2 : c1.A.reqs = c.A.reqs) (e3 : c1.L.handlers = c.L.handlers)
    (e4 : c1.A.stdin = c.A.stdin) (e6 : c1.log = c.log)
    (e7 : c1.A.inputStack = c.A.inputStack) (e8 : c1.A.processing = c.A.processing)
    (e9 : c1.A.readers = c.A.readers) (e10 : c1.A.out = c.A.out) : Requested c c' h t := by
  obtain ⟨h1, h2, h3, h4, h6, h7⟩ := hr
  rw [e1] at h1 h2 h3; rw [e2] at h2 h7; rw [e3] at h3; rw [e4] at h4; rw [e6] at h6
  rw [e7, e8, e9, e10] at h7
  exact ⟨h1, h2, h3, h4, h6, h7⟩

/-- What a transition does to the input pipeline's state: nothing but possibly a delivery (`frame`), a new
request by a screen (`getInput2`) or a blocking one (`blockingInput`), the hand-off, or a handler
receiving its result. -/
inductive InpTrans (c c' : Cfg) : Prop
  | frame : InpFrame c c' → InpTrans c c'
  | screenReq (scr : Nat) (args : Option Nat) (sk : Bool) (text : Str) :
      Requested c c' (freshIH (.scr scr) sk (some scr)) text →
      (∀ j, (c'.A.screens[j]?.getD {}).inputArgs = if scr = j then args else (c.A.screens[j]?.getD {}).inputArgs) →
      (∃ rest, c.code = .getInput2 scr args :: rest) → c.retPromptNone = false →
      InpTrans c c'
  | blockingReq (scr : Nat) (sk : Bool) (text : Str) :
      Requested c c' (freshIH (.im scr) sk none) text → c'.A.screens = c.A.screens → InpTrans c c'
  | handoff (s : Sig) (rest : List Instr) :
      c.code = .inputReceived s :: rest → c.A.inputStack ≠ [] →
      c'.A = { c.A with inputStack := [], processing := false } → c'.L.handlers = c.L.handlers → c'.log = c.log →
      InpTrans c c'
  | ready (n : Nat) (s : Sig) (rest : List Instr) (f : IHandler → IHandler) :
      c.code = .inputReady n s :: rest → s.ih = n →
      ((s.ok = false ∧ f = IHandler.failed) ∨ (s.ok = true ∧ f = (·.answered s.line))) →
      c'.A = { c.A with ihs := listSet c.A.ihs n f } → c'.L.handlers = c.L.handlers → c'.log = c.log →
      InpTrans c c'

theorem step_inpTrans (P : Prog) (c : Cfg) : InpTrans c (final (step P c)) := by
  cases hc : c.code with
  | nil => exact .frame (step_frame P c (by simp [hc]))
  | cons ins rest =>
    by_cases hi : ins.isInputOp = false
    · refine .frame (step_frame P c ?_)
      intro ins' rest' h'
      rw [hc] at h'
      cases h'; exact hi
    cases ins <;> simp [Instr.isInputOp] at hi
    · rename_i scr args
      cases hp : c.retPromptNone
      · rw [step_getInput2_some P c scr args rest hc hp]
        refine .screenReq scr args _ _ (Requested_congr (requested_of_newIH _ _ _ _ _ _) rfl rfl rfl rfl rfl rfl rfl rfl rfl) ?_
          ⟨rest, hc⟩ hp
        intro j
        rw [startRequest_screens]
        show ((c.A.setScr scr fun s => { s with inputArgs := args }).screens[j]?.getD {}).inputArgs = _
        rw [setScr_getElem?]
        split <;> rfl
      · rw [step_getInput2_none P c scr args rest hc hp]
        apply InpTrans.frame
        apply InpFrame_of_same
        inp_same_tac
    · rename_i scr cont
      rw [step_blockingInput P c scr cont rest hc]
      exact .blockingReq scr _ _ (Requested_congr (requested_of_newIH _ _ _ _ _ _) rfl rfl rfl rfl rfl rfl rfl rfl rfl)
        (startRequest_screens _ _ _ _)
    · rename_i s
      cases hst : c.A.inputStack.getLast? with
      | none =>
        rw [step_inputReceived_empty P c s rest hc (List.getLast?_eq_none_iff.mp hst)]
        exact .frame (InpFrame_raise _ (by inp_same_tac))
      | some r =>
        have hne : c.A.inputStack ≠ [] := by intro h; simp [h] at hst
        obtain ⟨rs, hst'⟩ := List.getLast?_eq_some_iff.mp hst
        obtain ⟨c', h1, h2, h3, h4, h5, h6, h7⟩ := step_inputReceived P c s rest rs r hc hst'
        rw [h1]
        refine .handoff s rest hc hne h2 ?_ h4
        have := congrArg (·.1.handlers) h7
        simpa [Cfg.LT] using this
    · rename_i n s
      rw [step_inputReady P c n s rest hc]
      by_cases h1 : s.ih = n
      · simp only [h1, ne_eq, not_true_eq_false, if_false, final_ok]
        cases hok : s.ok
        · exact .ready n s rest _ hc h1 (Or.inl ⟨hok, rfl⟩) rfl rfl rfl
        · exact .ready n s rest _ hc h1 (Or.inr ⟨hok, rfl⟩) rfl rfl rfl
      · simp only [ne_eq, h1, not_false_eq_true, if_true, final_ok]
        exact .frame (InpFrame_of_same (by inp_same_tac))

end Simpleline.Input
