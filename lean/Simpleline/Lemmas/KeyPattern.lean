/- Helper lemmas for C14 (decimal round trip, `processKey`). -/
import Simpleline.Model.KeyPattern

namespace Simpleline

/-! ### ASCII digits -/

theorem digitChar_ne_plus : ∀ d, d < 10 → digitChar d ≠ '+' := by decide
theorem digitChar_ne_minus : ∀ d, d < 10 → digitChar d ≠ '-' := by decide

theorem asciiClass_digit : ∀ d, d < 10 → asciiClass.digitVal (digitChar d) = some d := by decide
theorem asciiClass_digit_not_space : ∀ d, d < 10 → asciiClass.isIntSpace (digitChar d) = false := by
  decide
theorem asciiClass_minus_not_space : asciiClass.isIntSpace '-' = false := by decide
theorem asciiClass_minus_not_digit : asciiClass.digitVal '-' = none := by decide

/-! ### `natDigits` -/

/-- every character of `natDigits n` is an ASCII digit -/
theorem natDigits_mem (n : Nat) : ∀ c ∈ natDigits n, ∃ d, d < 10 ∧ c = digitChar d := by
  induction n using natDigits.induct with
  | case1 n h =>
    intro c hc
    rw [natDigits, if_pos h] at hc
    exact ⟨n, h, by simpa using hc⟩
  | case2 n h ih =>
    intro c hc
    rw [natDigits, if_neg h] at hc
    rcases List.mem_append.1 hc with hc | hc
    · exact ih c hc
    · exact ⟨n % 10, Nat.mod_lt _ (by omega), by simpa using hc⟩

theorem natDigits_ne_nil (n : Nat) : natDigits n ≠ [] := by
  rw [natDigits]; split <;> simp

/-- reading the digits of `n` (followed by anything) accumulates `n` -/
theorem digitsAux_natDigits_append (cc : CharClass)
    (hdig : ∀ d, d < 10 → cc.digitVal (digitChar d) = some d) (n : Nat) :
    ∀ (pd : Bool) (tl : List Char),
      digitsAux cc 0 pd (natDigits n ++ tl) = digitsAux cc n true tl := by
  induction n using natDigits.induct with
  | case1 n h =>
    intro pd tl
    rw [natDigits, if_pos h]
    simp [digitsAux, hdig n h]
  | case2 n h ih =>
    intro pd tl
    rw [natDigits, if_neg h, List.append_assoc, ih]
    have hm : n % 10 < 10 := Nat.mod_lt _ (by omega)
    simp only [List.singleton_append, digitsAux, hdig _ hm]
    congr 1
    omega

theorem digitsAux_natDigits (cc : CharClass)
    (hdig : ∀ d, d < 10 → cc.digitVal (digitChar d) = some d) (n : Nat) (pd : Bool) :
    digitsAux cc 0 pd (natDigits n) = some n := by
  have := digitsAux_natDigits_append cc hdig n pd []
  simpa [digitsAux] using this

/-! ### `stripBoth` -/

theorem dropWhile_eq_self_of_all_false (p : Char → Bool) (s : List Char)
    (h : ∀ c ∈ s, p c = false) : s.dropWhile p = s := by
  cases s with
  | nil => rfl
  | cons a l => simp [h a (by simp)]

theorem stripBoth_eq_self (p : Char → Bool) (s : List Char) (h : ∀ c ∈ s, p c = false) :
    stripBoth p s = s := by
  unfold stripBoth
  rw [dropWhile_eq_self_of_all_false p s h,
    dropWhile_eq_self_of_all_false p s.reverse (by simpa using h), List.reverse_reverse]

/-! ### `int()` of the decimal form -/

theorem pyInt_intRepr (cc : CharClass)
    (hdig : ∀ d, d < 10 → cc.digitVal (digitChar d) = some d)
    (hdns : ∀ d, d < 10 → cc.isIntSpace (digitChar d) = false)
    (hmns : cc.isIntSpace '-' = false)
    (z : Int) : pyInt cc (intRepr z) = some z := by
  have hsp : ∀ c ∈ natDigits z.natAbs, cc.isIntSpace c = false := by
    intro c hc
    obtain ⟨d, hd, rfl⟩ := natDigits_mem _ c hc
    exact hdns d hd
  by_cases hz : z < 0
  · -- negative
    have hs : stripBoth cc.isIntSpace ('-' :: natDigits z.natAbs) = '-' :: natDigits z.natAbs := by
      apply stripBoth_eq_self
      intro c hc
      rcases List.mem_cons.1 hc with rfl | hc
      · exact hmns
      · exact hsp c hc
    simp only [intRepr, if_pos hz, pyInt, hs, digitsAux_natDigits cc hdig]
    simp
    omega
  · -- non-negative: the first character is a digit, so neither sign
    obtain ⟨a, l, hal⟩ := List.exists_cons_of_ne_nil (natDigits_ne_nil z.natAbs)
    obtain ⟨d, hd, had⟩ := natDigits_mem _ a (by rw [hal]; simp)
    have h1 : a ≠ '+' := had ▸ digitChar_ne_plus d hd
    have h2 : a ≠ '-' := had ▸ digitChar_ne_minus d hd
    have hval : digitsAux cc 0 false (a :: l) = some z.natAbs := hal ▸ digitsAux_natDigits cc hdig _ _
    simp only [intRepr, if_neg hz, pyInt, stripBoth_eq_self _ _ hsp]
    rw [hal]
    split
    · rename_i heq; exact absurd (List.cons.inj heq).1 h1
    · rename_i heq; exact absurd (List.cons.inj heq).1 h2
    · rw [hval]; simp; omega

/-! ### `processKey` -/

/-- `Container.process_user_input` in terms of `int(key)` -/
theorem processKey_some (cc : CharClass) (kp : KeyPat) (cbs : List Bool) (k : List Char) :
    processKey cc (some kp) cbs (some k) =
      match pyInt cc k with
      | some z =>
        if 0 ≤ z - kp.offset ∧ (z - kp.offset).toNat < cbs.length then
          { handled := true,
            fired := if cbs.getD (z - kp.offset).toNat false then some (z - kp.offset).toNat else none }
        else { handled := false, fired := none }
      | none => { handled := false, fired := none } := by
  simp only [processKey, KeyPat.translate]
  cases pyInt cc k <;> rfl

theorem processKey_of_pyInt_index (cc : CharClass) (kp : KeyPat) (cbs : List Bool) (k : List Char)
    (i : Nat) (hi : i < cbs.length) (hk : pyInt cc k = some ((i : Int) + kp.offset)) :
    processKey cc (some kp) cbs (some k) =
      { handled := true, fired := if cbs.getD i false then some i else none } := by
  rw [processKey_some, hk]
  have h1 : (i : Int) + kp.offset - kp.offset = i := by omega
  simp [h1, hi]

theorem processKey_of_pyInt_none (cc : CharClass) (kp : KeyPat) (cbs : List Bool) (k : List Char)
    (hk : pyInt cc k = none) :
    processKey cc (some kp) cbs (some k) = { handled := false, fired := none } := by
  rw [processKey_some, hk]

theorem processKey_of_out_of_range (cc : CharClass) (kp : KeyPat) (cbs : List Bool) (k : List Char)
    (z : Int) (hk : pyInt cc k = some z)
    (hz : z - kp.offset < 0 ∨ (cbs.length : Int) ≤ z - kp.offset) :
    processKey cc (some kp) cbs (some k) = { handled := false, fired := none } := by
  rw [processKey_some, hk]
  simp only
  rw [if_neg]
  omega

theorem processKey_handled_iff (cc : CharClass) (kp : KeyPat) (cbs : List Bool) (k : List Char) :
    (processKey cc (some kp) cbs (some k)).handled = true ↔
      ∃ i, i < cbs.length ∧ pyInt cc k = some ((i : Int) + kp.offset) := by
  constructor
  · intro h
    rw [processKey_some] at h
    cases hp : pyInt cc k with
    | none => simp [hp] at h
    | some z =>
      simp only [hp] at h
      split at h
      · rename_i hc
        refine ⟨(z - kp.offset).toNat, hc.2, ?_⟩
        congr 1; omega
      · simp at h
  · rintro ⟨i, hi, hk⟩
    rw [processKey_of_pyInt_index cc kp cbs k i hi hk]

theorem processKey_none_left (cc : CharClass) (cbs : List Bool) (key : Option (List Char)) :
    processKey cc none cbs key = { handled := false, fired := none } := by
  unfold processKey; rfl

theorem processKey_none_right (cc : CharClass) (kp : Option KeyPat) (cbs : List Bool) :
    processKey cc kp cbs none = { handled := false, fired := none } := by
  unfold processKey; cases kp <;> rfl

theorem processKey_unhandled_fired (cc : CharClass) (kp : Option KeyPat) (cbs : List Bool)
    (key : Option (List Char)) (h : (processKey cc kp cbs key).handled = false) :
    (processKey cc kp cbs key).fired = none := by
  cases kp with
  | none => rw [processKey_none_left]
  | some kp =>
    cases key with
    | none => rw [processKey_none_right]
    | some k =>
      rw [processKey_some] at h ⊢
      split
      · rename_i z hz
        rw [hz] at h
        simp only at h
        split
        · rename_i hc; rw [if_pos hc] at h; simp at h
        · rfl
      · rfl

end Simpleline
