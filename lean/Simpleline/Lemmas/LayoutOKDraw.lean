/-
  Helper lemmas for C13b, part 3: the drawing of a list container stays within the right edge of
  its last band.
-/
import Simpleline.Lemmas.LayoutOKRender

namespace Simpleline

theorem rowsWithin_mono {W W' : Nat} (h : W ≤ W') {B : Grid} (hB : rowsWithin W B) : rowsWithin W' B :=
  fun x => Nat.le_trans (hB x) h

theorem rowsWithin_mem {W : Nat} {B : Grid} (hB : rowsWithin W B) : ∀ row ∈ B, row.length ≤ W := by
  intro row hrow
  have ⟨x, hx, hxr⟩ := List.getElem_of_mem hrow
  have := hB x
  rw [List.getD_eq_getElem?_getD, List.getElem?_eq_getElem hx, Option.getD_some, hxr] at this
  exact this

theorem rowsWithin_of_mem {W : Nat} {B : Grid} (h : ∀ row ∈ B, row.length ≤ W) : rowsWithin W B := by
  intro x
  rw [List.getD_eq_getElem?_getD]
  by_cases hx : x < B.length
  · rw [List.getElem?_eq_getElem hx, Option.getD_some]
    exact h _ (List.getElem_mem hx)
  · rw [List.getElem?_eq_none (by omega)]
    simp

/-- what `WidthOK` says about the widths of item `i` drawn at band position `colPos` -/
theorem widthOK_widths {used : Int} {labels : List (Option NumW)} {grids : List Grid}
    (wo : WidthOK used labels grids) (colPos i : Nat) (hi : i < grids.length) :
    (∀ r ∈ labelBuf labels i, colPos + r.length ≤ colPos + used.toNat) ∧
    (∀ r ∈ gridOf grids i, colPos + labelLen labels i + r.length ≤ colPos + used.toNat) := by
  constructor
  · intro r hr
    have h1 := wo.label_fits i hi r hr
    rcases wo.label_room i hi with h2 | h2
    · omega
    · rw [h2] at hr; cases hr
  · intro r hr
    rw [gridOf_eq grids i hi] at hr
    have := wo.item_fits i hi r hr
    omega

/-- every row of the drawing ends at or before the right edge of the last band drawn -/
theorem drawColumns_rowsWithin (used : Int) (spacing : Nat) (labels : List (Option NumW))
    (grids : List Grid) (rowH : Nat → Nat) (wo : WidthOK used labels grids) :
    ∀ (cols : List (List Nat)) (k : Nat) (s : WSt),
      (∀ ids ∈ cols, ∀ i ∈ ids, i < grids.length) →
      rowsWithin (colLeft used spacing k + used.toNat) s.buf →
      rowsWithin (colLeft used spacing (k + (cols.length - 1)) + used.toNat)
        (drawColumns used spacing labels grids rowH cols s (colLeft used spacing k)).buf := by
  intro cols
  induction cols with
  | nil =>
    intro k s _ hw
    simpa [drawColumns] using hw
  | cons ids cols ih =>
    intro k s hlt hw
    have hupos := wo.used_pos
    have hw' : rowsWithin (colLeft used spacing k + used.toNat)
        (drawColumn s (colLeft used spacing k) labels grids rowH ids 0 0).buf :=
      drawColumn_rowsWithin _ _ _ _ _ _ _ _ _ hw
        (fun i hi => widthOK_widths wo _ i (hlt ids (List.mem_cons_self ..) i hi))
    have hgw := gridWidth_le_of_rowsWithin _ _ hw'
    have hnext : (max ((colLeft used spacing k : Int) + used)
        (gridWidth (drawColumn s (colLeft used spacing k) labels grids rowH ids 0 0).buf : Int)).toNat
        + spacing = colLeft used spacing (k + 1) := by
      rw [colLeft_succ]; omega
    simp only [drawColumns]
    rw [hnext]
    cases cols with
    | nil =>
      simpa [drawColumns] using hw'
    | cons ids' cols' =>
      have := ih (k + 1) _ (fun ids'' h'' => hlt ids'' (List.mem_cons_of_mem _ h''))
        (rowsWithin_mono (by rw [colLeft_succ]; omega) hw')
      have e : k + 1 + ((ids' :: cols').length - 1) = k + ((ids :: ids' :: cols').length - 1) := by
        simp only [List.length_cons]; omega
      rw [e] at this
      exact this

/-- the whole container: every row ends at or before the right edge of the last band -/
theorem container_rowsWithin (cm : Bool) (columns : Nat) (used : Int) (spacing : Nat)
    (labels : List (Option NumW)) (grids : List Grid) (rowH : Nat → Nat) (wo : WidthOK used labels grids) :
    rowsWithin (colLeft used spacing (columns - 1) + used.toNat)
      (drawColumns used spacing labels grids rowH (orderedMap cm columns grids.length) {} 0).buf := by
  have h := drawColumns_rowsWithin used spacing labels grids rowH wo (orderedMap cm columns grids.length)
    0 {} (fun ids hids i hi => by
      have ⟨c, hc, hcc⟩ := List.getElem_of_mem hids
      subst hcc
      exact orderedMap_mem_lt cm columns grids.length c hc i hi)
    (rowsWithin_nil _)
  rw [orderedMap_length, Nat.zero_add, colLeft_zero] at h
  exact h

end Simpleline
