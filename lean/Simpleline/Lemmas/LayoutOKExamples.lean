/-
  Helper lemmas for C13b, part 7: turning kernel-checked evaluations of concrete renders into
  counterexamples (`¬ LayoutOK`, `¬ RespectsWidth`).
-/
import Simpleline.Lemmas.LayoutOKPlace

namespace Simpleline

theorem render_ok_of_isSome {α : Type} (x : Except RErr α) (h : x.toOption.isSome = true) : ∃ r, x = .ok r := by
  cases x with
  | error e => simp [Except.toOption] at h
  | ok r => exact ⟨r, rfl⟩

/-- the exception of a failed computation (for kernel-checked statements about concrete renders:
`Wd` has no decidable equality) -/
def errOf {α : Type} : Except RErr α → Option RErr
  | .error e => some e
  | .ok _ => none

/-- a label that renders to two or more rows refutes `LayoutOK` -/
theorem not_layoutOK_of_label_rows {cc : CharClass} {cm : Bool} {columns : Nat} {cw : Option Int}
    {spacing : Nat} {k : KeyPat} {items : List Wd} {w : Int} {r : Wd} {items' : List Wd}
    {labels : List (Option NumW)}
    (sh : ListShape cc cm columns cw spacing (some k) items w r items' labels)
    (i : Nat) (hi : i < items.length) (n : Nat) (hn : 2 ≤ n)
    (hlab : (renderTextSt cc {} (k.label i) (k.label i).length).toOption.map (fun s => s.buf.length) = some n) :
    ¬ LayoutOK (usedWidth cw columns spacing w) labels (items'.map Wd.lines) := by
  intro ok
  have h1 := ok.label_rows i (by rw [shape_grids_length sh]; exact hi)
  obtain ⟨s, hs, hb, _⟩ := shape_labelBuf_some sh i hi
  rw [hb] at h1
  rw [hs] at hlab
  simp only [Except.toOption, Option.map_some, Option.some.injEq] at hlab
  omega

/-- a rendered row longer than the width refutes `RespectsWidth` -/
theorem not_respects_of_row {cc : CharClass} {it : Wd} {w : Int} (rows : List (List Char))
    (hr : (it.render cc w).toOption.map Wd.lines = some rows) (row : List Char) (hrow : row ∈ rows)
    (hlen : w.toNat < row.length) : ¬ RespectsWidth cc it w := by
  intro h
  cases hx : it.render cc w with
  | error e =>
    rw [hx] at hr
    simp [Except.toOption] at hr
  | ok r =>
    rw [hx] at hr
    simp only [Except.toOption, Option.map_some, Option.some.injEq] at hr
    have := h r hx row (hr ▸ hrow)
    omega

end Simpleline
