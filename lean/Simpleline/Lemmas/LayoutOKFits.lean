/-
  Helper lemmas for C13b, part 5: the syntactic predicate `Wd.Fits` implies `RespectsWidth` at every
  width (induction over the widget tree).
-/
import Simpleline.Lemmas.LayoutOKKinds

namespace Simpleline

mutual
theorem fits_respects (cc : CharClass) : ∀ (t : Wd), t.Fits = true → ∀ w, RespectsWidth cc t w
  | .text st t, _, w => respects_text cc st t w
  | .sep st n, _, w => respects_sep cc st n w
  | .center st c, _, w => respects_center cc st c w
  | .checkbox st k title text c, hf, w => by
    simp only [Wd.Fits, Bool.or_eq_true] at hf
    exact respects_checkbox cc st k title text c w (Or.inr hf)
  | .window st title items, hf, w => by
    simp only [Wd.Fits] at hf
    exact respects_window cc st title items w (fun it hit => fitsList_respects cc items hf it hit w)
  | .list st cm cols cw sp kp u nw items, hf, w => by
    simp only [Wd.Fits, Bool.and_eq_true, Option.isNone_iff_eq_none] at hf
    obtain ⟨hcw, hf⟩ := hf
    subst hcw
    exact respects_list cc st cm cols sp kp u nw items w
      (fun _ hi => fitsList_respects cc items hf _ (List.getElem_mem hi) _)
theorem fitsList_respects (cc : CharClass) : ∀ (items : List Wd), fitsList items = true →
    ∀ it ∈ items, ∀ w, RespectsWidth cc it w
  | [], _, it, hit, _ => by cases hit
  | x :: xs, hf, it, hit, w => by
    simp only [fitsList, Bool.and_eq_true] at hf
    rcases List.mem_cons.mp hit with e | hit
    · exact e ▸ fits_respects cc x hf.1 w
    · exact fitsList_respects cc xs hf.2 it hit w
end

theorem fitsList_mem : ∀ (items : List Wd), fitsList items = true → ∀ it ∈ items, it.Fits = true
  | [], _, it, hit => by cases hit
  | x :: xs, hf, it, hit => by
    simp only [fitsList, Bool.and_eq_true] at hf
    rcases List.mem_cons.mp hit with e | hit
    · exact e ▸ hf.1
    · exact fitsList_mem xs hf.2 it hit

theorem fitsList_of_mem : ∀ (items : List Wd), (∀ it ∈ items, it.Fits = true) → fitsList items = true
  | [], _ => rfl
  | x :: xs, h => by
    simp only [fitsList, Bool.and_eq_true]
    exact ⟨h x (List.mem_cons_self ..), fitsList_of_mem xs (fun it hit => h it (List.mem_cons_of_mem _ hit))⟩

end Simpleline
