/-
  Helper lemmas for C13b, part 4: which widgets respect the width they are rendered at.
-/
import Simpleline.Lemmas.LayoutOKDraw

namespace Simpleline

/-! ### `Except` plumbing (private: generic names) -/

private theorem bind_eq_ok {ε α β} (x : Except ε α) (f : α → Except ε β) (b : β) :
    (x >>= f) = .ok b ↔ ∃ a, x = .ok a ∧ f a = .ok b := by
  cases x <;> simp [bind, Except.bind]

private theorem pure_eq_ok {ε α} (a b : α) : (pure a : Except ε α) = .ok b ↔ a = b := by
  simp [pure, Except.pure]

private theorem throw_ne_ok {ε α} (e : ε) (b : α) : (throw e : Except ε α) = .ok b ↔ False := by
  simp [throw, throwThe, MonadExceptOf.throw]

/-! ### drawing at the cursor -/

theorem draw_rowsWithin (W : Nat) (c : WSt) (src : Grid) (block : Bool) (hc : rowsWithin W c.buf)
    (hs : ∀ r ∈ src, c.cur.2 + r.length ≤ W) : rowsWithin W (c.draw src block).buf :=
  cdraw_rowsWithin W c.buf src c.cur.1 c.cur.2 hc hs

theorem foldl_max_length_ge (B : Grid) : ∀ (a : Nat),
    a ≤ B.foldl (fun acc l => max acc l.length) a ∧
    ∀ r ∈ B, r.length ≤ B.foldl (fun acc l => max acc l.length) a := by
  induction B with
  | nil => intro a; exact ⟨Nat.le_refl _, fun r hr => by cases hr⟩
  | cons x B ih =>
    intro a
    rw [List.foldl_cons]
    have ⟨h1, h2⟩ := ih (max a x.length)
    refine ⟨by omega, ?_⟩
    intro r hr
    rcases List.mem_cons.mp hr with rfl | hr
    · omega
    · exact h2 r hr

theorem length_le_gridWidth (g : Grid) (row : List Char) (h : row ∈ g) : row.length ≤ gridWidth g :=
  (foldl_max_length_ge g 0).2 row h

/-! ### text, separator -/

theorem respects_text (cc : CharClass) (st : WSt) (t : List Char) (w : Int) :
    RespectsWidth cc (.text st t) w := by
  intro r h row hrow
  simp only [Wd.render, bind_eq_ok, pure_eq_ok] at h
  obtain ⟨s, hs, rfl⟩ := h
  exact renderText_rows cc st t w s hs row hrow

theorem respects_sep (cc : CharClass) (st : WSt) (n : Nat) (w : Int) :
    RespectsWidth cc (.sep st n) w := by
  intro r h row hrow
  simp only [Wd.render, pure_eq_ok] at h
  subst h
  have : row = [] := List.eq_of_mem_replicate hrow
  subst this
  exact Nat.zero_le _

/-! ### center -/

theorem respects_center (cc : CharClass) (st : WSt) (child : Wd) (w : Int) :
    RespectsWidth cc (.center st child) w := by
  intro r h
  simp only [Wd.render, bind_eq_ok] at h
  obtain ⟨c', _, h⟩ := h
  split at h
  · simp only [throw_ne_ok] at h
  · rename_i hw
    simp only [pure_eq_ok] at h
    subst h
    apply rowsWithin_mem
    show rowsWithin w.toNat (drawInto [] c'.lines 0 ((w - (gridWidth c'.lines : Int)) / 2).toNat)
    apply cdraw_rowsWithin _ _ _ _ _ (rowsWithin_nil _)
    intro row hrow
    have := length_le_gridWidth _ row hrow
    omega

/-! ### checkbox -/

theorem truthy_some (o : Option (List Char)) (t : List Char) (h : truthy o = some t) : t ≠ [] := by
  cases o with
  | none => simp [truthy] at h
  | some l =>
    cases l with
    | nil => simp [truthy] at h
    | cons a l =>
      simp only [truthy, Option.some.injEq] at h
      subst h
      simp

theorem cb_stage (cc : CharClass) (x : List Char) (w : Int) (tw c : WSt) (hx : x ≠ [])
    (htw : renderTextSt cc {} x (w - 4) = .ok tw) (hcur : c.cur.2 = 4) :
    5 ≤ w ∧ (rowsWithin w.toNat c.buf →
      rowsWithin w.toNat (c.draw tw.buf true).buf ∧ (c.draw tw.buf true).cur.2 = 4) := by
  have hpos := renderText_pos cc {} x (w - 4) tw hx htw
  refine ⟨by omega, fun hc => ⟨?_, hcur⟩⟩
  apply draw_rowsWithin _ _ _ _ hc
  intro row hrow
  have := renderText_rows cc {} x (w - 4) tw htw row hrow
  omega

theorem cb_final (W : Nat) (c : WSt) (hc : rowsWithin W c.buf) :
    rowsWithin W ((({} : WSt).draw c.buf false).buf) := by
  apply draw_rowsWithin _ _ _ _ (rowsWithin_nil _)
  intro row hrow
  have := rowsWithin_mem hc row hrow
  show 0 + row.length ≤ W
  omega

/-- the first column of a checkbox: the box, at most 3 wide, and the cursor at column 4 -/
theorem cb_box (cc : CharClass) (x : List Char) (a : WSt) (h : renderTextSt cc {} x 3 = .ok a) :
    rowsWithin 3 (({} : WSt).drawAt a.buf 0 0 true).buf ∧
    max 3 (gridWidth (({} : WSt).drawAt a.buf 0 0 true).buf) + 1 = 4 := by
  have h1 : rowsWithin 3 (({} : WSt).drawAt a.buf 0 0 true).buf := by
    show rowsWithin 3 (drawInto [] a.buf 0 0)
    apply cdraw_rowsWithin _ _ _ _ _ (rowsWithin_nil _)
    intro row hrow
    have := renderText_rows cc {} x 3 a h row hrow
    have e : (3 : Int).toNat = 3 := rfl
    omega
  have := gridWidth_le_of_rowsWithin _ _ h1
  exact ⟨h1, by omega⟩

/-- a checkbox respects its width when the width is at least 3 or when it has a title or a text -/
theorem checkbox_rows (cc : CharClass) (key : List Char) (title text : Option (List Char))
    (completed : Bool) (w : Int) (s : WSt)
    (hyp : 3 ≤ w ∨ (truthy title).isSome = true ∨ (truthy text).isSome = true)
    (h : renderCheckboxSt cc key title text completed w = .ok s) : rowsWithin w.toNat s.buf := by
  simp only [renderCheckboxSt, bind_eq_ok] at h
  obtain ⟨a, ha, h⟩ := h
  have ⟨hb1, hb2⟩ := cb_box cc _ a ha
  rw [hb2] at h
  split at h
  · rename_i t ht
    simp only [bind_eq_ok, pure_eq_ok] at h
    obtain ⟨tw, htw, c2, rfl, h⟩ := h
    have ⟨hw5, hst⟩ := cb_stage cc t w tw
      { buf := (({} : WSt).drawAt a.buf 0 0 true).buf, cur := (0, 4) } (truthy_some _ _ ht) htw rfl
    have ⟨hr2, hc2⟩ := hst (rowsWithin_mono (by omega) hb1)
    split at h
    · rename_i t' ht'
      simp only [bind_eq_ok, pure_eq_ok] at h
      obtain ⟨tw', htw', c3, rfl, rfl⟩ := h
      have ⟨_, hst'⟩ := cb_stage cc (['('] ++ t' ++ [')']) w tw' _ (by simp) htw' hc2
      exact cb_final _ _ (hst' hr2).1
    · simp only [bind_eq_ok, pure_eq_ok] at h
      obtain ⟨c3, rfl, rfl⟩ := h
      exact cb_final _ _ hr2
  · rename_i ht
    simp only [bind_eq_ok, pure_eq_ok] at h
    obtain ⟨c2, rfl, h⟩ := h
    split at h
    · rename_i t' ht'
      simp only [bind_eq_ok, pure_eq_ok] at h
      obtain ⟨tw', htw', c3, rfl, rfl⟩ := h
      have ⟨hw5, hst'⟩ := cb_stage cc (['('] ++ t' ++ [')']) w tw'
        { buf := (({} : WSt).drawAt a.buf 0 0 true).buf, cur := (0, 4) } (by simp) htw' rfl
      exact cb_final _ _ (hst' (rowsWithin_mono (by omega) hb1)).1
    · rename_i ht'
      simp only [bind_eq_ok, pure_eq_ok] at h
      obtain ⟨c3, rfl, rfl⟩ := h
      have hw3 : 3 ≤ w := by
        rcases hyp with h3 | h3 | h3
        · exact h3
        · rw [ht] at h3; cases h3
        · rw [ht'] at h3; cases h3
      exact cb_final _ _ (rowsWithin_mono (by omega) hb1)

theorem respects_checkbox (cc : CharClass) (st : WSt) (key : List Char) (title text : Option (List Char))
    (completed : Bool) (w : Int)
    (hyp : 3 ≤ w ∨ (truthy title).isSome = true ∨ (truthy text).isSome = true) :
    RespectsWidth cc (.checkbox st key title text completed) w := by
  intro r h
  simp only [Wd.render, bind_eq_ok, pure_eq_ok] at h
  obtain ⟨s, hs, rfl⟩ := h
  exact rowsWithin_mem (checkbox_rows cc key title text completed w s hyp hs)

/-! ### window -/

theorem renderWindowItems_rows (cc : CharClass) (w : Int) :
    ∀ (items : List Wd) (st st' : WSt) (items' : List Wd),
      (∀ it ∈ items, RespectsWidth cc it w) →
      renderWindowItems cc w st items = .ok (st', items') →
      rowsWithin w.toNat st.buf → st.cur.2 = 0 → rowsWithin w.toNat st'.buf
  | [], st, st', items', _, h, hr, _ => by
    simp only [renderWindowItems, pure_eq_ok, Prod.mk.injEq] at h
    rw [← h.1]; exact hr
  | it :: its, st, st', items', hfit, h, hr, hcur => by
    simp only [renderWindowItems, bind_eq_ok, pure_eq_ok, Prod.mk.injEq] at h
    obtain ⟨it', h1, ⟨st'', its'⟩, h2, rfl, _⟩ := h
    refine renderWindowItems_rows cc w its _ _ its' (fun x hx => hfit x (List.mem_cons_of_mem _ hx)) h2 ?_ rfl
    apply draw_rowsWithin _ _ _ _ hr
    intro row hrow
    have := hfit it (List.mem_cons_self ..) it' h1 row hrow
    omega

theorem respects_window (cc : CharClass) (st : WSt) (title : Option (List Char)) (items : List Wd) (w : Int)
    (hfit : ∀ it ∈ items, RespectsWidth cc it w) : RespectsWidth cc (.window st title items) w := by
  intro r h
  simp only [Wd.render] at h
  split at h
  · simp only [bind_eq_ok, pure_eq_ok] at h
    obtain ⟨tw, htw, _, rfl, ⟨st2, items'⟩, h, rfl⟩ := h
    apply rowsWithin_mem
    refine renderWindowItems_rows cc w items _ st2 items' hfit h ?_ rfl
    apply draw_rowsWithin
    · apply draw_rowsWithin _ st.clear _ _ (rowsWithin_nil _)
      intro row hrow
      have := renderText_rows cc {} _ w tw htw row hrow
      show 0 + row.length ≤ w.toNat
      omega
    · intro row hrow
      have : row = [] := List.eq_of_mem_replicate hrow
      subst this
      show 0 + 0 ≤ w.toNat
      omega
  · simp only [bind_eq_ok, pure_eq_ok] at h
    obtain ⟨_, rfl, ⟨st2, items'⟩, h, rfl⟩ := h
    apply rowsWithin_mem
    exact renderWindowItems_rows cc w items _ st2 items' hfit h (rowsWithin_nil _) rfl

/-! ### list container without a forced columns width -/

theorem list_empty_lines (cc : CharClass) (st : WSt) (cm : Bool) (columns : Nat) (cw : Option Int)
    (spacing : Nat) (kp : Option KeyPat) (u : Option Int) (nw : List NumW) (w : Int) (r : Wd)
    (h : (Wd.list st cm columns cw spacing kp u nw []).render cc w = .ok r) : r.lines = [] := by
  rw [render_list_eq] at h
  split at h
  · cases h
  · rw [renderListItems.eq_1] at h
    cases h
    exact congrArg WSt.buf (drawColumns_all_nil _ _ _ _ _ _ {} 0 (orderedMap_zero_all_nil cm columns))

theorem respects_list (cc : CharClass) (st : WSt) (cm : Bool) (columns spacing : Nat)
    (kp : Option KeyPat) (u : Option Int) (nw : List NumW) (items : List Wd) (w : Int)
    (hfit : ∀ i, (hi : i < items.length) →
      RespectsWidth cc items[i] (usedWidth none columns spacing w - kpLabelLen kp i)) :
    RespectsWidth cc (.list st cm columns none spacing kp u nw items) w := by
  intro r h row hrow
  by_cases hne : items = []
  · subst hne
    rw [list_empty_lines cc st cm columns none spacing kp u nw w r h] at hrow
    cases hrow
  · obtain ⟨hc, hu, _⟩ := list_ok_room cc st cm columns none spacing kp u nw items w r hne h
    obtain ⟨items', labels, sh⟩ := shape_of_render st u nw h
    have wo := widthOK_of_render cc st cm columns none spacing kp u nw items w r items' labels hne h sh
      hfit
    have hw := container_rowsWithin cm columns (usedWidth none columns spacing w) spacing labels
      (items'.map Wd.lines) (rowHeight cm columns (listHeights (items'.map Wd.lines) labels)) wo
    rw [List.length_map, ← sh.lines] at hw
    have h1 := rowsWithin_mem hw row hrow
    have h2 := usedWidth_fits columns spacing hc w (columns - 1) (by omega) hu
    omega

end Simpleline
