/-
  Helper lemmas for C13b, part 1: a number label rendered at its own length.
-/
import Simpleline.Spec.LayoutOKSpec
import Simpleline.Lemmas.Text
import Simpleline.Lemmas.KeyPattern

namespace Simpleline

/-! ### a text rendered at any (integer) width -/

/-- C11 for an integer width: every row of a rendered text is at most `w` long -/
theorem renderText_rows (cc : CharClass) (st : WSt) (t : List Char) (w : Int) (s : WSt)
    (h : renderTextSt cc st t w = .ok s) : ∀ l ∈ s.buf, l.length ≤ w.toNat := by
  by_cases ht : t = []
  · subst ht
    simp only [renderTextSt, WSt.writeWrapped, WSt.clear, if_true, Except.ok.injEq] at h
    subst h
    intro l hl
    cases hl
  · by_cases hw : w ≤ 0
    · simp only [renderTextSt, WSt.writeWrapped, if_neg ht, if_pos hw] at h
      cases h
    · have hw' : ((w.toNat : Nat) : Int) = w := Int.toNat_of_nonneg (by omega)
      rw [← hw'] at h
      exact render_width cc st t w.toNat (by omega) s h

/-- a non-empty text renders only at a positive width -/
theorem renderText_pos (cc : CharClass) (st : WSt) (t : List Char) (w : Int) (s : WSt)
    (ht : t ≠ []) (h : renderTextSt cc st t w = .ok s) : 0 < w := by
  by_cases hw : w ≤ 0
  · simp only [renderTextSt, WSt.writeWrapped, if_neg ht, if_pos hw] at h
    cases h
  · omega

/-! ### `munge` without tabs -/

theorem expandTabsAux_no_tab : ∀ (col : Nat) (t : List Char), '\t' ∉ t → expandTabsAux col t = t
  | _, [], _ => rfl
  | col, c :: cs, h => by
    have hc : c ≠ '\t' := fun e => h (by simp [e])
    have hcs : '\t' ∉ cs := fun e => h (by simp [e])
    rw [expandTabsAux, if_neg hc]
    split
    · rw [expandTabsAux_no_tab 0 cs hcs]
    · rw [expandTabsAux_no_tab (col + 1) cs hcs]

theorem munge_length_no_tab (t : List Char) (h : '\t' ∉ t) : (munge t).length = t.length := by
  rw [munge, expandTabsAux_no_tab 0 t h, List.length_map]

/-! ### a text that fits the width as a whole wraps to at most one line -/

theorem takeFit_all (w : Nat) : ∀ (len : Nat) (cs : List (List Char)), len + totalLen cs ≤ w →
    takeFit w len cs = (cs, [])
  | _, [], _ => rfl
  | len, c :: cs, h => by
    rw [totalLen_cons] at h
    rw [takeFit, if_pos (by omega), takeFit_all w (len + c.length) cs (by omega)]

theorem dropLead_false (cc : CharClass) (chunks : List (List Char)) : dropLead cc false chunks = chunks := by
  cases chunks <;> simp [dropLead]

theorem wrapLoop_nil (cc : CharClass) (w : Nat) (hl : Bool) : wrapLoop cc w hl [] = [] := by
  rw [wrapLoop]; simp

theorem wrapLoop_one (cc : CharClass) (w : Nat) (chunks : List (List Char)) (h : totalLen chunks ≤ w) :
    (wrapLoop cc w false chunks).length ≤ 1 := by
  have hs : (wrapStep cc w false chunks).2 = [] := by
    rw [wrapStep_snd, dropLead_false, takeFit_all w 0 chunks (by omega)]
    rfl
  rw [wrapLoop]
  split
  · simp
  · rw [hs]
    split
    · split
      · rw [wrapLoop_nil]; simp
      · rw [wrapLoop_nil]; simp
    · simp

theorem pyWrap_one (cc : CharClass) (l : List Char) (w : Nat) (h : (munge l).length ≤ w) :
    (pyWrap cc l w).length ≤ 1 := by
  unfold pyWrap
  apply wrapLoop_one
  rw [totalLen_eq_flatten, splitChunks, splitAux_flatten]
  exact h

/-- a text without a line break that (with its tabs expanded) is no longer than the width renders to
at most one row -/
theorem render_one_row (cc : CharClass) (st : WSt) (t : List Char) (w : Nat) (hw : 1 ≤ w)
    (hnl : '\n' ∉ t) (hlen : (munge t).length ≤ w) (s : WSt)
    (h : renderTextSt cc st t w = .ok s) : s.buf.length ≤ 1 := by
  rw [render_breaks cc st t w hw s h]
  split
  · simp
  · rw [splitOn_of_not_mem '\n' t hnl]
    simp only [List.flatMap_cons, List.flatMap_nil, List.append_nil]
    split
    · simp
    · exact pyWrap_one cc t w hlen

/-! ### the characters of a label -/

theorem digitChar_ne_nl : ∀ d, d < 10 → digitChar d ≠ '\n' := by decide
theorem digitChar_ne_tab : ∀ d, d < 10 → digitChar d ≠ '\t' := by decide

theorem intRepr_ne_nil (z : Int) : intRepr z ≠ [] := by
  unfold intRepr
  split
  · simp
  · exact natDigits_ne_nil _

theorem intRepr_plain (z : Int) : ∀ c ∈ intRepr z, c ≠ '\n' ∧ c ≠ '\t' := by
  have hd : ∀ n, ∀ c ∈ natDigits n, c ≠ '\n' ∧ c ≠ '\t' := by
    intro n c hc
    obtain ⟨d, hd, rfl⟩ := natDigits_mem n c hc
    exact ⟨digitChar_ne_nl d hd, digitChar_ne_tab d hd⟩
  intro c hc
  unfold intRepr at hc
  split at hc
  · simp only [List.mem_cons] at hc
    rcases hc with rfl | hc
    · decide
    · exact hd _ c hc
  · exact hd _ c hc

theorem label_pos (k : KeyPat) (i : Nat) : 1 ≤ (k.label i).length := by
  have := intRepr_ne_nil ((i : Int) + k.offset)
  have : 1 ≤ (intRepr ((i : Int) + k.offset)).length := by
    cases h : intRepr ((i : Int) + k.offset) with
    | nil => exact absurd h this
    | cons _ _ => simp
  simp only [KeyPat.label, List.length_append]
  omega

theorem label_plain (k : KeyPat) (hk : k.Plain) (i : Nat) : ∀ c ∈ k.label i, c ≠ '\n' ∧ c ≠ '\t' := by
  intro c hc
  simp only [KeyPat.label, List.mem_append] at hc
  rcases hc with (hc | hc) | hc
  · exact hk c (by simp [hc])
  · exact intRepr_plain _ c hc
  · exact hk c (by simp [hc])

/-! ### the rendered label -/

/-- every row of a rendered label is at most as long as the label text -/
theorem label_render_fits (cc : CharClass) (lbl : List Char) (s : WSt)
    (h : renderTextSt cc {} lbl lbl.length = .ok s) : ∀ row ∈ s.buf, row.length ≤ lbl.length := by
  have := renderText_rows cc {} lbl lbl.length s h
  simpa using this

/-- the label of a plain key pattern renders to at most one row -/
theorem label_render_one_row (cc : CharClass) (k : KeyPat) (hk : k.Plain) (i : Nat) (s : WSt)
    (h : renderTextSt cc {} (k.label i) (k.label i).length = .ok s) : s.buf.length ≤ 1 := by
  have hp := label_plain k hk i
  have hnl : '\n' ∉ k.label i := fun hm => (hp _ hm).1 rfl
  have htab : '\t' ∉ k.label i := fun hm => (hp _ hm).2 rfl
  exact render_one_row cc {} (k.label i) (k.label i).length (label_pos k i) hnl
    (by rw [munge_length_no_tab _ htab]; exact Nat.le_refl _) s h

end Simpleline
