/-
  Helper lemmas for C13b, part 9: a text with a line break renders to at least two rows, so a key
  pattern with a line break never satisfies `LayoutOK`.
-/
import Simpleline.Lemmas.LayoutOKExamples

namespace Simpleline

theorem splitOn_length_of_mem (sep : Char) : ∀ (t : List Char), sep ∈ t → 2 ≤ (splitOn sep t).length
  | [], h => by cases h
  | c :: cs, h => by
    by_cases hc : c = sep
    · subst hc
      rw [splitOn_cons_sep]
      have := splitOn_ne_nil c cs
      cases hs : splitOn c cs with
      | nil => exact absurd hs this
      | cons _ _ => simp
    · obtain ⟨l, ls, h1, h2⟩ := splitOn_cons_ne sep c cs hc
      have hmem : sep ∈ cs := by
        rcases List.mem_cons.mp h with e | e
        · exact absurd e.symm hc
        · exact e
      have := splitOn_length_of_mem sep cs hmem
      rw [h1] at this
      rw [h2]
      exact this

theorem joinWith_ne_nil_of_two (sep : Char) (L : List (List Char)) (h : 2 ≤ L.length) :
    joinWith sep L ≠ [] := by
  match L, h with
  | l :: l' :: ls, _ =>
    rw [joinWith_cons_cons]
    simp

theorem length_le_flatMap {α β} (f : α → List β) : ∀ (L : List α), (∀ x ∈ L, 1 ≤ (f x).length) →
    L.length ≤ (L.flatMap f).length
  | [], _ => Nat.zero_le _
  | x :: xs, h => by
    have h1 := h x (List.mem_cons_self ..)
    have h2 := length_le_flatMap f xs (fun y hy => h y (List.mem_cons_of_mem _ hy))
    simp only [List.flatMap_cons, List.length_append, List.length_cons]
    omega

/-- a text with a line break renders to at least two rows -/
theorem render_newline_rows (cc : CharClass) (st : WSt) (t : List Char) (w : Nat) (hw : 1 ≤ w)
    (hnl : '\n' ∈ t) (s : WSt) (h : renderTextSt cc st t w = .ok s) : 2 ≤ s.buf.length := by
  have h2 := splitOn_length_of_mem '\n' t hnl
  rw [render_breaks cc st t w hw s h]
  have hne : wrapWords cc t w ≠ [] := by
    unfold wrapWords
    apply joinWith_ne_nil_of_two
    rw [List.length_map]
    exact h2
  rw [if_neg hne]
  refine Nat.le_trans h2 (length_le_flatMap _ _ ?_)
  intro l _
  split
  · simp
  · rename_i hp
    cases hq : pyWrap cc l w with
    | nil => exact absurd hq hp
    | cons _ _ => simp

/-- a key pattern with a line break: no successful render of a non-empty list satisfies `LayoutOK` -/
theorem not_layoutOK_of_newline {cc : CharClass} {cm : Bool} {columns : Nat} {cw : Option Int}
    {spacing : Nat} {k : KeyPat} {items : List Wd} {w : Int} {r : Wd} {items' : List Wd}
    {labels : List (Option NumW)}
    (sh : ListShape cc cm columns cw spacing (some k) items w r items' labels)
    (hne : items ≠ []) (hnl : '\n' ∈ k.pre ++ k.post) :
    ¬ LayoutOK (usedWidth cw columns spacing w) labels (items'.map Wd.lines) := by
  have hi : 0 < items.length := by
    cases items with
    | nil => exact absurd rfl hne
    | cons _ _ => simp
  intro ok
  have h1 := ok.label_rows 0 (by rw [shape_grids_length sh]; exact hi)
  obtain ⟨s, hs, hb, _⟩ := shape_labelBuf_some sh 0 hi
  rw [hb] at h1
  have hmem : '\n' ∈ k.label 0 := by
    simp only [KeyPat.label, List.mem_append] at hnl ⊢
    rcases hnl with h | h
    · exact Or.inl (Or.inl h)
    · exact Or.inr h
  have := render_newline_rows cc {} (k.label 0) (k.label 0).length (label_pos k 0) hmem s hs
  omega

end Simpleline
