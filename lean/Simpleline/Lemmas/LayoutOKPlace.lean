/-
  Helper lemmas for C13b, part 6: the placement theorems of C13 with `LayoutOK` and the row-height
  hypothesis discharged from the render.
-/
import Simpleline.Lemmas.LayoutOKFits

namespace Simpleline

/-! ### `LayoutOK` also for the empty container -/

theorem layoutOK_of_render' (cc : CharClass) (st : WSt) (cm : Bool) (columns : Nat) (cw : Option Int)
    (spacing : Nat) (kp : Option KeyPat) (u : Option Int) (nw : List NumW) (items : List Wd) (w : Int)
    (r : Wd) (items' : List Wd) (labels : List (Option NumW)) (hkp : kpPlain kp)
    (h0 : items = [] → 0 < usedWidth cw columns spacing w)
    (h : (Wd.list st cm columns cw spacing kp u nw items).render cc w = .ok r)
    (sh : ListShape cc cm columns cw spacing kp items w r items' labels)
    (hfit : ∀ i, (hi : i < items.length) →
      RespectsWidth cc items[i] (usedWidth cw columns spacing w - kpLabelLen kp i)) :
    LayoutOK (usedWidth cw columns spacing w) labels (items'.map Wd.lines) := by
  by_cases hne : items = []
  · have hg : (items'.map Wd.lines).length = 0 := by rw [shape_grids_length sh, hne]; rfl
    have hl : labels.length = 0 := by rw [sh.len_labels, hne]; rfl
    exact ⟨h0 hne, by rw [hg, hl], fun i hi => by omega, fun i hi => by omega, fun i hi => by omega,
      fun i hi => by omega⟩
  · exact layoutOK_of_render cc st cm columns cw spacing kp u nw items w r items' labels hkp hne h sh hfit

/-! ### the row heights the container computes dominate every item and label -/

theorem listHeights_length (grids : List Grid) (labels : List (Option NumW))
    (hlen : labels.length = grids.length) : (listHeights grids labels).length = grids.length := by
  simp only [listHeights, List.length_map, List.length_zip, hlen, Nat.min_self]

theorem listHeights_getElem (grids : List Grid) (labels : List (Option NumW))
    (hlen : labels.length = grids.length) (i : Nat) (hi : i < grids.length)
    (hi' : i < (listHeights grids labels).length) :
    (listHeights grids labels)[i] = max grids[i].length (labelBuf labels i).length := by
  have hil : i < labels.length := by omega
  simp only [listHeights, List.getElem_map, List.getElem_zip, labelBuf, List.getD_eq_getElem?_getD,
    List.getElem?_eq_getElem hil, Option.getD_some]
  cases labels[i] <;> rfl

theorem listHeights_rowH (cm : Bool) (columns : Nat) (grids : List Grid) (labels : List (Option NumW))
    (hlen : labels.length = grids.length) (i : Nat) (hi : i < grids.length) :
    max grids[i].length (labelBuf labels i).length ≤
      rowHeight cm columns (listHeights grids labels) (cellOf cm columns grids.length i).1 := by
  have hl := listHeights_length grids labels hlen
  have hi' : i < (listHeights grids labels).length := by omega
  have h := rowHeight_ge cm columns (listHeights grids labels) i hi'
  rw [listHeights_getElem grids labels hlen i hi hi', hl] at h
  exact h

/-! ### placement for a successful render -/

section place

variable (cc : CharClass) (st : WSt) (cm : Bool) (columns : Nat) (cw : Option Int) (spacing : Nat)
  (kp : Option KeyPat) (u : Option Int) (nw : List NumW) (items : List Wd) (w : Int) (r : Wd)
  (items' : List Wd) (labels : List (Option NumW))

theorem place_items_render (hkp : kpPlain kp)
    (h : (Wd.list st cm columns cw spacing kp u nw items).render cc w = .ok r)
    (sh : ListShape cc cm columns cw spacing kp items w r items' labels)
    (hfit : ∀ i, (hi : i < items.length) →
      RespectsWidth cc items[i] (usedWidth cw columns spacing w - kpLabelLen kp i))
    (i : Nat) (hi : i < items'.length) (a b : Nat) (ha : a < items'[i].lines.length)
    (hb : b < (items'[i].lines[a]).length) :
    cell r.lines
      (rowTop (rowHeight cm columns (listHeights (items'.map Wd.lines) labels))
        (cellOf cm columns items.length i).1 + a)
      (colLeft (usedWidth cw columns spacing w) spacing (cellOf cm columns items.length i).2
        + labelLen labels i + b) = some (items'[i].lines[a])[b] := by
  have hne : items ≠ [] := by
    intro e
    have := sh.len_items
    rw [e] at this
    simp only [List.length_nil] at this
    omega
  obtain ⟨hc, _, _⟩ := list_ok_room cc st cm columns cw spacing kp u nw items w r hne h
  have ok := layoutOK_of_render cc st cm columns cw spacing kp u nw items w r items' labels hkp hne h sh hfit
  have hig : i < (items'.map Wd.lines).length := by rw [List.length_map]; exact hi
  have P := place_items cm columns hc (usedWidth cw columns spacing w) spacing labels (items'.map Wd.lines)
    (rowHeight cm columns (listHeights (items'.map Wd.lines) labels)) ok
    (listHeights_rowH cm columns _ labels ok.len) i hig a b
    (by rw [List.getElem_map]; exact ha) (by simp only [List.getElem_map]; exact hb)
  simp only [List.getElem_map, List.length_map, sh.len_items] at P
  rw [sh.lines, sh.len_items]
  exact P

theorem place_labels_render (hkp : kpPlain kp)
    (h : (Wd.list st cm columns cw spacing kp u nw items).render cc w = .ok r)
    (sh : ListShape cc cm columns cw spacing kp items w r items' labels)
    (hfit : ∀ i, (hi : i < items.length) →
      RespectsWidth cc items[i] (usedWidth cw columns spacing w - kpLabelLen kp i))
    (i : Nat) (hi : i < items.length) (row : List Char) (hrow : labelBuf labels i = [row])
    (b : Nat) (hb : b < row.length) :
    cell r.lines
      (rowTop (rowHeight cm columns (listHeights (items'.map Wd.lines) labels))
        (cellOf cm columns items.length i).1)
      (colLeft (usedWidth cw columns spacing w) spacing (cellOf cm columns items.length i).2 + b)
      = some row[b] := by
  have hne : items ≠ [] := by
    intro e
    rw [e] at hi
    simp only [List.length_nil] at hi
    omega
  obtain ⟨hc, _, _⟩ := list_ok_room cc st cm columns cw spacing kp u nw items w r hne h
  have ok := layoutOK_of_render cc st cm columns cw spacing kp u nw items w r items' labels hkp hne h sh hfit
  have hig : i < (items'.map Wd.lines).length := by rw [shape_grids_length sh]; exact hi
  have P := place_labels cm columns hc (usedWidth cw columns spacing w) spacing labels (items'.map Wd.lines)
    (rowHeight cm columns (listHeights (items'.map Wd.lines) labels)) ok
    (listHeights_rowH cm columns _ labels ok.len) i hig row hrow b hb
  simp only [List.length_map, sh.len_items] at P
  rw [sh.lines, sh.len_items]
  exact P

end place

/-! ### lists of text widgets -/

theorem text_items_respect (cc : CharClass) (items : List Wd)
    (htext : ∀ it ∈ items, it.isText = true) (i : Nat) (hi : i < items.length) (w : Int) :
    RespectsWidth cc items[i] w := by
  have := htext _ (List.getElem_mem hi)
  cases hit : items[i] with
  | text s t => exact respects_text cc s t w
  | _ => rw [hit] at this; cases this

end Simpleline
