/-
  Helper lemmas for C13b, part 8: the placement of items and labels needs only `WidthOK` — the clause
  "a label is at most one row high" of `LayoutOK` is not used. (The proofs follow
  `Lemmas/ContainersDraw.lean` with `LayoutOK` replaced by `WidthOK`.)
-/
import Simpleline.Lemmas.LayoutOKPlace

namespace Simpleline

theorem drawColumns_placedW (cm : Bool) (columns : Nat) (hc : 1 ≤ columns) (used : Int) (spacing : Nat)
    (labels : List (Option NumW)) (grids : List Grid) (rowH : Nat → Nat)
    (wo : WidthOK used labels grids)
    (hH : ∀ i, (hi : i < grids.length) →
      max grids[i].length (labelBuf labels i).length ≤ rowH (cellOf cm columns grids.length i).1) :
    ∀ (cols : List (List Nat)) (k : Nat) (s : WSt) (colPos : Nat),
      cols = (orderedMap cm columns grids.length).drop k → colPos = colLeft used spacing k →
      rowsWithin (colPos + used.toNat) s.buf →
      ∀ c r, k ≤ c → (hcl : c < (orderedMap cm columns grids.length).length) →
        (hr : r < ((orderedMap cm columns grids.length)[c]).length) →
        Placed (drawColumns used spacing labels grids rowH cols s colPos).buf labels grids
          (((orderedMap cm columns grids.length)[c])[r]) (rowTop rowH r) (colLeft used spacing c) := by
  intro cols
  induction cols with
  | nil =>
    intro k s colPos hcols _ _ c r hkc hcl _
    have := congrArg List.length hcols
    simp only [List.length_nil, List.length_drop] at this
    omega
  | cons ids cols ih =>
    intro k s colPos hcols hcp hw c r hkc hcl hr
    have hupos := wo.used_pos
    have hk : k < (orderedMap cm columns grids.length).length := by
      have := congrArg List.length hcols
      simp only [List.length_cons, List.length_drop] at this
      omega
    rw [List.drop_eq_getElem_cons hk] at hcols
    injection hcols with hids hcols'
    subst hids
    have hlt : ∀ i ∈ (orderedMap cm columns grids.length)[k], i < grids.length :=
      fun i hi => orderedMap_mem_lt cm columns _ k hk i hi
    have hw' : rowsWithin (colPos + used.toNat)
        (drawColumn s colPos labels grids rowH (orderedMap cm columns grids.length)[k] 0 0).buf :=
      drawColumn_rowsWithin _ _ _ _ _ _ _ _ _ hw (fun i hi => widthOK_widths wo colPos i (hlt i hi))
    have hgw := gridWidth_le_of_rowsWithin _ _ hw'
    have hnext : (max ((colPos : Int) + used)
        (gridWidth (drawColumn s colPos labels grids rowH (orderedMap cm columns grids.length)[k] 0 0).buf : Int)).toNat
        + spacing = colLeft used spacing (k + 1) := by
      rw [colLeft_succ, ← hcp]; omega
    simp only [drawColumns]
    rw [hnext]
    by_cases hck : k = c
    · subst hck
      have hi := hlt _ (List.getElem_mem hr)
      have hP : Placed (drawColumn s colPos labels grids rowH (orderedMap cm columns grids.length)[k] 0 0).buf
          labels grids (((orderedMap cm columns grids.length)[k])[r]) (rowTop rowH r) colPos := by
        have := drawColumn_placed colPos labels grids rowH (orderedMap cm columns grids.length)[k] s 0
          (fun i hi => wo.label_fits i (hlt i hi))
          (fun t ht => by
            have hi := hlt _ (List.getElem_mem ht)
            have := hH _ hi
            rw [orderedMap_cell cm columns grids.length hc k hk t ht] at this
            rw [gridOf_eq grids _ hi, Nat.zero_add]
            exact this)
          r hr
        rw [Nat.zero_add] at this
        exact this
      have hHi := hH _ hi
      rw [orderedMap_cell cm columns grids.length hc k hk r hr, ← gridOf_eq grids _ hi] at hHi
      rw [← hcp]
      refine placed_keep (rowH r) hP hHi ?_
      intro x p ch _ hcell
      have hp : p < colPos + used.toNat := by
        have := (cell_some_lt hcell).2
        have := hw' x
        omega
      exact drawColumns_keep used (by omega) spacing labels grids rowH x p ch _ _ _ hcell
        (by rw [colLeft_succ, ← hcp]; omega)
    · exact ih (k + 1) _ _ hcols' rfl
        (fun x => by
          have := hw' x
          rw [colLeft_succ, ← hcp]
          omega)
        c r (by omega) hcl hr

theorem container_placedW (cm : Bool) (columns : Nat) (hc : 1 ≤ columns) (used : Int) (spacing : Nat)
    (labels : List (Option NumW)) (grids : List Grid) (rowH : Nat → Nat)
    (wo : WidthOK used labels grids)
    (hH : ∀ i, (hi : i < grids.length) →
      max grids[i].length (labelBuf labels i).length ≤ rowH (cellOf cm columns grids.length i).1)
    (i : Nat) (hi : i < grids.length) :
    Placed (drawColumns used spacing labels grids rowH (orderedMap cm columns grids.length) {} 0).buf
      labels grids i (rowTop rowH (cellOf cm columns grids.length i).1)
      (colLeft used spacing (cellOf cm columns grids.length i).2) := by
  have ⟨hcl, hr, hfind⟩ := orderedMap_find cm columns grids.length hc i hi
  have P := drawColumns_placedW cm columns hc used spacing labels grids rowH wo hH
    (orderedMap cm columns grids.length) 0 {} 0 List.drop_zero.symm (colLeft_zero used spacing).symm
    (rowsWithin_nil _) _ _ (Nat.zero_le _) hcl hr
  rw [hfind] at P
  exact P

theorem place_itemsW (cm : Bool) (columns : Nat) (hc : 1 ≤ columns) (used : Int) (spacing : Nat)
    (labels : List (Option NumW)) (grids : List Grid) (rowH : Nat → Nat)
    (wo : WidthOK used labels grids)
    (hH : ∀ i, (hi : i < grids.length) →
      max grids[i].length (labelBuf labels i).length ≤ rowH (cellOf cm columns grids.length i).1)
    (i : Nat) (hi : i < grids.length) (a b : Nat) (ha : a < grids[i].length) (hb : b < (grids[i][a]).length) :
    cell (drawColumns used spacing labels grids rowH (orderedMap cm columns grids.length) {} 0).buf
      (rowTop rowH (cellOf cm columns grids.length i).1 + a)
      (colLeft used spacing (cellOf cm columns grids.length i).2 + labelLen labels i + b) = some (grids[i][a])[b] := by
  have P := (container_placedW cm columns hc used spacing labels grids rowH wo hH i hi).1
  apply P a b
  rw [gridOf_eq grids i hi]
  exact cell_getElem _ a b ha hb

/-- every row of the label, not only the first -/
theorem place_labelsW (cm : Bool) (columns : Nat) (hc : 1 ≤ columns) (used : Int) (spacing : Nat)
    (labels : List (Option NumW)) (grids : List Grid) (rowH : Nat → Nat)
    (wo : WidthOK used labels grids)
    (hH : ∀ i, (hi : i < grids.length) →
      max grids[i].length (labelBuf labels i).length ≤ rowH (cellOf cm columns grids.length i).1)
    (i : Nat) (hi : i < grids.length) (a b : Nat) (ha : a < (labelBuf labels i).length)
    (hb : b < ((labelBuf labels i)[a]).length) :
    cell (drawColumns used spacing labels grids rowH (orderedMap cm columns grids.length) {} 0).buf
      (rowTop rowH (cellOf cm columns grids.length i).1 + a)
      (colLeft used spacing (cellOf cm columns grids.length i).2 + b) = some ((labelBuf labels i)[a])[b] := by
  have P := (container_placedW cm columns hc used spacing labels grids rowH wo hH i hi).2
  exact P a b _ (cell_getElem _ a b ha hb)

/-! ### for a successful render, any key pattern -/

section place

variable (cc : CharClass) (st : WSt) (cm : Bool) (columns : Nat) (cw : Option Int) (spacing : Nat)
  (kp : Option KeyPat) (u : Option Int) (nw : List NumW) (items : List Wd) (w : Int) (r : Wd)
  (items' : List Wd) (labels : List (Option NumW))

theorem place_items_renderW
    (h : (Wd.list st cm columns cw spacing kp u nw items).render cc w = .ok r)
    (sh : ListShape cc cm columns cw spacing kp items w r items' labels)
    (hfit : ∀ i, (hi : i < items.length) →
      RespectsWidth cc items[i] (usedWidth cw columns spacing w - kpLabelLen kp i))
    (i : Nat) (hi : i < items'.length) (a b : Nat) (ha : a < items'[i].lines.length)
    (hb : b < (items'[i].lines[a]).length) :
    cell r.lines
      (rowTop (rowHeight cm columns (listHeights (items'.map Wd.lines) labels))
        (cellOf cm columns items.length i).1 + a)
      (colLeft (usedWidth cw columns spacing w) spacing (cellOf cm columns items.length i).2
        + labelLen labels i + b) = some (items'[i].lines[a])[b] := by
  have hne : items ≠ [] := by
    intro e
    have := sh.len_items
    rw [e] at this
    simp only [List.length_nil] at this
    omega
  obtain ⟨hc, _, _⟩ := list_ok_room cc st cm columns cw spacing kp u nw items w r hne h
  have wo := widthOK_of_render cc st cm columns cw spacing kp u nw items w r items' labels hne h sh hfit
  have hig : i < (items'.map Wd.lines).length := by rw [List.length_map]; exact hi
  have P := place_itemsW cm columns hc (usedWidth cw columns spacing w) spacing labels (items'.map Wd.lines)
    (rowHeight cm columns (listHeights (items'.map Wd.lines) labels)) wo
    (listHeights_rowH cm columns _ labels wo.len) i hig a b
    (by rw [List.getElem_map]; exact ha) (by simp only [List.getElem_map]; exact hb)
  simp only [List.getElem_map, List.length_map, sh.len_items] at P
  rw [sh.lines, sh.len_items]
  exact P

theorem place_labels_renderW
    (h : (Wd.list st cm columns cw spacing kp u nw items).render cc w = .ok r)
    (sh : ListShape cc cm columns cw spacing kp items w r items' labels)
    (hfit : ∀ i, (hi : i < items.length) →
      RespectsWidth cc items[i] (usedWidth cw columns spacing w - kpLabelLen kp i))
    (i : Nat) (hi : i < items.length) (a b : Nat) (ha : a < (labelBuf labels i).length)
    (hb : b < ((labelBuf labels i)[a]).length) :
    cell r.lines
      (rowTop (rowHeight cm columns (listHeights (items'.map Wd.lines) labels))
        (cellOf cm columns items.length i).1 + a)
      (colLeft (usedWidth cw columns spacing w) spacing (cellOf cm columns items.length i).2 + b)
      = some ((labelBuf labels i)[a])[b] := by
  have hne : items ≠ [] := by
    intro e
    rw [e] at hi
    simp only [List.length_nil] at hi
    omega
  obtain ⟨hc, _, _⟩ := list_ok_room cc st cm columns cw spacing kp u nw items w r hne h
  have wo := widthOK_of_render cc st cm columns cw spacing kp u nw items w r items' labels hne h sh hfit
  have hig : i < (items'.map Wd.lines).length := by rw [shape_grids_length sh]; exact hi
  have P := place_labelsW cm columns hc (usedWidth cw columns spacing w) spacing labels (items'.map Wd.lines)
    (rowHeight cm columns (listHeights (items'.map Wd.lines) labels)) wo
    (listHeights_rowH cm columns _ labels wo.len) i hig a b ha hb
  simp only [List.length_map, sh.len_items] at P
  rw [sh.lines, sh.len_items]
  exact P

end place

end Simpleline
