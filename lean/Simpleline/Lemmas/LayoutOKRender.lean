/-
  Helper lemmas for C13b, part 2: what a successful render of a list container says about the
  rendered labels and items (`WidthOK`, `LayoutOK`).
-/
import Simpleline.Lemmas.LayoutOKLabel
import Simpleline.Lemmas.Containers

namespace Simpleline

/-! ### a successful render left room for every item -/

/-- a render of a non-empty list container succeeds only with at least one column, a positive columns
width and a label that leaves room for its item -/
theorem list_ok_room (cc : CharClass) (st : WSt) (cm : Bool) (columns : Nat) (cw : Option Int)
    (spacing : Nat) (kp : Option KeyPat) (u : Option Int) (nw : List NumW) (items : List Wd) (w : Int)
    (r : Wd) (hne : items ≠ [])
    (h : (Wd.list st cm columns cw spacing kp u nw items).render cc w = .ok r) :
    1 ≤ columns ∧ 0 < usedWidth cw columns spacing w ∧
    ∀ k, kp = some k → ∀ i, i < items.length →
      0 < usedWidth cw columns spacing w - (k.label i).length := by
  rw [render_list_eq] at h
  split at h
  · cases h
  · rename_i hz
    have hc : 1 ≤ columns := by
      apply Nat.pos_of_ne_zero
      intro h0
      exact hz ⟨h0, Or.inr (Or.inr hne)⟩
    by_cases hbad : usedWidth cw columns spacing w ≤ 0 ∨
        ∃ k, kp = some k ∧ ∃ j, j < items.length ∧
          usedWidth cw columns spacing w - (k.label (0 + j)).length ≤ 0
    · have ⟨e, he⟩ := renderListItems_error cc (usedWidth cw columns spacing w) kp items 0 hne hbad
      rw [he] at h
      cases h
    · refine ⟨hc, ?_, ?_⟩
      · apply Int.lt_of_not_ge
        intro hle
        exact hbad (Or.inl hle)
      · intro k hk i hi
        apply Int.lt_of_not_ge
        intro hle
        exact hbad (Or.inr ⟨k, hk, i, hi, by rw [Nat.zero_add]; exact hle⟩)

/-! ### reading the labels off the shape -/

section shape

variable {cc : CharClass} {cm : Bool} {columns : Nat} {cw : Option Int} {spacing : Nat}
  {kp : Option KeyPat} {items : List Wd} {w : Int} {r : Wd} {items' : List Wd}
  {labels : List (Option NumW)}

theorem shape_of_render (st : WSt) (u : Option Int) (nw : List NumW)
    (h : (Wd.list st cm columns cw spacing kp u nw items).render cc w = .ok r) :
    ∃ (items' : List Wd) (labels : List (Option NumW)),
      ListShape cc cm columns cw spacing kp items w r items' labels := by
  obtain ⟨items', labels, h1, h2, h3, h4, h5⟩ :=
    render_list_shape cc st cm columns cw spacing kp u nw items w r h
  refine ⟨items', labels, ⟨h1, h2, h3, ?_, h5⟩⟩
  intro i hi
  have h4i := h4 i hi
  cases kp with
  | none => exact h4i
  | some k => exact h4i

theorem shape_labelLen (sh : ListShape cc cm columns cw spacing kp items w r items' labels)
    (i : Nat) (hi : i < items.length) : labelLen labels i = kpLabelLen kp i := by
  have h := sh.label_render i hi
  unfold labelLen kpLabelLen
  cases kp with
  | none =>
    simp only [] at h ⊢
    rw [h]
  | some k =>
    simp only [] at h ⊢
    obtain ⟨s, _, hs⟩ := h
    rw [hs]

/-- without numbering there is no label -/
theorem shape_labelBuf_none (sh : ListShape cc cm columns cw spacing none items w r items' labels)
    (i : Nat) (hi : i < items.length) : labelBuf labels i = [] := by
  have h := sh.label_render i hi
  simp only [] at h
  unfold labelBuf
  rw [h]

/-- with numbering the label of item `i` is `k.label i` rendered at its own length -/
theorem shape_labelBuf_some {k : KeyPat}
    (sh : ListShape cc cm columns cw spacing (some k) items w r items' labels)
    (i : Nat) (hi : i < items.length) :
    ∃ s, renderTextSt cc {} (k.label i) (k.label i).length = .ok s ∧ labelBuf labels i = s.buf ∧
      labelLen labels i = (k.label i).length := by
  have h := sh.label_render i hi
  simp only [] at h
  obtain ⟨s, h1, hs⟩ := h
  refine ⟨s, h1, ?_, ?_⟩
  · unfold labelBuf; rw [hs]
  · unfold labelLen; rw [hs]

theorem shape_grids_length (sh : ListShape cc cm columns cw spacing kp items w r items' labels) :
    (items'.map Wd.lines).length = items.length := by
  rw [List.length_map, sh.len_items]

end shape

/-! ### `WidthOK` and `LayoutOK` from the render -/

/-- every width fact of `LayoutOK` follows from the success of the render as soon as the rendered
items respect the widths they were given -/
theorem widthOK_of_render (cc : CharClass) (st : WSt) (cm : Bool) (columns : Nat) (cw : Option Int)
    (spacing : Nat) (kp : Option KeyPat) (u : Option Int) (nw : List NumW) (items : List Wd) (w : Int)
    (r : Wd) (items' : List Wd) (labels : List (Option NumW)) (hne : items ≠ [])
    (h : (Wd.list st cm columns cw spacing kp u nw items).render cc w = .ok r)
    (sh : ListShape cc cm columns cw spacing kp items w r items' labels)
    (hfit : ∀ i, (hi : i < items.length) →
      RespectsWidth cc items[i] (usedWidth cw columns spacing w - kpLabelLen kp i)) :
    WidthOK (usedWidth cw columns spacing w) labels (items'.map Wd.lines) := by
  obtain ⟨_, hu, hroom⟩ := list_ok_room cc st cm columns cw spacing kp u nw items w r hne h
  have hlen := shape_grids_length sh
  have hroom' : ∀ i, i < items.length → (labelLen labels i : Int) < usedWidth cw columns spacing w := by
    intro i hi
    rw [shape_labelLen sh i hi]
    unfold kpLabelLen
    cases kp with
    | none => simpa using hu
    | some k =>
      have := hroom k rfl i hi
      simp only []
      omega
  refine ⟨hu, by rw [hlen, sh.len_labels], ?_, ?_, ?_⟩
  · intro i hi row hrow
    rw [hlen] at hi
    have hi' : i < items'.length := by rw [sh.len_items]; exact hi
    rw [List.getElem_map] at hrow
    have hf := hfit i hi
    rw [← shape_labelLen sh i hi] at hf
    have h1 := hf items'[i] (sh.item_render i hi hi') row hrow
    have h2 := hroom' i hi
    omega
  · intro i hi row hrow
    rw [hlen] at hi
    cases kp with
    | none => rw [shape_labelBuf_none sh i hi] at hrow; cases hrow
    | some k =>
      obtain ⟨s, hs, hb, hl⟩ := shape_labelBuf_some sh i hi
      rw [hb] at hrow
      rw [hl]
      exact label_render_fits cc (k.label i) s hs row hrow
  · intro i hi
    rw [hlen] at hi
    exact Or.inl (hroom' i hi)

/-- `LayoutOK` is `WidthOK` plus one-row labels -/
theorem layoutOK_of_widthOK {used : Int} {labels : List (Option NumW)} {grids : List Grid}
    (wo : WidthOK used labels grids)
    (hrows : ∀ i, i < grids.length → (labelBuf labels i).length ≤ 1) : LayoutOK used labels grids :=
  ⟨wo.used_pos, wo.len, wo.item_fits, hrows, wo.label_fits, wo.label_room⟩

theorem widthOK_of_layoutOK {used : Int} {labels : List (Option NumW)} {grids : List Grid}
    (ok : LayoutOK used labels grids) : WidthOK used labels grids :=
  ⟨ok.used_pos, ok.len, ok.item_fits, ok.label_fits, ok.label_room⟩

/-- the labels of a plain key pattern are at most one row high -/
theorem shape_label_rows {cc : CharClass} {cm : Bool} {columns : Nat} {cw : Option Int} {spacing : Nat}
    {kp : Option KeyPat} {items : List Wd} {w : Int} {r : Wd} {items' : List Wd}
    {labels : List (Option NumW)}
    (sh : ListShape cc cm columns cw spacing kp items w r items' labels) (hkp : kpPlain kp)
    (i : Nat) (hi : i < items.length) : (labelBuf labels i).length ≤ 1 := by
  cases kp with
  | none => rw [shape_labelBuf_none sh i hi]; simp
  | some k =>
    obtain ⟨s, hs, hb, _⟩ := shape_labelBuf_some sh i hi
    rw [hb]
    exact label_render_one_row cc k hkp i s hs

theorem layoutOK_of_render (cc : CharClass) (st : WSt) (cm : Bool) (columns : Nat) (cw : Option Int)
    (spacing : Nat) (kp : Option KeyPat) (u : Option Int) (nw : List NumW) (items : List Wd) (w : Int)
    (r : Wd) (items' : List Wd) (labels : List (Option NumW)) (hkp : kpPlain kp) (hne : items ≠ [])
    (h : (Wd.list st cm columns cw spacing kp u nw items).render cc w = .ok r)
    (sh : ListShape cc cm columns cw spacing kp items w r items' labels)
    (hfit : ∀ i, (hi : i < items.length) →
      RespectsWidth cc items[i] (usedWidth cw columns spacing w - kpLabelLen kp i)) :
    LayoutOK (usedWidth cw columns spacing w) labels (items'.map Wd.lines) :=
  layoutOK_of_widthOK
    (widthOK_of_render cc st cm columns cw spacing kp u nw items w r items' labels hne h sh hfit)
    (fun i hi => shape_label_rows sh hkp i (by rw [shape_grids_length sh] at hi; exact hi))

end Simpleline
