/-
  Routing (`LoopSt.route`) and the invariant that every signal pending in a level's queue belongs to
  that level: its source is registered with the level, or with no enclosing level.
-/
import Simpleline.Lemmas.LoopLevels

namespace Simpleline

/-! ### `LoopSt.route` -/

theorem find?_reverse_some {α} {l : List α} {p : α → Bool} {b : α} (h : l.reverse.find? p = some b) :
    ∃ i, ∃ hi : i < l.length, l[i] = b ∧ p b = true ∧ ∀ j (hj : j < l.length), i < j → p l[j] = false := by
  obtain ⟨hp, as, bs, hl, hall⟩ := List.find?_eq_some_iff_append.1 h
  have hl' : l = bs.reverse ++ b :: as.reverse := by
    have := congrArg List.reverse hl
    simpa using this
  subst hl'
  refine ⟨bs.length, by simp, by simp, hp, ?_⟩
  intro j hj hij
  have hmem : (bs.reverse ++ b :: as.reverse)[j] ∈ as := by
    rw [List.getElem_append_right (by simp; omega)]
    simp only [List.length_reverse]
    rw [List.getElem_cons, dif_neg (by omega)]
    exact List.mem_reverse.1 (List.getElem_mem _)
  simpa using hall _ hmem

theorem owns_iff (L : LoopSt) (q : Nat) (src : Src) :
    L.owns q src ↔ (L.queues.getD q {}).sources.contains src = true := by
  unfold LoopSt.owns; simp

theorem route_spec (L : LoopSt) (src : Src) :
    (∃ i, ∃ hi : i < L.levels.length, L.route src = L.levels[i] ∧ L.owns L.levels[i] src ∧
        ∀ j (hj : j < L.levels.length), i < j → ¬ L.owns L.levels[j] src) ∨
      ((∀ q ∈ L.levels, ¬ L.owns q src) ∧ L.route src = L.active) := by
  unfold LoopSt.route
  split
  · rename_i q hq
    obtain ⟨i, hi, h1, h2, h3⟩ := find?_reverse_some hq
    left
    refine ⟨i, hi, h1.symm, ?_, ?_⟩
    · rw [h1, owns_iff]; exact h2
    · intro j hj hij
      rw [owns_iff, h3 j hj hij]; simp
  · rename_i hq
    right
    refine ⟨?_, rfl⟩
    intro q hq'
    have := List.find?_eq_none.1 hq q (by simpa using hq')
    rw [owns_iff]; simpa using this

def QView.owns (v : QView) (q : Nat) (src : Src) : Prop := src ∈ (v.queue q).sources

theorem view_owns (c : Cfg) (q : Nat) (src : Src) : c.view.owns q src ↔ c.L.owns q src := Iff.rfl

/-- with levels in ascending order (as they are in reachable configurations): the route is the
greatest level owning the source, or the active queue if no level owns it -/
theorem route_spec_view (v : QView) (hinc : v.levels.Pairwise (· < ·)) (src : Src) :
    (v.route src ∈ v.levels ∧ v.owns (v.route src) src ∧
        ∀ q' ∈ v.levels, v.route src < q' → ¬ v.owns q' src) ∨
      ((∀ q ∈ v.levels, ¬ v.owns q src) ∧ v.route src = v.active) := by
  have h := route_spec { queues := v.queues, levels := v.levels, active := v.active } src
  rcases h with ⟨i, hi, h1, h2, h3⟩ | ⟨h1, h2⟩
  · left
    have h1' : v.route src = v.levels[i] := h1
    refine ⟨by rw [h1']; exact List.getElem_mem _, by rw [h1']; exact h2, ?_⟩
    intro q' hq' hlt
    obtain ⟨j, hj, rfl⟩ := List.mem_iff_getElem.1 hq'
    rw [h1'] at hlt
    have hij : i < j := by
      refine Decidable.byContradiction fun hn => ?_
      rcases Nat.lt_or_eq_of_le (Nat.le_of_not_lt hn) with hji | hji
      · have := (List.pairwise_iff_getElem.1 hinc) j i hj hi hji
        omega
      · subst hji; omega
    exact h3 j hj hij
  · exact .inr ⟨h1, h2⟩

theorem le_getLast_of_pairwise {l : List Nat} {a : Nat} (hinc : l.Pairwise (· < ·)) (ha : l.getLast? = some a) :
    ∀ q ∈ l, q ≤ a := by
  intro q hq
  obtain ⟨i, hi, rfl⟩ := List.mem_iff_getElem.1 hq
  rw [List.getLast?_eq_getElem?] at ha
  have hlast : l[l.length - 1]? = some a := ha
  have hl : l.length - 1 < l.length := by omega
  rw [List.getElem?_eq_getElem hl] at hlast
  cases hlast
  rcases Nat.lt_or_eq_of_le (Nat.le_sub_one_of_lt hi) with h | h
  · exact Nat.le_of_lt ((List.pairwise_iff_getElem.1 hinc) i (l.length - 1) hi hl h)
  · simp [h]

/-! ### the invariant -/

/-- every signal pending in a level's queue has its source registered with that level or with no
enclosing level (levels are in ascending order: enclosing = smaller) -/
def Belong (v : QView) : Prop :=
  ∀ q ∈ v.levels, ∀ e ∈ (v.queue q).entries,
    v.owns q e.2.2.src ∨ ∀ q' ∈ v.levels, q' < q → ¬ v.owns q' e.2.2.src

theorem Belong.enq {v : QView} (wf : WF v) (h : Belong v) (s : Sig) : Belong (v.enq s) := by
  intro q hq e he
  rw [enq_levels] at hq
  have ho : ∀ q x, (v.enq s).owns q x ↔ v.owns q x := by
    intro q x; unfold QView.owns; rw [enq_sources]
  simp only [ho, enq_levels]
  rw [enq_queue] at he
  split at he
  · rename_i hc
    rcases mem_insertEntry.1 he with rfl | he
    · rcases route_spec_view v wf.levels_inc s.src with ⟨_, h2, _⟩ | ⟨h1, _⟩
      · left; rw [← hc.2.1]; exact h2
      · right; exact fun q' hq' _ => h1 q' hq'
    · exact h q hq e he
  · exact h q hq e he

theorem Belong.enqSteps {v v' : QView} (hs : EnqSteps v v') (wf : WF v) (h : Belong v) : Belong v' := by
  induction hs with
  | refl => exact h
  | enq s hs' ih => exact ih.enq (wf.enqSteps hs') s
  | note t hb _ ih => exact ih

theorem Belong.struct {v v' : QView} (hs : StructOp v v') (wf : WF v) (h : Belong v) : Belong v' := by
  have hent := hs.entries
  have hsub := hs.sources_sub
  have hsrc := hs.sources
  cases hs with
  | addSrc x =>
    intro q hq e he
    rw [hent q] at he
    rcases h q hq e he with h1 | h1
    · exact .inl (hsub q _ h1)
    · right
      intro q' hq' hlt hown
      refine h1 q' hq' hlt ?_
      have hne : q' ≠ v.active := by
        rcases wf.top with ht | ht
        · have := le_getLast_of_pairwise wf.levels_inc ht q hq
          omega
        · rw [ht] at hq; cases hq
      unfold QView.owns at hown ⊢
      rwa [hsrc q' hne] at hown
  | forceQuit => intro q hq; cases hq
  | apprun => exact h
  | setRun => exact h
  | «open» hf =>
    have hqq : ∀ q, QView.queue { v with queues := v.queues ++ [{}], active := v.queues.length, levels := v.levels ++ [v.queues.length], tr := .openLevel v.queues.length v.runLoop :: v.tr } q = v.queue q := by
      intro q; simp only [QView.queue, getD_append_default]
    intro q hq e he
    unfold QView.owns
    simp only [hqq] at he ⊢
    rcases List.mem_append.1 hq with hq | hq
    · rcases h q hq e he with h1 | h1
      · exact .inl h1
      · right
        intro q' hq' hlt
        rcases List.mem_append.1 hq' with hq' | hq'
        · exact h1 q' hq' hlt
        · have := wf.levels_lt q hq
          simp at hq'; omega
    · simp at hq
      subst hq
      have : v.queue v.queues.length = {} := by
        unfold QView.queue
        rw [List.getD_eq_getElem?_getD, List.getElem?_eq_none (Nat.le_refl _)]; rfl
      rw [this] at he; cases he
  | pop q0 hq0 =>
    have hlv : ∀ x ∈ (v.pop q0).levels, x ∈ v.levels := by
      rw [pop_levels]; exact fun x hx => (List.dropLast_sublist _).subset hx
    have hqq : ∀ q, (v.pop q0).queue q = v.queue q := by
      intro q; unfold QView.queue; rw [pop_queues]
    intro q hq e he
    unfold QView.owns
    simp only [hqq] at he ⊢
    rcases h q (hlv q hq) e he with h1 | h1
    · exact .inl h1
    · exact .inr fun q' hq' hlt => h1 q' (hlv q' hq') hlt

theorem Belong.plain {v v' : QView} (hp : Plain v v') (wf : WF v) (h : Belong v) : Belong v' := by
  obtain ⟨vm, h1, h2⟩ := hp
  rcases h1 with rfl | h1
  · exact h.enqSteps h2 wf
  · exact (h.struct h1 wf).enqSteps h2 (wf.struct h1)

theorem Belong.takeV {v v' : QView} (ht : TakeV v v') (h : Belong v) : Belong v' := by
  have st := takeV_static ht
  have hq := takeV_queue ht
  intro q hq' e he
  rw [st.levels] at hq'
  have ho : ∀ q x, v'.owns q x ↔ v.owns q x := by
    intro q x; unfold QView.owns; rw [st.sources]
  simp only [ho, st.levels]
  have he' : e ∈ (v.queue q).entries := by
    rw [hq q] at he
    split at he
    · exact List.mem_of_mem_tail he
    · exact he
  exact h q hq' e he'

theorem Belong.eff {c c' : Cfg} (he : Eff c c') (wf : WF c.view) (h : Belong c.view) : Belong c'.view := by
  rcases he with hp | ⟨vm, h1, h2⟩ | ⟨e, es, _, h2⟩
  · exact h.plain hp wf
  · rcases h1 with rfl | ⟨_, d, hd, rfl⟩
    · exact h.takeV h2
    · exact (h.plain (Plain.deliver hd Plain.rfl') wf).takeV h2
  · rw [h2]; exact h

theorem Belong.reach {P : Prog} {c0 c : Cfg} (h0 : Started c0) (h : Reach P c0 c) : Belong c.view := by
  induction h with
  | init =>
    obtain ⟨i, hd, qc, si, rfl⟩ := h0
    intro q hq e he
    have : (initCfg i hd qc si).view.queue q = {} := by
      show ([({} : EQueue)]).getD q {} = {}
      cases q <;> rfl
    rw [this] at he; cases he
  | step hr hs ih => exact ih.eff (trans_eff (.step hs)) (WF.reach h0 hr)
  | deliver hr hd ih => exact ih.eff (trans_eff (P := P) (.deliver hd)) (WF.reach h0 hr)
  | halt hr hs ih => exact ih.eff (trans_eff (.halt hs)) (WF.reach h0 hr)

end Simpleline
