/-
  What the micro-operations of LoopOps do to queues, levels, sources and the trace; the
  well-formedness invariant `WF` of reachable configurations.
-/
import Simpleline.Lemmas.LoopStep

namespace Simpleline

theorem trans_eff {P : Prog} {c c' : Cfg} (h : Trans P c c') : Eff c c' := by
  cases h with
  | step hs => have := step_eff P c; rw [hs] at this; exact this
  | deliver hd => exact .inl (Plain.deliver hd Plain.rfl')
  | halt hs => have := step_eff P c; rw [hs] at this; exact this

/-! ### list helpers -/

theorem getD_listSet' {α} (l : List α) (i j : Nat) (f : α → α) (d : α) :
    (listSet l i f).getD j d = if i = j ∧ j < l.length then f (l.getD j d) else l.getD j d := by
  unfold listSet
  simp only [List.getD_eq_getElem?_getD, List.getElem?_modify]
  by_cases hj : j < l.length
  · by_cases hi : i = j
    · simp [hi, hj]
    · simp [hi]
  · simp [hj]

theorem getD_append_default {α} (l : List α) (d : α) (j : Nat) : (l ++ [d]).getD j d = l.getD j d := by
  simp only [List.getD_eq_getElem?_getD]
  by_cases hj : j < l.length
  · rw [List.getElem?_append_left hj]
  · by_cases hj' : j = l.length
    · subst hj'; simp
    · rw [List.getElem?_eq_none (by simp; omega), List.getElem?_eq_none (by omega)]

theorem newTr_of_append {c c' : Cfg} {new : List Tr} (h : c'.tr = new ++ c.tr) : newTr c c' = new := by
  unfold newTr; rw [h]; simp

/-! ### `QView.enq` -/

@[simp] theorem enq_levels (v : QView) (s : Sig) : (v.enq s).levels = v.levels := by
  unfold QView.enq; split <;> rfl
@[simp] theorem enq_active (v : QView) (s : Sig) : (v.enq s).active = v.active := by
  unfold QView.enq; split <;> rfl
@[simp] theorem enq_runLoop (v : QView) (s : Sig) : (v.enq s).runLoop = v.runLoop := by
  unfold QView.enq; split <;> rfl
@[simp] theorem enq_forceQuit (v : QView) (s : Sig) : (v.enq s).forceQuit = v.forceQuit := by
  unfold QView.enq; split <;> rfl
@[simp] theorem enq_length (v : QView) (s : Sig) : (v.enq s).queues.length = v.queues.length := by
  unfold QView.enq; split <;> simp

theorem enq_tr (v : QView) (s : Sig) :
    (v.enq s).tr = (if v.forceQuit then Tr.dropped s else Tr.enq (v.route s.src) s) :: v.tr := by
  unfold QView.enq; split <;> rfl

theorem enq_queue (v : QView) (s : Sig) (q : Nat) :
    (v.enq s).queue q =
      if v.forceQuit = false ∧ v.route s.src = q ∧ q < v.queues.length then (v.queue q).put s else v.queue q := by
  unfold QView.enq
  split
  · rename_i h; simp [h]; rfl
  · rename_i h
    simp only [QView.queue, getD_listSet']
    simp [h]

theorem enq_sources (v : QView) (s : Sig) (q : Nat) : ((v.enq s).queue q).sources = (v.queue q).sources := by
  rw [enq_queue]; split <;> rfl

theorem enq_entries_sub (v : QView) (s : Sig) (q : Nat) :
    (v.queue q).entries.Sublist ((v.enq s).queue q).entries := by
  rw [enq_queue]; split
  · exact insertEntry_sublist _ _
  · exact List.Sublist.refl _

theorem route_congr {v v' : QView} (hl : v'.levels = v.levels) (ha : v'.active = v.active)
    (hs : ∀ q, (v'.queue q).sources = (v.queue q).sources) (src : Src) : v'.route src = v.route src := by
  unfold QView.route
  rw [hl, ha]
  have : (fun q => (v'.queues.getD q {}).sources.contains src) =
      (fun q => (v.queues.getD q {}).sources.contains src) := by
    funext q
    have := hs q
    unfold QView.queue at this
    rw [this]
  rw [this]

/-- the route is a level or the active queue -/
theorem route_mem (v : QView) (src : Src) : v.route src ∈ v.levels ∨ v.route src = v.active := by
  unfold QView.route
  split
  · rename_i q h
    have := List.mem_of_find?_eq_some h
    exact .inl (by simpa using this)
  · exact .inr rfl

/-! ### `EnqSteps` -/

structure Static (v v' : QView) : Prop where
  levels : v'.levels = v.levels
  active : v'.active = v.active
  runLoop : v'.runLoop = v.runLoop
  forceQuit : v'.forceQuit = v.forceQuit
  length : v'.queues.length = v.queues.length
  sources : ∀ q, (v'.queue q).sources = (v.queue q).sources

theorem Static.route {v v' : QView} (h : Static v v') (src : Src) : v'.route src = v.route src :=
  route_congr h.levels h.active h.sources src

theorem EnqSteps.static {v v' : QView} (h : EnqSteps v v') : Static v v' := by
  induction h with
  | refl => exact ⟨rfl, rfl, rfl, rfl, rfl, fun _ => rfl⟩
  | enq s _ ih =>
    exact ⟨by simp [ih.levels], by simp [ih.active], by simp [ih.runLoop], by simp [ih.forceQuit],
      by simp [ih.length], fun q => by rw [enq_sources, ih.sources]⟩
  | note t _ _ ih => exact ⟨ih.levels, ih.active, ih.runLoop, ih.forceQuit, ih.length, ih.sources⟩

theorem EnqSteps.sub {v v' : QView} (h : EnqSteps v v') (q : Nat) :
    (v.queue q).entries.Sublist (v'.queue q).entries := by
  induction h with
  | refl => exact List.Sublist.refl _
  | enq s _ ih => exact ih.trans (enq_entries_sub _ s q)
  | note t _ _ ih => exact ih

/-- the events enqueues add: uninteresting ones, `dropped` after force-quit, `enq` at the route -/
def EnqEv (v : QView) (t : Tr) : Prop :=
  t.boring = true ∨ (∃ s, t = .dropped s ∧ v.forceQuit = true) ∨
    (∃ s, t = .enq (v.route s.src) s ∧ v.forceQuit = false)

theorem EnqSteps.tr {v v' : QView} (h : EnqSteps v v') :
    ∃ new, v'.tr = new ++ v.tr ∧ ∀ t ∈ new, EnqEv v t := by
  induction h with
  | refl => exact ⟨[], rfl, by simp⟩
  | @enq v' s hs ih =>
    obtain ⟨new, h1, h2⟩ := ih
    have st := hs.static
    refine ⟨_ :: new, by rw [enq_tr, h1]; rfl, ?_⟩
    intro t ht
    rcases List.mem_cons.1 ht with rfl | ht
    · by_cases hf : v'.forceQuit = true
      · rw [if_pos hf]
        exact .inr (.inl ⟨s, rfl, by rw [← st.forceQuit]; exact hf⟩)
      · rw [if_neg hf]
        refine .inr (.inr ⟨s, by rw [st.route], ?_⟩)
        rw [← st.forceQuit]; simpa using hf
    · exact h2 t ht
  | @note v' t hb hs ih =>
    obtain ⟨new, h1, h2⟩ := ih
    refine ⟨t :: new, by show t :: v'.tr = _; rw [h1]; rfl, ?_⟩
    intro t' ht
    rcases List.mem_cons.1 ht with rfl | ht
    · exact .inl hb
    · exact h2 t' ht

/-! ### `StructOp` -/

theorem StructOp.entries {v v' : QView} (h : StructOp v v') (q : Nat) :
    (v'.queue q).entries = (v.queue q).entries := by
  cases h with
  | addSrc s =>
    simp only [QView.queue, getD_listSet']
    split <;> simp
  | forceQuit => rfl
  | apprun => rfl
  | setRun => rfl
  | «open» hf => simp only [QView.queue, getD_append_default]
  | pop q' hq => unfold QView.pop; split <;> rfl

theorem StructOp.seq {v v' : QView} (h : StructOp v v') (q : Nat) :
    (v'.queue q).seq = (v.queue q).seq := by
  cases h with
  | addSrc s =>
    simp only [QView.queue, getD_listSet']
    split <;> simp
  | forceQuit => rfl
  | apprun => rfl
  | setRun => rfl
  | «open» hf => simp only [QView.queue, getD_append_default]
  | pop q' hq => unfold QView.pop; split <;> rfl

theorem StructOp.length {v v' : QView} (h : StructOp v v') : v.queues.length ≤ v'.queues.length := by
  cases h with
  | addSrc s => simp
  | forceQuit => exact Nat.le_refl _
  | apprun => exact Nat.le_refl _
  | setRun => exact Nat.le_refl _
  | «open» hf => simp
  | pop q' hq => unfold QView.pop; split <;> exact Nat.le_refl _

theorem StructOp.sources {v v' : QView} (h : StructOp v v') (q : Nat) (hq : q ≠ v.active) :
    (v'.queue q).sources = (v.queue q).sources := by
  cases h with
  | addSrc s =>
    simp only [QView.queue, getD_listSet']
    rw [if_neg (by omega)]
  | forceQuit => rfl
  | apprun => rfl
  | setRun => rfl
  | «open» hf => simp only [QView.queue, getD_append_default]
  | pop q' hq => unfold QView.pop; split <;> rfl

theorem StructOp.sources_sub {v v' : QView} (h : StructOp v v') (q : Nat) :
    ∀ x ∈ (v.queue q).sources, x ∈ (v'.queue q).sources := by
  cases h with
  | addSrc s =>
    simp only [QView.queue, getD_listSet']
    split
    · exact addSource_sources_sub _ _
    · exact fun _ h => h
  | forceQuit => exact fun _ h => h
  | apprun => exact fun _ h => h
  | setRun => exact fun _ h => h
  | «open» hf => simp only [QView.queue, getD_append_default]; exact fun _ h => h
  | pop q' hq => unfold QView.pop; split <;> exact fun _ h => h

/-- the events structural operations add -/
def StructEv (t : Tr) : Prop := t = .forceQuit ∨ (∃ q r, t = .openLevel q r) ∨ ∃ q, t = .closeLevel q

theorem StructOp.tr {v v' : QView} (h : StructOp v v') :
    ∃ new, v'.tr = new ++ v.tr ∧ ∀ t ∈ new, StructEv t := by
  cases h with
  | addSrc s => exact ⟨[], rfl, by simp⟩
  | forceQuit => exact ⟨[.forceQuit], rfl, by simp [StructEv]⟩
  | apprun => exact ⟨[], rfl, by simp⟩
  | setRun => exact ⟨[], rfl, by simp⟩
  | «open» hf => exact ⟨[.openLevel _ _], rfl, fun t ht => .inr (.inl ⟨_, _, by simpa using ht⟩)⟩
  | pop q' hq =>
    refine ⟨[.closeLevel q'], ?_, by simp [StructEv]⟩
    unfold QView.pop; split <;> rfl

end Simpleline
