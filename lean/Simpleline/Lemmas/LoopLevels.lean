/-
  Opening and closing levels, identified by the `.openLevel` / `.closeLevel` trace events.
-/
import Simpleline.Lemmas.LoopTrans

namespace Simpleline

theorem pop_levels (v : QView) (q : Nat) : (v.pop q).levels = v.levels.dropLast := by
  unfold QView.pop
  split
  · rename_i h
    exact (List.getLast?_eq_none_iff.1 h).symm
  · rfl

theorem pop_queues (v : QView) (q : Nat) : (v.pop q).queues = v.queues := by
  unfold QView.pop; split <;> rfl

theorem pop_active_some (v : QView) (q a : Nat) (h : v.levels.dropLast.getLast? = some a) :
    (v.pop q).active = a ∧ (v.pop q).runLoop = false := by
  rw [pop_some q a h]; exact ⟨rfl, rfl⟩

theorem pop_active_none (v : QView) (q : Nat) (h : v.levels.dropLast.getLast? = none) :
    (v.pop q).active = v.active ∧ (v.pop q).runLoop = v.runLoop := by
  rw [pop_none q h]; exact ⟨rfl, rfl⟩

theorem EnqEv.not_closeLevel {v : QView} {q : Nat} (h : EnqEv v (.closeLevel q)) : False := by
  rcases h with h | ⟨_, h, _⟩ | ⟨_, h, _⟩ <;> cases h

theorem EnqEv.not_openLevel {v : QView} {q : Nat} {r : Bool} (h : EnqEv v (.openLevel q r)) : False := by
  rcases h with h | ⟨_, h, _⟩ | ⟨_, h, _⟩ <;> cases h

/-- which structural operation added a `.closeLevel` -/
theorem StructOp.of_closeLevel {v vm : QView} (h : StructOp v vm) {new : List Tr} (htr : vm.tr = new ++ v.tr)
    {q : Nat} (hm : Tr.closeLevel q ∈ new) : v.levels.getLast? = some q ∧ vm = v.pop q := by
  cases h with
  | addSrc s => have : new = [] := by simpa using htr
                subst this; cases hm
  | forceQuit =>
    have : new = [.forceQuit] := by
      have : [Tr.forceQuit] ++ v.tr = new ++ v.tr := htr
      exact (List.append_cancel_right this).symm
    subst this; simp at hm
  | apprun => have : new = [] := by simpa using htr
              subst this; cases hm
  | setRun => have : new = [] := by simpa using htr
              subst this; cases hm
  | «open» hf =>
    have : new = [.openLevel v.queues.length v.runLoop] := by
      have : [Tr.openLevel v.queues.length v.runLoop] ++ v.tr = new ++ v.tr := htr
      exact (List.append_cancel_right this).symm
    subst this; simp at hm
  | pop q' hq =>
    have : new = [.closeLevel q'] := by
      have h2 : (v.pop q').tr = [Tr.closeLevel q'] ++ v.tr := by unfold QView.pop; split <;> rfl
      rw [h2] at htr
      exact (List.append_cancel_right htr).symm
    subst this
    simp at hm
    subst hm
    exact ⟨hq, rfl⟩

/-- which structural operation added an `.openLevel` -/
theorem StructOp.of_openLevel {v vm : QView} (h : StructOp v vm) {new : List Tr} (htr : vm.tr = new ++ v.tr)
    {q : Nat} {r : Bool} (hm : Tr.openLevel q r ∈ new) :
    q = v.queues.length ∧ r = v.runLoop ∧ v.forceQuit = false ∧
      vm.levels = v.levels ++ [q] ∧ vm.active = q ∧ vm.queues = v.queues ++ [({} : EQueue)] ∧ vm.runLoop = v.runLoop ∧
      vm.forceQuit = false := by
  cases h with
  | addSrc s => have : new = [] := by simpa using htr
                subst this; cases hm
  | forceQuit =>
    have : new = [.forceQuit] := by
      have : [Tr.forceQuit] ++ v.tr = new ++ v.tr := htr
      exact (List.append_cancel_right this).symm
    subst this; simp at hm
  | apprun => have : new = [] := by simpa using htr
              subst this; cases hm
  | setRun => have : new = [] := by simpa using htr
              subst this; cases hm
  | «open» hf =>
    have : new = [.openLevel v.queues.length v.runLoop] := by
      have : [Tr.openLevel v.queues.length v.runLoop] ++ v.tr = new ++ v.tr := htr
      exact (List.append_cancel_right this).symm
    subst this
    simp at hm
    obtain ⟨rfl, rfl⟩ := hm
    exact ⟨rfl, rfl, hf, rfl, rfl, rfl, rfl, hf⟩
  | pop q' hq =>
    have : new = [.closeLevel q'] := by
      have h2 : (v.pop q').tr = [Tr.closeLevel q'] ++ v.tr := by unfold QView.pop; split <;> rfl
      rw [h2] at htr
      exact (List.append_cancel_right htr).symm
    subst this
    simp at hm

/-- the new events of a take transition: the take, preceded by at most a delivery's `enq`/`dropped` -/
theorem TakeTrans.new {c c' : Cfg} (h : TakeTrans c c') :
    ∃ q s, newTr c c' = [.take q s] ∨ (∃ s', newTr c c' = [.take q s, .dropped s']) ∨
      (∃ r s', newTr c c' = [.take q s, .enq r s']) := by
  obtain ⟨vm, h1, e, es, he, h2⟩ := h
  have h3 : c'.tr = Tr.take vm.active e.2.2 :: vm.tr := by
    have : c'.view.tr = _ := congrArg QView.tr h2
    rwa [view_tr] at this
  refine ⟨vm.active, e.2.2, ?_⟩
  rcases h1 with rfl | ⟨_, d, hd, rfl⟩
  · left
    exact newTr_of_append (new := [_]) h3
  · obtain ⟨s', hs⟩ := deliver_view hd
    have h4 : d.tr = (if c.view.forceQuit then Tr.dropped s' else Tr.enq (c.view.route s'.src) s') :: c.tr := by
      have : d.view.tr = _ := congrArg QView.tr hs
      rwa [view_tr, enq_tr] at this
    right
    split at h4
    · left
      exact ⟨s', newTr_of_append (new := [_, _]) (by rw [h3]; show _ :: d.tr = _; rw [h4]; rfl)⟩
    · right
      exact ⟨_, s', newTr_of_append (new := [_, _]) (by rw [h3]; show _ :: d.tr = _; rw [h4]; rfl)⟩

theorem PutBackTrans.new {c c' : Cfg} (h : PutBackTrans c c') :
    ∃ q s, newTr c c' = [.procEnd, .putBack q s] := by
  obtain ⟨e, es, _, h2⟩ := h
  refine ⟨c.L.active, e.2.2, newTr_of_append (new := [_, _]) ?_⟩
  have : c'.view.tr = _ := congrArg QView.tr h2
  rwa [view_tr] at this

/-- a transition that adds `.closeLevel q` pops exactly the top level `q` -/
theorem eff_closeLevel {c c' : Cfg} (h : Eff c c') {q : Nat} (hm : Tr.closeLevel q ∈ newTr c c') :
    c.L.levels.getLast? = some q ∧ c'.L.levels = c.L.levels.dropLast ∧
      c'.L.queues.length = c.L.queues.length ∧
      (∀ a, c.L.levels.dropLast.getLast? = some a → c'.L.active = a ∧ c'.L.runLoop = false) ∧
      (c.L.levels.dropLast = [] → c'.L.active = c.L.active ∧ c'.L.runLoop = c.L.runLoop) := by
  rcases h with hp | ht | hb
  · obtain ⟨f⟩ := hp.facts
    rw [newTr_of_append (c := c) (c' := c') f.tr] at hm
    rcases List.mem_append.1 hm with hm | hm
    · exact (f.ev2 _ hm).not_closeLevel.elim
    · rcases f.first with heq | hs
      · have : f.new1 = [] := by
          have := f.tr1; rw [heq] at this; simpa using this
        rw [this] at hm; cases hm
      · obtain ⟨h1, h2⟩ := hs.of_closeLevel f.tr1 hm
        have st := f.static
        rw [h2] at st
        refine ⟨h1, ?_, ?_, ?_, ?_⟩
        · have := st.levels; rwa [pop_levels] at this
        · have := st.length; rwa [pop_queues] at this
        · intro a ha
          have := pop_active_some c.view q a ha
          exact ⟨st.active.trans this.1, st.runLoop.trans this.2⟩
        · intro hnil
          have hn : c.view.levels.dropLast.getLast? = none := by
            show c.L.levels.dropLast.getLast? = none
            rw [hnil]; rfl
          have := pop_active_none c.view q hn
          exact ⟨st.active.trans this.1, st.runLoop.trans this.2⟩
  · obtain ⟨q', s, h1 | ⟨s', h1⟩ | ⟨r, s', h1⟩⟩ := ht.new <;> rw [h1] at hm <;> simp at hm
  · obtain ⟨q', s, h1⟩ := hb.new
    rw [h1] at hm; simp at hm

/-- a transition that adds `.openLevel q r` creates queue object `q` and makes it the new top level -/
theorem eff_openLevel {c c' : Cfg} (h : Eff c c') {q : Nat} {r : Bool} (hm : Tr.openLevel q r ∈ newTr c c') :
    q = c.L.queues.length ∧ r = c.L.runLoop ∧ c.L.forceQuit = false ∧
      c'.L.levels = c.L.levels ++ [q] ∧ c'.L.active = q ∧ c'.L.queues.length = q + 1 ∧
      c'.L.runLoop = c.L.runLoop ∧ c'.L.forceQuit = false ∧ (c'.queue q).sources = [] := by
  rcases h with hp | ht | hb
  · obtain ⟨f⟩ := hp.facts
    rw [newTr_of_append (c := c) (c' := c') f.tr] at hm
    rcases List.mem_append.1 hm with hm | hm
    · exact (f.ev2 _ hm).not_openLevel.elim
    · rcases f.first with heq | hs
      · have : f.new1 = [] := by
          have := f.tr1; rw [heq] at this; simpa using this
        rw [this] at hm; cases hm
      · obtain ⟨h1, h2, h3, h4, h5, h6, h7, h8⟩ := hs.of_openLevel f.tr1 hm
        have st := f.static
        refine ⟨h1, h2, h3, ?_, ?_, ?_, ?_, ?_, ?_⟩
        · have := st.levels; rwa [h4] at this
        · have := st.active; rwa [h5] at this
        · have := st.length; rw [h6] at this
          show c'.view.queues.length = _
          rw [this, h1]; simp
        · have := st.runLoop; rwa [h7] at this
        · have := st.forceQuit; rwa [h8] at this
        · show (c'.view.queue q).sources = []
          rw [st.sources q]
          unfold QView.queue
          rw [h6, h1]; simp
  · obtain ⟨q', s, h1 | ⟨s', h1⟩ | ⟨r, s', h1⟩⟩ := ht.new <;> rw [h1] at hm <;> simp at hm
  · obtain ⟨q', s, h1⟩ := hb.new
    rw [h1] at hm; simp at hm

/-- levels and the active queue change only in transitions that add a `.openLevel`, `.closeLevel`
or `.forceQuit` event -/
theorem eff_levels_static {c c' : Cfg} (h : Eff c c')
    (hno : ∀ t ∈ newTr c c', ¬ StructEv t) : c'.L.levels = c.L.levels ∧ c'.L.active = c.L.active := by
  rcases h with hp | ht | ⟨e, es, he, h2⟩
  · obtain ⟨f⟩ := hp.facts
    rw [newTr_of_append (c := c) (c' := c') f.tr] at hno
    have st := f.static
    rcases f.first with heq | hs
    · rw [heq] at st; exact ⟨st.levels, st.active⟩
    · have h1 : f.new1 = [] := by
        cases hn : f.new1 with
        | nil => rfl
        | cons t ts =>
          exact absurd (f.ev1 t (by rw [hn]; simp)) (hno t (by rw [hn]; simp))
      have htr := f.tr1
      rw [h1] at htr
      generalize f.vm = vm at hs st htr
      cases hs with
      | addSrc s => exact ⟨st.levels, st.active⟩
      | forceQuit => simp at htr
      | apprun => exact ⟨st.levels, st.active⟩
      | setRun => exact ⟨st.levels, st.active⟩
      | «open» hf => simp at htr
      | pop q' hq =>
        have h2 : (c.view.pop q').tr = [Tr.closeLevel q'] ++ c.view.tr := by unfold QView.pop; split <;> rfl
        rw [h2] at htr; simp at htr
  · obtain ⟨vm, h1, hp, hv⟩ := ht.plainPart
    have st := takeV_static hv
    rcases h1 with rfl | ⟨_, d, hd, rfl⟩
    · exact ⟨st.levels, st.active⟩
    · obtain ⟨s', hs⟩ := deliver_view hd
      rw [hs] at st
      exact ⟨by have := st.levels; simpa using this, by have := st.active; simpa using this⟩
  · exact ⟨congrArg QView.levels h2, congrArg QView.active h2⟩

end Simpleline
