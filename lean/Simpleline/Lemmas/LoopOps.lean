/-
  The loop-relevant *view* of a configuration and the micro-operations every machine transition is
  made of (proof device for C01 / C03).

  Every transition is one of
  * `Plain`: at most one *structural* operation (`StructOp`: register a source with the active queue,
    force-quit, `run()` start, restore `_run_loop`, open a level, pop a level) followed by any number of
    enqueues and uninteresting trace events (`EnqSteps`);
  * `TakeTrans`: (a delivery by the reader thread when the active queue is empty, then) removal of the
    head of the active queue;
  * `PutBackTrans`: the put-back of `process_signals`' partial batch (queues untouched).
-/
import Simpleline.Lemmas.LoopQueue

namespace Simpleline

structure QView where
  queues : List EQueue
  levels : List Nat
  active : Nat
  runLoop : Bool
  forceQuit : Bool
  tr : List Tr

def Cfg.view (c : Cfg) : QView := ⟨c.L.queues, c.L.levels, c.L.active, c.L.runLoop, c.L.forceQuit, c.tr⟩

@[simp] theorem view_queues (c : Cfg) : c.view.queues = c.L.queues := rfl
@[simp] theorem view_levels (c : Cfg) : c.view.levels = c.L.levels := rfl
@[simp] theorem view_active (c : Cfg) : c.view.active = c.L.active := rfl
@[simp] theorem view_runLoop (c : Cfg) : c.view.runLoop = c.L.runLoop := rfl
@[simp] theorem view_forceQuit (c : Cfg) : c.view.forceQuit = c.L.forceQuit := rfl
@[simp] theorem view_tr (c : Cfg) : c.view.tr = c.tr := rfl

def QView.queue (v : QView) (q : Nat) : EQueue := v.queues.getD q {}

def QView.route (v : QView) (src : Src) : Nat :=
  match v.levels.reverse.find? (fun q => (v.queues.getD q {}).sources.contains src) with
  | some q => q
  | none => v.active

theorem view_route (c : Cfg) (src : Src) : c.view.route src = c.L.route src := rfl

def QView.enq (v : QView) (s : Sig) : QView :=
  if v.forceQuit then { v with tr := .dropped s :: v.tr }
  else { v with queues := listSet v.queues (v.route s.src) (·.put s), tr := .enq (v.route s.src) s :: v.tr }

theorem view_enqueue (c : Cfg) (s : Sig) : (c.enqueue s).view = c.view.enq s := by
  unfold Cfg.enqueue QView.enq
  split <;> rename_i h
  · have : c.view.forceQuit = true := h
    rw [if_pos this]; rfl
  · have : ¬ c.view.forceQuit = true := h
    rw [if_neg this]; rfl

/-- trace events that are not about queues / levels -/
def Tr.boring : Tr → Bool
  | .enq .. | .dropped .. | .take .. | .putBack .. | .forceQuit | .openLevel .. | .closeLevel .. => false
  | _ => true

def QView.note (v : QView) (t : Tr) : QView := { v with tr := t :: v.tr }

def QView.pop (v : QView) (q : Nat) : QView :=
  match v.levels.dropLast.getLast? with
  | none => { v with levels := [], tr := .closeLevel q :: v.tr }
  | some a => { v with levels := v.levels.dropLast, active := a, runLoop := false, tr := .closeLevel q :: v.tr }

inductive EnqSteps : QView → QView → Prop
  | refl (v : QView) : EnqSteps v v
  | enq {v v' : QView} (s : Sig) : EnqSteps v v' → EnqSteps v (v'.enq s)
  | note {v v' : QView} (t : Tr) : t.boring = true → EnqSteps v v' → EnqSteps v (v'.note t)

inductive StructOp : QView → QView → Prop
  | addSrc (v : QView) (s : Src) :
      StructOp v { v with queues := listSet v.queues v.active (addSource · s) }
  | forceQuit (v : QView) :
      StructOp v { v with forceQuit := true, levels := [], runLoop := false, tr := .forceQuit :: v.tr }
  | apprun (v : QView) : StructOp v { v with forceQuit := false, runLoop := true }
  | setRun (v : QView) : StructOp v { v with runLoop := true }
  | «open» (v : QView) : v.forceQuit = false →
      StructOp v { v with queues := v.queues ++ [{}], active := v.queues.length,
                          levels := v.levels ++ [v.queues.length],
                          tr := .openLevel v.queues.length v.runLoop :: v.tr }
  | pop (v : QView) (q : Nat) : v.levels.getLast? = some q → StructOp v (v.pop q)

def Plain (v v' : QView) : Prop := ∃ vm, (vm = v ∨ StructOp v vm) ∧ EnqSteps vm v'

def TakeV (v v' : QView) : Prop :=
  ∃ e es, (v.queue v.active).entries = e :: es ∧
    v' = { v with queues := listSet v.queues v.active (fun q => { q with entries := es }),
                  tr := .take v.active e.2.2 :: v.tr }

def TakeTrans (c c' : Cfg) : Prop :=
  ∃ vm, (vm = c.view ∨ (c.L.activeQ.entries = [] ∧ ∃ d, c.deliver = some d ∧ vm = d.view)) ∧ TakeV vm c'.view

def PutBackTrans (c c' : Cfg) : Prop :=
  ∃ e es, c.L.activeQ.entries = e :: es ∧
    c'.view = { c.view with tr := .procEnd :: .putBack c.L.active e.2.2 :: c.tr }

def Eff (c c' : Cfg) : Prop := Plain c.view c'.view ∨ TakeTrans c c' ∨ PutBackTrans c c'

/-! ### continuation-style lemmas: "having got to `c`, we get to `f c`" -/

theorem Plain.rfl' {v : QView} : Plain v v := ⟨v, .inl rfl, .refl v⟩

theorem Plain.of_struct {v v' : QView} (h : StructOp v v') : Plain v v' := ⟨v', .inr h, .refl v'⟩

theorem Plain.enq {v v' : QView} (s : Sig) : Plain v v' → Plain v (v'.enq s)
  | ⟨vm, h1, h2⟩ => ⟨vm, h1, h2.enq s⟩

theorem Plain.note {v v' : QView} (t : Tr) (ht : t.boring = true) : Plain v v' → Plain v (v'.note t)
  | ⟨vm, h1, h2⟩ => ⟨vm, h1, h2.note t ht⟩

theorem Plain.enqueue {v : QView} {c : Cfg} (s : Sig) (h : Plain v c.view) : Plain v (c.enqueue s).view := by
  rw [view_enqueue]; exact h.enq s

theorem Plain.trace {v : QView} {c : Cfg} (t : Tr) (ht : t.boring = true) (h : Plain v c.view) :
    Plain v (c.trace t).view := h.note t ht

theorem Plain.push {v : QView} {c : Cfg} (is : List Instr) (h : Plain v c.view) : Plain v (push c is).view := h

theorem Plain.write {v : QView} {c : Cfg} (t : Str) (h : Plain v c.view) : Plain v (c.write t).view := h

theorem Plain.redraw {v : QView} {c : Cfg} (h : Plain v c.view) : Plain v c.redraw.view := by
  unfold Cfg.redraw Cfg.newSig
  exact Plain.enqueue _ h

theorem Plain.deliver {v : QView} {c d : Cfg} (hd : c.deliver = some d) (h : Plain v c.view) : Plain v d.view := by
  unfold Cfg.deliver at hd
  split at hd
  · cases hd
  · simp only [Cfg.newSig, Option.some.injEq] at hd
    subst hd
    exact Plain.enqueue _ h

theorem Plain.deliverGetD {v : QView} {c : Cfg} (h : Plain v c.view) : Plain v ((c.deliver).getD c).view := by
  cases hd : c.deliver with
  | none => exact h
  | some d => exact h.deliver hd

theorem Plain.emit {v : QView} {c : Cfg} (P : Prog) (e : Ev) (h : Plain v c.view) : Plain v (c.emit P e).view := by
  unfold Cfg.emit
  dsimp only
  split
  · exact Plain.deliverGetD h
  · exact h

/-- the effect of an `Except`-valued helper -/
def ExQ (v : QView) (r : Except (Outcome × Cfg) Cfg) : Prop :=
  match r with
  | .ok c' => Plain v c'.view
  | .error (_, c') => Plain v c'.view

@[simp] theorem ExQ_ok (v : QView) (c : Cfg) : ExQ v (.ok c) ↔ Plain v c.view := Iff.rfl
@[simp] theorem ExQ_error (v : QView) (o : Outcome) (c : Cfg) : ExQ v (.error (o, c)) ↔ Plain v c.view := Iff.rfl

theorem ExQ.unwind {v : QView} (k : Kind) (code : List Instr) (c : Cfg) (h : Plain v c.view) :
    ExQ v (unwind k code c) := by
  induction code generalizing c with
  | nil => unfold Simpleline.unwind; cases k <;> exact h
  | cons ins rest ih =>
    unfold Simpleline.unwind
    split
    · exact Plain.enqueue _ h
    · exact Plain.enqueue _ h
    · exact Plain.enqueue _ h
    · exact Plain.enqueue _ h
    · exact h
    · exact ih c h

theorem ExQ.raise {v : QView} {c : Cfg} (k : Kind) (h : Plain v c.view) : ExQ v (c.raise k) := by
  unfold Cfg.raise
  apply ExQ.unwind
  cases k
  · exact h.trace .exit rfl
  · exact h
  · exact h

theorem ExQ.startRequest {v : QView} {c : Cfg} (ih : Nat) (r : Src) (t : Str) (h : Plain v c.view) :
    ExQ v (startRequest c ih r t) := by
  unfold Simpleline.startRequest
  dsimp only
  split
  · exact ExQ.raise _ h
  · split
    · exact h
    · exact h

theorem Plain.newIH {v : QView} {c : Cfg} (src : Src) (skip : Bool) (cb : Option Nat) (h : Plain v c.view) :
    Plain v (newIH c src skip cb).2.view := h

end Simpleline
