/-
  The statements of Props/C01 and Props/C03 that need more than a one-line reference.
-/
import Simpleline.Lemmas.LoopBelong

namespace Simpleline

theorem queues_sorted {P : Prog} {c0 c : Cfg} (h0 : Started c0) (hr : Reach P c0 c) :
    ∀ q ∈ c.L.queues, q.Sorted := by
  intro q hq
  obtain ⟨i, hi, rfl⟩ := List.mem_iff_getElem.1 hq
  have := (WF.reach h0 hr).sorted i
  have heq : c.view.queue i = c.L.queues[i] := by
    show c.L.queues.getD i {} = _
    rw [List.getD_eq_getElem?_getD, List.getElem?_eq_getElem hi]; rfl
  rwa [heq] at this

theorem take_is_head {P : Prog} {c0 c c' : Cfg} (h0 : Started c0) (hr : Reach P c0 c) (ht : Trans P c c')
    {q : Nat} {s : Sig} (hm : Tr.take q s ∈ newTr c c') :
    ∃ cm : Cfg, (cm = c ∨ ((c.queue c.L.active).entries = [] ∧ c.deliver = some cm)) ∧
      q = cm.L.active ∧
      ∃ e es, (cm.queue q).entries = e :: es ∧ e.2.2 = s ∧ (∀ e' ∈ es, entryLt e e') ∧
        (c'.queue q).entries = es ∧ (∀ q', q' ≠ q → c'.queue q' = cm.queue q') ∧
        c'.tr = .take q s :: cm.tr := by
  obtain ⟨f⟩ := eff_take (trans_eff ht) hm
  have wf : WF f.vm := (WF.reach h0 hr).plain f.plain
  have hq := takeV_queue f.takeV
  have hact := f.active
  have main : ∀ cm : Cfg, f.vm = cm.view →
      q = cm.L.active ∧
      ∃ e es, (cm.queue q).entries = e :: es ∧ e.2.2 = s ∧ (∀ e' ∈ es, entryLt e e') ∧
        (c'.queue q).entries = es ∧ (∀ q', q' ≠ q → c'.queue q' = cm.queue q') ∧
        c'.tr = .take q s :: cm.tr := by
    intro cm hcm
    refine ⟨by rw [hact, hcm]; rfl, f.e, f.es, by rw [← f.entries, hcm]; rfl, f.sig,
      sorted_head_min (wf.sorted q) f.entries, ?_, ?_, ?_⟩
    · show (c'.view.queue q).entries = _
      rw [hq q, if_pos hact.symm]
      show (f.vm.queue q).entries.tail = _
      rw [f.entries]; rfl
    · intro q' hne
      show c'.view.queue q' = _
      rw [hq q', if_neg (by rw [← hact]; exact fun h => hne h.symm), hcm]; rfl
    · have : c'.view.tr = _ := congrArg QView.tr f.after
      rw [view_tr] at this
      rw [this, hcm]; rfl
  rcases f.first with h1 | ⟨h1, d, hd, h2⟩
  · exact ⟨c, .inl rfl, main c h1⟩
  · exact ⟨d, .inr ⟨h1, hd⟩, main d h2⟩

theorem no_more_urgent_pending {P : Prog} {c0 c c' : Cfg} (h0 : Started c0) (hr : Reach P c0 c)
    (ht : Trans P c c') {q : Nat} {s : Sig} (hm : Tr.take q s ∈ newTr c c') :
    ∀ s' ∈ (c'.queue q).sigs, s.prio ≤ s'.prio := by
  obtain ⟨cm, hcm, _, e, es, he, hs, hmin, hes, _, _⟩ := take_is_head h0 hr ht hm
  have hr' : Reach P c0 cm := by
    rcases hcm with rfl | ⟨_, hd⟩
    · exact hr
    · exact hr.deliver hd
  have srt := (WF.reach h0 hr').sorted q
  intro s' hs'
  unfold EQueue.sigs at hs'
  rw [hes] at hs'
  obtain ⟨e', he', rfl⟩ := List.mem_map.1 hs'
  have h1 := entryLt_prio_le (hmin e' he')
  have h2 : e.1 = e.2.2.prio := srt.prio e (by show e ∈ (cm.queue q).entries; rw [he]; simp)
  have h3 : e'.1 = e'.2.2.prio := srt.prio e' (by show e' ∈ (cm.queue q).entries; rw [he]; simp [he'])
  rw [← hs]; omega

/-! ### levels -/

theorem active_is_top {P : Prog} {c0 c : Cfg} (h0 : Started c0) (hr : Reach P c0 c) :
    (c.L.levels.getLast? = some c.L.active ∨ c.L.levels = []) ∧
      c.L.active < c.L.queues.length ∧ (∀ q ∈ c.L.levels, q < c.L.queues.length) ∧
      c.L.levels.Pairwise (· < ·) ∧ c.L.levels.Nodup := by
  have wf := WF.reach h0 hr
  exact ⟨wf.top, wf.active_lt, wf.levels_lt, wf.levels_inc,
    wf.levels_inc.imp (fun h => Nat.ne_of_lt h)⟩

/-- the configuration at the moment of a take has the levels, active queue and sources of `c` -/
theorem moment_static {c cm : Cfg} (h : cm = c ∨ ((c.queue c.L.active).entries = [] ∧ c.deliver = some cm)) :
    cm.L.levels = c.L.levels ∧ cm.L.active = c.L.active ∧ ∀ q x, cm.L.owns q x ↔ c.L.owns q x := by
  rcases h with rfl | ⟨_, hd⟩
  · exact ⟨rfl, rfl, fun _ _ => Iff.rfl⟩
  · obtain ⟨s, hs⟩ := deliver_view hd
    refine ⟨?_, ?_, ?_⟩
    · show cm.view.levels = _; rw [hs]; simp
    · show cm.view.active = _; rw [hs]; simp
    · intro q x
      show x ∈ (cm.view.queue q).sources ↔ x ∈ (c.view.queue q).sources
      rw [hs, enq_sources]

theorem isolation {P : Prog} {c0 c c' : Cfg} (h0 : Started c0) (hr : Reach P c0 c) (ht : Trans P c c')
    {q : Nat} {s : Sig} (hm : Tr.take q s ∈ newTr c c') :
    q = c.L.active ∧ (c.L.levels.getLast? = some q ∨ c.L.levels = []) := by
  obtain ⟨cm, hcm, hq, _⟩ := take_is_head h0 hr ht hm
  have hst := moment_static hcm
  have hqa : q = c.L.active := by rw [hq, hst.2.1]
  refine ⟨hqa, ?_⟩
  rw [hqa]; exact (WF.reach h0 hr).top

theorem dispatched_belong {P : Prog} {c0 c c' : Cfg} (h0 : Started c0) (hr : Reach P c0 c) (ht : Trans P c c')
    {q : Nat} {s : Sig} (hm : Tr.take q s ∈ newTr c c') (hq : q ∈ c.L.levels) :
    c.L.owns q s.src ∨ ∀ q' ∈ c.L.levels, q' < q → ¬ c.L.owns q' s.src := by
  obtain ⟨cm, hcm, _, e, es, he, hs, _⟩ := take_is_head h0 hr ht hm
  have hst := moment_static hcm
  have hr' : Reach P c0 cm := by
    rcases hcm with rfl | ⟨_, hd⟩
    · exact hr
    · exact hr.deliver hd
  have hb := Belong.reach h0 hr' q (by show q ∈ cm.L.levels; rw [hst.1]; exact hq) e
    (by show e ∈ (cm.queue q).entries; rw [he]; simp)
  rw [hs] at hb
  rcases hb with hb | hb
  · exact .inl ((hst.2.2 q _).1 hb)
  · right
    intro q' hq' hlt hown
    exact hb q' (by show q' ∈ cm.L.levels; rw [hst.1]; exact hq') hlt ((hst.2.2 q' _).2 hown)

theorem pending_belong {P : Prog} {c0 c : Cfg} (h0 : Started c0) (hr : Reach P c0 c) :
    ∀ q ∈ c.L.levels, ∀ s ∈ (c.queue q).sigs,
      c.L.owns q s.src ∨ ∀ q' ∈ c.L.levels, q' < q → ¬ c.L.owns q' s.src := by
  intro q hq s hs
  obtain ⟨e, he, rfl⟩ := List.mem_map.1 hs
  exact Belong.reach h0 hr q hq e he

/-! ### `execute_new_loop`: the step that opens a level -/

def openView (v : QView) : QView :=
  { v with queues := v.queues ++ [{}], active := v.queues.length, levels := v.levels ++ [v.queues.length], tr := .openLevel v.queues.length v.runLoop :: v.tr }

theorem step_newLoop (P : Prog) (c : Cfg) (s : Sig) (rest : List Instr) (hc : c.code = .newLoop s :: rest)
    (hf : c.L.forceQuit = false) :
    ∃ c', step P c = .ok c' ∧ c'.code = .mainCheck c.L.queues.length :: rest ∧ c'.view = (openView c.view).enq s := by
  unfold step
  rw [hc]
  simp only [hf]
  refine ⟨_, rfl, rfl, ?_⟩
  refine (view_enqueue _ s).trans ?_
  congr 1
  simp [Cfg.view, openView, Cfg.trace, hf]

theorem newLoop_facts (P : Prog) (c : Cfg) (s : Sig) (rest : List Instr) (hc : c.code = .newLoop s :: rest)
    (hf : c.L.forceQuit = false) :
    ∃ c', step P c = .ok c' ∧ c'.code = .mainCheck c.L.queues.length :: rest ∧
      c'.L.levels = c.L.levels ++ [c.L.queues.length] ∧ c'.L.active = c.L.queues.length ∧
      c'.L.queues.length = c.L.queues.length + 1 ∧
      newTr c c' = [.enq (c'.L.route s.src) s, .openLevel c.L.queues.length c.L.runLoop] ∧
      (c'.queue c.L.queues.length).sigs = (if c'.L.route s.src = c.L.queues.length then [s] else []) ∧
      (c'.queue c.L.queues.length).sources = [] := by
  obtain ⟨c', h1, h2, h3⟩ := step_newLoop P c s rest hc hf
  have st : Static (openView c.view) c'.view := by rw [h3]; exact (EnqSteps.enq s (.refl _)).static
  have hfq : (openView c.view).forceQuit = false := hf
  have hr : c'.L.route s.src = (openView c.view).route s.src := by rw [← view_route]; exact st.route _
  have hq0 : (openView c.view).queue c.L.queues.length = {} := by
    show (c.L.queues ++ [({} : EQueue)]).getD c.L.queues.length {} = {}
    simp
  refine ⟨c', h1, h2, st.levels, st.active, ?_, ?_, ?_, ?_⟩
  · have := st.length
    show c'.view.queues.length = _
    rw [this]; simp [openView]
  · apply newTr_of_append (new := [_, _])
    have : c'.view.tr = _ := congrArg QView.tr h3
    rw [view_tr, enq_tr, hfq] at this
    rw [this, hr]; rfl
  · show (c'.view.queue _).sigs = _
    rw [h3, enq_queue, hr, hq0]
    by_cases hq : (openView c.view).route s.src = c.L.queues.length
    · rw [if_pos hq, if_pos ⟨hfq, hq, by simp [openView]⟩]; rfl
    · rw [if_neg hq, if_neg (fun h => hq h.2.1)]; rfl
  · show (c'.view.queue _).sources = _
    rw [st.sources, hq0]

theorem held {P : Prog} {c c' : Cfg} (ht : Trans P c c') {q : Nat} (hq : q ≠ c.L.active) :
    (c.queue q).sigs.Sublist (c'.queue q).sigs ∧ ∀ s, Tr.take q s ∉ newTr c c' := by
  have hno : ∀ s, Tr.take q s ∉ newTr c c' := by
    intro s hm
    obtain ⟨f⟩ := eff_take (trans_eff ht) hm
    rcases f.first with h1 | ⟨_, d, hd, h1⟩
    · exact hq (by rw [f.active, h1]; rfl)
    · obtain ⟨s', hs⟩ := deliver_view hd
      exact hq (by rw [f.active, h1, hs]; simp)
  refine ⟨?_, hno⟩
  rcases eff_entries (trans_eff ht) q with h | ⟨_, h, _⟩
  · exact h.map _
  · exact absurd h hq

/-! ### several transitions -/

theorem eff_tr {c c' : Cfg} (h : Eff c c') : ∃ new, c'.tr = new ++ c.tr := by
  rcases h with hp | ht | ⟨e, es, _, h2⟩
  · obtain ⟨f⟩ := hp.facts
    exact ⟨_, f.tr⟩
  · obtain ⟨vm, h1, hp, e, es, he, h2⟩ := ht.plainPart
    obtain ⟨f⟩ := hp.facts
    refine ⟨Tr.take vm.active e.2.2 :: (f.new2 ++ f.new1), ?_⟩
    have : c'.view.tr = _ := congrArg QView.tr h2
    rw [view_tr] at this
    rw [this]; show _ :: vm.tr = _; rw [f.tr]; rfl
  · refine ⟨[Tr.procEnd, Tr.putBack c.L.active e.2.2], ?_⟩
    have : c'.view.tr = _ := congrArg QView.tr h2
    rw [view_tr] at this
    rw [this]; rfl

theorem reach_tr {P : Prog} {c c' : Cfg} (h : Reach P c c') : ∃ new, c'.tr = new ++ c.tr := by
  induction h with
  | init => exact ⟨[], rfl⟩
  | step _ hs ih =>
    obtain ⟨n1, h1⟩ := ih
    obtain ⟨n2, h2⟩ := eff_tr (trans_eff (.step hs))
    exact ⟨n2 ++ n1, by rw [h2, h1, List.append_assoc]⟩
  | deliver _ hd ih =>
    obtain ⟨n1, h1⟩ := ih
    obtain ⟨n2, h2⟩ := eff_tr (trans_eff (P := P) (.deliver hd))
    exact ⟨n2 ++ n1, by rw [h2, h1, List.append_assoc]⟩
  | halt _ hs ih =>
    obtain ⟨n1, h1⟩ := ih
    obtain ⟨n2, h2⟩ := eff_tr (trans_eff (.halt hs))
    exact ⟨n2 ++ n1, by rw [h2, h1, List.append_assoc]⟩

theorem held_trans_step {P : Prog} {c cm c' : Cfg} (hr : Reach P c cm) (ht : Trans P cm c') {q : Nat}
    (ih : (∀ s, Tr.take q s ∉ newTr c cm) → (c.queue q).sigs.Sublist (cm.queue q).sigs)
    (hno : ∀ s, Tr.take q s ∉ newTr c c') : (c.queue q).sigs.Sublist (c'.queue q).sigs := by
  obtain ⟨n1, h1⟩ := reach_tr hr
  obtain ⟨n2, h2⟩ := eff_tr (trans_eff ht)
  have h3 : c'.tr = (n2 ++ n1) ++ c.tr := by rw [h2, h1, List.append_assoc]
  rw [newTr_of_append h3] at hno
  have ih' := ih (by rw [newTr_of_append h1]; exact fun s hm => hno s (List.mem_append_right _ hm))
  refine ih'.trans ?_
  rcases eff_entries (trans_eff ht) q with h | ⟨⟨s, hs⟩, _, _⟩
  · exact h.map _
  · rw [newTr_of_append h2] at hs
    exact absurd (List.mem_append_left _ hs) (hno s)

theorem held_multi {P : Prog} {c c' : Cfg} (h : Reach P c c') {q : Nat}
    (hno : ∀ s, Tr.take q s ∉ newTr c c') : (c.queue q).sigs.Sublist (c'.queue q).sigs := by
  induction h with
  | init => exact List.Sublist.refl _
  | step hr hs ih => exact held_trans_step hr (.step hs) ih hno
  | deliver hr hd ih => exact held_trans_step hr (.deliver hd) ih hno
  | halt hr hs ih => exact held_trans_step hr (.halt hs) ih hno

end Simpleline
