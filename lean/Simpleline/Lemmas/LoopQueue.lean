/-
  Pure lemmas about `insertEntry` / `EQueue.put` (the `EventQueue` data structure).
-/
import Simpleline.Spec.LoopSpec

namespace Simpleline

theorem entryLt_trans {a b c : QEntry} (h1 : entryLt a b) (h2 : entryLt b c) : entryLt a c := by
  unfold entryLt at *; omega

theorem entryLt_prio_le {a b : QEntry} (h : entryLt a b) : a.1 ≤ b.1 := by
  unfold entryLt at *; omega

theorem entryLt_irrefl (a : QEntry) : ¬ entryLt a a := by
  unfold entryLt; omega

theorem entryLt_of_not {a b : QEntry} (h : ¬ entryLt a b) (hne : a.2.1 ≠ b.2.1) : entryLt b a := by
  unfold entryLt at *; omega

theorem mem_insertEntry {e y : QEntry} {l : List QEntry} : y ∈ insertEntry e l ↔ y = e ∨ y ∈ l := by
  induction l with
  | nil => simp [insertEntry]
  | cons x xs ih =>
    unfold insertEntry
    split
    · simp
    · simp only [List.mem_cons, ih]
      constructor
      · rintro (h | h | h) <;> simp [h]
      · rintro (h | h | h) <;> simp [h]

theorem insertEntry_length (e : QEntry) (l : List QEntry) : (insertEntry e l).length = l.length + 1 := by
  induction l with
  | nil => rfl
  | cons x xs ih => unfold insertEntry; split <;> simp [ih]

theorem insertEntry_sublist (e : QEntry) (l : List QEntry) : l.Sublist (insertEntry e l) := by
  induction l with
  | nil => simp
  | cons x xs ih =>
    unfold insertEntry
    split
    · exact List.Sublist.cons _ (List.Sublist.refl _)
    · exact ih.cons_cons _

theorem insertEntry_pairwise {e : QEntry} {l : List QEntry} (hl : l.Pairwise entryLt)
    (hne : ∀ x ∈ l, x.2.1 ≠ e.2.1) : (insertEntry e l).Pairwise entryLt := by
  induction l with
  | nil => simp [insertEntry]
  | cons x xs ih =>
    rw [List.pairwise_cons] at hl
    unfold insertEntry
    split
    · rename_i hc
      have hex : entryLt e x := hc
      refine List.pairwise_cons.2 ⟨?_, List.pairwise_cons.2 hl⟩
      intro y hy
      rcases List.mem_cons.1 hy with rfl | hy
      · exact hex
      · exact entryLt_trans hex (hl.1 y hy)
    · rename_i hc
      have hxe : entryLt x e := entryLt_of_not hc (fun h => hne x (by simp) h.symm)
      refine List.pairwise_cons.2 ⟨?_, ih hl.2 (fun y hy => hne y (by simp [hy]))⟩
      intro y hy
      rcases mem_insertEntry.1 hy with rfl | hy
      · exact hxe
      · exact hl.1 y hy

/-- where the new entry goes, when its arrival number is newer than every entry's -/
theorem insertEntry_eq_filter {e : QEntry} {l : List QEntry} (hl : l.Pairwise entryLt)
    (hlt : ∀ x ∈ l, x.2.1 < e.2.1) :
    insertEntry e l = l.filter (fun x => x.1 ≤ e.1) ++ [e] ++ l.filter (fun x => e.1 < x.1) := by
  induction l with
  | nil => simp [insertEntry]
  | cons x xs ih =>
    rw [List.pairwise_cons] at hl
    have hx := hlt x (by simp)
    unfold insertEntry
    split
    · rename_i hc
      have hex : e.1 < x.1 := by omega
      have h1 : (x :: xs).filter (fun y => y.1 ≤ e.1) = [] := by
        rw [List.filter_eq_nil_iff]
        intro y hy
        rcases List.mem_cons.1 hy with rfl | hy
        · simp; omega
        · have := entryLt_prio_le (hl.1 y hy); simp; omega
      have h2 : (x :: xs).filter (fun y => e.1 < y.1) = x :: xs := by
        rw [List.filter_eq_self]
        intro y hy
        rcases List.mem_cons.1 hy with rfl | hy
        · simp; omega
        · have := entryLt_prio_le (hl.1 y hy); simp; omega
      rw [h1, h2]; rfl
    · rename_i hc
      have hxe : x.1 ≤ e.1 := by omega
      rw [ih hl.2 (fun y hy => hlt y (by simp [hy]))]
      have h1 : (x :: xs).filter (fun y => y.1 ≤ e.1) = x :: xs.filter (fun y => y.1 ≤ e.1) := by
        simp [hxe]
      have h2 : (x :: xs).filter (fun y => e.1 < y.1) = xs.filter (fun y => e.1 < y.1) := by
        simp [List.filter_cons]; omega
      rw [h1, h2]; rfl

/-! ### `EQueue.put` -/

@[simp] theorem put_seq (q : EQueue) (s : Sig) : (q.put s).seq = q.seq + 1 := rfl
@[simp] theorem put_sources (q : EQueue) (s : Sig) : (q.put s).sources = q.sources := rfl
theorem put_entries (q : EQueue) (s : Sig) :
    (q.put s).entries = insertEntry (s.prio, q.seq, s) q.entries := rfl

theorem put_sorted {q : EQueue} (s : Sig) (h : q.Sorted) : (q.put s).Sorted := by
  refine ⟨?_, ?_, ?_⟩
  · refine insertEntry_pairwise h.ordered ?_
    intro x hx
    have := h.fresh x hx
    show x.2.1 ≠ q.seq
    omega
  · intro e he
    rcases mem_insertEntry.1 he with rfl | he
    · show q.seq < q.seq + 1; omega
    · have := h.fresh e he
      show e.2.1 < q.seq + 1; omega
  · intro e he
    rcases mem_insertEntry.1 he with rfl | he
    · rfl
    · exact h.prio e he

theorem put_place {q : EQueue} (s : Sig) (h : q.Sorted) :
    (q.put s).entries =
      q.entries.filter (fun x => x.1 ≤ s.prio) ++ [(s.prio, q.seq, s)] ++ q.entries.filter (fun x => s.prio < x.1) :=
  insertEntry_eq_filter (e := (s.prio, q.seq, s)) h.ordered (fun x hx => h.fresh x hx)

theorem sorted_head_min {q : EQueue} (h : q.Sorted) {e : QEntry} {es : List QEntry}
    (he : q.entries = e :: es) : ∀ e' ∈ es, entryLt e e' := by
  have := h.ordered
  rw [he, List.pairwise_cons] at this
  exact this.1

theorem sorted_tail {q : EQueue} (h : q.Sorted) {e : QEntry} {es : List QEntry}
    (he : q.entries = e :: es) : ({ q with entries := es } : EQueue).Sorted := by
  refine ⟨?_, ?_, ?_⟩
  · have := h.ordered
    rw [he, List.pairwise_cons] at this
    exact this.2
  · intro x hx; exact h.fresh x (by rw [he]; simp [hx])
  · intro x hx; exact h.prio x (by rw [he]; simp [hx])

theorem sorted_empty : ({} : EQueue).Sorted := ⟨List.Pairwise.nil, by simp, by simp⟩

theorem addSource_sorted {q : EQueue} (s : Src) (h : q.Sorted) : (addSource q s).Sorted := by
  unfold addSource; split
  · exact h
  · exact ⟨h.ordered, h.fresh, h.prio⟩

@[simp] theorem addSource_entries (q : EQueue) (s : Src) : (addSource q s).entries = q.entries := by
  unfold addSource; split <;> rfl

@[simp] theorem addSource_seq (q : EQueue) (s : Src) : (addSource q s).seq = q.seq := by
  unfold addSource; split <;> rfl

theorem addSource_sources_sub (q : EQueue) (s : Src) : ∀ x ∈ q.sources, x ∈ (addSource q s).sources := by
  unfold addSource; split
  · exact fun _ h => h
  · intro x hx; simp [hx]

/-! ### signals of a sorted queue: the stable priority queue -/

theorem sigs_put {q : EQueue} (s : Sig) (h : q.Sorted) : (q.put s).sigs = stableInsert s q.sigs := by
  unfold EQueue.sigs stableInsert
  rw [put_place s h]
  simp only [List.map_append, List.map_cons, List.filter_map, List.append_assoc,
    List.singleton_append]
  congr 1
  · congr 1
    apply List.filter_congr
    intro x hx
    simp [h.prio x hx]
  · congr 2
    apply List.filter_congr
    intro x hx
    simp [h.prio x hx]

/-! ### `listSet` (= `List.modify`) -/

@[simp] theorem length_listSet {α} (l : List α) (i : Nat) (f : α → α) : (listSet l i f).length = l.length := by
  unfold listSet; simp

end Simpleline
