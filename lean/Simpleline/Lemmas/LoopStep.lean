/-
  Master lemma: every machine transition is `Plain`, a `TakeTrans` or a `PutBackTrans` (see LoopOps).
-/
import Simpleline.Lemmas.LoopOps

namespace Simpleline

theorem Plain.setNextSid {v : QView} {c : Cfg} (n : Nat) (h : Plain v c.view) :
    Plain v ({ c with nextSid := n } : Cfg).view := h

theorem Plain.setA {v : QView} {c : Cfg} (a : AppSt) (h : Plain v c.view) :
    Plain v ({ c with A := a } : Cfg).view := h

/-- close a `Plain`/`ExQ` goal whose configuration is built from helpers on top of a configuration
with the same view as the start -/
macro "plain_auto" : tactic =>
  `(tactic| (
    repeat' first
      | (rw [ExQ_ok])
      | (rw [ExQ_error])
      | with_reducible apply ExQ.raise
      | with_reducible apply ExQ.startRequest
      | with_reducible apply Plain.push
      | with_reducible apply Plain.enqueue
      | with_reducible apply Plain.redraw
      | with_reducible apply Plain.write
      | with_reducible apply Plain.emit
      | with_reducible apply Plain.deliverGetD
      | with_reducible (apply Plain.trace _ rfl)
      | exact Plain.rfl'
      | split))

theorem Plain.congr {v : QView} {c c' : Cfg} (h : c'.view = c.view) (hp : Plain v c.view) : Plain v c'.view :=
  h ▸ hp

theorem ExQ.doAct {c : Cfg} (a : Act) : ExQ c.view (doAct c a) := by
  cases a <;> simp only [Simpleline.doAct, Cfg.newSig]
  case proc x => cases x <;> simp only <;> plain_auto
  case schedule =>
    split
    · plain_auto
    · rw [ExQ_ok]
      refine Plain.congr (c := Cfg.redraw _) rfl ?_
      plain_auto
  case regSource src => exact Plain.of_struct (StructOp.addSrc c.view src)
  case forceQuit => exact Plain.of_struct (StructOp.forceQuit c.view)
  all_goals plain_auto

/-! ### taking the head of the active queue -/

theorem enqueue_code (c : Cfg) (s : Sig) (r : List Instr) :
    ({ c with code := r } : Cfg).enqueue s = { c.enqueue s with code := r } := by
  unfold Cfg.enqueue
  split <;> rfl

theorem deliver_code (c : Cfg) (r : List Instr) :
    ({ c with code := r } : Cfg).deliver = c.deliver.map (fun d => { d with code := r }) := by
  unfold Cfg.deliver
  dsimp only
  split
  · rfl
  · simp only [Cfg.newSig, Option.map_some]
    by_cases hf : c.L.forceQuit = true <;> simp [Cfg.enqueue, hf, Cfg.trace]

theorem TakeTrans.of_code {c c' : Cfg} {r : List Instr} (h : TakeTrans { c with code := r } c') : TakeTrans c c' := by
  obtain ⟨vm, h1, h2⟩ := h
  refine ⟨vm, ?_, h2⟩
  rcases h1 with h1 | ⟨h1, d, hd, rfl⟩
  · exact .inl h1
  · refine .inr ⟨h1, ?_⟩
    rw [deliver_code] at hd
    cases hc : c.deliver with
    | none => simp [hc] at hd
    | some d0 =>
      simp [hc] at hd
      exact ⟨d0, rfl, by rw [← hd]; rfl⟩

theorem takeV_of {c : Cfg} {e : QEntry} {es : List QEntry} (h : c.L.activeQ.entries = e :: es) :
    TakeV c.view ({ c with L := { c.L with queues := listSet c.L.queues c.L.active (fun q => { q with entries := es }) }, tr := .take c.L.active e.2.2 :: c.tr } : Cfg).view :=
  ⟨e, es, h, rfl⟩

theorem take_cases (c : Cfg) :
    match c.take with
    | .ok (_, c') => TakeTrans c c'
    | .error (_, c') => Plain c.view c'.view := by
  unfold Cfg.take
  by_cases h : c.L.activeQ.entries = []
  · simp only [h, if_true]
    cases hd : c.deliver with
    | none =>
      simp only [Option.getD_none, h]
      exact Plain.rfl'
    | some d =>
      simp only [Option.getD_some]
      cases he : d.L.activeQ.entries with
      | nil => exact Plain.deliver hd Plain.rfl'
      | cons e es => exact ⟨d.view, .inr ⟨h, d, hd, rfl⟩, takeV_of he⟩
  · simp only [h, if_false]
    cases he : c.L.activeQ.entries with
    | nil => exact absurd he h
    | cons e es => exact ⟨c.view, .inl rfl, takeV_of he⟩

/-! ### the master lemma -/

def EffR (c : Cfg) (r : Except (Outcome × Cfg) Cfg) : Prop :=
  match r with
  | .ok c' => Eff c c'
  | .error (_, c') => Eff c c'

@[simp] theorem EffR_ok (c c' : Cfg) : EffR c (.ok c') ↔ Eff c c' := Iff.rfl
@[simp] theorem EffR_error (c c' : Cfg) (o : Outcome) : EffR c (.error (o, c')) ↔ Eff c c' := Iff.rfl

theorem EffR.of_ExQ {c : Cfg} {r : Except (Outcome × Cfg) Cfg} (h : ExQ c.view r) : EffR c r := by
  unfold EffR; unfold ExQ at h
  split <;> simp only at h <;> exact .inl h

/-- the three consumers: `take`, then continue with some pushed instructions -/
theorem EffR.take_bind {c0 : Cfg} {r : List Instr} (k : Sig → List Instr) :
    EffR c0 (do let (s, c) ← ({ c0 with code := r } : Cfg).take; pure (push c (k s))) := by
  have h := take_cases { c0 with code := r }
  cases ht : ({ c0 with code := r } : Cfg).take with
  | error e =>
    obtain ⟨o, c'⟩ := e
    rw [ht] at h
    exact .inl h
  | ok p =>
    obtain ⟨s, c'⟩ := p
    rw [ht] at h
    exact .inr (.inl (TakeTrans.of_code h))

theorem Plain.foldl {α} {v : QView} (f : Cfg → α → Cfg) (hf : ∀ c a, Plain v c.view → Plain v (f c a).view)
    (l : List α) (c : Cfg) (h : Plain v c.view) : Plain v (l.foldl f c).view := by
  induction l generalizing c with
  | nil => exact h
  | cons a l ih => exact ih _ (hf c a h)

theorem pop_none {v : QView} (q : Nat) (h : v.levels.dropLast.getLast? = none) :
    v.pop q = { v with levels := [], tr := .closeLevel q :: v.tr } := by
  unfold QView.pop; rw [h]

theorem pop_some {v : QView} (q a : Nat) (h : v.levels.dropLast.getLast? = some a) :
    v.pop q = { v with levels := v.levels.dropLast, active := a, runLoop := false, tr := .closeLevel q :: v.tr } := by
  unfold QView.pop; rw [h]

theorem step_eff (P : Prog) (c0 : Cfg) : EffR c0 (step P c0) := by
  unfold step
  split
  · exact .inl Plain.rfl'
  · rename_i ins rest hcode
    cases ins <;> dsimp only
    case act a => exact EffR.of_ExQ (ExQ.doAct (c := { c0 with code := rest }) a)
    case getDispatch => exact EffR.take_bind (fun s => [.processSignal s])
    case waitStep cls t =>
      split
      · exact EffR.take_bind (fun s => [.processSignal s, .waitCheck cls t])
      · apply EffR.of_ExQ; plain_auto
    case apprun =>
      split
      · exact .inl Plain.rfl'
      · exact .inl (Plain.of_struct (StructOp.apprun c0.view))
    case restoreRun =>
      split
      · exact .inl Plain.rfl'
      · exact .inl (Plain.of_struct (StructOp.setRun c0.view))
    case procIter p =>
      split
      · apply EffR.of_ExQ; plain_auto
      · rename_i e es heq
        split
        · apply EffR.of_ExQ; plain_auto
        · split
          · exact .inr (.inl ⟨c0.view, .inl rfl, e, es, heq, rfl⟩)
          · split
            · exact .inr (.inl ⟨c0.view, .inl rfl, e, es, heq, rfl⟩)
            · exact .inr (.inr ⟨e, es, heq, rfl⟩)
    case newLoop s =>
      split
      · exact .inl Plain.rfl'
      · rename_i hf
        refine .inl ?_
        apply Plain.push
        apply Plain.enqueue
        exact Plain.of_struct (StructOp.open c0.view (by simpa using hf))
    case popLevel =>
      split
      · apply EffR.of_ExQ; plain_auto
      · rename_i q hq
        split
        · rename_i hl
          apply EffR.of_ExQ
          apply ExQ.raise
          have := StructOp.pop c0.view q hq
          rw [pop_none q hl] at this
          exact Plain.of_struct this
        · rename_i a hl
          have := StructOp.pop c0.view q hq
          rw [pop_some q a hl] at this
          exact .inl (Plain.of_struct this)
    case pushModal scr args =>
      simp only [Cfg.newSig]
      refine .inl ?_
      apply Plain.push
      apply Plain.setNextSid
      plain_auto
    case afterSetup2 top =>
      refine .inl ?_
      apply Plain.push
      apply Plain.trace _ rfl
      exact Plain.of_struct (StructOp.addSrc c0.view (.scr top.screen))
    case scrRet scr cb ret key =>
      cases cb <;> dsimp only
      case setup =>
        split
        · exact .inl Plain.rfl'
        · exact .inl (Plain.of_struct (StructOp.addSrc c0.view (.scr scr)))
      all_goals exact .inl Plain.rfl'
    case inputReceived s =>
      split
      · apply EffR.of_ExQ; plain_auto
      · simp only [Cfg.newSig]
        refine .inl ?_
        refine Plain.congr (c := List.foldl _ _ _) rfl ?_
        apply Plain.foldl
        · intro c a h
          apply Plain.enqueue
          exact h
        · plain_auto
    all_goals (apply EffR.of_ExQ; plain_auto; done)

end Simpleline
