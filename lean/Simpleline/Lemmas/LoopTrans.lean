/-
  Transition-level consequences of the master lemma: what a transition that adds a `.take`,
  `.putBack`, `.enq`, `.closeLevel`, `.openLevel` event is, and the frame facts for all others.
-/
import Simpleline.Lemmas.LoopWF

namespace Simpleline

def Tr.isPutBack : Tr → Bool
  | .putBack .. => true
  | _ => false

/-- the events a `Plain` transition adds -/
def PlainEv (v : QView) (t : Tr) : Prop := StructEv t ∨ EnqEv v t

theorem StructEv.isTake {t : Tr} (h : StructEv t) : t.isTake = false := by
  rcases h with rfl | ⟨_, _, rfl⟩ | ⟨_, rfl⟩ <;> rfl
theorem StructEv.isPutBack {t : Tr} (h : StructEv t) : t.isPutBack = false := by
  rcases h with rfl | ⟨_, _, rfl⟩ | ⟨_, rfl⟩ <;> rfl
theorem isTake_of_boring {t : Tr} (h : t.boring = true) : t.isTake = false := by
  cases t <;> first | rfl | cases h
theorem isPutBack_of_boring {t : Tr} (h : t.boring = true) : t.isPutBack = false := by
  cases t <;> first | rfl | cases h
theorem EnqEv.isTake {v : QView} {t : Tr} (h : EnqEv v t) : t.isTake = false := by
  rcases h with h | ⟨_, rfl, _⟩ | ⟨_, rfl, _⟩
  · exact isTake_of_boring h
  · rfl
  · rfl
theorem EnqEv.isPutBack {v : QView} {t : Tr} (h : EnqEv v t) : t.isPutBack = false := by
  rcases h with h | ⟨_, rfl, _⟩ | ⟨_, rfl, _⟩
  · exact isPutBack_of_boring h
  · rfl
  · rfl

/-- everything a `Plain` transition does, in one record -/
structure PlainFacts (v v' : QView) where
  vm : QView
  first : vm = v ∨ StructOp v vm
  static : Static vm v'
  sub : ∀ q, (v.queue q).entries.Sublist (v'.queue q).entries
  length : v.queues.length ≤ v'.queues.length
  sources : ∀ q, q ≠ v.active → (v'.queue q).sources = (v.queue q).sources
  sources_sub : ∀ q, ∀ x ∈ (v.queue q).sources, x ∈ (v'.queue q).sources
  new1 : List Tr
  new2 : List Tr
  tr1 : vm.tr = new1 ++ v.tr
  tr2 : v'.tr = new2 ++ vm.tr
  ev1 : ∀ t ∈ new1, StructEv t
  ev2 : ∀ t ∈ new2, EnqEv v' t

theorem EnqEv.congr {v v' : QView} (st : Static v v') {t : Tr} (h : EnqEv v t) : EnqEv v' t := by
  rcases h with h | ⟨s, rfl, hf⟩ | ⟨s, rfl, hf⟩
  · exact .inl h
  · exact .inr (.inl ⟨s, rfl, by rw [st.forceQuit]; exact hf⟩)
  · exact .inr (.inr ⟨s, by rw [st.route], by rw [st.forceQuit]; exact hf⟩)

theorem Plain.facts {v v' : QView} (h : Plain v v') : Nonempty (PlainFacts v v') := by
  obtain ⟨vm, h1, h2⟩ := h
  obtain ⟨new2, t2, e2⟩ := h2.tr
  have st := h2.static
  rcases h1 with rfl | h1
  · exact ⟨⟨vm, .inl rfl, st, h2.sub, by rw [st.length]; exact Nat.le_refl _, fun q _ => st.sources q,
      fun q x hx => by rw [st.sources q]; exact hx, [], new2, rfl, t2, by simp,
      fun t ht => (e2 t ht).congr st⟩⟩
  · obtain ⟨new1, t1, e1⟩ := h1.tr
    refine ⟨⟨vm, .inr h1, st, ?_, ?_, ?_, ?_, new1, new2, t1, t2, e1, fun t ht => (e2 t ht).congr st⟩⟩
    · intro q
      have := h2.sub q
      rwa [h1.entries q] at this
    · rw [st.length]; exact h1.length
    · intro q hq; rw [st.sources q, h1.sources q hq]
    · intro q x hx; rw [st.sources q]; exact h1.sources_sub q x hx

theorem PlainFacts.tr {v v' : QView} (f : PlainFacts v v') : v'.tr = (f.new2 ++ f.new1) ++ v.tr := by
  rw [f.tr2, f.tr1, List.append_assoc]

theorem PlainFacts.no_take {v v' : QView} (f : PlainFacts v v') : ∀ t ∈ f.new2 ++ f.new1, t.isTake = false := by
  intro t ht
  rcases List.mem_append.1 ht with h | h
  · exact (f.ev2 t h).isTake
  · exact (f.ev1 t h).isTake

theorem PlainFacts.no_putBack {v v' : QView} (f : PlainFacts v v') :
    ∀ t ∈ f.new2 ++ f.new1, t.isPutBack = false := by
  intro t ht
  rcases List.mem_append.1 ht with h | h
  · exact (f.ev2 t h).isPutBack
  · exact (f.ev1 t h).isPutBack

/-! ### the three kinds of transition, in terms of configurations -/

/-- a delivery is a single enqueue -/
theorem deliver_view {c d : Cfg} (h : c.deliver = some d) : ∃ s, d.view = c.view.enq s := by
  unfold Cfg.deliver at h
  split at h
  · cases h
  · simp only [Cfg.newSig, Option.some.injEq] at h
    subst h
    exact ⟨_, view_enqueue _ _⟩

theorem takeV_active_lt {v v' : QView} (h : TakeV v v') : v.active < v.queues.length := by
  obtain ⟨e, es, he, _⟩ := h
  refine Decidable.byContradiction fun hn => ?_
  have : v.queue v.active = {} := by
    unfold QView.queue
    rw [List.getD_eq_getElem?_getD, List.getElem?_eq_none (by omega)]; rfl
  rw [this] at he
  cases he

theorem takeV_queue {v v' : QView} (h : TakeV v v') (q : Nat) :
    v'.queue q = if v.active = q then { v.queue q with entries := (v.queue q).entries.tail } else v.queue q := by
  have hlt := takeV_active_lt h
  obtain ⟨e, es, he, rfl⟩ := h
  simp only [QView.queue, getD_listSet']
  by_cases hq : v.active = q
  · subst hq
    rw [if_pos ⟨rfl, hlt⟩, if_pos rfl]
    have he' : (v.queues.getD v.active {}).entries = e :: es := he
    rw [he']; rfl
  · rw [if_neg (fun hh => hq hh.1), if_neg hq]

theorem takeV_static {v v' : QView} (h : TakeV v v') : Static v v' := by
  have hs : ∀ q, (v'.queue q).sources = (v.queue q).sources := by
    intro q; rw [takeV_queue h q]; split <;> rfl
  obtain ⟨e, es, he, rfl⟩ := h
  exact ⟨rfl, rfl, rfl, rfl, by simp, hs⟩

/-- A transition that adds a `.take q s` event (view level). -/
structure TakeFacts (c c' : Cfg) (q : Nat) (s : Sig) where
  vm : QView
  first : vm = c.view ∨ (c.L.activeQ.entries = [] ∧ ∃ d, c.deliver = some d ∧ vm = d.view)
  plain : Plain c.view vm
  active : q = vm.active
  e : QEntry
  es : List QEntry
  entries : (vm.queue q).entries = e :: es
  sig : e.2.2 = s
  after : c'.view = { vm with queues := listSet vm.queues q (fun x => { x with entries := es }),
                              tr := .take q s :: vm.tr }
  takeV : TakeV vm c'.view

theorem mem_isTake {new : List Tr} (h : ∀ t ∈ new, t.isTake = false) {q : Nat} {s : Sig} :
    Tr.take q s ∉ new := fun hm => by have := h _ hm; cases this

theorem mem_isPutBack {new : List Tr} (h : ∀ t ∈ new, t.isPutBack = false) {q : Nat} {s : Sig} :
    Tr.putBack q s ∉ new := fun hm => by have := h _ hm; cases this

theorem TakeTrans.plainPart {c c' : Cfg} (h : TakeTrans c c') :
    ∃ vm, (vm = c.view ∨ (c.L.activeQ.entries = [] ∧ ∃ d, c.deliver = some d ∧ vm = d.view)) ∧
      Plain c.view vm ∧ TakeV vm c'.view := by
  obtain ⟨vm, h1, h2⟩ := h
  refine ⟨vm, h1, ?_, h2⟩
  rcases h1 with rfl | ⟨_, d, hd, rfl⟩
  · exact Plain.rfl'
  · exact Plain.deliver hd Plain.rfl'

theorem eff_take {c c' : Cfg} (h : Eff c c') {q : Nat} {s : Sig} (hm : Tr.take q s ∈ newTr c c') :
    Nonempty (TakeFacts c c' q s) := by
  rcases h with hp | ht | ⟨e, es, _, h2⟩
  · obtain ⟨f⟩ := hp.facts
    rw [newTr_of_append (c := c) (c' := c') f.tr] at hm
    exact absurd hm (mem_isTake f.no_take)
  · obtain ⟨vm, h1, hp, hv⟩ := ht.plainPart
    obtain ⟨f⟩ := hp.facts
    obtain ⟨e, es, he, h2⟩ := hv
    have htr : c'.tr = (Tr.take vm.active e.2.2 :: (f.new2 ++ f.new1)) ++ c.tr := by
      have : c'.view.tr = _ := congrArg QView.tr h2
      rw [view_tr] at this
      rw [this]; show _ :: vm.tr = _; rw [f.tr]; rfl
    rw [newTr_of_append htr] at hm
    rcases List.mem_cons.1 hm with heq | hm
    · cases heq
      exact ⟨⟨vm, h1, hp, rfl, e, es, he, rfl, h2, ⟨e, es, he, h2⟩⟩⟩
    · exact absurd hm (mem_isTake f.no_take)
  · have htr : c'.tr = [Tr.procEnd, Tr.putBack c.L.active e.2.2] ++ c.tr := by
      have : c'.view.tr = _ := congrArg QView.tr h2
      rw [view_tr] at this
      rw [this]; rfl
    rw [newTr_of_append htr] at hm
    simp at hm

theorem eff_putBack {c c' : Cfg} (h : Eff c c') {q : Nat} {s : Sig} (hm : Tr.putBack q s ∈ newTr c c') :
    q = c.L.active ∧ (∃ e es, (c.queue q).entries = e :: es ∧ e.2.2 = s) ∧
      c'.L.queues = c.L.queues ∧ c'.L.levels = c.L.levels ∧ c'.L.active = c.L.active ∧
      newTr c c' = [.procEnd, .putBack q s] := by
  rcases h with hp | ht | ⟨e, es, he, h2⟩
  · obtain ⟨f⟩ := hp.facts
    rw [newTr_of_append (c := c) (c' := c') f.tr] at hm
    exact absurd hm (mem_isPutBack f.no_putBack)
  · obtain ⟨vm, h1, hp, hv⟩ := ht.plainPart
    obtain ⟨f⟩ := hp.facts
    obtain ⟨e, es, he, h2⟩ := hv
    have htr : c'.tr = (Tr.take vm.active e.2.2 :: (f.new2 ++ f.new1)) ++ c.tr := by
      have : c'.view.tr = _ := congrArg QView.tr h2
      rw [view_tr] at this
      rw [this]; show _ :: vm.tr = _; rw [f.tr]; rfl
    rw [newTr_of_append htr] at hm
    rcases List.mem_cons.1 hm with heq | hm
    · cases heq
    · exact absurd hm (mem_isPutBack f.no_putBack)
  · have htr : c'.tr = [Tr.procEnd, Tr.putBack c.L.active e.2.2] ++ c.tr := by
      have : c'.view.tr = _ := congrArg QView.tr h2
      rw [view_tr] at this
      rw [this]; rfl
    rw [newTr_of_append htr] at hm ⊢
    simp only [List.mem_cons, reduceCtorEq, Tr.putBack.injEq, List.not_mem_nil, or_false, false_or] at hm
    obtain ⟨rfl, rfl⟩ := hm
    exact ⟨rfl, ⟨e, es, he, rfl⟩, congrArg QView.queues h2, congrArg QView.levels h2,
      congrArg QView.active h2, rfl⟩

/-- frame: what any transition does to the entries of a queue object -/
theorem eff_entries {c c' : Cfg} (h : Eff c c') (q : Nat) :
    (c.queue q).entries.Sublist (c'.queue q).entries ∨
      ((∃ s, Tr.take q s ∈ newTr c c') ∧ q = c.L.active ∧
        (c'.queue q).entries = (c.queue q).entries.tail) := by
  rcases h with hp | ht | ⟨e, es, he, h2⟩
  · obtain ⟨f⟩ := hp.facts
    exact .inl (f.sub q)
  · obtain ⟨vm, h1, hp, hv⟩ := ht.plainPart
    have hq := takeV_queue hv q
    have hq' : c'.queue q = c'.view.queue q := rfl
    by_cases hqa : vm.active = q
    · rcases h1 with rfl | ⟨h1, d, hd, rfl⟩
      · right
        obtain ⟨e, es, he, h2⟩ := hv
        refine ⟨⟨e.2.2, ?_⟩, hqa.symm, ?_⟩
        · have htr : c'.tr = [Tr.take c.view.active e.2.2] ++ c.tr := by
            have : c'.view.tr = _ := congrArg QView.tr h2
            rw [view_tr] at this
            rw [this]; rfl
          rw [newTr_of_append htr, ← hqa]; simp
        · rw [hq', hq, if_pos hqa]; rfl
      · left
        obtain ⟨s, hs⟩ := deliver_view hd
        have : d.view.active = c.view.active := by rw [hs]; simp
        have hce : (c.queue q).entries = [] := by
          rw [← hqa, this]; exact h1
        rw [hce]; exact List.nil_sublist _
    · left
      rw [hq', hq, if_neg hqa]
      obtain ⟨f⟩ := hp.facts
      exact f.sub q
  · left
    have : c'.queue q = c.queue q := by
      show c'.view.queue q = _
      rw [h2]; rfl
    rw [this]; exact List.Sublist.refl _

theorem eff_length {c c' : Cfg} (h : Eff c c') : c.L.queues.length ≤ c'.L.queues.length := by
  rcases h with hp | ht | ⟨e, es, he, h2⟩
  · obtain ⟨f⟩ := hp.facts
    exact f.length
  · obtain ⟨vm, h1, hp, hv⟩ := ht.plainPart
    obtain ⟨f⟩ := hp.facts
    have := (takeV_static hv).length
    have h3 := f.length
    show c.view.queues.length ≤ c'.view.queues.length
    omega
  · have := congrArg QView.queues h2
    show c.view.queues.length ≤ c'.view.queues.length
    rw [this]; exact Nat.le_refl _

theorem eff_sources {c c' : Cfg} (h : Eff c c') (q : Nat) (hq : q ≠ c.L.active) :
    (c'.queue q).sources = (c.queue q).sources := by
  rcases h with hp | ht | ⟨e, es, he, h2⟩
  · obtain ⟨f⟩ := hp.facts
    exact f.sources q hq
  · obtain ⟨vm, h1, hp, hv⟩ := ht.plainPart
    obtain ⟨f⟩ := hp.facts
    show (c'.view.queue q).sources = _
    rw [(takeV_static hv).sources q]
    exact f.sources q hq
  · show (c'.view.queue q).sources = _
    rw [h2]; rfl

theorem eff_sources_sub {c c' : Cfg} (h : Eff c c') (q : Nat) :
    ∀ x ∈ (c.queue q).sources, x ∈ (c'.queue q).sources := by
  rcases h with hp | ht | ⟨e, es, he, h2⟩
  · obtain ⟨f⟩ := hp.facts
    exact f.sources_sub q
  · obtain ⟨vm, h1, hp, hv⟩ := ht.plainPart
    obtain ⟨f⟩ := hp.facts
    show ∀ x ∈ _, x ∈ (c'.view.queue q).sources
    rw [(takeV_static hv).sources q]
    exact f.sources_sub q
  · show ∀ x ∈ _, x ∈ (c'.view.queue q).sources
    rw [h2]; exact fun _ hx => hx

/-- every `.enq q s` a transition adds went to the route of `s` (as of the end of the transition:
levels and sources do not change after an enqueue within a transition), and force-quit was off -/
theorem eff_enq {c c' : Cfg} (h : Eff c c') {q : Nat} {s : Sig} (hm : Tr.enq q s ∈ newTr c c') :
    q = c'.L.route s.src ∧ c'.L.forceQuit = false := by
  have key : ∀ {v : QView} {new : List Tr}, (∀ t ∈ new, EnqEv v t) → Tr.enq q s ∈ new →
      q = v.route s.src ∧ v.forceQuit = false := by
    intro v new hev hmem
    rcases hev _ hmem with hb | ⟨_, heq, _⟩ | ⟨s', heq, hf⟩
    · cases hb
    · cases heq
    · cases heq; exact ⟨rfl, hf⟩
  have noStruct : ∀ {new : List Tr}, (∀ t ∈ new, StructEv t) → Tr.enq q s ∉ new := by
    intro new hev hmem
    rcases hev _ hmem with h | ⟨_, _, h⟩ | ⟨_, h⟩ <;> cases h
  rcases h with hp | ht | ⟨e, es, he, h2⟩
  · obtain ⟨f⟩ := hp.facts
    rw [newTr_of_append (c := c) (c' := c') f.tr] at hm
    rcases List.mem_append.1 hm with hm | hm
    · exact key f.ev2 hm
    · exact absurd hm (noStruct f.ev1)
  · obtain ⟨vm, h1, hp, hv⟩ := ht.plainPart
    obtain ⟨f⟩ := hp.facts
    have st := takeV_static hv
    obtain ⟨e, es, he, h2⟩ := hv
    have htr : c'.tr = (Tr.take vm.active e.2.2 :: (f.new2 ++ f.new1)) ++ c.tr := by
      have : c'.view.tr = _ := congrArg QView.tr h2
      rw [view_tr] at this
      rw [this]; show _ :: vm.tr = _; rw [f.tr]; rfl
    rw [newTr_of_append htr] at hm
    rcases List.mem_cons.1 hm with heq | hm
    · cases heq
    · rcases List.mem_append.1 hm with hm | hm
      · have := key f.ev2 hm
        rw [← view_route, st.route]
        exact ⟨this.1, by rw [← view_forceQuit, st.forceQuit]; exact this.2⟩
      · exact absurd hm (noStruct f.ev1)
  · have htr : c'.tr = [Tr.procEnd, Tr.putBack c.L.active e.2.2] ++ c.tr := by
      have : c'.view.tr = _ := congrArg QView.tr h2
      rw [view_tr] at this
      rw [this]; rfl
    rw [newTr_of_append htr] at hm
    simp at hm

end Simpleline
