/-
  The well-formedness invariant of reachable configurations: queues sorted, the active queue is the
  top level, levels are existing distinct queue objects, and every queue holds exactly what a stable
  priority queue fed by the history would hold.
-/
import Simpleline.Lemmas.LoopInv

namespace Simpleline

/-- trace events that change a queue's contents -/
def Tr.isQ : Tr → Bool
  | .enq .. | .take .. => true
  | _ => false

theorem replayQ_cons_other (q : Nat) (t : Tr) (tr : List Tr) (h : t.isQ = false) :
    replayQ q (t :: tr) = replayQ q tr := by
  cases t <;> first | rfl | cases h

def Tr.isTake : Tr → Bool
  | .take .. => true
  | _ => false

theorem takesAreHeads_cons_other (t : Tr) (tr : List Tr) (h : t.isTake = false) :
    TakesAreHeads (t :: tr) ↔ TakesAreHeads tr := by
  cases t <;> first | exact Iff.rfl | cases h

theorem isTake_of_isQ {t : Tr} (h : t.isQ = false) : t.isTake = false := by
  cases t <;> first | rfl | cases h

theorem isQ_of_boring {t : Tr} (h : t.boring = true) : t.isQ = false := by
  cases t <;> first | rfl | cases h

structure WF (v : QView) : Prop where
  sorted : ∀ q, (v.queue q).Sorted
  top : v.levels.getLast? = some v.active ∨ v.levels = []
  active_lt : v.active < v.queues.length
  levels_lt : ∀ q ∈ v.levels, q < v.queues.length
  levels_inc : v.levels.Pairwise (· < ·)
  replay : ∀ q, (v.queue q).sigs = replayQ q v.tr
  heads : TakesAreHeads v.tr

theorem WF.route_lt {v : QView} (h : WF v) (src : Src) : v.route src < v.queues.length := by
  rcases route_mem v src with hm | hm
  · exact h.levels_lt _ hm
  · rw [hm]; exact h.active_lt

theorem WF.note {v : QView} (h : WF v) (t : Tr) (ht : t.isQ = false) : WF (v.note t) :=
  ⟨h.sorted, h.top, h.active_lt, h.levels_lt, h.levels_inc,
    fun q => by show _ = replayQ q (t :: v.tr); rw [replayQ_cons_other q t _ ht]; exact h.replay q,
    (takesAreHeads_cons_other t _ (isTake_of_isQ ht)).2 h.heads⟩

theorem WF.enq {v : QView} (h : WF v) (s : Sig) : WF (v.enq s) := by
  refine ⟨?_, by simpa using h.top, by simpa using h.active_lt, by simpa using h.levels_lt,
    by simpa using h.levels_inc, ?_, ?_⟩
  · intro q
    rw [enq_queue]; split
    · exact put_sorted s (h.sorted q)
    · exact h.sorted q
  · intro q
    rw [enq_queue, enq_tr]
    by_cases hf : v.forceQuit = true
    · simp only [hf, if_true]
      rw [replayQ_cons_other q _ _ rfl]
      simpa using h.replay q
    · have hf' : v.forceQuit = false := by simpa using hf
      simp only [hf', true_and]
      show _ = replayQ q (Tr.enq (v.route s.src) s :: v.tr)
      unfold replayQ
      by_cases hr : v.route s.src = q
      · have hlt : q < v.queues.length := hr ▸ h.route_lt s.src
        rw [if_pos ⟨hr, hlt⟩, if_pos hr, sigs_put s (h.sorted q), h.replay q]
      · rw [if_neg (fun hh => hr hh.1), if_neg hr]; exact h.replay q
  · rw [enq_tr]
    refine (takesAreHeads_cons_other _ _ ?_).2 h.heads
    split <;> rfl

theorem WF.enqSteps {v v' : QView} (hs : EnqSteps v v') (h : WF v) : WF v' := by
  induction hs with
  | refl => exact h
  | enq s _ ih => exact ih.enq s
  | note t hb _ ih => exact ih.note t (isQ_of_boring hb)

/-- a change that keeps queue contents (entries, arrival counter) and the trace's queue events -/
theorem WF.of_same {v v' : QView} (h : WF v)
    (he : ∀ q, (v'.queue q).entries = (v.queue q).entries) (hq : ∀ q, (v'.queue q).seq = (v.queue q).seq)
    (htr : v'.tr = v.tr)
    (top : v'.levels.getLast? = some v'.active ∨ v'.levels = [])
    (active_lt : v'.active < v'.queues.length)
    (levels_lt : ∀ q ∈ v'.levels, q < v'.queues.length)
    (levels_inc : v'.levels.Pairwise (· < ·)) : WF v' := by
  refine ⟨?_, top, active_lt, levels_lt, levels_inc, ?_, htr ▸ h.heads⟩
  · intro q
    have := h.sorted q
    exact ⟨he q ▸ this.ordered, by rw [he q, hq q]; exact this.fresh, he q ▸ this.prio⟩
  · intro q
    rw [htr, ← h.replay q]
    unfold EQueue.sigs; rw [he q]

theorem dropLast_getLast_mem {l : List Nat} {a : Nat} (h : l.dropLast.getLast? = some a) : a ∈ l :=
  (List.dropLast_sublist l).subset (List.mem_of_getLast? h)

theorem WF.struct {v v' : QView} (hs : StructOp v v') (h : WF v) : WF v' := by
  cases hs with
  | addSrc s =>
    refine h.of_same (StructOp.entries (.addSrc v s)) (StructOp.seq (.addSrc v s)) rfl h.top ?_ ?_ h.levels_inc
    · simpa using h.active_lt
    · simpa using h.levels_lt
  | forceQuit =>
    have : WF { v with forceQuit := true, levels := [], runLoop := false } :=
      h.of_same (fun _ => rfl) (fun _ => rfl) rfl (.inr rfl) h.active_lt (by simp) List.Pairwise.nil
    exact this.note .forceQuit rfl
  | apprun => exact h.of_same (fun _ => rfl) (fun _ => rfl) rfl h.top h.active_lt h.levels_lt h.levels_inc
  | setRun => exact h.of_same (fun _ => rfl) (fun _ => rfl) rfl h.top h.active_lt h.levels_lt h.levels_inc
  | «open» hf =>
    have : WF { v with queues := v.queues ++ [{}], active := v.queues.length,
                       levels := v.levels ++ [v.queues.length] } := by
      refine h.of_same ?_ ?_ rfl (.inl (by simp)) (by simp) ?_ ?_
      · intro q; simp only [QView.queue, getD_append_default]
      · intro q; simp only [QView.queue, getD_append_default]
      · intro q hq
        simp only [List.mem_append, List.mem_singleton] at hq
        simp only [List.length_append, List.length_singleton]
        rcases hq with hq | hq
        · have := h.levels_lt q hq; omega
        · omega
      · simp only [List.pairwise_append, List.pairwise_cons, List.mem_singleton]
        refine ⟨h.levels_inc, ⟨by simp, List.Pairwise.nil⟩, ?_⟩
        intro a ha b hb
        rw [hb]; exact h.levels_lt a ha
    exact this.note (.openLevel _ _) rfl
  | pop q hq =>
    unfold QView.pop
    split
    · have : WF { v with levels := [] } :=
        h.of_same (fun _ => rfl) (fun _ => rfl) rfl (.inr rfl) h.active_lt (by simp) List.Pairwise.nil
      exact this.note (.closeLevel q) rfl
    · rename_i a ha
      have : WF { v with levels := v.levels.dropLast, active := a, runLoop := false } :=
        h.of_same (fun _ => rfl) (fun _ => rfl) rfl (.inl ha) (h.levels_lt a (dropLast_getLast_mem ha))
          (fun x hx => h.levels_lt x ((List.dropLast_sublist _).subset hx))
          (h.levels_inc.sublist (List.dropLast_sublist _))
      exact this.note (.closeLevel q) rfl

theorem WF.plain {v v' : QView} (hp : Plain v v') (h : WF v) : WF v' := by
  obtain ⟨vm, h1, h2⟩ := hp
  rcases h1 with rfl | h1
  · exact h.enqSteps h2
  · exact (h.struct h1).enqSteps h2

theorem WF.takeV {v v' : QView} (ht : TakeV v v') (h : WF v) : WF v' := by
  obtain ⟨e, es, he, rfl⟩ := ht
  have hq : ∀ q, (QView.queue { v with queues := listSet v.queues v.active (fun q => { q with entries := es }) } q) =
      if v.active = q ∧ q < v.queues.length then { v.queue q with entries := es } else v.queue q := by
    intro q; simp only [QView.queue, getD_listSet']
  have hsig : (v.queue v.active).sigs = e.2.2 :: es.map (·.2.2) := by unfold EQueue.sigs; rw [he]; rfl
  refine ⟨?_, h.top, by simpa using h.active_lt, by simpa using h.levels_lt, h.levels_inc, ?_, ?_⟩
  · intro q
    show (QView.queue { v with queues := _ } q).Sorted
    rw [hq]; split
    · rename_i hc; rw [← hc.1]; exact sorted_tail (h.sorted _) he
    · exact h.sorted q
  · intro q
    show (QView.queue { v with queues := _ } q).sigs = replayQ q (Tr.take v.active e.2.2 :: v.tr)
    rw [hq]; unfold replayQ
    by_cases hc : v.active = q
    · subst hc
      rw [if_pos ⟨rfl, h.active_lt⟩, if_pos rfl, ← h.replay, hsig]; rfl
    · rw [if_neg (fun hh => hc hh.1), if_neg hc]; exact h.replay q
  · show TakesAreHeads (Tr.take v.active e.2.2 :: v.tr)
    refine ⟨?_, h.heads⟩
    rw [← h.replay, hsig]; rfl

theorem WF.eff {c c' : Cfg} (he : Eff c c') (h : WF c.view) : WF c'.view := by
  rcases he with hp | ⟨vm, h1, h2⟩ | ⟨e, es, _, h2⟩
  · exact h.plain hp
  · rcases h1 with rfl | ⟨_, d, hd, rfl⟩
    · exact h.takeV h2
    · exact (h.plain (Plain.deliver hd Plain.rfl')).takeV h2
  · rw [h2]
    exact (h.note (.putBack c.L.active e.2.2) rfl).note .procEnd rfl

theorem WF.init (init : List Act) (handlers : List (Cls × HRef × Option Nat)) (quitCb : Option Nat)
    (stdin : List Str) : WF (initCfg init handlers quitCb stdin).view := by
  refine ⟨?_, .inl rfl, Nat.zero_lt_one, ?_, ?_, ?_, trivial⟩
  · intro q
    have : (initCfg init handlers quitCb stdin).view.queue q = {} := by
      show ([({} : EQueue)]).getD q {} = {}
      cases q <;> rfl
    rw [this]; exact sorted_empty
  · intro q hq
    have : q = 0 := by simpa [initCfg, Cfg.view] using hq
    rw [this]; exact Nat.zero_lt_one
  · show List.Pairwise _ [0]
    simp
  · intro q
    have : (initCfg init handlers quitCb stdin).view.queue q = {} := by
      show ([({} : EQueue)]).getD q {} = {}
      cases q <;> rfl
    rw [this]; rfl

theorem WF.reach {P : Prog} {c0 c : Cfg} (h0 : Started c0) (h : Reach P c0 c) : WF c.view := by
  induction h with
  | init => obtain ⟨i, hd, qc, si, rfl⟩ := h0; exact WF.init i hd qc si
  | step _ hs ih => exact ih.eff (trans_eff (.step hs))
  | deliver _ hd ih => exact ih.eff (trans_eff (P := P) (.deliver hd))
  | halt _ hs ih => exact ih.eff (trans_eff (.halt hs))

end Simpleline
