/-
  Association lists as insertion-ordered dictionaries: `alookup`, `aset`, `aerase`.
-/
import Simpleline.Spec.ObjectsSpec

namespace Simpleline.Objects

section
variable {κ β : Type} [DecidableEq κ]

theorem alookup_aset (k k' : κ) (v : β) (d : List (κ × β)) :
    alookup k' (aset k v d) = if k = k' then some v else alookup k' d := by
  induction d with
  | nil => simp [aset, alookup]
  | cons p r ih =>
    obtain ⟨a, b⟩ := p
    simp only [aset, alookup]
    split <;> simp only [alookup] <;> grind

theorem keys_aset (k : κ) (v : β) (d : List (κ × β)) :
    (aset k v d).map Prod.fst = if k ∈ d.map Prod.fst then d.map Prod.fst else d.map Prod.fst ++ [k] := by
  induction d with
  | nil => simp [aset]
  | cons p r ih =>
    obtain ⟨a, b⟩ := p
    simp only [aset]
    split <;> grind

theorem nodup_keys_aset (k : κ) (v : β) (d : List (κ × β)) (h : (d.map Prod.fst).Nodup) :
    ((aset k v d).map Prod.fst).Nodup := by
  rw [keys_aset]; split
  · exact h
  · grind [List.nodup_append]

theorem mem_aset {k : κ} {v : β} {d : List (κ × β)} {p : κ × β} (h : p ∈ aset k v d) :
    p = (k, v) ∨ p ∈ d := by
  induction d with
  | nil => simp_all [aset]
  | cons q r ih =>
    obtain ⟨a, b⟩ := q
    simp only [aset] at h
    split at h <;> grind

theorem alookup_eq_none_iff (k : κ) (d : List (κ × β)) : alookup k d = none ↔ k ∉ d.map Prod.fst := by
  induction d with
  | nil => simp [alookup]
  | cons q r ih => obtain ⟨a, b⟩ := q; simp only [alookup]; split <;> grind

theorem mem_of_alookup {k : κ} {v : β} {d : List (κ × β)} (h : alookup k d = some v) : (k, v) ∈ d := by
  induction d with
  | nil => simp [alookup] at h
  | cons q r ih => obtain ⟨a, b⟩ := q; simp only [alookup] at h; split at h <;> grind

theorem alookup_of_mem {k : κ} {v : β} {d : List (κ × β)} (hn : (d.map Prod.fst).Nodup) (h : (k, v) ∈ d) :
    alookup k d = some v := by
  induction d with
  | nil => simp at h
  | cons q r ih =>
    obtain ⟨a, b⟩ := q
    simp only [alookup]
    split
    · grind
    · grind

theorem mem_iff_alookup {k : κ} {v : β} {d : List (κ × β)} (hn : (d.map Prod.fst).Nodup) :
    (k, v) ∈ d ↔ alookup k d = some v := ⟨alookup_of_mem hn, mem_of_alookup⟩

theorem aerase_sublist (k : κ) (d : List (κ × β)) : (aerase k d).Sublist d := by
  induction d with
  | nil => simp [aerase]
  | cons q r ih => obtain ⟨a, b⟩ := q; simp only [aerase]; split <;> grind

theorem nodup_keys_aerase (k : κ) (d : List (κ × β)) (h : (d.map Prod.fst).Nodup) :
    ((aerase k d).map Prod.fst).Nodup :=
  ((aerase_sublist k d).map Prod.fst).nodup h

theorem alookup_aerase (k k' : κ) (d : List (κ × β)) (h : (d.map Prod.fst).Nodup) :
    alookup k' (aerase k d) = if k = k' then none else alookup k' d := by
  induction d with
  | nil => simp [aerase, alookup]
  | cons q r ih =>
    obtain ⟨a, b⟩ := q
    simp only [aerase]
    split
    · subst_vars
      simp only [alookup]
      split
      · simp_all [alookup_eq_none_iff]
      · simp_all
    · simp only [alookup]
      grind

theorem alookup_map_val (f : β → β) (k : κ) (d : List (κ × β)) :
    alookup k (d.map fun kv => (kv.1, f kv.2)) = (alookup k d).map f := by
  induction d with
  | nil => simp [alookup]
  | cons q r ih => obtain ⟨a, b⟩ := q; simp only [List.map_cons, alookup]; split <;> simp_all

omit [DecidableEq κ] in
theorem keys_map_val (f : κ × β → β) (d : List (κ × β)) :
    (d.map fun kv => (kv.1, f kv)).map Prod.fst = d.map Prod.fst := by
  simp [List.map_map, Function.comp_def]

end

end Simpleline.Objects
