/-
  TicketMachine object: refinement of the flat ticket list of the abstract machine.
-/
import Simpleline.Lemmas.ObjectsTM

namespace Simpleline.Objects

variable {κ : Type} [DecidableEq κ]

/-! ### the flat machine in terms of membership -/

omit [DecidableEq κ] in
theorem FlatTM.mem_take (f : FlatTM κ) (l : κ) (x : κ × Nat × Bool) :
    x ∈ (f.take l).2.tickets ↔ x ∈ f.tickets ∨ x = (l, f.counter, false) := by
  simp [FlatTM.take]

theorem FlatTM.mem_mark (f : FlatTM κ) (l l' : κ) (t : Nat) (b : Bool) :
    (l', t, b) ∈ (f.mark l).tickets ↔
      if l' = l then b = true ∧ ∃ b0, (l', t, b0) ∈ f.tickets else (l', t, b) ∈ f.tickets := by
  simp only [FlatTM.mark, List.mem_map]
  constructor
  · rintro ⟨⟨a, c, d⟩, hm, he⟩
    by_cases hal : a = l
    · simp only [hal, if_true, Prod.mk.injEq] at he
      obtain ⟨rfl, rfl, rfl⟩ := he
      rw [if_pos rfl]
      exact ⟨rfl, d, hal ▸ hm⟩
    · simp only [hal, if_false, Prod.mk.injEq] at he
      obtain ⟨rfl, rfl, rfl⟩ := he
      rw [if_neg hal]; exact hm
  · intro h
    split at h
    · rename_i hl
      obtain ⟨rfl, b0, hb0⟩ := h
      exact ⟨_, hb0, by simp [hl]⟩
    · rename_i hl
      exact ⟨_, h, by simp [hl]⟩

theorem FlatTM.any_marked_iff (f : FlatTM κ) (l : κ) (t : Nat) :
    f.tickets.any (fun k => k.1 = l ∧ k.2.1 = t ∧ k.2.2) = true ↔ (l, t, true) ∈ f.tickets := by
  simp only [List.any_eq_true, decide_eq_true_eq]
  constructor
  · rintro ⟨⟨a, c, d⟩, hm, rfl, rfl, rfl⟩; exact hm
  · intro h; exact ⟨_, h, rfl, rfl, rfl⟩

theorem FlatTM.any_present_iff (f : FlatTM κ) (l : κ) (t : Nat) :
    f.tickets.any (fun k => k.1 = l ∧ k.2.1 = t) = true ↔ ∃ b, (l, t, b) ∈ f.tickets := by
  simp only [List.any_eq_true, decide_eq_true_eq]
  constructor
  · rintro ⟨⟨a, c, d⟩, hm, rfl, rfl⟩; exact ⟨_, hm⟩
  · rintro ⟨b, h⟩; exact ⟨_, h, rfl, rfl⟩

theorem FlatTM.check_fst_ready (f : FlatTM κ) (l : κ) (t : Nat) :
    (f.check l t).1 = .ready ↔ (l, t, true) ∈ f.tickets := by
  rw [← FlatTM.any_marked_iff]
  unfold FlatTM.check
  split
  · simp_all
  · split <;> simp_all

theorem FlatTM.check_fst_wait (f : FlatTM κ) (l : κ) (t : Nat) :
    (f.check l t).1 = .wait ↔ (l, t, true) ∉ f.tickets ∧ (l, t, false) ∈ f.tickets := by
  unfold FlatTM.check
  split
  · rename_i h; rw [FlatTM.any_marked_iff] at h; simp [h]
  · rename_i h; rw [FlatTM.any_marked_iff] at h
    split
    · rename_i h2; rw [FlatTM.any_present_iff] at h2
      obtain ⟨b, hb⟩ := h2
      cases b <;> simp_all
    · rename_i h2; rw [FlatTM.any_present_iff] at h2
      simp only [reduceCtorEq, false_iff, not_and]
      intro _ h3; exact h2 ⟨_, h3⟩

theorem FlatTM.check_fst_keyError (f : FlatTM κ) (l : κ) (t : Nat) :
    (f.check l t).1 = .keyError ↔ ∀ b, (l, t, b) ∉ f.tickets := by
  unfold FlatTM.check
  split
  · rename_i h; rw [FlatTM.any_marked_iff] at h
    dsimp only
    exact ⟨fun e => (by cases e), fun hn => absurd h (hn true)⟩
  · split
    · rename_i h2; rw [FlatTM.any_present_iff] at h2
      dsimp only
      exact ⟨fun e => (by cases e), fun hn => by obtain ⟨b, hb⟩ := h2; exact absurd hb (hn b)⟩
    · rename_i h2; rw [FlatTM.any_present_iff] at h2
      exact ⟨fun _ b hb => h2 ⟨b, hb⟩, fun _ => rfl⟩

theorem FlatTM.mem_check (f : FlatTM κ) (l l' : κ) (t t' : Nat) (b : Bool) :
    (l', t', b) ∈ (f.check l t).2.tickets ↔
      (l', t', b) ∈ f.tickets ∧ ¬ ((l, t, true) ∈ f.tickets ∧ l' = l ∧ t' = t) := by
  unfold FlatTM.check
  split
  · rename_i h; rw [FlatTM.any_marked_iff] at h
    simp only [List.mem_filter, h, true_and, decide_eq_true_eq]
  · rename_i h; rw [FlatTM.any_marked_iff] at h
    split <;> simp [h]

theorem FlatTM.check_counter (f : FlatTM κ) (l : κ) (t : Nat) : (f.check l t).2.counter = f.counter := by
  unfold FlatTM.check; split
  · rfl
  · split <;> rfl

/-! ### one step of refinement -/

theorem TM.Abs.empty : TM.Abs ({} : TM κ) ({} : FlatTM κ) := by
  refine ⟨rfl, ?_⟩
  intro l t b; simp [TM.get, alookup]

theorem TM.Abs.get_none {m : TM κ} {f : FlatTM κ} (h : m.Abs f) (l : κ) (t : Nat) :
    m.get l t = none ↔ ∀ b, (l, t, b) ∉ f.tickets := by
  constructor
  · intro hg b hb; rw [← h.2] at hb; simp [hg] at hb
  · intro hn
    cases hg : m.get l t with
    | none => rfl
    | some b => exact absurd ((h.2 l t b).1 hg) (hn b)

/-- the flat list never holds a ticket with both mark bits -/
theorem TM.Abs.functional {m : TM κ} {f : FlatTM κ} (h : m.Abs f) {l : κ} {t : Nat} {b b' : Bool}
    (h1 : (l, t, b) ∈ f.tickets) (h2 : (l, t, b') ∈ f.tickets) : b = b' := by
  rw [← h.2] at h1 h2; simp_all

theorem TM.Abs.take {m : TM κ} {f : FlatTM κ} (h : m.Abs f) (hwf : m.WF) (l : κ) :
    (m.take l).1 = (f.take l).1 ∧ (m.take l).2.Abs (f.take l).2 := by
  refine ⟨h.1, ?_, ?_⟩
  · simp [TM.take, FlatTM.take, h.1]
  · intro l' t' b
    rw [TM.get_take, FlatTM.mem_take, ← h.2, ← h.1]
    by_cases hc : l' = l ∧ t' = m.counter
    · obtain ⟨rfl, rfl⟩ := hc
      simp only [and_self, if_true, Option.some.injEq, Prod.mk.injEq, true_and]
      constructor
      · intro e; right; exact e.symm
      · rintro (e | e)
        · exact absurd (hwf.get_lt e) (Nat.lt_irrefl _)
        · exact e.symm
    · rw [if_neg hc]
      constructor
      · intro e; left; exact e
      · rintro (e | e)
        · exact e
        · simp only [Prod.mk.injEq] at e; exact absurd ⟨e.1, e.2.1⟩ hc

theorem TM.Abs.mark {m : TM κ} {f : FlatTM κ} (h : m.Abs f) (l : κ) : (m.mark l).Abs (f.mark l) := by
  refine ⟨by rw [TM.mark_counter]; exact h.1, ?_⟩
  intro l' t' b
  rw [TM.get_mark, FlatTM.mem_mark]
  split
  · simp only [Option.map_eq_some_iff]
    constructor
    · rintro ⟨b0, hb0, rfl⟩; exact ⟨rfl, b0, (h.2 _ _ _).1 hb0⟩
    · rintro ⟨rfl, b0, hb0⟩; exact ⟨b0, (h.2 _ _ _).2 hb0, rfl⟩
  · exact h.2 _ _ _

theorem TM.Abs.check_fst {m : TM κ} {f : FlatTM κ} (h : m.Abs f) (l : κ) (t : Nat) :
    (m.check l t).1 = (f.check l t).1 := by
  cases hg : m.get l t with
  | none =>
    rw [(TM.check_keyError_iff m l t).2 hg, eq_comm, FlatTM.check_fst_keyError]
    exact (h.get_none l t).1 hg
  | some b =>
    cases b with
    | true =>
      rw [(TM.check_ready_iff m l t).2 hg, eq_comm, FlatTM.check_fst_ready]
      exact (h.2 _ _ _).1 hg
    | false =>
      rw [(TM.check_wait_iff m l t).2 hg, eq_comm, FlatTM.check_fst_wait]
      refine ⟨fun h1 => ?_, (h.2 _ _ _).1 hg⟩
      rw [← h.2] at h1; simp_all

theorem TM.Abs.check {m : TM κ} {f : FlatTM κ} (h : m.Abs f) (hwf : m.WF) (l : κ) (t : Nat) :
    (m.check l t).2.Abs (f.check l t).2 := by
  refine ⟨by rw [TM.check_counter, FlatTM.check_counter]; exact h.1, ?_⟩
  intro l' t' b
  rw [hwf.get_check, FlatTM.mem_check, ← h.2, ← h.2]
  by_cases hc : l' = l ∧ t' = t ∧ m.get l t = some true
  · rw [if_pos hc]; simp only [reduceCtorEq, false_iff]
    intro hh; exact hh.2 ⟨hc.2.2, hc.1, hc.2.1⟩
  · rw [if_neg hc]
    constructor
    · intro e; exact ⟨e, fun hh => hc ⟨hh.2.1, hh.2.2, hh.1⟩⟩
    · intro e; exact e.1

theorem TM.Abs.step {m : TM κ} {f : FlatTM κ} (h : m.Abs f) (hwf : m.WF) (op : TMOp κ) :
    (m.step op).1 = (f.step op).1 ∧ (m.step op).2.Abs (f.step op).2 := by
  cases op with
  | take l =>
    obtain ⟨h1, h2⟩ := h.take hwf l
    exact ⟨by simp [TM.step, FlatTM.step, h1], h2⟩
  | check l t => exact ⟨by simp [TM.step, FlatTM.step, h.check_fst l t], h.check hwf l t⟩
  | mark l => exact ⟨rfl, h.mark l⟩

theorem TM.Abs.run {m : TM κ} {f : FlatTM κ} (h : m.Abs f) (hwf : m.WF) (ops : List (TMOp κ)) :
    (m.run ops).1 = (f.run ops).1 ∧ (m.run ops).2.Abs (f.run ops).2 := by
  induction ops generalizing m f with
  | nil => exact ⟨rfl, h⟩
  | cons op ops ih =>
    obtain ⟨h1, h2⟩ := h.step hwf op
    obtain ⟨h3, h4⟩ := ih h2 (hwf.step op)
    exact ⟨by simp [TM.run, FlatTM.run, h1, h3], h4⟩

end Simpleline.Objects
