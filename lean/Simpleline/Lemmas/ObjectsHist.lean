/-
  TicketMachine object: the state after a history `h` is what the look-back predicates of the spec say.
-/
import Simpleline.Lemmas.ObjectsTM

namespace Simpleline.Objects

set_option linter.unusedSectionVars false

variable {κ : Type} [DecidableEq κ]

/-! ### the look-back predicates when one operation is added to the history -/

theorem getElem?_lt_of_eq_some {α : Type} {h : List α} {k : Nat} {x : α} (e : h[k]? = some x) : k < h.length :=
  (List.getElem?_eq_some_iff.1 e).1

theorem getElem?_snoc_eq_some {α : Type} (h : List α) (op x : α) (k : Nat) :
    (h ++ [op])[k]? = some x ↔ h[k]? = some x ∨ (k = h.length ∧ op = x) := by
  rw [List.getElem?_append]
  split
  · constructor
    · intro e; left; exact e
    · rintro (e | ⟨e, _⟩)
      · exact e
      · omega
  · rename_i hk
    have : h[k]? = none := by simp; omega
    rw [this]
    by_cases hk' : k = h.length
    · subst hk'; simp
    · have : k - h.length ≠ 0 := by omega
      simp [hk']
      intro e; rcases hn : k - h.length with _ | n
      · omega
      · simp [hn] at e

omit [DecidableEq κ] in
theorem ticketAt_snoc (h : List (TMOp κ)) (op : TMOp κ) (j : Nat) (hj : j ≤ h.length) :
    ticketAt (h ++ [op]) j = ticketAt h j := by
  unfold ticketAt; rw [List.take_append_of_le_length hj]

omit [DecidableEq κ] in
theorem ticketAt_length (h : List (TMOp κ)) : ticketAt h h.length = h.countP TMOp.isTake := by
  unfold ticketAt; rw [List.take_length]

omit [DecidableEq κ] in
theorem Issued.lt {h : List (TMOp κ)} {j : Nat} {l : κ} {t : Nat} (hi : Issued h j l t) : j < h.length := by
  exact getElem?_lt_of_eq_some hi.1

theorem issued_snoc (h : List (TMOp κ)) (op : TMOp κ) (j : Nat) (l : κ) (t : Nat) :
    Issued (h ++ [op]) j l t ↔
      Issued h j l t ∨ (j = h.length ∧ op = .take l ∧ t = h.countP TMOp.isTake) := by
  unfold Issued
  rw [getElem?_snoc_eq_some]
  constructor
  · rintro ⟨e | ⟨rfl, rfl⟩, ht⟩
    · have hj : j < h.length := Issued.lt ⟨e, rfl⟩
      rw [ticketAt_snoc _ _ _ (Nat.le_of_lt hj)] at ht
      exact Or.inl ⟨e, ht⟩
    · rw [ticketAt_snoc _ _ _ (Nat.le_refl _), ticketAt_length] at ht
      exact Or.inr ⟨rfl, rfl, ht.symm⟩
  · rintro (⟨e, ht⟩ | ⟨rfl, rfl, rfl⟩)
    · have hj : j < h.length := Issued.lt ⟨e, rfl⟩
      rw [ticketAt_snoc _ _ _ (Nat.le_of_lt hj)]
      exact ⟨Or.inl e, ht⟩
    · rw [ticketAt_snoc _ _ _ (Nat.le_refl _), ticketAt_length]
      exact ⟨Or.inr ⟨rfl, rfl⟩, rfl⟩

omit [DecidableEq κ] in
theorem released_iff (h : List (TMOp κ)) (j : Nat) (l : κ) :
    Released h j l ↔ ∃ k, j < k ∧ h[k]? = some (.mark l) := by
  unfold Released
  constructor
  · rintro ⟨k, _, h1, h2⟩; exact ⟨k, h1, h2⟩
  · rintro ⟨k, h1, h2⟩
    exact ⟨k, getElem?_lt_of_eq_some h2, h1, h2⟩

omit [DecidableEq κ] in
theorem consumed_iff (h : List (TMOp κ)) (j : Nat) (l : κ) (t : Nat) :
    Consumed h j l t ↔ ∃ k k', j < k ∧ k < k' ∧ h[k]? = some (.mark l) ∧ h[k']? = some (.check l t) := by
  unfold Consumed
  constructor
  · rintro ⟨k', _, k, h1, h2, h3, h4⟩; exact ⟨k, k', h2, h1, h3, h4⟩
  · rintro ⟨k, k', h1, h2, h3, h4⟩
    exact ⟨k', getElem?_lt_of_eq_some h4, k, h2, h1, h3, h4⟩

theorem released_snoc (h : List (TMOp κ)) (op : TMOp κ) (j : Nat) (l : κ) :
    Released (h ++ [op]) j l ↔ Released h j l ∨ (j < h.length ∧ op = .mark l) := by
  simp only [released_iff, getElem?_snoc_eq_some]
  constructor
  · rintro ⟨k, h1, e | ⟨rfl, rfl⟩⟩
    · exact Or.inl ⟨k, h1, e⟩
    · exact Or.inr ⟨h1, rfl⟩
  · rintro (⟨k, h1, e⟩ | ⟨h1, rfl⟩)
    · exact ⟨k, h1, Or.inl e⟩
    · exact ⟨h.length, h1, Or.inr ⟨rfl, rfl⟩⟩

theorem consumed_snoc (h : List (TMOp κ)) (op : TMOp κ) (j : Nat) (l : κ) (t : Nat) :
    Consumed (h ++ [op]) j l t ↔ Consumed h j l t ∨ (op = .check l t ∧ Released h j l) := by
  simp only [consumed_iff, released_iff, getElem?_snoc_eq_some]
  constructor
  · rintro ⟨k, k', h1, h2, e1 | ⟨rfl, rfl⟩, e2 | ⟨rfl, e2⟩⟩
    · exact Or.inl ⟨k, k', h1, h2, e1, e2⟩
    · exact Or.inr ⟨e2, k, h1, e1⟩
    · have := getElem?_lt_of_eq_some e2; omega
    · omega
  · rintro (⟨k, k', h1, h2, e1, e2⟩ | ⟨rfl, k, h1, e1⟩)
    · exact ⟨k, k', h1, h2, Or.inl e1, Or.inl e2⟩
    · exact ⟨k, h.length, h1, getElem?_lt_of_eq_some e1, Or.inl e1, Or.inr ⟨rfl, rfl⟩⟩

/-! ### outstanding tickets by look-back -/

/-- ticket `t` of line `l` is outstanding after the history `h`, with mark bit `b` -/
def Out (h : List (TMOp κ)) (l : κ) (t : Nat) (b : Bool) : Prop :=
  ∃ j < h.length, Issued h j l t ∧ ¬ Consumed h j l t ∧ (b = true ↔ Released h j l)

theorem out_iff (h : List (TMOp κ)) (l : κ) (t : Nat) (b : Bool) :
    Out h l t b ↔ ∃ j, Issued h j l t ∧ ¬ Consumed h j l t ∧ (b = true ↔ Released h j l) := by
  unfold Out
  constructor
  · rintro ⟨j, _, h1⟩; exact ⟨j, h1⟩
  · rintro ⟨j, h1⟩; exact ⟨j, h1.1.lt, h1⟩

omit [DecidableEq κ] in
theorem out_nil (l : κ) (t : Nat) (b : Bool) : ¬ Out ([] : List (TMOp κ)) l t b := by
  rintro ⟨j, hj, _⟩; simp at hj

theorem out_snoc_take (h : List (TMOp κ)) (l' l : κ) (t : Nat) (b : Bool) :
    Out (h ++ [.take l']) l t b ↔ Out h l t b ∨ (l = l' ∧ t = h.countP TMOp.isTake ∧ b = false) := by
  simp only [out_iff, issued_snoc, consumed_snoc, released_snoc, reduceCtorEq, false_and, or_false, and_false,
    TMOp.take.injEq]
  constructor
  · rintro ⟨j, hi | ⟨rfl, rfl, rfl⟩, hc, hb⟩
    · exact Or.inl ⟨j, hi, hc, hb⟩
    · refine Or.inr ⟨rfl, rfl, ?_⟩
      cases b with
      | false => rfl
      | true =>
        obtain ⟨k, _, h1, h2⟩ := hb.1 rfl
        have := getElem?_lt_of_eq_some h2; omega
  · rintro (⟨j, hi, hc, hb⟩ | ⟨rfl, rfl, rfl⟩)
    · exact ⟨j, Or.inl hi, hc, hb⟩
    · refine ⟨h.length, Or.inr ⟨rfl, rfl, rfl⟩, ?_, ?_⟩
      · rintro ⟨k', hk', k, h1, h2, h3, h4⟩; omega
      · simp only [Bool.false_eq_true, false_iff]
        rintro ⟨k, hk, h1, h2⟩; omega

theorem out_snoc_mark (h : List (TMOp κ)) (l' l : κ) (t : Nat) (b : Bool) :
    Out (h ++ [.mark l']) l t b ↔
      if l = l' then (b = true ∧ ∃ b0, Out h l t b0) else Out h l t b := by
  simp only [out_iff, issued_snoc, consumed_snoc, released_snoc, reduceCtorEq, false_and, or_false, and_false,
    TMOp.mark.injEq]
  split
  · rename_i hl
    subst hl
    constructor
    · rintro ⟨j, hi, hc, hb⟩
      exact ⟨hb.2 (Or.inr ⟨hi.lt, rfl⟩), decide (Released h j l), j, hi, hc, by simp⟩
    · rintro ⟨rfl, b0, j, hi, hc, _⟩
      exact ⟨j, hi, hc, by simp [hi.lt]⟩
  · rename_i hl
    have : ¬ l' = l := fun e => hl e.symm
    simp [this]

theorem out_snoc_check (h : List (TMOp κ)) (l' : κ) (t' : Nat) (l : κ) (t : Nat) (b : Bool) :
    Out (h ++ [.check l' t']) l t b ↔ Out h l t b ∧ ¬ (l = l' ∧ t = t' ∧ b = true) := by
  simp only [out_iff, issued_snoc, consumed_snoc, released_snoc, reduceCtorEq, false_and, or_false, and_false,
    TMOp.check.injEq]
  constructor
  · rintro ⟨j, hi, hc, hb⟩
    refine ⟨⟨j, hi, fun hc' => hc (Or.inl hc'), hb⟩, ?_⟩
    rintro ⟨rfl, rfl, rfl⟩
    exact hc (Or.inr ⟨⟨rfl, rfl⟩, hb.1 rfl⟩)
  · rintro ⟨⟨j, hi, hc, hb⟩, hn⟩
    refine ⟨j, hi, ?_, hb⟩
    rintro (hc' | ⟨⟨rfl, rfl⟩, hr⟩)
    · exact hc hc'
    · exact hn ⟨rfl, rfl, hb.2 hr⟩

/-! ### the invariant linking the object to its history -/

/-- after the history `h` from a fresh object: well-formed, the counter is the number of takes, and the
dictionaries hold exactly the outstanding tickets -/
def Hist (h : List (TMOp κ)) (m : TM κ) : Prop :=
  m.WF ∧ m.counter = h.countP TMOp.isTake ∧ ∀ l t b, m.get l t = some b ↔ Out h l t b

theorem Hist.empty : Hist ([] : List (TMOp κ)) {} := by
  refine ⟨TM.WF.empty, rfl, ?_⟩
  intro l t b
  simp [TM.get, alookup, out_nil]

theorem Hist.get_none {h : List (TMOp κ)} {m : TM κ} (hh : Hist h m) (l : κ) (t : Nat) :
    m.get l t = none ↔ ∀ b, ¬ Out h l t b := by
  constructor
  · intro hg b hb; rw [← hh.2.2] at hb; simp [hg] at hb
  · intro hn
    cases hg : m.get l t with
    | none => rfl
    | some b => exact absurd ((hh.2.2 l t b).1 hg) (hn b)

theorem Hist.check_eq {h : List (TMOp κ)} {m : TM κ} (hh : Hist h m) (l : κ) (t : Nat) :
    (m.check l t).1 = idealCheck h l t := by
  have hT := hh.2.2 l t true
  have hF := hh.2.2 l t false
  unfold Out at hT hF
  simp only [true_iff, Bool.false_eq_true, false_iff] at hT hF
  unfold idealCheck
  split
  · rename_i c; exact (TM.check_ready_iff m l t).2 (hT.2 c)
  · split
    · rename_i c; exact (TM.check_wait_iff m l t).2 (hF.2 c)
    · rename_i c1 c2
      rw [TM.check_keyError_iff]
      cases hg : m.get l t with
      | none => rfl
      | some b => cases b with
        | true => exact absurd (hT.1 hg) c1
        | false => exact absurd (hF.1 hg) c2

theorem Hist.step {h : List (TMOp κ)} {m : TM κ} (hh : Hist h m) (op : TMOp κ) :
    (m.step op).1 = idealOut h op ∧ Hist (h ++ [op]) (m.step op).2 := by
  obtain ⟨hwf, hc, hg⟩ := hh
  refine ⟨?_, hwf.step op, ?_, ?_⟩
  · cases op with
    | take l => simp [TM.step, idealOut, TM.take_fst, hc, ticketAt_length]
    | check l t => simp [TM.step, idealOut, Hist.check_eq ⟨hwf, hc, hg⟩ l t]
    | mark l => rfl
  · rw [TM.step_counter, hc, List.countP_append]; simp
  · intro l t b
    cases op with
    | take l' =>
      simp only [TM.step, TM.get_take, out_snoc_take, ← hg, hc]
      split
      · rename_i c; obtain ⟨rfl, rfl⟩ := c
        constructor
        · intro e; right; exact ⟨rfl, rfl, by simpa using e.symm⟩
        · rintro (e | ⟨_, _, rfl⟩)
          · have := hwf.get_lt e; omega
          · rfl
      · rename_i c
        constructor
        · intro e; exact Or.inl e
        · rintro (e | ⟨rfl, rfl, _⟩)
          · exact e
          · exact absurd ⟨rfl, rfl⟩ c
    | check l' t' =>
      simp only [TM.step, hwf.get_check, out_snoc_check, ← hg]
      split
      · rename_i c; obtain ⟨rfl, rfl, c⟩ := c
        simp only [reduceCtorEq, true_and, false_iff, not_and, Decidable.not_not]
        intro e; rw [c] at e; exact (Option.some.inj e).symm
      · rename_i c
        constructor
        · intro e; refine ⟨e, ?_⟩; rintro ⟨rfl, rfl, rfl⟩; exact c ⟨rfl, rfl, e⟩
        · intro e; exact e.1
    | mark l' =>
      simp only [TM.step, TM.get_mark, out_snoc_mark, ← hg]
      split
      · rename_i c; subst c
        simp only [Option.map_eq_some_iff]
        constructor
        · rintro ⟨b0, e, rfl⟩; exact ⟨rfl, b0, e⟩
        · rintro ⟨rfl, b0, e⟩; exact ⟨b0, e, rfl⟩
      · exact Iff.rfl

/-- the run of the remaining operations, history made explicit -/
def idealFrom (h : List (TMOp κ)) : List (TMOp κ) → List TMOut
  | [] => []
  | op :: ops => idealOut h op :: idealFrom (h ++ [op]) ops

theorem Hist.run {h : List (TMOp κ)} {m : TM κ} (hh : Hist h m) (ops : List (TMOp κ)) :
    (m.run ops).1 = idealFrom h ops ∧ Hist (h ++ ops) (m.run ops).2 := by
  induction ops generalizing h m with
  | nil => simpa [TM.run, idealFrom] using hh
  | cons op ops ih =>
    obtain ⟨h1, h2⟩ := hh.step op
    obtain ⟨h3, h4⟩ := ih h2
    refine ⟨by simp [TM.run, idealFrom, h1, h3], ?_⟩
    simpa [TM.run] using h4

theorem idealFrom_eq_mapIdx (h ops : List (TMOp κ)) :
    idealFrom h ops = ops.mapIdx fun i op => idealOut ((h ++ ops).take (h.length + i)) op := by
  induction ops generalizing h with
  | nil => simp [idealFrom]
  | cons op ops ih =>
    rw [idealFrom, List.mapIdx_cons, ih]
    congr 1
    · simp
    · apply List.mapIdx_eq_mapIdx_iff.2
      intro i hi
      simp only [List.append_assoc, List.singleton_append, List.length_append, List.length_singleton]
      rw [show h.length + 1 + i = h.length + (i + 1) by omega]

theorem TM.run_eq_ideal (ops : List (TMOp κ)) : (({} : TM κ).run ops).1 = ideal ops := by
  rw [(Hist.empty.run ops).1, idealFrom_eq_mapIdx]
  simp [ideal]

end Simpleline.Objects
