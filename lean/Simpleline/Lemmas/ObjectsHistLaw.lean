/-
  TicketMachine object: the user-level law, stated on a session and its own answers
  (ready iff taken, marked since, and not answered ready before).
-/
import Simpleline.Lemmas.ObjectsHist

namespace Simpleline.Objects

variable {κ : Type} [DecidableEq κ]

/-! ### tickets are strictly increasing -/

omit [DecidableEq κ] in
theorem ticketAt_mono (h : List (TMOp κ)) {j j' : Nat} (hj : j ≤ j') : ticketAt h j ≤ ticketAt h j' := by
  unfold ticketAt
  have : h.take j = (h.take j').take j := by rw [List.take_take, Nat.min_eq_left hj]
  rw [this]
  exact (List.take_sublist _ _).countP_le

omit [DecidableEq κ] in
theorem ticketAt_succ_of_take (h : List (TMOp κ)) (j : Nat) (l : κ) (e : h[j]? = some (.take l)) :
    ticketAt h (j + 1) = ticketAt h j + 1 := by
  unfold ticketAt
  rw [List.take_add_one, List.countP_append, e]
  simp [TMOp.isTake]

omit [DecidableEq κ] in
theorem ticketAt_lt_of_take (h : List (TMOp κ)) {j j' : Nat} (l : κ) (e : h[j]? = some (.take l)) (hj : j < j') :
    ticketAt h j < ticketAt h j' := by
  have h1 := ticketAt_succ_of_take h j l e
  have h2 := ticketAt_mono h (show j + 1 ≤ j' from hj)
  omega

omit [DecidableEq κ] in
theorem issued_unique {h : List (TMOp κ)} {j j' : Nat} {l l' : κ} {t : Nat}
    (h1 : Issued h j l t) (h2 : Issued h j' l' t) : j = j' := by
  rcases Nat.lt_trichotomy j j' with c | c | c
  · have := ticketAt_lt_of_take h l h1.1 c; have := h1.2; have := h2.2; omega
  · exact c
  · have := ticketAt_lt_of_take h l' h2.1 c; have := h1.2; have := h2.2; omega

/-! ### the look-back predicates on a prefix of the session -/

omit [DecidableEq κ] in
theorem ticketAt_take (ops : List (TMOp κ)) {i j : Nat} (hj : j ≤ i) : ticketAt (ops.take i) j = ticketAt ops j := by
  unfold ticketAt; rw [List.take_take, Nat.min_eq_left hj]

omit [DecidableEq κ] in
theorem getElem?_take_eq_some {α : Type} (ops : List α) (i k : Nat) (x : α) :
    (ops.take i)[k]? = some x ↔ k < i ∧ ops[k]? = some x := by
  rw [List.getElem?_take]
  split
  · simp_all
  · simp only [reduceCtorEq, false_iff]; omega

omit [DecidableEq κ] in
theorem issued_take (ops : List (TMOp κ)) (i j : Nat) (l : κ) (t : Nat) :
    Issued (ops.take i) j l t ↔ j < i ∧ Issued ops j l t := by
  unfold Issued
  rw [getElem?_take_eq_some]
  constructor
  · rintro ⟨⟨h1, h2⟩, h3⟩
    rw [ticketAt_take _ (Nat.le_of_lt h1)] at h3
    exact ⟨h1, h2, h3⟩
  · rintro ⟨h1, h2, h3⟩
    rw [ticketAt_take _ (Nat.le_of_lt h1)]
    exact ⟨⟨h1, h2⟩, h3⟩

omit [DecidableEq κ] in
theorem released_take (ops : List (TMOp κ)) (i j : Nat) (l : κ) :
    Released (ops.take i) j l ↔ MarkedBetween ops j i l := by
  simp only [released_iff, getElem?_take_eq_some, MarkedBetween]

omit [DecidableEq κ] in
theorem consumed_take (ops : List (TMOp κ)) (i j : Nat) (l : κ) (t : Nat) :
    Consumed (ops.take i) j l t ↔
      ∃ k k', j < k ∧ k < k' ∧ k' < i ∧ ops[k]? = some (.mark l) ∧ ops[k']? = some (.check l t) := by
  simp only [consumed_iff, getElem?_take_eq_some]
  constructor
  · rintro ⟨k, k', h1, h2, ⟨_, h3⟩, h4, h5⟩; exact ⟨k, k', h1, h2, h4, h3, h5⟩
  · rintro ⟨k, k', h1, h2, h3, h4, h5⟩; exact ⟨k, k', h1, h2, ⟨by omega, h4⟩, h3, h5⟩

/-! ### the answers of the ideal session -/

theorem ideal_getElem? (ops : List (TMOp κ)) (i : Nat) (op : TMOp κ) (h : ops[i]? = some op) :
    (ideal ops)[i]? = some (idealOut (ops.take i) op) := by
  simp [ideal, List.getElem?_mapIdx, h]

theorem ideal_ticket_iff (ops : List (TMOp κ)) (j : Nat) (l : κ) (t : Nat) (h : ops[j]? = some (.take l)) :
    (ideal ops)[j]? = some (.ticket t) ↔ ticketAt ops j = t := by
  rw [ideal_getElem? ops j _ h]
  have : (ops.take j).length = j := by
    have := getElem?_lt_of_eq_some h
    rw [List.length_take]; omega
  simp only [idealOut, this, ticketAt_take _ (Nat.le_refl j), Option.some.injEq, TMOut.ticket.injEq]

theorem ideal_check (ops : List (TMOp κ)) (i : Nat) (l : κ) (t : Nat) (r : CheckRes)
    (h : ops[i]? = some (.check l t)) :
    (ideal ops)[i]? = some (.checked r) ↔ idealCheck (ops.take i) l t = r := by
  rw [ideal_getElem? ops i _ h]
  simp [idealOut]

/-- among the checks after a mark after the take, the first one answered ready -/
theorem exists_ready_of_consumed (ops : List (TMOp κ)) (j : Nat) (l : κ) (t : Nat) (hi : Issued ops j l t)
    (k' : Nat) : ∀ k, j < k → k < k' → ops[k]? = some (.mark l) → ops[k']? = some (.check l t) →
      ∃ k'', j < k'' ∧ k'' ≤ k' ∧ ops[k'']? = some (.check l t) ∧
        (ideal ops)[k'']? = some (.checked .ready) := by
  induction k' using Nat.strongRecOn with
  | ind k' ih =>
    intro k h1 h2 hm hc
    by_cases hr : idealCheck (ops.take k') l t = .ready
    · exact ⟨k', by omega, Nat.le_refl _, hc, (ideal_check ops k' l t _ hc).2 hr⟩
    · -- not ready although issued and released: consumed before `k'`
      have hcons : Consumed (ops.take k') j l t := by
        apply Classical.byContradiction
        intro hn
        apply hr
        unfold idealCheck
        rw [if_pos]
        exact ⟨j, (issued_take ops k' j l t).2 ⟨by omega, hi⟩ |>.lt, (issued_take ops k' j l t).2 ⟨by omega, hi⟩, hn,
          (released_take ops k' j l).2 ⟨k, h1, h2, hm⟩⟩
      obtain ⟨k1, k2, g1, g2, g3, g4, g5⟩ := (consumed_take ops k' j l t).1 hcons
      obtain ⟨k'', a1, a2, a3, a4⟩ := ih k2 g3 k1 g1 g2 g4 g5
      exact ⟨k'', a1, by omega, a3, a4⟩

/-- not consumed = no earlier check answered ready -/
theorem not_consumed_iff (ops : List (TMOp κ)) (i j : Nat) (l : κ) (t : Nat) (hi : Issued ops j l t) :
    ¬ Consumed (ops.take i) j l t ↔
      ∀ k, j < k → k < i → ops[k]? = some (.check l t) → (ideal ops)[k]? ≠ some (.checked .ready) := by
  constructor
  · intro hn k h1 h2 hc hr
    apply hn
    rw [ideal_check ops k l t _ hc] at hr
    unfold idealCheck at hr
    split at hr
    · rename_i c
      obtain ⟨j', _, c1, _, c3⟩ := c
      have hj' := (issued_take ops k j' l t).1 c1
      have : j = j' := issued_unique hi hj'.2
      subst this
      obtain ⟨k0, b1, b2, b3⟩ := (released_take ops k j l).1 c3
      exact (consumed_take ops i j l t).2 ⟨k0, k, b1, b2, h2, b3, hc⟩
    · split at hr <;> cases hr
  · intro hall hcons
    obtain ⟨k1, k2, g1, g2, g3, g4, g5⟩ := (consumed_take ops i j l t).1 hcons
    obtain ⟨k'', a1, a2, a3, a4⟩ := exists_ready_of_consumed ops j l t hi k2 k1 g1 g2 g4 g5
    exact hall k'' a1 (by omega) a3 a4

theorem pendingSince_iff (ops : List (TMOp κ)) (i j : Nat) (l : κ) (t : Nat) :
    PendingSince ops (ideal ops) i j l t ↔ j < i ∧ Issued ops j l t ∧ ¬ Consumed (ops.take i) j l t := by
  unfold PendingSince
  constructor
  · rintro ⟨h1, h2, h3, h4⟩
    have hi : Issued ops j l t := ⟨h2, (ideal_ticket_iff ops j l t h2).1 h3⟩
    exact ⟨h1, hi, (not_consumed_iff ops i j l t hi).2 h4⟩
  · rintro ⟨h1, hi, h4⟩
    exact ⟨h1, hi.1, (ideal_ticket_iff ops j l t hi.1).2 hi.2, (not_consumed_iff ops i j l t hi).1 h4⟩

theorem idealCheck_take_ready_iff (ops : List (TMOp κ)) (i : Nat) (l : κ) (t : Nat) :
    idealCheck (ops.take i) l t = .ready ↔
      ∃ j, PendingSince ops (ideal ops) i j l t ∧ MarkedBetween ops j i l := by
  simp only [pendingSince_iff, ← released_take]
  unfold idealCheck
  constructor
  · intro h
    split at h
    · rename_i c
      obtain ⟨j, _, c1, c2, c3⟩ := c
      have := (issued_take ops i j l t).1 c1
      exact ⟨j, ⟨this.1, this.2, c2⟩, c3⟩
    · split at h <;> cases h
  · rintro ⟨j, ⟨h1, h2, h3⟩, h4⟩
    have hi := (issued_take ops i j l t).2 ⟨h1, h2⟩
    rw [if_pos ⟨j, hi.lt, hi, h3, h4⟩]

theorem idealCheck_take_wait_iff (ops : List (TMOp κ)) (i : Nat) (l : κ) (t : Nat) :
    idealCheck (ops.take i) l t = .wait ↔
      ∃ j, PendingSince ops (ideal ops) i j l t ∧ ¬ MarkedBetween ops j i l := by
  simp only [pendingSince_iff, ← released_take]
  unfold idealCheck
  constructor
  · intro h
    split at h
    · cases h
    · split at h
      · rename_i c
        obtain ⟨j, _, c1, c2, c3⟩ := c
        have := (issued_take ops i j l t).1 c1
        exact ⟨j, ⟨this.1, this.2, c2⟩, c3⟩
      · cases h
  · rintro ⟨j, ⟨h1, h2, h3⟩, h4⟩
    have hi := (issued_take ops i j l t).2 ⟨h1, h2⟩
    have hno : ¬ ∃ j < (ops.take i).length, Issued (ops.take i) j l t ∧ ¬ Consumed (ops.take i) j l t ∧
        Released (ops.take i) j l := by
      rintro ⟨j', _, c1, _, c3⟩
      have : j = j' := issued_unique h2 ((issued_take ops i j' l t).1 c1).2
      subst this
      exact h4 c3
    rw [if_neg hno, if_pos ⟨j, hi.lt, hi, h3, h4⟩]

theorem idealCheck_take_keyError_iff (ops : List (TMOp κ)) (i : Nat) (l : κ) (t : Nat) :
    idealCheck (ops.take i) l t = .keyError ↔ ¬ ∃ j, PendingSince ops (ideal ops) i j l t := by
  constructor
  · intro h ⟨j, hp⟩
    by_cases hm : MarkedBetween ops j i l
    · have := (idealCheck_take_ready_iff ops i l t).2 ⟨j, hp, hm⟩
      rw [h] at this; cases this
    · have := (idealCheck_take_wait_iff ops i l t).2 ⟨j, hp, hm⟩
      rw [h] at this; cases this
  · intro h
    cases hc : idealCheck (ops.take i) l t with
    | ready => obtain ⟨j, hp, _⟩ := (idealCheck_take_ready_iff ops i l t).1 hc; exact absurd ⟨j, hp⟩ h
    | wait => obtain ⟨j, hp, _⟩ := (idealCheck_take_wait_iff ops i l t).1 hc; exact absurd ⟨j, hp⟩ h
    | keyError => rfl

/-- the law on the real session -/
theorem TM.session_law (ops : List (TMOp κ)) (i : Nat) (l : κ) (t : Nat) (h : ops[i]? = some (.check l t)) :
    ((({} : TM κ).run ops).1[i]? = some (.checked .ready) ↔
      ∃ j, PendingSince ops (({} : TM κ).run ops).1 i j l t ∧ MarkedBetween ops j i l) ∧
    ((({} : TM κ).run ops).1[i]? = some (.checked .wait) ↔
      ∃ j, PendingSince ops (({} : TM κ).run ops).1 i j l t ∧ ¬ MarkedBetween ops j i l) ∧
    ((({} : TM κ).run ops).1[i]? = some (.checked .keyError) ↔
      ¬ ∃ j, PendingSince ops (({} : TM κ).run ops).1 i j l t) := by
  rw [TM.run_eq_ideal]
  simp only [ideal_check ops i l t _ h]
  exact ⟨idealCheck_take_ready_iff ops i l t, idealCheck_take_wait_iff ops i l t,
    idealCheck_take_keyError_iff ops i l t⟩

end Simpleline.Objects
