/-
  TicketMachine object: user-level laws that need no history (own line, consumed once, all waiters).
-/
import Simpleline.Lemmas.ObjectsTM

namespace Simpleline.Objects

variable {κ : Type} [DecidableEq κ]

theorem TM.check_mark_other (m : TM κ) (l l' : κ) (t : Nat) (h : l' ≠ l) :
    ((m.mark l).check l' t).1 = (m.check l' t).1 := by
  rw [TM.check_fst, TM.check_fst, TM.get_mark, if_neg h]

theorem TM.check_mark_same (m : TM κ) (l : κ) (t : Nat) (h : (m.check l t).1 ≠ .keyError) :
    ((m.mark l).check l t).1 = .ready := by
  rw [TM.check_ready_iff, TM.get_mark, if_pos rfl]
  cases hg : m.get l t with
  | none => exact absurd ((TM.check_keyError_iff m l t).2 hg) h
  | some b => rfl

/-- a ticket that has been handed out and is no longer there never comes back -/
theorem TM.gone_step {m : TM κ} (hwf : m.WF) {l : κ} {t : Nat} (hg : m.get l t = none) (hlt : t < m.counter)
    (op : TMOp κ) : (m.step op).2.get l t = none ∧ t < (m.step op).2.counter := by
  cases op with
  | take l' =>
    refine ⟨?_, by simp only [TM.step, TM.take_counter]; omega⟩
    simp only [TM.step, TM.get_take]
    rw [if_neg (by omega)]; exact hg
  | check l' t' =>
    refine ⟨?_, by simp only [TM.step, TM.check_counter]; exact hlt⟩
    simp only [TM.step, hwf.get_check]
    split
    · rfl
    · exact hg
  | mark l' =>
    refine ⟨?_, by simp only [TM.step, TM.mark_counter]; exact hlt⟩
    simp only [TM.step, TM.get_mark, hg]
    split <;> rfl

theorem TM.gone_run {m : TM κ} (hwf : m.WF) {l : κ} {t : Nat} (hg : m.get l t = none) (hlt : t < m.counter)
    (ops : List (TMOp κ)) : (m.run ops).2.get l t = none := by
  induction ops generalizing m with
  | nil => exact hg
  | cons op ops ih =>
    obtain ⟨h1, h2⟩ := TM.gone_step hwf hg hlt op
    exact ih (hwf.step op) h1 h2

theorem TM.ready_once {m : TM κ} (hwf : m.WF) (l : κ) (t : Nat) (h : (m.check l t).1 = .ready)
    (ops : List (TMOp κ)) : (((m.check l t).2.run ops).2.check l t).1 = .keyError := by
  rw [TM.check_ready_iff] at h
  rw [TM.check_keyError_iff]
  have hwf' : (m.check l t).2.WF := hwf.step (.check l t)
  refine TM.gone_run hwf' ?_ ?_ ops
  · rw [hwf.get_check, if_pos ⟨rfl, rfl, h⟩]
  · rw [TM.check_counter]; exact hwf.get_lt h

end Simpleline.Objects
