/-
  The flat ticket machine of the spec, at line type `Cls`, is literally the ticket component of the abstract
  machine (`Model/Machine.lean`): `LoopSt.tickets`, `mark`, and the list operations of `procWait` / `waitCheck`.
-/
import Simpleline.Model.Machine
import Simpleline.Spec.ObjectsSpec

namespace Simpleline.Objects

/-- a flat triple as a `Machine.Ticket` -/
def toTicket (k : Cls × Nat × Bool) : Ticket := { line := k.1, id := k.2.1, marked := k.2.2 }

theorem flat_take_is_machine (f : FlatTM Cls) (c : Cls) :
    (f.take c).1 = f.counter ∧ (f.take c).2.counter = f.counter + 1 ∧
    (f.take c).2.tickets.map toTicket
      = f.tickets.map toTicket ++ [({ line := c, id := f.counter, marked := false } : Ticket)] := by
  simp [FlatTM.take, toTicket]

theorem flat_mark_is_machine (f : FlatTM Cls) (c : Cls) :
    (f.mark c).tickets.map toTicket = Simpleline.mark (f.tickets.map toTicket) c := by
  simp only [FlatTM.mark, Simpleline.mark, List.map_map]
  apply List.map_congr_left
  intro k _
  simp only [Function.comp, toTicket]
  by_cases h : k.1 = c <;> simp [h]

theorem flat_check_is_machine (f : FlatTM Cls) (c : Cls) (t : Nat) :
    (f.tickets.any (fun k => k.1 = c ∧ k.2.1 = t ∧ k.2.2)
      = (f.tickets.map toTicket).any (fun k => k.line = c ∧ k.id = t ∧ k.marked)) ∧
    ((f.tickets.filter fun k => ¬ (k.1 = c ∧ k.2.1 = t)).map toTicket
      = (f.tickets.map toTicket).filter fun k => ¬ (k.line = c ∧ k.id = t)) := by
  constructor
  · simp only [List.any_map, Function.comp_def, toTicket]
    congr 1
  · rw [List.filter_map]
    rfl

end Simpleline.Objects
