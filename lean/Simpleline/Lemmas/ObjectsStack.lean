/-
  ScreenStack object: refinement of the ideal list machine and the stack laws.
-/
import Simpleline.Spec.ObjectsSpec

namespace Simpleline.Objects

/-! ### one step -/

theorem reverse_eq_nil_of_getLast?_none {s : List Nat} (h : s.getLast? = none) : s.reverse = [] := by
  simp_all

theorem reverse_eq_cons_of_getLast? {s : List Nat} {e : Nat} (h : s.getLast? = some e) :
    s.reverse = e :: s.dropLast.reverse := by
  rcases List.eq_nil_or_concat s with rfl | ⟨r, x, rfl⟩
  · simp at h
  · simp_all

theorem SStack.step_eq_ideal (s : SStack) (op : SOp) :
    (s.step op).1 = (idealStackStep s.screens op).1 ∧ (s.step op).2.screens = (idealStackStep s.screens op).2 := by
  cases op with
  | pop r =>
    simp only [SStack.step, idealStackStep]
    cases h : s.screens.getLast? with
    | none => simp [reverse_eq_nil_of_getLast?_none h]
    | some e => simp only [reverse_eq_cons_of_getLast? h]; cases r <;> simp
  | empty => simp only [SStack.step, idealStackStep]; cases s.screens <;> simp
  | _ => simp [SStack.step, idealStackStep]

/-! ### runs -/

theorem SStack.run_append (s : SStack) (ops ops' : List SOp) :
    s.run (ops ++ ops') = ((s.run ops).1 ++ ((s.run ops).2.run ops').1, ((s.run ops).2.run ops').2) := by
  induction ops generalizing s with
  | nil => simp [SStack.run]
  | cons op ops ih => simp [SStack.run, ih]

theorem SStack.run_length (s : SStack) (ops : List SOp) : (s.run ops).1.length = ops.length := by
  induction ops generalizing s with
  | nil => simp [SStack.run]
  | cons op ops ih => simp [SStack.run, ih]

/-- the fold from an arbitrary accumulator -/
theorem idealFold_eq (ops : List SOp) (outs : List SOut) (s : SStack) :
    ops.foldl (fun acc op => let r := idealStackStep acc.2 op; (acc.1 ++ [r.1], r.2)) (outs, s.screens)
      = (outs ++ (s.run ops).1, (s.run ops).2.screens) := by
  induction ops generalizing outs s with
  | nil => simp [SStack.run]
  | cons op ops ih =>
    obtain ⟨h1, h2⟩ := s.step_eq_ideal op
    simp only [List.foldl_cons, SStack.run]
    rw [← h1, ← h2, ih]
    simp

theorem SStack.run_eq_ideal (ops : List SOp) :
    (({} : SStack).run ops).1 = (idealStack ops).1 ∧ (({} : SStack).run ops).2.screens = (idealStack ops).2 := by
  have := idealFold_eq ops [] {}
  simp only [List.nil_append] at this
  unfold idealStack
  rw [show (([] : List Nat)) = ({} : SStack).screens from rfl, this]
  exact ⟨rfl, rfl⟩

/-! ### laws -/

theorem SStack.pop_after_append (s : SStack) (e : Nat) :
    ((s.step (.append e)).2.step (.pop true)) = (.entry e, s) := by
  simp [SStack.step]

theorem SStack.add_first_keeps_top (s : SStack) (e : Nat) (h : s.screens ≠ []) (r : Bool) :
    ((s.step (.addFirst e)).2.step (.pop r)).1 = (s.step (.pop r)).1 := by
  simp only [SStack.step]
  rw [List.getLast?_cons_of_ne_nil h] <;> try exact h
  cases hl : s.screens.getLast? with
  | none => simp_all
  | some x => rfl

theorem SStack.kept_sublist (s : SStack) (op : SOp) : (keptBy s.screens op).Sublist (s.step op).2.screens := by
  cases op with
  | pop r =>
    cases r with
    | false => simp only [keptBy, SStack.step]; split <;> simp
    | true =>
      simp only [keptBy, SStack.step]
      split
      · exact List.dropLast_sublist _
      · simp
  | _ => simp [keptBy, SStack.step]

/-- a removing pop that returns `e` removed exactly the top entry `e` -/
theorem SStack.pop_removes_top (s : SStack) (e : Nat) (h : (s.step (.pop true)).1 = .entry e) :
    s.screens = (s.step (.pop true)).2.screens ++ [e] := by
  simp only [SStack.step] at h ⊢
  cases hl : s.screens.getLast? with
  | none => simp [hl] at h
  | some x =>
    simp only [hl, SOut.entry.injEq] at h
    subst h
    simp only [if_true]
    rcases List.eq_nil_or_concat s.screens with h0 | ⟨r, y, h0⟩
    · simp [h0] at hl
    · rw [h0] at hl ⊢; simp_all

theorem SStack.step_length (s : SStack) (op : SOp) :
    (s.step op).2.screens.length + (if removedOne (op, (s.step op).1) then 1 else 0)
      = s.screens.length + (if op.isPush then 1 else 0) := by
  cases op with
  | pop r =>
    obtain ⟨scr⟩ := s
    rcases List.eq_nil_or_concat scr with rfl | ⟨r', y, rfl⟩
    · simp [SStack.step, SOp.isPush, removedOne]
    · cases r <;> simp [SStack.step, SOp.isPush, removedOne]
  | _ => simp [SStack.step, SOp.isPush, removedOne]

theorem SStack.run_size (s : SStack) (ops : List SOp) :
    (s.run ops).2.screens.length + (ops.zip (s.run ops).1).countP removedOne
      = s.screens.length + ops.countP SOp.isPush := by
  induction ops generalizing s with
  | nil => simp [SStack.run]
  | cons op ops ih =>
    have h1 := s.step_length op
    have h2 := ih (s.step op).2
    simp only [SStack.run, List.zip_cons_cons, List.countP_cons]
    omega

theorem SStack.empty_iff (s : SStack) :
    (((s.step (.pop true)).1 = .stackEmpty ↔ s.screens = []) ∧
     ((s.step (.pop false)).1 = .stackEmpty ↔ s.screens = [])) ∧
    ((s.step .size).1 = .num 0 ↔ s.screens = []) ∧
    ((s.step .empty).1 = .bool true ↔ s.screens = []) := by
  have hp : ∀ r, ((s.step (.pop r)).1 = .stackEmpty ↔ s.screens = []) := by
    intro r
    simp only [SStack.step]
    cases hl : s.screens.getLast? with
    | none => simp_all
    | some x => simp only [reduceCtorEq, false_iff]; intro h0; simp [h0] at hl
  refine ⟨⟨hp true, hp false⟩, ?_, ?_⟩
  · simp [SStack.step]
  · simp [SStack.step]

theorem SStack.peek_pure (s : SStack) : (s.step (.pop false)).2 = s := by
  simp only [SStack.step]; split <;> simp

end Simpleline.Objects
