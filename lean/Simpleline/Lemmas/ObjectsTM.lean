/-
  TicketMachine object: the algebra of `TM.get` under the three methods, and preservation of `TM.WF`.
-/
import Simpleline.Lemmas.ObjectsAssoc

namespace Simpleline.Objects

variable {κ : Type} [DecidableEq κ]

theorem TM.get_eq_some {m : TM κ} {l : κ} {t : Nat} {b : Bool} :
    m.get l t = some b ↔ ∃ d, alookup l m.lines = some d ∧ alookup t d = some b := by
  simp [TM.get, Option.bind_eq_some_iff]

/-- replacing (or creating) the dictionary of one line -/
theorem TM.get_setLine (m : TM κ) (l : κ) (d' : List (Nat × Bool)) (c' : Nat) (l' : κ) (t' : Nat) :
    TM.get { lines := aset l d' m.lines, counter := c' } l' t' = if l = l' then alookup t' d' else m.get l' t' := by
  simp only [TM.get, alookup_aset]; split <;> simp

/-! ### the three methods in terms of `get` -/

theorem TM.take_fst (m : TM κ) (l : κ) : (m.take l).1 = m.counter := rfl

theorem TM.take_counter (m : TM κ) (l : κ) : (m.take l).2.counter = m.counter + 1 := rfl

theorem TM.get_take (m : TM κ) (l l' : κ) (t' : Nat) :
    (m.take l).2.get l' t' = if l' = l ∧ t' = m.counter then some false else m.get l' t' := by
  simp only [TM.take, TM.get_setLine]
  by_cases hl : l = l'
  · subst hl
    simp only [if_true, true_and]
    cases hd : alookup l m.lines with
    | none => simp only [alookup, TM.get, hd]; grind
    | some d => simp only [alookup_aset, TM.get, hd]; grind
  · grind

theorem TM.mark_counter (m : TM κ) (l : κ) : (m.mark l).counter = m.counter := by
  unfold TM.mark; split <;> rfl

theorem TM.get_mark (m : TM κ) (l l' : κ) (t' : Nat) :
    (m.mark l).get l' t' = if l' = l then (m.get l' t').map (fun _ => true) else m.get l' t' := by
  unfold TM.mark
  split
  · rename_i hd
    by_cases hl : l' = l
    · subst hl; simp [TM.get, hd]
    · simp [hl]
  · rename_i d hd
    rw [TM.get_setLine]
    by_cases hl : l = l'
    · subst hl
      simp only [if_true]
      rw [alookup_map_val (fun _ => true)]
      simp [TM.get, hd]
    · grind

theorem TM.check_counter (m : TM κ) (l : κ) (t : Nat) : (m.check l t).2.counter = m.counter := by
  unfold TM.check; split
  · rfl
  · split <;> rfl

theorem TM.check_fst (m : TM κ) (l : κ) (t : Nat) :
    (m.check l t).1 = match m.get l t with
      | some true => .ready
      | some false => .wait
      | none => .keyError := by
  unfold TM.check TM.get
  split
  · rename_i hd; simp [hd]
  · rename_i d hd
    simp only [hd, Option.bind_some]
    split <;> simp_all

theorem TM.check_ready_iff (m : TM κ) (l : κ) (t : Nat) : (m.check l t).1 = .ready ↔ m.get l t = some true := by
  rw [TM.check_fst]; split <;> simp_all

theorem TM.check_wait_iff (m : TM κ) (l : κ) (t : Nat) : (m.check l t).1 = .wait ↔ m.get l t = some false := by
  rw [TM.check_fst]; split <;> simp_all

theorem TM.check_keyError_iff (m : TM κ) (l : κ) (t : Nat) : (m.check l t).1 = .keyError ↔ m.get l t = none := by
  rw [TM.check_fst]; split <;> simp_all

/-- only a ready check changes the object -/
theorem TM.check_snd_of_not_ready (m : TM κ) (l : κ) (t : Nat) (h : m.get l t ≠ some true) :
    (m.check l t).2 = m := by
  unfold TM.check
  split
  · rfl
  · rename_i d hd
    split
    · rfl
    · rename_i ht; exact absurd (by simp [TM.get, hd, ht]) h
    · rfl

theorem TM.get_check (m : TM κ) {l : κ} (hn : ∀ d, alookup l m.lines = some d → (d.map Prod.fst).Nodup)
    (l' : κ) (t t' : Nat) :
    (m.check l t).2.get l' t' = if l' = l ∧ t' = t ∧ m.get l t = some true then none else m.get l' t' := by
  by_cases hr : m.get l t = some true
  · obtain ⟨d, hd, ht⟩ := TM.get_eq_some.1 hr
    have : (m.check l t).2 = { lines := aset l (aerase t d) m.lines, counter := m.counter } := by
      simp [TM.check, hd, ht]
    rw [this, TM.get_setLine]
    by_cases hl : l = l'
    · subst hl
      simp only [if_true, true_and, hr, and_true]
      rw [alookup_aerase _ _ _ (hn d hd)]
      simp only [TM.get, hd, Option.bind_some]
      grind
    · grind
  · rw [TM.check_snd_of_not_ready m l t hr]; simp [hr]

/-! ### well-formedness, functional form -/

/-- `TM.WF` read through `alookup`/`get` -/
structure TM.WFf (m : TM κ) : Prop where
  linesNodup : (m.lines.map Prod.fst).Nodup
  ticketsNodup : ∀ l d, alookup l m.lines = some d → (d.map Prod.fst).Nodup
  idLt : ∀ l t b, m.get l t = some b → t < m.counter
  oneLine : ∀ l l' t b b', m.get l t = some b → m.get l' t = some b' → l = l'

theorem TM.get_of_mem {m : TM κ} (h1 : (m.lines.map Prod.fst).Nodup)
    {p : κ × List (Nat × Bool)} (hp : p ∈ m.lines) (h2 : (p.2.map Prod.fst).Nodup)
    {q : Nat × Bool} (hq : q ∈ p.2) : m.get p.1 q.1 = some q.2 :=
  TM.get_eq_some.2 ⟨p.2, alookup_of_mem h1 hp, alookup_of_mem h2 hq⟩

theorem TM.wf_iff_wff (m : TM κ) : m.WF ↔ m.WFf := by
  constructor
  · intro h
    refine ⟨h.linesNodup, fun l d hd => h.ticketsNodup _ (mem_of_alookup hd), ?_, ?_⟩
    · intro l t b hg
      obtain ⟨d, hd, ht⟩ := TM.get_eq_some.1 hg
      exact h.idLt _ (mem_of_alookup hd) _ (mem_of_alookup ht)
    · intro l l' t b b' hg hg'
      obtain ⟨d, hd, ht⟩ := TM.get_eq_some.1 hg
      obtain ⟨d', hd', ht'⟩ := TM.get_eq_some.1 hg'
      exact h.oneLine _ (mem_of_alookup hd) _ (mem_of_alookup hd') _ (mem_of_alookup ht) _ (mem_of_alookup ht') rfl
  · intro h
    have hN : ∀ p ∈ m.lines, (p.2.map Prod.fst).Nodup := fun p hp =>
      h.ticketsNodup p.1 p.2 (alookup_of_mem h.linesNodup hp)
    refine ⟨h.linesNodup, hN, ?_, ?_⟩
    · intro p hp q hq
      exact h.idLt p.1 q.1 q.2 (TM.get_of_mem h.linesNodup hp (hN p hp) hq)
    · intro p hp p' hp' q hq q' hq' e
      have h1 := TM.get_of_mem h.linesNodup hp (hN p hp) hq
      have h2 := TM.get_of_mem h.linesNodup hp' (hN p' hp') hq'
      rw [← e] at h2
      exact h.oneLine _ _ _ _ _ h1 h2

/-- replacing the dictionary of one line by a well-formed one keeps the object well-formed -/
theorem TM.WFf.setLine {m : TM κ} (h : m.WFf) (l : κ) (d' : List (Nat × Bool)) (c' : Nat)
    (hc : m.counter ≤ c') (hn : (d'.map Prod.fst).Nodup)
    (hlt : ∀ t b, alookup t d' = some b → t < c')
    (hone : ∀ t b, alookup t d' = some b → ∀ l' b', l' ≠ l → m.get l' t ≠ some b') :
    TM.WFf { lines := aset l d' m.lines, counter := c' } := by
  refine ⟨nodup_keys_aset _ _ _ h.linesNodup, ?_, ?_, ?_⟩
  · intro l1 d1 h1
    simp only [alookup_aset] at h1
    split at h1
    · cases h1; exact hn
    · exact h.ticketsNodup _ _ h1
  · intro l1 t b hg
    rw [TM.get_setLine] at hg
    split at hg
    · exact hlt _ _ hg
    · exact Nat.lt_of_lt_of_le (h.idLt _ _ _ hg) hc
  · intro l1 l2 t b b' hg hg'
    rw [TM.get_setLine] at hg hg'
    split at hg <;> split at hg'
    · simp_all
    · rename_i e1 e2; exact absurd hg' (hone _ _ hg _ _ (fun e => e2 e.symm))
    · rename_i e1 e2; exact absurd hg (hone _ _ hg' _ _ (fun e => e1 e.symm))
    · exact h.oneLine _ _ _ _ _ hg hg'

theorem TM.WFf.empty : TM.WFf ({} : TM κ) := by
  refine ⟨by simp, ?_, ?_, ?_⟩ <;> simp [TM.get, alookup]

theorem TM.WFf.take {m : TM κ} (h : m.WFf) (l : κ) : (m.take l).2.WFf := by
  have key : ∀ d' : List (Nat × Bool), (d'.map Prod.fst).Nodup →
      (∀ t b, alookup t d' = some b → t = m.counter ∨ m.get l t = some b) →
      TM.WFf { lines := aset l d' m.lines, counter := m.counter + 1 } := by
    intro d' hn hd'
    refine h.setLine l d' _ (Nat.le_succ _) hn ?_ ?_
    · intro t b ht
      rcases hd' t b ht with e | e
      · omega
      · have := h.idLt _ _ _ e; omega
    · intro t b ht l' b' hl' hg
      rcases hd' t b ht with e | e
      · have := h.idLt _ _ _ hg; omega
      · exact hl' (h.oneLine _ _ _ _ _ hg e)
  unfold TM.take
  cases hd : alookup l m.lines with
  | none =>
    apply key
    · simp
    · intro t b ht; simp only [alookup] at ht; grind
  | some d =>
    apply key
    · exact nodup_keys_aset _ _ _ (h.ticketsNodup _ _ hd)
    · intro t b ht
      rw [alookup_aset] at ht
      split at ht
      · left; grind
      · right; exact TM.get_eq_some.2 ⟨d, hd, ht⟩

theorem TM.WFf.mark {m : TM κ} (h : m.WFf) (l : κ) : (m.mark l).WFf := by
  unfold TM.mark
  split
  · exact h
  · rename_i d hd
    have hk : ((d.map fun kv => (kv.1, true)).map Prod.fst) = d.map Prod.fst := keys_map_val (fun _ => true) d
    have hl : ∀ t b, alookup t (d.map fun kv => (kv.1, true)) = some b → ∃ b0, m.get l t = some b0 := by
      intro t b ht
      rw [alookup_map_val (fun _ => true)] at ht
      cases h0 : alookup t d with
      | none => simp [h0] at ht
      | some b0 => exact ⟨b0, TM.get_eq_some.2 ⟨d, hd, h0⟩⟩
    refine h.setLine l _ _ (Nat.le_refl _) (hk ▸ h.ticketsNodup _ _ hd) ?_ ?_
    · intro t b ht
      obtain ⟨b0, hb0⟩ := hl t b ht
      exact h.idLt _ _ _ hb0
    · intro t b ht l' b' hl' hg
      obtain ⟨b0, hb0⟩ := hl t b ht
      exact hl' (h.oneLine _ _ _ _ _ hg hb0)

theorem TM.WFf.check {m : TM κ} (h : m.WFf) (l : κ) (t : Nat) : (m.check l t).2.WFf := by
  by_cases hr : m.get l t = some true
  · obtain ⟨d, hd, ht⟩ := TM.get_eq_some.1 hr
    have : (m.check l t).2 = { lines := aset l (aerase t d) m.lines, counter := m.counter } := by
      simp [TM.check, hd, ht]
    rw [this]
    have hnd := h.ticketsNodup _ _ hd
    have hl : ∀ t' b, alookup t' (aerase t d) = some b → m.get l t' = some b := by
      intro t' b ht'
      rw [alookup_aerase _ _ _ hnd] at ht'
      split at ht'
      · cases ht'
      · exact TM.get_eq_some.2 ⟨d, hd, ht'⟩
    refine h.setLine l _ _ (Nat.le_refl _) (nodup_keys_aerase _ _ hnd) ?_ ?_
    · intro t' b ht'
      exact h.idLt _ _ _ (hl t' b ht')
    · intro t' b ht' l' b' hl' hg
      exact hl' (h.oneLine _ _ _ _ _ hg (hl t' b ht'))
  · rw [TM.check_snd_of_not_ready m l t hr]; exact h

theorem TM.WFf.step {m : TM κ} (h : m.WFf) (op : TMOp κ) : (m.step op).2.WFf := by
  cases op with
  | take l => exact h.take l
  | check l t => exact h.check l t
  | mark l => exact h.mark l

theorem TM.WF.step {m : TM κ} (h : m.WF) (op : TMOp κ) : (m.step op).2.WF :=
  (TM.wf_iff_wff _).2 (((TM.wf_iff_wff _).1 h).step op)

theorem TM.WF.empty : TM.WF ({} : TM κ) := (TM.wf_iff_wff _).2 TM.WFf.empty

theorem TM.WF.run {m : TM κ} (h : m.WF) (ops : List (TMOp κ)) : (m.run ops).2.WF := by
  induction ops generalizing m with
  | nil => exact h
  | cons op ops ih => exact ih (h.step op)

/-- `get` after a check, under `WF` -/
theorem TM.WF.get_check {m : TM κ} (h : m.WF) (l l' : κ) (t t' : Nat) :
    (m.check l t).2.get l' t' = if l' = l ∧ t' = t ∧ m.get l t = some true then none else m.get l' t' :=
  TM.get_check m (fun d hd => ((TM.wf_iff_wff _).1 h).ticketsNodup l d hd) l' t t'

theorem TM.WF.get_lt {m : TM κ} (h : m.WF) {l : κ} {t : Nat} {b : Bool} (hg : m.get l t = some b) :
    t < m.counter := ((TM.wf_iff_wff _).1 h).idLt l t b hg

/-! ### runs -/

theorem TM.run_append (m : TM κ) (ops ops' : List (TMOp κ)) :
    m.run (ops ++ ops') = ((m.run ops).1 ++ ((m.run ops).2.run ops').1, ((m.run ops).2.run ops').2) := by
  induction ops generalizing m with
  | nil => simp [TM.run]
  | cons op ops ih => simp [TM.run, ih]

theorem TM.run_length (m : TM κ) (ops : List (TMOp κ)) : (m.run ops).1.length = ops.length := by
  induction ops generalizing m with
  | nil => simp [TM.run]
  | cons op ops ih => simp [TM.run, ih]

theorem TM.step_counter (m : TM κ) (op : TMOp κ) :
    (m.step op).2.counter = m.counter + if op.isTake then 1 else 0 := by
  cases op <;> simp [TM.step, TMOp.isTake, TM.take_counter, TM.check_counter, TM.mark_counter]

theorem TM.run_counter (m : TM κ) (ops : List (TMOp κ)) :
    (m.run ops).2.counter = m.counter + ops.countP TMOp.isTake := by
  induction ops generalizing m with
  | nil => simp [TM.run]
  | cons op ops ih =>
    simp only [TM.run, ih, TM.step_counter, List.countP_cons]
    omega

/-- the ticket returned by the take at position `i` -/
theorem TM.run_ticket (m : TM κ) (ops : List (TMOp κ)) (i : Nat) (l : κ) (h : ops[i]? = some (.take l)) :
    (m.run ops).1[i]? = some (.ticket (m.counter + ticketAt ops i)) := by
  induction ops generalizing m i with
  | nil => simp at h
  | cons op ops ih =>
    cases i with
    | zero =>
      simp only [List.getElem?_cons_zero, Option.some.injEq] at h
      subst h
      simp [TM.run, TM.step, ticketAt, TM.take_fst]
    | succ i =>
      simp only [List.getElem?_cons_succ] at h
      simp only [TM.run, List.getElem?_cons_succ, ih _ i h, TM.step_counter, ticketAt, List.take_succ_cons,
        List.countP_cons]
      congr 2; omega

end Simpleline.Objects
