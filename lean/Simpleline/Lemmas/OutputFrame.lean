/-
  Frame lemmas for C17: what the helper functions of `Model/Machine.lean` do to the console
  (`A.out`), to the marker events of the trace (`show`, `kill`) and to the `printLines` instructions
  pending in `code`.
-/
import Simpleline.Spec.OutputSpec

namespace Simpleline.Output

/-! ### vocabulary -/

/-- the configuration inside a step result, whether the run continues or halts -/
def fin : Except (Outcome × Cfg) Cfg → Cfg
  | .ok c => c
  | .error (_, c) => c

@[simp] theorem fin_ok (c : Cfg) : fin (.ok c) = c := rfl
@[simp] theorem fin_error (o : Outcome) (c : Cfg) : fin (.error (o, c)) = c := rfl

/-- the environment transition, totalised the way `emit` and `take` use it -/
def dlv (c : Cfg) : Cfg := c.deliver.getD c

/-- the configuration after raising an exception, caught or not -/
def raised (k : Kind) (c : Cfg) : Cfg := fin (c.raise k)

@[simp] theorem fin_raise (c : Cfg) (k : Kind) : fin (c.raise k) = raised k c := rfl

theorem trans_cases {P : Prog} {c c' : Cfg} (h : Trans P c c') : c' = fin (step P c) ∨ c' = dlv c := by
  cases h with
  | step h => rw [h]; exact .inl rfl
  | deliver h => right; simp [dlv, h]
  | halt h => rw [h]; exact .inl rfl

/-- the marker events: the beginning of a draw and the kill -/
def isMark : Tr → Bool
  | .show _ => true
  | .kill => true
  | _ => false

/-- the trace `l'` extends `l` by events that are no markers -/
def QT (l l' : List Tr) : Prop := ∃ add, l' = add ++ l ∧ ∀ t ∈ add, isMark t = false

@[simp] theorem qt_refl (l : List Tr) : QT l l := ⟨[], rfl, by simp⟩

theorem QT.trans {l l' l'' : List Tr} (h : QT l l') (h' : QT l' l'') : QT l l'' := by
  obtain ⟨a, rfl, ha⟩ := h
  obtain ⟨b, rfl, hb⟩ := h'
  refine ⟨b ++ a, by simp, ?_⟩
  intro t ht
  rcases List.mem_append.mp ht with ht | ht
  · exact hb t ht
  · exact ha t ht

theorem qt_cons {l l' : List Tr} {t : Tr} (ht : isMark t = false) (h : QT l l') : QT l (t :: l') := by
  obtain ⟨a, rfl, ha⟩ := h
  refine ⟨t :: a, rfl, ?_⟩
  intro x hx
  rcases List.mem_cons.mp hx with rfl | hx
  · exact ht
  · exact ha x hx

/-- `qt_cons` in the form `simp` can use as a conditional rewrite rule -/
@[simp] theorem qt_cons' {l l' : List Tr} {t : Tr} (ht : ¬ isMark t = true) (h : QT l l') : QT l (t :: l') :=
  qt_cons (by simpa using ht) h

@[simp] theorem isMark_enq (a b) : isMark (.enq a b) = false := rfl
@[simp] theorem isMark_dropped (a) : isMark (.dropped a) = false := rfl
@[simp] theorem isMark_take (a b) : isMark (.take a b) = false := rfl
@[simp] theorem isMark_putBack (a b) : isMark (.putBack a b) = false := rfl
@[simp] theorem isMark_call (a b c) : isMark (.call a b c) = false := rfl
@[simp] theorem isMark_dispatched (a b) : isMark (.dispatched a b) = false := rfl
@[simp] theorem isMark_exit : isMark .exit = false := rfl
@[simp] theorem isMark_forceQuit : isMark .forceQuit = false := rfl
@[simp] theorem isMark_kill : isMark .kill = true := rfl
@[simp] theorem isMark_openLevel (a b) : isMark (.openLevel a b) = false := rfl
@[simp] theorem isMark_closeLevel (a) : isMark (.closeLevel a) = false := rfl
@[simp] theorem isMark_loopReturn (a) : isMark (.loopReturn a) = false := rfl
@[simp] theorem isMark_closeReq (a b) : isMark (.closeReq a b) = false := rfl
@[simp] theorem isMark_waitBegin (a b) : isMark (.waitBegin a b) = false := rfl
@[simp] theorem isMark_waitEnd (a b c) : isMark (.waitEnd a b c) = false := rfl
@[simp] theorem isMark_procBegin : isMark .procBegin = false := rfl
@[simp] theorem isMark_procEnd : isMark .procEnd = false := rfl
@[simp] theorem isMark_stackOp (a b) : isMark (.stackOp a b) = false := rfl
@[simp] theorem isMark_show (a) : isMark (.show a) = true := rfl
@[simp] theorem isMark_refresh (a) : isMark (.refresh a) = false := rfl
@[simp] theorem isMark_modalBegin (a) : isMark (.modalBegin a) = false := rfl
@[simp] theorem isMark_modalEnd (a) : isMark (.modalEnd a) = false := rfl

theorem QT.mark_mem {l l' : List Tr} (h : QT l l') (t : Tr) (ht : isMark t = true) : t ∈ l' ↔ t ∈ l := by
  obtain ⟨a, rfl, ha⟩ := h
  constructor
  · intro hm
    rcases List.mem_append.mp hm with hm | hm
    · rw [ha t hm] at ht; cases ht
    · exact hm
  · exact fun hm => List.mem_append_right _ hm

theorem newTr_of_append {c c' : Cfg} {new : List Tr} (h : c'.tr = new ++ c.tr) : newTr c c' = new := by
  simp [newTr, h]

theorem QT.newTr {c c' : Cfg} (h : QT c.tr c'.tr) : ∀ t ∈ newTr c c', isMark t = false := by
  obtain ⟨a, h1, ha⟩ := h
  rw [newTr_of_append h1]; exact ha

/-- the line lists of the `printLines` instructions pending in a code -/
def prints (code : List Instr) : List (List Str) :=
  code.filterMap fun i => match i with | .printLines ls => some ls | _ => none

@[simp] theorem prints_nil : prints [] = [] := rfl
@[simp] theorem prints_append (a b : List Instr) : prints (a ++ b) = prints a ++ prints b := by
  simp [prints]
theorem prints_cons (i : Instr) (a : List Instr) :
    prints (i :: a) = (match i with | .printLines ls => [ls] | _ => []) ++ prints a := by
  cases i <;> simp [prints]
@[simp] theorem prints_cons_print (ls : List Str) (a : List Instr) :
    prints (.printLines ls :: a) = ls :: prints a := by
  simp [prints]

theorem prints_sublist {a b : List Instr} (h : a.Sublist b) : (prints a).Sublist (prints b) :=
  List.Sublist.filterMap _ h

theorem prints_map_act (acts : List Act) : prints (acts.map Instr.act) = [] := by
  induction acts with
  | nil => rfl
  | cons a as ih => simp [prints_cons, ih]

/-- nothing written, no marker event, no new `printLines` beyond those in `rest` -/
structure Quiet (c : Cfg) (rest : List Instr) (c' : Cfg) : Prop where
  out : c'.A.out = c.A.out
  tr : QT c.tr c'.tr
  code : prints c'.code ⊆ prints rest

/-! ### plain record updates -/

attribute [local simp] Cfg.trace push Cfg.write Cfg.newSig newIH

@[simp] theorem setScr_out (A : AppSt) (i : Nat) (f : ScreenObj → ScreenObj) : (A.setScr i f).out = A.out := rfl

/-! ### `enqueue`, `redraw` -/

/-- the trace event of an `enqueue_signal` -/
def enqEv (L : LoopSt) (s : Sig) : Tr := if L.forceQuit then .dropped s else .enq (L.route s.src) s

@[simp] theorem enqEv_isMark (L : LoopSt) (s : Sig) : isMark (enqEv L s) = false := by
  unfold enqEv; split <;> rfl

@[simp] theorem enqueue_A (c : Cfg) (s : Sig) : (c.enqueue s).A = c.A := by unfold Cfg.enqueue; split <;> rfl
@[simp] theorem enqueue_code (c : Cfg) (s : Sig) : (c.enqueue s).code = c.code := by
  unfold Cfg.enqueue; split <;> rfl
@[simp] theorem enqueue_tr (c : Cfg) (s : Sig) : (c.enqueue s).tr = enqEv c.L s :: c.tr := by
  unfold Cfg.enqueue enqEv; split <;> rfl

@[simp] theorem redraw_A (c : Cfg) : c.redraw.A = c.A := by simp [Cfg.redraw]
@[simp] theorem redraw_code (c : Cfg) : c.redraw.code = c.code := by simp [Cfg.redraw]
theorem redraw_tr (c : Cfg) : ∃ t, isMark t = false ∧ c.redraw.tr = t :: c.tr := by
  simp only [Cfg.redraw, Cfg.newSig, enqueue_tr]
  exact ⟨_, enqEv_isMark _ _, rfl⟩
@[simp] theorem qt_redraw {l : List Tr} {c : Cfg} (h : QT l c.tr) : QT l c.redraw.tr := by
  obtain ⟨t, ht, h1⟩ := redraw_tr c
  rw [h1]; exact qt_cons ht h

/-! ### `deliver`, `emit` -/

theorem dlv_cases (c : Cfg) :
    dlv c = c ∨ ∃ (c1 : Cfg) (s : Sig), c1.A.out = c.A.out ∧ c1.code = c.code ∧ c1.tr = c.tr ∧ dlv c = c1.enqueue s := by
  unfold dlv Cfg.deliver
  split
  · exact .inl rfl
  · exact .inr ⟨_, _, by simp, by simp, by simp, rfl⟩

@[simp] theorem dlv_out (c : Cfg) : (dlv c).A.out = c.A.out := by
  rcases dlv_cases c with h | ⟨c1, s, h1, _, _, h⟩
  · rw [h]
  · simp [h, h1]
@[simp] theorem dlv_code (c : Cfg) : (dlv c).code = c.code := by
  rcases dlv_cases c with h | ⟨c1, s, _, h1, _, h⟩
  · rw [h]
  · simp [h, h1]
theorem dlv_tr (c : Cfg) : QT c.tr (dlv c).tr := by
  rcases dlv_cases c with h | ⟨c1, s, _, _, h1, h⟩
  · simp [h]
  · rw [h, enqueue_tr, h1]; exact qt_cons (enqEv_isMark _ _) (qt_refl _)
@[simp] theorem qt_dlv {l : List Tr} {c : Cfg} (h : QT l c.tr) : QT l (dlv c).tr := h.trans (dlv_tr c)

theorem emit_eq (P : Prog) (c : Cfg) (e : Ev) :
    c.emit P e = if P.deliverAt.contains (c.log.length + 1) then dlv ({ c with log := e :: c.log } : Cfg)
                 else { c with log := e :: c.log } := rfl

@[simp] theorem emit_out (P : Prog) (c : Cfg) (e : Ev) : (c.emit P e).A.out = c.A.out := by
  rw [emit_eq]; split <;> simp
@[simp] theorem emit_code (P : Prog) (c : Cfg) (e : Ev) : (c.emit P e).code = c.code := by
  rw [emit_eq]; split <;> simp
@[simp] theorem qt_emit {l : List Tr} {P : Prog} {c : Cfg} {e : Ev} (h : QT l c.tr) : QT l (c.emit P e).tr := by
  rw [emit_eq]; split
  · exact qt_dlv h
  · exact h

/-! ### exceptions -/

theorem unwind_frame (k : Kind) (code : List Instr) (c : Cfg) :
    (fin (unwind k code c)).A = c.A ∧ (fin (unwind k code c)).code.Sublist code ∧
    QT c.tr (fin (unwind k code c)).tr := by
  induction code with
  | nil => unfold unwind; cases k <;> simp
  | cons ins rest ih =>
    unfold unwind
    split
    · simp
    · simp
    · simp
    · simp
      exact ((List.tail_sublist _).trans (List.dropWhile_sublist _)).trans (List.sublist_cons_self _ _)
    · simp
    · obtain ⟨h1, h2, h3⟩ := ih
      exact ⟨h1, h2.trans (List.sublist_cons_self _ _), h3⟩

theorem raised_frame (k : Kind) (c : Cfg) :
    (raised k c).A = c.A ∧ (raised k c).code.Sublist c.code ∧ QT c.tr (raised k c).tr := by
  unfold raised Cfg.raise
  cases k
  · obtain ⟨h1, h2, h3⟩ := unwind_frame .exit c.code (c.trace .exit)
    refine ⟨h1, h2, ?_⟩
    exact QT.trans (qt_cons rfl (qt_refl _)) h3
  · exact unwind_frame .err c.code c
  · exact unwind_frame .sysexit c.code c

@[simp] theorem raised_A (k : Kind) (c : Cfg) : (raised k c).A = c.A := (raised_frame k c).1
theorem raised_code (k : Kind) (c : Cfg) : (raised k c).code.Sublist c.code := (raised_frame k c).2.1
@[simp] theorem qt_raised {l : List Tr} {k : Kind} {c : Cfg} (h : QT l c.tr) : QT l (raised k c).tr :=
  h.trans (raised_frame k c).2.2
@[simp] theorem prints_raised {X : List (List Str)} {k : Kind} {c : Cfg} (h : prints c.code ⊆ X) :
    prints (raised k c).code ⊆ X :=
  fun _ hx => h ((prints_sublist (raised_code k c)).subset hx)

/-- nobody catches `SystemExit`: the run ends with the state as it is -/
theorem unwind_sysexit (code : List Instr) (c : Cfg) :
    unwind .sysexit code c = .error (.killed 1, { c with code := [] }) := by
  induction code with
  | nil => rfl
  | cons ins rest ih => unfold unwind; exact ih

/-! ### `take` -/

/-- `take` after the possible delivery -/
def takeFrom (c : Cfg) : Except (Outcome × Cfg) (Sig × Cfg) :=
  match c.L.activeQ.entries with
  | [] => .error (.blocked, c)
  | e :: es =>
    .ok (e.2.2, { c with L := { c.L with queues := listSet c.L.queues c.L.active fun q => { q with entries := es } },
                         tr := .take c.L.active e.2.2 :: c.tr })

theorem take_eq (c : Cfg) : c.take = takeFrom (if c.L.activeQ.entries = [] then dlv c else c) := rfl

theorem takeFrom_cases (c : Cfg) :
    takeFrom c = .error (.blocked, c) ∨
    ∃ s L, takeFrom c = .ok (s, { c with L := L, tr := .take c.L.active s :: c.tr }) := by
  unfold takeFrom
  split
  · exact .inl rfl
  · exact .inr ⟨_, _, rfl⟩

theorem take_cases (c : Cfg) :
    ∃ c1, (c1 = c ∨ c1 = dlv c) ∧
      (c.take = .error (.blocked, c1) ∨
       ∃ s L, c.take = .ok (s, { c1 with L := L, tr := .take c1.L.active s :: c1.tr })) := by
  rw [take_eq]
  split
  · exact ⟨_, .inr rfl, takeFrom_cases _⟩
  · exact ⟨_, .inl rfl, takeFrom_cases _⟩

/-- `let (s, c) ← c.take; pure (push c (f s))` -/
theorem quiet_take (c0 : Cfg) (rest : List Instr) (c : Cfg) (f : Sig → List Instr)
    (ho : c.A.out = c0.A.out) (ht : QT c0.tr c.tr) (hcode : c.code = rest) (hf : ∀ s, prints (f s) = []) :
    Quiet c0 rest (fin (do let x ← c.take; pure (push x.2 (f x.1)))) := by
  obtain ⟨c1, h1, h2⟩ := take_cases c
  have ho1 : c1.A.out = c0.A.out := by rcases h1 with rfl | rfl <;> simp [ho]
  have ht1 : QT c0.tr c1.tr := by
    rcases h1 with rfl | rfl
    · exact ht
    · exact qt_dlv ht
  have hc1 : c1.code = rest := by rcases h1 with rfl | rfl <;> simp [hcode]
  rcases h2 with h2 | ⟨s, L, h2⟩
  · rw [h2]
    exact ⟨ho1, ht1, by simp [bind, Except.bind, hc1]⟩
  · rw [h2]
    refine ⟨by simpa [bind, Except.bind, pure, Except.pure] using ho1, ?_, ?_⟩
    · simp only [bind, Except.bind, pure, Except.pure, fin_ok, push]
      exact qt_cons rfl ht1
    · simp [bind, Except.bind, pure, Except.pure, hc1, hf]

/-! ### `startRequest` -/

/-- a new input request either is refused (an exception, nothing written) or writes exactly its own
prompt text -/
theorem startRequest_frame (c : Cfg) (ih : Nat) (r : Src) (t : Str) :
    ((fin (startRequest c ih r t)).A.out = c.A.out ∨ (fin (startRequest c ih r t)).A.out = c.A.out ++ [t]) ∧
    QT c.tr (fin (startRequest c ih r t)).tr ∧
    prints (fin (startRequest c ih r t)).code ⊆ prints c.code := by
  unfold startRequest
  simp only []
  split
  · refine ⟨.inl ?_, ?_, ?_⟩
    · simp
    · exact qt_raised (qt_refl _)
    · exact prints_raised (fun _ h => h)
  · have ht : ((c.A.reqs ++ [({ ih := ih, requester := r, text := t } : Request)]).getD
        ((c.A.inputStack ++ [c.A.reqs.length]).getLastD 0) default).text = t := by
      simp [List.getD_eq_getElem?_getD]
    split
    · refine ⟨.inr ?_, by simp, by simp⟩
      simp only [fin_ok, Cfg.write]
      rw [ht]
    · refine ⟨.inr ?_, by simp, by simp⟩
      simp only [fin_ok, Cfg.write]
      rw [ht]

/-! ### folds -/

theorem foldl_frame {α} (f : Cfg → α → Cfg) (o : List Str) (k : List Instr) (t : List Tr)
    (hf : ∀ c a, (f c a).A.out = c.A.out ∧ (f c a).code = c.code ∧ QT c.tr (f c a).tr) :
    ∀ (l : List α) (c : Cfg), c.A.out = o → c.code = k → QT t c.tr →
      (l.foldl f c).A.out = o ∧ (l.foldl f c).code = k ∧ QT t (l.foldl f c).tr := by
  intro l
  induction l with
  | nil => intro c h1 h2 h3; exact ⟨h1, h2, h3⟩
  | cons a as ih =>
    intro c h1 h2 h3
    obtain ⟨g1, g2, g3⟩ := hf c a
    exact ih (f c a) (g1.trans h1) (g2.trans h2) (h3.trans g3)

/-! ### the grouping of the pager's events into instructions -/

/-- the `printLines` instructions the pager produces carry only lines it was given -/
theorem prints_go (scr : Nat) (S : List Str) : ∀ (evs : List OutEv) (cur : List Str) (acc : List Instr),
    (∀ l, OutEv.line l ∈ evs → l ∈ S) → (∀ l ∈ cur, l ∈ S) → (∀ ls ∈ prints acc, ∀ l ∈ ls, l ∈ S) →
    ∀ ls ∈ prints (step.go scr evs cur acc), ∀ l ∈ ls, l ∈ S := by
  intro evs
  induction evs with
  | nil =>
    intro cur acc _ hcur hacc
    unfold step.go
    split
    · exact hacc
    · intro ls hls
      simp only [prints_append, prints_cons_print, prints_nil, List.mem_append, List.mem_singleton] at hls
      rcases hls with hls | rfl
      · exact hacc ls hls
      · exact hcur
  | cons e es ih =>
    intro cur acc hevs hcur hacc
    unfold step.go
    cases e with
    | line l =>
      apply ih
      · exact fun x hx => hevs x (List.mem_cons_of_mem _ hx)
      · intro x hx
        rcases List.mem_append.mp hx with hx | hx
        · exact hcur x hx
        · rw [List.mem_singleton.mp hx]; exact hevs l List.mem_cons_self
      · exact hacc
    | ask =>
      apply ih
      · exact fun x hx => hevs x (List.mem_cons_of_mem _ hx)
      · simp
      · intro ls hls
        simp only [prints_append, prints_cons, prints_nil, List.append_nil] at hls
        split at hls
        · exact hacc ls (by simpa using hls)
        · simp only [prints_append, prints_cons_print, prints_nil, List.mem_append,
            List.mem_singleton] at hls
          rcases hls with hls | rfl
          · exact hacc ls hls
          · exact hcur

/-- the pager prints only lines it was given -/
theorem pages_lines (real : Nat) (ls : List Str) : ∀ l, OutEv.line l ∈ pages real ls → l ∈ ls := by
  induction ls using pages.induct (real := real) with
  | case1 ls h =>
    intro l hl
    rw [pages, if_pos h] at hl
    simpa using hl
  | case2 ls h ih =>
    intro l hl
    rw [pages, if_neg h] at hl
    rcases List.mem_append.mp hl with hl | hl
    · obtain ⟨x, hx, hxe⟩ := List.mem_map.mp hl
      cases hxe
      exact List.mem_of_mem_take hx
    · rcases List.mem_cons.mp hl with hl | hl
      · cases hl
      · exact List.mem_of_mem_drop (ih l hl)

theorem printWidget_lines (ls : List Str) (h : Nat) (evs : List OutEv) (he : printWidget ls h = some evs) :
    ∀ l, OutEv.line l ∈ evs → l ∈ ls := by
  unfold printWidget at he
  split at he
  · cases he; intro l hl; cases hl
  · split at he
    · cases he
    · cases he; exact pages_lines _ ls

end Simpleline.Output
