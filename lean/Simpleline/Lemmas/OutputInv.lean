/-
  C17: consequences of `step_eff` for single transitions (append-only, the separator) and the
  invariant of reachable configurations (`OutShape`: every chunk on the console is of a known kind; the
  pending `printLines` instructions carry window lines).
-/
import Simpleline.Lemmas.OutputStep
import Simpleline.Lemmas.OutputWindow

namespace Simpleline.Output

/-! ### single transitions -/

theorem dlv_quiet (c : Cfg) : (dlv c).A.out = c.A.out ∧ QT c.tr (dlv c).tr ∧ (dlv c).code = c.code :=
  ⟨dlv_out c, dlv_tr c, dlv_code c⟩

/-- a step only appends to the console -/
theorem stepEff_append {P : Prog} {c c' : Cfg} (h : StepEff P c c') : ∃ new, c'.A.out = c.A.out ++ new := by
  unfold StepEff at h
  split at h
  · exact ⟨[], by simp [h]⟩
  · exact ⟨_, h.1⟩
  · exact ⟨_, h.1⟩
  · rcases h.1 with h1 | h1
    · exact ⟨[], by simp [h1]⟩
    · exact ⟨_, h1⟩
  · rcases h.1 with h1 | h1
    · exact ⟨[], by simp [h1]⟩
    · exact ⟨_, h1⟩
  · exact ⟨_, h.1⟩
  · exact ⟨[], by simp [h.1]⟩
  · exact ⟨[], by simp [h.out]⟩

theorem trans_append {P : Prog} {c c' : Cfg} (h : Trans P c c') : ∃ new, c'.A.out = c.A.out ++ new := by
  rcases trans_cases h with rfl | rfl
  · exact stepEff_append (step_eff P c)
  · exact ⟨[], by simp⟩

/-- a step that begins a draw (adds a `show e` event) writes the separator, unless the screen disables
it, and nothing else -/
theorem stepEff_show {P : Prog} {c c' : Cfg} (h : StepEff P c c') (e : Entry) (he : Tr.show e ∈ newTr c c') :
    (∃ rest, c.code = .drawScreen e :: rest) ∧
    c'.A.out = c.A.out ++ (if (P.spec e.screen).noSeparator then [] else [spacer P.width]) := by
  have no : ∀ {c c' : Cfg}, QT c.tr c'.tr → Tr.show e ∈ newTr c c' → False := by
    intro c c' hq hm
    have := hq.newTr _ hm
    simp at this
  unfold StepEff at h
  split at h
  · subst h; simp [newTr] at he
  · next e' rest hc =>
    rw [newTr_of_append (new := [.show e']) h.2.1] at he
    simp only [List.mem_singleton, Tr.show.injEq] at he
    subst he
    exact ⟨⟨rest, hc⟩, h.1⟩
  · exact (no h.2.1 he).elim
  · exact (no h.2.1 he).elim
  · exact (no h.2.1 he).elim
  · rw [newTr_of_append (new := [.kill]) h.2.1] at he
    simp at he
  · exact (no h.2.1 he).elim
  · exact (no h.tr he).elim

theorem trans_show {P : Prog} {c c' : Cfg} (h : Trans P c c') (e : Entry) (he : Tr.show e ∈ newTr c c') :
    (∃ rest, c.code = .drawScreen e :: rest) ∧
    c'.A.out = c.A.out ++ (if (P.spec e.screen).noSeparator then [] else [spacer P.width]) := by
  rcases trans_cases h with rfl | rfl
  · exact stepEff_show (step_eff P c) e he
  · have := (dlv_tr c).newTr _ he
    simp at this

/-- conversely, the step of a `drawScreen e` instruction adds the `show e` event -/
theorem stepEff_draw {P : Prog} {c c' : Cfg} (h : StepEff P c c') (e : Entry) (rest : List Instr)
    (hc : c.code = .drawScreen e :: rest) : newTr c c' = [.show e] := by
  unfold StepEff at h
  rw [hc] at h
  exact newTr_of_append (new := [.show e]) h.2.1

/-! ### the invariant -/

/-- the console is of the known shape and every pending `printLines` carries lines of a window -/
structure OutInv (P : Prog) (c : Cfg) : Prop where
  shape : OutShape P c
  code : ∀ ls ∈ prints c.code, WindowLines P ls

theorem outInv_init {P : Prog} {c0 : Cfg} (h0 : Started c0) : OutInv P c0 := by
  obtain ⟨init, hs, q, sin, rfl⟩ := h0
  refine ⟨.inl ⟨by simp [initCfg], by simp [initCfg]⟩, ?_⟩
  intro ls hls
  simp [initCfg, prints_map_act, prints_cons] at hls

theorem mem_concat_normal {P : Prog} {out : List Str} {x : Str} (h : ∀ ch ∈ out, NormalChunk P ch)
    (hx : NormalChunk P x) : ∀ ch ∈ out ++ [x], NormalChunk P ch := by
  intro ch hch
  rcases List.mem_append.mp hch with hch | hch
  · exact h ch hch
  · rw [List.mem_singleton.mp hch]; exact hx

theorem outInv_stepEff {P : Prog} {c c' : Cfg} (hi : OutInv P c) (h : StepEff P c c') : OutInv P c' := by
  obtain ⟨hshape, hcode⟩ := hi
  rcases hshape with ⟨hk, hout⟩ | ⟨hk, hnil, hrest⟩
  · -- not killed so far
    have hsub : ∀ {rest : List Instr} {i : Instr}, c.code = i :: rest → prints c'.code ⊆ prints rest →
        ∀ ls ∈ prints c'.code, WindowLines P ls := by
      intro rest i hc hs ls hls
      apply hcode ls
      rw [hc, prints_cons]
      exact List.mem_append_right _ (hs hls)
    have hkill : ∀ {c' : Cfg}, QT c.tr c'.tr → Tr.kill ∉ c'.tr := fun hq hm => hk ((hq.mark_mem _ rfl).mp hm)
    unfold StepEff at h
    split at h
    · subst h; exact ⟨.inl ⟨hk, hout⟩, hcode⟩
    · next e rest hc =>
      refine ⟨.inl ⟨?_, ?_⟩, hsub hc h.2.2⟩
      · rw [h.2.1]; simpa using hk
      · rw [h.1]
        split
        · simpa using hout
        · exact mem_concat_normal hout .separator
    · next ls rest hc =>
      refine ⟨.inl ⟨hkill h.2.1, ?_⟩, hsub hc h.2.2⟩
      rw [h.1]
      exact mem_concat_normal hout (.lines ls (hcode ls (by rw [hc]; simp)))
    · next scr args rest hc =>
      refine ⟨.inl ⟨hkill h.2.1, ?_⟩, hsub hc h.2.2⟩
      rcases h.1 with h1 | h1
      · rw [h1]; exact hout
      · rw [h1]; exact mem_concat_normal hout .prompt
    · next scr cont rest hc =>
      refine ⟨.inl ⟨hkill h.2.1, ?_⟩, hsub hc h.2.2⟩
      rcases h.1 with h1 | h1
      · rw [h1]; exact hout
      · rw [h1]
        cases cont
        · exact mem_concat_normal hout .msg
        · exact mem_concat_normal hout .continue
    · refine ⟨.inr ⟨by rw [h.2.1]; simp, h.2.2, c.A.out, c.A.stack, h.1, hout⟩, ?_⟩
      rw [h.2.2]; simp
    · next scr rest hc =>
      refine ⟨.inl ⟨hkill h.2.1, by rw [h.1]; exact hout⟩, ?_⟩
      intro ls hls
      rcases h.2.2 ls hls with h1 | h1
      · apply hcode ls
        rw [hc, prints_cons]
        exact List.mem_append_right _ h1
      · exact h1
    · exact ⟨.inl ⟨hkill h.tr, by rw [h.out]; exact hout⟩, hsub (by assumption) h.code⟩
  · -- killed: nothing is executed any more
    unfold StepEff at h
    rw [hnil] at h
    simp only [] at h
    subst h
    exact ⟨.inr ⟨hk, hnil, hrest⟩, hcode⟩

theorem outInv_dlv {P : Prog} {c : Cfg} (hi : OutInv P c) : OutInv P (dlv c) := by
  obtain ⟨hshape, hcode⟩ := hi
  obtain ⟨h1, h2, h3⟩ := dlv_quiet c
  refine ⟨?_, by rw [h3]; exact hcode⟩
  rcases hshape with ⟨hk, hout⟩ | ⟨hk, hnil, hrest⟩
  · exact .inl ⟨fun hm => hk ((h2.mark_mem _ rfl).mp hm), by rw [h1]; exact hout⟩
  · exact .inr ⟨(h2.mark_mem _ rfl).mpr hk, by rw [h3]; exact hnil, by rw [h1]; exact hrest⟩

theorem outInv_reach {P : Prog} {c0 c : Cfg} (h0 : Started c0) (h : Reach P c0 c) : OutInv P c := by
  induction h with
  | init => exact outInv_init h0
  | step _ hs ih =>
    have := outInv_stepEff ih (step_eff P _)
    rwa [hs] at this
  | deliver _ hd ih =>
    have := outInv_dlv ih
    simpa [dlv, hd] using this
  | halt _ hs ih =>
    have := outInv_stepEff ih (step_eff P _)
    rwa [hs] at this

/-! ### what the shape of the console implies -/

theorem mem_prints {code : List Instr} {ls : List Str} : ls ∈ prints code ↔ Instr.printLines ls ∈ code := by
  unfold prints
  rw [List.mem_filterMap]
  constructor
  · rintro ⟨i, hi, hm⟩
    cases i <;> simp at hm
    subst hm; exact hi
  · intro h; exact ⟨_, h, rfl⟩

/-- every character on the console is allowed -/
theorem outShape_allowed {P : Prog} {c : Cfg} (h : OutShape P c) : ∀ ch ∈ c.A.out.flatten, allowed P ch := by
  intro ch hch
  obtain ⟨chunk, hchunk, hch⟩ := List.mem_flatten.mp hch
  rcases h with ⟨_, hout⟩ | ⟨_, _, pre, stack, hpre, hout⟩
  · exact normalChunk_allowed (hout chunk hchunk) ch hch
  · rw [hpre] at hchunk
    rcases List.mem_append.mp hchunk with hchunk | hchunk
    · exact normalChunk_allowed (hout chunk hchunk) ch hch
    · rcases killChunks_chars P stack chunk hchunk ch hch with h1 | h1 | h1
      · exact .inl h1
      · exact .inr (.inr (.inr (.inl h1)))
      · exact .inr (.inr (.inr (.inr (.inl h1))))

/-- as long as the run has not been killed no screen name reaches the console -/
theorem outShape_chars_alive {P : Prog} {c : Cfg} (h : OutShape P c) (hk : Tr.kill ∉ c.tr) :
    ∀ ch ∈ c.A.out.flatten, ch = '\n' ∨ ch = ' ' ∨ ch = '=' ∨ ch ∈ frameworkLiterals.flatten ∨
      (textChar P ch ∧ isWs6 ch = false) := by
  intro ch hch
  obtain ⟨chunk, hchunk, hch⟩ := List.mem_flatten.mp hch
  rcases h with ⟨_, hout⟩ | ⟨hk', _⟩
  · exact normalChunk_chars (hout chunk hchunk) ch hch
  · exact absurd hk' hk

/-- the width clause for the whole console -/
theorem outShape_width {P : Prog} {c : Cfg} (h : OutShape P c) :
    (Tr.kill ∉ c.tr ∧ ∀ ch ∈ c.A.out, chunkLinesOK P.width.toNat ch) ∨
    (Tr.kill ∈ c.tr ∧ c.code = [] ∧
      ∃ pre stack, c.A.out = pre ++ killChunks P stack ∧ ∀ ch ∈ pre, chunkLinesOK P.width.toNat ch) := by
  rcases h with ⟨hk, hout⟩ | ⟨hk, hnil, pre, stack, hpre, hout⟩
  · exact .inl ⟨hk, fun ch hch => normalChunk_linesOK (hout ch hch)⟩
  · exact .inr ⟨hk, hnil, pre, stack, hpre, fun ch hch => normalChunk_linesOK (hout ch hch)⟩

/-- executions compose: a configuration reachable from a reachable configuration -/
theorem reach_append {P : Prog} {c c' : Cfg} (h : Reach P c c') : ∃ new, c'.A.out = c.A.out ++ new := by
  induction h with
  | init => exact ⟨[], by simp⟩
  | step _ hs ih =>
    obtain ⟨n1, h1⟩ := ih
    obtain ⟨n2, h2⟩ := trans_append (Trans.step (P := P) hs)
    exact ⟨n1 ++ n2, by rw [h2, h1, List.append_assoc]⟩
  | deliver _ hd ih =>
    obtain ⟨n1, h1⟩ := ih
    obtain ⟨n2, h2⟩ := trans_append (Trans.deliver (P := P) hd)
    exact ⟨n1 ++ n2, by rw [h2, h1, List.append_assoc]⟩
  | halt _ hs ih =>
    obtain ⟨n1, h1⟩ := ih
    obtain ⟨n2, h2⟩ := trans_append (Trans.halt (P := P) hs)
    exact ⟨n1 ++ n2, by rw [h2, h1, List.append_assoc]⟩

/-- an allowed carriage return, backspace or escape character was supplied by the application -/
theorem allowed_control {P : Prog} {ctl : Char} (hctl : ctl = '\r' ∨ ctl = '\x08' ∨ ctl = '\x1b')
    (ha : allowed P ctl) : nameChar P ctl ∨ (ctl ≠ '\r' ∧ textChar P ctl) := by
  rcases ha with h1 | h1 | h1 | h1 | h1 | ⟨h1, h2⟩
  · rcases hctl with rfl | rfl | rfl <;> exact absurd h1 (by decide)
  · rcases hctl with rfl | rfl | rfl <;> exact absurd h1 (by decide)
  · rcases hctl with rfl | rfl | rfl <;> exact absurd h1 (by decide)
  · rcases hctl with rfl | rfl | rfl <;> exact absurd h1 (by decide)
  · exact .inl h1
  · refine .inr ⟨?_, h1⟩
    rintro rfl
    exact absurd h2 (by decide)

/-- the step of `drawScreen e` never fails and adds exactly the event `show e` -/
theorem draw_step (P : Prog) (c : Cfg) (e : Entry) (rest : List Instr)
    (hc : c.code = .drawScreen e :: rest) : ∃ c', step P c = .ok c' ∧ newTr c c' = [.show e] := by
  have he := stepEff_draw (step_eff P c) e rest hc
  cases hs : step P c with
  | ok c' => exact ⟨c', rfl, by rwa [hs] at he⟩
  | error p => simp [step, hc] at hs

/-- the step of `printLines ls` appends exactly the chunk of its lines -/
theorem print_step (P : Prog) (c c' : Cfg) (ls : List Str) (rest : List Instr)
    (hc : c.code = .printLines ls :: rest) (hs : step P c = .ok c') :
    c'.A.out = c.A.out ++ [ls.flatMap fun l => l ++ ['\n']] := by
  have he := step_eff P c
  rw [hs] at he
  unfold StepEff at he
  rw [hc] at he
  exact he.1

theorem windowLines_fit {P : Prog} {ls : List Str} (h : WindowLines P ls) :
    ∀ l ∈ ls, l.length ≤ P.width.toNat ∧ '\n' ∉ l := by
  obtain ⟨scr, g, hg, hls⟩ := h
  exact fun l hl => ⟨windowLines_width P scr g hg l (hls l hl), windowLines_no_nl P scr g hg l (hls l hl)⟩

theorem spacer_lines_exact (w : Int) :
    ∀ l ∈ splitOn '\n' (spacer w), l = [] ∨ (l.length = w.toNat ∧ ∀ ch ∈ l, ch = '=') := by
  intro l hl
  rw [spacer_lines] at hl
  simp only [List.mem_cons, List.not_mem_nil, or_false] at hl
  rcases hl with rfl | rfl | rfl
  · exact .inr ⟨by simp, fun ch h => List.eq_of_mem_replicate h⟩
  · exact .inr ⟨by simp, fun ch h => List.eq_of_mem_replicate h⟩
  · exact .inl rfl

/-! ### the run of a concrete program is an execution -/

theorem reach_runFuel {P : Prog} {c0 : Cfg} : ∀ (n : Nat) {c : Cfg}, Reach P c0 c → Reach P c0 (runFuel P n c).1 := by
  intro n
  induction n with
  | zero => intro c h; exact h
  | succ n ih =>
    intro c h
    unfold runFuel
    cases hs : step P c with
    | ok c' => exact ih (.step h hs)
    | error p =>
      obtain ⟨o, c'⟩ := p
      exact .halt h hs

end Simpleline.Output
