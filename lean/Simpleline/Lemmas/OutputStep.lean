/-
  C17: the effect of one machine step on the console, on the marker events of the trace and on the
  pending `printLines` instructions (`step_eff`), by cases on the instruction executed.
-/
import Simpleline.Lemmas.OutputFrame

namespace Simpleline.Output

attribute [local simp] Cfg.trace push Cfg.write Cfg.newSig newIH

/-- what the step out of `c` into `c'` does: only five instructions write, and each writes chunks of a
known kind; only `drawScreen` adds a `show` event and only `kill` a `kill` event; only `printWidget`
creates `printLines` instructions, and they carry window lines -/
def StepEff (P : Prog) (c c' : Cfg) : Prop :=
  match c.code with
  | [] => c' = c
  | .drawScreen e :: rest =>
    c'.A.out = c.A.out ++ (if (P.spec e.screen).noSeparator then [] else [spacer P.width]) ∧
    c'.tr = .show e :: c.tr ∧ prints c'.code ⊆ prints rest
  | .printLines ls :: rest =>
    c'.A.out = c.A.out ++ [ls.flatMap fun l => l ++ ['\n']] ∧ QT c.tr c'.tr ∧ prints c'.code ⊆ prints rest
  | .getInput2 _ _ :: rest =>
    (c'.A.out = c.A.out ∨ c'.A.out = c.A.out ++ [promptText P defaultPrompt]) ∧
    QT c.tr c'.tr ∧ prints c'.code ⊆ prints rest
  | .blockingInput _ cont :: rest =>
    (c'.A.out = c.A.out ∨
      c'.A.out = c.A.out ++ [if cont then promptText P contPrompt else msgText P]) ∧
    QT c.tr c'.tr ∧ prints c'.code ⊆ prints rest
  | .kill _ :: _ =>
    c'.A.out = c.A.out ++ killChunks P c.A.stack ∧ c'.tr = .kill :: c.tr ∧ c'.code = []
  | .printWidget _ :: rest =>
    c'.A.out = c.A.out ∧ QT c.tr c'.tr ∧ ∀ ls ∈ prints c'.code, ls ∈ prints rest ∨ WindowLines P ls
  | _ :: rest => Quiet c rest c'

theorem quiet_iff (c : Cfg) (rest : List Instr) (c' : Cfg) :
    Quiet c rest c' ↔ c'.A.out = c.A.out ∧ QT c.tr c'.tr ∧ prints c'.code ⊆ prints rest :=
  ⟨fun h => ⟨h.out, h.tr, h.code⟩, fun h => ⟨h.1, h.2.1, h.2.2⟩⟩

theorem doAct_quiet (c0 : Cfg) (rest : List Instr) (c : Cfg) (a : Act)
    (ho : c.A.out = c0.A.out) (ht : c.tr = c0.tr) (hc : c.code = rest) :
    Quiet c0 rest (fin (doAct c a)) := by
  rw [quiet_iff]
  unfold doAct
  split <;> (try dsimp only) <;> (try split) <;> simp [prints_cons, isMark, *]

theorem step_eff (P : Prog) (c : Cfg) : StepEff P c (fin (step P c)) := by
  unfold StepEff
  rcases hc : c.code with _ | ⟨ins, rest⟩
  · simp [step, hc]
  · cases ins <;> simp only [step, hc]
    case act a => exact doAct_quiet c rest _ a rfl rfl rfl
    case getDispatch =>
      exact quiet_take c rest _ (fun s => [.processSignal s]) rfl (qt_refl _) rfl (by simp [prints_cons])
    all_goals sorry

end Simpleline.Output
