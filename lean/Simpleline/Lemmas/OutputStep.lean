/-
  C17: the effect of one machine step on the console, on the marker events of the trace and on the
  pending `printLines` instructions (`step_eff`), by cases on the instruction executed.
-/
import Simpleline.Lemmas.OutputFrame

namespace Simpleline.Output

attribute [local simp] Cfg.trace push Cfg.write Cfg.newSig newIH

/-- what the step out of `c` into `c'` does: only five instructions write, and each writes chunks of a
known kind; only `drawScreen` adds a `show` event and only `kill` a `kill` event; only `printWidget`
creates `printLines` instructions, and they carry window lines -/
def StepEff (P : Prog) (c c' : Cfg) : Prop :=
  match c.code with
  | [] => c' = c
  | .drawScreen e :: rest =>
    c'.A.out = c.A.out ++ (if (P.spec e.screen).noSeparator then [] else [spacer P.width]) ∧
    c'.tr = .show e :: c.tr ∧ prints c'.code ⊆ prints rest
  | .printLines ls :: rest =>
    c'.A.out = c.A.out ++ [ls.flatMap fun l => l ++ ['\n']] ∧ QT c.tr c'.tr ∧ prints c'.code ⊆ prints rest
  | .getInput2 _ _ :: rest =>
    (c'.A.out = c.A.out ∨ c'.A.out = c.A.out ++ [promptText P defaultPrompt]) ∧
    QT c.tr c'.tr ∧ prints c'.code ⊆ prints rest
  | .blockingInput _ cont :: rest =>
    (c'.A.out = c.A.out ∨
      c'.A.out = c.A.out ++ [if cont then promptText P contPrompt else msgText P]) ∧
    QT c.tr c'.tr ∧ prints c'.code ⊆ prints rest
  | .kill _ :: _ =>
    c'.A.out = c.A.out ++ killChunks P c.A.stack ∧ c'.tr = .kill :: c.tr ∧ c'.code = []
  | .printWidget _ :: rest =>
    c'.A.out = c.A.out ∧ QT c.tr c'.tr ∧ ∀ ls ∈ prints c'.code, ls ∈ prints rest ∨ WindowLines P ls
  | _ :: rest => Quiet c rest c'

theorem quiet_iff (c : Cfg) (rest : List Instr) (c' : Cfg) :
    Quiet c rest c' ↔ c'.A.out = c.A.out ∧ QT c.tr c'.tr ∧ prints c'.code ⊆ prints rest :=
  ⟨fun h => ⟨h.out, h.tr, h.code⟩, fun h => ⟨h.1, h.2.1, h.2.2⟩⟩

theorem doAct_quiet (c0 : Cfg) (rest : List Instr) (c : Cfg) (a : Act)
    (ho : c.A.out = c0.A.out) (ht : c.tr = c0.tr) (hc : c.code = rest) :
    Quiet c0 rest (fin (doAct c a)) := by
  rw [quiet_iff]
  unfold doAct
  split <;> (try dsimp only) <;> (try split) <;> simp [prints_cons, *]

theorem step_eff (P : Prog) (c : Cfg) : StepEff P c (fin (step P c)) := by
  unfold StepEff
  rcases hc : c.code with _ | ⟨ins, rest⟩
  · simp [step, hc]
  · cases ins <;> simp only [step, hc]
    case act a => exact doAct_quiet c rest _ a rfl rfl rfl
    case getDispatch =>
      exact quiet_take c rest _ (fun s => [.processSignal s]) rfl (qt_refl _) rfl (by simp [prints_cons])
    case waitStep cls t =>
      split
      · exact quiet_take c rest _ (fun s => [.processSignal s, .waitCheck cls t]) rfl (qt_refl _) rfl
          (by simp [prints_cons])
      · rw [quiet_iff]; simp
    case kill s =>
      simp only [Cfg.raise, unwind_sysexit, fin_error]
      simp [killChunks]
    case printWidget scr =>
      split
      · refine ⟨by simp, by simp, fun ls hls => .inl ?_⟩
        rw [fin_raise] at hls
        exact prints_raised (X := prints rest) (fun _ h => h) hls
      · next lines hl =>
        split
        · exact ⟨by simp, by simp, fun ls hls => .inl (by simpa using hls)⟩
        · next evs he =>
          refine ⟨by simp, by simp, fun ls hls => ?_⟩
          simp only [fin_ok, push, prints_append] at hls
          rcases List.mem_append.mp hls with hls | hls
          · exact .inr ⟨scr, lines, hl, prints_go scr lines evs [] [] (printWidget_lines _ _ _ he)
              (by simp) (by simp) ls hls⟩
          · exact .inl hls
    case inputReceived s =>
      split
      · rw [quiet_iff]; simp
      · rw [quiet_iff]
        simp only [fin_ok]
        generalize hX : List.foldl _ _ _ = X
        obtain ⟨k1, k2, k3⟩ : X.A.out = c.A.out ∧ X.code = rest ∧ QT c.tr X.tr := by
          rw [← hX]
          exact foldl_frame _ _ _ _ (by intro c a; simp) _ _ (by simp) (by simp) (by simp)
        exact ⟨k1, k3, by rw [k2]; exact fun _ h => h⟩
    case getInput2 scr args =>
      split
      · simp
      · exact ⟨(startRequest_frame _ _ _ _).1, (startRequest_frame _ _ _ _).2.1, (startRequest_frame _ _ _ _).2.2⟩
    case blockingInput scr cont =>
      refine ⟨(startRequest_frame _ _ _ _).1, (startRequest_frame _ _ _ _).2.1, fun x hx => ?_⟩
      have := (startRequest_frame _ _ _ _).2.2 hx
      simpa [prints_cons] using this
    all_goals try rw [quiet_iff]
    all_goals (try split) <;> (try split) <;> (try split) <;> (try split) <;> (try simp [prints_cons, prints_map_act]; done)
    -- identCheck: the rest of `_process_screen` is skipped
    · refine ⟨by simp, by simp, ?_⟩
      exact (prints_sublist (List.dropWhile_sublist _)).subset

end Simpleline.Output
