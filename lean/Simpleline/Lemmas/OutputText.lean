/-
  Helper lemmas for C17 (console output), pure layer: which characters a `TextWidget` can put into its
  lines (`renderTextSt`), the width of its lines for *every* integer width, and the lines of a text
  prompt (`textPrompt`).
-/
import Simpleline.Lemmas.Text
import Simpleline.Lemmas.Screen

namespace Simpleline.Output

/-- what a `TextWidget` showing the text `t` can put into a line: a blank, or a character of `t` that
is not one of `string.whitespace` (`'\t' '\n' '\x0b' '\x0c' '\r' ' '`) -/
def TextChar (t : List Char) (ch : Char) : Prop := ch = ' ' ∨ (ch ∈ t ∧ isWs6 ch = false)

theorem TextChar.ne_nl {t : List Char} {ch : Char} (h : TextChar t ch) : ch ≠ '\n' := by
  rcases h with rfl | ⟨_, h⟩
  · decide
  · intro e; subst e; revert h; decide

/-! ### `splitOn` -/

theorem mem_of_mem_splitOn (sep : Char) : ∀ (t l : List Char), l ∈ splitOn sep t → ∀ ch ∈ l, ch ∈ t := by
  intro t
  induction t with
  | nil => intro l hl ch hch; simp [splitOn] at hl; subst hl; cases hch
  | cons c cs ih =>
    intro l hl ch hch
    by_cases hc : c = sep
    · subst hc
      rw [splitOn_cons_sep] at hl
      rcases List.mem_cons.mp hl with rfl | hl
      · cases hch
      · exact List.mem_cons_of_mem _ (ih l hl ch hch)
    · obtain ⟨l0, ls, h1, h2⟩ := splitOn_cons_ne sep c cs hc
      rw [h2] at hl
      rcases List.mem_cons.mp hl with rfl | hl
      · rcases List.mem_cons.mp hch with rfl | hch
        · exact List.mem_cons_self
        · exact List.mem_cons_of_mem _ (ih l0 (by rw [h1]; exact List.mem_cons_self) ch hch)
      · exact List.mem_cons_of_mem _ (ih l (by rw [h1]; exact List.mem_cons_of_mem _ hl) ch hch)

/-- the lines of `joinWith sep ls ++ R` (no separator inside the lines or `R`): the lines `ls`, the last
one continued by `R` -/
theorem lines_joinWith_append (sep : Char) (R : List Char) (hR : sep ∉ R) :
    ∀ (ls : List (List Char)), (∀ l ∈ ls, sep ∉ l) →
      ∀ x ∈ splitOn sep (joinWith sep ls ++ R), x ∈ ls ∨ x = R ∨ ∃ l ∈ ls, x = l ++ R := by
  intro ls
  induction ls with
  | nil =>
    intro _ x hx
    rw [joinWith, List.nil_append, splitOn_of_not_mem sep R hR] at hx
    exact .inr (.inl (List.mem_singleton.mp hx))
  | cons l ls ih =>
    intro h x hx
    cases ls with
    | nil =>
      have hl : sep ∉ l ++ R := by
        intro hm
        rcases List.mem_append.mp hm with hm | hm
        · exact h l (by simp) hm
        · exact hR hm
      rw [joinWith, splitOn_of_not_mem sep _ hl] at hx
      exact .inr (.inr ⟨l, by simp, List.mem_singleton.mp hx⟩)
    | cons l' ls =>
      rw [joinWith_cons_cons, List.append_assoc, List.cons_append,
        splitOn_append_sep sep l _ (h l (by simp))] at hx
      rcases List.mem_cons.mp hx with rfl | hx
      · exact .inl (by simp)
      · rcases ih (fun y hy => h y (List.mem_cons_of_mem _ hy)) x hx with h1 | h1 | ⟨y, hy, h1⟩
        · exact .inl (List.mem_cons_of_mem _ h1)
        · exact .inr (.inl h1)
        · exact .inr (.inr ⟨y, List.mem_cons_of_mem _ hy, h1⟩)

/-- the lines of `l₁ ++ sep :: l₂ ++ sep :: …` are `l₁, l₂, …` and a final empty line -/
theorem splitOn_flatMap_sep (sep : Char) : ∀ (ls : List (List Char)), (∀ l ∈ ls, sep ∉ l) →
    splitOn sep (ls.flatMap fun l => l ++ [sep]) = ls ++ [[]] := by
  intro ls
  induction ls with
  | nil => intro _; rfl
  | cons l ls ih =>
    intro h
    rw [List.flatMap_cons, List.append_assoc, List.singleton_append,
      splitOn_append_sep sep l _ (h l (by simp)), ih (fun y hy => h y (List.mem_cons_of_mem _ hy))]
    rfl

/-! ### `munge`, `pyWrap` -/

theorem expandTabs_chars (t : List Char) : ∀ (col : Nat), ∀ ch ∈ expandTabsAux col t, ch = ' ' ∨ ch ∈ t := by
  induction t with
  | nil => intro col ch h; simp [expandTabsAux] at h
  | cons c cs ih =>
    intro col ch h
    simp only [expandTabsAux] at h
    split at h
    · rcases List.mem_append.mp h with h | h
      · exact .inl (List.eq_of_mem_replicate h)
      · exact (ih _ ch h).imp id (List.mem_cons_of_mem _)
    · split at h
      all_goals
        rcases List.mem_cons.mp h with rfl | h
        · exact .inr List.mem_cons_self
        · exact (ih _ ch h).imp id (List.mem_cons_of_mem _)

/-- `_munge_whitespace` replaces every character of `string.whitespace` by a blank and adds only
blanks -/
theorem munge_chars (t : List Char) : ∀ ch ∈ munge t, TextChar t ch := by
  intro ch h
  simp only [munge, List.mem_map] at h
  obtain ⟨d, hd, rfl⟩ := h
  split
  · exact .inl rfl
  · next hw =>
    rcases expandTabs_chars t 0 d hd with rfl | hd
    · exact .inl rfl
    · exact .inr ⟨hd, by simpa using hw⟩

/-- wrapping only moves and drops characters of the munged line -/
theorem pyWrap_chars (cc : CharClass) (l : List Char) (w : Nat) :
    ∀ x ∈ pyWrap cc l w, ∀ ch ∈ x, TextChar l ch := by
  intro x hx ch hch
  have := wrapLoop_subset cc w false (splitChunks cc (munge l)) (munge l)
    (by rw [splitChunks, splitAux_flatten]; exact fun _ h => h) x hx hch
  exact munge_chars l ch this

/-! ### `TextWidget.render` at an arbitrary integer width -/

/-- a successful render either leaves no line at all (empty text) or was done at a width ≥ 1 -/
theorem render_int_cases (cc : CharClass) (st : WSt) (t : List Char) (w : Int) (s : WSt)
    (h : renderTextSt cc st t w = .ok s) :
    s.buf = [] ∨ (1 ≤ w.toNat ∧ renderTextSt cc st t (w.toNat : Int) = .ok s) := by
  by_cases ht : t = []
  · left
    simp only [renderTextSt, WSt.writeWrapped, WSt.clear, ht, if_true, Except.ok.injEq] at h
    subst h; rfl
  · by_cases hw : w ≤ 0
    · simp [renderTextSt, WSt.writeWrapped, ht, hw] at h
    · right
      have : ((w.toNat : Nat) : Int) = w := Int.toNat_of_nonneg (by omega)
      rw [this]
      exact ⟨by omega, h⟩

/-- every line of a rendered text has at most `w` characters — for every integer `w` -/
theorem render_width_int (cc : CharClass) (st : WSt) (t : List Char) (w : Int) (s : WSt)
    (h : renderTextSt cc st t w = .ok s) : ∀ l ∈ s.buf, l.length ≤ w.toNat := by
  rcases render_int_cases cc st t w s h with h0 | ⟨hw, h1⟩
  · rw [h0]; simp
  · exact render_width cc st t w.toNat hw s h1

/-- every character of a rendered text is a blank or a non-whitespace character of the source -/
theorem render_chars (cc : CharClass) (st : WSt) (t : List Char) (w : Int) (s : WSt)
    (h : renderTextSt cc st t w = .ok s) : ∀ l ∈ s.buf, ∀ ch ∈ l, TextChar t ch := by
  rcases render_int_cases cc st t w s h with h0 | ⟨hw, h1⟩
  · rw [h0]; simp
  · rw [render_breaks cc st t w.toNat hw s h1]
    split
    · simp
    · intro l hl ch hch
      obtain ⟨src, hsrc, hl⟩ := List.mem_flatMap.mp hl
      split at hl
      · rw [List.mem_singleton.mp hl] at hch; cases hch
      · rcases pyWrap_chars cc src w.toNat l hl ch hch with h2 | ⟨h2, h3⟩
        · exact .inl h2
        · exact .inr ⟨mem_of_mem_splitOn '\n' t src hsrc ch h2, h3⟩

theorem render_no_nl (cc : CharClass) (st : WSt) (t : List Char) (w : Int) (s : WSt)
    (h : renderTextSt cc st t w = .ok s) : ∀ l ∈ s.buf, '\n' ∉ l :=
  fun l hl hm => (render_chars cc st t w s h l hl _ hm).ne_nl rfl

/-! ### the text prompt -/

theorem textPrompt_spec (cc : CharClass) (p : Str) (w : Int) (r : Str) (h : textPrompt cc p w = .ok r) :
    ∃ st, renderTextSt cc {} p w = .ok st ∧ r = joinWith '\n' st.buf ++ [' '] := by
  unfold textPrompt at h
  cases hr : renderTextSt cc {} p w with
  | error e => simp [hr, bind, Except.bind] at h
  | ok st =>
    simp only [hr, bind, Except.bind, pure, Except.pure, Except.ok.injEq] at h
    exact ⟨st, rfl, h.symm⟩

/-- the characters of a text prompt: line breaks, blanks, non-whitespace characters of the prompt -/
theorem textPrompt_chars (cc : CharClass) (p : Str) (w : Int) (r : Str) (h : textPrompt cc p w = .ok r) :
    ∀ ch ∈ r, ch = '\n' ∨ TextChar p ch := by
  obtain ⟨st, hst, rfl⟩ := textPrompt_spec cc p w r h
  have hj : ∀ (ls : List (List Char)), (∀ l ∈ ls, ∀ ch ∈ l, TextChar p ch) →
      ∀ ch ∈ joinWith '\n' ls, ch = '\n' ∨ TextChar p ch := by
    intro ls
    induction ls with
    | nil => intro _ ch hch; cases hch
    | cons l ls ih =>
      intro hl ch hch
      cases ls with
      | nil => exact .inr (hl l (by simp) ch hch)
      | cons l' ls =>
        rw [joinWith_cons_cons] at hch
        rcases List.mem_append.mp hch with hch | hch
        · exact .inr (hl l (by simp) ch hch)
        · rcases List.mem_cons.mp hch with rfl | hch
          · exact .inl rfl
          · exact ih (fun y hy => hl y (List.mem_cons_of_mem _ hy)) ch hch
  intro ch hch
  rcases List.mem_append.mp hch with hch | hch
  · exact hj st.buf (render_chars cc {} p w st hst) ch hch
  · exact .inr (.inl (List.mem_singleton.mp hch))

/-- the lines of a text prompt: lines of the rendered prompt, the last one continued by one blank -/
theorem textPrompt_lines (cc : CharClass) (p : Str) (w : Int) (r : Str) (h : textPrompt cc p w = .ok r) :
    ∀ x ∈ splitOn '\n' r, x = [' '] ∨ ∃ l : List Char, l.length ≤ w.toNat ∧ (x = l ∨ x = l ++ [' ']) := by
  obtain ⟨st, hst, rfl⟩ := textPrompt_spec cc p w r h
  intro x hx
  rcases lines_joinWith_append '\n' [' '] (by decide) st.buf (render_no_nl cc {} p w st hst) x hx with
    h1 | h1 | ⟨l, hl, h1⟩
  · exact .inr ⟨x, render_width_int cc {} p w st hst x h1, .inl rfl⟩
  · exact .inl h1
  · exact .inr ⟨l, render_width_int cc {} p w st hst l hl, .inr h1⟩

end Simpleline.Output
