/-
  Helper lemmas for C17: the lines of a screen's window, and what each kind of written chunk
  (`NormalChunk`, `killChunks`) contains: its characters (`allowed`) and the width of its lines
  (`chunkLinesOK`).
-/
import Simpleline.Lemmas.OutputText
import Simpleline.Spec.OutputSpec

namespace Simpleline.Output

/-! ### the window of a screen -/

theorem truthy_some {o : Option (List Char)} {t : List Char} (h : truthy o = some t) : o = some t := by
  unfold truthy at h
  split at h
  · cases h
  · exact h

/-- every line of a screen's window is empty (the line after the title) or a line of the rendered
title or the rendered text of the screen -/
theorem windowLines_spec (P : Prog) (scr : Nat) (g : Grid) (h : windowLines P scr = .ok g) :
    ∀ l ∈ g, l = [] ∨ ∃ t st, ((P.spec scr).title = some t ∨ (P.spec scr).text = some t) ∧
      renderTextSt P.cc {} t P.width = .ok st ∧ l ∈ st.buf := by
  unfold windowLines at h
  simp only [Except.map] at h
  split at h
  · cases h
  · next r hr =>
    simp only [Except.ok.injEq] at h
    subst h
    obtain ⟨tl, items', htl, hlen, hit, hlines⟩ := window_render_spec _ _ _ _ _ _ hr
    intro l hl
    rw [hlines] at hl
    rcases List.mem_append.mp hl with hl | hl
    · -- the title part
      unfold windowTitleLines at htl
      split at htl
      · next t ht =>
        cases hrt : renderTextSt P.cc {} t P.width with
        | error e => simp [hrt, Except.map] at htl
        | ok st =>
          simp only [hrt, Except.map, Except.ok.injEq] at htl
          subst htl
          rcases List.mem_append.mp hl with hl | hl
          · exact .inr ⟨t, st, .inl (truthy_some ht), hrt, hl⟩
          · exact .inl (List.mem_singleton.mp hl)
      · simp only [Except.ok.injEq] at htl
        subst htl; cases hl
    · -- the text
      obtain ⟨it', hit', hl⟩ := List.mem_flatMap.mp hl
      obtain ⟨i, hi, rfl⟩ := List.getElem_of_mem hit'
      cases htx : (P.spec scr).text with
      | none => simp only [htx, List.length_nil] at hlen; omega
      | some t =>
        simp only [htx] at hlen hit
        by_cases ht : t = []
        · simp only [ht, ↓reduceIte, List.length_nil] at hlen; omega
        · simp only [ht, if_false, List.length_singleton] at hlen hit
          have hi0 : i = 0 := by omega
          subst hi0
          have h0 := hit 0 (by simp) hi
          simp only [List.getElem_cons_zero] at h0
          rw [Wd.render] at h0
          cases hrt : renderTextSt P.cc {} t P.width with
          | error e => simp [hrt, bind, Except.bind] at h0
          | ok st =>
            simp only [hrt, bind, Except.bind, pure, Except.pure, Except.ok.injEq] at h0
            rw [← h0] at hl
            exact .inr ⟨t, st, .inr rfl, hrt, hl⟩

theorem spec_mem_of_ne (P : Prog) (scr : Nat) (h : (P.spec scr).title ≠ none ∨ (P.spec scr).text ≠ none ∨
    (P.spec scr).name ≠ []) : P.spec scr ∈ P.screens := by
  unfold Prog.spec at h ⊢
  rw [List.getD_eq_getElem?_getD] at h ⊢
  cases hg : P.screens[scr]? with
  | none => simp [hg] at h
  | some sp => simpa using List.mem_of_getElem? hg

/-- every line of a window has at most the configured width -/
theorem windowLines_width (P : Prog) (scr : Nat) (g : Grid) (h : windowLines P scr = .ok g) :
    ∀ l ∈ g, l.length ≤ P.width.toNat := by
  intro l hl
  rcases windowLines_spec P scr g h l hl with rfl | ⟨t, st, _, hr, hl⟩
  · exact Nat.zero_le _
  · exact render_width_int _ _ _ _ _ hr l hl

/-- every character of a window is a blank or a non-whitespace character of a title or a text -/
theorem windowLines_chars (P : Prog) (scr : Nat) (g : Grid) (h : windowLines P scr = .ok g) :
    ∀ l ∈ g, ∀ ch ∈ l, ch = ' ' ∨ (textChar P ch ∧ isWs6 ch = false) := by
  intro l hl ch hch
  rcases windowLines_spec P scr g h l hl with rfl | ⟨t, st, ht, hr, hl⟩
  · cases hch
  · rcases render_chars _ _ _ _ _ hr l hl ch hch with h1 | ⟨h1, h2⟩
    · exact .inl h1
    · refine .inr ⟨⟨P.spec scr, spec_mem_of_ne P scr ?_, ?_⟩, h2⟩
      · rcases ht with ht | ht
        · exact .inl (by simp [ht])
        · exact .inr (.inl (by simp [ht]))
      · rcases ht with ht | ht
        · exact .inl (by simp [ht, h1])
        · exact .inr (by simp [ht, h1])

theorem windowLines_no_nl (P : Prog) (scr : Nat) (g : Grid) (h : windowLines P scr = .ok g) :
    ∀ l ∈ g, '\n' ∉ l := by
  intro l hl hm
  rcases windowLines_chars P scr g h l hl _ hm with h1 | ⟨_, h1⟩
  · revert h1; decide
  · revert h1; decide

/-! ### trailing blanks -/

theorem stripTrail_length_le (l : Str) : (stripTrail l).length ≤ l.length := by
  unfold stripTrail
  rw [List.length_reverse]
  exact Nat.le_trans (List.dropWhile_sublist _).length_le (by simp)

theorem stripTrail_append_blank (l : Str) : stripTrail (l ++ [' ']) = stripTrail l := by
  simp [stripTrail]

theorem stripTrail_nil : stripTrail [] = [] := rfl

/-! ### the width clause for every normal chunk -/

theorem spacer_lines (w : Int) :
    splitOn '\n' (spacer w) = [List.replicate w.toNat '=', List.replicate w.toNat '=', []] := by
  have hn : '\n' ∉ List.replicate w.toNat '=' := by
    intro h; have := List.eq_of_mem_replicate h; revert this; decide
  unfold spacer
  rw [List.append_assoc, List.append_assoc, List.singleton_append, splitOn_append_sep _ _ _ hn,
    splitOn_append_sep _ _ _ hn]
  rfl

theorem spacer_ok (w : Int) : chunkLinesOK w.toNat (spacer w) := by
  intro l hl
  rw [spacer_lines] at hl
  have : l.length ≤ w.toNat := by
    simp only [List.mem_cons, List.not_mem_nil, or_false] at hl
    rcases hl with rfl | rfl | rfl <;> simp
  exact Nat.le_trans (stripTrail_length_le l) this

theorem lines_ok (P : Prog) (ls : List Str) (h : WindowLines P ls) :
    chunkLinesOK P.width.toNat (ls.flatMap fun l => l ++ ['\n']) := by
  obtain ⟨scr, g, hg, hls⟩ := h
  intro l hl
  rw [splitOn_flatMap_sep '\n' ls (fun x hx => windowLines_no_nl P scr g hg x (hls x hx))] at hl
  rcases List.mem_append.mp hl with hl | hl
  · exact Nat.le_trans (stripTrail_length_le l) (windowLines_width P scr g hg l (hls l hl))
  · rw [List.mem_singleton.mp hl]; exact Nat.zero_le _

theorem textPrompt_ok (cc : CharClass) (p : Str) (w : Int) :
    chunkLinesOK w.toNat (match textPrompt cc p w with | .ok s => s | .error _ => []) := by
  intro x hx
  cases h : textPrompt cc p w with
  | error e =>
    simp only [h, splitOn, List.mem_singleton] at hx
    subst hx; exact Nat.zero_le _
  | ok r =>
    simp only [h] at hx
    rcases textPrompt_lines cc p w r h x hx with rfl | ⟨l, hl, rfl | rfl⟩
    · rw [show stripTrail [' '] = [] from by decide]; exact Nat.zero_le _
    · exact Nat.le_trans (stripTrail_length_le _) hl
    · rw [stripTrail_append_blank]; exact Nat.le_trans (stripTrail_length_le _) hl

/-- every normal chunk satisfies the width clause — at every configured width -/
theorem normalChunk_linesOK {P : Prog} {ch : Str} (h : NormalChunk P ch) : chunkLinesOK P.width.toNat ch := by
  cases h with
  | separator => exact spacer_ok _
  | lines ls h => exact lines_ok P ls h
  | prompt => exact textPrompt_ok _ _ _
  | «continue» => exact textPrompt_ok _ _ _
  | msg => exact textPrompt_ok _ _ _

/-! ### the alphabet -/

theorem allowed_of_lit {P : Prog} {ch : Char} (h : ch = '\n' ∨ ch = ' ' ∨ ch ∈ frameworkLiterals.flatten) :
    allowed P ch := by
  rcases h with h | h | h
  · exact .inl h
  · exact .inr (.inl h)
  · exact .inr (.inr (.inr (.inl h)))

theorem defaultPrompt_lit : ∀ ch ∈ defaultPrompt.str, ch = '\n' ∨ ch = ' ' ∨ ch ∈ frameworkLiterals.flatten := by
  decide

theorem contPrompt_lit : ∀ ch ∈ contPrompt.str, ch = '\n' ∨ ch = ' ' ∨ ch ∈ frameworkLiterals.flatten := by
  decide

theorem msgPrompt_lit : ∀ ch ∈ msgPrompt, ch = '\n' ∨ ch = ' ' ∨ ch ∈ frameworkLiterals.flatten := by
  decide

theorem textPrompt_allowed (P : Prog) (p : Str)
    (hp : ∀ ch ∈ p, ch = '\n' ∨ ch = ' ' ∨ ch ∈ frameworkLiterals.flatten) :
    ∀ ch ∈ (match textPrompt P.cc p P.width with | .ok s => s | .error _ => []), allowed P ch := by
  intro ch hch
  cases h : textPrompt P.cc p P.width with
  | error e => simp [h] at hch
  | ok r =>
    simp only [h] at hch
    rcases textPrompt_chars _ _ _ _ h ch hch with h1 | h1 | ⟨h1, _⟩
    · exact .inl h1
    · exact .inr (.inl h1)
    · exact allowed_of_lit (hp ch h1)

theorem spacer_chars (w : Int) : ∀ ch ∈ spacer w, ch = '\n' ∨ ch = '=' := by
  intro ch h
  simp only [spacer, List.mem_append, List.mem_singleton] at h
  rcases h with ((h | h) | h) | h
  · exact .inr (List.eq_of_mem_replicate h)
  · exact .inl h
  · exact .inr (List.eq_of_mem_replicate h)
  · exact .inl h

/-- every character of a normal chunk is allowed; in particular a character of the application gets
there only from a title or a text and only if it is not one of `'\t' '\n' '\x0b' '\x0c' '\r' ' '` -/
theorem normalChunk_chars {P : Prog} {chunk : Str} (h : NormalChunk P chunk) :
    ∀ ch ∈ chunk, ch = '\n' ∨ ch = ' ' ∨ ch = '=' ∨ ch ∈ frameworkLiterals.flatten ∨
      (textChar P ch ∧ isWs6 ch = false) := by
  cases h with
  | separator =>
    intro ch hch
    rcases spacer_chars _ ch hch with h | h
    · exact .inl h
    · exact .inr (.inr (.inl h))
  | lines ls h =>
    obtain ⟨scr, g, hg, hls⟩ := h
    intro ch hch
    obtain ⟨l, hl, hch⟩ := List.mem_flatMap.mp hch
    rcases List.mem_append.mp hch with hch | hch
    · rcases windowLines_chars P scr g hg l (hls l hl) ch hch with h1 | h1
      · exact .inr (.inl h1)
      · exact .inr (.inr (.inr (.inr h1)))
    · exact .inl (List.mem_singleton.mp hch)
  | prompt =>
    intro ch hch
    cases h : textPrompt P.cc defaultPrompt.str P.width with
    | error e => simp [promptText, h] at hch
    | ok r =>
      simp only [promptText, h] at hch
      rcases textPrompt_chars _ _ _ _ h ch hch with h1 | h1 | ⟨h1, _⟩
      · exact .inl h1
      · exact .inr (.inl h1)
      · rcases defaultPrompt_lit ch h1 with h2 | h2 | h2
        · exact .inl h2
        · exact .inr (.inl h2)
        · exact .inr (.inr (.inr (.inl h2)))
  | «continue» =>
    intro ch hch
    cases h : textPrompt P.cc contPrompt.str P.width with
    | error e => simp [promptText, h] at hch
    | ok r =>
      simp only [promptText, h] at hch
      rcases textPrompt_chars _ _ _ _ h ch hch with h1 | h1 | ⟨h1, _⟩
      · exact .inl h1
      · exact .inr (.inl h1)
      · rcases contPrompt_lit ch h1 with h2 | h2 | h2
        · exact .inl h2
        · exact .inr (.inl h2)
        · exact .inr (.inr (.inr (.inl h2)))
  | msg =>
    intro ch hch
    cases h : textPrompt P.cc msgPrompt P.width with
    | error e => simp [msgText, h] at hch
    | ok r =>
      simp only [msgText, h] at hch
      rcases textPrompt_chars _ _ _ _ h ch hch with h1 | h1 | ⟨h1, _⟩
      · exact .inl h1
      · exact .inr (.inl h1)
      · rcases msgPrompt_lit ch h1 with h2 | h2 | h2
        · exact .inl h2
        · exact .inr (.inl h2)
        · exact .inr (.inr (.inr (.inl h2)))

theorem normalChunk_allowed {P : Prog} {chunk : Str} (h : NormalChunk P chunk) :
    ∀ ch ∈ chunk, allowed P ch := by
  intro ch hch
  rcases normalChunk_chars h ch hch with h | h | h | h | h
  · exact .inl h
  · exact .inr (.inl h)
  · exact .inr (.inr (.inl h))
  · exact .inr (.inr (.inr (.inl h)))
  · exact .inr (.inr (.inr (.inr (.inr h))))

/-! ### the crash dump -/

theorem digitChar_lit : ∀ d, d < 10 → digitChar d ∈ "0123456789".toList := by decide

theorem natDigits_lit (n : Nat) : ∀ ch ∈ natDigits n, ch ∈ "0123456789".toList := by
  induction n using natDigits.induct with
  | case1 n h =>
    intro ch hch
    rw [natDigits, if_pos h] at hch
    rw [List.mem_singleton.mp hch]
    exact digitChar_lit n h
  | case2 n h ih =>
    intro ch hch
    rw [natDigits, if_neg h] at hch
    rcases List.mem_append.mp hch with hch | hch
    · exact ih ch hch
    · rw [List.mem_singleton.mp hch]
      exact digitChar_lit _ (Nat.mod_lt _ (by omega))

theorem digits_lit : ∀ ch ∈ "0123456789".toList, ch ∈ frameworkLiterals.flatten := by decide

/-- the characters of the crash dump: literals of the framework and the screen names as they are -/
theorem dumpStack_chars (P : Prog) (stack : List Entry) :
    ∀ ch ∈ dumpStack P stack, ch = '\n' ∨ ch ∈ frameworkLiterals.flatten ∨ nameChar P ch := by
  have hhead : ∀ ch ∈ "======= Screen stack =======\n----------- TOP ------------\n".toList,
      ch = '\n' ∨ ch = ' ' ∨ ch ∈ frameworkLiterals.flatten := by decide
  have hsp : ' ' ∈ frameworkLiterals.flatten := by decide
  have hfoot : ∀ ch ∈ "============================\n".toList,
      ch = '\n' ∨ ch ∈ frameworkLiterals.flatten := by decide
  have h1 : ∀ ch ∈ "ScreenData(".toList, ch ∈ frameworkLiterals.flatten := by decide
  have h2 : ∀ ch ∈ "None".toList, ch ∈ frameworkLiterals.flatten := by decide
  have h3 : ∀ ch ∈ "True".toList, ch ∈ frameworkLiterals.flatten := by decide
  have h4 : ∀ ch ∈ "False".toList, ch ∈ frameworkLiterals.flatten := by decide
  have h5 : ∀ ch ∈ ")\n".toList, ch = '\n' ∨ ch ∈ frameworkLiterals.flatten := by decide
  have h6 : ',' ∈ frameworkLiterals.flatten := by decide
  intro ch hch
  unfold dumpStack at hch
  rcases List.mem_append.mp hch with hch | hch
  · rcases List.mem_append.mp hch with hch | hch
    · rcases hhead ch hch with h | h | h
      · exact .inl h
      · exact .inr (.inl (h ▸ hsp))
      · exact .inr (.inl h)
    · obtain ⟨e, _, hch⟩ := List.mem_flatMap.mp hch
      simp only [List.mem_append, List.mem_singleton] at hch
      rcases hch with (((((hch | hch) | hch) | hch) | hch) | hch) | hch
      · exact .inr (.inl (h1 ch hch))
      · refine .inr (.inr ⟨P.spec e.screen, spec_mem_of_ne P e.screen (.inr (.inr ?_)), hch⟩)
        intro h0; rw [h0] at hch; cases hch
      · exact .inr (.inl (hch ▸ h6))
      · split at hch
        · exact .inr (.inl (digits_lit ch (natDigits_lit _ ch hch)))
        · exact .inr (.inl (h2 ch hch))
      · exact .inr (.inl (hch ▸ h6))
      · split at hch
        · exact .inr (.inl (h3 ch hch))
        · exact .inr (.inl (h4 ch hch))
      · rcases h5 ch hch with h | h
        · exact .inl h
        · exact .inr (.inl h)
  · rcases hfoot ch hch with h | h
    · exact .inl h
    · exact .inr (.inl h)

theorem killChunks_chars (P : Prog) (stack : List Entry) :
    ∀ chunk ∈ killChunks P stack, ∀ ch ∈ chunk, ch = '\n' ∨ ch ∈ frameworkLiterals.flatten ∨ nameChar P ch := by
  intro chunk hc ch hch
  simp only [killChunks, List.mem_cons, List.not_mem_nil, or_false] at hc
  rcases hc with rfl | rfl
  · exact .inl (List.mem_singleton.mp hch)
  · rcases List.mem_append.mp hch with hch | hch
    · exact dumpStack_chars P stack ch hch
    · exact .inl (List.mem_singleton.mp hch)

end Simpleline.Output
