/-
  From the step summaries and the invariants to statements about transitions (`Trans`, `newTr`,
  `newLog`): the lemmas the property theorems of C04 refer to.
-/
import Simpleline.Lemmas.SchedHead
import Simpleline.Lemmas.SchedClosed
import Simpleline.Lemmas.SchedInput

namespace Simpleline
set_option linter.unusedSimpArgs false

/-! ### transitions: what was added to the trace and the log -/

theorem StepTo.eq {P : Prog} {c c' : Cfg} (h : StepTo P c c') : c' = sOutCfg (step P c) := by
  rcases h with h | ⟨o, h⟩
  · exact sOutCfg_of_ok h
  · exact sOutCfg_of_error h

theorem Trans.cases {P : Prog} {c c' : Cfg} (h : Trans P c c') : StepTo P c c' ∨ c.deliver = some c' := by
  cases h with
  | step h => exact .inl (.inl h)
  | deliver h => exact .inr h
  | halt h => exact .inl (.inr ⟨_, h⟩)

theorem tr_grows_of_suffix {c c' : Cfg} (h : c.tr <:+ c'.tr) : c'.tr = newTr c c' ++ c.tr := by
  obtain ⟨t, ht⟩ := h
  rw [newTr, ← ht]; simp

theorem log_grows_of_suffix {c c' : Cfg} (h : c.log <:+ c'.log) : c'.log = newLog c c' ++ c.log := by
  obtain ⟨t, ht⟩ := h
  rw [newLog, ← ht]; simp

theorem Trans.tr_grows {P : Prog} {c c' : Cfg} (h : Trans P c c') : c'.tr = newTr c c' ++ c.tr := by
  have : c.tr <:+ c'.tr := by
    rcases Trans_cases h with rfl | rfl
    · exact (step_grow P c).1
    · exact dlv_tr_suffix c
  obtain ⟨t, ht⟩ := this
  rw [newTr, ← ht]; simp

theorem Trans.log_grows {P : Prog} {c c' : Cfg} (h : Trans P c c') : c'.log = newLog c c' ++ c.log := by
  have : c.log <:+ c'.log := by
    rcases Trans_cases h with rfl | rfl
    · exact (step_grow P c).2
    · exact dlv_log_suffix c
  obtain ⟨t, ht⟩ := this
  rw [newLog, ← ht]; simp

/-- the scheduler events a machine step adds -/
theorem StepTo.schedTr_new {P : Prog} {c c' : Cfg} (h : StepTo P c c') : schedTr (newTr c c') = c.schedEvs := by
  have ht : Trans P c c' := by
    rcases h with h | ⟨o, h⟩
    · exact .step h
    · exact .halt h
  have h1 := ht.tr_grows
  have h2 := (step_stack P c).2
  rw [← h.eq, h1, schedTr_append] at h2
  exact List.append_cancel_right h2

/-- the callback events a machine step adds -/
theorem StepTo.cbLog_new {P : Prog} {c c' : Cfg} (h : StepTo P c c') : cbLog (newLog c c') = c.cbEvs := by
  have ht : Trans P c c' := by
    rcases h with h | ⟨o, h⟩
    · exact .step h
    · exact .halt h
  have h1 := ht.log_grows
  have h2 := (step_screens P c).2
  rw [← h.eq, h1] at h2
  simp only [cbLog, List.filter_append] at h2 ⊢
  exact List.append_cancel_right h2

theorem deliver_schedTr_new {c c' : Cfg} (h : c.deliver = some c') : schedTr (newTr c c') = [] := by
  have h1 : c'.tr = newTr c c' ++ c.tr := tr_grows_of_suffix (deliver_eq_dlv h ▸ dlv_tr_suffix c)
  have h2 := dlv_schedTr c
  rw [← deliver_eq_dlv h, h1, schedTr_append] at h2
  simpa using h2

theorem deliver_cbLog_new {c c' : Cfg} (h : c.deliver = some c') : cbLog (newLog c c') = [] := by
  have h1 : c'.log = newLog c c' ++ c.log := log_grows_of_suffix (deliver_eq_dlv h ▸ dlv_log_suffix c)
  have h2 := dlv_cbLog c
  rw [← deliver_eq_dlv h, h1] at h2
  simp only [cbLog, List.filter_append] at h2 ⊢
  simpa using h2

theorem mem_schedTr {t : Tr} {l : List Tr} (ht : t.isSched = true) : t ∈ schedTr l ↔ t ∈ l := by
  simp [schedTr, ht]

theorem filter_stackOp_schedTr (l : List Tr) : (schedTr l).filter Tr.isStackOp = l.filter Tr.isStackOp := by
  unfold schedTr
  rw [List.filter_filter]
  congr 1
  funext t
  cases t <;> rfl


/-! ### C04 -/

theorem schedEvs_stackOps (c : Cfg) :
    c.schedEvs.filter Tr.isStackOp =
      match c.stackOp with
      | none => []
      | some op =>
        match op.apply c.A.nextEid c.A.stack with
        | some s' => [.stackOp op.name s']
        | none => [] := by
  unfold Cfg.schedEvs
  split
  · rename_i hc; simp [Cfg.stackOp, hc]
  · rename_i hc; simp [Cfg.stackOp, hc]
  · cases c.stackOp with
    | none => simp
    | some op => simp only []; cases op.apply c.A.nextEid c.A.stack <;> simp

theorem ops_of_stepTo {P : Prog} {c c' : Cfg} (h : StepTo P c c') :
    match c.stackOp with
    | none => c'.A.stack = c.A.stack ∧ c'.A.nextEid = c.A.nextEid ∧ (newTr c c').filter Tr.isStackOp = []
    | some op =>
      match op.apply c.A.nextEid c.A.stack with
      | some s' =>
        c'.A.stack = s' ∧ c'.A.nextEid = (if op.creates then c.A.nextEid + 1 else c.A.nextEid) ∧
          (newTr c c').filter Tr.isStackOp = [.stackOp op.name s']
      | none => c'.A.stack = c.A.stack ∧ c'.A.nextEid = c.A.nextEid ∧ (newTr c c').filter Tr.isStackOp = [] := by
  have h1 := (step_stack P c).1
  rw [← h.eq, Prod.ext_iff] at h1
  have h2 : (newTr c c').filter Tr.isStackOp = c.schedEvs.filter Tr.isStackOp := by
    rw [← filter_stackOp_schedTr, h.schedTr_new]
  rw [schedEvs_stackOps] at h2
  unfold Cfg.stackAfter at h1
  cases hop : c.stackOp with
  | none => simp only [hop] at h1 h2 ⊢; exact ⟨h1.1, h1.2, h2⟩
  | some op =>
    simp only [hop] at h1 h2 ⊢
    cases happ : op.apply c.A.nextEid c.A.stack with
    | none => simp only [happ] at h1 h2 ⊢; exact ⟨h1.1, h1.2, h2⟩
    | some s' => simp only [happ] at h1 h2 ⊢; exact ⟨h1.1, h1.2, h2⟩

theorem deliver_stack {c c' : Cfg} (h : c.deliver = some c') :
    c'.A.stack = c.A.stack ∧ c'.A.nextEid = c.A.nextEid ∧ c'.code = c.code ∧ schedTr (newTr c c') = [] := by
  refine ⟨?_, ?_, ?_, deliver_schedTr_new h⟩ <;> rw [deliver_eq_dlv h] <;> simp


theorem beneath_of_trans {P : Prog} {c c' : Cfg} (h : Trans P c c') :
    (c'.A.stack = c.A.stack ∧ c'.A.nextEid = c.A.nextEid) ∨
    (∃ e, e.eid = c.A.nextEid ∧ e.modal = false ∧ c'.A.stack = e :: c.A.stack ∧ c'.A.nextEid = c.A.nextEid + 1) ∨
    (∃ e, e.eid = c.A.nextEid ∧ c'.A.stack = c.A.stack ++ [e] ∧ c'.A.nextEid = c.A.nextEid + 1) ∨
    (∃ e old, c.A.stack.getLast? = some old ∧ e.eid = c.A.nextEid ∧ e.modal = old.modal ∧
      c'.A.stack = c.A.stack.dropLast ++ [e] ∧ c'.A.nextEid = c.A.nextEid + 1) ∨
    (c.A.stack ≠ [] ∧ c'.A.stack = c.A.stack.dropLast ∧ c'.A.nextEid = c.A.nextEid) := by
  rcases h.cases with h | h
  · have h1 := (step_stack P c).1
    rw [← h.eq, Prod.ext_iff] at h1
    obtain ⟨h1, h2⟩ := h1
    simp only at h1 h2
    rcases stackAfter_cases c with h' | ⟨e, he, hm, h'⟩ | ⟨e, he, h'⟩ | ⟨e, old, ho, he, hm, h'⟩ | ⟨hne, h'⟩ <;>
      rw [h'] at h1 h2
    · exact .inl ⟨h1, h2⟩
    · exact .inr (.inl ⟨e, he, hm, h1, h2⟩)
    · exact .inr (.inr (.inl ⟨e, he, h1, h2⟩))
    · exact .inr (.inr (.inr (.inl ⟨e, old, ho, he, hm, h1, h2⟩)))
    · exact .inr (.inr (.inr (.inr ⟨hne, h1, h2⟩)))
  · exact .inl ⟨(deliver_stack h).1, (deliver_stack h).2.1⟩

theorem show_mem_schedEvs {c : Cfg} {e : Entry} (h : .show e ∈ c.schedEvs) : ∃ rest, c.code = .drawScreen e :: rest := by
  rcases schedEvs_cases c with h' | ⟨top, rest, _, h'⟩ | ⟨top, rest, hc, h'⟩ | ⟨w, s, h'⟩ <;> rw [h'] at h <;> simp at h
  subst h
  exact ⟨rest, hc⟩

theorem refresh_mem_schedEvs {c : Cfg} {e : Entry} (h : .refresh e ∈ c.schedEvs) :
    ∃ rest, c.code = .afterSetup2 e :: rest := by
  rcases schedEvs_cases c with h' | ⟨top, rest, hc, h'⟩ | ⟨top, rest, _, h'⟩ | ⟨w, s, h'⟩ <;> rw [h'] at h <;> simp at h
  subst h
  exact ⟨rest, hc⟩

/-- a transition that adds a scheduler event `t` is a machine step whose scheduler events contain `t` -/
theorem sched_new_of_trans {P : Prog} {c c' : Cfg} (h : Trans P c c') {t : Tr} (ht : t.isSched = true)
    (hm : t ∈ newTr c c') : StepTo P c c' ∧ t ∈ c.schedEvs := by
  have hm' := (mem_schedTr ht).2 hm
  rcases h.cases with h | h
  · exact ⟨h, h.schedTr_new ▸ hm'⟩
  · rw [deliver_schedTr_new h] at hm'; simp at hm'

theorem draws_top {P : Prog} {c0 c c' : Cfg} (h0 : Started c0) (hr : Reach P c0 c) (h : Trans P c c') {e : Entry}
    (hm : .show e ∈ newTr c c') :
    (∃ rest, c.code = .drawScreen e :: rest) ∧ c.A.stack.getLast? = some e ∧ c'.A.stack = c.A.stack := by
  obtain ⟨hs, hm⟩ := sched_new_of_trans h rfl hm
  obtain ⟨rest, hc⟩ := show_mem_schedEvs hm
  refine ⟨⟨rest, hc⟩, (hr.headInv h0).draw e (by simp [hc]), ?_⟩
  have := ops_of_stepTo hs
  simp only [Cfg.stackOp, hc] at this
  exact this.1

theorem refresh_step {P : Prog} {c c' : Cfg} (h : Trans P c c') {e : Entry} (hm : .refresh e ∈ newTr c c') :
    StepTo P c c' ∧ ∃ rest, c.code = .afterSetup2 e :: rest := by
  obtain ⟨hs, hm⟩ := sched_new_of_trans h rfl hm
  exact ⟨hs, refresh_mem_schedEvs hm⟩

theorem refresh_top_ready {P : Prog} {c0 c c1 c2 : Cfg} (h0 : Started c0) (hr : Reach P c0 c) (h1 : Trans P c c1)
    (h2 : Trans P c1 c2) (hps : c.code.head? = some .processScreen) {e : Entry} (he : .refresh e ∈ newTr c1 c2) :
    c.A.stack.getLast? = some e ∧ (c.A.scr e.screen).ready = true ∧ c1.A.stack = c.A.stack := by
  obtain ⟨_, rest1, hc1⟩ := refresh_step h2 he
  rcases hcode : c.code with _ | ⟨ins, rest⟩
  · simp [hcode] at hps
  · simp [hcode] at hps
    subst hps
    rcases h1.cases with h1 | h1
    · have := head_imm_after (hr.imm h0) hcode (i := .afterSetup2 e) (by rw [← h1.eq, hc1]; rfl) rfl
      simp only [ImmPushedBy, reduceCtorEq, and_false, exists_false, false_or, or_false, exists_const,
        Instr.afterSetup2.injEq, false_and, true_and] at this
      obtain ⟨top, ht, hrd, rfl⟩ := this
      have hs := ops_of_stepTo h1
      simp only [Cfg.stackOp, hcode] at hs
      exact ⟨ht, hrd, hs.1⟩
    · have := (deliver_stack h1).2.2.1
      rw [hc1, hcode] at this
      cases this

/-! the current stack is the one recorded by the newest stack operation -/

theorem lastStack_eq (l : List Tr) :
    lastStack l = match (l.filter Tr.isStackOp).head? with | some (.stackOp _ s) => s | _ => [] := by
  induction l with
  | nil => rfl
  | cons t l ih => cases t <;> simp [lastStack, Tr.isStackOp, List.filter_cons, ih]

theorem stack_eq_lastStack {P : Prog} {c0 c : Cfg} (h0 : Started c0) (hr : Reach P c0 c) : c.A.stack = lastStack c.tr := by
  induction hr with
  | init =>
    obtain ⟨init, handlers, quitCb, stdin, rfl⟩ := h0
    simp [initCfg, lastStack]
  | @step c c' _ hs ih =>
    have ht : Trans P c c' := .step hs
    have := ops_of_stepTo (.inl hs : StepTo P c c')
    rw [lastStack_eq, ht.tr_grows, List.filter_append]
    rw [lastStack_eq] at ih
    cases hop : c.stackOp with
    | none => simp only [hop] at this; rw [this.2.2, this.1]; simpa using ih
    | some op =>
      simp only [hop] at this
      cases happ : op.apply c.A.nextEid c.A.stack with
      | none => simp only [happ] at this; rw [this.2.2, this.1]; simpa using ih
      | some s' => simp only [happ] at this; rw [this.2.2, this.1]; simp
  | @deliver c c' _ hd ih =>
    have h1 : c'.tr = newTr c c' ++ c.tr := tr_grows_of_suffix (deliver_eq_dlv hd ▸ dlv_tr_suffix c)
    have h2 := deliver_schedTr_new hd
    have h3 : (newTr c c').filter Tr.isStackOp = [] := by rw [← filter_stackOp_schedTr, h2]; rfl
    rw [(deliver_stack hd).1, ih, lastStack_eq, lastStack_eq, h1, List.filter_append, h3]; rfl
  | @halt c c' o _ hs ih =>
    have ht : Trans P c c' := .halt hs
    have := ops_of_stepTo (.inr ⟨o, hs⟩ : StepTo P c c')
    rw [lastStack_eq, ht.tr_grows, List.filter_append]
    rw [lastStack_eq] at ih
    cases hop : c.stackOp with
    | none => simp only [hop] at this; rw [this.2.2, this.1]; simpa using ih
    | some op =>
      simp only [hop] at this
      cases happ : op.apply c.A.nextEid c.A.stack with
      | none => simp only [happ] at this; rw [this.2.2, this.1]; simpa using ih
      | some s' => simp only [happ] at this; rw [this.2.2, this.1]; simp


/-! ### the stack runs empty -/

theorem step_empty_exit (P : Prog) (c : Cfg) (rest : List Instr) (hs : c.A.stack = [])
    (hc : c.code = .processScreen :: rest ∨ (∃ top, c.code = .identCheck top :: rest) ∨
      (∃ e, c.code = .closeScreen3 e :: rest) ∨ (∃ e, c.code = .afterSetupFail e :: rest)) :
    step P c = ({ c with code := rest } : Cfg).raise .exit := by
  rcases hc with hc | ⟨top, hc⟩ | ⟨e, hc⟩ | ⟨e, hc⟩ <;> simp [step, hc, hs]

theorem step_empty_refused (P : Prog) (c : Cfg) (rest : List Instr) (hs : c.A.stack = [])
    (hc : (∃ frm, c.code = .closeScreen frm :: rest) ∨ (∃ scr args, c.code = .act (.replace scr args) :: rest) ∨
      (∃ top, c.code = .afterSetup top :: rest ∧ c.retSetup = false)) :
    step P c = ({ c with code := rest } : Cfg).raise .err := by
  rcases hc with ⟨frm, hc⟩ | ⟨scr, args, hc⟩ | ⟨top, hc, hr⟩
  · simp [step, hc, hs]
  · simp [step, doAct, hc, hs]
  · simp [step, hc, hs, hr]

/-- what raising `ExitMainLoop` does: the trace records it; the nearest `except ExitMainLoop` (of
`run()`) takes over, or, without one, the run ends with the exception -/
theorem raise_exit_cases (c : Cfg) :
    (∃ pre rest, c.code = pre ++ .catchExit :: rest ∧ (∀ i ∈ pre, i.catches .exit = false) ∧
      c.raise .exit = .ok { (c.trace .exit) with code := rest }) ∨
    ((∀ i ∈ c.code, i.catches .exit = false) ∧
      c.raise .exit = .error (.raised "exit", { (c.trace .exit) with code := [] })) := by
  by_cases h : ∀ i ∈ c.code, i.catches .exit = false
  · exact .inr ⟨h, by rw [raise_exit_eq]; exact unwind_exit_uncaught _ _ h⟩
  · left
    -- split the code at the first catcher
    have : ∃ pre rest, c.code = pre ++ .catchExit :: rest ∧ ∀ i ∈ pre, i.catches .exit = false := by
      generalize c.code = code at h
      induction code with
      | nil => simp at h
      | cons i code ih =>
        by_cases hi : i.catches .exit = true
        · refine ⟨[], code, ?_, by simp⟩
          cases i <;> simp [Instr.catches] at hi
          rfl
        · have : ¬ ∀ j ∈ code, j.catches .exit = false := by
            intro hall
            apply h
            intro j hj
            simp at hj
            rcases hj with rfl | hj
            · simpa using hi
            · exact hall j hj
          obtain ⟨pre, rest, h1, h2⟩ := ih this
          refine ⟨i :: pre, rest, by simp [h1], ?_⟩
          intro j hj
          simp at hj
          rcases hj with rfl | hj
          · simpa using hi
          · exact h2 j hj
    obtain ⟨pre, rest, h1, h2⟩ := this
    refine ⟨pre, rest, h1, h2, ?_⟩
    rw [raise_exit_eq]
    show unwind .exit c.code (c.trace .exit) = _
    rw [h1]
    exact unwind_exit_catch pre rest _ h2

end Simpleline

namespace Simpleline

/-! ### concrete runs are executions -/

theorem reach_runFuel {P : Prog} {c0 c : Cfg} (n : Nat) (h : Reach P c0 c) : Reach P c0 (runFuel P n c).1 := by
  induction n generalizing c with
  | zero => exact h
  | succ n ih =>
    unfold runFuel
    split
    · rename_i c' hs; exact ih (.step h hs)
    · rename_i o c' hs; exact .halt h hs

theorem started_initCfg (init : List Act) (handlers : List (Cls × HRef × Option Nat)) (quitCb : Option Nat)
    (stdin : List Str) : Started (initCfg init handlers quitCb stdin) := ⟨_, _, _, _, rfl⟩

end Simpleline

namespace Simpleline

/-! ### on the trace alone: what is drawn is the top of the recorded stack -/

/-- in a trace (newest first), every drawn entry is the top of the stack recorded by the newest stack
operation before the draw -/
def DrawnTop : List Tr → Prop
  | [] => True
  | .show e :: l => (lastStack l).getLast? = some e ∧ DrawnTop l
  | _ :: l => DrawnTop l

theorem lastStack_schedTr (l : List Tr) : lastStack (schedTr l) = lastStack l := by
  induction l with
  | nil => rfl
  | cons t l ih => cases t <;> simp [lastStack, ih]

theorem DrawnTop_append_right {a b : List Tr} (h : DrawnTop (a ++ b)) : DrawnTop b := by
  induction a with
  | nil => exact h
  | cons t a ih =>
    cases t <;> simp only [List.cons_append, DrawnTop] at h <;> first | exact ih h | exact ih h.2

theorem DrawnTop_step {P : Prog} {c0 c : Cfg} (h0 : Started c0) (hr : Reach P c0 c) (h : DrawnTop (schedTr c.tr)) :
    DrawnTop (schedTr (sOutCfg (step P c)).tr) := by
  rw [(step_stack P c).2]
  rcases schedEvs_cases c with h' | ⟨top, rest, _, h'⟩ | ⟨top, rest, hc, h'⟩ | ⟨w, s, h'⟩ <;> rw [h']
  · exact h
  · exact h
  · refine ⟨?_, h⟩
    show (lastStack (schedTr c.tr)).getLast? = some top
    rw [lastStack_schedTr, ← stack_eq_lastStack h0 hr]
    exact (hr.headInv h0).draw top (by simp [hc])
  · exact h

theorem Reach.drawnTop {P : Prog} {c0 c : Cfg} (h0 : Started c0) (h : Reach P c0 c) : DrawnTop (schedTr c.tr) := by
  refine h.induct (I := fun c => DrawnTop (schedTr c.tr)) ?_ (fun _ hr hI => DrawnTop_step h0 hr hI)
    (fun _ _ hI => by simpa using hI)
  obtain ⟨init, handlers, quitCb, stdin, rfl⟩ := h0
  simp [initCfg, DrawnTop]

theorem drawn_is_recorded_top {P : Prog} {c0 c : Cfg} (h0 : Started c0) (hr : Reach P c0 c) {e : Entry}
    {l1 l2 : List Tr} (h : c.tr = l1 ++ .show e :: l2) : (lastStack l2).getLast? = some e := by
  have hs := hr.drawnTop h0
  rw [h, schedTr_append] at hs
  have := DrawnTop_append_right hs
  simp only [schedTr_cons, Tr.isSched_show, if_true, DrawnTop] at this
  rw [← lastStack_schedTr]
  exact this.1

end Simpleline
