/-
  Lemmas the property theorems of C07 refer to: the one follow-up action of an answer, the quit
  dialog, the rejections counter, exceptions inside `process_input`, the chain from the answer to the
  action.
-/
import Simpleline.Lemmas.SchedBridge

namespace Simpleline
set_option linter.unusedSimpArgs false

/-! ### C07: one follow-up action -/

theorem one_action {P : Prog} {c : Cfg} {scr : Nat} {rest : List Instr} {top : Entry}
    (hc : c.code = .countAndAct scr :: rest) (ht : c.A.stack.getLast? = some top) :
    match c.retAction with
    | .noop => ∃ c', step P c = .ok c' ∧ InputOutcome c c' scr [] 0
    | .redraw => ∃ c', step P c = .ok c' ∧ InputOutcome c c' scr [] 1
    | .close => ∃ c', step P c = .ok c' ∧ InputOutcome c c' scr [.closeScreen none] 0
    | .quit =>
      match P.quitScreen with
      | none => step P c = (c.counted scr rest).raise .exit
      | some q => ∃ c', step P c = .ok c' ∧ InputOutcome c c' scr [.pushModal q none, .afterQuit q] 0
    | .error =>
      if ((c.A.scr scr).err + 1) % 5 = 0 then ∃ c', step P c = .ok c' ∧ InputOutcome c c' scr [] 1
      else ∃ c', step P c = .ok c' ∧ InputOutcome c c' scr [.getInput top.screen top.args] 0 := by
  have h := step_countAndAct P c scr rest top hc ht
  have ho := counted_outcome c scr rest hc
  cases ha : c.retAction <;> simp only [ha] at h ⊢
  · split
    · rw [if_pos ‹_›] at h; exact ⟨_, h, ho.redraw⟩
    · rw [if_neg ‹_›] at h; exact ⟨_, h, ho.push _⟩
  · exact ⟨_, h, ho⟩
  · exact ⟨_, h, ho.redraw⟩
  · exact ⟨_, h, ho.push _⟩
  · cases hq : P.quitScreen <;> simp only [hq] at h ⊢
    · exact h
    · exact ⟨_, h, ho.push _⟩

theorem quit_dialog {P : Prog} {c : Cfg} {q : Nat} {rest : List Instr} (hc : c.code = .afterQuit q :: rest) :
    if (P.spec q).answer = none ∨ (P.spec q).answer = some (some true) then
      step P c = ({ c with code := rest } : Cfg).raise .exit
    else
      ∃ c' t, step P c = .ok c' ∧ c'.code = rest ∧ c'.A = c.A ∧ c'.log = c.log ∧ c'.tr = t :: c.tr ∧ t.isRedraw = true := by
  have h := step_afterQuit P c q rest hc
  split
  · rw [if_pos ‹_›] at h; exact h
  · rw [if_neg ‹_›] at h
    exact ⟨_, _, h, by simp, by simp, by simp, by simp; rfl, by simp [enqEv_isRedraw, renderSig]⟩

/-! ### C07: the counter -/

theorem err_after {P : Prog} {c c' : Cfg} (h : StepTo P c c') (s : Nat) : (c'.A.scr s).err = c.errAfter s := by
  rw [h.eq, (step_screens P c).1]
  unfold Cfg.scrAfter Cfg.errAfter
  split
  · rename_i heq; rw [heq]; split <;> simp_all
  · rename_i heq; rw [heq]; split <;> simp_all
  · rename_i heq; rw [heq]; simp only []; split <;> split <;> simp_all
  · rename_i heq; rw [heq]; simp only []; split <;> simp_all
  · split <;> simp_all

/-! ### C07: exceptions inside `process_input`, and the chain from the answer to the action -/

theorem Shape.catchPI_follow {pre post : List Instr} {scr : Nat} (h : Shape (pre ++ .catchPI scr :: post)) :
    ∃ rest, post = .countAndAct scr :: .endPI :: rest := by
  obtain ⟨j, r, rfl, hj⟩ := h.at (i := .catchPI scr) rfl
  simp only [Instr.needs] at hj
  subst hj
  have h' : Shape ((pre ++ [.catchPI scr]) ++ .countAndAct scr :: r) := by simpa using h
  obtain ⟨j, r', rfl, hj⟩ := h'.at (i := .countAndAct scr) rfl
  simp only [Instr.needs] at hj
  subst hj
  exact ⟨r', rfl⟩

theorem exception_in_input {P : Prog} {c0 c : Cfg} (h0 : Started c0) (hr : Reach P c0 c) {ins : Instr}
    {pre post : List Instr} {scr : Nat} (hc : c.code = ins :: (pre ++ .catchPI scr :: post))
    (hpre : ∀ i ∈ pre, i.catches .err = false) (c1 : Cfg) (hc1 : c1.code = pre ++ .catchPI scr :: post) :
    ∃ rest c' t, post = .countAndAct scr :: .endPI :: rest ∧ c1.raise .err = .ok c' ∧ c'.code = rest ∧
      c'.A = c1.A ∧ c'.log = c1.log ∧ c'.tr = t :: c1.tr ∧ t.isExcFrom (.im scr) = true := by
  have hs := hr.shape h0
  rw [hc] at hs
  obtain ⟨rest, rfl⟩ := Shape.catchPI_follow (pre := ins :: pre) (by simpa using hs)
  refine ⟨rest, { (({ c1 with nextSid := c1.nextSid + 1 } : Cfg).enqueue (excSig c1 (.im scr))) with code := rest },
    enqEv c1.L (excSig c1 (.im scr)), rfl, ?_, rfl, ?_, ?_, ?_, ?_⟩
  · have h := unwind_err_catchPI pre scr rest c1 hpre
    rw [← hc1] at h
    exact h
  · simp
  · simp
  · simp
  · simp [enqEv_isExcFrom, excSig]

theorem answer_decides {P : Prog} {c0 c : Cfg} (h0 : Started c0) (hr : Reach P c0 c) {scr : Nat} {ret : Ret}
    {key : Option Str} {rest : List Instr} (hc : c.code = .scrRet scr .input ret key :: rest) :
    ∃ rest', rest = .classify scr :: .catchPI scr :: .countAndAct scr :: .endPI :: rest' ∧
      ∃ c1 c2, step P c = .ok c1 ∧ step P c1 = .ok c2 ∧
        step P c2 = .ok { c with code := .countAndAct scr :: .endPI :: rest', retInput := ret, retKey := key.getD [],
                                 retAction := classifyRet ret (key.getD []) } := by
  have hs := hr.shape h0
  rw [hc] at hs
  obtain ⟨j, r, rfl, hj⟩ := hs.bound_next rfl
  simp only [Instr.needs] at hj
  subst hj
  obtain ⟨j, r', rfl, hj⟩ := hs.tail.bound_next rfl
  simp only [Instr.needs] at hj
  subst hj
  obtain ⟨rest', rfl⟩ := Shape.catchPI_follow (pre := [.scrRet scr .input ret key, .classify scr]) (by simpa using hs)
  refine ⟨rest', rfl, _, _, by simp [step, hc]; rfl, by simp [step]; rfl, by simp [step]⟩

theorem err_other {P : Prog} {c c' : Cfg} (h : StepTo P c c') (s : Nat)
    (h1 : ∀ rest, c.code ≠ .countAndAct s :: rest) (h2 : ∀ args rest, c.code ≠ .getInput2 s args :: rest) :
    (c'.A.scr s).err = (c.A.scr s).err := by
  rw [err_after h s]
  unfold Cfg.errAfter
  split
  · rename_i scr _ hc
    split
    · subst_vars; exact absurd hc (h1 _)
    · rfl
  · rename_i scr _ _ hc
    split
    · rename_i hs; obtain ⟨rfl, _⟩ := hs; exact absurd hc (h2 _ _)
    · rfl
  · rfl

/-! ### the table -/

theorem classifyRet_state_other (s : String) (key : Str) (h1 : s ≠ "PROCESSED") (h2 : s ≠ "REDRAW") (h3 : s ≠ "CLOSE") :
    classifyRet (.state s) key = .error := by
  unfold classifyRet; split <;> simp_all

theorem classifyRet_key_other (k key : Str) (h1 : k ≠ ['r']) (h2 : k ≠ ['c']) (h3 : k ≠ ['q']) :
    classifyRet (.key k) key = .error := by
  simp [classifyRet, h1, h2, h3]

theorem classifyRet_dflt (key : Str) : classifyRet .dflt key = classifyRet (.key key) key := by
  simp [classifyRet]

theorem classifyRet_inv (r : Ret) (key : Str) (hr : (∃ s, r = .state s) ∨ r = .none ∨ (∃ k, r = .key k) ∨ r = .dflt) :
    (classifyRet r key = .noop ↔ r = .state "PROCESSED") ∧
    (classifyRet r key = .redraw ↔ r = .state "REDRAW" ∨ r = .key ['r'] ∨ (r = .dflt ∧ key = ['r'])) ∧
    (classifyRet r key = .close ↔ r = .state "CLOSE" ∨ r = .key ['c'] ∨ (r = .dflt ∧ key = ['c'])) ∧
    (classifyRet r key = .quit ↔ r = .key ['q'] ∨ (r = .dflt ∧ key = ['q'])) := by
  rcases hr with ⟨s, rfl⟩ | rfl | ⟨k, rfl⟩ | rfl
  · unfold classifyRet; split <;> simp_all
  · simp [classifyRet]
  · simp only [classifyRet]
    by_cases h1 : k = ['r'] <;> by_cases h2 : k = ['c'] <;> by_cases h3 : k = ['q'] <;> simp_all
  · simp only [classifyRet]
    by_cases h1 : key = ['r'] <;> by_cases h2 : key = ['c'] <;> by_cases h3 : key = ['q'] <;> simp_all

end Simpleline
