/-
  Lemmas the property theorems of C08 refer to: the ready flag, who invokes which callback, refresh
  before draw on the trace, the discarding of a screen whose setup failed.
-/
import Simpleline.Lemmas.SchedSetup

namespace Simpleline
set_option linter.unusedSimpArgs false

/-! ### C08: set up once -/

theorem ready_after {P : Prog} {c c' : Cfg} (h : Trans P c c') (s : Nat) :
    (c'.A.scr s).ready = (c.A.scr s).ready ∨
    ((c'.A.scr s).ready = true ∧ ∃ ret key rest, c.code = .scrRet s .setup ret key :: rest ∧ ret ≠ .failBefore) := by
  rcases Trans_cases h with rfl | rfl
  · rw [(step_screens P c).1]
    unfold Cfg.scrAfter
    split
    · split <;> simp_all
    · rename_i scr ret key rest hc
      split
      · rename_i hs
        obtain ⟨rfl, hret⟩ := hs
        exact .inr ⟨rfl, ret, key, rest, hc, hret⟩
      · exact .inl rfl
    · left
      split
      · split <;> simp_all
      · rfl
    · left
      split <;> simp_all
    · exact .inl rfl
  · simp


theorem cb_new_of_trans {P : Prog} {c c' : Cfg} (h : Trans P c c') {s : Nat} {cb : Cb} {a : Option Nat}
    {k : Option Str} (hm : .cb s cb a k ∈ newLog c c') : StepTo P c c' ∧ ∃ rest, c.code = .callScr s cb a k :: rest := by
  have hm' : Ev.cb s cb a k ∈ cbLog (newLog c c') := by simp [cbLog, hm]
  rcases h.cases with h | h
  · refine ⟨h, ?_⟩
    rw [h.cbLog_new] at hm'
    unfold Cfg.cbEvs at hm'
    split at hm'
    · rename_i hc
      simp at hm'
      obtain ⟨rfl, rfl, rfl, rfl⟩ := hm'
      exact ⟨_, hc⟩
    · simp at hm'
  · rw [deliver_cbLog_new h] at hm'; simp at hm'

/-- a callback invocation is logged by the step of its `callScr` instruction, and only by it -/
theorem cb_logged {P : Prog} {c c' : Cfg} (h : StepTo P c c') {s : Nat} {cb : Cb} {a : Option Nat} {k : Option Str}
    {rest : List Instr} (hc : c.code = .callScr s cb a k :: rest) : cbLog (newLog c c') = [.cb s cb a k] := by
  rw [h.cbLog_new]; simp [Cfg.cbEvs, hc]

theorem no_setup_when_ready {P : Prog} {c0 c c' : Cfg} (h0 : Started c0) (hr : Reach P c0 c) (h : Trans P c c')
    {s : Nat} (hrd : (c.A.scr s).ready = true) (a : Option Nat) (k : Option Str) : .cb s .setup a k ∉ newLog c c' := by
  intro hm
  obtain ⟨_, rest, hc⟩ := cb_new_of_trans h hm
  have := (hr.headInv h0).setup s a k (by simp [hc])
  simp [this] at hrd

/-! ### C08: who invokes which callback -/

theorem who_calls {P : Prog} {c0 c c' : Cfg} (h0 : Started c0) (hr : Reach P c0 c) (h : StepTo P c c')
    {scr : Nat} {cb : Cb} {arg : Option Nat} {key : Option Str}
    (hh : c'.code.head? = some (.callScr scr cb arg key)) :
    match cb with
    | .setup => ∃ top rest, c.code = .processScreen :: rest ∧ c.A.stack.getLast? = some top ∧
        (c.A.scr top.screen).ready = false ∧ scr = top.screen ∧ arg = top.args ∧ key = none
    | .refresh => ∃ top rest, c.code = .afterSetup2 top :: rest ∧ scr = top.screen ∧ arg = top.args ∧ key = none
    | .show => ∃ top rest, c.code = .drawScreen top :: rest ∧ scr = top.screen ∧ arg = none ∧ key = none
    | .prompt => ∃ rest, c.code = .getInput scr arg :: rest ∧ key = none
    | .input => ∃ k rest, c.code = .processInput scr k :: rest ∧ arg = (c.A.scr scr).inputArgs ∧ key = some k
    | .closed => ∃ frm e rest, c.code = .closeScreen frm :: rest ∧ c.A.stack.getLast? = some e ∧
        (frm = none ∨ frm = some (.scr e.screen)) ∧ scr = e.screen ∧ arg = none ∧ key = none := by
  rcases hc : c.code with _ | ⟨ins, rest⟩
  · rw [h.eq, step_nil P c hc, hc] at hh; simp at hh
  · rw [h.eq] at hh
    have := head_imm_after (hr.imm h0) hc hh rfl
    simp only [ImmPushedBy, reduceCtorEq, and_false, exists_false, false_or, or_false, exists_const,
      Instr.callScr.injEq, false_and] at this
    rcases this with ⟨frm, e, rfl, he, hacc, rfl, rfl, rfl, rfl⟩ | ⟨top, rfl, ht, hrd, rfl, rfl, rfl, rfl⟩ |
      ⟨top, rfl, rfl, rfl, rfl, rfl⟩ | ⟨top, rfl, rfl, rfl, rfl, rfl⟩ | ⟨s, a, rfl, rfl, rfl, rfl, rfl⟩ |
      ⟨s, k, rfl, rfl, rfl, rfl, rfl⟩
    · exact ⟨frm, e, rest, rfl, he, hacc, rfl, rfl, rfl⟩
    · exact ⟨top, rest, rfl, ht, hrd, rfl, rfl, rfl⟩
    · exact ⟨top, rest, rfl, rfl, rfl, rfl⟩
    · exact ⟨top, rest, rfl, rfl, rfl, rfl⟩
    · exact ⟨rest, rfl, rfl⟩
    · exact ⟨k, rest, rfl, rfl, rfl⟩

theorem who_draws {P : Prog} {c0 c c' : Cfg} (h0 : Started c0) (hr : Reach P c0 c) (h : StepTo P c c')
    {top : Entry} (hh : c'.code.head? = some (.drawScreen top)) :
    ∃ rest, c.code = .identCheck top :: rest := by
  rcases hc : c.code with _ | ⟨ins, rest⟩
  · rw [h.eq, step_nil P c hc, hc] at hh; simp at hh
  · rw [h.eq] at hh
    have := head_imm_after (hr.imm h0) hc hh rfl
    simp only [ImmPushedBy, reduceCtorEq, and_false, exists_false, false_or, or_false, exists_const,
      Instr.drawScreen.injEq, false_and] at this
    obtain ⟨top', l, rfl, _, _, rfl⟩ := this
    exact ⟨rest, rfl⟩

theorem who_refreshes {P : Prog} {c0 c c' : Cfg} (h0 : Started c0) (hr : Reach P c0 c) (h : StepTo P c c')
    {top : Entry} (hh : c'.code.head? = some (.afterSetup2 top)) :
    (∃ rest, c.code = .processScreen :: rest ∧ c.A.stack.getLast? = some top ∧ (c.A.scr top.screen).ready = true) ∨
    (∃ rest, c.code = .afterSetup top :: rest ∧ c.retSetup = true) := by
  rcases hc : c.code with _ | ⟨ins, rest⟩
  · rw [h.eq, step_nil P c hc, hc] at hh; simp at hh
  · rw [h.eq] at hh
    have := head_imm_after (hr.imm h0) hc hh rfl
    simp only [ImmPushedBy, reduceCtorEq, and_false, exists_false, false_or, or_false, exists_const,
      Instr.afterSetup2.injEq, false_and] at this
    rcases this with ⟨top', rfl, ht, hrd, rfl⟩ | ⟨top', rfl, hrs, rfl⟩
    · exact .inl ⟨rest, rfl, ht, hrd⟩
    · exact .inr ⟨rest, rfl, hrs⟩

/-! ### C08: refreshed before drawn -/

theorem shows_refreshed {P : Prog} {c0 c : Cfg} (h0 : Started c0) (hr : Reach P c0 c) {e : Entry} {l1 l2 : List Tr}
    (h : c.tr = l1 ++ .show e :: l2) : .refresh e ∈ l2 := by
  have hs := (hr.refInv h0).shows
  rw [h, schedTr_append] at hs
  have := ShowsOK_append_right hs
  simp only [schedTr_cons, Tr.isSched_show, if_true, ShowsOK] at this
  exact (mem_schedTr rfl).1 this.1

/-! ### C08: a failed setup -/

theorem step_discard (P : Prog) (c : Cfg) (top e : Entry) (rest : List Instr) (hc : c.code = .afterSetup top :: rest)
    (hrs : c.retSetup = false) (he : c.A.stack.getLast? = some e) :
    step P c =
      .ok (if e.modal then push (c.discarded rest) [.closeLoop, .afterSetupFail e] else (c.discarded rest).redraw) := by
  cases hm : e.modal <;> simp [step, hc, hrs, he, hm, Cfg.discarded]

theorem refresh_step_eq (P : Prog) (c : Cfg) (top : Entry) (rest : List Instr) (hc : c.code = .afterSetup2 top :: rest) :
    ∃ c', step P c = .ok c' ∧
      c'.code = .callScr top.screen .refresh top.args none :: .identCheck top :: .catchPS :: rest ∧
      c'.tr = .refresh top :: c.tr ∧ c'.A = c.A ∧ c'.log = c.log := by
  simp only [step, hc]
  exact ⟨_, rfl, rfl, rfl, rfl, rfl⟩

theorem close_step_eq (P : Prog) (c : Cfg) (frm : Option Src) (e : Entry) (rest : List Instr)
    (hc : c.code = .closeScreen frm :: rest) (he : c.A.stack.getLast? = some e)
    (hacc : frm = none ∨ frm = some (.scr e.screen)) :
    ∃ c', step P c = .ok c' ∧
      c'.code = .callScr e.screen .closed none none :: .closeScreen2 e frm :: rest ∧
      c'.A.stack = c.A.stack.dropLast ∧ c'.tr = .stackOp "close" c.A.stack.dropLast :: c.tr ∧ c'.log = c.log := by
  have hrf : ¬ (frm ≠ none ∧ frm ≠ some (.scr e.screen)) := by
    rintro ⟨h1, h2⟩
    rcases hacc with h | h
    · exact h1 h
    · exact h2 h
  simp only [step, hc, he, hrf, if_false]
  exact ⟨_, rfl, rfl, rfl, rfl, rfl⟩

/-- a close requested on behalf of anything but the screen on top is refused before anything is popped -/
theorem close_step_refused (P : Prog) (c : Cfg) (frm : Option Src) (e : Entry) (rest : List Instr)
    (hc : c.code = .closeScreen frm :: rest) (he : c.A.stack.getLast? = some e)
    (hrf : frm ≠ none ∧ frm ≠ some (.scr e.screen)) :
    step P c = ({ c with code := rest } : Cfg).raise .err := by
  simp only [step, hc, he]
  rw [if_pos hrf]

/-- the result of `setup` is tested right after it returns, for the entry that was set up -/
theorem setup_result_tested {P : Prog} {c0 c : Cfg} (h0 : Started c0) (hr : Reach P c0 c) {scr : Nat} {ret : Ret}
    {key : Option Str} {rest : List Instr} (hc : c.code = .scrRet scr .setup ret key :: rest) :
    ∃ top rest', rest = .afterSetup top :: rest' ∧ top.screen = scr ∧
      step P c = .ok (if ret = .failBefore then { c with code := rest, retSetup := false }
        else { c with code := rest, A := c.A.setScr scr fun s => { s with ready := true },
                      L := { c.L with queues := listSet c.L.queues c.L.active (addSource · (.scr scr)) },
                      retSetup := decide (ret ≠ .failAfter) }) := by
  have hs := hr.shape h0
  rw [hc] at hs
  obtain ⟨j, r, rfl, top, rfl, h1⟩ := hs.bound_next rfl
  refine ⟨top, r, rfl, h1, ?_⟩
  simp only [step, hc]
  split <;> rfl

theorem check_after_refresh {P : Prog} {c0 c : Cfg} (h0 : Started c0) (hr : Reach P c0 c) {scr : Nat} {ret : Ret}
    {key : Option Str} {pre post : List Instr} (hc : c.code = pre ++ .scrRet scr .refresh ret key :: post) :
    ∃ top rest, post = .identCheck top :: .catchPS :: rest ∧ top.screen = scr := by
  have hs := hr.shape h0
  rw [hc] at hs
  obtain ⟨j, r, rfl, top, rfl, h1⟩ := hs.at (i := .scrRet scr .refresh ret key) rfl
  have hs' : Shape ((pre ++ [.scrRet scr .refresh ret key]) ++ .identCheck top :: r) := by simpa using hs
  obtain ⟨j, r', rfl, hj⟩ := hs'.at (i := .identCheck top) rfl
  simp only [Instr.needs] at hj
  subst hj
  exact ⟨top, r', rfl, h1⟩

end Simpleline
