/-
  Invariants of the reachable configurations, part 4: the `closed` callback has been invoked (or is
  about to be) exactly as often as the `close` stack operation was performed.
-/
import Simpleline.Lemmas.SchedInv

namespace Simpleline
set_option linter.unusedSimpArgs false

/-! ### `closed` callbacks and close operations -/

def closedCbs (l : List Ev) : Nat := (l.filter Ev.isClosed).length
def closeOps (l : List Tr) : Nat := (l.filter (Tr.isOp "close")).length

theorem closedCbs_cbLog (l : List Ev) : closedCbs (cbLog l) = closedCbs l := by
  unfold closedCbs cbLog
  rw [List.filter_filter]
  congr 2
  funext e
  cases e <;> simp [Ev.isClosed]

theorem closeOps_schedTr (l : List Tr) : closeOps (schedTr l) = closeOps l := by
  unfold closeOps schedTr
  rw [List.filter_filter]
  congr 2
  funext e
  cases e <;> simp [Tr.isOp]

theorem closedCbs_append (a b : List Ev) : closedCbs (a ++ b) = closedCbs a + closedCbs b := by
  simp [closedCbs]
theorem closeOps_append (a b : List Tr) : closeOps (a ++ b) = closeOps a + closeOps b := by
  simp [closeOps]

/-- as many `closed` callbacks have been invoked (or are about to be) as close operations were performed -/
def ClosedInv (c : Cfg) : Prop := closedCbs c.log + pendClosed c.code = closeOps c.tr

theorem ClosedInv_init {c0 : Cfg} (h : Started c0) : ClosedInv c0 := by
  obtain ⟨init, handlers, quitCb, stdin, rfl⟩ := h
  cases init <;> simp [ClosedInv, initCfg, closedCbs, closeOps, pendClosed]

theorem ClosedInv_dlv {c : Cfg} (h : ClosedInv c) : ClosedInv c.dlv := by
  unfold ClosedInv at h ⊢
  rw [← closedCbs_cbLog, ← closeOps_schedTr, dlv_cbLog, dlv_schedTr, dlv_code, closedCbs_cbLog, closeOps_schedTr]
  exact h

theorem pendClosed_le (code : List Instr) : pendClosed code ≤ 1 := by
  unfold pendClosed; split <;> omega

theorem pendClosed_eq_one {code : List Instr} (h : pendClosed code = 1) :
    ∃ s a k, code.head? = some (.callScr s .closed a k) := by
  unfold pendClosed at h
  split at h
  · exact ⟨_, _, _, rfl⟩
  · omega

theorem stackOp_eq_close {c : Cfg} {frm : Option Src} (h : c.stackOp = some (.close frm)) :
    ∃ rest, c.code = .closeScreen frm :: rest := by
  unfold Cfg.stackOp at h
  split at h
  all_goals try (simp at h; done)
  · simp only [Option.some.injEq, Spec.Op.close.injEq] at h
    subst h
    exact ⟨_, ‹_›⟩

theorem closeOps_schedEvs_pos {c : Cfg} (h : closeOps c.schedEvs ≠ 0) : ∃ frm, c.stackOp = some (.close frm) := by
  unfold Cfg.schedEvs at h
  split at h
  · simp [closeOps, Tr.isOp] at h
  · simp [closeOps, Tr.isOp] at h
  · cases hop : c.stackOp with
    | none => simp [hop, closeOps] at h
    | some op =>
      simp only [hop] at h
      split at h
      · simp [closeOps] at h
      · cases op <;> simp [closeOps, Tr.isOp, Spec.Op.name] at h ⊢

theorem ClosedInv_step {P : Prog} {c : Cfg} (hi : Imm c) (h : ClosedInv c) : ClosedInv (sOutCfg (step P c)) := by
  unfold ClosedInv at h ⊢
  rw [← closedCbs_cbLog, ← closeOps_schedTr] at h ⊢
  rw [(step_screens P c).2, (step_stack P c).2, closedCbs_append, closeOps_append]
  rcases hc : c.code with _ | ⟨ins, rest⟩
  · rw [step_nil P c hc]
    simpa [Cfg.cbEvs, Cfg.schedEvs, Cfg.stackOp, hc, closedCbs, closeOps] using h
  · rw [hc] at h
    -- the pending callback after the step was pushed by a `closeScreen`
    have hpend : pendClosed (sOutCfg (step P c)).code = 1 → ∃ frm e, ins = .closeScreen frm ∧ c.A.stack.getLast? = some e ∧
        (frm = none ∨ frm = some (.scr e.screen)) := by
      intro hp
      obtain ⟨s, a, k, hh⟩ := pendClosed_eq_one hp
      have := head_imm_after hi hc hh rfl
      simp only [ImmPushedBy, reduceCtorEq, and_false, exists_false, false_or, or_false, exists_const,
        Instr.callScr.injEq, false_and] at this
      obtain ⟨frm, e, rfl, he, hacc, _⟩ := this
      exact ⟨frm, e, rfl, he, hacc⟩
    have hle := pendClosed_le (sOutCfg (step P c)).code
    by_cases h1 : ∃ s a k, ins = .callScr s .closed a k
    · obtain ⟨s, a, k, rfl⟩ := h1
      have : pendClosed (sOutCfg (step P c)).code = 0 := by
        rcases Nat.lt_or_ge (pendClosed (sOutCfg (step P c)).code) 1 with h' | h'
        · omega
        · obtain ⟨_, _, hx, _⟩ := hpend (by omega)
          cases hx
      rw [this]
      have h1 : closedCbs c.cbEvs = 1 := by simp only [Cfg.cbEvs, hc]; rfl
      have h2 : closeOps c.schedEvs = 0 := by simp [Cfg.schedEvs, Cfg.stackOp, hc, closeOps]
      have h3 : pendClosed (Instr.callScr s Cb.closed a k :: rest) = 1 := rfl
      omega
    · by_cases h2 : ∃ frm, ins = .closeScreen frm
      · obtain ⟨frm, rfl⟩ := h2
        cases hl : c.A.stack.getLast? with
        | none =>
          have : pendClosed (sOutCfg (step P c)).code = 0 := by
            rcases Nat.lt_or_ge (pendClosed (sOutCfg (step P c)).code) 1 with h' | h'
            · omega
            · obtain ⟨_, _, _, hx, _⟩ := hpend (by omega)
              simp [hl] at hx
          rw [this]
          have h1 : closedCbs c.cbEvs = 0 := by simp [Cfg.cbEvs, hc, closedCbs]
          have h2 : closeOps c.schedEvs = 0 := by
            simp [Cfg.schedEvs, Cfg.stackOp, hc, closeOps, Spec.Op.apply, Spec.Stack.close, Spec.Stack.top, hl]
          have h3 : pendClosed (Instr.closeScreen frm :: rest) = 0 := rfl
          omega
        | some e =>
          have h1 : closedCbs c.cbEvs = 0 := by simp [Cfg.cbEvs, hc, closedCbs]
          have h3 : pendClosed (Instr.closeScreen frm :: rest) = 0 := rfl
          by_cases hrf : frm ≠ none ∧ frm ≠ some (.scr e.screen)
          · -- the request is refused: nothing popped, no callback pending
            have : pendClosed (sOutCfg (step P c)).code = 0 := by
              rcases Nat.lt_or_ge (pendClosed (sOutCfg (step P c)).code) 1 with h' | h'
              · omega
              · obtain ⟨frm', e', hx, he', hacc⟩ := hpend (by omega)
                cases hx
                rw [hl] at he'
                cases he'
                rcases hacc with h | h
                · exact absurd h hrf.1
                · exact absurd h hrf.2
            rw [this]
            have h2 : closeOps c.schedEvs = 0 := by
              simp [Cfg.schedEvs, Cfg.stackOp, hc, closeOps, Spec.Op.apply, Spec.Stack.close, Spec.Stack.top, hl, hrf]
            omega
          · have : pendClosed (sOutCfg (step P c)).code = 1 := by
              simp [step, hc, hl, hrf, pendClosed]
            rw [this]
            have h2 : closeOps c.schedEvs = 1 := by
              simp [Cfg.schedEvs, Cfg.stackOp, hc, closeOps, Spec.Op.apply, Spec.Stack.close, Spec.Stack.top, hl,
                Spec.Op.name, Tr.isOp, hrf]
            omega
      · have : pendClosed (sOutCfg (step P c)).code = 0 := by
          rcases Nat.lt_or_ge (pendClosed (sOutCfg (step P c)).code) 1 with h' | h'
          · omega
          · obtain ⟨frm, _, hx, _⟩ := hpend (by omega)
            exact absurd ⟨frm, hx⟩ h2
        rw [this]
        have hp0 : pendClosed (ins :: rest) = 0 := by
          unfold pendClosed
          split
          · rename_i heq
            cases heq
            exact absurd ⟨_, _, _, rfl⟩ h1
          · rfl
        have hcb : closedCbs c.cbEvs = 0 := by
          unfold Cfg.cbEvs
          rw [hc]
          split
          · rename_i heq
            cases heq
            rename_i cb _ _
            cases cb <;> simp [closedCbs, Ev.isClosed]
            exact h1 ⟨_, _, _, rfl⟩
          · rfl
        have hop : closeOps c.schedEvs = 0 := by
          rcases Nat.eq_zero_or_pos (closeOps c.schedEvs) with h' | h'
          · exact h'
          · obtain ⟨frm, hop⟩ := closeOps_schedEvs_pos (Nat.pos_iff_ne_zero.1 h')
            obtain ⟨rest', hx⟩ := stackOp_eq_close hop
            rw [hc] at hx
            cases hx
            exact absurd ⟨_, rfl⟩ h2
        omega
theorem Reach.closedInv {P : Prog} {c0 c : Cfg} (h0 : Started c0) (h : Reach P c0 c) : ClosedInv c :=
  h.induct (ClosedInv_init h0) (fun _ hr hI => ClosedInv_step (hr.imm h0) hI) (fun _ _ => ClosedInv_dlv)

end Simpleline
