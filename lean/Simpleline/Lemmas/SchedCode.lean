/-
  The control flow of the scheduler's own instructions: what each of them puts in front of the code
  (`step_sched_pushed`), and the summary for all instructions (`step_code`).
-/
import Simpleline.Lemmas.SchedStep

namespace Simpleline
set_option linter.unusedSimpArgs false

/-- what the scheduler's own instructions put in front of the code (the control flow of
`ScreenScheduler` and `InputManager`/`process_input`) -/
def SPushed (P : Prog) (c : Cfg) : Instr → List Instr → Prop
  | .pushModal scr args, p =>
    ∃ s, p = [.newLoop s, .modalRet { eid := c.A.nextEid, screen := scr, args := args, modal := true }]
  | .closeScreen frm, p =>
    p = [] ∨ ∃ e, c.A.stack.getLast? = some e ∧ (frm = none ∨ frm = some (.scr e.screen)) ∧
      p = [.callScr e.screen .closed none none, .closeScreen2 e frm]
  | .closeScreen2 e _, p => p = [] ∨ p = [.closeLoop, .closeScreen3 e] ∨ p = [.closeScreen3 e]
  | .processScreen, p =>
    p = [] ∨ ∃ top, c.A.stack.getLast? = some top ∧
      (((c.A.scr top.screen).ready = true ∧ p = [.afterSetup2 top]) ∨
       ((c.A.scr top.screen).ready = false ∧ p = [.callScr top.screen .setup top.args none, .afterSetup top]))
  | .afterSetup top, p =>
    (c.retSetup = true ∧ p = [.afterSetup2 top]) ∨
    (c.retSetup = false ∧ (p = [] ∨ ∃ e, c.A.stack.getLast? = some e ∧ p = [.closeLoop, .afterSetupFail e]))
  | .afterSetup2 top, p => p = [.callScr top.screen .refresh top.args none, .identCheck top, .catchPS]
  | .identCheck top, p =>
    p = [] ∨ ∃ l, c.A.stack.getLast? = some l ∧ l.eid = top.eid ∧ p = [.drawScreen top, .maybeInput top]
  | .drawScreen top, p => p = [.callScr top.screen .show none none, .catchDraw]
  | .maybeInput top, p => p = [] ∨ p = [.getInput top.screen top.args]
  | .callScr scr cb _ key, p =>
    ∃ pre acts ret, (pre = [] ∨ pre = [.printWidget scr]) ∧ p = pre ++ List.map Instr.act acts ++ [.scrRet scr cb ret key]
  | .getInput scr args, p => p = [.callScr scr .prompt args none, .getInput2 scr args]
  | .processInput scr key, p =>
    p = [.callScr scr .input (c.A.scr scr).inputArgs (some key), .classify scr, .catchPI scr, .countAndAct scr, .endPI]
  | .countAndAct _, p =>
    p = [] ∨ (∃ top, c.A.stack.getLast? = some top ∧ p = [.getInput top.screen top.args]) ∨ p = [.closeScreen none] ∨
      ∃ q, P.quitScreen = some q ∧ p = [.pushModal q none, .afterQuit q]
  | _, p => p = []

theorem step_sched_pushed (P : Prog) (c : Cfg) (ins : Instr) (rest : List Instr) (hc : c.code = ins :: rest)
    (hl : ins.loopish = false) :
    ∃ pushed, CodeStep (sOutCfg (step P c)) rest pushed ∧ SPushed P c ins pushed := by
  cases ins <;> (first | (exfalso; revert hl; simp [Instr.loopish]; done) | skip) <;> simp only [step, hc]
  case act a =>
    cases a <;> (first | (exfalso; revert hl; simp [Instr.loopish, Act.isStackOp]; done) | skip) <;> simp only [doAct]
    case schedule scr args =>
      split <;> exact ⟨[], CodeStep.of_eq (by simp), by simp [SPushed]⟩
    case push scr args => exact ⟨[], CodeStep.of_eq (by simp), by simp [SPushed]⟩
    case replace scr args =>
      split
      · exact ⟨[], CodeStep.of_suffix (raised_code_suffix _ _), by simp [SPushed]⟩
      · exact ⟨[], CodeStep.of_eq (by simp), by simp [SPushed]⟩
  case pushModal scr args => exact ⟨_, CodeStep.of_eq rfl, by simp [SPushed]⟩
  case closeScreen frm =>
    split
    · exact ⟨[], CodeStep.of_suffix (raised_code_suffix _ _), by simp [SPushed]⟩
    · split
      · exact ⟨[], CodeStep.of_suffix (raised_code_suffix _ _), by simp [SPushed]⟩
      · rename_i e he hacc
        exact ⟨_, CodeStep.of_eq rfl, by
          have hacc' : frm = none ∨ frm = some (.scr e.screen) := by
            by_cases h1 : frm = none
            · exact .inl h1
            · exact .inr (Classical.byContradiction fun h2 => hacc ⟨h1, h2⟩)
          simp [SPushed, he, hacc']⟩
  case closeScreen2 e frm =>
    split
    · exact ⟨[], CodeStep.of_suffix (raised_code_suffix _ _), by simp [SPushed]⟩
    · split <;> exact ⟨_, CodeStep.of_eq rfl, by simp [SPushed]⟩
  case processScreen =>
    split
    · exact ⟨[], CodeStep.of_suffix (raised_code_suffix _ _), by simp [SPushed]⟩
    · split <;> exact ⟨_, CodeStep.of_eq rfl, by simp_all [SPushed]⟩
  case afterSetup top =>
    split
    · exact ⟨_, CodeStep.of_eq rfl, by simp_all [SPushed]⟩
    · split
      · exact ⟨[], CodeStep.of_suffix (raised_code_suffix _ _), by simp_all [SPushed]⟩
      · split
        · exact ⟨_, CodeStep.of_eq rfl, by simp_all [SPushed]⟩
        · exact ⟨[], CodeStep.of_eq (by simp), by simp_all [SPushed]⟩
  case afterSetup2 top => exact ⟨_, CodeStep.of_eq rfl, by simp [SPushed]⟩
  case identCheck top =>
    split
    · exact ⟨[], CodeStep.of_suffix (raised_code_suffix _ _), by simp [SPushed]⟩
    · split
      · exact ⟨[], CodeStep.of_suffix (List.dropWhile_suffix _), by simp [SPushed]⟩
      · exact ⟨_, CodeStep.of_eq rfl, by simp_all [SPushed]⟩
  case drawScreen top =>
    split <;> exact ⟨_, CodeStep.of_eq rfl, by simp [SPushed]⟩
  case maybeInput top =>
    split
    · exact ⟨_, CodeStep.of_eq rfl, by simp [SPushed]⟩
    · exact ⟨[], CodeStep.of_eq rfl, by simp [SPushed]⟩
  case callScr scr cb arg key =>
    refine ⟨(if cb = .show then [.printWidget scr] else []) ++ List.map Instr.act (P.screenScript scr cb _).acts ++
      [.scrRet scr cb (P.screenScript scr cb _).ret key], CodeStep.of_eq (by simp; rfl), ?_⟩
    refine ⟨_, _, _, ?_, rfl⟩
    split <;> simp
  case scrRet scr cb ret key =>
    cases cb <;> simp only []
    case setup => split <;> exact ⟨[], CodeStep.of_eq rfl, by simp [SPushed]⟩
    all_goals exact ⟨[], CodeStep.of_eq rfl, by simp [SPushed]⟩
  case getInput scr args => exact ⟨_, CodeStep.of_eq rfl, by simp [SPushed]⟩
  case getInput2 scr args =>
    split
    · exact ⟨[], CodeStep.of_eq rfl, by simp [SPushed]⟩
    · exact ⟨[], CodeStep.of_suffix (startRequest_frame _ _ _ _).2.2.2.2.2.2.2.2.2.1, by simp [SPushed]⟩
  case processInput scr key => exact ⟨_, CodeStep.of_eq rfl, by simp [SPushed]⟩
  case classify scr => exact ⟨[], CodeStep.of_eq rfl, by simp [SPushed]⟩
  case countAndAct scr =>
    split
    · exact ⟨[], CodeStep.of_suffix (raised_code_suffix _ _), by simp [SPushed]⟩
    · rename_i top htop
      simp only [AppSt.setScr] at htop
      cases hra : c.retAction <;> simp only [↓reduceIte, reduceCtorEq]
      · split
        · exact ⟨[], CodeStep.of_eq (by simp), by simp [SPushed]⟩
        · exact ⟨_, CodeStep.of_eq rfl, by simp [SPushed, htop]⟩
      · exact ⟨[], CodeStep.of_eq rfl, by simp [SPushed]⟩
      · exact ⟨[], CodeStep.of_eq (by simp), by simp [SPushed]⟩
      · exact ⟨_, CodeStep.of_eq rfl, by simp [SPushed]⟩
      · split
        · exact ⟨_, CodeStep.of_eq rfl, by simp [SPushed, *]⟩
        · exact ⟨[], CodeStep.of_suffix (raised_code_suffix _ _), by simp [SPushed]⟩
  case afterQuit q =>
    split
    · exact ⟨[], CodeStep.of_suffix (raised_code_suffix _ _), by simp [SPushed]⟩
    · exact ⟨[], CodeStep.of_suffix (raised_code_suffix _ _), by simp [SPushed]⟩
    · exact ⟨[], CodeStep.of_eq (by simp), by simp [SPushed]⟩

/-- what an instruction may push: loop instructions push only instructions that are not continuations
of scheduler frames; the scheduler's own instructions push what `SPushed` says -/
def Pushed (P : Prog) (c : Cfg) (ins : Instr) (pushed : List Instr) : Prop :=
  if ins.loopish then ∀ i ∈ pushed, i.external = true else SPushed P c ins pushed

theorem step_code (P : Prog) (c : Cfg) (ins : Instr) (rest : List Instr) (hc : c.code = ins :: rest) :
    ∃ pushed, CodeStep (sOutCfg (step P c)) rest pushed ∧ Pushed P c ins pushed := by
  unfold Pushed
  cases hl : ins.loopish
  · simpa using step_sched_pushed P c ins rest hc hl
  · simpa using (step_loopish P c ins rest hc hl).2

theorem step_nil (P : Prog) (c : Cfg) (hc : c.code = []) : sOutCfg (step P c) = c := by
  simp [step, hc]

end Simpleline
