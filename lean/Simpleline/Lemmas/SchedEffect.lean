/-
  What one step does to the scheduler's state, for every instruction: the stack and the scheduler
  events of the trace (`step_stack`), the screens table and the callback log (`step_screens`), the
  return registers (`step_rets`); trace and log only grow (`step_grow`).
-/
import Simpleline.Lemmas.SchedCode

namespace Simpleline
set_option linter.unusedSimpArgs false


/-- stack and next entry identity after the step out of `c` -/
def Cfg.stackAfter (c : Cfg) : List Entry × Nat :=
  match c.stackOp with
  | none => (c.A.stack, c.A.nextEid)
  | some op =>
    match op.apply c.A.nextEid c.A.stack with
    | none => (c.A.stack, c.A.nextEid)
    | some s' => (s', if op.creates then c.A.nextEid + 1 else c.A.nextEid)

/-- the scheduler events the step out of `c` adds to the trace -/
def Cfg.schedEvs (c : Cfg) : List Tr :=
  match c.code with
  | .afterSetup2 top :: _ => [.refresh top]
  | .drawScreen top :: _ => [.show top]
  | _ =>
    match c.stackOp with
    | none => []
    | some op =>
      match op.apply c.A.nextEid c.A.stack with
      | none => []
      | some s' => [.stackOp op.name s']

theorem loopish_stackOp (c : Cfg) (ins : Instr) (rest : List Instr) (hc : c.code = ins :: rest) (hl : ins.loopish = true) :
    c.stackOp = none ∧ c.schedEvs = [] := by
  cases ins <;> (first | (exfalso; revert hl; simp [Instr.loopish]; done) | skip) <;>
    simp [Cfg.stackOp, Cfg.schedEvs, hc]
  case act a =>
    cases a <;> (first | (exfalso; revert hl; simp [Instr.loopish, Act.isStackOp]; done) | skip) <;> simp

theorem step_stack (P : Prog) (c : Cfg) :
    ((sOutCfg (step P c)).A.stack, (sOutCfg (step P c)).A.nextEid) = c.stackAfter ∧
    schedTr (sOutCfg (step P c)).tr = c.schedEvs ++ schedTr c.tr := by
  rcases hc : c.code with _ | ⟨ins, rest⟩
  · simp [step_nil P c hc, Cfg.stackAfter, Cfg.stackOp, Cfg.schedEvs, hc]
  · cases hl : ins.loopish
    · cases ins <;> (first | (exfalso; revert hl; simp [Instr.loopish]; done) | skip) <;> simp only [step, hc]
      case act a =>
        cases a <;> (first | (exfalso; revert hl; simp [Instr.loopish, Act.isStackOp]; done) | skip) <;> simp only [doAct]
        all_goals (try split) <;>
          simp [Cfg.stackAfter, Cfg.stackOp, Cfg.schedEvs, hc, Spec.Op.apply, Spec.Stack.pop, Spec.Stack.top,
            Spec.Stack.beneath, Spec.Stack.push, Spec.Stack.schedule, Spec.Stack.replace, Spec.Op.creates,
            Spec.Op.name, *]
      case countAndAct scr =>
        have h0 : c.stackAfter = (c.A.stack, c.A.nextEid) ∧ c.schedEvs = [] := by
          simp [Cfg.stackAfter, Cfg.stackOp, Cfg.schedEvs, hc]
        rw [h0.1, h0.2]
        split
        · simp
        · cases hra : c.retAction <;> simp only [↓reduceIte, reduceCtorEq]
          · split <;> simp
          · simp
          · simp
          · simp
          · split <;> simp
      all_goals (try split) <;> (try split) <;> (try split) <;>
        simp [Cfg.stackAfter, Cfg.stackOp, Cfg.schedEvs, hc, Spec.Op.apply, Spec.Stack.pop, Spec.Stack.close, Spec.Stack.top,
          Spec.Stack.beneath, Spec.Stack.push, Spec.Op.creates, Spec.Op.name, *]
    · have hf := (step_loopish P c ins rest hc hl).1
      have h := loopish_stackOp c ins rest hc hl
      simp [Cfg.stackAfter, h, hf.stack, hf.nextEid, hf.sched]


/-- the record of screen `i` after the step out of `c` -/
def Cfg.scrAfter (c : Cfg) (i : Nat) : ScreenObj :=
  match c.code with
  | .callScr scr cb _ _ :: _ =>
    if i = scr then { c.A.scr scr with counts := bump (c.A.scr scr).counts cb } else c.A.scr i
  | .scrRet scr .setup ret _ :: _ =>
    if i = scr ∧ ret ≠ .failBefore then { c.A.scr scr with ready := true } else c.A.scr i
  | .getInput2 scr args :: _ =>
    if i = scr then (if c.retPromptNone then { c.A.scr scr with err := 0 } else { c.A.scr scr with inputArgs := args })
    else c.A.scr i
  | .countAndAct scr :: _ =>
    if i = scr then { c.A.scr scr with err := if c.retAction = .error then (c.A.scr scr).err + 1 else 0 }
    else c.A.scr i
  | _ => c.A.scr i

/-- the callback events the step out of `c` adds to the log -/
def Cfg.cbEvs (c : Cfg) : List Ev :=
  match c.code with
  | .callScr scr cb arg key :: _ => [.cb scr cb arg key]
  | _ => []

theorem loopish_scrAfter (c : Cfg) (ins : Instr) (rest : List Instr) (hc : c.code = ins :: rest) (hl : ins.loopish = true) :
    (∀ i, c.scrAfter i = c.A.scr i) ∧ c.cbEvs = [] := by
  cases ins <;> (first | (exfalso; revert hl; simp [Instr.loopish]; done) | skip) <;>
    simp [Cfg.scrAfter, Cfg.cbEvs, hc]

theorem step_screens (P : Prog) (c : Cfg) :
    (∀ i, (sOutCfg (step P c)).A.scr i = c.scrAfter i) ∧
    cbLog (sOutCfg (step P c)).log = c.cbEvs ++ cbLog c.log := by
  rcases hc : c.code with _ | ⟨ins, rest⟩
  · simp [step_nil P c hc, Cfg.scrAfter, Cfg.cbEvs, hc]
  · cases hl : ins.loopish
    · cases ins <;> (first | (exfalso; revert hl; simp [Instr.loopish]; done) | skip) <;> simp only [step, hc]
      case act a =>
        cases a <;> (first | (exfalso; revert hl; simp [Instr.loopish, Act.isStackOp]; done) | skip) <;> simp only [doAct]
        all_goals (try split) <;> simp [Cfg.scrAfter, Cfg.cbEvs, hc, AppSt.scr]
      case countAndAct scr =>
        have h0 : (∀ i, c.scrAfter i = if i = scr then
            { c.A.scr scr with err := if c.retAction = .error then (c.A.scr scr).err + 1 else 0 } else c.A.scr i) ∧
            c.cbEvs = [] := by
          simp [Cfg.scrAfter, Cfg.cbEvs, hc]
        simp only [h0.1, h0.2]
        split
        · simp [setScr_scr]
        · cases hra : c.retAction <;> simp only [↓reduceIte, reduceCtorEq]
          · split <;> simp [setScr_scr]
          · simp [setScr_scr]
          · simp [setScr_scr]
          · simp [setScr_scr]
          · split <;> simp [setScr_scr]
      case getInput2 scr args =>
        split
        · simp [Cfg.scrAfter, Cfg.cbEvs, hc, setScr_scr, *]
        · refine ⟨fun i => ?_, by simp [Cfg.cbEvs, hc]⟩
          rw [startRequest_scr]
          show (c.A.setScr scr _).scr i = _
          simp [Cfg.scrAfter, hc, setScr_scr, *]
      case scrRet scr cb ret key =>
        cases cb <;> simp only []
        case setup => split <;> simp [Cfg.scrAfter, Cfg.cbEvs, hc, setScr_scr, *]
        all_goals simp [Cfg.scrAfter, Cfg.cbEvs, hc]
      all_goals (try split) <;> (try split) <;> (try split) <;>
        simp [Cfg.scrAfter, Cfg.cbEvs, hc, setScr_scr, *]
      all_goals try (intro i; simp [AppSt.scr]; done)
    · have hf := (step_loopish P c ins rest hc hl).1
      have h := loopish_scrAfter c ins rest hc hl
      simp [h, hf.scr, hf.cbs]


@[simp] theorem suffix_raised_tr {l : List Tr} {k : Kind} {c : Cfg} (h : l <:+ c.tr) : l <:+ (raised k c).tr :=
  h.trans (raised_tr_suffix k c)
@[simp] theorem suffix_emit_tr {l : List Tr} {P : Prog} {e : Ev} {c : Cfg} (h : l <:+ c.tr) : l <:+ (c.emit P e).tr :=
  h.trans (emit_tr_suffix P c e)
@[simp] theorem suffix_emit_log {l : List Ev} {P : Prog} {e : Ev} {c : Cfg} (h : l <:+ c.log) : l <:+ (c.emit P e).log :=
  (h.trans (List.suffix_cons _ _)).trans (emit_log_suffix P c e)
@[simp] theorem suffix_startRequest_tr {l : List Tr} {c : Cfg} {ih : Nat} {r : Src} {t : Str} (h : l <:+ c.tr) :
    l <:+ (sOutCfg (startRequest c ih r t)).tr :=
  h.trans (startRequest_tr_suffix c ih r t)
@[simp] theorem suffix_cons_of {α} {l l' : List α} (a : α) (h : l <:+ l') : l <:+ a :: l' :=
  h.trans (List.suffix_cons _ _)

theorem step_grow (P : Prog) (c : Cfg) :
    c.tr <:+ (sOutCfg (step P c)).tr ∧ c.log <:+ (sOutCfg (step P c)).log := by
  rcases hc : c.code with _ | ⟨ins, rest⟩
  · simp [step_nil P c hc]
  · cases hl : ins.loopish
    · cases ins <;> (first | (exfalso; revert hl; simp [Instr.loopish]; done) | skip) <;> simp only [step, hc]
      case act a =>
        cases a <;> (first | (exfalso; revert hl; simp [Instr.loopish, Act.isStackOp]; done) | skip) <;> simp only [doAct]
        all_goals (try split) <;> simp
      case countAndAct scr =>
        split
        · simp
        · cases hra : c.retAction <;> simp only [↓reduceIte, reduceCtorEq]
          · split <;> simp
          · simp
          · simp
          · simp
          · split <;> simp
      case scrRet scr cb ret key =>
        cases cb <;> simp only []
        case setup => split <;> simp
        all_goals simp
      all_goals (try split) <;> (try split) <;> (try split) <;> simp
    · have hf := (step_loopish P c ins rest hc hl).1
      exact ⟨hf.tr, hf.log⟩


/-- the return registers after the step out of `c` -/
def Cfg.retSetupAfter (c : Cfg) : Bool :=
  match c.code with
  | .scrRet _ .setup ret _ :: _ => decide (ret ≠ .failBefore ∧ ret ≠ .failAfter)
  | _ => c.retSetup

def Cfg.retPromptNoneAfter (c : Cfg) : Bool :=
  match c.code with
  | .scrRet _ .prompt ret _ :: _ => decide (ret = .promptNone)
  | _ => c.retPromptNone

def Cfg.retInputAfter (c : Cfg) : Ret × Str :=
  match c.code with
  | .scrRet _ .input ret key :: _ => (ret, key.getD [])
  | _ => (c.retInput, c.retKey)

def Cfg.retActionAfter (c : Cfg) : UAction :=
  match c.code with
  | .classify _ :: _ => classifyRet c.retInput c.retKey
  | _ => c.retAction

theorem loopish_retsAfter (c : Cfg) (ins : Instr) (rest : List Instr) (hc : c.code = ins :: rest) (hl : ins.loopish = true) :
    c.retSetupAfter = c.retSetup ∧ c.retPromptNoneAfter = c.retPromptNone ∧
    c.retInputAfter = (c.retInput, c.retKey) ∧ c.retActionAfter = c.retAction := by
  cases ins <;> (first | (exfalso; revert hl; simp [Instr.loopish]; done) | skip) <;>
    simp [Cfg.retSetupAfter, Cfg.retPromptNoneAfter, Cfg.retInputAfter, Cfg.retActionAfter, hc]

theorem step_rets (P : Prog) (c : Cfg) :
    (sOutCfg (step P c)).retSetup = c.retSetupAfter ∧
    (sOutCfg (step P c)).retPromptNone = c.retPromptNoneAfter ∧
    ((sOutCfg (step P c)).retInput, (sOutCfg (step P c)).retKey) = c.retInputAfter ∧
    (sOutCfg (step P c)).retAction = c.retActionAfter := by
  rcases hc : c.code with _ | ⟨ins, rest⟩
  · simp [step_nil P c hc, Cfg.retSetupAfter, Cfg.retPromptNoneAfter, Cfg.retInputAfter, Cfg.retActionAfter, hc]
  · cases hl : ins.loopish
    · cases ins <;> (first | (exfalso; revert hl; simp [Instr.loopish]; done) | skip) <;> simp only [step, hc]
      case act a =>
        cases a <;> (first | (exfalso; revert hl; simp [Instr.loopish, Act.isStackOp]; done) | skip) <;> simp only [doAct]
        all_goals (try split) <;>
          simp [Cfg.retSetupAfter, Cfg.retPromptNoneAfter, Cfg.retInputAfter, Cfg.retActionAfter, hc]
      case countAndAct scr =>
        have h0 : c.retSetupAfter = c.retSetup ∧ c.retPromptNoneAfter = c.retPromptNone ∧
            c.retInputAfter = (c.retInput, c.retKey) ∧ c.retActionAfter = c.retAction := by
          simp [Cfg.retSetupAfter, Cfg.retPromptNoneAfter, Cfg.retInputAfter, Cfg.retActionAfter, hc]
        simp only [h0]
        split
        · simp
        · cases hra : c.retAction <;> simp only [↓reduceIte, reduceCtorEq]
          · split <;> simp [hra]
          · simp [hra]
          · simp [hra]
          · simp [hra]
          · split <;> simp [hra]
      case scrRet scr cb ret key =>
        cases cb <;> simp only []
        case setup =>
          split <;> simp [Cfg.retSetupAfter, Cfg.retPromptNoneAfter, Cfg.retInputAfter, Cfg.retActionAfter, hc, *]
        all_goals simp [Cfg.retSetupAfter, Cfg.retPromptNoneAfter, Cfg.retInputAfter, Cfg.retActionAfter, hc]
      all_goals (try split) <;> (try split) <;> (try split) <;>
        simp [Cfg.retSetupAfter, Cfg.retPromptNoneAfter, Cfg.retInputAfter, Cfg.retActionAfter, hc]
    · have hf := (step_loopish P c ins rest hc hl).1
      have h := loopish_retsAfter c ins rest hc hl
      simp [h, hf.retSetup, hf.retPromptNone, hf.retInput, hf.retKey, hf.retAction]

end Simpleline
