/-
  Invariants of the reachable configurations, part 2: stack entries and their identities. Every
  entry on the stack or referred to by a pending instruction has an identity below `nextEid`, the
  identity determines the entry, and the identities on the stack are distinct.
-/
import Simpleline.Lemmas.SchedInv

namespace Simpleline
set_option linter.unusedSimpArgs false

/-! ### the shapes of a stack change -/

theorem stackAfter_cases (c : Cfg) :
    c.stackAfter = (c.A.stack, c.A.nextEid) ∨
    (∃ e, e.eid = c.A.nextEid ∧ e.modal = false ∧ c.stackAfter = (e :: c.A.stack, c.A.nextEid + 1)) ∨
    (∃ e, e.eid = c.A.nextEid ∧ c.stackAfter = (c.A.stack ++ [e], c.A.nextEid + 1)) ∨
    (∃ e old, c.A.stack.getLast? = some old ∧ e.eid = c.A.nextEid ∧ e.modal = old.modal ∧
      c.stackAfter = (c.A.stack.dropLast ++ [e], c.A.nextEid + 1)) ∨
    (c.A.stack ≠ [] ∧ c.stackAfter = (c.A.stack.dropLast, c.A.nextEid)) := by
  unfold Cfg.stackAfter
  cases c.stackOp with
  | none => simp
  | some op =>
    cases op <;> simp only [Spec.Op.apply, Spec.Stack.schedule, Spec.Stack.push, Spec.Stack.replace, Spec.Stack.pop,
      Spec.Stack.top, Spec.Stack.beneath, Spec.Op.creates]
    case schedule scr args => exact .inr (.inl ⟨⟨c.A.nextEid, scr, args, false⟩, rfl, rfl, by simp⟩)
    case push scr args => exact .inr (.inr (.inl ⟨⟨c.A.nextEid, scr, args, false⟩, rfl, by simp⟩))
    case pushModal scr args => exact .inr (.inr (.inl ⟨⟨c.A.nextEid, scr, args, true⟩, rfl, by simp⟩))
    case replace scr args =>
      cases h : c.A.stack.getLast? with
      | none => simp
      | some old => exact .inr (.inr (.inr (.inl ⟨⟨c.A.nextEid, scr, args, old.modal⟩, old, rfl, rfl, rfl, by simp⟩)))
    case close frm =>
      simp only [Spec.Stack.close, Spec.Stack.top, Spec.Stack.beneath]
      cases h : c.A.stack.getLast? with
      | none => simp
      | some old =>
        by_cases hrf : frm ≠ none ∧ frm ≠ some (.scr old.screen)
        · simp [hrf]
        · refine .inr (.inr (.inr (.inr ⟨?_, by simp [hrf]⟩)))
          intro h0; simp [h0] at h
    all_goals
      cases h : c.A.stack.getLast? with
      | none => simp
      | some old =>
        refine .inr (.inr (.inr (.inr ⟨?_, by simp⟩)))
        intro h0; simp [h0] at h

/-! ### stack entries mentioned by the code -/

def Instr.entries : Instr → List Entry
  | .modalRet e | .closeScreen2 e _ | .closeScreen3 e | .afterSetup e | .afterSetupFail e | .afterSetup2 e
  | .identCheck e | .drawScreen e | .maybeInput e => [e]
  | _ => []

def codeEnts (code : List Instr) : List Entry := code.flatMap Instr.entries

/-- every entry the configuration knows: the stack and the entries pending instructions refer to -/
def Cfg.ents (c : Cfg) : List Entry := c.A.stack ++ codeEnts c.code

theorem external_entries {i : Instr} (h : i.external = true) : i.entries = [] := by
  cases i <;> simp_all [Instr.external, Instr.entries]

theorem Pushed.entries {P : Prog} {c : Cfg} {ins : Instr} {rest pushed : List Instr} (h : Pushed P c ins pushed)
    (hc : c.code = ins :: rest) :
    ∀ e ∈ codeEnts pushed, e ∈ c.A.stack ∨ e ∈ ins.entries ∨ e ∈ c.stackAfter.1 := by
  unfold Pushed at h
  split at h
  · intro e he
    simp only [codeEnts, List.mem_flatMap] at he
    obtain ⟨i, hi, he⟩ := he
    simp [external_entries (h i hi)] at he
  · cases ins <;> simp only [SPushed] at h
    all_goals (try subst h)
    all_goals try (simp [codeEnts, Instr.entries]; done)
    case pushModal scr args =>
      obtain ⟨s, rfl⟩ := h
      simp [codeEnts, Instr.entries, Cfg.stackAfter, Cfg.stackOp, hc, Spec.Op.apply, Spec.Stack.push]
    case callScr scr cb arg key =>
      obtain ⟨pre, acts, ret, hpre, rfl⟩ := h
      intro e he
      simp only [codeEnts, List.mem_flatMap] at he
      obtain ⟨i, hi, he⟩ := he
      simp at hi
      rcases hi with hi | ⟨a, _, rfl⟩ | rfl
      · rcases hpre with rfl | rfl <;> simp at hi
        subst hi; simp [Instr.entries] at he
      · simp [Instr.entries] at he
      · simp [Instr.entries] at he
    all_goals (intro e he; simp only [codeEnts] at he; grind [Instr.entries, List.mem_of_getLast?])

theorem codeEnts_append (a b : List Instr) : codeEnts (a ++ b) = codeEnts a ++ codeEnts b := by
  simp [codeEnts]

theorem codeEnts_suffix {a b : List Instr} (h : a <:+ b) : ∀ e ∈ codeEnts a, e ∈ codeEnts b := by
  obtain ⟨t, rfl⟩ := h
  intro e he
  simp [codeEnts_append, he]

/-- Entry identities are fresh: every entry on the stack or referred to by a pending instruction has
an identity below `nextEid`, the identity determines the entry, and no identity is twice on the stack. -/
structure EntInv (c : Cfg) : Prop where
  lt : ∀ e ∈ c.ents, e.eid < c.A.nextEid
  inj : ∀ e1 ∈ c.ents, ∀ e2 ∈ c.ents, e1.eid = e2.eid → e1 = e2
  nodup : (c.A.stack.map (·.eid)).Nodup

theorem EntInv_init {c0 : Cfg} (h : Started c0) : EntInv c0 := by
  obtain ⟨init, handlers, quitCb, stdin, rfl⟩ := h
  have : (initCfg init handlers quitCb stdin).ents = [] := by
    simp [Cfg.ents, initCfg, codeEnts, Instr.entries]
  constructor
  · simp [this]
  · simp [this]
  · simp [initCfg]

theorem EntInv_dlv {c : Cfg} (h : EntInv c) : EntInv c.dlv := by
  have : c.dlv.ents = c.ents := by simp [Cfg.ents]
  exact ⟨by rw [this, dlv_nextEid]; exact h.lt, by rw [this]; exact h.inj, by rw [dlv_stack]; exact h.nodup⟩

/-- the entries after a step: the old ones and, if the step created an entry, that one -/
theorem ents_step (P : Prog) (c : Cfg) :
    c.A.nextEid ≤ (sOutCfg (step P c)).A.nextEid ∧
    ∃ e0 : Entry, e0.eid = c.A.nextEid ∧
      ∀ e ∈ (sOutCfg (step P c)).ents, e ∈ c.ents ∨ (e = e0 ∧ (sOutCfg (step P c)).A.nextEid = c.A.nextEid + 1) := by
  have hst := (step_stack P c).1
  rw [Prod.ext_iff] at hst
  obtain ⟨hs1, hs2⟩ := hst
  simp only at hs1 hs2
  -- entries of the new code
  have hcode : ∀ e ∈ codeEnts (sOutCfg (step P c)).code, e ∈ c.ents ∨ e ∈ c.stackAfter.1 := by
    rcases hc : c.code with _ | ⟨ins, rest⟩
    · rw [step_nil P c hc, hc]; simp [codeEnts]
    · obtain ⟨pushed, ⟨suf, hcd, hsuf⟩, hp⟩ := step_code P c ins rest hc
      intro e he
      rw [hcd, codeEnts_append, List.mem_append] at he
      rcases he with he | he
      · rcases hp.entries hc e he with h | h | h
        · exact .inl (by simp [Cfg.ents, h])
        · exact .inl (by simp [Cfg.ents, hc, codeEnts, h])
        · exact .inr h
      · have := codeEnts_suffix hsuf e he
        exact .inl (by simp only [Cfg.ents, hc, codeEnts, List.flatMap_cons, List.mem_append]; exact .inr (.inr this))
  have hall : ∀ e ∈ (sOutCfg (step P c)).ents, e ∈ c.ents ∨ e ∈ c.stackAfter.1 := by
    intro e he
    simp only [Cfg.ents, List.mem_append] at he
    rcases he with he | he
    · exact .inr (hs1 ▸ he)
    · exact hcode e he
  have hstack : ∀ e ∈ c.A.stack, e ∈ c.ents := fun e he => by simp [Cfg.ents, he]
  rcases stackAfter_cases c with h | ⟨e0, h0, _, h⟩ | ⟨e0, h0, h⟩ | ⟨e0, old, _, h0, _, h⟩ | ⟨_, h⟩
  · rw [h] at hall hs2
    refine ⟨by simp at hs2; omega, ⟨c.A.nextEid, 0, none, false⟩, rfl, fun e he => ?_⟩
    rcases hall e he with h' | h'
    · exact .inl h'
    · exact .inl (hstack e h')
  · rw [h] at hall hs2
    simp only at hs2
    refine ⟨by omega, e0, h0, fun e he => ?_⟩
    rcases hall e he with h' | h'
    · exact .inl h'
    · simp at h'
      rcases h' with rfl | h'
      · exact .inr ⟨rfl, hs2⟩
      · exact .inl (hstack e h')
  · rw [h] at hall hs2
    simp only at hs2
    refine ⟨by omega, e0, h0, fun e he => ?_⟩
    rcases hall e he with h' | h'
    · exact .inl h'
    · simp at h'
      rcases h' with h' | rfl
      · exact .inl (hstack e h')
      · exact .inr ⟨rfl, hs2⟩
  · rw [h] at hall hs2
    simp only at hs2
    refine ⟨by omega, e0, h0, fun e he => ?_⟩
    rcases hall e he with h' | h'
    · exact .inl h'
    · simp at h'
      rcases h' with h' | rfl
      · exact .inl (hstack e (List.dropLast_subset _ h'))
      · exact .inr ⟨rfl, hs2⟩
  · rw [h] at hall hs2
    simp only at hs2
    refine ⟨by omega, ⟨c.A.nextEid, 0, none, false⟩, rfl, fun e he => ?_⟩
    rcases hall e he with h' | h'
    · exact .inl h'
    · exact .inl (hstack e (List.dropLast_subset _ h'))

theorem EntInv_step {P : Prog} {c : Cfg} (h : EntInv c) : EntInv (sOutCfg (step P c)) := by
  obtain ⟨hle, e0, h0, hents⟩ := ents_step P c
  refine ⟨?_, ?_, ?_⟩
  · intro e he
    rcases hents e he with h' | ⟨rfl, h'⟩
    · exact Nat.lt_of_lt_of_le (h.lt e h') hle
    · omega
  · intro e1 he1 e2 he2 heq
    rcases hents e1 he1 with h1 | ⟨rfl, h1⟩ <;> rcases hents e2 he2 with h2 | ⟨rfl, h2⟩
    · exact h.inj e1 h1 e2 h2 heq
    · have := h.lt e1 h1; omega
    · have := h.lt e2 h2; omega
    · rfl
  · have hst := (step_stack P c).1
    rw [Prod.ext_iff] at hst
    have hs1 : (sOutCfg (step P c)).A.stack = c.stackAfter.1 := hst.1
    rw [hs1]
    have hlt : ∀ e ∈ c.A.stack, e.eid < c.A.nextEid := fun e he => h.lt e (by simp [Cfg.ents, he])
    have hdrop : (c.A.stack.dropLast.map (·.eid)).Nodup :=
      List.Nodup.sublist ((List.dropLast_sublist _).map _) h.nodup
    rcases stackAfter_cases c with h' | ⟨e, he, _, h'⟩ | ⟨e, he, h'⟩ | ⟨e, old, _, he, _, h'⟩ | ⟨_, h'⟩ <;> rw [h']
    · exact h.nodup
    · simp only [List.map_cons, List.nodup_cons]
      refine ⟨?_, h.nodup⟩
      intro hm
      obtain ⟨x, hx, hxe⟩ := List.mem_map.1 hm
      have := hlt x hx; omega
    · simp only [List.map_append, List.map_cons, List.map_nil, List.nodup_append]
      refine ⟨h.nodup, by simp, ?_⟩
      intro a ha b hb
      obtain ⟨x, hx, rfl⟩ := List.mem_map.1 ha
      simp at hb
      have := hlt x hx; omega
    · simp only [List.map_append, List.map_cons, List.map_nil, List.nodup_append]
      refine ⟨hdrop, by simp, ?_⟩
      intro a ha b hb
      obtain ⟨x, hx, rfl⟩ := List.mem_map.1 ha
      simp at hb
      have := hlt x (List.dropLast_subset _ hx); omega
    · exact hdrop

theorem Reach.entInv {P : Prog} {c0 c : Cfg} (h0 : Started c0) (h : Reach P c0 c) : EntInv c :=
  h.induct (EntInv_init h0) (fun _ _ => EntInv_step) (fun _ _ => EntInv_dlv)
end Simpleline
