/-
  Small concrete programs for the non-vacuity examples and counterexamples of C04, C07, C08.
-/
import Simpleline.Lemmas.SchedC07
import Simpleline.Lemmas.SchedC08

namespace Simpleline
namespace Ex

def e (eid scr : Nat) (modal : Bool := false) : Entry := { eid := eid, screen := scr, args := none, modal := modal }

/-- no input, no separator lines: keeps the runs short -/
def quiet : ScreenSpec := { inputRequired := false, noSeparator := true }

/-- Two screens. Screen 0 is scheduled; its first draw pushes screen 1; the draw of screen 1 closes it,
which reveals screen 0 again. -/
def P1 : Prog :=
  { cc := asciiClass, width := 10, screens := [quiet, quiet],
    screenScript := fun scr cb n =>
      if scr = 0 ∧ cb = .show ∧ n = 0 then { acts := [.push 1 none] }
      else if scr = 1 ∧ cb = .show then { acts := [.closeDirect] }
      else {} }

def c1 : Cfg := initCfg [.schedule 0 none] [] none []

/-- Screens 0 and 1 scheduled, 0 shown first (scheduling puts 1 at the bottom); the draw of screen 0
replaces it by screen 2; the draw of screen 2 pushes a modal screen 3, whose draw closes it. -/
def P2 : Prog :=
  { cc := asciiClass, width := 10, screens := [quiet, quiet, quiet, quiet],
    screenScript := fun scr cb n =>
      if scr = 0 ∧ cb = .show then { acts := [.replace 2 none] }
      else if scr = 2 ∧ cb = .show ∧ n = 0 then { acts := [.pushModal 3 none] }
      else if scr = 3 ∧ cb = .show then { acts := [.closeDirect] }
      else {} }

def c2 : Cfg := initCfg [.schedule 0 none, .schedule 1 none] [] none []

/-- One screen whose draw closes it: the stack runs empty and the application ends. -/
def P3 : Prog :=
  { cc := asciiClass, width := 10, screens := [quiet],
    screenScript := fun _ cb _ => if cb = .show then { acts := [.closeDirect] } else {} }

def c3 : Cfg := initCfg [.schedule 0 none] [] none []

/-- Screen 0 with input: the typed lines are answered by the script of `input()`. Screen 1 is a quit
dialog whose draw closes it at once and whose answer is "no". -/
def P4 (answers : Nat → Ret) (quit : Option Nat := none) : Prog :=
  { cc := asciiClass, width := 40, screens := [{ noSeparator := true }, { quiet with answer := some (some false) }],
    quitScreen := quit,
    screenScript := fun scr cb n =>
      if scr = 0 ∧ cb = .input then { ret := answers n }
      else if scr = 1 ∧ cb = .show then { acts := [.closeDirect] }
      else {} }

/-- the `setup` of screen 0 pushes screen 1 and succeeds: screen 0 is refreshed although it is no
longer on top (and then not drawn) -/
def P8 : Prog :=
  { cc := asciiClass, width := 10, screens := [quiet, quiet],
    screenScript := fun scr cb n => if scr = 0 ∧ cb = .setup ∧ n = 0 then { acts := [.push 1 none] } else {} }

/-- the `input()` of the only screen raises an ordinary exception -/
def P9 : Prog :=
  { cc := asciiClass, width := 40, screens := [{ noSeparator := true }],
    screenScript := fun _ cb _ => if cb = .input then { acts := [.raiseErr] } else {} }

/-- the callback invocations of a run, oldest first -/
def cbs (c : Cfg) : List Ev := (c.log.filter Ev.isCb).reverse

/-- the scheduler events of a run, oldest first -/
def sched (c : Cfg) : List Tr := (c.tr.filter Tr.isSched).reverse

def c4 (lines : List String) : Cfg := initCfg [.schedule 0 none] [] none (lines.map String.toList)

/-- A screen whose first `setup` processes the pending signals itself — among them a second render
request — so that a second `setup` of the same screen starts before the first one has returned. -/
def P5 : Prog :=
  { cc := asciiClass, width := 10, screens := [quiet],
    screenScript := fun _ cb n => if cb = .setup ∧ n = 0 then { acts := [.proc none] } else {} }

def c5 : Cfg := initCfg [.schedule 0 none, .schedRedraw] [] none []

/-- Screens 0 (bottom) and 1; the `setup` of screen 1 fails (before the base method): it is discarded
and screen 0 is processed instead. -/
def P6 : Prog :=
  { cc := asciiClass, width := 10, screens := [quiet, quiet],
    screenScript := fun scr cb _ => if scr = 1 ∧ cb = .setup then { ret := .failBefore } else {} }

def c6 : Cfg := initCfg [.schedule 1 none, .schedule 0 none] [] none []

/-- the first `setup` of screen 0 pushes screen 1 and then reports failure: what is discarded is
screen 1, and screen 0 is set up again -/
def P7 : Prog :=
  { cc := asciiClass, width := 10, screens := [quiet, quiet],
    screenScript := fun scr cb n =>
      if scr = 0 ∧ cb = .setup ∧ n = 0 then { acts := [.push 1 none], ret := .failBefore } else {} }

def c7 : Cfg := initCfg [.schedule 0 none] [] none []

/-- is the counting step of `scr` the next instruction? (`Instr` has no decidable equality) -/
def headCA (c : Cfg) (scr : Nat) : Bool :=
  match c.code with
  | .countAndAct s :: _ => s == scr
  | _ => false

theorem headCA_spec {c : Cfg} {scr : Nat} (h : headCA c scr = true) : ∃ rest, c.code = .countAndAct scr :: rest := by
  unfold headCA at h
  split at h
  · rename_i s rest hc
    exact ⟨rest, by rw [hc, beq_iff_eq.1 h]⟩
  · cases h

/-- is a `setup` callback of `scr` the next instruction? -/
def headSetup (c : Cfg) (scr : Nat) : Bool :=
  match c.code with
  | .callScr s .setup _ _ :: _ => s == scr
  | _ => false

end Ex
end Simpleline
