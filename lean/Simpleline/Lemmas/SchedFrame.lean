/-
  Frame lemmas for the abstract machine, as needed by the scheduler properties (C04, C07, C08):
  what the helper functions of `Model/Machine.lean` (`Cfg.enqueue`, `Cfg.redraw`, `Cfg.deliver`,
  `Cfg.emit`, `Cfg.raise`/`unwind`, `startRequest`, `Cfg.take`, …) do to the components the scheduler
  properties talk about: `code`, `A.stack`, `A.nextEid`, `A.screens`, the return registers, the
  callback part of the log and the scheduler part of the trace.
-/
import Simpleline.Spec.SchedSpec

namespace Simpleline

/-! ### the configuration a step ends in, whether it continues or halts -/

/-- the configuration inside a step result -/
def sOutCfg : Except (Outcome × Cfg) Cfg → Cfg
  | .ok c => c
  | .error (_, c) => c

@[simp] theorem sOutCfg_ok (c : Cfg) : sOutCfg (.ok c) = c := rfl
@[simp] theorem sOutCfg_error (o : Outcome) (c : Cfg) : sOutCfg (.error (o, c)) = c := rfl

theorem sOutCfg_of_ok {r : Except (Outcome × Cfg) Cfg} {c : Cfg} (h : r = .ok c) : c = sOutCfg r := by
  subst h; rfl
theorem sOutCfg_of_error {r : Except (Outcome × Cfg) Cfg} {o : Outcome} {c : Cfg} (h : r = .error (o, c)) :
    c = sOutCfg r := by
  subst h; rfl

/-- the environment transition, totalised the way `emit` and `take` use it -/
def Cfg.dlv (c : Cfg) : Cfg := c.deliver.getD c

theorem deliver_eq_dlv {c c' : Cfg} (h : c.deliver = some c') : c' = c.dlv := by
  simp [Cfg.dlv, h]

/-- the configuration after raising an exception (caught or not) -/
def raised (k : Kind) (c : Cfg) : Cfg := sOutCfg (c.raise k)

@[simp] theorem sOutCfg_raise (c : Cfg) (k : Kind) : sOutCfg (c.raise k) = raised k c := rfl

theorem Trans_cases {P : Prog} {c c' : Cfg} (h : Trans P c c') : c' = sOutCfg (step P c) ∨ c' = c.dlv := by
  cases h with
  | step h => exact .inl (sOutCfg_of_ok h)
  | deliver h => exact .inr (deliver_eq_dlv h)
  | halt h => exact .inl (sOutCfg_of_error h)

/-! ### scheduler part of the trace, callback part of the log -/

/-- scheduler events of a trace: stack operations, refreshes, draws -/
def schedTr (l : List Tr) : List Tr := l.filter Tr.isSched

/-- callback events of a log -/
def cbLog (l : List Ev) : List Ev := l.filter Ev.isCb

@[simp] theorem schedTr_nil : schedTr [] = [] := rfl
@[simp] theorem cbLog_nil : cbLog [] = [] := rfl
@[simp] theorem Tr.isSched_enq (a b) : (Tr.enq a b).isSched = false := rfl
@[simp] theorem Tr.isSched_dropped (a) : (Tr.dropped a).isSched = false := rfl
@[simp] theorem Tr.isSched_take (a b) : (Tr.take a b).isSched = false := rfl
@[simp] theorem Tr.isSched_putBack (a b) : (Tr.putBack a b).isSched = false := rfl
@[simp] theorem Tr.isSched_call (a b c) : (Tr.call a b c).isSched = false := rfl
@[simp] theorem Tr.isSched_dispatched (a b) : (Tr.dispatched a b).isSched = false := rfl
@[simp] theorem Tr.isSched_exit : Tr.exit.isSched = false := rfl
@[simp] theorem Tr.isSched_forceQuit : Tr.forceQuit.isSched = false := rfl
@[simp] theorem Tr.isSched_kill : Tr.kill.isSched = false := rfl
@[simp] theorem Tr.isSched_openLevel (a b) : (Tr.openLevel a b).isSched = false := rfl
@[simp] theorem Tr.isSched_closeLevel (a) : (Tr.closeLevel a).isSched = false := rfl
@[simp] theorem Tr.isSched_loopReturn (a) : (Tr.loopReturn a).isSched = false := rfl
@[simp] theorem Tr.isSched_closeReq (a b) : (Tr.closeReq a b).isSched = false := rfl
@[simp] theorem Tr.isSched_waitBegin (a b) : (Tr.waitBegin a b).isSched = false := rfl
@[simp] theorem Tr.isSched_waitEnd (a b c) : (Tr.waitEnd a b c).isSched = false := rfl
@[simp] theorem Tr.isSched_procBegin : Tr.procBegin.isSched = false := rfl
@[simp] theorem Tr.isSched_procEnd : Tr.procEnd.isSched = false := rfl
@[simp] theorem Tr.isSched_stackOp (a b) : (Tr.stackOp a b).isSched = true := rfl
@[simp] theorem Tr.isSched_show (a) : (Tr.show a).isSched = true := rfl
@[simp] theorem Tr.isSched_refresh (a) : (Tr.refresh a).isSched = true := rfl
@[simp] theorem Tr.isSched_modalBegin (a) : (Tr.modalBegin a).isSched = false := rfl
@[simp] theorem Tr.isSched_modalEnd (a) : (Tr.modalEnd a).isSched = false := rfl
@[simp] theorem Tr.isStackOp_enq (a b) : (Tr.enq a b).isStackOp = false := rfl
@[simp] theorem Tr.isStackOp_dropped (a) : (Tr.dropped a).isStackOp = false := rfl
@[simp] theorem Tr.isStackOp_take (a b) : (Tr.take a b).isStackOp = false := rfl
@[simp] theorem Tr.isStackOp_putBack (a b) : (Tr.putBack a b).isStackOp = false := rfl
@[simp] theorem Tr.isStackOp_call (a b c) : (Tr.call a b c).isStackOp = false := rfl
@[simp] theorem Tr.isStackOp_dispatched (a b) : (Tr.dispatched a b).isStackOp = false := rfl
@[simp] theorem Tr.isStackOp_exit : Tr.exit.isStackOp = false := rfl
@[simp] theorem Tr.isStackOp_forceQuit : Tr.forceQuit.isStackOp = false := rfl
@[simp] theorem Tr.isStackOp_kill : Tr.kill.isStackOp = false := rfl
@[simp] theorem Tr.isStackOp_openLevel (a b) : (Tr.openLevel a b).isStackOp = false := rfl
@[simp] theorem Tr.isStackOp_closeLevel (a) : (Tr.closeLevel a).isStackOp = false := rfl
@[simp] theorem Tr.isStackOp_loopReturn (a) : (Tr.loopReturn a).isStackOp = false := rfl
@[simp] theorem Tr.isStackOp_closeReq (a b) : (Tr.closeReq a b).isStackOp = false := rfl
@[simp] theorem Tr.isStackOp_waitBegin (a b) : (Tr.waitBegin a b).isStackOp = false := rfl
@[simp] theorem Tr.isStackOp_waitEnd (a b c) : (Tr.waitEnd a b c).isStackOp = false := rfl
@[simp] theorem Tr.isStackOp_procBegin : Tr.procBegin.isStackOp = false := rfl
@[simp] theorem Tr.isStackOp_procEnd : Tr.procEnd.isStackOp = false := rfl
@[simp] theorem Tr.isStackOp_stackOp (a b) : (Tr.stackOp a b).isStackOp = true := rfl
@[simp] theorem Tr.isStackOp_show (a) : (Tr.show a).isStackOp = false := rfl
@[simp] theorem Tr.isStackOp_refresh (a) : (Tr.refresh a).isStackOp = false := rfl
@[simp] theorem Tr.isStackOp_modalBegin (a) : (Tr.modalBegin a).isStackOp = false := rfl
@[simp] theorem Tr.isStackOp_modalEnd (a) : (Tr.modalEnd a).isStackOp = false := rfl
@[simp] theorem Ev.isCb_cb (a b c d) : (Ev.cb a b c d).isCb = true := rfl
@[simp] theorem Ev.isCb_h (a b c d) : (Ev.h a b c d).isCb = false := rfl
@[simp] theorem Ev.isCb_hret (a) : (Ev.hret a).isCb = false := rfl
@[simp] theorem Ev.isCb_read (a) : (Ev.read a).isCb = false := rfl
@[simp] theorem Ev.isCb_note (a) : (Ev.note a).isCb = false := rfl
@[simp] theorem Ev.isCb_quitcb (a) : (Ev.quitcb a).isCb = false := rfl

@[simp] theorem schedTr_cons (t : Tr) (l : List Tr) :
    schedTr (t :: l) = if t.isSched then t :: schedTr l else schedTr l := by
  simp [schedTr, List.filter_cons]
@[simp] theorem cbLog_cons (e : Ev) (l : List Ev) : cbLog (e :: l) = if e.isCb then e :: cbLog l else cbLog l := by
  simp [cbLog, List.filter_cons]
theorem schedTr_append (a b : List Tr) : schedTr (a ++ b) = schedTr a ++ schedTr b := by simp [schedTr]

/-- the trace event of an `enqueue_signal` -/
def enqEv (L : LoopSt) (s : Sig) : Tr := if L.forceQuit then .dropped s else .enq (L.route s.src) s

@[simp] theorem enqEv_isSched (L : LoopSt) (s : Sig) : (enqEv L s).isSched = false := by
  unfold enqEv; split <;> rfl
@[simp] theorem enqEv_isStackOp (L : LoopSt) (s : Sig) : (enqEv L s).isStackOp = false := by
  unfold enqEv; split <;> rfl

theorem enqEv_isEnq (L : LoopSt) (s : Sig) : enqEv L s = .dropped s ∨ ∃ q, enqEv L s = .enq q s := by
  unfold enqEv; split
  · exact .inl rfl
  · exact .inr ⟨_, rfl⟩

/-! ### `trace`, `push`, `write`, `newSig`: plain record updates -/

attribute [simp] Cfg.trace push Cfg.write Cfg.newSig newIH

/-! ### `enqueue` -/

@[simp] theorem enqueue_A (c : Cfg) (s : Sig) : (c.enqueue s).A = c.A := by unfold Cfg.enqueue; split <;> rfl
@[simp] theorem enqueue_code (c : Cfg) (s : Sig) : (c.enqueue s).code = c.code := by unfold Cfg.enqueue; split <;> rfl
@[simp] theorem enqueue_log (c : Cfg) (s : Sig) : (c.enqueue s).log = c.log := by unfold Cfg.enqueue; split <;> rfl
@[simp] theorem enqueue_nextSid (c : Cfg) (s : Sig) : (c.enqueue s).nextSid = c.nextSid := by unfold Cfg.enqueue; split <;> rfl
@[simp] theorem enqueue_retSetup (c : Cfg) (s : Sig) : (c.enqueue s).retSetup = c.retSetup := by unfold Cfg.enqueue; split <;> rfl
@[simp] theorem enqueue_retPromptNone (c : Cfg) (s : Sig) : (c.enqueue s).retPromptNone = c.retPromptNone := by unfold Cfg.enqueue; split <;> rfl
@[simp] theorem enqueue_retInput (c : Cfg) (s : Sig) : (c.enqueue s).retInput = c.retInput := by unfold Cfg.enqueue; split <;> rfl
@[simp] theorem enqueue_retKey (c : Cfg) (s : Sig) : (c.enqueue s).retKey = c.retKey := by unfold Cfg.enqueue; split <;> rfl
@[simp] theorem enqueue_retAction (c : Cfg) (s : Sig) : (c.enqueue s).retAction = c.retAction := by unfold Cfg.enqueue; split <;> rfl
@[simp] theorem enqueue_tr (c : Cfg) (s : Sig) : (c.enqueue s).tr = enqEv c.L s :: c.tr := by
  unfold Cfg.enqueue enqEv; split <;> rfl
@[simp] theorem enqueue_forceQuit (c : Cfg) (s : Sig) : (c.enqueue s).L.forceQuit = c.L.forceQuit := by
  unfold Cfg.enqueue; split <;> rfl

/-! ### `redraw` -/

/-- the render signal `redraw` creates -/
def renderSig (c : Cfg) : Sig := { id := c.nextSid + 1, cls := .render, prio := 0, src := .sched }

theorem redraw_eq (c : Cfg) : c.redraw = ({ c with nextSid := c.nextSid + 1 } : Cfg).enqueue (renderSig c) := rfl

@[simp] theorem redraw_A (c : Cfg) : c.redraw.A = c.A := by simp [redraw_eq]
@[simp] theorem redraw_code (c : Cfg) : c.redraw.code = c.code := by simp [redraw_eq]
@[simp] theorem redraw_log (c : Cfg) : c.redraw.log = c.log := by simp [redraw_eq]
@[simp] theorem redraw_retSetup (c : Cfg) : c.redraw.retSetup = c.retSetup := by simp [redraw_eq]
@[simp] theorem redraw_retPromptNone (c : Cfg) : c.redraw.retPromptNone = c.retPromptNone := by simp [redraw_eq]
@[simp] theorem redraw_retInput (c : Cfg) : c.redraw.retInput = c.retInput := by simp [redraw_eq]
@[simp] theorem redraw_retKey (c : Cfg) : c.redraw.retKey = c.retKey := by simp [redraw_eq]
@[simp] theorem redraw_retAction (c : Cfg) : c.redraw.retAction = c.retAction := by simp [redraw_eq]
@[simp] theorem redraw_tr (c : Cfg) : c.redraw.tr = enqEv c.L (renderSig c) :: c.tr := by simp [redraw_eq]

/-! ### `deliver` -/

/-- the signal a delivery enqueues -/
def dlvSig (c : Cfg) (r : Nat) : Sig :=
  { id := c.nextSid + 1, cls := .inputReceived, prio := 0, src := .req r, line := c.A.stdin.headD [] }

theorem dlv_cases (c : Cfg) :
    (c.A.readers = [] ∧ c.dlv = c) ∨
    (∃ r rs, c.A.readers = r :: rs ∧
      c.dlv = ({ c with A := { c.A with readers := rs, stdin := c.A.stdin.tail },
                        log := .read (c.A.stdin.headD []) :: c.log,
                        nextSid := c.nextSid + 1 } : Cfg).enqueue (dlvSig c r)) := by
  unfold Cfg.dlv Cfg.deliver
  split
  · exact .inl ⟨‹_›, rfl⟩
  · exact .inr ⟨_, _, ‹_›, rfl⟩

@[simp] theorem dlv_code (c : Cfg) : c.dlv.code = c.code := by
  rcases dlv_cases c with ⟨_, h⟩ | ⟨_, _, _, h⟩ <;> simp [h]
@[simp] theorem dlv_stack (c : Cfg) : c.dlv.A.stack = c.A.stack := by
  rcases dlv_cases c with ⟨_, h⟩ | ⟨_, _, _, h⟩ <;> simp [h]
@[simp] theorem dlv_nextEid (c : Cfg) : c.dlv.A.nextEid = c.A.nextEid := by
  rcases dlv_cases c with ⟨_, h⟩ | ⟨_, _, _, h⟩ <;> simp [h]
@[simp] theorem dlv_screens (c : Cfg) : c.dlv.A.screens = c.A.screens := by
  rcases dlv_cases c with ⟨_, h⟩ | ⟨_, _, _, h⟩ <;> simp [h]
@[simp] theorem dlv_scr (c : Cfg) (i : Nat) : c.dlv.A.scr i = c.A.scr i := by simp [AppSt.scr]
@[simp] theorem dlv_retSetup (c : Cfg) : c.dlv.retSetup = c.retSetup := by
  rcases dlv_cases c with ⟨_, h⟩ | ⟨_, _, _, h⟩ <;> simp [h]
@[simp] theorem dlv_retPromptNone (c : Cfg) : c.dlv.retPromptNone = c.retPromptNone := by
  rcases dlv_cases c with ⟨_, h⟩ | ⟨_, _, _, h⟩ <;> simp [h]
@[simp] theorem dlv_retInput (c : Cfg) : c.dlv.retInput = c.retInput := by
  rcases dlv_cases c with ⟨_, h⟩ | ⟨_, _, _, h⟩ <;> simp [h]
@[simp] theorem dlv_retKey (c : Cfg) : c.dlv.retKey = c.retKey := by
  rcases dlv_cases c with ⟨_, h⟩ | ⟨_, _, _, h⟩ <;> simp [h]
@[simp] theorem dlv_retAction (c : Cfg) : c.dlv.retAction = c.retAction := by
  rcases dlv_cases c with ⟨_, h⟩ | ⟨_, _, _, h⟩ <;> simp [h]
@[simp] theorem dlv_cbLog (c : Cfg) : cbLog c.dlv.log = cbLog c.log := by
  rcases dlv_cases c with ⟨_, h⟩ | ⟨_, _, _, h⟩ <;> simp [h]
@[simp] theorem dlv_schedTr (c : Cfg) : schedTr c.dlv.tr = schedTr c.tr := by
  rcases dlv_cases c with ⟨_, h⟩ | ⟨_, _, _, h⟩ <;> simp [h]
theorem dlv_tr_suffix (c : Cfg) : c.tr <:+ c.dlv.tr := by
  rcases dlv_cases c with ⟨_, h⟩ | ⟨_, _, _, h⟩ <;> simp [h]
theorem dlv_log_suffix (c : Cfg) : c.log <:+ c.dlv.log := by
  rcases dlv_cases c with ⟨_, h⟩ | ⟨_, _, _, h⟩ <;> simp [h]

/-! ### `emit` -/

theorem emit_eq (P : Prog) (c : Cfg) (e : Ev) :
    c.emit P e = if P.deliverAt.contains (c.log.length + 1) then ({ c with log := e :: c.log } : Cfg).dlv
                 else { c with log := e :: c.log } := rfl

@[simp] theorem emit_code (P : Prog) (c : Cfg) (e : Ev) : (c.emit P e).code = c.code := by
  rw [emit_eq]; split <;> simp
@[simp] theorem emit_stack (P : Prog) (c : Cfg) (e : Ev) : (c.emit P e).A.stack = c.A.stack := by
  rw [emit_eq]; split <;> simp
@[simp] theorem emit_nextEid (P : Prog) (c : Cfg) (e : Ev) : (c.emit P e).A.nextEid = c.A.nextEid := by
  rw [emit_eq]; split <;> simp
@[simp] theorem emit_screens (P : Prog) (c : Cfg) (e : Ev) : (c.emit P e).A.screens = c.A.screens := by
  rw [emit_eq]; split <;> simp
@[simp] theorem emit_scr (P : Prog) (c : Cfg) (e : Ev) (i : Nat) : (c.emit P e).A.scr i = c.A.scr i := by
  simp [AppSt.scr]
@[simp] theorem emit_retSetup (P : Prog) (c : Cfg) (e : Ev) : (c.emit P e).retSetup = c.retSetup := by
  rw [emit_eq]; split <;> simp
@[simp] theorem emit_retPromptNone (P : Prog) (c : Cfg) (e : Ev) : (c.emit P e).retPromptNone = c.retPromptNone := by
  rw [emit_eq]; split <;> simp
@[simp] theorem emit_retInput (P : Prog) (c : Cfg) (e : Ev) : (c.emit P e).retInput = c.retInput := by
  rw [emit_eq]; split <;> simp
@[simp] theorem emit_retKey (P : Prog) (c : Cfg) (e : Ev) : (c.emit P e).retKey = c.retKey := by
  rw [emit_eq]; split <;> simp
@[simp] theorem emit_retAction (P : Prog) (c : Cfg) (e : Ev) : (c.emit P e).retAction = c.retAction := by
  rw [emit_eq]; split <;> simp
@[simp] theorem emit_cbLog (P : Prog) (c : Cfg) (e : Ev) : cbLog (c.emit P e).log = cbLog (e :: c.log) := by
  rw [emit_eq]; split <;> simp
@[simp] theorem emit_schedTr (P : Prog) (c : Cfg) (e : Ev) : schedTr (c.emit P e).tr = schedTr c.tr := by
  rw [emit_eq]; split <;> simp
theorem emit_tr_suffix (P : Prog) (c : Cfg) (e : Ev) : c.tr <:+ (c.emit P e).tr := by
  rw [emit_eq]; split
  · exact dlv_tr_suffix ({ c with log := e :: c.log } : Cfg)
  · exact List.suffix_refl _
theorem emit_log_suffix (P : Prog) (c : Cfg) (e : Ev) : e :: c.log <:+ (c.emit P e).log := by
  rw [emit_eq]; split
  · exact dlv_log_suffix ({ c with log := e :: c.log } : Cfg)
  · exact List.suffix_refl _

/-! ### exceptions -/

theorem unwind_frame (k : Kind) (code : List Instr) (c : Cfg) :
    (sOutCfg (unwind k code c)).A = c.A ∧ (sOutCfg (unwind k code c)).log = c.log ∧
    (sOutCfg (unwind k code c)).retSetup = c.retSetup ∧ (sOutCfg (unwind k code c)).retPromptNone = c.retPromptNone ∧
    (sOutCfg (unwind k code c)).retInput = c.retInput ∧ (sOutCfg (unwind k code c)).retKey = c.retKey ∧
    (sOutCfg (unwind k code c)).retAction = c.retAction ∧
    (sOutCfg (unwind k code c)).code <:+ code ∧
    schedTr (sOutCfg (unwind k code c)).tr = schedTr c.tr ∧ c.tr <:+ (sOutCfg (unwind k code c)).tr := by
  induction code with
  | nil => unfold unwind; cases k <;> simp
  | cons ins rest ih =>
    unfold unwind
    split
    · simp
    · simp
    · simp
    · simp
      exact (List.tail_suffix _).trans ((List.dropWhile_suffix _).trans (List.suffix_cons _ _))
    · simp
    · obtain ⟨h1, h2, h3, h4, h5, h6, h7, h8, h9, h10⟩ := ih
      exact ⟨h1, h2, h3, h4, h5, h6, h7, h8.trans (List.suffix_cons _ _), h9, h10⟩

theorem raised_eq (k : Kind) (c : Cfg) :
    raised k c = sOutCfg (unwind k c.code (if k = .exit then c.trace .exit else c)) := by
  cases k <;> rfl

theorem raised_frame (k : Kind) (c : Cfg) :
    (raised k c).A = c.A ∧ (raised k c).log = c.log ∧
    (raised k c).retSetup = c.retSetup ∧ (raised k c).retPromptNone = c.retPromptNone ∧
    (raised k c).retInput = c.retInput ∧ (raised k c).retKey = c.retKey ∧
    (raised k c).retAction = c.retAction ∧
    (raised k c).code <:+ c.code ∧
    schedTr (raised k c).tr = schedTr c.tr ∧ c.tr <:+ (raised k c).tr := by
  rw [raised_eq]
  have h := unwind_frame k c.code (if k = .exit then c.trace .exit else c)
  by_cases hk : k = .exit
  · simp only [hk, if_true] at h ⊢
    obtain ⟨h1, h2, h3, h4, h5, h6, h7, h8, h9, h10⟩ := h
    refine ⟨h1, h2, h3, h4, h5, h6, h7, h8, ?_, ?_⟩
    · simpa using h9
    · exact (List.suffix_cons _ _).trans h10
  · simpa only [hk, if_false] using h

@[simp] theorem raised_A (k : Kind) (c : Cfg) : (raised k c).A = c.A := (raised_frame k c).1
@[simp] theorem raised_log (k : Kind) (c : Cfg) : (raised k c).log = c.log := (raised_frame k c).2.1
@[simp] theorem raised_retSetup (k : Kind) (c : Cfg) : (raised k c).retSetup = c.retSetup := (raised_frame k c).2.2.1
@[simp] theorem raised_retPromptNone (k : Kind) (c : Cfg) : (raised k c).retPromptNone = c.retPromptNone :=
  (raised_frame k c).2.2.2.1
@[simp] theorem raised_retInput (k : Kind) (c : Cfg) : (raised k c).retInput = c.retInput := (raised_frame k c).2.2.2.2.1
@[simp] theorem raised_retKey (k : Kind) (c : Cfg) : (raised k c).retKey = c.retKey := (raised_frame k c).2.2.2.2.2.1
@[simp] theorem raised_retAction (k : Kind) (c : Cfg) : (raised k c).retAction = c.retAction :=
  (raised_frame k c).2.2.2.2.2.2.1
theorem raised_code_suffix (k : Kind) (c : Cfg) : (raised k c).code <:+ c.code := (raised_frame k c).2.2.2.2.2.2.2.1
@[simp] theorem raised_schedTr (k : Kind) (c : Cfg) : schedTr (raised k c).tr = schedTr c.tr :=
  (raised_frame k c).2.2.2.2.2.2.2.2.1
theorem raised_tr_suffix (k : Kind) (c : Cfg) : c.tr <:+ (raised k c).tr := (raised_frame k c).2.2.2.2.2.2.2.2.2

/-! ### screens table, requests, `take` -/

theorem getD_pad {α} (l : List α) (n : Nat) (d : α) (j : Nat) :
    (l ++ List.replicate n d)[j]?.getD d = l[j]?.getD d := by
  by_cases h : j < l.length
  · simp [List.getElem?_append_left h]
  · have h' : l.length ≤ j := by omega
    rw [List.getElem?_append_right h']
    simp [List.getElem?_replicate]
    split <;> simp [List.getElem?_eq_none h']

theorem setScr_scr (A : AppSt) (i : Nat) (f : ScreenObj → ScreenObj) (j : Nat) :
    (A.setScr i f).scr j = if j = i then f (A.scr i) else A.scr j := by
  unfold AppSt.setScr AppSt.scr listSet
  simp only [List.getD_eq_getElem?_getD, List.getElem?_modify]
  split
  · subst_vars
    have hlt : j < (A.screens ++ List.replicate (j + 1 - A.screens.length) ({} : ScreenObj)).length := by
      simp; omega
    rw [if_pos rfl]
    have := getD_pad A.screens (j + 1 - A.screens.length) {} j
    rw [List.getElem?_eq_getElem hlt] at this ⊢
    simp only [Option.getD_some] at this
    simp [this]
  · rename_i h
    rw [if_neg (fun h' => h h'.symm)]
    simpa using getD_pad _ _ _ _

theorem startRequest_frame (c : Cfg) (ih : Nat) (r : Src) (t : Str) :
    (sOutCfg (startRequest c ih r t)).A.stack = c.A.stack ∧
    (sOutCfg (startRequest c ih r t)).A.nextEid = c.A.nextEid ∧
    (sOutCfg (startRequest c ih r t)).A.screens = c.A.screens ∧
    (sOutCfg (startRequest c ih r t)).log = c.log ∧
    (sOutCfg (startRequest c ih r t)).retSetup = c.retSetup ∧
    (sOutCfg (startRequest c ih r t)).retPromptNone = c.retPromptNone ∧
    (sOutCfg (startRequest c ih r t)).retInput = c.retInput ∧
    (sOutCfg (startRequest c ih r t)).retKey = c.retKey ∧
    (sOutCfg (startRequest c ih r t)).retAction = c.retAction ∧
    (sOutCfg (startRequest c ih r t)).code <:+ c.code ∧
    schedTr (sOutCfg (startRequest c ih r t)).tr = schedTr c.tr ∧
    c.tr <:+ (sOutCfg (startRequest c ih r t)).tr := by
  unfold startRequest
  simp only []
  split
  · simp
    refine ⟨raised_code_suffix _ _, ?_⟩
    apply List.IsSuffix.trans ?_ (raised_tr_suffix _ _)
    exact List.suffix_refl _
  · split <;> simp

@[simp] theorem setScr_stack (A : AppSt) (i : Nat) (f : ScreenObj → ScreenObj) : (A.setScr i f).stack = A.stack := rfl
@[simp] theorem setScr_nextEid (A : AppSt) (i : Nat) (f : ScreenObj → ScreenObj) : (A.setScr i f).nextEid = A.nextEid := rfl

@[simp] theorem startRequest_stack (c : Cfg) (ih : Nat) (r : Src) (t : Str) :
    (sOutCfg (startRequest c ih r t)).A.stack = c.A.stack := (startRequest_frame c ih r t).1
@[simp] theorem startRequest_nextEid (c : Cfg) (ih : Nat) (r : Src) (t : Str) :
    (sOutCfg (startRequest c ih r t)).A.nextEid = c.A.nextEid := (startRequest_frame c ih r t).2.1
@[simp] theorem startRequest_screens (c : Cfg) (ih : Nat) (r : Src) (t : Str) :
    (sOutCfg (startRequest c ih r t)).A.screens = c.A.screens := (startRequest_frame c ih r t).2.2.1
@[simp] theorem startRequest_scr (c : Cfg) (ih : Nat) (r : Src) (t : Str) (i : Nat) :
    (sOutCfg (startRequest c ih r t)).A.scr i = c.A.scr i := by simp [AppSt.scr]
@[simp] theorem startRequest_log (c : Cfg) (ih : Nat) (r : Src) (t : Str) :
    (sOutCfg (startRequest c ih r t)).log = c.log := (startRequest_frame c ih r t).2.2.2.1
@[simp] theorem startRequest_retSetup (c : Cfg) (ih : Nat) (r : Src) (t : Str) :
    (sOutCfg (startRequest c ih r t)).retSetup = c.retSetup := (startRequest_frame c ih r t).2.2.2.2.1
@[simp] theorem startRequest_retPromptNone (c : Cfg) (ih : Nat) (r : Src) (t : Str) :
    (sOutCfg (startRequest c ih r t)).retPromptNone = c.retPromptNone := (startRequest_frame c ih r t).2.2.2.2.2.1
@[simp] theorem startRequest_retInput (c : Cfg) (ih : Nat) (r : Src) (t : Str) :
    (sOutCfg (startRequest c ih r t)).retInput = c.retInput := (startRequest_frame c ih r t).2.2.2.2.2.2.1
@[simp] theorem startRequest_retKey (c : Cfg) (ih : Nat) (r : Src) (t : Str) :
    (sOutCfg (startRequest c ih r t)).retKey = c.retKey := (startRequest_frame c ih r t).2.2.2.2.2.2.2.1
@[simp] theorem startRequest_retAction (c : Cfg) (ih : Nat) (r : Src) (t : Str) :
    (sOutCfg (startRequest c ih r t)).retAction = c.retAction := (startRequest_frame c ih r t).2.2.2.2.2.2.2.2.1
theorem startRequest_code_suffix (c : Cfg) (ih : Nat) (r : Src) (t : Str) :
    (sOutCfg (startRequest c ih r t)).code <:+ c.code := (startRequest_frame c ih r t).2.2.2.2.2.2.2.2.2.1
@[simp] theorem startRequest_schedTr (c : Cfg) (ih : Nat) (r : Src) (t : Str) :
    schedTr (sOutCfg (startRequest c ih r t)).tr = schedTr c.tr := (startRequest_frame c ih r t).2.2.2.2.2.2.2.2.2.2.1
theorem startRequest_tr_suffix (c : Cfg) (ih : Nat) (r : Src) (t : Str) :
    c.tr <:+ (sOutCfg (startRequest c ih r t)).tr := (startRequest_frame c ih r t).2.2.2.2.2.2.2.2.2.2.2

@[simp] theorem suffix_cons2 {α} (a b : α) (l : List α) : l <:+ a :: b :: l :=
  (List.suffix_cons _ _).trans (List.suffix_cons _ _)
@[simp] theorem suffix_cons3 {α} (a b c : α) (l : List α) : l <:+ a :: b :: c :: l :=
  (suffix_cons2 _ _ _).trans (List.suffix_cons _ _)

/-- `take` after the possible delivery -/
def takeFrom (c : Cfg) : Except (Outcome × Cfg) (Sig × Cfg) :=
  match c.L.activeQ.entries with
  | [] => .error (.blocked, c)
  | e :: es =>
    .ok (e.2.2, { c with L := { c.L with queues := listSet c.L.queues c.L.active fun q => { q with entries := es } },
                         tr := .take c.L.active e.2.2 :: c.tr })

theorem take_eq (c : Cfg) : c.take = takeFrom (if c.L.activeQ.entries = [] then c.dlv else c) := rfl

theorem takeFrom_cases (c : Cfg) :
    takeFrom c = .error (.blocked, c) ∨
    ∃ s L, takeFrom c = .ok (s, { c with L := L, tr := .take c.L.active s :: c.tr }) := by
  unfold takeFrom
  split
  · exact .inl rfl
  · exact .inr ⟨_, _, rfl⟩

theorem take_cases (c : Cfg) :
    ∃ c1, (c1 = c ∨ c1 = c.dlv) ∧
      (c.take = .error (.blocked, c1) ∨
       ∃ s L, c.take = .ok (s, { c1 with L := L, tr := .take c1.L.active s :: c1.tr })) := by
  rw [take_eq]
  split
  · exact ⟨_, .inr rfl, takeFrom_cases _⟩
  · exact ⟨_, .inl rfl, takeFrom_cases _⟩

end Simpleline
