/-
  Invariants of the reachable configurations, part 3: `drawScreen top` runs only while `top` is the
  top of the stack, `setup` is invoked only on a screen that is not ready, and every draw event of
  the trace has an earlier refresh event of the same entry.
-/
import Simpleline.Lemmas.SchedEnt

namespace Simpleline
set_option linter.unusedSimpArgs false

/-! ### what holds when an instruction that runs at once stands at the head -/

/-- `drawScreen top` is only executed while `top` is the top of the stack; the `setup` callback is
only invoked on a screen that is not ready -/
structure HeadInv (c : Cfg) : Prop where
  draw : ∀ top, c.code.head? = some (.drawScreen top) → c.A.stack.getLast? = some top
  setup : ∀ scr a k, c.code.head? = some (.callScr scr .setup a k) → (c.A.scr scr).ready = false

theorem HeadInv_init {c0 : Cfg} (h : Started c0) : HeadInv c0 := by
  obtain ⟨init, handlers, quitCb, stdin, rfl⟩ := h
  constructor
  · intro top h
    cases init <;> simp [initCfg] at h
  · intro scr a k h
    cases init <;> simp [initCfg] at h

theorem HeadInv_dlv {c : Cfg} (h : HeadInv c) : HeadInv c.dlv :=
  ⟨by simpa using h.draw, by simpa using h.setup⟩

theorem stackAfter_of_none {c : Cfg} (h : c.stackOp = none) : c.stackAfter = (c.A.stack, c.A.nextEid) := by
  simp [Cfg.stackAfter, h]

theorem HeadInv_step {P : Prog} {c : Cfg} (hi : Imm c) (he : EntInv c) : HeadInv (sOutCfg (step P c)) := by
  rcases hc : c.code with _ | ⟨ins, rest⟩
  · rw [step_nil P c hc]
    constructor <;> simp [hc]
  · have hst := (step_stack P c).1
    rw [Prod.ext_iff] at hst
    have hs1 : (sOutCfg (step P c)).A.stack = c.stackAfter.1 := hst.1
    constructor
    · intro top hh
      have := head_imm_after hi hc hh rfl
      simp only [ImmPushedBy, reduceCtorEq, and_false, exists_false, false_or, or_false, exists_const] at this
      obtain ⟨top', l, rfl, hl, heid, hd⟩ := this
      cases hd
      rw [hs1, stackAfter_of_none (by simp [Cfg.stackOp, hc])]
      have h1 : l ∈ c.ents := by simp [Cfg.ents, List.mem_of_getLast? hl]
      have h2 : top ∈ c.ents := by simp [Cfg.ents, hc, codeEnts, Instr.entries]
      rw [he.inj l h1 top h2 heid] at hl
      exact hl
    · intro scr a k hh
      have := head_imm_after hi hc hh rfl
      simp only [ImmPushedBy, reduceCtorEq, and_false, exists_false, false_or, or_false, exists_const,
        Instr.callScr.injEq, false_and] at this
      obtain ⟨top, rfl, _, hr, rfl, _⟩ := this
      rw [(step_screens P c).1]
      simpa [Cfg.scrAfter, hc] using hr

theorem Reach.headInv {P : Prog} {c0 c : Cfg} (h0 : Started c0) (h : Reach P c0 c) : HeadInv c :=
  h.induct (HeadInv_init h0) (fun _ hr _ => HeadInv_step (hr.imm h0) (hr.entInv h0)) (fun _ _ => HeadInv_dlv)

/-! ### every draw is preceded by a refresh of the same entry -/

/-- in a trace (newest first), every `show e` has a `refresh e` before it -/
def ShowsOK : List Tr → Prop
  | [] => True
  | .show e :: l => .refresh e ∈ l ∧ ShowsOK l
  | _ :: l => ShowsOK l

theorem ShowsOK_append_right {a b : List Tr} (h : ShowsOK (a ++ b)) : ShowsOK b := by
  induction a with
  | nil => exact h
  | cons t a ih =>
    cases t <;> simp only [List.cons_append, ShowsOK] at h <;> first | exact ih h | exact ih h.2

theorem Pushed.ident_draw {P : Prog} {c : Cfg} {ins : Instr} {pushed : List Instr} (h : Pushed P c ins pushed)
    (top : Entry) (hm : .identCheck top ∈ pushed ∨ .drawScreen top ∈ pushed) :
    ins = .afterSetup2 top ∨ ins = .identCheck top := by
  unfold Pushed at h
  split at h
  · rcases hm with hm | hm <;> have := h _ hm <;> simp [Instr.external] at this
  · cases ins <;> simp only [SPushed] at h
    all_goals (try subst h)
    all_goals try (simp at hm; done)
    case callScr scr cb arg key =>
      obtain ⟨pre, acts, ret, hpre, rfl⟩ := h
      rcases hpre with rfl | rfl <;> simp at hm
    all_goals grind

structure RefInv (c : Cfg) : Prop where
  pending : ∀ top, (.identCheck top ∈ c.code ∨ .drawScreen top ∈ c.code) → .refresh top ∈ schedTr c.tr
  shows : ShowsOK (schedTr c.tr)

theorem RefInv_init {c0 : Cfg} (h : Started c0) : RefInv c0 := by
  obtain ⟨init, handlers, quitCb, stdin, rfl⟩ := h
  constructor
  · intro top h
    simp [initCfg] at h
  · simp [initCfg, ShowsOK]

theorem RefInv_dlv {c : Cfg} (h : RefInv c) : RefInv c.dlv :=
  ⟨by simpa using h.pending, by simpa using h.shows⟩

theorem schedEvs_cases (c : Cfg) :
    c.schedEvs = [] ∨ (∃ top rest, c.code = .afterSetup2 top :: rest ∧ c.schedEvs = [.refresh top]) ∨
    (∃ top rest, c.code = .drawScreen top :: rest ∧ c.schedEvs = [.show top]) ∨
    (∃ w s, c.schedEvs = [.stackOp w s]) := by
  unfold Cfg.schedEvs
  split
  · exact .inr (.inl ⟨_, _, ‹_›, rfl⟩)
  · exact .inr (.inr (.inl ⟨_, _, ‹_›, rfl⟩))
  · split
    · exact .inl rfl
    · split
      · exact .inl rfl
      · exact .inr (.inr (.inr ⟨_, _, rfl⟩))

theorem RefInv_step {P : Prog} {c : Cfg} (h : RefInv c) : RefInv (sOutCfg (step P c)) := by
  have htr := (step_stack P c).2
  constructor
  · intro top hm
    rw [htr]
    rcases hc : c.code with _ | ⟨ins, rest⟩
    · rw [step_nil P c hc, hc] at hm; simp at hm
    · obtain ⟨pushed, ⟨suf, hcd, hsuf⟩, hp⟩ := step_code P c ins rest hc
      rw [hcd] at hm
      simp only [List.mem_append] at hm
      have hsub : ∀ i ∈ suf, i ∈ c.code := fun i hi => by rw [hc]; exact List.mem_cons_of_mem _ (hsuf.subset hi)
      by_cases hin : .identCheck top ∈ pushed ∨ .drawScreen top ∈ pushed
      · rcases hp.ident_draw top hin with rfl | rfl
        · simp [Cfg.schedEvs, hc]
        · exact List.mem_append_right _ (h.pending top (.inl (by simp [hc])))
      · refine List.mem_append_right _ (h.pending top ?_)
        rcases hm with (hm | hm) | (hm | hm)
        · exact absurd (.inl hm) hin
        · exact .inl (hsub _ hm)
        · exact absurd (.inr hm) hin
        · exact .inr (hsub _ hm)
  · rw [htr]
    rcases schedEvs_cases c with h' | ⟨top, rest, _, h'⟩ | ⟨top, rest, hc, h'⟩ | ⟨w, s, h'⟩ <;> rw [h']
    · exact h.shows
    · exact h.shows
    · exact ⟨h.pending top (.inr (by simp [hc])), h.shows⟩
    · exact h.shows

theorem Reach.refInv {P : Prog} {c0 c : Cfg} (h0 : Started c0) (h : Reach P c0 c) : RefInv c :=
  h.induct (RefInv_init h0) (fun _ _ => RefInv_step) (fun _ _ => RefInv_dlv)

end Simpleline
