/-
  Lemmas for C07: unwinding of exceptions to the catcher of `process_input` and to the `except
  ExitMainLoop` of `run()`, the counting step `countAndAct` and the quit dialog step `afterQuit`.
-/
import Simpleline.Lemmas.SchedShape

namespace Simpleline
set_option linter.unusedSimpArgs false

/-! ### an ordinary exception inside `process_input` -/

/-- the exception signal a catcher enqueues -/
def excSig (c : Cfg) (src : Src) : Sig := { id := c.nextSid + 1, cls := .exception, prio := -20, src := src }

theorem unwind_err_catchPI (pre : List Instr) (scr : Nat) (rest : List Instr) (c : Cfg)
    (hpre : ∀ i ∈ pre, i.catches .err = false) :
    unwind .err (pre ++ .catchPI scr :: .countAndAct scr :: .endPI :: rest) c =
      .ok { (({ c with nextSid := c.nextSid + 1 } : Cfg).enqueue (excSig c (.im scr))) with code := rest } := by
  induction pre with
  | nil => simp [unwind, excSig]
  | cons i pre ih =>
    have hi := hpre i (by simp)
    have := ih (fun j hj => hpre j (by simp [hj]))
    cases i <;> simp [Instr.catches] at hi <;> simpa [unwind] using this

theorem raise_err_eq (c : Cfg) : c.raise .err = unwind .err c.code c := rfl

theorem unwind_exit_catch (pre rest : List Instr) (c : Cfg) (hpre : ∀ i ∈ pre, i.catches .exit = false) :
    unwind .exit (pre ++ .catchExit :: rest) c = .ok { c with code := rest } := by
  induction pre with
  | nil => simp [unwind]
  | cons i pre ih =>
    have hi := hpre i (by simp)
    have := ih (fun j hj => hpre j (by simp [hj]))
    cases i <;> simp [Instr.catches] at hi <;> simpa [unwind] using this

theorem unwind_exit_uncaught (code : List Instr) (c : Cfg) (h : ∀ i ∈ code, i.catches .exit = false) :
    unwind .exit code c = .error (.raised "exit", { c with code := [] }) := by
  induction code with
  | nil => simp [unwind]
  | cons i code ih =>
    have hi := h i (by simp)
    have := ih (fun j hj => h j (by simp [hj]))
    cases i <;> simp [Instr.catches] at hi <;> simpa [unwind] using this

theorem raise_exit_eq (c : Cfg) : c.raise .exit = unwind .exit c.code (c.trace .exit) := rfl

/-! ### the step `countAndAct` -/

theorem step_countAndAct (P : Prog) (c : Cfg) (scr : Nat) (rest : List Instr) (top : Entry)
    (hc : c.code = .countAndAct scr :: rest) (ht : c.A.stack.getLast? = some top) :
    step P c =
      match c.retAction with
      | .noop => .ok (c.counted scr rest)
      | .redraw => .ok (c.counted scr rest).redraw
      | .close => .ok (push (c.counted scr rest) [.closeScreen none])
      | .quit =>
        match P.quitScreen with
        | none => (c.counted scr rest).raise .exit
        | some q => .ok (push (c.counted scr rest) [.pushModal q none, .afterQuit q])
      | .error =>
        if ((c.A.scr scr).err + 1) % 5 = 0 then .ok (c.counted scr rest).redraw
        else .ok (push (c.counted scr rest) [.getInput top.screen top.args]) := by
  cases ha : c.retAction <;> simp [step, hc, ht, ha, Cfg.counted, setScr_scr]
  cases P.quitScreen <;> simp

theorem step_countAndAct_empty (P : Prog) (c : Cfg) (scr : Nat) (rest : List Instr)
    (hc : c.code = .countAndAct scr :: rest) (ht : c.A.stack = []) :
    step P c = (c.counted scr rest).raise .exit := by
  simp [step, hc, ht, Cfg.counted]

theorem step_afterQuit (P : Prog) (c : Cfg) (q : Nat) (rest : List Instr) (hc : c.code = .afterQuit q :: rest) :
    step P c =
      if (P.spec q).answer = none ∨ (P.spec q).answer = some (some true) then ({ c with code := rest } : Cfg).raise .exit
      else .ok ({ c with code := rest } : Cfg).redraw := by
  simp only [step, hc]
  split <;> simp_all

theorem enqEv_isRedraw (L : LoopSt) (s : Sig) : (enqEv L s).isRedraw = decide (s.cls = .render ∧ s.src = .sched) := by
  unfold enqEv; split <;> rfl

theorem enqEv_isExcFrom (L : LoopSt) (s : Sig) (src : Src) :
    (enqEv L s).isExcFrom src = decide (s.cls = .exception ∧ s.src = src) := by
  unfold enqEv; split <;> rfl

theorem counted_outcome (c : Cfg) (scr : Nat) (rest : List Instr) (hc : c.code = .countAndAct scr :: rest) :
    InputOutcome c (c.counted scr rest) scr [] 0 := by
  refine ⟨by simp [Cfg.counted, hc], rfl, rfl, ⟨[], rfl, rfl, by simp⟩, fun s => ?_⟩
  simp only [Cfg.counted, setScr_scr]
  split
  · subst_vars; rfl
  · rfl

theorem InputOutcome.redraw {c c1 : Cfg} {scr : Nat} (h : InputOutcome c c1 scr [] 0) : InputOutcome c c1.redraw scr [] 1 := by
  obtain ⟨h1, h2, h3, ⟨evs, h4, h5, _⟩, h6⟩ := h
  refine ⟨by simpa using h1, by simpa using h2, by simpa using h3, ⟨[enqEv c1.L (renderSig c1)], ?_, rfl, ?_⟩, by simpa using h6⟩
  · have : evs = [] := List.eq_nil_of_length_eq_zero h5
    simp [h4, this]
  · simp [enqEv_isRedraw, renderSig]

theorem InputOutcome.push {c c1 : Cfg} {scr : Nat} (h : InputOutcome c c1 scr [] 0) (is : List Instr) :
    InputOutcome c (push c1 is) scr is 0 := by
  obtain ⟨h1, h2, h3, h4, h6⟩ := h
  exact ⟨by simp [h1], h2, h3, h4, h6⟩

theorem newTr_of_append {c c' : Cfg} {evs : List Tr} (h : c'.tr = evs ++ c.tr) : newTr c c' = evs := by
  simp [newTr, h]

theorem newLog_of_append {c c' : Cfg} {evs : List Ev} (h : c'.log = evs ++ c.log) : newLog c c' = evs := by
  simp [newLog, h]
end Simpleline
