/-
  Invariants of the reachable configurations, part 1: instructions that run at once (`callScr`,
  `drawScreen`, `afterSetup2`) occur only at the head of the code, and the table of who pushes them.
-/
import Simpleline.Lemmas.SchedEffect

namespace Simpleline

set_option linter.unusedSimpArgs false

theorem external_not_immediate {i : Instr} (h : i.external = true) : i.immediate = false := by
  cases i <;> simp_all [Instr.external, Instr.immediate]

theorem Pushed.tail_not_imm {P : Prog} {c : Cfg} {ins : Instr} {pushed : List Instr} (h : Pushed P c ins pushed) :
    ∀ i ∈ pushed.tail, i.immediate = false := by
  unfold Pushed at h
  split at h
  · exact fun i hi => external_not_immediate (h i (List.mem_of_mem_tail hi))
  · cases ins <;> simp only [SPushed] at h
    all_goals (try subst h)
    all_goals try (simp [Instr.immediate]; done)
    case callScr scr cb arg key =>
      obtain ⟨pre, acts, ret, hpre, rfl⟩ := h
      intro i hi
      have hi := List.mem_of_mem_tail hi
      simp at hi
      rcases hi with hi | ⟨a, _, rfl⟩ | rfl
      · rcases hpre with rfl | rfl <;> simp at hi
        subst hi; rfl
      · rfl
      · rfl
    all_goals (intro i hi; grind [Instr.immediate])

/-- who pushes the instructions that run at once: the complete table -/
def ImmPushedBy (c : Cfg) (ins i : Instr) : Prop :=
  (∃ frm e, ins = .closeScreen frm ∧ c.A.stack.getLast? = some e ∧ (frm = none ∨ frm = some (.scr e.screen)) ∧
    i = .callScr e.screen .closed none none) ∨
  (∃ top, ins = .processScreen ∧ c.A.stack.getLast? = some top ∧ (c.A.scr top.screen).ready = true ∧
    i = .afterSetup2 top) ∨
  (∃ top, ins = .processScreen ∧ c.A.stack.getLast? = some top ∧ (c.A.scr top.screen).ready = false ∧
    i = .callScr top.screen .setup top.args none) ∨
  (∃ top, ins = .afterSetup top ∧ c.retSetup = true ∧ i = .afterSetup2 top) ∨
  (∃ top, ins = .afterSetup2 top ∧ i = .callScr top.screen .refresh top.args none) ∨
  (∃ top l, ins = .identCheck top ∧ c.A.stack.getLast? = some l ∧ l.eid = top.eid ∧ i = .drawScreen top) ∨
  (∃ top, ins = .drawScreen top ∧ i = .callScr top.screen .show none none) ∨
  (∃ scr args, ins = .getInput scr args ∧ i = .callScr scr .prompt args none) ∨
  (∃ scr key, ins = .processInput scr key ∧ i = .callScr scr .input (c.A.scr scr).inputArgs (some key))

theorem Pushed.head_imm {P : Prog} {c : Cfg} {ins : Instr} {pushed : List Instr} (h : Pushed P c ins pushed)
    {i : Instr} (hh : pushed.head? = some i) (hi : i.immediate = true) : ImmPushedBy c ins i := by
  unfold Pushed at h
  split at h
  · have := external_not_immediate (h i (List.mem_of_head? hh))
    simp [this] at hi
  · unfold ImmPushedBy
    cases ins <;> simp only [SPushed] at h
    all_goals (try subst h)
    all_goals try (simp at hh; done)
    case callScr scr cb arg key =>
      obtain ⟨pre, acts, ret, hpre, rfl⟩ := h
      exfalso
      rcases hpre with rfl | rfl
      · cases acts <;> simp at hh <;> subst hh <;> simp [Instr.immediate] at hi
      · simp at hh; subst hh; simp [Instr.immediate] at hi
    all_goals grind [Instr.immediate]

/-! ### generic induction over reachable configurations -/

theorem Reach.induct {P : Prog} {c0 c : Cfg} {I : Cfg → Prop} (h0 : I c0)
    (hs : ∀ c, Reach P c0 c → I c → I (sOutCfg (Simpleline.step P c))) (hd : ∀ c, Reach P c0 c → I c → I c.dlv)
    (h : Reach P c0 c) : I c := by
  induction h with
  | init => exact h0
  | step hr hstep ih => rw [sOutCfg_of_ok hstep]; exact hs _ hr ih
  | deliver hr hdl ih => rw [deliver_eq_dlv hdl]; exact hd _ hr ih
  | halt hr hstep ih => rw [sOutCfg_of_error hstep]; exact hs _ hr ih

theorem Reach.trans_reach {P : Prog} {c0 c c' : Cfg} (h : Reach P c0 c) (ht : Trans P c c') : Reach P c0 c' := by
  cases ht with
  | step hs => exact .step h hs
  | deliver hd => exact .deliver h hd
  | halt hs => exact .halt h hs

/-! ### instructions that run at once occur only at the head -/

def Imm (c : Cfg) : Prop := ∀ i ∈ c.code.tail, i.immediate = false

theorem Imm_init {c0 : Cfg} (h : Started c0) : Imm c0 := by
  obtain ⟨init, handlers, quitCb, stdin, rfl⟩ := h
  intro i hi
  have hi := List.mem_of_mem_tail hi
  simp [initCfg] at hi
  rcases hi with ⟨a, _, rfl⟩ | rfl <;> rfl

theorem Imm_dlv {c : Cfg} (h : Imm c) : Imm c.dlv := by
  unfold Imm; rw [dlv_code]; exact h

theorem Imm_step {P : Prog} {c : Cfg} (h : Imm c) : Imm (sOutCfg (step P c)) := by
  rcases hc : c.code with _ | ⟨ins, rest⟩
  · rw [step_nil P c hc]; exact h
  · obtain ⟨pushed, ⟨suf, hcode, hsuf⟩, hp⟩ := step_code P c ins rest hc
    have hrest : ∀ i ∈ rest, i.immediate = false := by
      intro i hi; apply h; simp [hc, hi]
    intro i hi
    rw [hcode] at hi
    cases pushed with
    | nil => exact hrest i (hsuf.subset (List.mem_of_mem_tail hi))
    | cons p ps =>
      simp at hi
      rcases hi with hi | hi
      · exact hp.tail_not_imm i (by simpa using hi)
      · exact hrest i (hsuf.subset hi)

theorem Reach.imm {P : Prog} {c0 c : Cfg} (h0 : Started c0) (h : Reach P c0 c) : Imm c :=
  h.induct (Imm_init h0) (fun _ _ => Imm_step) (fun _ _ => Imm_dlv)

/-- an instruction that runs at once and stands at the head after a step was pushed by that step -/
theorem head_imm_after {P : Prog} {c : Cfg} {ins : Instr} {rest : List Instr} (h : Imm c) (hc : c.code = ins :: rest)
    {i : Instr} (hh : (sOutCfg (step P c)).code.head? = some i) (hi : i.immediate = true) : ImmPushedBy c ins i := by
  obtain ⟨pushed, ⟨suf, hcode, hsuf⟩, hp⟩ := step_code P c ins rest hc
  rw [hcode] at hh
  cases pushed with
  | nil =>
    have : i ∈ rest := hsuf.subset (List.mem_of_head? hh)
    have := h i (by simp [hc, this])
    simp [this] at hi
  | cons p ps => exact hp.head_imm (by simpa using hh) hi

end Simpleline
