/-
  Invariants of the reachable configurations, part 6 (on the log): every `refresh` of a screen has an
  earlier `setup` of that screen, every `show` an earlier `refresh`.
-/
import Simpleline.Lemmas.SchedBridge

namespace Simpleline
set_option linter.unusedSimpArgs false

/-! ### `setup` runs before the first `refresh` -/

/-- a `setup` of screen `s` has been invoked -/
def SetupSeen (log : List Ev) (s : Nat) : Prop := ∃ a k, Ev.cb s .setup a k ∈ log

/-- in a log (newest first) every `refresh` of a screen has a `setup` of that screen before it -/
def RefreshOK : List Ev → Prop
  | [] => True
  | .cb s .refresh _ _ :: l => SetupSeen l s ∧ RefreshOK l
  | _ :: l => RefreshOK l

theorem SetupSeen.mono {l l' : List Ev} {s : Nat} (h : SetupSeen l s) (hs : l <:+ l') : SetupSeen l' s := by
  obtain ⟨a, k, hm⟩ := h
  exact ⟨a, k, hs.subset hm⟩

theorem SetupSeen_cbLog {l : List Ev} {s : Nat} : SetupSeen (cbLog l) s ↔ SetupSeen l s := by
  simp [SetupSeen, cbLog]

theorem RefreshOK_append_right {a b : List Ev} (h : RefreshOK (a ++ b)) : RefreshOK b := by
  induction a with
  | nil => exact h
  | cons t a ih =>
    cases t
    case cb s cb x y => cases cb <;> simp only [List.cons_append, RefreshOK] at h <;> first | exact ih h | exact ih h.2
    all_goals exact ih (by simpa only [List.cons_append, RefreshOK] using h)

theorem Pushed.afterSetup_mem {P : Prog} {c : Cfg} {ins : Instr} {pushed : List Instr} (h : Pushed P c ins pushed)
    {top : Entry} (hm : .afterSetup top ∈ pushed) :
    pushed = [.callScr top.screen .setup top.args none, .afterSetup top] := by
  unfold Pushed at h
  split at h
  · have := h _ hm; simp [Instr.external] at this
  · cases ins <;> simp only [SPushed] at h
    all_goals (try subst h)
    all_goals try (simp at hm; done)
    case callScr scr cb arg key =>
      obtain ⟨pre, acts, ret, hpre, rfl⟩ := h
      rcases hpre with rfl | rfl <;> simp at hm
    all_goals grind

theorem Pushed.scrRet_mem {P : Prog} {c : Cfg} {ins : Instr} {pushed : List Instr} (h : Pushed P c ins pushed)
    {s : Nat} {cb : Cb} {r : Ret} {k : Option Str} (hm : .scrRet s cb r k ∈ pushed) : ∃ a, ins = .callScr s cb a k := by
  unfold Pushed at h
  split at h
  · have := h _ hm; simp [Instr.external] at this
  · cases ins <;> simp only [SPushed] at h
    all_goals (try subst h)
    all_goals try (simp at hm; done)
    case callScr scr cb' arg key =>
      obtain ⟨pre, acts, ret, hpre, rfl⟩ := h
      rcases hpre with rfl | rfl <;> simp at hm <;> obtain ⟨rfl, rfl, _, rfl⟩ := hm <;> exact ⟨_, rfl⟩
    all_goals grind

theorem ready_of_step {P : Prog} (c : Cfg) (s : Nat) :
    ((sOutCfg (step P c)).A.scr s).ready = (c.A.scr s).ready ∨
    (((sOutCfg (step P c)).A.scr s).ready = true ∧
      ∃ ret key rest, c.code = .scrRet s .setup ret key :: rest ∧ ret ≠ .failBefore) := by
  rw [(step_screens P c).1]
  unfold Cfg.scrAfter
  split
  · split <;> simp_all
  · rename_i scr ret key rest hc
    split
    · rename_i hs
      obtain ⟨rfl, hret⟩ := hs
      exact .inr ⟨rfl, ret, key, rest, hc, hret⟩
    · exact .inl rfl
  · left
    split
    · split <;> simp_all
    · rfl
  · left
    split <;> simp_all
  · exact .inl rfl

structure SetupInv (c : Cfg) : Prop where
  ready : ∀ s, (c.A.scr s).ready = true → SetupSeen c.log s
  after : ∀ top, .afterSetup top ∈ c.code →
    SetupSeen c.log top.screen ∨ ∃ a k rest, c.code = .callScr top.screen .setup a k :: rest
  after2 : ∀ top, c.code.head? = some (.afterSetup2 top) → SetupSeen c.log top.screen
  refresh : ∀ s a k, c.code.head? = some (.callScr s .refresh a k) → SetupSeen c.log s
  ret : ∀ s r k, .scrRet s .setup r k ∈ c.code → SetupSeen c.log s
  log : RefreshOK (cbLog c.log)

theorem SetupInv_init {c0 : Cfg} (h : Started c0) : SetupInv c0 := by
  obtain ⟨init, handlers, quitCb, stdin, rfl⟩ := h
  constructor
  · intro s hs; simp [initCfg, AppSt.scr] at hs
  · intro top h; simp [initCfg] at h
  · intro top h; cases init <;> simp [initCfg] at h
  · intro s a k h; cases init <;> simp [initCfg] at h
  · intro s r k h; simp [initCfg] at h
  · simp [initCfg, RefreshOK]

theorem SetupInv_dlv {c : Cfg} (h : SetupInv c) : SetupInv c.dlv := by
  have hl : c.log <:+ c.dlv.log := dlv_log_suffix c
  constructor
  · intro s hs; exact (h.ready s (by simpa using hs)).mono hl
  · intro top hm
    rcases h.after top (by simpa using hm) with h' | h'
    · exact .inl (h'.mono hl)
    · exact .inr (by simpa using h')
  · intro top hh; exact (h.after2 top (by simpa using hh)).mono hl
  · intro s a k hh; exact (h.refresh s a k (by simpa using hh)).mono hl
  · intro s r k hm; exact (h.ret s r k (by simpa using hm)).mono hl
  · simpa using h.log


theorem SetupInv_step {P : Prog} {c : Cfg} (hi : Imm c) (h : SetupInv c) : SetupInv (sOutCfg (step P c)) := by
  have hl : c.log <:+ (sOutCfg (step P c)).log := (step_grow P c).2
  have hcb := (step_screens P c).2
  rcases hc : c.code with _ | ⟨ins, rest⟩
  · rw [step_nil P c hc]; exact h
  · obtain ⟨pushed, ⟨suf, hcd, hsuf⟩, hp⟩ := step_code P c ins rest hc
    -- a `setup` invocation executed by this step is in the new log
    have hnow : ∀ s a k, ins = .callScr s .setup a k → SetupSeen (sOutCfg (step P c)).log s := by
      intro s a k hins
      rw [← SetupSeen_cbLog, hcb]
      exact ⟨a, k, by simp [Cfg.cbEvs, hc, hins]⟩
    have hsufc : ∀ i ∈ suf, i ∈ c.code := fun i hi' => by rw [hc]; exact List.mem_cons_of_mem _ (hsuf.subset hi')
    constructor
    · intro s hs
      rcases ready_of_step (P := P) c s with h' | ⟨_, ret, key, rest', hc', _⟩
      · exact (h.ready s (h' ▸ hs)).mono hl
      · exact (h.ret s ret key (by simp [hc'])).mono hl
    · intro top hm
      rw [hcd, List.mem_append] at hm
      rcases hm with hm | hm
      · right
        have := hp.afterSetup_mem hm
        exact ⟨_, _, _, by rw [hcd, this]; rfl⟩
      · rcases h.after top (hsufc _ hm) with h' | ⟨a, k, rest', hc'⟩
        · exact .inl (h'.mono hl)
        · rw [hc] at hc'
          exact .inl (hnow _ a k (List.cons.inj hc').1)
    · intro top hh
      have := head_imm_after hi hc hh rfl
      simp only [ImmPushedBy, reduceCtorEq, and_false, exists_false, false_or, or_false, exists_const,
        Instr.afterSetup2.injEq, false_and] at this
      rcases this with ⟨top', rfl, _, hrd, rfl⟩ | ⟨top', rfl, _, rfl⟩
      · exact (h.ready _ hrd).mono hl
      · rcases h.after top (by simp [hc]) with h' | ⟨a, k, rest', hc'⟩
        · exact h'.mono hl
        · rw [hc] at hc'; cases hc'
    · intro s a k hh
      have := head_imm_after hi hc hh rfl
      simp only [ImmPushedBy, reduceCtorEq, and_false, exists_false, false_or, or_false, exists_const,
        Instr.callScr.injEq, false_and] at this
      obtain ⟨top, rfl, rfl, _⟩ := this
      exact (h.after2 top (by simp [hc])).mono hl
    · intro s r k hm
      rw [hcd, List.mem_append] at hm
      rcases hm with hm | hm
      · obtain ⟨a, rfl⟩ := hp.scrRet_mem hm
        exact hnow s a k rfl
      · exact (h.ret s r k (hsufc _ hm)).mono hl
    · rw [hcb]
      unfold Cfg.cbEvs
      split
      · rename_i s cb a k rest' hc'
        cases cb
        case refresh =>
          refine ⟨?_, h.log⟩
          exact SetupSeen_cbLog.2 (h.refresh s a k (by simp [hc']))
        all_goals exact h.log
      · exact h.log


theorem Reach.setupInv {P : Prog} {c0 c : Cfg} (h0 : Started c0) (h : Reach P c0 c) : SetupInv c :=
  h.induct (SetupInv_init h0) (fun _ hr hI => SetupInv_step (hr.imm h0) hI) (fun _ _ => SetupInv_dlv)

theorem setup_before_refresh {P : Prog} {c0 c : Cfg} (h0 : Started c0) (hr : Reach P c0 c) {s : Nat}
    {a : Option Nat} {k : Option Str} {l1 l2 : List Ev} (h : c.log = l1 ++ .cb s .refresh a k :: l2) :
    ∃ a' k', Ev.cb s .setup a' k' ∈ l2 := by
  have hs := (hr.setupInv h0).log
  rw [h] at hs
  have : cbLog (l1 ++ Ev.cb s .refresh a k :: l2) = cbLog l1 ++ Ev.cb s .refresh a k :: cbLog l2 := by
    simp [cbLog, List.filter_cons]
  rw [this] at hs
  exact SetupSeen_cbLog.1 (RefreshOK_append_right hs).1

/-! ### on the log: `refresh` runs before every `show` -/

/-- a `refresh` of screen `s` with arguments `a` has been invoked -/
def RefreshSeen (log : List Ev) (s : Nat) (a : Option Nat) : Prop := Ev.cb s .refresh a none ∈ log

/-- in a log (newest first) every `show` of a screen has a `refresh` of that screen before it -/
def ShowLogOK : List Ev → Prop
  | [] => True
  | .cb s .show _ _ :: l => (∃ a, RefreshSeen l s a) ∧ ShowLogOK l
  | _ :: l => ShowLogOK l

theorem RefreshSeen.mono {l l' : List Ev} {s : Nat} {a : Option Nat} (h : RefreshSeen l s a) (hs : l <:+ l') :
    RefreshSeen l' s a := hs.subset h

theorem RefreshSeen_cbLog {l : List Ev} {s : Nat} {a : Option Nat} : RefreshSeen (cbLog l) s a ↔ RefreshSeen l s a := by
  simp [RefreshSeen, cbLog]

theorem ShowLogOK_append_right {a b : List Ev} (h : ShowLogOK (a ++ b)) : ShowLogOK b := by
  induction a with
  | nil => exact h
  | cons t a ih =>
    cases t
    case cb s cb x y => cases cb <;> simp only [List.cons_append, ShowLogOK] at h <;> first | exact ih h | exact ih h.2
    all_goals exact ih (by simpa only [List.cons_append, ShowLogOK] using h)

theorem Pushed.identCheck_mem {P : Prog} {c : Cfg} {ins : Instr} {pushed : List Instr} (h : Pushed P c ins pushed)
    {top : Entry} (hm : .identCheck top ∈ pushed) :
    pushed = [.callScr top.screen .refresh top.args none, .identCheck top, .catchPS] := by
  unfold Pushed at h
  split at h
  · have := h _ hm; simp [Instr.external] at this
  · cases ins <;> simp only [SPushed] at h
    all_goals (try subst h)
    all_goals try (simp at hm; done)
    case callScr scr cb arg key =>
      obtain ⟨pre, acts, ret, hpre, rfl⟩ := h
      rcases hpre with rfl | rfl <;> simp at hm
    all_goals grind

structure DrawLogInv (c : Cfg) : Prop where
  check : ∀ top, .identCheck top ∈ c.code →
    RefreshSeen c.log top.screen top.args ∨ ∃ rest, c.code = .callScr top.screen .refresh top.args none :: rest
  draw : ∀ top, c.code.head? = some (.drawScreen top) → RefreshSeen c.log top.screen top.args
  «show» : ∀ s a k, c.code.head? = some (.callScr s .show a k) → ∃ args, RefreshSeen c.log s args
  log : ShowLogOK (cbLog c.log)

theorem DrawLogInv_init {c0 : Cfg} (h : Started c0) : DrawLogInv c0 := by
  obtain ⟨init, handlers, quitCb, stdin, rfl⟩ := h
  constructor
  · intro top h; simp [initCfg] at h
  · intro top h; cases init <;> simp [initCfg] at h
  · intro s a k h; cases init <;> simp [initCfg] at h
  · simp [initCfg, ShowLogOK]

theorem DrawLogInv_dlv {c : Cfg} (h : DrawLogInv c) : DrawLogInv c.dlv := by
  have hl : c.log <:+ c.dlv.log := dlv_log_suffix c
  constructor
  · intro top hm
    rcases h.check top (by simpa using hm) with h' | h'
    · exact .inl (h'.mono hl)
    · exact .inr (by simpa using h')
  · intro top hh; exact (h.draw top (by simpa using hh)).mono hl
  · intro s a k hh
    obtain ⟨args, h'⟩ := h.show s a k (by simpa using hh)
    exact ⟨args, h'.mono hl⟩
  · simpa using h.log

theorem DrawLogInv_step {P : Prog} {c : Cfg} (hi : Imm c) (h : DrawLogInv c) : DrawLogInv (sOutCfg (step P c)) := by
  have hl : c.log <:+ (sOutCfg (step P c)).log := (step_grow P c).2
  have hcb := (step_screens P c).2
  rcases hc : c.code with _ | ⟨ins, rest⟩
  · rw [step_nil P c hc]; exact h
  · obtain ⟨pushed, ⟨suf, hcd, hsuf⟩, hp⟩ := step_code P c ins rest hc
    have hsufc : ∀ i ∈ suf, i ∈ c.code := fun i hi' => by rw [hc]; exact List.mem_cons_of_mem _ (hsuf.subset hi')
    constructor
    · intro top hm
      rw [hcd, List.mem_append] at hm
      rcases hm with hm | hm
      · right
        have := hp.identCheck_mem hm
        exact ⟨_, by rw [hcd, this]; rfl⟩
      · rcases h.check top (hsufc _ hm) with h' | ⟨rest', hc'⟩
        · exact .inl (h'.mono hl)
        · left
          rw [hc] at hc'
          rw [← RefreshSeen_cbLog, hcb]
          simp [Cfg.cbEvs, hc, (List.cons.inj hc').1, RefreshSeen]
    · intro top hh
      have := head_imm_after hi hc hh rfl
      simp only [ImmPushedBy, reduceCtorEq, and_false, exists_false, false_or, or_false, exists_const,
        Instr.drawScreen.injEq, false_and] at this
      obtain ⟨top', l, rfl, _, _, rfl⟩ := this
      rcases h.check top (by simp [hc]) with h' | ⟨rest', hc'⟩
      · exact h'.mono hl
      · rw [hc] at hc'; cases hc'
    · intro s a k hh
      have := head_imm_after hi hc hh rfl
      simp only [ImmPushedBy, reduceCtorEq, and_false, exists_false, false_or, or_false, exists_const,
        Instr.callScr.injEq, false_and] at this
      obtain ⟨top, rfl, rfl, _⟩ := this
      exact ⟨top.args, (h.draw top (by simp [hc])).mono hl⟩
    · rw [hcb]
      unfold Cfg.cbEvs
      split
      · rename_i s cb a k rest' hc'
        cases cb
        case «show» =>
          refine ⟨?_, h.log⟩
          obtain ⟨args, h'⟩ := h.show s a k (by simp [hc'])
          exact ⟨args, RefreshSeen_cbLog.2 h'⟩
        all_goals exact h.log
      · exact h.log

theorem Reach.drawLogInv {P : Prog} {c0 c : Cfg} (h0 : Started c0) (h : Reach P c0 c) : DrawLogInv c :=
  h.induct (DrawLogInv_init h0) (fun _ hr hI => DrawLogInv_step (hr.imm h0) hI) (fun _ _ => DrawLogInv_dlv)

theorem refresh_before_show_log {P : Prog} {c0 c : Cfg} (h0 : Started c0) (hr : Reach P c0 c) {s : Nat}
    {a : Option Nat} {k : Option Str} {l1 l2 : List Ev} (h : c.log = l1 ++ .cb s .show a k :: l2) :
    ∃ args, Ev.cb s .refresh args none ∈ l2 := by
  have hs := (hr.drawLogInv h0).log
  rw [h] at hs
  have : cbLog (l1 ++ Ev.cb s .show a k :: l2) = cbLog l1 ++ Ev.cb s .show a k :: cbLog l2 := by
    simp [cbLog, List.filter_cons]
  rw [this] at hs
  obtain ⟨args, h'⟩ := (ShowLogOK_append_right hs).1
  exact ⟨args, RefreshSeen_cbLog.1 h'⟩

end Simpleline
