/-
  Invariants of the reachable configurations, part 5: the shape of the code. Which instruction
  directly follows which: the catcher of `process_input` is followed by the counting step and the end
  marker; the return of `input()` by the classification; the `refresh` callback by the identity check
  of the same entry; the `setup` callback by the test of its result for the same entry.
-/
import Simpleline.Lemmas.SchedInv

namespace Simpleline
set_option linter.unusedSimpArgs false

/-! ### the shape of the code: which instruction directly follows which -/

/-- `i.needs j`: if `i` is in the code, the instruction directly after it is `j` of this form -/
def Instr.needs : Instr → Instr → Prop
  | .catchPI scr, j => j = .countAndAct scr
  | .countAndAct _, j => j = .endPI
  | .classify scr, j => j = .catchPI scr
  | .scrRet scr .input _ _, j => j = .classify scr
  | .callScr scr .input _ _, j => j = .classify scr
  | .scrRet scr .refresh _ _, j => ∃ top, j = .identCheck top ∧ top.screen = scr
  | .callScr scr .refresh a _, j => ∃ top, j = .identCheck top ∧ top.screen = scr ∧ a = top.args
  | .identCheck _, j => j = .catchPS
  | .scrRet scr .setup _ _, j => ∃ top, j = .afterSetup top ∧ top.screen = scr
  | .callScr scr .setup a _, j => ∃ top, j = .afterSetup top ∧ top.screen = scr ∧ a = top.args
  | _, _ => True

/-- instructions that are never the last one of the code -/
def Instr.bound : Instr → Bool
  | .catchPI _ | .countAndAct _ | .classify _ | .scrRet _ .input _ _ | .callScr _ .input _ _
  | .scrRet _ .refresh _ _ | .callScr _ .refresh _ _ | .identCheck _ | .scrRet _ .setup _ _
  | .callScr _ .setup _ _ => true
  | _ => false

def Shape : List Instr → Prop
  | [] => True
  | [i] => i.bound = false
  | i :: j :: rest => i.needs j ∧ Shape (j :: rest)

theorem needs_of_not_bound {i : Instr} (h : i.bound = false) (j : Instr) : i.needs j := by
  cases i <;> simp [Instr.bound] at h <;> simp [Instr.needs]
  all_goals (rename_i cb _ _; cases cb <;> simp [Instr.bound] at h <;> simp [Instr.needs])

theorem Shape.tail {i : Instr} {l : List Instr} (h : Shape (i :: l)) : Shape l := by
  cases l with
  | nil => trivial
  | cons j r => exact h.2

theorem Shape.suffix {a b : List Instr} (h : Shape b) (hs : a <:+ b) : Shape a := by
  obtain ⟨t, rfl⟩ := hs
  induction t with
  | nil => exact h
  | cons i t ih => exact ih h.tail

theorem Shape.cons_neutral {i : Instr} {l : List Instr} (hi : i.bound = false) (h : Shape l) : Shape (i :: l) := by
  cases l with
  | nil => exact hi
  | cons j r => exact ⟨needs_of_not_bound hi j, h⟩

theorem Shape.append_neutral {a l : List Instr} (ha : ∀ i ∈ a, i.bound = false) (h : Shape l) : Shape (a ++ l) := by
  induction a with
  | nil => exact h
  | cons i a ih =>
    exact Shape.cons_neutral (ha i (by simp)) (ih fun j hj => ha j (by simp [hj]))

theorem Shape.head_needs {i j : Instr} {l : List Instr} (h : Shape (i :: j :: l)) : i.needs j := h.1

theorem Shape.bound_next {i : Instr} {l : List Instr} (h : Shape (i :: l)) (hb : i.bound = true) :
    ∃ j r, l = j :: r ∧ i.needs j := by
  cases l with
  | nil => simp [Shape, hb] at h
  | cons j r => exact ⟨j, r, rfl, h.1⟩

theorem external_not_bound {i : Instr} (h : i.external = true) : i.bound = false := by
  cases i <;> simp_all [Instr.external, Instr.bound]

/-- what an instruction other than `callScr` pushes keeps the shape -/
theorem Pushed.shape {P : Prog} {c : Cfg} {ins : Instr} {pushed : List Instr} (h : Pushed P c ins pushed)
    (hns : ∀ s cb a k, ins ≠ .callScr s cb a k) {suf : List Instr} (hs : Shape suf) : Shape (pushed ++ suf) := by
  unfold Pushed at h
  split at h
  · exact Shape.append_neutral (fun i hi => external_not_bound (h i hi)) hs
  · cases ins <;> simp only [SPushed] at h
    all_goals (try subst h)
    all_goals try (simpa using hs; done)
    case callScr => exact absurd rfl (hns _ _ _ _)
    case processScreen =>
      rcases h with rfl | ⟨top, _, ⟨_, rfl⟩ | ⟨_, rfl⟩⟩
      · exact hs
      · exact Shape.cons_neutral rfl hs
      · exact ⟨⟨top, rfl, rfl, rfl⟩, Shape.cons_neutral rfl hs⟩
    case afterSetup2 =>
      exact ⟨⟨_, rfl, rfl, rfl⟩, rfl, Shape.cons_neutral rfl hs⟩
    case processInput =>
      exact ⟨rfl, rfl, rfl, rfl, Shape.cons_neutral rfl hs⟩
    all_goals (apply Shape.append_neutral _ hs; intro i hi; grind [Instr.bound])

/-- a callback invocation: the widget print (for `show`), the script's actions, then the return -/
theorem step_callScr (P : Prog) (c : Cfg) (scr : Nat) (cb : Cb) (a : Option Nat) (k : Option Str) (rest : List Instr)
    (hc : c.code = .callScr scr cb a k :: rest) :
    (sOutCfg (step P c)).code =
      (if cb = .show then [.printWidget scr] else []) ++
        (P.screenScript scr cb (countOf (c.A.scr scr).counts cb)).acts.map .act ++
        [.scrRet scr cb (P.screenScript scr cb (countOf (c.A.scr scr).counts cb)).ret k] ++ rest := by
  simp [step, hc]

theorem Shape_init {c0 : Cfg} (h : Started c0) : Shape c0.code := by
  obtain ⟨init, handlers, quitCb, stdin, rfl⟩ := h
  simp only [initCfg]
  apply Shape.append_neutral
  · intro i hi
    simp at hi
    obtain ⟨a, _, rfl⟩ := hi
    rfl
  · rfl

theorem Shape_step {P : Prog} {c : Cfg} (h : Shape c.code) : Shape (sOutCfg (step P c)).code := by
  rcases hc : c.code with _ | ⟨ins, rest⟩
  · rw [step_nil P c hc, hc]; trivial
  · rw [hc] at h
    by_cases hcs : ∃ s cb a k, ins = .callScr s cb a k
    · obtain ⟨s, cb, a, k, rfl⟩ := hcs
      rw [step_callScr P c s cb a k rest hc]
      simp only [List.append_assoc]
      apply Shape.append_neutral
      · intro i hi; split at hi <;> simp at hi; subst hi; rfl
      apply Shape.append_neutral
      · intro i hi
        simp at hi
        obtain ⟨a, _, rfl⟩ := hi
        rfl
      simp only [List.singleton_append]
      cases cb
      case setup =>
        obtain ⟨j, r, rfl, top, rfl, h1, _⟩ := h.bound_next rfl
        exact ⟨⟨top, rfl, h1⟩, h.tail⟩
      case refresh =>
        obtain ⟨j, r, rfl, top, rfl, h1, _⟩ := h.bound_next rfl
        exact ⟨⟨top, rfl, h1⟩, h.tail⟩
      case input =>
        obtain ⟨j, r, rfl, rfl⟩ := h.bound_next rfl
        exact ⟨rfl, h.tail⟩
      all_goals exact Shape.cons_neutral rfl h.tail
    · obtain ⟨pushed, ⟨suf, hcd, hsuf⟩, hp⟩ := step_code P c ins rest hc
      rw [hcd]
      exact hp.shape (fun s cb a k he => hcs ⟨s, cb, a, k, he⟩) (h.tail.suffix hsuf)

theorem Reach.shape {P : Prog} {c0 c : Cfg} (h0 : Started c0) (h : Reach P c0 c) : Shape c.code :=
  h.induct (I := fun c => Shape c.code) (Shape_init h0) (fun _ _ => Shape_step) (fun _ _ h => by simpa using h)

/-- an instruction with a prescribed follower, anywhere in the code, is followed by it -/
theorem Shape.at {pre post : List Instr} {i : Instr} (h : Shape (pre ++ i :: post)) (hb : i.bound = true) :
    ∃ j r, post = j :: r ∧ i.needs j :=
  (h.suffix (List.suffix_append _ _)).bound_next hb

end Simpleline
