/-
  The event-loop half of the machine seen from the scheduler: instructions that neither touch the
  scheduler's state (stack, screens table, return registers, callback log, scheduler trace) nor push
  a continuation of a scheduler frame. Their effect is summarised once (`step_loopish`), so that the
  scheduler invariants only have to look at the scheduler's own instructions.
-/
import Simpleline.Lemmas.SchedFrame

namespace Simpleline
set_option linter.unusedSimpArgs false

/-- `c'` has the scheduler state of `c`; trace and log have grown -/
structure SFrame (c' c : Cfg) : Prop where
  stack : c'.A.stack = c.A.stack
  nextEid : c'.A.nextEid = c.A.nextEid
  screens : c'.A.screens = c.A.screens
  retSetup : c'.retSetup = c.retSetup
  retPromptNone : c'.retPromptNone = c.retPromptNone
  retInput : c'.retInput = c.retInput
  retKey : c'.retKey = c.retKey
  retAction : c'.retAction = c.retAction
  cbs : cbLog c'.log = cbLog c.log
  sched : schedTr c'.tr = schedTr c.tr
  tr : c.tr <:+ c'.tr
  log : c.log <:+ c'.log

theorem SFrame.refl (c : Cfg) : SFrame c c :=
  ⟨rfl, rfl, rfl, rfl, rfl, rfl, rfl, rfl, rfl, rfl, List.suffix_refl _, List.suffix_refl _⟩

theorem SFrame.trans {c'' c' c : Cfg} (h : SFrame c'' c') (h' : SFrame c' c) : SFrame c'' c :=
  ⟨h.stack.trans h'.stack, h.nextEid.trans h'.nextEid, h.screens.trans h'.screens, h.retSetup.trans h'.retSetup,
   h.retPromptNone.trans h'.retPromptNone, h.retInput.trans h'.retInput, h.retKey.trans h'.retKey,
   h.retAction.trans h'.retAction, h.cbs.trans h'.cbs, h.sched.trans h'.sched, h'.tr.trans h.tr,
   h'.log.trans h.log⟩

theorem SFrame.scr {c' c : Cfg} (h : SFrame c' c) (i : Nat) : c'.A.scr i = c.A.scr i := by
  simp [AppSt.scr, h.screens]

theorem SFrame.dlv (c : Cfg) : SFrame c.dlv c :=
  ⟨by simp, by simp, by simp, by simp, by simp, by simp, by simp, by simp, by simp, by simp,
   dlv_tr_suffix c, dlv_log_suffix c⟩

theorem SFrame.enqueue (c : Cfg) (s : Sig) : SFrame (c.enqueue s) c :=
  ⟨by simp, by simp, by simp, by simp, by simp, by simp, by simp, by simp, by simp, by simp,
   by simp, by simp⟩

theorem SFrame.redraw (c : Cfg) : SFrame c.redraw c :=
  ⟨by simp, by simp, by simp, by simp, by simp, by simp, by simp, by simp, by simp, by simp,
   by simp, by simp⟩

theorem SFrame.raised (k : Kind) (c : Cfg) : SFrame (raised k c) c :=
  ⟨by simp, by simp, by simp, by simp, by simp, by simp, by simp, by simp, by simp, by simp,
   raised_tr_suffix k c, by simp⟩

theorem SFrame.emit (P : Prog) (c : Cfg) (e : Ev) (he : e.isCb = false) : SFrame (c.emit P e) c :=
  ⟨by simp, by simp, by simp, by simp, by simp, by simp, by simp, by simp, by simp [he], by simp,
   emit_tr_suffix P c e, (List.suffix_cons _ _).trans (emit_log_suffix P c e)⟩

theorem SFrame.startRequest (c : Cfg) (ih : Nat) (r : Src) (t : Str) : SFrame (sOutCfg (startRequest c ih r t)) c := by
  obtain ⟨h1, h2, h3, h4, h5, h6, h7, h8, h9, _, h11, h12⟩ := startRequest_frame c ih r t
  exact ⟨h1, h2, h3, h5, h6, h7, h8, h9, by rw [h4], h11, h12, by rw [h4]; exact List.suffix_refl _⟩

/-- a configuration that differs from `c` only in components outside the scheduler's state -/
theorem SFrame.of_eq {c' c : Cfg} (h1 : c'.A.stack = c.A.stack) (h2 : c'.A.nextEid = c.A.nextEid)
    (h3 : c'.A.screens = c.A.screens) (h4 : c'.retSetup = c.retSetup) (h5 : c'.retPromptNone = c.retPromptNone)
    (h6 : c'.retInput = c.retInput) (h7 : c'.retKey = c.retKey) (h8 : c'.retAction = c.retAction)
    (h9 : c'.log = c.log) (h10 : schedTr c'.tr = schedTr c.tr) (h11 : c.tr <:+ c'.tr) : SFrame c' c :=
  ⟨h1, h2, h3, h4, h5, h6, h7, h8, by rw [h9], h10, h11, by rw [h9]; exact List.suffix_refl _⟩

/-! ### loop instructions -/

def Act.isStackOp : Act → Bool
  | .schedule .. | .push .. | .replace .. => true
  | _ => false

/-- instructions that leave the scheduler's state alone and push no continuation of a scheduler frame -/
def Instr.loopish : Instr → Bool
  | .act a => !a.isStackOp
  | .apprun | .catchExit | .quitCb | .mainCheck _ | .restoreRun | .loopCheck | .getDispatch
  | .processSignal _ | .dispatch .. | .catchHandler | .kill _ | .callH .. | .hret _ | .note _
  | .procWait _ | .waitStep .. | .waitCheck .. | .procIter _ | .newLoop _ | .closeLoop | .popLevel
  | .modalRet _ | .closeScreen3 _ | .afterSetupFail _ | .catchPS | .catchDraw | .printWidget _ | .printLines _
  | .blockingInput .. | .waitInput _ | .inputReceived _ | .inputReady .. | .catchPI _ | .endPI => true
  | _ => false

/-- instructions that are not the continuation of a scheduler frame (they carry no stack entry) -/
def Instr.external : Instr → Bool
  | .act _ | .apprun | .catchExit | .quitCb | .mainCheck _ | .restoreRun | .loopCheck | .getDispatch
  | .processSignal _ | .dispatch .. | .catchHandler | .kill _ | .callH .. | .hret _ | .note _
  | .procWait _ | .waitStep .. | .waitCheck .. | .procIter _ | .newLoop _ | .closeLoop | .popLevel
  | .pushModal .. | .closeScreen _ | .processScreen | .printLines _ | .blockingInput .. | .waitInput _
  | .inputReceived _ | .inputReady .. | .processInput .. => true
  | _ => false

/-- what a step does to the code: the head is consumed, a suffix of the rest survives (all of it,
unless an exception unwinds or `process_screen`/`process_input` return early), `pushed` is put in front -/
def CodeStep (c' : Cfg) (rest pushed : List Instr) : Prop :=
  ∃ suf, c'.code = pushed ++ suf ∧ suf <:+ rest

theorem CodeStep.of_eq {c' : Cfg} {rest pushed : List Instr} (h : c'.code = pushed ++ rest) : CodeStep c' rest pushed :=
  ⟨rest, h, List.suffix_refl _⟩

theorem CodeStep.of_suffix {c' : Cfg} {rest : List Instr} (h : c'.code <:+ rest) : CodeStep c' rest [] :=
  ⟨c'.code, rfl, h⟩

theorem loopish_mk {c' c : Cfg} {rest : List Instr} (pushed : List Instr) (hf : SFrame c' c)
    (hcode : c'.code = pushed ++ rest) (hext : ∀ i ∈ pushed, i.external = true) :
    SFrame c' c ∧ ∃ pushed, CodeStep c' rest pushed ∧ ∀ i ∈ pushed, i.external = true :=
  ⟨hf, pushed, CodeStep.of_eq hcode, hext⟩

theorem loopish_suf {c' c : Cfg} {rest : List Instr} (hf : SFrame c' c) (hcode : c'.code <:+ rest) :
    SFrame c' c ∧ ∃ pushed, CodeStep c' rest pushed ∧ ∀ i ∈ pushed, i.external = true :=
  ⟨hf, [], CodeStep.of_suffix hcode, by simp⟩

theorem loopish_raised {c1 c : Cfg} {rest : List Instr} (k : Kind) (hf : SFrame c1 c) (hcode : c1.code = rest) :
    SFrame (raised k c1) c ∧ ∃ pushed, CodeStep (raised k c1) rest pushed ∧ ∀ i ∈ pushed, i.external = true :=
  loopish_suf ((SFrame.raised k c1).trans hf) (hcode ▸ raised_code_suffix k c1)

/-- scheduler-state frame of a record update of `c` (all side goals by `simp`) -/
macro "sframe" : tactic =>
  `(tactic| first
    | exact SFrame.refl _
    | (apply SFrame.of_eq <;> (simp; done)))

theorem SFrame.push {c' c : Cfg} (h : SFrame c' c) (is : List Instr) : SFrame (push c' is) c :=
  ⟨h.stack, h.nextEid, h.screens, h.retSetup, h.retPromptNone, h.retInput, h.retKey, h.retAction, h.cbs, h.sched,
   h.tr, h.log⟩

macro "leaf" : tactic =>
  `(tactic| first
    | (refine loopish_suf ?_ (List.suffix_refl _); sframe)
    | (refine loopish_mk _ ?_ rfl ?_; (sframe); (simp [Instr.external]; done))
    | (refine loopish_raised _ ?_ rfl; sframe)
    | (refine loopish_suf (SFrame.trans (SFrame.emit _ _ _ rfl) ?_) ?_; (sframe); (simp; done))
    | (refine loopish_suf (SFrame.trans (SFrame.enqueue _ _) ?_) ?_; (sframe); (simp; done))
    | (refine loopish_suf (SFrame.trans (SFrame.redraw _) ?_) ?_; (sframe); (simp; done)))

theorem take_frame (c : Cfg) :
    (∃ c1, c.take = .error (.blocked, c1) ∧ SFrame c1 c ∧ c1.code = c.code) ∨
    (∃ s c2, c.take = .ok (s, c2) ∧ SFrame c2 c ∧ c2.code = c.code) := by
  obtain ⟨c1, hc1, h | ⟨s, L, h⟩⟩ := take_cases c
  · refine .inl ⟨c1, h, ?_⟩
    rcases hc1 with rfl | rfl
    · exact ⟨SFrame.refl _, rfl⟩
    · exact ⟨SFrame.dlv _, by simp⟩
  · refine .inr ⟨s, _, h, ?_⟩
    rcases hc1 with rfl | rfl
    · exact ⟨by sframe, rfl⟩
    · refine ⟨SFrame.trans ?_ (SFrame.dlv c), by simp⟩
      sframe

theorem foldl_frame (f : Cfg → Nat → Cfg) (hf : ∀ c t, SFrame (f c t) c ∧ (f c t).code = c.code) (l : List Nat) (c : Cfg) :
    SFrame (l.foldl f c) c ∧ (l.foldl f c).code = c.code := by
  induction l generalizing c with
  | nil => exact ⟨SFrame.refl _, rfl⟩
  | cons t l ih =>
    simp only [List.foldl_cons]
    exact ⟨(ih _).1.trans (hf c t).1, (ih _).2.trans (hf c t).2⟩

theorem go_external (scr : Nat) (evs : List OutEv) (cur : List Str) (acc : List Instr)
    (h : ∀ i ∈ acc, i.external = true) : ∀ i ∈ step.go scr evs cur acc, i.external = true := by
  induction evs generalizing cur acc with
  | nil =>
    simp only [step.go]
    split
    · exact h
    · intro i hi
      simp at hi
      rcases hi with hi | rfl
      · exact h i hi
      · rfl
  | cons ev evs ih =>
    cases ev with
    | line l => simp only [step.go]; exact ih _ _ h
    | ask =>
      simp only [step.go]
      apply ih
      intro i hi
      simp at hi
      rcases hi with hi | rfl
      · split at hi
        · exact h i hi
        · simp at hi
          rcases hi with hi | rfl
          · exact h i hi
          · rfl
      · rfl

theorem step_loopish (P : Prog) (c : Cfg) (ins : Instr) (rest : List Instr) (hc : c.code = ins :: rest)
    (hl : ins.loopish = true) :
    SFrame (sOutCfg (step P c)) c ∧
      ∃ pushed, CodeStep (sOutCfg (step P c)) rest pushed ∧ ∀ i ∈ pushed, i.external = true := by
  cases ins <;> (first | (exfalso; revert hl; simp [Instr.loopish]; done) | skip) <;> simp only [step, hc]
  case act a =>
    cases a <;> (first | (exfalso; revert hl; simp [Instr.loopish, Act.isStackOp]; done) | skip) <;> simp only [doAct, sOutCfg_ok, sOutCfg_raise]
    all_goals try leaf
    case proc cls => cases cls <;> simp only [sOutCfg_ok] <;> leaf
  all_goals try (simp only [sOutCfg_ok, sOutCfg_raise]; leaf)
  all_goals try (split <;> simp only [sOutCfg_ok, sOutCfg_raise] <;> leaf)
  all_goals try (split <;> (try split) <;> (try split) <;> (try split) <;> simp only [sOutCfg_ok, sOutCfg_error, sOutCfg_raise] <;> leaf)
  case closeScreen3 e =>
    split <;> split <;> simp only [sOutCfg_ok, sOutCfg_raise]
    · exact loopish_raised _ ((SFrame.redraw _).trans (by sframe)) (by simp)
    · leaf
    · leaf
    · leaf
  case newLoop s =>
    split
    · leaf
    · simp only [sOutCfg_ok]
      refine loopish_mk [.mainCheck c.L.queues.length] (((SFrame.enqueue _ _).trans ?_).push _) (by simp) (by simp [Instr.external])
      sframe
  case callH h d s =>
    cases h <;> simp only [sOutCfg_ok] <;> try leaf
    case user hid =>
      refine loopish_mk (List.map Instr.act (P.handlerScript hid _) ++ [.hret hid])
        (((SFrame.emit _ _ _ rfl).trans ?_).push _) (by simp; rfl) ?_
      · sframe
      · simp [Instr.external]
        rintro i (⟨a, _, rfl⟩ | rfl) <;> rfl
  case getDispatch =>
    simp only [bind, Except.bind, pure, Except.pure]
    obtain ⟨c1, h, hf, hcode⟩ | ⟨s, c2, h, hf, hcode⟩ := take_frame ({ c with code := rest } : Cfg)
    · rw [h]; simp only [sOutCfg_error]
      exact loopish_suf (hf.trans (by sframe)) (by simp [hcode])
    · rw [h]; simp only [sOutCfg_ok]
      exact loopish_mk [.processSignal s] ((hf.trans (by sframe)).push _) (by simp [hcode]) (by simp [Instr.external])
  case printWidget scr =>
    split
    · leaf
    · split
      · leaf
      · simp only [sOutCfg_ok]
        exact loopish_mk _ (by sframe) rfl (go_external _ _ _ _ (by simp))
  case waitStep cls t =>
    split
    · simp only [bind, Except.bind, pure, Except.pure]
      obtain ⟨c1, h, hf, hcode⟩ | ⟨s, c2, h, hf, hcode⟩ := take_frame ({ c with code := rest } : Cfg)
      · rw [h]; simp only [sOutCfg_error]
        exact loopish_suf (hf.trans (by sframe)) (by simp [hcode])
      · rw [h]; simp only [sOutCfg_ok]
        exact loopish_mk [.processSignal s, .waitCheck cls t] ((hf.trans (by sframe)).push _) (by simp [hcode])
          (by simp [Instr.external])
    · simp only [sOutCfg_ok]; leaf
  case blockingInput scr cont =>
    generalize (if cont = true then promptText P contPrompt else _) = text
    have hf := SFrame.startRequest (push (newIH ({ c with code := rest } : Cfg) (.im scr) (P.spec scr).skipCheck none).2
      [.waitInput (newIH ({ c with code := rest } : Cfg) (.im scr) (P.spec scr).skipCheck none).1])
      (newIH ({ c with code := rest } : Cfg) (.im scr) (P.spec scr).skipCheck none).1 (.im scr) text
    have hs := (startRequest_frame (push (newIH ({ c with code := rest } : Cfg) (.im scr) (P.spec scr).skipCheck none).2
      [.waitInput (newIH ({ c with code := rest } : Cfg) (.im scr) (P.spec scr).skipCheck none).1])
      (newIH ({ c with code := rest } : Cfg) (.im scr) (P.spec scr).skipCheck none).1 (.im scr) text).2.2.2.2.2.2.2.2.2.1
    refine ⟨hf.trans (by sframe), ?_⟩
    simp only [push, newIH, List.cons_append, List.nil_append] at hs
    rcases List.suffix_cons_iff.1 hs with h | h
    · exact ⟨[.waitInput _], CodeStep.of_eq h, by simp [Instr.external]⟩
    · exact ⟨[], CodeStep.of_suffix h, by simp⟩
  case inputReceived s =>
    split
    · simp only [sOutCfg_raise]; leaf
    · simp only [sOutCfg_ok]
      rename_i r _
      have h := foldl_frame (fun c t =>
          (c.newSig Cls.inputReady 0 (c.A.reqs.getD t default).requester [] (c.A.reqs.getD t default).ih false).snd.enqueue
            (c.newSig Cls.inputReady 0 (c.A.reqs.getD t default).requester [] (c.A.reqs.getD t default).ih false).fst)
        (fun c t => ⟨(SFrame.enqueue _ _).trans (by sframe), by simp⟩) c.A.inputStack.dropLast
        ((({ c with code := rest } : Cfg).newSig Cls.inputReady 0 (c.A.reqs.getD r default).requester s.line
              (c.A.reqs.getD r default).ih).snd.enqueue
          (({ c with code := rest } : Cfg).newSig Cls.inputReady 0 (c.A.reqs.getD r default).requester s.line
              (c.A.reqs.getD r default).ih).fst)
      refine loopish_suf (SFrame.trans ?_ (h.1.trans ((SFrame.enqueue _ _).trans (by sframe)))) ?_
      · sframe
      · simp only [h.2]; simp

end Simpleline
