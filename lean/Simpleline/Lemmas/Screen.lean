/- Helper lemmas for C12 (paging, window, prompt). -/
import Simpleline.Model.Paging
import Simpleline.Model.Widgets

namespace Simpleline

/-! ### paging -/

theorem pages_of_short (real : Nat) (ls : List Str) (h : ls.length ≤ real ∨ real = 0) :
    pages real ls = ls.map .line := by
  rw [pages, if_pos h]

theorem pages_of_long (real : Nat) (ls : List Str) (h : ¬(ls.length ≤ real ∨ real = 0)) :
    pages real ls = (ls.take real).map .line ++ .ask :: pages real (ls.drop real) := by
  rw [pages, if_neg h]

theorem pages_eq_nil_iff (real : Nat) (ls : List Str) : pages real ls = [] ↔ ls = [] := by
  rw [pages]; split <;> simp
  rename_i h
  intro hl; subst hl; simp at h

/-- every content line is printed exactly once and in order (`f` is the projection of an event to
the line it prints) -/
theorem pages_filterMap (f : OutEv → Option Str) (hl : ∀ l, f (.line l) = some l) (ha : f .ask = none)
    (real : Nat) (ls : List Str) : (pages real ls).filterMap f = ls := by
  have hmap : ∀ xs : List Str, (xs.map OutEv.line).filterMap f = xs := by
    intro xs
    induction xs with
    | nil => rfl
    | cons x xs ih => simp [List.filterMap_cons, hl, ih]
  induction ls using pages.induct (real := real) with
  | case1 ls h => rw [pages_of_short real ls h, hmap]
  | case2 ls h ih =>
    rw [pages_of_long real ls h, List.filterMap_append, hmap, List.filterMap_cons, ha]
    simp only [ih, List.take_append_drop]

/-- the requests sit exactly after every full page -/
theorem pages_ask_iff (real : Nat) (hr : 1 ≤ real) (ls : List Str) :
    ∀ (i : Nat) (hi : i < (pages real ls).length),
      (pages real ls)[i] = .ask ↔ i % (real + 1) = real := by
  induction ls using pages.induct (real := real) with
  | case1 ls h =>
    intro i hi
    have hlen : ls.length ≤ real := by omega
    simp only [pages_of_short real ls h, List.length_map] at hi ⊢
    have : i % (real + 1) = i := Nat.mod_eq_of_lt (by omega)
    simp only [List.getElem_map, reduceCtorEq, false_iff]
    omega
  | case2 ls h ih =>
    intro i hi
    have hlen : real < ls.length := by omega
    have hA : ((ls.take real).map OutEv.line).length = real := by
      simp only [List.length_map, List.length_take]; omega
    simp only [pages_of_long real ls h] at hi ⊢
    rw [List.getElem_append]
    split
    · rename_i hlt
      rw [hA] at hlt
      have : i % (real + 1) = i := Nat.mod_eq_of_lt (by omega)
      simp only [List.getElem_map, reduceCtorEq, false_iff]
      omega
    · rename_i hge
      rw [hA] at hge
      simp only [hA]
      rcases Nat.lt_or_ge real i with hgt | hle
      · obtain ⟨j, rfl⟩ : ∃ j, i = j + (real + 1) := ⟨i - (real + 1), by omega⟩
        have hj : j + (real + 1) - real = j + 1 := by omega
        simp only [hj, List.getElem_cons_succ]
        rw [ih, Nat.add_mod_right]
      · have : i = real := by omega
        subst this
        simp [Nat.mod_eq_of_lt]

theorem getLast?_map_line_ne_ask (xs : List Str) : (xs.map OutEv.line).getLast? ≠ some .ask := by
  rw [List.getLast?_map]
  cases xs.getLast? <;> simp

/-- the last page is not followed by a request -/
theorem pages_getLast?_ne_ask (real : Nat) (ls : List Str) : (pages real ls).getLast? ≠ some .ask := by
  induction ls using pages.induct (real := real) with
  | case1 ls h => rw [pages_of_short real ls h]; exact getLast?_map_line_ne_ask ls
  | case2 ls h ih =>
    rw [pages_of_long real ls h]
    have hne : pages real (ls.drop real) ≠ [] := by
      rw [Ne, pages_eq_nil_iff]
      intro hd
      have := congrArg List.length hd
      simp only [List.length_drop, List.length_nil] at this
      omega
    rw [List.getLast?_append_of_ne_nil _ (by simp), List.getLast?_cons_of_ne_nil hne]
    exact ih

theorem filter_ask_map_line (xs : List Str) :
    ((xs.map OutEv.line).filter fun e => e == .ask) = [] := by
  induction xs with
  | nil => rfl
  | cons x xs ih => simp [List.filter_cons, ih]

/-- the number of requests -/
theorem pages_count_ask (real : Nat) (hr : 1 ≤ real) (ls : List Str) :
    ((pages real ls).filter fun e => e == .ask).length = (ls.length - 1) / real := by
  induction ls using pages.induct (real := real) with
  | case1 ls h =>
    rw [pages_of_short real ls h, filter_ask_map_line, List.length_nil]
    exact (Nat.div_eq_of_lt (by omega)).symm
  | case2 ls h ih =>
    rw [pages_of_long real ls h, List.filter_append, filter_ask_map_line, List.nil_append,
      List.filter_cons_of_pos (by decide), List.length_cons, ih, List.length_drop]
    have : ls.length - 1 = (ls.length - real - 1) + real := by omega
    rw [this, Nat.add_div_right _ (by omega)]

end Simpleline
