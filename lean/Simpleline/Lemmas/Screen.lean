/- Helper lemmas for C12 (paging, window, prompt). -/
import Simpleline.Model.Paging
import Simpleline.Model.Widgets

namespace Simpleline

/-! ### paging -/

theorem pages_of_short (real : Nat) (ls : List Str) (h : ls.length ≤ real ∨ real = 0) :
    pages real ls = ls.map .line := by
  rw [pages, if_pos h]

theorem pages_of_long (real : Nat) (ls : List Str) (h : ¬(ls.length ≤ real ∨ real = 0)) :
    pages real ls = (ls.take real).map .line ++ .ask :: pages real (ls.drop real) := by
  rw [pages, if_neg h]

theorem pages_eq_nil_iff (real : Nat) (ls : List Str) : pages real ls = [] ↔ ls = [] := by
  rw [pages]; split <;> simp
  rename_i h
  intro hl; subst hl; simp at h

/-- every content line is printed exactly once and in order (`f` is the projection of an event to
the line it prints) -/
theorem pages_filterMap (f : OutEv → Option Str) (hl : ∀ l, f (.line l) = some l) (ha : f .ask = none)
    (real : Nat) (ls : List Str) : (pages real ls).filterMap f = ls := by
  have hmap : ∀ xs : List Str, (xs.map OutEv.line).filterMap f = xs := by
    intro xs
    induction xs with
    | nil => rfl
    | cons x xs ih => simp [hl, ih]
  induction ls using pages.induct (real := real) with
  | case1 ls h => rw [pages_of_short real ls h, hmap]
  | case2 ls h ih =>
    rw [pages_of_long real ls h, List.filterMap_append, hmap, List.filterMap_cons, ha]
    simp only [ih, List.take_append_drop]

/-- the requests sit exactly after every full page -/
theorem pages_ask_iff (real : Nat) (hr : 1 ≤ real) (ls : List Str) :
    ∀ (i : Nat) (hi : i < (pages real ls).length),
      (pages real ls)[i] = .ask ↔ i % (real + 1) = real := by
  induction ls using pages.induct (real := real) with
  | case1 ls h =>
    intro i hi
    have hlen : ls.length ≤ real := by omega
    simp only [pages_of_short real ls h, List.length_map] at hi ⊢
    have : i % (real + 1) = i := Nat.mod_eq_of_lt (by omega)
    simp only [List.getElem_map, reduceCtorEq, false_iff]
    omega
  | case2 ls h ih =>
    intro i hi
    have hlen : real < ls.length := by omega
    have hA : ((ls.take real).map OutEv.line).length = real := by
      simp only [List.length_map, List.length_take]; omega
    simp only [pages_of_long real ls h] at hi ⊢
    rw [List.getElem_append]
    split
    · rename_i hlt
      rw [hA] at hlt
      have : i % (real + 1) = i := Nat.mod_eq_of_lt (by omega)
      simp only [List.getElem_map, reduceCtorEq, false_iff]
      omega
    · rename_i hge
      rw [hA] at hge
      simp only [hA]
      rcases Nat.lt_or_ge real i with hgt | hle
      · obtain ⟨j, rfl⟩ : ∃ j, i = j + (real + 1) := ⟨i - (real + 1), by omega⟩
        have hj : j + (real + 1) - real = j + 1 := by omega
        simp only [hj, List.getElem_cons_succ]
        rw [ih, Nat.add_mod_right]
      · have : i = real := by omega
        subst this
        simp

theorem getLast?_map_line_ne_ask (xs : List Str) : (xs.map OutEv.line).getLast? ≠ some .ask := by
  rw [List.getLast?_map]
  cases xs.getLast? <;> simp

/-- the last page is not followed by a request -/
theorem pages_getLast?_ne_ask (real : Nat) (ls : List Str) : (pages real ls).getLast? ≠ some .ask := by
  induction ls using pages.induct (real := real) with
  | case1 ls h => rw [pages_of_short real ls h]; exact getLast?_map_line_ne_ask ls
  | case2 ls h ih =>
    rw [pages_of_long real ls h]
    have hne : pages real (ls.drop real) ≠ [] := by
      rw [Ne, pages_eq_nil_iff]
      intro hd
      have := congrArg List.length hd
      simp only [List.length_drop, List.length_nil] at this
      omega
    obtain ⟨a, t, hat⟩ := List.exists_cons_of_ne_nil hne
    rw [hat] at ih
    rw [hat, List.getLast?_append, List.getLast?_cons_cons]
    rw [List.getLast?_cons] at ih ⊢
    simpa using ih

theorem filter_ask_map_line (xs : List Str) :
    ((xs.map OutEv.line).filter fun e => e == .ask) = [] := by
  induction xs with
  | nil => rfl
  | cons x xs ih => simp [ih]

/-- the number of requests -/
theorem pages_count_ask (real : Nat) (hr : 1 ≤ real) (ls : List Str) :
    ((pages real ls).filter fun e => e == .ask).length = (ls.length - 1) / real := by
  induction ls using pages.induct (real := real) with
  | case1 ls h =>
    rw [pages_of_short real ls h, filter_ask_map_line, List.length_nil]
    exact (Nat.div_eq_of_lt (by omega)).symm
  | case2 ls h ih =>
    rw [pages_of_long real ls h, List.filter_append, filter_ask_map_line, List.nil_append,
      List.filter_cons_of_pos (by decide), List.length_cons, ih, List.length_drop]
    have : ls.length - 1 = (ls.length - real - 1) + real := by omega
    rw [this, Nat.add_div_right _ (by omega)]

/-- `_print_widget` is the page loop at `real = h - 2` whenever it is defined -/
theorem printWidget_eq_some (ls : List Str) (h : Nat) (evs : List OutEv)
    (he : printWidget ls h = some evs) : evs = pages (h - 2) ls := by
  unfold printWidget at he
  split at he
  · rename_i hl; subst hl
    rw [pages_of_short _ _ (by simp)]
    simpa using he.symm
  · split at he
    · simp at he
    · simpa using he.symm

theorem printWidget_of_le (ls : List Str) (h : Nat) (hh : 3 ≤ h) :
    printWidget ls h = some (pages (h - 2) ls) := by
  unfold printWidget
  split
  · rename_i hl; subst hl
    rw [pages_of_short _ _ (by simp)]; rfl
  · rw [if_neg (by omega)]

/-! ### the prompt -/

theorem find?_setOpt (opts : List (Str × Str)) (k d k' : Str) :
    ((setOpt opts k d).find? fun kd => kd.1 = k').map (·.2) =
      if k' = k then some d else (opts.find? fun kd => kd.1 = k').map (·.2) := by
  induction opts with
  | nil =>
    by_cases hk : k' = k
    · simp [setOpt, hk]
    · have : ¬ k = k' := fun h => hk h.symm
      simp [setOpt, hk, this]
  | cons x rest ih =>
    obtain ⟨k0, d0⟩ := x
    unfold setOpt
    by_cases h0 : k0 = k
    · subst h0
      by_cases hk : k' = k0
      · simp [hk]
      · have : ¬ k0 = k' := fun h => hk h.symm
        simp [hk, this]
    · simp only [h0, if_false, List.find?_cons]
      by_cases h1 : k0 = k'
      · subst h1
        have : ¬ k0 = k := h0
        simp [this]
      · simp only [h1, decide_false]
        exact ih

theorem find?_filter_ne (opts : List (Str × Str)) (k k' : Str) :
    ((opts.filter fun kd => kd.1 ≠ k).find? fun kd => kd.1 = k').map (·.2) =
      if k' = k then none else (opts.find? fun kd => kd.1 = k').map (·.2) := by
  induction opts with
  | nil => simp
  | cons x rest ih =>
    obtain ⟨k0, d0⟩ := x
    by_cases h0 : k0 = k
    · subst h0
      rw [List.filter_cons_of_neg (by simp), ih]
      by_cases hk : k' = k0
      · simp [hk]
      · have : ¬ k0 = k' := fun h => hk h.symm
        simp [hk, this]
    · rw [List.filter_cons_of_pos (by simpa using h0)]
      simp only [List.find?_cons]
      by_cases h1 : k0 = k'
      · subst h1
        simp [h0]
      · simp only [h1, decide_false]
        exact ih

theorem mem_keys_setOpt (opts : List (Str × Str)) (k d x : Str)
    (hx : x ∈ (setOpt opts k d).map (·.1)) : x = k ∨ x ∈ opts.map (·.1) := by
  induction opts with
  | nil => simpa [setOpt] using hx
  | cons y rest ih =>
    obtain ⟨k0, d0⟩ := y
    unfold setOpt at hx
    by_cases h0 : k0 = k
    · simp only [h0, if_true, List.map_cons, List.mem_cons] at hx ⊢
      rcases hx with hx | hx
      · exact Or.inl hx
      · exact Or.inr (Or.inr hx)
    · simp only [h0, if_false, List.map_cons, List.mem_cons] at hx ⊢
      rcases hx with hx | hx
      · exact Or.inr (Or.inl hx)
      · rcases ih hx with h | h
        · exact Or.inl h
        · exact Or.inr (Or.inr h)

theorem setOpt_keys_nodup (opts : List (Str × Str)) (k d : Str) (h : (opts.map (·.1)).Nodup) :
    ((setOpt opts k d).map (·.1)).Nodup := by
  induction opts with
  | nil => simp [setOpt]
  | cons y rest ih =>
    obtain ⟨k0, d0⟩ := y
    simp only [List.map_cons, List.nodup_cons] at h
    unfold setOpt
    by_cases h0 : k0 = k
    · subst h0
      simpa using h
    · simp only [h0, if_false, List.map_cons, List.nodup_cons]
      refine ⟨?_, ih h.2⟩
      intro hm
      rcases mem_keys_setOpt rest k d k0 hm with h1 | h1
      · exact h0 h1
      · exact h.1 h1

/-! #### the order on strings -/

theorem strLt_irrefl (a : Str) : strLt a a = false := by
  induction a with
  | nil => rfl
  | cons x xs ih => simp [strLt, ih]

/-- `≥` is transitive -/
theorem strLt_false_trans : ∀ (a b c : Str), strLt a b = false → strLt b c = false → strLt a c = false
  | [], [], _, _, h2 => h2
  | [], _ :: _, _, h1, _ => by simp [strLt] at h1
  | _ :: _, [], [], _, _ => by simp [strLt]
  | _ :: _, [], _ :: _, _, h2 => by simp [strLt] at h2
  | _ :: _, _ :: _, [], _, _ => by simp [strLt]
  | x :: xs, y :: ys, z :: zs, h1, h2 => by
    unfold strLt at h1 h2 ⊢
    by_cases hxy : x.toNat < y.toNat
    · simp [hxy] at h1
    · by_cases hyz : y.toNat < z.toNat
      · simp [hyz] at h2
      · rw [if_neg hxy] at h1
        rw [if_neg hyz] at h2
        have hxz : ¬ x.toNat < z.toNat := by omega
        rw [if_neg hxz]
        by_cases hzx : z.toNat < x.toNat
        · rw [if_pos hzx]
        · rw [if_neg hzx]
          have hyx : ¬ y.toNat < x.toNat := by omega
          have hzy : ¬ z.toNat < y.toNat := by omega
          rw [if_neg hyx] at h1
          rw [if_neg hzy] at h2
          exact strLt_false_trans xs ys zs h1 h2

/-- `<` implies `≤` -/
theorem strLt_asymm : ∀ (a b : Str), strLt a b = true → strLt b a = false
  | [], [], h => by simp [strLt] at h
  | [], _ :: _, _ => by simp [strLt]
  | _ :: _, [], h => by simp [strLt] at h
  | x :: xs, y :: ys, h => by
    unfold strLt at h ⊢
    by_cases hxy : x.toNat < y.toNat
    · have : ¬ y.toNat < x.toNat := by omega
      rw [if_neg this, if_pos hxy]
    · rw [if_neg hxy] at h
      by_cases hyx : y.toNat < x.toNat
      · simp [hyx] at h
      · rw [if_neg hyx] at h
        rw [if_neg hyx, if_neg hxy]
        exact strLt_asymm xs ys h

theorem insertSorted_perm (kd : Str × Str) (l : List (Str × Str)) : (insertSorted kd l).Perm (kd :: l) := by
  induction l with
  | nil => exact List.Perm.refl _
  | cons x xs ih =>
    unfold insertSorted
    split
    · exact List.Perm.refl _
    · exact (List.Perm.cons x ih).trans (List.Perm.swap kd x xs)

theorem insertSorted_sorted (kd : Str × Str) (l : List (Str × Str))
    (h : l.Pairwise fun a b => strLt b.1 a.1 = false) :
    (insertSorted kd l).Pairwise fun a b => strLt b.1 a.1 = false := by
  induction l with
  | nil => simp [insertSorted]
  | cons x xs ih =>
    rw [List.pairwise_cons] at h
    unfold insertSorted
    split
    · rename_i hlt
      refine List.Pairwise.cons ?_ (List.Pairwise.cons h.1 h.2)
      intro y hy
      rcases List.mem_cons.1 hy with rfl | hy
      · exact strLt_asymm _ _ hlt
      · exact strLt_false_trans _ _ _ (h.1 y hy) (strLt_asymm _ _ hlt)
    · rename_i hlt
      refine List.Pairwise.cons ?_ (ih h.2)
      intro y hy
      rcases List.mem_cons.1 ((insertSorted_perm kd xs).mem_iff.1 hy) with rfl | hy
      · simpa using hlt
      · exact h.1 y hy

theorem sortOpts_perm (opts : List (Str × Str)) : (sortOpts opts).Perm opts := by
  induction opts with
  | nil => exact List.Perm.refl _
  | cons x xs ih =>
    show (insertSorted x (sortOpts xs)).Perm (x :: xs)
    exact (insertSorted_perm x _).trans (List.Perm.cons x ih)

theorem sortOpts_sorted (opts : List (Str × Str)) :
    (sortOpts opts).Pairwise fun a b => strLt b.1 a.1 = false := by
  induction opts with
  | nil => exact List.Pairwise.nil
  | cons x xs ih => exact insertSorted_sorted x _ ih

theorem prompt_str_some (m : Str) (hm : m ≠ []) (opts : List (Str × Str)) (ho : opts ≠ []) :
    ({ message := some m, options := opts } : Prompt).str =
      m ++ [' '] ++ (['['] ++ joinStr [',', ' '] ((sortOpts opts).map optStr) ++ [']']) ++ [':', ' '] := by
  cases m with
  | nil => exact absurd rfl hm
  | cons c cs => simp [Prompt.str, ho, joinStr]

/-! ### the window -/

theorem overlay_nil_zero (s : List Char) : overlay [] s 0 = s := by
  simp [overlay, padTo]

/-- drawing at the row just below the buffer, column 0, appends -/
theorem drawInto_at_end (buf g : Grid) : drawInto buf g buf.length 0 = buf ++ g := by
  unfold drawInto extendRows
  apply List.ext_getElem
  · simp
  · intro i h1 h2
    simp only [List.getElem_mapIdx, List.getElem_append]
    have hsub : buf.length + g.length - buf.length = g.length := by omega
    by_cases hi : i < buf.length
    · have : ¬ buf.length ≤ i := by omega
      simp [hi, this]
    · have hle : buf.length ≤ i := by omega
      have hlt : i < buf.length + g.length := by simpa using h2
      have hg : i - buf.length < g.length := by omega
      simp [hi, hle, hlt, overlay_nil_zero, hg]

/-- the invariant of a window being filled: the cursor is at the start of the row below the buffer -/
def WSt.AtEnd (s : WSt) : Prop := s.cur = (s.buf.length, 0)

theorem WSt.draw_atEnd (s : WSt) (g : Grid) (h : s.AtEnd) :
    (s.draw g false).buf = s.buf ++ g ∧ (s.draw g false).AtEnd := by
  unfold WSt.AtEnd at h ⊢
  simp [WSt.draw, WSt.drawAt, h, drawInto_at_end]

theorem WSt.clear_atEnd (s : WSt) : s.clear.AtEnd := rfl

/-- the `for item in self._items` loop appends the lines of every rendered item, in order -/
theorem renderWindowItems_spec (cc : CharClass) (w : Int) :
    ∀ (items : List Wd) (st st' : WSt) (items' : List Wd), st.AtEnd →
      renderWindowItems cc w st items = .ok (st', items') →
      st'.buf = st.buf ++ items'.flatMap Wd.lines ∧ items'.length = items.length ∧
        ∀ i, (hi : i < items.length) → (hi' : i < items'.length) →
          items[i].render cc w = .ok items'[i] := by
  intro items
  induction items with
  | nil =>
    intro st st' items' _ h
    rw [renderWindowItems] at h
    cases h
    simp
  | cons it its ih =>
    intro st st' items' hst h
    rw [renderWindowItems] at h
    cases h1 : it.render cc w with
    | error e => simp [h1, bind, Except.bind] at h
    | ok it' =>
      cases h2 : renderWindowItems cc w (st.draw it'.lines false) its with
      | error e => simp [h1, h2, bind, Except.bind] at h
      | ok p =>
        obtain ⟨st2, its'⟩ := p
        simp only [h1, h2, bind, Except.bind, pure, Except.pure, Except.ok.injEq, Prod.mk.injEq] at h
        obtain ⟨rfl, rfl⟩ := h
        obtain ⟨hb, ha⟩ := WSt.draw_atEnd st it'.lines hst
        obtain ⟨ih1, ih2, ih3⟩ := ih _ _ _ ha h2
        refine ⟨?_, by simp [ih2], ?_⟩
        · rw [ih1, hb, List.flatMap_cons, List.append_assoc]
        · intro i hi hi'
          cases i with
          | zero => simpa using h1
          | succ j =>
            simp only [List.getElem_cons_succ]
            exact ih3 j (by simpa using hi) (by simpa using hi')

/-- the title part of a window: the wrapped title and one blank line, when there is a title -/
def windowTitleLines (cc : CharClass) (title : Option Str) (w : Int) : Except RErr Grid :=
  match truthy title with
  | some t => (renderTextSt cc {} t w).map fun s => s.buf ++ [[]]
  | none => .ok []

theorem window_render_spec (cc : CharClass) (st : WSt) (title : Option Str) (items : List Wd) (w : Int)
    (r : Wd) (h : (Wd.window st title items).render cc w = .ok r) :
    ∃ (tl : Grid) (items' : List Wd), windowTitleLines cc title w = .ok tl ∧
      items'.length = items.length ∧
      (∀ i, (hi : i < items.length) → (hi' : i < items'.length) →
        items[i].render cc w = .ok items'[i]) ∧
      r.lines = tl ++ items'.flatMap Wd.lines := by
  rw [Wd.render] at h
  unfold windowTitleLines
  -- the state after the title part
  have key : ∀ (st1 : WSt), st1.AtEnd →
      ((do let __x ← renderWindowItems cc w st1 items
           match __x with
           | (st2, items') => pure (Wd.window st2 title items')) : Except RErr Wd) = Except.ok r →
      ∃ items' : List Wd, items'.length = items.length ∧
        (∀ i, (hi : i < items.length) → (hi' : i < items'.length) →
          items[i].render cc w = .ok items'[i]) ∧
        r.lines = st1.buf ++ items'.flatMap Wd.lines := by
    intro st1 hst1 hr
    cases h2 : renderWindowItems cc w st1 items with
    | error e => simp [h2, bind, Except.bind] at hr
    | ok p =>
      obtain ⟨st2, items'⟩ := p
      simp only [h2, bind, Except.bind, pure, Except.pure, Except.ok.injEq] at hr
      subst hr
      obtain ⟨h1, h2, h3⟩ := renderWindowItems_spec cc w items st1 st2 items' hst1 h2
      exact ⟨items', h2, h3, h1⟩
  cases ht : truthy title with
  | some t =>
    simp only [ht] at h ⊢
    cases htw : renderTextSt cc {} t w with
    | error e => simp [htw, bind, Except.bind] at h
    | ok tw =>
      simp only [htw, bind, Except.bind, pure, Except.pure] at h
      obtain ⟨hb1, ha1⟩ := WSt.draw_atEnd st.clear tw.buf (WSt.clear_atEnd st)
      obtain ⟨hb2, ha2⟩ := WSt.draw_atEnd _ (renderSepSt 1).buf ha1
      obtain ⟨items', h1, h2, h3⟩ := key _ ha2 h
      refine ⟨tw.buf ++ [[]], items', rfl, h1, h2, ?_⟩
      rw [h3, hb2, hb1]
      simp [WSt.clear, renderSepSt]
  | none =>
    simp only [ht, bind, Except.bind, pure, Except.pure] at h ⊢
    obtain ⟨items', h1, h2, h3⟩ := key _ (WSt.clear_atEnd st) h
    exact ⟨[], items', rfl, h1, h2, by simpa [WSt.clear] using h3⟩

theorem sep_render_lines (cc : CharClass) (st : WSt) (n : Nat) (w : Int) (r : Wd)
    (h : (Wd.sep st n).render cc w = .ok r) : r.lines = List.replicate n [] := by
  rw [Wd.render] at h
  cases h
  rfl

end Simpleline
