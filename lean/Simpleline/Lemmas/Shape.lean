/-
  Layer 1 of the shape package: the invariants relating the pending instruction list to the stack of
  loop levels, for every reachable configuration of every started run (`Shape_*`).
-/
import Simpleline.Lemmas.ShapeEvents

namespace Simpleline

open Shape

variable {P : Prog} {c0 c c' : Cfg}

/-- **LevelsInv.** In every reachable configuration of a started run in which `close_loop` /
`execute_new_loop` were used well-formedly (`WFClose`, `WFDrain`) and `force_quit` has not been called,
the `_mainloop` activations on the call stack correspond exactly to the open levels (see `LevelsInv`). -/
theorem Shape_levelsInv (h0 : Started c0) (hr : Reach P c0 c) (hw : WFClose c) (hd : WFDrain c)
    (hf : NoForceQuit c) : LevelsInv c :=
  levelsInv_of_exact (reach_exact h0 hr (WFOpen.of_WFClose hw) hd hf)

/-- The weaker correspondence that survives double `close_loop` calls and `force_quit` (it needs only
that `execute_new_loop` is never called while `_run_loop` is false): unless the run is over, the open
levels are — innermost first — a subsequence of the activations, and while `_run_loop` is false the
innermost activation (unless it has just left its loop) serves no open level. -/
theorem Shape_levels_sublist (h0 : Started c0) (hr : Reach P c0 c) (hw : WFOpen c) :
    c.Over ∨
    (c.L.levels.reverse.Sublist (markersA c.code) ∧
     (c.L.runLoop = false → headIsRestore c.code = false →
        ∀ q, (markersA c.code).head? = some q → q ∉ c.L.levels)) :=
  reach_sub h0 hr hw

/-- after `force_quit` no level is open and `_run_loop` is false, until `run()` starts afresh -/
theorem Shape_forceQuit (h0 : Started c0) (hr : Reach P c0 c) (hf : c.L.forceQuit = true) :
    c.L.levels = [] ∧ c.L.runLoop = false :=
  (reach_basic h0 hr).fq hf

/-- activations are nested newest-innermost (their levels strictly decrease from the head of the code to
its tail and are existing queue objects); the open levels strictly increase from bottom to top; the
active queue is the top level -/
theorem Shape_sorted (h0 : Started c0) (hr : Reach P c0 c) :
    (markersA c.code).Pairwise (· > ·) ∧ (∀ q ∈ markersA c.code, q < c.L.queues.length) ∧
    c.L.levels.Pairwise (· < ·) ∧ (∀ q ∈ c.L.levels, q < c.L.queues.length) ∧
    (∀ a, c.L.levels.getLast? = some a → c.L.active = a) :=
  have hb := reach_basic h0 hr
  ⟨hb.msorted, hb.mlt, hb.lsorted, hb.llt, hb.active⟩

/-- once `App.run()` has been reached, `markersA` is just the list of `mainCheck` markers -/
theorem Shape_markers (happ : ∀ i ∈ c.code, i ≠ Instr.apprun) : markers c.code = markersA c.code :=
  markers_eq_markersA happ

/-- every activation on the call stack serves an open level, or its level was closed by `close_loop`
(`.closeLevel q` is in the history) or removed by `force_quit` -/
theorem Shape_closed (h0 : Started c0) (hr : Reach P c0 c) :
    ∀ q ∈ markersA c.code, q ∈ c.L.levels ∨ Tr.closeLevel q ∈ c.tr ∨ Tr.forceQuit ∈ c.tr := by
  intro q hq
  rcases reach_closed h0 hr q hq with h | h | h
  · exact .inl h
  · exact .inr (.inl (mem_shapeTr.1 h).1)
  · exact .inr (.inr (mem_shapeTr.1 h).1)

/-! ### NoErrCross -/

theorem errSegment_chained {h : Instr} {rest : List Instr} (hc : Chained (h :: rest)) (hh : h.isLC = false) :
    ∀ i ∈ errSegment rest, i.isLC = false ∨ i = .apprun := by
  induction rest generalizing h with
  | nil => intro i hi; cases hi
  | cons b rest ih =>
    have hadj : h.fclass.allows b = true := hc.1
    unfold errSegment
    rw [List.takeWhile_cons]
    rcases nonLC_allows hh hadj with hb | rfl | rfl
    · split
      · intro i hi
        rcases List.mem_cons.1 hi with rfl | hi
        · exact .inl hb
        · exact ih hc.2 hb i hi
      · intro i hi; cases hi
    · intro i hi; simp [Instr.catchesErr] at hi
    · have : rest = [] := by
        have := hc.2.1
        cases rest with
        | nil => rfl
        | cons x r => cases this
      subst this
      intro i hi
      simp [Instr.catchesErr] at hi
      exact .inr hi

/-- **NoErrCross.** Whenever a body instruction (anything but the loop-control instructions, which never
raise: `Shape_lc_keeps_rest`) is at the head of the code, the part of the code an ordinary exception
raised by it would unwind — everything up to the nearest `except Exception` catcher — contains no
`_mainloop` frame (`mainCheck`, `loopCheck`) and not the `except ExitMainLoop` scope of `run()`. -/
theorem Shape_noErrCross (h0 : Started c0) (hr : Reach P c0 c) {h : Instr} {rest : List Instr}
    (hc : c.code = h :: rest) (hh : h.isLC = false) : ∀ i ∈ errSegment rest, i.isLoopFrame = false := by
  have hch := reach_chained h0 hr
  rw [hc] at hch
  intro i hi
  rcases errSegment_chained hch hh i hi with h1 | rfl
  · cases i <;> first | rfl | (cases h1; done)
  · rfl

/-- a loop-control instruction never raises: executing it replaces it by some instructions and leaves
the rest of the code alone (`kill`, the uncaught-exception exit, ends the process instead) -/
theorem Shape_lc_keeps_rest {h : Instr} {rest : List Instr} (hc : c.code = h :: rest) (hh : h.isLC = true)
    (hk : ∀ s, h ≠ .kill s) : ∃ B, (outCfg (step P c)).code = B ++ rest := by
  obtain ⟨evs, hs⟩ := (stepOK P c).1
  exact lc_keeps hs hc hh hk

/-! ### markers change only at `execute_new_loop`, at the return of an activation, or when the run ends -/

/-- **An ordinary exception never removes a marker** (history form): in one transition of an execution
the activations on the call stack change only in three ways — `execute_new_loop` pushes the new level's
activation (`.openLevel`), the innermost activation returns (`.loopReturn`), or the run is over
(`ExitMainLoop`, the uncaught-exception exit, an exception before `run()`, nothing scheduled). -/
theorem Shape_markers_step (h0 : Started c0) (hr : Reach P c0 c) (ht : Trans P c c') :
    (∃ q b, Tr.openLevel q b ∈ newTr c c' ∧ markersA c'.code = q :: markersA c.code) ∨
    (∃ q, Tr.loopReturn q ∈ newTr c c' ∧ markersA c.code = q :: markersA c'.code) ∨
    c'.Over ∨
    markersA c'.code = markersA c.code := by
  obtain ⟨evs, hs, hev, _⟩ := trans_sstep ht
  rcases markers_step (reach_chained h0 hr) hs with ⟨h1, h2⟩ | ⟨q, h1, h2⟩ | h | h
  · exact .inl ⟨c.sv.nq, c.sv.runLoop, (mem_newTr_iff hev rfl).2 (by rw [h1]; simp), h2⟩
  · exact .inr (.inl ⟨q, (mem_newTr_iff hev rfl).2 (by rw [h1]; simp), h2⟩)
  · exact .inr (.inr (.inl h))
  · exact .inr (.inr (.inr h))

/-- a transition that raises `ExitMainLoop` (`.exit`) or ends in the uncaught-exception exit (`.kill`)
leaves at most the quit callback to run -/
theorem Shape_end_over (h0 : Started c0) (hr : Reach P c0 c) (ht : Trans P c c')
    (he : Tr.exit ∈ newTr c c' ∨ Tr.kill ∈ newTr c c') : c'.Over := by
  obtain ⟨evs, hs, hev, _⟩ := trans_sstep ht
  refine end_step (reach_chained h0 hr) hs ?_
  rcases he with h | h
  · exact .inl ((mem_newTr_iff hev rfl).1 h)
  · exact .inr ((mem_newTr_iff hev rfl).1 h)

/-- once the run is over it stays over -/
theorem Shape_over_stable (ht : Trans P c c') (ho : c.Over) : c'.Over := by
  obtain ⟨evs, hs, _, _⟩ := trans_sstep ht
  exact over_step (v := c.sv) ho hs

end Simpleline
