/-
  The bracket structure of the pending code: a local (adjacent-pairs) invariant `Chained` that every
  reachable configuration satisfies, strong enough to show that an ordinary exception never unwinds a
  `_mainloop` activation (`NoErrCross`) and that an `ExitMainLoop` leaves at most the quit callback.
-/
import Simpleline.Lemmas.ShapeStepProof

namespace Simpleline

/-- what may stand directly behind an instruction -/
inductive FClass where
  | none      -- nothing: `apprun`, `quitCb` are last
  | quit      -- `quitCb` (behind `catchExit`)
  | body      -- a body instruction, the `catchHandler` closing the body, or the pending `apprun`
  | bodyM     -- like `body`, or `modalRet` (behind the `newLoop` of `push_screen_modal`)
  | mainK     -- the continuation of `execute_new_loop` / `run`: like `body`, or `catchExit`
  | main      -- `mainCheck` (behind `loopCheck`)
  | loop      -- `loopCheck` (behind `getDispatch`)
  | disp      -- `loopCheck`, or a body instruction (`process_signals` called from a body)
  | handler   -- `dispatch` (behind `catchHandler`)
  | caa       -- `countAndAct` (behind `catchPI`)
  | endpi     -- `endPI` (behind `countAndAct`)
  | cps       -- `catchPS` (behind `identCheck`)
  deriving DecidableEq

/-- `newLoop` (and `drawScreen`, `afterSetup2`, `processScreen`) is only ever the head of the code;
`modalRet` stands only behind `newLoop`, the marker of the level that `newLoop` opened, or the
`restoreRun` that marker leaves -/
def Instr.isHeadOnly : Instr → Bool
  | .newLoop _ | .drawScreen _ | .afterSetup2 _ | .processScreen => true
  | _ => false

def Instr.isModalRet : Instr → Bool
  | .modalRet _ => true
  | _ => false

def Instr.fclass : Instr → FClass
  | .apprun | .quitCb => .none
  | .newLoop _ => .bodyM
  | .catchExit => .quit
  | .mainCheck _ | .restoreRun => .mainK
  | .loopCheck => .main
  | .getDispatch => .loop
  | .processSignal _ | .dispatch .. | .kill _ => .disp
  | .catchHandler => .handler
  | .catchPI _ => .caa
  | .countAndAct _ => .endpi
  | .identCheck _ => .cps
  | _ => .body

def FClass.allows : FClass → Instr → Bool
  | .none, _ => false
  | .quit, i => match i with | .quitCb => true | _ => false
  | .body, i => (!i.isLC && !i.isHeadOnly && !i.isModalRet) || (match i with | .catchHandler | .apprun => true | _ => false)
  | .bodyM, i => (!i.isLC && !i.isHeadOnly) || (match i with | .catchHandler | .apprun => true | _ => false)
  | .mainK, i => (!i.isLC && !i.isHeadOnly) || (match i with | .catchHandler | .apprun | .catchExit => true | _ => false)
  | .main, i => match i with | .mainCheck _ => true | _ => false
  | .loop, i => match i with | .loopCheck => true | _ => false
  | .disp, i => (!i.isLC && !i.isHeadOnly && !i.isModalRet) || (match i with | .loopCheck => true | _ => false)
  | .handler, i => match i with | .dispatch .. => true | _ => false
  | .caa, i => match i with | .countAndAct _ => true | _ => false
  | .endpi, i => match i with | .endPI => true | _ => false
  | .cps, i => match i with | .catchPS => true | _ => false

/-- inclusion of follow classes -/
def FClass.le : FClass → FClass → Bool
  | .none, _ => true
  | .quit, .quit => true
  | .body, .body | .body, .mainK | .body, .bodyM => true
  | .bodyM, .bodyM | .bodyM, .mainK => true
  | .mainK, .mainK => true
  | .main, .main => true
  | .loop, .loop | .loop, .disp => true
  | .disp, .disp => true
  | .handler, .handler => true
  | .caa, .caa | .caa, .body | .caa, .mainK | .caa, .disp => true
  | .endpi, .endpi | .endpi, .body | .endpi, .mainK | .endpi, .disp => true
  | .cps, .cps | .cps, .body | .cps, .mainK | .cps, .disp => true
  | _, _ => false

/-- the head of `l`, if any, may stand behind an instruction of class `cl` -/
def followsC (cl : FClass) : List Instr → Prop
  | [] => True
  | b :: _ => cl.allows b = true

/-- the adjacent-pairs invariant of the pending code -/
def Chained : List Instr → Prop
  | [] => True
  | a :: l => followsC a.fclass l ∧ Chained l

/-- a "generic" body instruction: may stand behind a body instruction and be followed by one -/
def Instr.generic (i : Instr) : Bool := i.fclass == .body && !i.isLC && !i.isHeadOnly && !i.isModalRet

namespace Shape

theorem FClass.le_allows {c d : FClass} (h : c.le d = true) (x : Instr) (hx : c.allows x = true) :
    d.allows x = true := by
  cases c <;> cases d <;> first | (cases h; done) | exact hx | (cases x <;> first | (cases hx; done) | rfl)

theorem followsC_mono {c d : FClass} (h : c.le d = true) {l : List Instr} (hf : followsC c l) : followsC d l := by
  cases l with
  | nil => trivial
  | cons b l => exact FClass.le_allows h b hf

theorem _root_.Simpleline.Chained.tail {a : Instr} {l : List Instr} (h : Chained (a :: l)) : Chained l := h.2

theorem _root_.Simpleline.Chained.drop {l : List Instr} (h : Chained l) (n : Nat) : Chained (l.drop n) := by
  induction n generalizing l with
  | zero => simpa using h
  | succ n ih =>
    cases l with
    | nil => trivial
    | cons a l => exact ih h.2

theorem _root_.Simpleline.Chained.of_append {l r : List Instr} (h : Chained (l ++ r)) : Chained r := by
  induction l with
  | nil => exact h
  | cons a l ih => exact ih h.2

theorem _root_.Simpleline.Chained.dropWhile {l : List Instr} (h : Chained l) (p : Instr → Bool) : Chained (l.dropWhile p) := by
  induction l with
  | nil => trivial
  | cons a l ih =>
    rw [List.dropWhile_cons]; split
    · exact ih h.2
    · exact h

/-- replacing the head `h` by a batch `B` whose last instruction allows at least what `h` allowed -/
theorem chained_batch {h : Instr} {B rest : List Instr} (hB : Chained B)
    (hl : ∀ b, B.getLast? = some b → h.fclass.le b.fclass = true) (hc : Chained (h :: rest)) :
    Chained (B ++ rest) := by
  induction B with
  | nil => exact hc.2
  | cons a B ih =>
    cases B with
    | nil =>
      refine ⟨?_, hc.2⟩
      exact followsC_mono (hl a rfl) hc.1
    | cons b B =>
      refine ⟨hB.1, ?_⟩
      apply ih hB.2
      intro x hx
      apply hl
      simpa [List.getLast?_cons_cons] using hx

theorem generic_allows {i : Instr} (h : i.generic = true) : FClass.body.allows i = true := by
  simp only [Instr.generic, Bool.and_eq_true, Bool.not_eq_true'] at h
  simp [FClass.allows, h.1.1.2, h.1.2, h.2]

theorem generic_fclass {i : Instr} (h : i.generic = true) : i.fclass = .body := by
  simp only [Instr.generic, Bool.and_eq_true, beq_iff_eq] at h
  exact h.1.1.1

theorem chained_generic {l : List Instr} (h : ∀ i ∈ l, i.generic = true) : Chained l := by
  induction l with
  | nil => trivial
  | cons a l ih =>
    refine ⟨?_, ih fun i hi => h i (by simp [hi])⟩
    cases l with
    | nil => trivial
    | cons b l =>
      rw [generic_fclass (h a (by simp))]
      exact generic_allows (h b (by simp))

theorem chained_append {l r : List Instr} (hl : Chained l) (hr : Chained r)
    (hlast : ∀ a, l.getLast? = some a → followsC a.fclass r) : Chained (l ++ r) := by
  induction l with
  | nil => exact hr
  | cons a l ih =>
    cases l with
    | nil => exact ⟨hlast a rfl, hr⟩
    | cons b l =>
      refine ⟨hl.1, ih hl.2 ?_⟩
      intro x hx
      apply hlast
      simpa [List.getLast?_cons_cons] using hx

/-! ### induction over executions, through the shape view -/

theorem reach_trans {P : Prog} {c0 c c' : Cfg} (h : Reach P c0 c) (t : Trans P c c') : Reach P c0 c' := by
  cases t with
  | step h' => exact .step h h'
  | deliver h' => exact .deliver h h'
  | halt h' => exact .halt h h'

/-- induction principle: an invariant of the shape view that holds initially and is preserved by
every abstract transition holds in every reachable configuration -/
theorem reach_sv_induction {P : Prog} {c0 c : Cfg} (I : SV → Prop) (h0 : I c0.sv)
    (hs : ∀ v evs v', I v → SStepE P v evs v' → I v') (h : Reach P c0 c) : I c.sv := by
  induction h with
  | init => exact h0
  | step _ hst ih => obtain ⟨evs, h1, _⟩ := trans_sstep (.step hst); exact hs _ _ _ ih h1
  | deliver _ hd ih => obtain ⟨evs, h1, _⟩ := trans_sstep (P := P) (.deliver hd); exact hs _ _ _ ih h1
  | halt _ hst ih => obtain ⟨evs, h1, _⟩ := trans_sstep (.halt hst); exact hs _ _ _ ih h1

theorem reach_grow {P : Prog} {c0 c : Cfg} (h : Reach P c0 c) : Grow c0 c := by
  induction h with
  | init => exact Grow.refl _
  | step _ hst ih => obtain ⟨_, _, _, h2⟩ := trans_sstep (.step hst); exact ih.trans h2
  | deliver _ hd ih => obtain ⟨_, _, _, h2⟩ := trans_sstep (P := P) (.deliver hd); exact ih.trans h2
  | halt _ hst ih => obtain ⟨_, _, _, h2⟩ := trans_sstep (.halt hst); exact ih.trans h2

/-! ### `Chained` is an invariant -/

theorem getLast?_append_singleton {α} (l : List α) (a : α) : (l ++ [a]).getLast? = some a := by
  simp

theorem batch_chained {P : Prog} {v : SV} {h : Instr} {B : List Instr} {evs : List Tr} (hb : Batch P v h B evs) :
    Chained B ∧ ∀ b, B.getLast? = some b → h.fclass.le b.fclass = true := by
  cases hb
  case callUser hid d s n =>
    refine ⟨chained_generic ?_, ?_⟩
    · intro i hi
      simp only [List.mem_append, List.mem_map, List.mem_singleton] at hi
      rcases hi with ⟨a, _, rfl⟩ | rfl <;> rfl
    · intro b hb
      rw [getLast?_append_singleton] at hb
      cases hb; rfl
  case callScr scr cb arg key n =>
    refine ⟨chained_generic ?_, ?_⟩
    · intro i hi
      simp only [List.mem_append, List.mem_map, List.mem_singleton] at hi
      rcases hi with (hi | ⟨a, _, rfl⟩) | rfl
      · split at hi
        · simp only [List.mem_singleton] at hi; subst hi; rfl
        · cases hi
      · rfl
      · rfl
    · intro b hb
      rw [getLast?_append_singleton] at hb
      cases hb; rfl
  case printWidget scr hB =>
    have hg : ∀ i ∈ B, i.generic = true := by
      intro i hi
      rcases hB i hi with ⟨ls, rfl⟩ | rfl <;> rfl
    refine ⟨chained_generic hg, ?_⟩
    intro b hb
    have := generic_fclass (hg b (List.mem_of_getLast? hb))
    rw [this]; rfl
  case passive hp =>
    exact ⟨trivial, fun b hb => by cases hb⟩
  all_goals
    refine ⟨by repeat' constructor, ?_⟩
    intro b hb
    simp only [List.getLast?_cons_cons, List.getLast?_singleton, Option.some.injEq, List.getLast?_nil,
      reduceCtorEq] at hb
    try subst hb
    try rfl

theorem chained_unwindTo (k : Kind) {l : List Instr} (h : Chained l) : Chained ((unwindTo k l).getD []) := by
  induction l with
  | nil => trivial
  | cons a l ih =>
    cases k <;> cases a <;>
      first
        | exact ih h.2
        | exact h.2
        | exact (h.2.dropWhile _).drop 1

theorem sstep_chained {P : Prog} {v v' : SV} {evs : List Tr} (hc : Chained v.code) (hs : SStepE P v evs v') :
    Chained v'.code := by
  cases hs with
  | stutter => exact hc
  | batch hcode hb =>
    rw [hcode] at hc
    obtain ⟨h1, h2⟩ := batch_chained hb
    exact chained_batch h1 h2 hc
  | halt hcode _ => rw [hcode] at hc; exact hc.2
  | raise hcode _ => rw [hcode] at hc; exact chained_unwindTo _ hc.2
  | kill _ => trivial
  | forceQuit hcode => rw [hcode] at hc; exact hc.2
  | schedule hcode => rw [hcode] at hc; exact hc.2
  | enqAct hcode => rw [hcode] at hc; exact hc.2
  | pushScr hcode => rw [hcode] at hc; exact hc.2
  | replace hcode _ => rw [hcode] at hc; exact hc.2
  | apprun hcode =>
    rw [hcode] at hc
    exact chained_batch (B := [.mainCheck 0, .catchExit, .quitCb]) (by repeat' constructor)
      (by intro b hb; cases hb; rfl) hc
  | restore hcode _ => rw [hcode] at hc; exact hc.2
  | «open» hcode _ =>
    rw [hcode] at hc
    exact chained_batch (B := [.mainCheck _]) (by repeat' constructor) (by intro b hb; cases hb; rfl) hc
  | pop hcode _ _ => rw [hcode] at hc; exact hc.2
  | popExit hcode _ _ => rw [hcode] at hc; exact chained_unwindTo _ hc.2
  | pushModal hcode =>
    rw [hcode] at hc
    exact chained_batch (B := [.newLoop _, .modalRet _]) (by repeat' constructor) (by intro b hb; cases hb; rfl) hc
  | closeScreen hcode _ =>
    rw [hcode] at hc
    exact chained_batch (B := [.callScr _ _ _ _, .closeScreen2 _ _]) (by repeat' constructor)
      (by intro b hb; cases hb; rfl) hc
  | discard hcode _ =>
    rw [hcode] at hc
    show Chained ((if _ then _ else _) ++ _)
    split
    · exact chained_batch (B := [.closeLoop, .afterSetupFail _]) (by repeat' constructor)
        (by intro b hb; cases hb; rfl) hc
    · exact hc.2
  | identSkip hcode _ _ => rw [hcode] at hc; exact hc.2.dropWhile _

theorem chained_init (init : List Act) : Chained (init.map .act ++ [.apprun]) := by
  apply chained_append
  · apply chained_generic
    intro i hi
    simp only [List.mem_map] at hi
    obtain ⟨a, _, rfl⟩ := hi
    rfl
  · exact ⟨trivial, trivial⟩
  · intro a ha
    obtain ⟨x, _, rfl⟩ := List.mem_map.1 (List.mem_of_getLast? ha)
    rfl

theorem reach_chained {P : Prog} {c0 c : Cfg} (h0 : Started c0) (h : Reach P c0 c) : Chained c.code := by
  obtain ⟨init, handlers, quitCb, stdin, rfl⟩ := h0
  exact reach_sv_induction (fun v => Chained v.code)
    (show Chained (initCfg init handlers quitCb stdin).sv.code from chained_init init) (fun _ _ _ => sstep_chained) h

end Shape

end Simpleline
