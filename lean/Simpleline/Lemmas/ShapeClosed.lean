/-
  Every activation on the call stack serves an open level, or its level has been closed by
  `close_loop` (a `.closeLevel` event) or removed by `force_quit`.
-/
import Simpleline.Lemmas.ShapeFrame

namespace Simpleline

def ClosedInv (v : SV) : Prop :=
  ∀ q ∈ markersA v.code, q ∈ v.levels ∨ Tr.closeLevel q ∈ v.ev ∨ Tr.forceQuit ∈ v.ev

namespace Shape

theorem closed_keep {v v' : SV} {evs : List Tr} (hi : ClosedInv v) (hsub : (markersA v'.code).Sublist (markersA v.code))
    (hl : v'.levels = v.levels) (hev : v'.ev = evs ++ v.ev) : ClosedInv v' := by
  intro q hq
  rcases hi q (hsub.subset hq) with h | h | h
  · exact .inl (by rw [hl]; exact h)
  · exact .inr (.inl (by rw [hev]; exact List.mem_append_right _ h))
  · exact .inr (.inr (by rw [hev]; exact List.mem_append_right _ h))

theorem closed_step {P : Prog} {v v' : SV} {evs : List Tr} (hi : ClosedInv v) (hs : SStepE P v evs v') :
    ClosedInv v' := by
  have hev := SStepE.ev_eq hs
  have hm := sstepE_markers_sub hs
  cases hs with
  | forceQuit _ => intro q _; exact .inr (.inr (List.mem_cons_self ..))
  | «open» _ _ =>
    rcases hm with ⟨_, h⟩ | ⟨h, _⟩
    · exact absurd h (by show v.nq + 1 ≠ v.nq; omega)
    · intro q hq
      rw [h] at hq
      rcases List.mem_cons.1 hq with rfl | hq
      · exact .inl (List.mem_append_right _ (List.mem_cons_self ..))
      · rcases hi q hq with h | h | h
        · exact .inl (List.mem_append_left _ h)
        · exact .inr (.inl (List.mem_cons_of_mem _ h))
        · exact .inr (.inr (List.mem_cons_of_mem _ h))
  | pop hc hq ha =>
    rename_i rest q0 a
    rcases hm with ⟨h, _⟩ | ⟨_, h⟩
    · intro q hqm
      rcases hi q (h.subset hqm) with h1 | h1 | h1
      · by_cases hqq : q = q0
        · subst hqq; exact .inr (.inl (List.mem_cons_self ..))
        · left
          show q ∈ v.levels.dropLast
          obtain ⟨l', hl⟩ : ∃ l', v.levels = l' ++ [q0] := by
            rcases List.eq_nil_or_concat v.levels with h' | ⟨l', x, h'⟩
            · rw [h'] at hq; cases hq
            · rw [h'] at hq; simp at hq; subst hq; exact ⟨l', by simpa using h'⟩
          rw [hl] at h1 ⊢
          simp only [List.dropLast_concat]
          rcases List.mem_append.1 h1 with h2 | h2
          · exact h2
          · simp only [List.mem_singleton] at h2; exact absurd h2 hqq
      · exact .inr (.inl (List.mem_cons_of_mem _ h1))
      · exact .inr (.inr (List.mem_cons_of_mem _ h1))
    · exact absurd h (by show v.nq ≠ v.nq + 1; omega)
  | popExit hc hq hnone =>
    rename_i rest q0
    rcases hm with ⟨h, _⟩ | ⟨_, h⟩
    · intro q hqm
      rcases hi q (h.subset hqm) with h1 | h1 | h1
      · -- the last level is popped: `q` is that level
        have : v.levels = [q0] := by
          rcases List.eq_nil_or_concat v.levels with h' | ⟨l', x, h'⟩
          · rw [h'] at hq; cases hq
          · rw [h'] at hq hnone; simp at hq hnone; subst hq; subst hnone; simpa using h'
        rw [this] at h1
        simp only [List.mem_singleton] at h1
        subst h1
        exact .inr (.inl (by rw [hev]; simp))
      · exact .inr (.inl (by rw [hev]; exact List.mem_append_right _ h1))
      · exact .inr (.inr (by rw [hev]; exact List.mem_append_right _ h1))
    · exact absurd h (by show v.nq ≠ v.nq + 1; omega)
  | stutter | batch _ _ | halt _ _ | raise _ _ | kill _ | enqAct _ | schedule _ | pushScr _ | replace _ _ | apprun _
  | restore _ _ | pushModal _ | closeScreen _ _ | discard _ _ | identSkip _ _ _ =>
    rcases hm with ⟨h, _⟩ | ⟨_, h⟩
    · exact closed_keep hi h rfl hev
    · exact absurd h (by show v.nq ≠ v.nq + 1; omega)

theorem closed_init (init : List Act) (handlers : List (Cls × HRef × Option Nat)) (quitCb : Option Nat)
    (stdin : List Str) : ClosedInv (initCfg init handlers quitCb stdin).sv := by
  intro q hq
  have : q ∈ markersA (init.map Instr.act ++ [.apprun]) := hq
  rw [markersA_init] at this
  exact .inl this

theorem reach_closed {P : Prog} {c0 c : Cfg} (h0 : Started c0) (h : Reach P c0 c) : ClosedInv c.sv := by
  obtain ⟨init, handlers, quitCb, stdin, rfl⟩ := h0
  exact reach_sv_induction ClosedInv (closed_init init handlers quitCb stdin) (fun _ _ _ hi hs => closed_step hi hs) h

end Shape

end Simpleline
