/-
  Which transitions add which level events (`loopReturn`, `openLevel`, `exit`, `kill`), and how the
  markers change in one transition.
-/
import Simpleline.Lemmas.ShapeRun

namespace Simpleline

namespace Shape

theorem not_mem_exitEv_of_ne_exit {k : Kind} {t : Tr} (h : t ≠ .exit) : t ∉ exitEv k := by
  cases k <;> simp [exitEv, h]

/-- only the exit of a `mainCheck q` at the head, with `_run_loop` false, logs `.loopReturn q` -/
theorem loopReturn_step {P : Prog} {v v' : SV} {evs : List Tr} {q : Nat} (hs : SStepE P v evs v')
    (h : Tr.loopReturn q ∈ evs) :
    ∃ rest, v.code = .mainCheck q :: rest ∧ v.runLoop = false ∧ evs = [.loopReturn q] ∧
      v' = { v with code := .restoreRun :: rest, ev := .loopReturn q :: v.ev } := by
  cases hs with
  | batch hc hb =>
    rcases batch_markers hb with ⟨_, _, h3⟩ | ⟨q', rfl, rfl, rfl, hr⟩
    · have := h3 _ h; cases this
    · simp only [List.mem_singleton, Tr.loopReturn.injEq] at h
      subst h
      exact ⟨_, hc, hr, rfl, rfl⟩
  | raise _ _ => exact absurd h (not_mem_exitEv_of_ne_exit (by simp))
  | stutter | halt _ _ | apprun _ | restore _ _ | identSkip _ _ _ | enqAct _ => cases h
  | kill _ | forceQuit _ | schedule _ | pushScr _ | replace _ _ | «open» _ _ | pop _ _ _ | popExit _ _ _
  | pushModal _ | closeScreen _ _ | discard _ _ => simp at h

/-- only `execute_new_loop` (not force-quit) logs `.openLevel` -/
theorem openLevel_step {P : Prog} {v v' : SV} {evs : List Tr} {q : Nat} {b : Bool} (hs : SStepE P v evs v')
    (h : Tr.openLevel q b ∈ evs) :
    ∃ s rest, v.code = .newLoop s :: rest ∧ v.forceQuit = false ∧ q = v.nq ∧ b = v.runLoop ∧
      evs = [.openLevel q b] ∧
      v' = SV.noteExc { v with code := .mainCheck v.nq :: rest, levels := v.levels ++ [v.nq], active := v.nq,
                               nq := v.nq + 1, ev := .openLevel v.nq v.runLoop :: v.ev } (s.cls == .exception) := by
  cases hs with
  | batch hc hb =>
    rcases batch_markers hb with ⟨_, _, h3⟩ | ⟨q', rfl, rfl, rfl, hr⟩
    · have := h3 _ h; cases this
    · simp at h
  | raise _ _ => exact absurd h (not_mem_exitEv_of_ne_exit (by simp))
  | stutter | halt _ _ | apprun _ | restore _ _ | identSkip _ _ _ | enqAct _ => cases h
  | «open» hc hf =>
    simp only [List.mem_singleton, Tr.openLevel.injEq] at h
    obtain ⟨rfl, rfl⟩ := h
    exact ⟨_, _, hc, hf, rfl, rfl, rfl, rfl⟩
  | kill _ | forceQuit _ | schedule _ | pushScr _ | replace _ _ | pop _ _ _ | popExit _ _ _
  | pushModal _ | closeScreen _ _ | discard _ _ => simp at h

/-- `ExitMainLoop` and the uncaught-exception exit end the run -/
theorem end_step {P : Prog} {v v' : SV} {evs : List Tr} (hch : Chained v.code) (hs : SStepE P v evs v')
    (h : Tr.exit ∈ evs ∨ Tr.kill ∈ evs) : overCode v'.code = true := by
  cases hs with
  | batch hc hb =>
    rcases batch_markers hb with ⟨_, _, h3⟩ | ⟨q', rfl, rfl, rfl, hr⟩
    · rcases h with h | h <;> (have := h3 _ h; cases this)
    · simp at h
  | raise hc hr =>
    rename_i hd rest k
    rcases raise_cases hch hc hr with ho | ⟨rfl, _, _⟩
    · exact ho
    · simp [exitEv] at h
  | kill _ => rfl
  | popExit hc _ _ => rw [hc] at hch; exact unwind_exit_chained hch.2
  | stutter | halt _ _ | apprun _ | restore _ _ | identSkip _ _ _ | enqAct _ => simp at h
  | forceQuit _ | schedule _ | pushScr _ | replace _ _ | «open» _ _ | pop _ _ _
  | pushModal _ | closeScreen _ _ | discard _ _ => simp at h

/-- how one transition changes the markers -/
theorem markers_step {P : Prog} {v v' : SV} {evs : List Tr} (hch : Chained v.code) (hs : SStepE P v evs v') :
    (evs = [.openLevel v.nq v.runLoop] ∧ markersA v'.code = v.nq :: markersA v.code) ∨
    (∃ q, evs = [.loopReturn q] ∧ markersA v.code = q :: markersA v'.code) ∨
    overCode v'.code = true ∨
    markersA v'.code = markersA v.code := by
  have tail : ∀ {h : Instr} {rest : List Instr}, v.code = h :: rest → h.isMarkerA = false →
      markersA rest = markersA v.code := by
    intro h rest hc hm; rw [hc, markersA_cons_of_not _ hm]
  cases hs with
  | stutter => exact .inr (.inr (.inr rfl))
  | batch hc hb =>
    rename_i h rest B
    rcases batch_markers hb with ⟨h1, _, _⟩ | ⟨q, rfl, rfl, rfl, _⟩
    · refine .inr (.inr (.inr ?_))
      show markersA (B ++ rest) = _
      rw [hc, markersA_append, h1, ← markersA_append]; rfl
    · exact .inr (.inl ⟨q, rfl, by rw [hc]; rfl⟩)
  | halt hc hh =>
    rename_i h rest
    rw [hc] at hch
    by_cases ha : h = .apprun
    · subst ha
      have : rest = [] := by
        have := hch.1
        cases rest with
        | nil => rfl
        | cons x r => cases this
      subst this
      exact .inr (.inr (.inl rfl))
    · exact .inr (.inr (.inr (tail hc (by cases h <;> first | rfl | (cases hh; done) | exact absurd rfl ha))))
  | raise hc hr =>
    rename_i h rest k
    rcases raise_cases hch hc hr with ho | ⟨rfl, hn, pre, post, h1, h2, h3⟩
    · exact .inr (.inr (.inl ho))
    · refine .inr (.inr (.inr ?_))
      rw [h2, hc, h1, markersA_cons_of_not _ (by cases h <;> first | rfl | (cases hn; done)), markersA_append,
        markersA_nil_of_nonLC h3]; rfl
  | kill _ => exact .inr (.inr (.inl rfl))
  | forceQuit hc => exact .inr (.inr (.inr (tail hc rfl)))
  | schedule hc => exact .inr (.inr (.inr (tail hc rfl)))
  | enqAct hc => exact .inr (.inr (.inr (tail hc rfl)))
  | pushScr hc => exact .inr (.inr (.inr (tail hc rfl)))
  | replace hc _ => exact .inr (.inr (.inr (tail hc rfl)))
  | apprun hc => refine .inr (.inr (.inr ?_)); rw [hc]; rfl
  | restore hc _ => exact .inr (.inr (.inr (tail hc rfl)))
  | «open» hc _ => exact .inl ⟨rfl, by rw [hc]; rfl⟩
  | pop hc _ _ => exact .inr (.inr (.inr (tail hc rfl)))
  | popExit hc _ _ => rw [hc] at hch; exact .inr (.inr (.inl (unwind_exit_chained hch.2)))
  | pushModal hc => have := tail hc rfl; exact .inr (.inr (.inr this))
  | closeScreen hc _ => have := tail hc rfl; exact .inr (.inr (.inr this))
  | discard hc _ =>
    refine .inr (.inr (.inr ?_))
    show markersA ((if _ then _ else _) ++ _) = _
    have := tail hc rfl
    split
    · exact this
    · exact this
  | identSkip hc _ _ =>
    rw [hc] at hch
    refine .inr (.inr (.inr ?_))
    show markersA (List.dropWhile _ _) = _
    rw [identSkip_chained hch]
    exact tail hc rfl

/-- a loop-control instruction never raises and leaves the rest of the code alone -/
theorem lc_keeps {P : Prog} {v v' : SV} {evs : List Tr} {h : Instr} {rest : List Instr} (hs : SStepE P v evs v')
    (hc : v.code = h :: rest) (hh : h.isLC = true) (hk : ∀ s, h ≠ .kill s) : ∃ B, v'.code = B ++ rest := by
  cases hs with
  | stutter => exact ⟨[h], hc⟩
  | batch hc' _ => rw [hc] at hc'; cases hc'; exact ⟨_, rfl⟩
  | halt hc' _ => rw [hc] at hc'; cases hc'; exact ⟨[], rfl⟩
  | raise hc' hr => rw [hc] at hc'; cases hc'; rw [canRaise_nonLC hr] at hh; cases hh
  | kill hc' => rw [hc] at hc'; cases hc'; exact absurd rfl (hk _)
  | apprun hc' => rw [hc] at hc'; cases hc'; exact ⟨_, rfl⟩
  | restore hc' _ => rw [hc] at hc'; cases hc'; exact ⟨[], rfl⟩
  | forceQuit hc' | enqAct hc' | schedule hc' | pushScr hc' | replace hc' _ | «open» hc' _ | pop hc' _ _ | popExit hc' _ _
  | pushModal hc' | closeScreen hc' _ | discard hc' _ | identSkip hc' _ _ =>
    rw [hc] at hc'; cases hc'; cases hh

theorem mem_newTr_iff {c c' : Cfg} {evs : List Tr} (h : shapeTr (newTr c c') = evs) {t : Tr} (ht : t.shape = true) :
    t ∈ newTr c c' ↔ t ∈ evs := by
  rw [← h, mem_shapeTr]; simp [ht]

/-! ### the history hypotheses are inherited by earlier configurations -/

theorem newTr_trans {a b c : Cfg} (g1 : Grow a b) (g2 : Grow b c) : newTr a c = newTr b c ++ newTr a b := by
  obtain ⟨n1, h1⟩ := g1
  obtain ⟨n2, h2⟩ := g2
  rw [newTr_of_grow h1, newTr_of_grow h2, newTr_of_grow (new := n2 ++ n1) (by rw [h2, h1, List.append_assoc])]

theorem newTr_self (a : Cfg) : newTr a a = [] := by simp [newTr]

theorem mem_tr_of_mem_newTr {a b : Cfg} (g : Grow a b) {t : Tr} (h : t ∈ newTr a b) : t ∈ b.tr := by
  obtain ⟨n, hn⟩ := g
  rw [newTr_of_grow hn] at h
  rw [hn]; exact List.mem_append_left _ h

theorem WFClose.mono {c c' : Cfg} (g : Grow c c') (h : WFClose c') : WFClose c := by
  obtain ⟨n, hn⟩ := g
  unfold WFClose at h ⊢
  rw [hn, List.all_append, Bool.and_eq_true] at h
  exact h.2

theorem WFOpen.mono {c c' : Cfg} (g : Grow c c') (h : WFOpen c') : WFOpen c := by
  obtain ⟨n, hn⟩ := g
  unfold WFOpen at h ⊢
  rw [hn, List.all_append, Bool.and_eq_true] at h
  exact h.2

theorem WFDrain.mono {c c' : Cfg} (g : Grow c c') (h : WFDrain c') : WFDrain c := by
  obtain ⟨n, hn⟩ := g
  unfold WFDrain at h ⊢
  rw [hn] at h
  exact noDoubleClose_append h

theorem NoForceQuit.mono {c c' : Cfg} (g : Grow c c') (h : NoForceQuit c') : NoForceQuit c := by
  obtain ⟨n, hn⟩ := g
  unfold NoForceQuit at h ⊢
  rw [hn] at h
  exact fun hm => h (List.mem_append_right _ hm)

theorem trans_grow {P : Prog} {c c' : Cfg} (ht : Trans P c c') : Grow c c' := (trans_sstep ht).choose_spec.2.2

end Shape

end Simpleline
