/-
  The exact correspondence `LevelsInv` between activations and levels, under `WFOpen`, `WFDrain`
  and as long as `force_quit` has not been called.
-/
import Simpleline.Lemmas.ShapeSub

namespace Simpleline

/-- the second disjunct of `LevelsInv`, on the shape view -/
def Exact' (v : SV) : Prop :=
  v.forceQuit = false ∧
   ((v.runLoop = true ∧ markersA v.code = v.levels.reverse) ∨
    (v.runLoop = false ∧ headIsRestore v.code = true ∧ markersA v.code = v.levels.reverse) ∨
    (v.runLoop = false ∧ headIsRestore v.code = false ∧ closePending v.ev = true ∧ v.levels ≠ [] ∧
       ∃ q, lastClosed v.ev = some q ∧ markersA v.code = q :: v.levels.reverse))

def ExactInv (v : SV) : Prop := overCode v.code = true ∨ Exact' v

/-- the events the exact invariant tolerates: no `execute_new_loop` with `_run_loop = False`, no force-quit -/
def exactEv : Tr → Bool
  | .openLevel _ false => false
  | .forceQuit => false
  | _ => true

namespace Shape

theorem closePending_append {evs : List Tr} (ev : List Tr) (h : ∀ t ∈ evs, t.isLevelEv = false) :
    closePending (evs ++ ev) = closePending ev := by
  induction evs with
  | nil => rfl
  | cons t evs ih =>
    have ht := h t (by simp)
    have := ih fun t ht => h t (by simp [ht])
    cases t <;> first | (cases ht; done) | exact this

theorem lastClosed_append {evs : List Tr} (ev : List Tr) (h : ∀ t ∈ evs, t.isLevelEv = false) :
    lastClosed (evs ++ ev) = lastClosed ev := by
  induction evs with
  | nil => rfl
  | cons t evs ih =>
    have ht := h t (by simp)
    have := ih fun t ht => h t (by simp [ht])
    cases t <;> first | (cases ht; done) | exact this

theorem noDoubleClose_append {a b : List Tr} (h : noDoubleClose (a ++ b) = true) : noDoubleClose b = true := by
  induction a with
  | nil => exact h
  | cons t a ih =>
    apply ih
    cases t <;> first | exact h | skip
    simp only [List.cons_append, noDoubleClose, Bool.and_eq_true] at h
    exact h.2

theorem headIsRestore_of_chained_append {l post : List Instr} (hc : Chained (l ++ post)) (hl : l ≠ []) :
    headIsRestore post = false := by
  induction l with
  | nil => exact absurd rfl hl
  | cons a l ih =>
    cases l with
    | nil => exact headIsRestore_of_chained hc
    | cons b l => exact ih hc.2 (by simp)

theorem exact_neutral {v v' : SV} (hm : markersA v'.code = markersA v.code) (hl : v'.levels = v.levels)
    (hr : v'.runLoop = v.runLoop) (hf : v'.forceQuit = v.forceQuit)
    (hcp : closePending v'.ev = closePending v.ev) (hlc : lastClosed v'.ev = lastClosed v.ev)
    (hh : headIsRestore v.code = false) (hh' : headIsRestore v'.code = false) (hi : Exact' v) : Exact' v' := by
  obtain ⟨h0, hA | hB' | hB⟩ := hi
  · exact ⟨by rw [hf]; exact h0, .inl ⟨by rw [hr]; exact hA.1, by rw [hm, hl]; exact hA.2⟩⟩
  · rw [hh] at hB'; cases hB'.2.1
  · obtain ⟨h1, _, h3, h4, q, h5, h6⟩ := hB
    exact ⟨by rw [hf]; exact h0, .inr (.inr ⟨by rw [hr]; exact h1, hh', by rw [hcp]; exact h3, by rw [hl]; exact h4,
      q, by rw [hlc]; exact h5, by rw [hm, hl]; exact h6⟩)⟩

theorem exact_step {P : Prog} {v v' : SV} {evs : List Tr} (hb : Basic v) (hi : ExactInv v) (hs : SStepE P v evs v')
    (hev : evs.all exactEv = true) (hnd : noDoubleClose v'.ev = true) : ExactInv v' := by
  rcases hi with ho | hi
  · exact .inl (over_step ho hs)
  have hch := hb.chained
  cases hs with
  | stutter => exact .inr hi
  | batch hc hbt =>
    rename_i h rest B
    rw [hc] at hch
    rcases batch_markers hbt with ⟨h1, h2, h3⟩ | ⟨q, rfl, rfl, rfl, hrl⟩
    · right
      have hm : markersA (B ++ rest) = markersA v.code := by
        rw [hc, markersA_append, h1, ← markersA_append]; rfl
      cases hh : headIsRestore v.code with
      | false =>
        exact exact_neutral (v := v) hm rfl rfl rfl (closePending_append _ h3) (lastClosed_append _ h3) hh
          (headIsRestore_batch hch h2) hi
      | true =>
        rw [hc] at hh
        cases h <;> first | (cases hh; done) | skip
        cases hbt with
        | passive hp => cases hp
        | restoreFQ hf => rw [hi.1] at hf; cases hf
    · right
      obtain ⟨h0, hA | hB' | hB⟩ := hi
      · rw [hrl] at hA; cases hA.1
      · rw [hc] at hB'; cases hB'.2.1
      · obtain ⟨_, _, _, _, q', _, h6⟩ := hB
        rw [hc] at h6
        have h7 : markersA rest = v.levels.reverse := (List.cons.inj h6).2
        exact ⟨h0, .inr (.inl ⟨hrl, rfl, h7⟩)⟩
  | halt hc hh =>
    rename_i h rest
    rw [hc] at hch
    by_cases ha : h = .apprun
    · subst ha
      left
      have : rest = [] := by
        have := hch.1
        cases rest with
        | nil => rfl
        | cons x r => cases this
      subst this; rfl
    · right
      have hnm : h.isMarkerA = false := by cases h <;> first | rfl | (cases hh; done) | exact absurd rfl ha
      refine exact_neutral (v := v) (by rw [hc, markersA_cons_of_not _ hnm]) rfl rfl rfl rfl rfl ?_
        (headIsRestore_of_chained hch) hi
      rw [hc]; cases h <;> first | rfl | (cases hh; done)
  | raise hc hr =>
    rename_i h rest k
    rcases raise_cases hb.chained hc hr with ho | ⟨rfl, hn, pre, post, h1, h2, h3⟩
    · exact .inl ho
    · right
      rw [hc, h1] at hch
      refine exact_neutral (v := v) ?_ rfl rfl rfl rfl rfl (by rw [hc]; exact headIsRestore_nonLC _ hn) ?_ hi
      · rw [h2, hc, h1, markersA_cons_of_not _ (by cases h <;> first | rfl | (cases hn; done)), markersA_append,
          markersA_nil_of_nonLC h3]; rfl
      · rw [h2]
        exact headIsRestore_of_chained_append (l := h :: pre) hch (by simp)
  | kill _ => exact .inl rfl
  | forceQuit hc => cases hev
  | schedule hc =>
    rw [hc] at hch
    exact .inr (exact_neutral (v := v) (by rw [hc]; rfl) rfl rfl rfl rfl rfl (by rw [hc]; rfl)
      (headIsRestore_of_chained hch) hi)
  | pushScr hc =>
    rw [hc] at hch
    exact .inr (exact_neutral (v := v) (by rw [hc]; rfl) rfl rfl rfl rfl rfl (by rw [hc]; rfl)
      (headIsRestore_of_chained hch) hi)
  | enqAct hc =>
    rw [hc] at hch
    exact .inr (exact_neutral (v := v) (by rw [hc]; rfl) rfl rfl rfl rfl rfl (by rw [hc]; rfl)
      (headIsRestore_of_chained hch) hi)
  | replace hc _ =>
    rw [hc] at hch
    exact .inr (exact_neutral (v := v) (by rw [hc]; rfl) rfl rfl rfl rfl rfl (by rw [hc]; rfl)
      (headIsRestore_of_chained hch) hi)
  | apprun hc =>
    rename_i rest
    rw [hc] at hch
    right
    obtain ⟨h0, hA | hB' | hB⟩ := hi
    · refine ⟨rfl, .inl ⟨rfl, ?_⟩⟩
      have := hA.2
      rw [hc] at this
      exact this
    · rw [hc] at hB'; cases hB'.2.1
    · obtain ⟨_, _, _, h4, q, _, h6⟩ := hB
      have : rest = [] := by
        have := hch.1
        cases rest with
        | nil => rfl
        | cons x r => cases this
      subst this
      rw [hc] at h6
      have h7 : ([] : List Nat) = v.levels.reverse := (List.cons.inj h6).2
      exact absurd (List.reverse_eq_nil_iff.1 h7.symm) h4
  | restore hc hf =>
    right
    obtain ⟨h0, hA | hB' | hB⟩ := hi
    · refine ⟨hf, .inl ⟨rfl, ?_⟩⟩
      have := hA.2
      rw [hc] at this
      exact this
    · refine ⟨hf, .inl ⟨rfl, ?_⟩⟩
      have := hB'.2.2
      rw [hc] at this
      exact this
    · rw [hc] at hB; cases hB.2.1
  | «open» hc hf =>
    right
    have hrl : v.runLoop = true := by
      cases hr : v.runLoop with
      | true => rfl
      | false => rw [hr] at hev; cases hev
    obtain ⟨h0, hA | hB' | hB⟩ := hi
    · rename_i rest s
      refine ⟨h0, .inl ⟨hrl, ?_⟩⟩
      show markersA (.mainCheck v.nq :: rest) = (v.levels ++ [v.nq]).reverse
      rw [List.reverse_append]
      have := hA.2
      rw [hc] at this
      have this' : markersA rest = v.levels.reverse := this
      show v.nq :: markersA rest = _
      rw [this']; rfl
    · rw [hrl] at hB'; cases hB'.1
    · rw [hrl] at hB; cases hB.1
  | pop hc hq ha =>
    rename_i rest q a
    rw [hc] at hch
    right
    have hcp : closePending v.ev = false := by
      have : noDoubleClose (.closeLevel q :: v.ev) = true := hnd
      simp only [noDoubleClose, Bool.and_eq_true, Bool.not_eq_true'] at this
      exact this.1
    obtain ⟨h0, hA | hB' | hB⟩ := hi
    · obtain ⟨l', hl⟩ : ∃ l', v.levels = l' ++ [q] := by
        rcases List.eq_nil_or_concat v.levels with h | ⟨l', x, h⟩
        · rw [h] at hq; cases hq
        · rw [h] at hq; simp at hq; subst hq; exact ⟨l', by simpa using h⟩
      have hM := hA.2
      rw [hc] at hM
      refine ⟨h0, .inr (.inr ⟨rfl, headIsRestore_of_chained hch, rfl, ?_, q, rfl, ?_⟩)⟩
      · show v.levels.dropLast ≠ []
        intro h
        rw [h] at ha; cases ha
      · show markersA rest = q :: v.levels.dropLast.reverse
        rw [show markersA rest = v.levels.reverse from hM, hl]
        simp
    · rw [hc] at hB'; cases hB'.2.1
    · rw [hcp] at hB; cases hB.2.2.1
  | popExit hc _ _ =>
    left
    rw [hc] at hch
    exact unwind_exit_chained hch.2
  | pushModal hc =>
    exact .inr (exact_neutral (v := v) (by rw [hc]; rfl) rfl rfl rfl rfl rfl (by rw [hc]; rfl) rfl hi)
  | closeScreen hc _ =>
    exact .inr (exact_neutral (v := v) (by rw [hc]; rfl) rfl rfl rfl rfl rfl (by rw [hc]; rfl) rfl hi)
  | discard hc _ =>
    rw [hc] at hch
    right
    refine exact_neutral (v := v) ?_ rfl rfl rfl rfl rfl (by rw [hc]; rfl) ?_ hi
    · show markersA ((if _ then _ else _) ++ _) = _
      rw [hc]; split <;> rfl
    · show headIsRestore ((if _ then _ else _) ++ _) = false
      split
      · rfl
      · exact headIsRestore_of_chained hch
  | identSkip hc _ _ =>
    rw [hc] at hch
    right
    refine exact_neutral (v := v) ?_ rfl rfl rfl rfl rfl (by rw [hc]; rfl) ?_ hi
    · show markersA (List.dropWhile _ _) = _
      rw [identSkip_chained hch, hc]; rfl
    · show headIsRestore (List.dropWhile _ _) = false
      rw [identSkip_chained hch]
      exact headIsRestore_of_chained hch

theorem exact_init (init : List Act) (handlers : List (Cls × HRef × Option Nat)) (quitCb : Option Nat)
    (stdin : List Str) : ExactInv (initCfg init handlers quitCb stdin).sv := by
  right
  refine ⟨rfl, .inl ⟨rfl, ?_⟩⟩
  show markersA (init.map Instr.act ++ [.apprun]) = [0].reverse
  rw [markersA_init]; rfl

/-! ### history hypotheses through the shape view -/

theorem closePending_shapeTr (l : List Tr) : closePending (shapeTr l) = closePending l := by
  induction l with
  | nil => rfl
  | cons t l ih =>
    rw [shapeTr_cons]
    cases t <;> first | rfl | exact ih

theorem lastClosed_shapeTr (l : List Tr) : lastClosed (shapeTr l) = lastClosed l := by
  induction l with
  | nil => rfl
  | cons t l ih =>
    rw [shapeTr_cons]
    cases t <;> first | rfl | exact ih

theorem noDoubleClose_shapeTr (l : List Tr) : noDoubleClose (shapeTr l) = noDoubleClose l := by
  induction l with
  | nil => rfl
  | cons t l ih =>
    rw [shapeTr_cons]
    cases t <;> first | exact ih | skip
    simp only [Tr.shape, if_true, noDoubleClose, ih, closePending_shapeTr]

theorem exactEv_shape (t : Tr) (h : exactEv t = false) : t.shape = true := by
  cases t <;> first | rfl | (cases h; done)

theorem exactEv_all {l : List Tr} (h1 : l.all wfOpenEv = true) (h2 : Tr.forceQuit ∉ l) : l.all exactEv = true := by
  rw [List.all_eq_true] at h1 ⊢
  intro t ht
  have := h1 t ht
  cases t <;> first | rfl | skip
  case openLevel q b => cases b <;> first | rfl | (cases this; done)
  case forceQuit => exact absurd ht h2

theorem reach_exact {P : Prog} {c0 c : Cfg} (h0 : Started c0) (h : Reach P c0 c) (hw : WFOpen c) (hd : WFDrain c)
    (hf : NoForceQuit c) : ExactInv c.sv := by
  have hw' : c.sv.ev.all exactEv = true := by
    show (shapeTr c.tr).all exactEv = true
    rw [all_shapeTr _ exactEv_shape]; exact exactEv_all hw hf
  have hd' : noDoubleClose c.sv.ev = true := by
    show noDoubleClose (shapeTr c.tr) = true
    rw [noDoubleClose_shapeTr]; exact hd
  clear hw hd hf
  induction h with
  | init =>
    obtain ⟨init, handlers, quitCb, stdin, rfl⟩ := h0
    exact exact_init init handlers quitCb stdin
  | step hr hst ih =>
    obtain ⟨evs, h1, _, _⟩ := trans_sstep (.step hst)
    have hd'' := hd'
    rw [SStepE.ev_eq h1] at hw' hd''
    rw [List.all_append, Bool.and_eq_true] at hw'
    exact exact_step (reach_basic h0 hr) (ih hw'.2 (noDoubleClose_append hd'')) h1 hw'.1 hd'
  | deliver hr hdl ih =>
    obtain ⟨evs, h1, _, _⟩ := trans_sstep (P := P) (.deliver hdl)
    have hd'' := hd'
    rw [SStepE.ev_eq h1] at hw' hd''
    rw [List.all_append, Bool.and_eq_true] at hw'
    exact exact_step (reach_basic h0 hr) (ih hw'.2 (noDoubleClose_append hd'')) h1 hw'.1 hd'
  | halt hr hst ih =>
    obtain ⟨evs, h1, _, _⟩ := trans_sstep (.halt hst)
    have hd'' := hd'
    rw [SStepE.ev_eq h1] at hw' hd''
    rw [List.all_append, Bool.and_eq_true] at hw'
    exact exact_step (reach_basic h0 hr) (ih hw'.2 (noDoubleClose_append hd'')) h1 hw'.1 hd'

/-- the shape-view invariant is the specification-level `LevelsInv` -/
theorem levelsInv_of_exact {c : Cfg} (h : ExactInv c.sv) : LevelsInv c := by
  rcases h with h | ⟨h0, hA | hB' | hB⟩
  · exact .inl h
  · exact .inr ⟨h0, .inl hA⟩
  · exact .inr ⟨h0, .inr (.inl hB')⟩
  · obtain ⟨h1, h2, h3, h4, q, h5, h6⟩ := hB
    refine .inr ⟨h0, .inr (.inr ⟨h1, h2, ?_, h4, q, ?_, h6⟩)⟩
    · rw [← closePending_shapeTr]; exact h3
    · rw [← lastClosed_shapeTr]; exact h5

end Shape

end Simpleline
