/-
  Concrete programs for the kernel-checked counterexamples / non-vacuity examples of C03 (blocks,
  resumes) and of the `Shape_*` invariants.  All runs start with one signal `user 0` pending and the
  handlers `user i ↦ script i` registered; `run()` is allowed to start with no screen scheduled.
-/
import Simpleline.Lemmas.ShapeResume

namespace Simpleline

namespace ShapeEx

open Shape

def handlers5 : List (Cls × HRef × Option Nat) :=
  [(.user 0, .user 0, none), (.user 1, .user 1, none), (.user 2, .user 2, none), (.user 3, .user 3, none),
   (.user 4, .user 4, none)]

/-- `run()` with the signal `user 0` pending -/
def start : Cfg := initCfg [.enq (.user 0) 0 .none 0] handlers5 none []

theorem started : Started start := ⟨_, _, _, _, rfl⟩

/-- **K1** (call-time): handler 1, running in level 1, closes its loop and — before `_mainloop` regains
control — starts a new one -/
def scriptK1 : Nat → Nat → List Act
  | 0, 0 => [.newLoop (.user 1) 0 1]
  | 1, 0 => [.closeLoop, .newLoop (.user 2) 0 2]
  | _, _ => []

def progK1 : Prog := { cc := asciiClass, handlerScript := scriptK1, runEmpty := true }

/-- a well-formed session: loop 1 opens loop 2; loop 2's handler closes it; back in loop 1 its handler
closes loop 1 -/
def scriptOK : Nat → Nat → List Act
  | 0, 0 => [.newLoop (.user 1) 0 1]
  | 1, 0 => [.newLoop (.user 2) 0 2, .closeLoop]
  | 2, 0 => [.closeLoop]
  | _, _ => []

def progOK : Prog := { cc := asciiClass, handlerScript := scriptOK, runEmpty := true }

/-- **K1** (pop-time): three nested loops; the handler in loop 3 enqueues `user 4` and calls
`close_loop`, whose drain dispatches `user 4`, whose handler calls `close_loop` itself -/
def scriptDrain : Nat → Nat → List Act
  | 0, 0 => [.newLoop (.user 1) 0 1]
  | 1, 0 => [.newLoop (.user 2) 0 2]
  | 2, 0 => [.newLoop (.user 3) 0 3]
  | 3, 0 => [.enq (.user 4) 0 .none 4, .closeLoop]
  | 4, 0 => [.closeLoop]
  | _, _ => []

def progDrain : Prog := { cc := asciiClass, handlerScript := scriptDrain, runEmpty := true }

/-- in `progK1`, transition 23 lets activation 2 return while level 2 is open -/
theorem k1_check :
    testTrans progK1 23 start (fun c c' => decide (Tr.loopReturn 2 ∈ newTr c c') && decide (2 ∈ c.L.levels)) = true := by
  decide +kernel

/-- in `progDrain`, `execute_new_loop` for level 3 is step 25 (levels `[0,1,2]`), its activation returns
in transition 54 with levels `[0,1]`, in a history that satisfies `WFClose` and has no force-quit (but
not `WFDrain`) -/
theorem drain_check :
    testCall progDrain 25 28 start (fun c _ c2 c3 =>
      decide (Tr.loopReturn c.L.queues.length ∈ newTr c2 c3) && decide (c.L.forceQuit = false) &&
      decide (WFClose c3) && decide (NoForceQuit c3) && !decide (WFDrain c3) &&
      decide (c.L.levels = [0, 1, 2]) && decide (c3.L.levels = [0, 1])) = true := by
  decide +kernel

/-- in `progOK`, `execute_new_loop` for level 2 is step 17, its activation returns in transition 33,
and the history is well-formed -/
theorem ok_check :
    testCall progOK 17 15 start (fun c _ c2 c3 =>
      decide (Tr.loopReturn c.L.queues.length ∈ newTr c2 c3) && decide (c.L.forceQuit = false) &&
      decide (WFClose c3) && decide (WFDrain c3) && decide (NoForceQuit c3) &&
      decide (c.L.levels = [0, 1])) = true := by
  decide +kernel

/-- in `progOK` a close is pending after step 28 (level 2 popped, activation 2 not yet returned):
the third case of `LevelsInv`, with markers `[2, 1, 0]` and levels `[0, 1]` -/
theorem ok_pending_check :
    testAt progOK 28 start (fun c =>
      decide (WFClose c) && decide (WFDrain c) && decide (NoForceQuit c) && !c.L.runLoop &&
      decide (markersA c.code = [2, 1, 0]) && decide (c.L.levels = [0, 1]) && closePending c.tr &&
      decide (lastClosed c.tr = some 2)) = true := by
  decide +kernel

/-- in `progDrain`, after transition 54 (activation 3 has just left its loop): activations `[2, 1, 0]`
but levels `[0, 1]`, in a history satisfying `WFClose` without force-quit -/
theorem drain_state_check :
    testAt progDrain 55 start (fun c =>
      decide (WFClose c) && decide (NoForceQuit c) && !decide (c.Over) && headIsRestore c.code &&
      decide (markersA c.code = [2, 1, 0]) && decide (c.L.levels = [0, 1])) = true := by
  decide +kernel

end ShapeEx

open Shape in
/-- `WFDrain` is needed for `Shape_levelsInv` (finding K1, pop-time): a reachable configuration with
well-formed call-time flags and no force-quit in which the correspondence fails. -/
theorem Shape_levelsInv_needs_WFDrain :
    ∃ (P : Prog) (c0 c : Cfg), Started c0 ∧ Reach P c0 c ∧ WFClose c ∧ NoForceQuit c ∧ ¬ LevelsInv c := by
  obtain ⟨c, _, hr, hf⟩ := testAt_spec ShapeEx.drain_state_check
  simp only [Bool.and_eq_true, decide_eq_true_eq, Bool.not_eq_true', decide_eq_false_iff_not] at hf
  obtain ⟨⟨⟨⟨⟨h1, h2⟩, h3⟩, h4⟩, h5⟩, h6⟩ := hf
  refine ⟨_, _, c, ShapeEx.started, hr, h1, h2, ?_⟩
  rintro (ho | ⟨_, hA | hB' | hB⟩)
  · exact h3 ho
  · rw [h5, h6] at hA; exact absurd hA.2 (by decide)
  · rw [h5, h6] at hB'; exact absurd hB'.2.2 (by decide)
  · rw [h4] at hB; cases hB.2.1

open Shape in
/-- Non-vacuity of `Shape_levelsInv`: a reachable configuration satisfying its hypotheses in the
"close pending" state (activations `[2, 1, 0]`, levels `[0, 1]`, level 2 closed last). -/
example :
    ∃ (P : Prog) (c0 c : Cfg), Started c0 ∧ Reach P c0 c ∧ WFClose c ∧ WFDrain c ∧ NoForceQuit c ∧
      c.L.runLoop = false ∧ markersA c.code = 2 :: c.L.levels.reverse ∧ lastClosed c.tr = some 2 := by
  obtain ⟨c, _, hr, hf⟩ := testAt_spec ShapeEx.ok_pending_check
  simp only [Bool.and_eq_true, decide_eq_true_eq, Bool.not_eq_true'] at hf
  obtain ⟨⟨⟨⟨⟨⟨⟨h1, h2⟩, h3⟩, h4⟩, h5⟩, h6⟩, _⟩, h8⟩ := hf
  exact ⟨_, _, c, ShapeEx.started, hr, h1, h2, h3, h4, by rw [h5, h6]; rfl, h8⟩

end Simpleline
