/-
  Concrete screen-level programs for the kernel-checked examples / counterexamples of C05.
  Three screens that need no input; screen 0 is scheduled before `run()`; its first `show()` pushes
  screen 1 as a modal screen.
-/
import Simpleline.Lemmas.ShapeIntact
import Simpleline.Lemmas.ShapeExamples

namespace Simpleline

namespace ShapeEx

open Shape

def screens3 : List ScreenSpec := [{ inputRequired := false }, { inputRequired := false }, { inputRequired := false }]

/-- `App.run()` with screen 0 scheduled -/
def startS : Cfg := initCfg [.schedule 0 none] [] none []

/-- the same with an application handler for `ExceptionSignal` registered (so that the application
survives an exception) -/
def startSX : Cfg := initCfg [.schedule 0 none] [(.exception, .exc, none)] none []

theorem startedS : Started startS := ⟨_, _, _, _, rfl⟩
theorem startedSX : Started startSX := ⟨_, _, _, _, rfl⟩

theorem initS : InitScreenOnly startS := by
  intro a ha
  have : Instr.act a ∈ [Instr.act (.schedule 0 none), Instr.apprun] := ha
  simp at this; subst this; rfl

theorem initSX : InitScreenOnly startSX := by
  intro a ha
  have : Instr.act a ∈ [Instr.act (.schedule 0 none), Instr.apprun] := ha
  simp at this; subst this; rfl

/-- a well-behaved modal dialog: screen 1 closes itself from its first `show()` -/
def scriptModal : Nat → Cb → Nat → ScriptEnt
  | 0, .show, 0 => { acts := [.pushModal 1 none] }
  | 1, .show, 0 => { acts := [.closeDirect] }
  | _, _, _ => {}

def progModal : Prog := { cc := asciiClass, screens := screens3, screenScript := scriptModal }

/-- **K2**: the modal screen asks for a redraw and then closes itself: the render signal is pending in
the modal level when `close_loop` is called -/
def scriptK2 : Nat → Cb → Nat → ScriptEnt
  | 0, .show, 0 => { acts := [.pushModal 1 none] }
  | 1, .show, 0 => { acts := [.schedRedraw, .closeDirect] }
  | _, _, _ => {}

def progK2 : Prog := { cc := asciiClass, screens := screens3, screenScript := scriptK2 }

/-- **K3**: the modal screen 1 asks to be closed (its own `CloseScreenSignal`) and for a redraw;
`close_screen` pops it and calls its `closed()`, which raises an ordinary exception: the rest of
`close_screen` — `close_loop` — is skipped.  (The other variant of K3 — a `CloseScreenSignal` of *another*
screen dispatched while the modal screen is on top — is gone since `close_screen` checks `closed_from`
before it pops: `C04_refused_close_keeps_stack`.) -/
def scriptK3 : Nat → Cb → Nat → ScriptEnt
  | 0, .show, 0 => { acts := [.pushModal 1 none] }
  | 1, .show, 0 => { acts := [.closeSig 1, .schedRedraw] }
  | 1, .closed, 0 => { acts := [.raiseErr] }
  | _, _, _ => {}

def progK3 : Prog := { cc := asciiClass, screens := screens3, screenScript := scriptK3 }

/-- the former K3 witness: while the modal screen 1 is on top, a `CloseScreenSignal` of another screen
(2) is dispatched (and a redraw requested).  `close_screen` used to pop screen 1 and *then* raise
`RenderUnexpectedError`; it now refuses the request with screen 1 still on the stack -/
def scriptRefused : Nat → Cb → Nat → ScriptEnt
  | 0, .show, 0 => { acts := [.pushModal 1 none] }
  | 1, .show, 0 => { acts := [.closeSig 2, .schedRedraw] }
  | _, _, _ => {}

def progRefused : Prog := { cc := asciiClass, screens := screens3, screenScript := scriptRefused }

theorem screenOnly_of (f : Nat → Cb → Nat → ScriptEnt) (hf : ∀ scr cb n, ∀ a ∈ (f scr cb n).acts, a.screenLevel = true) :
    ScreenOnly { cc := asciiClass, screens := screens3, screenScript := f } :=
  ⟨(by intro hid n a ha; cases ha), hf⟩

theorem progModal_screenOnly : ScreenOnly progModal := by
  apply screenOnly_of
  intro scr cb n a ha
  unfold scriptModal at ha
  split at ha <;> simp at ha <;> subst ha <;> rfl

theorem progK2_screenOnly : ScreenOnly progK2 := by
  apply screenOnly_of
  intro scr cb n a ha
  unfold scriptK2 at ha
  split at ha <;> simp at ha
  · subst ha; rfl
  · rcases ha with rfl | rfl <;> rfl

theorem progK3_screenOnly : ScreenOnly progK3 := by
  apply screenOnly_of
  intro scr cb n a ha
  unfold scriptK3 at ha
  split at ha <;> simp at ha
  · subst ha; rfl
  · rcases ha with rfl | rfl <;> rfl
  · subst ha; rfl

theorem progRefused_screenOnly : ScreenOnly progRefused := by
  apply screenOnly_of
  intro scr cb n a ha
  unfold scriptRefused at ha
  split at ha <;> simp at ha
  · subst ha; rfl
  · rcases ha with rfl | rfl <;> rfl

theorem progRefused_closedSilent : ClosedSilent progRefused := by
  intro scr n
  show (scriptRefused scr .closed n).acts = []
  unfold scriptRefused; split <;> first | rfl | (rename_i h; cases h)

theorem progModal_closedSilent : ClosedSilent progModal := by
  intro scr n
  show (scriptModal scr .closed n).acts = []
  unfold scriptModal; split <;> first | rfl | (rename_i h; cases h)

theorem progK2_closedSilent : ClosedSilent progK2 := by
  intro scr n
  show (scriptK2 scr .closed n).acts = []
  unfold scriptK2; split <;> first | rfl | (rename_i h; cases h)

/-- the `closed()` callbacks of `progK3` call no library API: the only thing one of them does is raise -/
theorem progK3_closedNoApi : ClosedNoApi progK3 := by
  intro scr n a ha
  have ha' : a ∈ (scriptK3 scr .closed n).acts := ha
  unfold scriptK3 at ha'
  split at ha' <;> simp at ha'
  all_goals first | exact ha' | (rename_i h; cases h)

def entry0 : Entry := { eid := 0, screen := 0, args := none, modal := false }
def entry1 : Entry := { eid := 1, screen := 1, args := none, modal := true }

/-- in `progModal`, transition 36 draws the modal screen inside its nested loop (two levels, one modal
entry, history well-formed and quiet) -/
theorem modal_show_check :
    testTrans progModal 36 startS (fun c c' =>
      decide (Tr.show entry1 ∈ newTr c c') && decide (NoErr c) && decide (WFQuietDrain c) && decide (WFClose c) &&
      decide (c.L.levels.length = 2) && decide (c.A.stack = [entry0, entry1])) = true := by
  decide +kernel

/-- in `progModal`, transition 57 is the return of `push_screen_modal` -/
theorem modal_end_check :
    testTrans progModal 57 startS (fun c c' =>
      decide (Tr.modalEnd entry1 ∈ newTr c c') && decide (WFClose c) && decide (NoForceQuit c)) = true := by
  decide +kernel

/-- in `progK2`, transition 55 draws the parent (entry 0) while the modal level is still open: one level
too many for the stack; everything but the quiet hypotheses holds -/
theorem k2_check :
    testTrans progK2 55 startS (fun c c' =>
      decide (Tr.show entry0 ∈ newTr c c') && decide (NoErr c) && decide (WFClose c) && decide (WFDrain c) &&
      !decide (WFQuiet c) && !decide (WFQuietDrain c) &&
      decide (c.A.stack = [entry0]) && decide (c.L.levels.length = 2)) = true := by
  decide +kernel

/-- in `progK3`, transition 73 draws the parent while the modal level is still open, after the exception
raised by the modal screen's `closed()`; nothing is pending, the history is quiet and well-formed but not
exception-free -/
theorem k3_check :
    testTrans progK3 73 startSX (fun c c' =>
      decide (Tr.show entry0 ∈ newTr c c') && !decide (NoErr c) && decide (WFClose c) && decide (WFDrain c) &&
      decide (WFQuiet c) && decide (WFQuietDrain c) &&
      decide (c.A.stack = [entry0]) && decide (c.L.levels.length = 2) &&
      decide (pendOpens c.code = 0) && decide (pendCloses c.code = 0) && !decide c.Over &&
      !c.L.forceQuit) = true := by
  decide +kernel

/-- in `progRefused`, transition 71 draws the modal screen again, inside its nested loop, after the
refused close request (`RenderUnexpectedError`, handled by the application): the history is not
exception-free, and the modal structure is intact -/
theorem refused_check :
    testTrans progRefused 71 startSX (fun c c' =>
      decide (Tr.show entry1 ∈ newTr c c') && !decide (NoErr c) && decide (WFQuietDrain c) && decide (WFClose c) &&
      decide (c.L.levels.length = 2) && decide (c.A.stack = [entry0, entry1])) = true := by
  decide +kernel

/-! ### the reader-thread race: quiet at call time, not at drain time -/

def screensRace : List ScreenSpec := [{ inputRequired := false }, { inputRequired := true }, { inputRequired := false }]

/-- the modal screen 1 asks for input (a reader thread is started) and is closed by its own
`CloseScreenSignal` before the user has typed anything; its `input()` answers `REDRAW` -/
def scriptRace : Nat → Cb → Nat → ScriptEnt
  | 0, .show, 0 => { acts := [.pushModal 1 none] }
  | 1, .show, 0 => { acts := [.closeSig 1] }
  | 1, .input, 0 => { ret := .state "REDRAW" }
  | _, _, _ => {}

def progRace : Prog := { cc := asciiClass, screens := screensRace, screenScript := scriptRace }

/-- the user will type `x` -/
def startRace : Cfg := initCfg [.schedule 0 none] [] none [['x']]

theorem startedRace : Started startRace := ⟨_, _, _, _, rfl⟩

theorem initRace : InitScreenOnly startRace := by
  intro a ha
  have : Instr.act a ∈ [Instr.act (.schedule 0 none), Instr.apprun] := ha
  simp at this; subst this; rfl

theorem progRace_screenOnly : ScreenOnly progRace := by
  refine ⟨(by intro hid n a ha; cases ha), ?_⟩
  intro scr cb n a ha
  have ha' : a ∈ (scriptRace scr cb n).acts := ha
  unfold scriptRace at ha'
  split at ha' <;> simp at ha' <;> subst ha' <;> rfl

theorem progRace_closedSilent : ClosedSilent progRace := by
  intro scr n
  show (scriptRace scr .closed n).acts = []
  unfold scriptRace; split <;> first | rfl | (rename_i h; cases h)

/-- after step 60 `close_loop` has been called with an empty queue (`.closeReq true 0`) and its drain is
about to start; the typed line is delivered at that moment; 30 steps later the parent is drawn inside
the modal level -/
theorem race_check :
    testDeliver progRace 60 30 startRace (fun c c' =>
      decide (Tr.show entry0 ∈ newTr c c') && decide (NoErr c) && decide (WFQuiet c) && decide (WFClose c) &&
      decide (WFDrain c) && !decide (WFQuietDrain c) && decide (c.L.levels.length = 2) &&
      decide (c.A.stack = [entry0])) = true := by
  decide +kernel

/-! ### intact -/

/-- the modal screen calls `close_screen()` twice: it closes itself and then its parent -/
def scriptTwice : Nat → Cb → Nat → ScriptEnt
  | 0, .show, 0 => { acts := [.pushModal 1 none] }
  | 1, .show, 0 => { acts := [.closeDirect, .closeDirect] }
  | _, _, _ => {}

def progTwice : Prog := { cc := asciiClass, screens := screens3, screenScript := scriptTwice }

/-- screens 0 and 2 scheduled (2 beneath 0) -/
def startTwice : Cfg := initCfg [.schedule 0 none, .schedule 2 none] [] none []

theorem startedTwice : Started startTwice := ⟨_, _, _, _, rfl⟩

theorem initTwice : InitScreenOnly startTwice := by
  intro a ha
  have : Instr.act a ∈ [Instr.act (.schedule 0 none), Instr.act (.schedule 2 none), Instr.apprun] := ha
  simp at this
  rcases this with rfl | rfl <;> rfl

theorem progTwice_screenOnly : ScreenOnly progTwice := by
  apply screenOnly_of
  intro scr cb n a ha
  unfold scriptTwice at ha
  split at ha <;> simp at ha
  · subst ha; rfl
  · rcases ha with rfl | rfl <;> rfl

theorem progTwice_closedSilent : ClosedSilent progTwice := by
  intro scr n
  show (scriptTwice scr .closed n).acts = []
  unfold scriptTwice; split <;> first | rfl | (rename_i h; cases h)

/-- in `progModal` the modal push is step 20 and its loop's activation returns in transition 55; all
hypotheses of the intact clause hold, the stack is the same as before the push -/
theorem modal_intact_check :
    testModal progModal 20 33 startS (fun c c1 c2 c3 =>
      decide (Tr.loopReturn c.L.queues.length ∈ newTr c2 c3) && decide (NoErr c3) && decide (WFQuietDrain c3) &&
      decide (WFClose c3) && decide (WFDrain c3) && decide (NoForceQuit c3) &&
      decide (NoStackOpAfterClose c.L.queues.length (newTr c1 c2)) && decide (c2.A.stack = c.A.stack) &&
      decide (c.A.stack = [entry0])) = true := by
  decide +kernel

/-- in `progTwice` the modal push is step 21 and its loop's activation returns in transition 62; the
second `close_screen()` pops the parent after the modal level was popped: at the return only one of the
two entries that were beneath the modal entry is left -/
theorem twice_check :
    testModal progTwice 21 39 startTwice (fun c c1 c2 c3 =>
      decide (Tr.loopReturn c.L.queues.length ∈ newTr c2 c3) && decide (NoErr c3) && decide (WFQuietDrain c3) &&
      decide (WFClose c3) && decide (WFDrain c3) && decide (NoForceQuit c3) &&
      !decide (NoStackOpAfterClose c.L.queues.length (newTr c1 c2)) && decide (c.A.stack.length = 2) &&
      decide (c2.A.stack.length = 1)) = true := by
  decide +kernel

end ShapeEx

end Simpleline
