/-
  Exceptions and the bracket structure: in `Chained` code
  * an ordinary exception raised by a body instruction unwinds body instructions only (plus the
    `catchHandler` that catches it): never a `mainCheck`/`loopCheck`/`catchExit`;
  * `ExitMainLoop` leaves at most the quit callback.
-/
import Simpleline.Lemmas.ShapeChain

namespace Simpleline

namespace Shape

theorem nonLC_allows {h b : Instr} (hh : h.isLC = false) (ha : h.fclass.allows b = true) :
    b.isLC = false ∨ b = .catchHandler ∨ b = .apprun := by
  cases hf : h.fclass <;> rw [hf] at ha
  case body | bodyM | caa | endpi | cps =>
    cases b <;> first | (left; rfl) | (right; left; rfl) | (right; right; rfl) | (cases ha; done)
  all_goals
    cases h <;> first | (cases hh; done) | (cases hf; done)

theorem unwindTo_err_skip {b : Instr} (l : List Instr) (hb : b.catchesErr = false) :
    unwindTo .err (b :: l) = unwindTo .err l := by
  cases b <;> first | rfl | (cases hb; done)

theorem unwindTo_exit_skip {b : Instr} (l : List Instr) (hb : b ≠ .catchExit) :
    unwindTo .exit (b :: l) = unwindTo .exit l := by
  cases b <;> first | rfl | exact absurd rfl hb

theorem unwindTo_sysexit (l : List Instr) : unwindTo .sysexit l = none := by
  induction l with
  | nil => rfl
  | cons a l ih => unfold unwindTo; exact ih

/-- what an ordinary exception unwinds, when raised by a body instruction `h` standing in front of `rest` -/
theorem unwind_err_chained {h : Instr} {rest : List Instr} (hc : Chained (h :: rest)) (hh : h.isLC = false) :
    match unwindTo .err rest with
    | some post => ∃ pre, rest = pre ++ post ∧ ∀ i ∈ pre, i.isLC = false ∨ i = .catchHandler
    | none => ∀ i ∈ rest, i.isLC = false ∨ i = .apprun := by
  induction rest generalizing h with
  | nil => intro i hi; cases hi
  | cons b rest ih =>
    have hadj : h.fclass.allows b = true := hc.1
    rcases nonLC_allows hh hadj with hb | rfl | rfl
    · by_cases hcatch : b.catchesErr = true
      · cases b <;> first | (cases hcatch; done) | (cases hb; done) | skip
        case catchPS => exact ⟨[.catchPS], rfl, by simp [Instr.isLC]⟩
        case catchDraw => exact ⟨[.catchDraw], rfl, by simp [Instr.isLC]⟩
        case catchPI scr =>
          show ∃ pre, _ = pre ++ (rest.dropWhile _).drop 1 ∧ _
          have hc2 := hc.2
          cases rest with
          | nil => exact ⟨[.catchPI scr], rfl, by simp [Instr.isLC]⟩
          | cons x rest =>
            have hx : FClass.caa.allows x = true := hc2.1
            cases x <;> first | (cases hx; done) | skip
            rename_i scr'
            have hc3 := hc2.2
            cases rest with
            | nil => exact ⟨[.catchPI scr, .countAndAct scr'], rfl, by simp [Instr.isLC]⟩
            | cons y rest =>
              have hy : FClass.endpi.allows y = true := hc3.1
              cases y <;> first | (cases hy; done) | skip
              exact ⟨[.catchPI scr, .countAndAct scr', .endPI], rfl, by simp [Instr.isLC]⟩
      · have hcatch' : b.catchesErr = false := by simpa using hcatch
        rw [unwindTo_err_skip _ hcatch']
        have := ih hc.2 hb
        split at this
        · rename_i post hpost
          obtain ⟨pre, h1, h2⟩ := this
          refine ⟨b :: pre, by rw [h1]; rfl, ?_⟩
          intro i hi
          rcases List.mem_cons.1 hi with rfl | hi
          · exact .inl hb
          · exact h2 i hi
        · rename_i hnone
          intro i hi
          rcases List.mem_cons.1 hi with rfl | hi
          · exact .inl hb
          · exact this i hi
    · exact ⟨[.catchHandler], rfl, by simp⟩
    · have : rest = [] := by
        have := hc.2.1
        cases rest with
        | nil => rfl
        | cons x r => cases this
      subst this
      show ∀ i ∈ [Instr.apprun], _
      simp

theorem unwindTo_exit_some {l post : List Instr} (h : unwindTo .exit l = some post) :
    ∃ pre, l = pre ++ .catchExit :: post := by
  induction l with
  | nil => cases h
  | cons a l ih =>
    by_cases ha : a = .catchExit
    · subst ha
      have : post = l := by
        have : unwindTo .exit (.catchExit :: l) = some l := rfl
        rw [this] at h; cases h; rfl
      subst this
      exact ⟨[], rfl⟩
    · rw [unwindTo_exit_skip _ ha] at h
      obtain ⟨pre, rfl⟩ := ih h
      exact ⟨a :: pre, rfl⟩

/-- after `ExitMainLoop` at most the quit callback is left -/
theorem unwind_exit_chained {l : List Instr} (hc : Chained l) : overCode ((unwindTo .exit l).getD []) = true := by
  cases h : unwindTo .exit l with
  | none => rfl
  | some post =>
    obtain ⟨pre, rfl⟩ := unwindTo_exit_some h
    have h1 : Chained (.catchExit :: post) := hc.of_append
    cases post with
    | nil => rfl
    | cons x post =>
      have hx : FClass.quit.allows x = true := h1.1
      cases x <;> first | (cases hx; done) | skip
      have h2 : followsC FClass.none post := h1.2.1
      cases post with
      | nil => rfl
      | cons y post => cases h2

/-- `identCheck` is directly followed by its `catchPS`: the "screen changed" exit skips nothing -/
theorem identSkip_chained {top : Entry} {rest : List Instr} (hc : Chained (.identCheck top :: rest)) :
    rest.dropWhile notCatchPS = rest := by
  have h : followsC FClass.cps rest := hc.1
  cases rest with
  | nil => rfl
  | cons x rest =>
    have hx : FClass.cps.allows x = true := h
    cases x <;> first | (cases hx; done) | rfl

theorem canRaise_err_nonLC {h : Instr} (hr : h.canRaise .err = true) : h.isLC = false := by
  cases h <;> first | rfl | (cases hr; done)

theorem canRaise_nonLC {h : Instr} {k : Kind} (hr : h.canRaise k = true) : h.isLC = false := by
  cases h <;> first | rfl | (cases k <;> cases hr; done)

end Shape

end Simpleline
