/-
  Stack discipline: the code behind a `mainCheck q` marker (the continuation of the caller of
  `execute_new_loop`) is untouched until the marker itself exits, `ExitMainLoop` is raised, or the
  process is killed.
-/
import Simpleline.Lemmas.ShapeExact

namespace Simpleline

/-- the frame of activation `q` with continuation `K` is on the call stack, or activation `q` is gone for good -/
def FrameInv (q : Nat) (K : List Instr) (v : SV) : Prop :=
  (∃ X, v.code = X ++ .mainCheck q :: K) ∨ q ∉ markersA v.code

namespace Shape

theorem split_of_no_mainCheck {q : Nat} {K : List Instr} :
    ∀ {pre X post : List Instr}, X ++ .mainCheck q :: K = pre ++ post →
      (∀ i ∈ pre, i.isLC = false ∨ i = .catchHandler) → ∃ X', post = X' ++ .mainCheck q :: K := by
  intro pre
  induction pre with
  | nil => intro X post h _; exact ⟨X, h.symm⟩
  | cons a pre ih =>
    intro X post h hp
    cases X with
    | nil =>
      simp only [List.nil_append, List.cons_append, List.cons.injEq] at h
      have := hp a (by simp)
      rw [← h.1] at this
      rcases this with h1 | h1 <;> cases h1
    | cons x X =>
      simp only [List.cons_append, List.cons.injEq] at h
      exact ih h.2 fun i hi => hp i (by simp [hi])

theorem markersA_over {l : List Instr} (h : overCode l = true) : markersA l = [] := by
  rcases overCode_cases h with rfl | rfl <;> rfl

theorem mem_markersA_append_mainCheck (X : List Instr) (q : Nat) (K : List Instr) :
    q ∈ markersA (X ++ .mainCheck q :: K) := by
  rw [markersA_append]
  exact List.mem_append_right _ (List.mem_cons_self ..)

/-- one transition and the frame of activation `q` -/
theorem frame_step {P : Prog} {v v' : SV} {evs : List Tr} {q : Nat} {K : List Instr} (hch : Chained v.code)
    (hX : ∃ X, v.code = X ++ .mainCheck q :: K) (hs : SStepE P v evs v') :
    (∃ X, v'.code = X ++ .mainCheck q :: K) ∨
    (overCode v'.code = true ∧ (Tr.exit ∈ evs ∨ Tr.kill ∈ evs)) ∨
    (evs = [.loopReturn q] ∧ v.code = .mainCheck q :: K ∧ v'.code = .restoreRun :: K ∧ v.runLoop = false) := by
  obtain ⟨X, hX⟩ := hX
  -- a step that replaces the head by a batch keeps the frame, unless the head is the marker itself
  have keep : ∀ {h : Instr} {rest : List Instr} (B : List Instr), v.code = h :: rest → (∀ q', h ≠ .mainCheck q') →
      ∃ X', B ++ rest = X' ++ .mainCheck q :: K := by
    intro h rest B hc hne
    rw [hc] at hX
    cases X with
    | nil =>
      simp only [List.nil_append, List.cons.injEq] at hX
      exact absurd hX.1 (hne q)
    | cons x X =>
      simp only [List.cons_append, List.cons.injEq] at hX
      exact ⟨B ++ X, by rw [hX.2, List.append_assoc]⟩
  cases hs with
  | stutter => exact .inl ⟨X, hX⟩
  | batch hc hb =>
    rename_i h rest B
    by_cases hm : ∃ q', h = .mainCheck q'
    · obtain ⟨q', rfl⟩ := hm
      rw [hc] at hX
      cases X with
      | nil =>
        simp only [List.nil_append, List.cons.injEq, Instr.mainCheck.injEq] at hX
        obtain ⟨rfl, rfl⟩ := hX
        cases hb with
        | passive hp => cases hp
        | mainLoop _ _ => exact .inl ⟨[.loopCheck], rfl⟩
        | mainExit _ hr => exact .inr (.inr ⟨rfl, hc, rfl, hr⟩)
      | cons x X =>
        simp only [List.cons_append, List.cons.injEq] at hX
        exact .inl ⟨B ++ X, by show B ++ rest = _; rw [hX.2, List.append_assoc]⟩
    · exact .inl (keep B hc fun q' hq' => hm ⟨q', hq'⟩)
  | halt hc hh =>
    rename_i h rest
    exact .inl (keep [] hc (by intro q' hq'; subst hq'; cases hh))
  | raise hc hr =>
    rename_i h rest k
    rcases raise_cases hch hc hr with ho | ⟨rfl, hn, pre, post, h1, h2, h3⟩
    · cases k with
      | exit => exact .inr (.inl ⟨ho, .inl (by simp [exitEv])⟩)
      | sysexit => rw [canRaise_sysexit] at hr; cases hr
      | err =>
        -- uncaught ordinary exception: impossible below a marker
        exfalso
        have hn := canRaise_nonLC hr
        rw [hc] at hch
        have := unwind_err_chained hch hn
        obtain ⟨X', hX'⟩ := keep [] hc (by intro q' hq'; subst hq'; cases hn)
        simp only [List.nil_append] at hX'
        split at this
        · rename_i post hpost
          have : overCode ((unwindTo .err rest).getD []) = true := ho
          rw [hpost] at this
          obtain ⟨pre, h1, h2⟩ := ‹∃ pre, rest = pre ++ post ∧ _›
          obtain ⟨X'', hX''⟩ := split_of_no_mainCheck (hX'.symm.trans h1) h2
          rw [hX''] at this
          have this' : overCode (X'' ++ Instr.mainCheck q :: K) = true := this
          have hm := mem_markersA_append_mainCheck X'' q K
          rw [markersA_over this'] at hm; cases hm
        · have h1 := this (.mainCheck q) (by rw [hX']; simp)
          rcases h1 with h1 | h1 <;> cases h1
    · obtain ⟨X', hX'⟩ := keep [] hc (by intro q' hq'; subst hq'; cases hn)
      simp only [List.nil_append] at hX'
      obtain ⟨X'', hX''⟩ := split_of_no_mainCheck (hX'.symm.trans h1) h3
      exact .inl ⟨X'', by rw [h2, hX'']⟩
  | kill _ => exact .inr (.inl ⟨rfl, .inr (by simp)⟩)
  | forceQuit hc => exact .inl (keep [] hc (by intro q' hq'; cases hq'))
  | schedule hc => exact .inl (keep [] hc (by intro q' hq'; cases hq'))
  | enqAct hc => exact .inl (keep [] hc (by intro q' hq'; cases hq'))
  | pushScr hc => exact .inl (keep [] hc (by intro q' hq'; cases hq'))
  | replace hc _ => exact .inl (keep [] hc (by intro q' hq'; cases hq'))
  | apprun hc => exact .inl (keep _ hc (by intro q' hq'; cases hq'))
  | restore hc _ => exact .inl (keep [] hc (by intro q' hq'; cases hq'))
  | «open» hc _ => exact .inl (keep [_] hc (by intro q' hq'; cases hq'))
  | pop hc _ _ => exact .inl (keep [] hc (by intro q' hq'; cases hq'))
  | popExit hc _ _ =>
    rw [hc] at hch
    exact .inr (.inl ⟨unwind_exit_chained hch.2, .inl (by simp)⟩)
  | pushModal hc => exact .inl (keep [_, _] hc (by intro q' hq'; cases hq'))
  | closeScreen hc _ => exact .inl (keep [_, _] hc (by intro q' hq'; cases hq'))
  | discard hc _ => exact .inl (keep _ hc (by intro q' hq'; cases hq'))
  | identSkip hc _ _ =>
    rw [hc] at hch
    show (∃ X, List.dropWhile _ _ = _) ∨ _
    rw [identSkip_chained hch]
    exact .inl (keep [] hc (by intro q' hq'; cases hq'))

theorem nq_mono {P : Prog} {v v' : SV} {evs : List Tr} (hs : SStepE P v evs v') : v.nq ≤ v'.nq := by
  rcases sstepE_markers_sub hs with ⟨_, h⟩ | ⟨_, h⟩ <;> omega

/-- once activation `q` is gone it never comes back (new levels get new numbers) -/
theorem frame_gone_step {P : Prog} {v v' : SV} {evs : List Tr} {q : Nat} (hq : q < v.nq)
    (hq' : q ∉ markersA v.code) (hs : SStepE P v evs v') : q ∉ markersA v'.code := by
  rcases sstepE_markers_sub hs with ⟨h, _⟩ | ⟨h, _⟩
  · exact fun hm => hq' (h.subset hm)
  · rw [h]
    intro hm
    rcases List.mem_cons.1 hm with h1 | h1
    · omega
    · exact hq' h1

theorem frameInv_step {P : Prog} {v v' : SV} {evs : List Tr} {q : Nat} {K : List Instr} (hb : Basic v)
    (hq : q < v.nq) (hi : FrameInv q K v) (hs : SStepE P v evs v') : FrameInv q K v' := by
  rcases hi with hX | hq'
  · rcases frame_step hb.chained hX hs with h | ⟨h, _⟩ | ⟨_, h1, h2, _⟩
    · exact .inl h
    · right; rw [markersA_over h]; simp
    · right
      have := hb.msorted
      rw [h1] at this
      rw [h2]
      intro hmem
      have := (List.pairwise_cons.1 this).1 q hmem
      omega
  · right
    rcases sstepE_markers_sub hs with ⟨h, _⟩ | ⟨h, _⟩
    · exact fun hm => hq' (h.subset hm)
    · rw [h]
      intro hm
      rcases List.mem_cons.1 hm with h1 | h1
      · omega
      · exact hq' h1

end Shape

end Simpleline
