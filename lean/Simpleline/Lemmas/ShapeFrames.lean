/-
  The frames of `push_screen_modal` calls: `modalRet e` (the statement after `execute_new_loop` in
  `push_screen_modal`) stands directly behind the marker of the level that call opened, and is reached
  only through that marker's exit.
-/
import Simpleline.Lemmas.ShapeModal

namespace Simpleline

/-- the modal / level events of a trace -/
def modalTr (l : List Tr) : List Tr := l.filter Tr.isModalEv

/-- `OpenedFor` on the shape view -/
def OpenedForV (q : Nat) (e : Entry) (ev : List Tr) : Prop :=
  ∃ b t1 t0, modalTr ev = t1 ++ .openLevel q b :: .modalBegin e :: t0

structure FramesInv (v : SV) : Prop where
  f1 : ∀ pre q e post, v.code = pre ++ .mainCheck q :: .modalRet e :: post → OpenedForV q e v.ev
  f2 : ∀ s e post, v.code = .newLoop s :: .modalRet e :: post → ∃ t0, modalTr v.ev = .modalBegin e :: t0
  f3 : ∀ e post, v.code = .restoreRun :: .modalRet e :: post → ∃ q, OpenedForV q e v.ev ∧ Tr.loopReturn q ∈ v.ev
  f4 : ∀ e post, v.code = .modalRet e :: post →
        v.forceQuit = true ∨ ∃ q, OpenedForV q e v.ev ∧ Tr.loopReturn q ∈ v.ev

/-- instructions that are not part of a `push_screen_modal` / `execute_new_loop` frame -/
def Instr.frameFree : Instr → Bool
  | .mainCheck _ | .modalRet _ | .newLoop _ | .restoreRun => false
  | _ => true

namespace Shape

theorem modalTr_append (a b : List Tr) : modalTr (a ++ b) = modalTr a ++ modalTr b := by simp [modalTr]

theorem openedForV_mono {q : Nat} {e : Entry} {ev : List Tr} (evs : List Tr) (h : OpenedForV q e ev) :
    OpenedForV q e (evs ++ ev) := by
  obtain ⟨b, t1, t0, h⟩ := h
  exact ⟨b, modalTr evs ++ t1, t0, by rw [modalTr_append, h, List.append_assoc]⟩

/-- where an adjacent pair `a :: b` of `B ++ rest` lies -/
theorem pair_split {α} {a b : α} : ∀ {pre post B rest : List α}, pre ++ a :: b :: post = B ++ rest →
    (∃ pre', rest = pre' ++ a :: b :: post) ∨ (∃ B', B = B' ++ [a] ∧ rest = b :: post) ∨
    (∃ B1 B2, B = B1 ++ a :: b :: B2) := by
  intro pre post B
  induction B generalizing pre with
  | nil => intro rest h; exact .inl ⟨pre, h.symm⟩
  | cons x B ih =>
    intro rest h
    cases pre with
    | nil =>
      simp only [List.nil_append, List.cons_append, List.cons.injEq] at h
      obtain ⟨rfl, h⟩ := h
      cases B with
      | nil => exact .inr (.inl ⟨[], rfl, by simpa using h.symm⟩)
      | cons y B =>
        simp only [List.cons_append, List.cons.injEq] at h
        exact .inr (.inr ⟨[], B, by rw [h.1]; rfl⟩)
    | cons p pre =>
      simp only [List.cons_append, List.cons.injEq] at h
      rcases ih h.2 with h1 | ⟨B', h1, h2⟩ | ⟨B1, B2, h1⟩
      · exact .inl h1
      · exact .inr (.inl ⟨x :: B', by rw [h1]; rfl, h2⟩)
      · exact .inr (.inr ⟨x :: B1, B2, by rw [h1]; rfl⟩)

theorem allows_modalRet {h : Instr} {e : Entry} (ha : h.fclass.allows (.modalRet e) = true) :
    (∃ s, h = .newLoop s) ∨ (∃ q, h = .mainCheck q) ∨ h = .restoreRun := by
  cases h <;> first | (cases ha; done) | exact .inl ⟨_, rfl⟩ | exact .inr (.inl ⟨_, rfl⟩) | exact .inr (.inr rfl)

theorem not_allows_newLoop (h : Instr) (s : Sig) : h.fclass.allows (.newLoop s) = false := by
  cases h <;> rfl

theorem head_not_newLoop {h : Instr} {rest : List Instr} (hc : Chained (h :: rest)) {s : Sig} {l : List Instr} :
    rest ≠ .newLoop s :: l := by
  intro hr
  subst hr
  have : h.fclass.allows (.newLoop s) = true := hc.1
  rw [not_allows_newLoop] at this; cases this

theorem head_not_restore {h : Instr} {rest : List Instr} (hc : Chained (h :: rest)) {l : List Instr} :
    rest ≠ .restoreRun :: l := by
  intro hr
  have := headIsRestore_of_chained hc
  rw [hr] at this; cases this

theorem no_newLoop_tail {h : Instr} {l : List Instr} (hc : Chained (h :: l)) : ∀ s, Instr.newLoop s ∉ l := by
  induction l generalizing h with
  | nil => intro s hs; cases hs
  | cons x l ih =>
    intro s hs
    rcases List.mem_cons.1 hs with h1 | h1
    · have : h.fclass.allows x = true := hc.1
      rw [← h1, not_allows_newLoop] at this; cases this
    · exact ih hc.2 s h1

/-- what stands directly behind a body instruction (other than `newLoop`) or a `catchHandler` is not part
of a frame -/
theorem after_body_free {y x : Instr} {l : List Instr} (hc : Chained (y :: x :: l))
    (hy : y.isLC = false ∨ y = .catchHandler) (hnl : ∀ s, y ≠ .newLoop s) : Instr.frameFree x = true := by
  have ha : y.fclass.allows x = true := hc.1
  rcases hy with hy | rfl
  · cases hf : y.fclass <;> rw [hf] at ha
    case body | caa | endpi | cps =>
      cases x <;> first | rfl | (cases ha; done)
    case bodyM =>
      cases y <;> first | (cases hf; done) | exact absurd rfl (hnl _)
    all_goals
      cases y <;> first | (cases hy; done) | (cases hf; done)
  · cases x <;> first | rfl | (cases ha; done)

theorem suffix_head_free {l post : List Instr} (hch : Chained (l ++ post)) (hl : l ≠ [])
    (hbody : ∀ y ∈ l, y.isLC = false ∨ y = .catchHandler) (hnl : ∀ s, Instr.newLoop s ∉ l) :
    ∀ x r, post = x :: r → Instr.frameFree x = true := by
  intro x r hp
  subst hp
  obtain ⟨init, y, hy⟩ : ∃ init y, l = init ++ [y] := by
    rcases List.eq_nil_or_concat l with h0 | ⟨init, y, h0⟩
    · exact absurd h0 hl
    · exact ⟨init, y, by simpa using h0⟩
  have hym : y ∈ l := by rw [hy]; simp
  rw [hy, List.append_assoc] at hch
  exact after_body_free (hch.of_append) (hbody y hym) (fun s hs => hnl s (hs ▸ hym))

/-- the generic case: the head is replaced by instructions that are not part of any frame -/
theorem frames_generic {v v' : SV} {h : Instr} {rest B : List Instr} (evs : List Tr) (hi : FramesInv v)
    (hc : v.code = h :: rest) (hch : Chained (h :: rest)) (hB : ∀ i ∈ B, Instr.frameFree i = true)
    (hnl : ∀ s, h = .newLoop s → v'.forceQuit = true) (hmc : ∀ q, h = .mainCheck q → B ≠ [])
    (hcode : v'.code = B ++ rest) (hev : v'.ev = evs ++ v.ev) : FramesInv v' := by
  have headB : ∀ {x : Instr} {l : List Instr}, B ++ rest = x :: l → Instr.frameFree x = false → B = [] ∧ rest = x :: l := by
    intro x l hx hfx
    cases B with
    | nil => exact ⟨rfl, hx⟩
    | cons y B =>
      simp only [List.cons_append, List.cons.injEq] at hx
      have := hB y (by simp)
      rw [hx.1, hfx] at this; cases this
  refine ⟨?_, ?_, ?_, ?_⟩
  · intro pre q e post hp
    rw [hcode] at hp
    rw [hev]
    apply openedForV_mono
    rcases pair_split hp.symm with ⟨pre', h1⟩ | ⟨B', h1, _⟩ | ⟨B1, B2, h1⟩
    · exact hi.f1 (h :: pre') q e post (by rw [hc, h1]; rfl)
    · have := hB (.mainCheck q) (by rw [h1]; simp)
      cases this
    · have := hB (.mainCheck q) (by rw [h1]; simp)
      cases this
  · intro s e post hp
    rw [hcode] at hp
    obtain ⟨_, h2⟩ := headB hp rfl
    exact absurd h2 (head_not_newLoop hch)
  · intro e post hp
    rw [hcode] at hp
    obtain ⟨_, h2⟩ := headB hp rfl
    exact absurd h2 (head_not_restore hch)
  · intro e post hp
    rw [hcode] at hp
    obtain ⟨hB0, h2⟩ := headB hp rfl
    have ha : h.fclass.allows (.modalRet e) = true := by
      have := hch.1; rw [h2] at this; exact this
    rcases allows_modalRet ha with ⟨s, rfl⟩ | ⟨q, rfl⟩ | rfl
    · exact .inl (hnl s rfl)
    · exact absurd hB0 (hmc q rfl)
    · right
      rw [hev]
      obtain ⟨q, h3, h4⟩ := hi.f3 e post (by rw [hc, h2])
      exact ⟨q, openedForV_mono evs h3, List.mem_append_right _ h4⟩

theorem frames_over {v : SV} (ho : overCode v.code = true) : FramesInv v := by
  rcases overCode_cases ho with h | h
  · refine ⟨?_, ?_, ?_, ?_⟩ <;> intros <;> rename_i hp <;> rw [h] at hp
    · have := congrArg List.length hp; simp at this
    · cases hp
    · cases hp
    · cases hp
  · refine ⟨?_, ?_, ?_, ?_⟩ <;> intros <;> rename_i hp <;> rw [h] at hp
    · have := congrArg List.length hp; simp at this; omega
    · cases hp
    · cases hp
    · cases hp

/-- batches whose instructions are all outside frames -/
theorem batch_frameFree {P : Prog} {v : SV} {h : Instr} {B : List Instr} {evs : List Tr} (hb : Batch P v h B evs) :
    (∀ i ∈ B, Instr.frameFree i = true) ∨
    (∃ q, h = .mainCheck q ∧ B = [.loopCheck, .mainCheck q] ∧ evs = []) ∨
    (∃ q, h = .mainCheck q ∧ B = [.restoreRun] ∧ evs = [.loopReturn q]) ∨
    (∃ s w, B = [.newLoop s, .note w] ∧ evs = []) := by
  cases hb
  case mainLoop q _ => exact .inr (.inl ⟨q, rfl, rfl, rfl⟩)
  case mainExit q _ => exact .inr (.inr (.inl ⟨q, rfl, rfl, rfl⟩))
  case actNewLoop cls prio sid => exact .inr (.inr (.inr ⟨_, _, rfl, rfl⟩))
  case passive hp => left; intro i hi; cases hi
  case callUser hid d s n =>
    left; intro i hi
    simp only [List.mem_append, List.mem_map, List.mem_singleton] at hi
    rcases hi with ⟨a, _, rfl⟩ | rfl <;> rfl
  case callScr scr cb arg key n =>
    left; intro i hi
    simp only [List.mem_append, List.mem_map, List.mem_singleton] at hi
    rcases hi with (hi | ⟨a, _, rfl⟩) | rfl
    · split at hi
      · simp only [List.mem_singleton] at hi; subst hi; rfl
      · cases hi
    · rfl
    · rfl
  case printWidget scr hB =>
    left; intro i hi
    rcases hB i hi with ⟨ls, rfl⟩ | rfl <;> rfl
  all_goals (left; simp [Instr.frameFree])

theorem frames_step {P : Prog} {v v' : SV} {evs : List Tr} (hb : Basic v) (hi : FramesInv v)
    (hs : SStepE P v evs v') : FramesInv v' := by
  have hch := hb.chained
  have hev := SStepE.ev_eq hs
  cases hs with
  | stutter => exact hi
  | batch hc hbt =>
    rename_i h rest B
    rw [hc] at hch
    rcases batch_frameFree hbt with hB | ⟨q, rfl, rfl, rfl⟩ | ⟨q, rfl, rfl, rfl⟩ | ⟨s, w, rfl, rfl⟩
    · refine frames_generic evs hi hc hch hB ?_ ?_ rfl hev
      · intro s hs
        subst hs
        cases hbt with
        | passive hp => cases hp
        | newLoopFQ _ hf => exact hf
      · intro q hq
        subst hq
        cases hbt with
        | passive hp => cases hp
        | mainLoop _ _ => simp
        | mainExit _ _ => simp
    · -- the marker stays: `[loopCheck, mainCheck q] ++ rest`
      refine ⟨?_, ?_, ?_, ?_⟩
      · intro pre q' e post hp
        have hp' : pre ++ Instr.mainCheck q' :: Instr.modalRet e :: post = [.loopCheck, .mainCheck q] ++ rest := hp.symm
        rcases pair_split hp' with ⟨pre', h1⟩ | ⟨B', h1, h2⟩ | h1
        · exact hi.f1 (.mainCheck q :: pre') q' e post (by rw [hc, h1]; rfl)
        · have : q' = q := by
            have := congrArg List.getLast? h1
            simp at this
            exact this.symm
          subst this
          exact hi.f1 [] q' e post (by rw [hc, h2]; rfl)
        · obtain ⟨B1, B2, h1⟩ := h1
          have : Instr.modalRet e ∈ [Instr.loopCheck, Instr.mainCheck q] := by rw [h1]; simp
          simp at this
      · intro s e post hp; cases hp
      · intro e post hp; cases hp
      · intro e post hp; cases hp
    · -- the marker exits: `restoreRun :: rest`
      refine ⟨?_, ?_, ?_, ?_⟩
      · intro pre q' e post hp
        have hp' : pre ++ Instr.mainCheck q' :: Instr.modalRet e :: post = [.restoreRun] ++ rest := hp.symm
        rw [hev]; apply openedForV_mono
        rcases pair_split hp' with ⟨pre', h1⟩ | ⟨B', h1, h2⟩ | h1
        · exact hi.f1 (.mainCheck q :: pre') q' e post (by rw [hc, h1]; rfl)
        · have := congrArg List.getLast? h1
          simp at this
        · obtain ⟨B1, B2, h1⟩ := h1
          have : Instr.modalRet e ∈ [Instr.restoreRun] := by rw [h1]; simp
          simp at this
      · intro s e post hp; cases hp
      · intro e post hp
        have hp' : Instr.restoreRun :: rest = Instr.restoreRun :: Instr.modalRet e :: post := hp
        simp only [List.cons.injEq, true_and] at hp'
        rw [hev]
        exact ⟨q, openedForV_mono _ (hi.f1 [] q e post (by rw [hc, hp']; rfl)), by simp⟩
      · intro e post hp; cases hp
    · -- the raw `execute_new_loop` call: `[newLoop s, note] ++ rest`
      refine ⟨?_, ?_, ?_, ?_⟩
      · intro pre q' e post hp
        have hp' : pre ++ Instr.mainCheck q' :: Instr.modalRet e :: post = [.newLoop s, .note w] ++ rest := hp.symm
        rw [hev]; apply openedForV_mono
        rcases pair_split hp' with ⟨pre', h1⟩ | ⟨B', h1, h2⟩ | h1
        · exact hi.f1 (h :: pre') q' e post (by rw [hc, h1]; rfl)
        · have := congrArg List.getLast? h1
          simp at this
        · obtain ⟨B1, B2, h1⟩ := h1
          have : Instr.modalRet e ∈ [Instr.newLoop s, Instr.note w] := by rw [h1]; simp
          simp at this
      · intro s' e post hp; cases hp
      · intro e post hp; cases hp
      · intro e post hp; cases hp
  | halt hc hh =>
    rename_i h rest
    rw [hc] at hch
    exact frames_generic (B := []) [] hi hc hch (by intro i hi; cases hi) (by intro s hs; subst hs; cases hh)
      (by intro q hq; subst hq; cases hh) rfl hev
  | raise hc hr =>
    rename_i h rest k
    rcases raise_cases hch hc hr with ho | ⟨rfl, hn, pre, post, h1, h2, h3⟩
    · exact frames_over ho
    · -- caught: the code left is a suffix of the old code, behind a body instruction or a catcher
      rw [hc, h1] at hch
      have hhead : ∀ x r, post = x :: r → Instr.frameFree x = true :=
        suffix_head_free (l := h :: pre) hch (by simp)
          (by intro y hy; rcases List.mem_cons.1 hy with rfl | hm; exact .inl hn; exact h3 y hm)
          (by
            intro s hs
            rcases List.mem_cons.1 hs with h5 | h5
            · rw [← h5] at hr; cases hr
            · exact no_newLoop_tail hch s (List.mem_append_left _ h5))
      refine ⟨?_, ?_, ?_, ?_⟩
      · intro pre' q e post' hp
        rw [hev]; apply openedForV_mono
        exact hi.f1 ((h :: pre) ++ pre') q e post' (by rw [hc, h1, ← h2, hp]; simp)
      · intro s e post' hp
        rw [h2] at hp
        have := hhead _ _ hp; cases this
      · intro e post' hp
        rw [h2] at hp
        have := hhead _ _ hp; cases this
      · intro e post' hp
        rw [h2] at hp
        have := hhead _ _ hp; cases this
  | kill _ => exact frames_over rfl
  | forceQuit hc =>
    rw [hc] at hch
    exact frames_generic (B := []) _ hi hc hch (by intro i hi; cases hi) (by intro s hs; cases hs)
      (by intro q hq; cases hq) rfl hev
  | enqAct hc =>
    rw [hc] at hch
    exact frames_generic (B := []) [] hi hc hch (by intro i hi; cases hi) (by intro s hs; cases hs)
      (by intro q hq; cases hq) rfl hev
  | schedule hc =>
    rw [hc] at hch
    exact frames_generic (B := []) _ hi hc hch (by intro i hi; cases hi) (by intro s hs; cases hs)
      (by intro q hq; cases hq) rfl hev
  | pushScr hc =>
    rw [hc] at hch
    exact frames_generic (B := []) _ hi hc hch (by intro i hi; cases hi) (by intro s hs; cases hs)
      (by intro q hq; cases hq) rfl hev
  | replace hc _ =>
    rw [hc] at hch
    exact frames_generic (B := []) _ hi hc hch (by intro i hi; cases hi) (by intro s hs; cases hs)
      (by intro q hq; cases hq) rfl hev
  | apprun hc =>
    rename_i rest
    rw [hc] at hch
    have : rest = [] := by
      have := hch.1
      cases rest with
      | nil => rfl
      | cons x r => cases this
    subst this
    refine ⟨?_, ?_, ?_, ?_⟩
    · intro pre q e post hp
      have hp' : pre ++ Instr.mainCheck q :: Instr.modalRet e :: post = [.mainCheck 0, .catchExit, .quitCb] ++ [] := hp.symm
      rcases pair_split hp' with ⟨pre', h1⟩ | ⟨B', h1, h2⟩ | h1
      · have := congrArg List.length h1; simp at this
      · cases h2
      · obtain ⟨B1, B2, h1⟩ := h1
        have : Instr.modalRet e ∈ [Instr.mainCheck 0, Instr.catchExit, Instr.quitCb] := by rw [h1]; simp
        simp at this
    · intro s e post hp; cases hp
    · intro e post hp; cases hp
    · intro e post hp; cases hp
  | restore hc _ =>
    rw [hc] at hch
    exact frames_generic (B := []) [] hi hc hch (by intro i hi; cases hi) (by intro s hs; cases hs)
      (by intro q hq; cases hq) rfl hev
  | «open» hc hf =>
    rename_i rest s
    rw [hc] at hch
    refine ⟨?_, ?_, ?_, ?_⟩
    · intro pre q e post hp
      have hp' : pre ++ Instr.mainCheck q :: Instr.modalRet e :: post = [.mainCheck v.nq] ++ rest := hp.symm
      rcases pair_split hp' with ⟨pre', h1⟩ | ⟨B', h1, h2⟩ | h1
      · rw [hev]; apply openedForV_mono
        exact hi.f1 (.newLoop s :: pre') q e post (by rw [hc, h1]; rfl)
      · have hq : q = v.nq := by
          have := congrArg List.getLast? h1
          simp at this
          exact this.symm
        subst hq
        obtain ⟨t0, ht0⟩ := hi.f2 s e post (by rw [hc, h2])
        refine ⟨v.runLoop, [], t0, ?_⟩
        show modalTr (Tr.openLevel v.nq v.runLoop :: v.ev) = _
        show (Tr.openLevel v.nq v.runLoop :: v.ev).filter Tr.isModalEv = _
        rw [List.filter_cons]
        simp only [Tr.isModalEv, if_true, List.nil_append]
        exact congrArg _ ht0
      · obtain ⟨B1, B2, h1⟩ := h1
        have : Instr.modalRet e ∈ [Instr.mainCheck v.nq] := by rw [h1]; simp
        simp at this
    · intro s' e post hp; cases hp
    · intro e post hp; cases hp
    · intro e post hp; cases hp
  | pop hc _ _ =>
    rw [hc] at hch
    exact frames_generic (B := []) _ hi hc hch (by intro i hi; cases hi) (by intro s hs; cases hs)
      (by intro q hq; cases hq) rfl hev
  | popExit hc _ _ => rw [hc] at hch; exact frames_over (unwind_exit_chained hch.2)
  | pushModal hc =>
    rename_i rest scr args s
    rw [hc] at hch
    refine ⟨?_, ?_, ?_, ?_⟩
    · intro pre q e post hp
      have hp' : pre ++ Instr.mainCheck q :: Instr.modalRet e :: post =
          [.newLoop s, .modalRet ⟨v.nextEid, scr, args, true⟩] ++ rest := hp.symm
      rw [hev]; apply openedForV_mono
      rcases pair_split hp' with ⟨pre', h1⟩ | ⟨B', h1, h2⟩ | h1
      · exact hi.f1 (.pushModal scr args :: pre') q e post (by rw [hc, h1]; rfl)
      · have := congrArg List.getLast? h1
        simp at this
      · obtain ⟨B1, B2, h1⟩ := h1
        have : Instr.mainCheck q ∈ [Instr.newLoop s, Instr.modalRet ⟨v.nextEid, scr, args, true⟩] := by
          rw [h1]; simp
        simp at this
    · intro s' e post hp
      have hp' : Instr.newLoop s :: Instr.modalRet ⟨v.nextEid, scr, args, true⟩ :: rest =
          Instr.newLoop s' :: Instr.modalRet e :: post := hp
      simp only [List.cons.injEq, Instr.newLoop.injEq, Instr.modalRet.injEq] at hp'
      obtain ⟨_, rfl, _⟩ := hp'
      exact ⟨_, rfl⟩
    · intro e post hp; cases hp
    · intro e post hp; cases hp
  | closeScreen hc _ =>
    rw [hc] at hch
    exact frames_generic (B := [_, _]) _ hi hc hch
      (by intro i hi; simp only [List.mem_cons, List.mem_nil_iff, or_false] at hi; rcases hi with rfl | rfl <;> rfl)
      (by intro s hs; cases hs) (by intro q hq; cases hq) rfl hev
  | discard hc _ =>
    rw [hc] at hch
    refine frames_generic (B := if _ then _ else _) _ hi hc hch ?_ (by intro s hs; cases hs)
      (by intro q hq; cases hq) rfl hev
    intro i hi
    split at hi
    · simp only [List.mem_cons, List.mem_nil_iff, or_false] at hi; rcases hi with rfl | rfl <;> rfl
    · cases hi
  | identSkip hc _ _ =>
    rw [hc] at hch
    refine frames_generic (B := []) [] hi hc hch (by intro i hi; cases hi) (by intro s hs; cases hs)
      (by intro q hq; cases hq) ?_ hev
    show List.dropWhile _ _ = _
    rw [identSkip_chained hch]; rfl

theorem frames_init (init : List Act) (handlers : List (Cls × HRef × Option Nat)) (quitCb : Option Nat)
    (stdin : List Str) : FramesInv (initCfg init handlers quitCb stdin).sv := by
  have hfree : ∀ i ∈ init.map Instr.act ++ [Instr.apprun], Instr.frameFree i = true := by
    intro i hi
    rcases List.mem_append.1 hi with h | h
    · obtain ⟨a, _, rfl⟩ := List.mem_map.1 h; rfl
    · simp only [List.mem_singleton] at h; subst h; rfl
  have hcode : (initCfg init handlers quitCb stdin).sv.code = init.map Instr.act ++ [Instr.apprun] := rfl
  refine ⟨?_, ?_, ?_, ?_⟩
  · intro pre q e post hp
    rw [hcode] at hp
    have := hfree (.mainCheck q) (by rw [hp]; simp)
    cases this
  · intro s e post hp
    rw [hcode] at hp
    have := hfree (.newLoop s) (by rw [hp]; simp)
    cases this
  · intro e post hp
    rw [hcode] at hp
    have := hfree .restoreRun (by rw [hp]; simp)
    cases this
  · intro e post hp
    rw [hcode] at hp
    have := hfree (.modalRet e) (by rw [hp]; simp)
    cases this

theorem reach_frames {P : Prog} {c0 c : Cfg} (h0 : Started c0) (hr : Reach P c0 c) : FramesInv c.sv := by
  induction hr with
  | init =>
    obtain ⟨init, handlers, quitCb, stdin, rfl⟩ := h0
    exact frames_init init handlers quitCb stdin
  | step hr hst ih =>
    obtain ⟨evs, h1, _, _⟩ := trans_sstep (.step hst)
    exact frames_step (reach_basic h0 hr) ih h1
  | deliver hr hd ih =>
    obtain ⟨evs, h1, _, _⟩ := trans_sstep (P := P) (.deliver hd)
    exact frames_step (reach_basic h0 hr) ih h1
  | halt hr hst ih =>
    obtain ⟨evs, h1, _, _⟩ := trans_sstep (.halt hst)
    exact frames_step (reach_basic h0 hr) ih h1

/-- only `modalRet e` at the head logs `.modalEnd e` -/
theorem modalEnd_step {P : Prog} {v v' : SV} {evs : List Tr} {e : Entry} (hs : SStepE P v evs v')
    (h : Tr.modalEnd e ∈ evs) : ∃ rest, v.code = .modalRet e :: rest := by
  cases hs with
  | batch hc hb =>
    cases hb <;> simp at h
    subst h
    exact ⟨_, hc⟩
  | raise _ _ => exact absurd h (not_mem_exitEv_of_ne_exit (by simp))
  | stutter | halt _ _ | apprun _ | restore _ _ | identSkip _ _ _ | enqAct _ => cases h
  | kill _ | forceQuit _ | schedule _ | pushScr _ | replace _ _ | «open» _ _ | pop _ _ _ | popExit _ _ _
  | pushModal _ | closeScreen _ _ | discard _ _ => simp at h

theorem modalTr_shapeTr (l : List Tr) : modalTr (shapeTr l) = l.filter Tr.isModalEv := by
  unfold modalTr shapeTr
  rw [List.filter_filter]
  congr 1
  funext t
  cases t <;> rfl

/-- the force-quit flag is only set by `force_quit` -/
theorem reach_fq_event {P : Prog} {c0 c : Cfg} (h0 : Started c0) (hr : Reach P c0 c)
    (hf : c.L.forceQuit = true) : Tr.forceQuit ∈ c.tr := by
  obtain ⟨init, handlers, quitCb, stdin, rfl⟩ := h0
  have := reach_sv_induction (fun v => v.forceQuit = true → Tr.forceQuit ∈ v.ev)
    (by intro h; cases h) (by
      intro v evs v' hi hs hf'
      have hev := SStepE.ev_eq hs
      cases hs with
      | forceQuit _ => exact List.mem_cons_self ..
      | apprun _ => cases hf'
      | raise _ _ | popExit _ _ _ =>
        rw [hev]; exact List.mem_append_right _ (hi hf')
      | stutter | batch _ _ | halt _ _ | kill _ | enqAct _ | schedule _ | pushScr _ | replace _ _
      | restore _ _ | «open» _ _ | pop _ _ _ | pushModal _ | closeScreen _ _ | discard _ _ | identSkip _ _ _ =>
        rw [hev]; exact List.mem_append_right _ (hi hf')) hr hf
  exact (mem_shapeTr.1 this).1

/-- every activation that has returned served a level that had been closed (or force-quit) -/
theorem reach_returned_closed {P : Prog} {c0 c : Cfg} (h0 : Started c0) (hr : Reach P c0 c) (hw : WFOpen c)
    {q : Nat} (hq : Tr.loopReturn q ∈ c.tr) : Tr.closeLevel q ∈ c.tr ∨ Tr.forceQuit ∈ c.tr := by
  revert hw hq
  refine reach_induction_trans (P := P) (c1 := c0)
    (motive := fun c => WFOpen c → Tr.loopReturn q ∈ c.tr → Tr.closeLevel q ∈ c.tr ∨ Tr.forceQuit ∈ c.tr) ?_ ?_ hr
  · intro _ hq
    obtain ⟨init, handlers, quitCb, stdin, rfl⟩ := h0
    cases hq
  · intro ca cb hra ht ih hw hq
    have hg := trans_grow ht
    obtain ⟨n, hn⟩ := hg
    have hwa : WFOpen ca := WFOpen.mono ⟨n, hn⟩ hw
    rw [hn] at hq ⊢
    rcases List.mem_append.1 hq with h1 | h1
    · have := (blocks h0 hra ht hwa (by rw [newTr_of_grow hn]; exact h1)).2
      rcases this with h2 | h2
      · exact .inl (List.mem_append_right _ h2)
      · exact .inr (List.mem_append_right _ h2)
    · rcases ih hwa h1 with h2 | h2
      · exact .inl (List.mem_append_right _ h2)
      · exact .inr (List.mem_append_right _ h2)

/-- **blocks** for modal screens -/
theorem modal_blocks {P : Prog} {c0 c c' : Cfg} (h0 : Started c0) (hr : Reach P c0 c) (ht : Trans P c c')
    (hw : WFOpen c) (hf : NoForceQuit c) {e : Entry} (he : Tr.modalEnd e ∈ newTr c c') :
    ∃ q, OpenedFor q e c.tr ∧ Tr.loopReturn q ∈ c.tr ∧ Tr.closeLevel q ∈ c.tr := by
  obtain ⟨evs, hs, hev, _⟩ := trans_sstep ht
  obtain ⟨rest, hc⟩ := modalEnd_step hs ((mem_newTr_iff hev rfl).1 he)
  rcases (reach_frames h0 hr).f4 e rest hc with hfq | ⟨q, ⟨b, t1, t0, h1⟩, h2⟩
  · exact absurd (reach_fq_event h0 hr hfq) hf
  · have h2' : Tr.loopReturn q ∈ c.tr := (mem_shapeTr.1 h2).1
    refine ⟨q, ⟨b, t1, t0, ?_⟩, h2', ?_⟩
    · rw [← modalTr_shapeTr]; exact h1
    · rcases reach_returned_closed h0 hr hw h2' with h3 | h3
      · exact h3
      · exact absurd h3 hf

end Shape

end Simpleline
