/-
  Lemmas behind C05 "intact": while the level of a modal entry is open, the part of the stack that was
  beneath the entry when it was pushed is not touched (only `schedule_screen` inserts beneath it).
-/
import Simpleline.Lemmas.ShapeShieldFix

namespace Simpleline

/-- the elementary stack operations -/
inductive StackOp : List Entry → List Entry → Prop
  | bottom (s : List Entry) (x : Entry) : x.modal = false → StackOp s (x :: s)
  | top (s : List Entry) (x : Entry) : StackOp s (s ++ [x])
  | repl (s : List Entry) (old x : Entry) : s.getLast? = some old → x.modal = old.modal → StackOp s (s.dropLast ++ [x])
  | pop (s : List Entry) (old : Entry) : s.getLast? = some old → StackOp s s.dropLast

/-- what a transition does to the stack -/
inductive StackCh (v : SV) (evs : List Tr) (v' : SV) : Prop
  | same : v'.stack = v.stack → (∀ w st, Tr.stackOp w st ∉ evs) → StackCh v evs v'
  | op {h : Instr} {rest : List Instr} {w : String} {st : List Entry} :
      v.code = h :: rest → h.isWindowHead = false → Tr.stackOp w st ∈ evs → StackOp v.stack v'.stack → StackCh v evs v'

/-- `st` still has `S` in place: above what `schedule_screen` inserted at the bottom (`ins`), beneath
`above`, whose lowest entry — the slot of the modal entry pushed on `S` — is modal -/
def Intact (S st : List Entry) : Prop :=
  ∃ ins above, st = ins ++ S ++ above ∧ (∀ y ∈ ins, y.modal = false) ∧ (∀ a l, above = a :: l → a.modal = true)

namespace Shape

theorem modalCount_append (a b : List Entry) : modalCount (a ++ b) = modalCount a + modalCount b := by
  simp [modalCount, List.filter_append]

theorem modalCount_nonmodal {l : List Entry} (h : ∀ y ∈ l, y.modal = false) : modalCount l = 0 := by
  unfold modalCount
  rw [List.length_eq_zero_iff, List.filter_eq_nil_iff]
  intro y hy
  simp [h y hy]

theorem stack_step {P : Prog} {v v' : SV} {evs : List Tr} (hs : SStepE P v evs v') : StackCh v evs v' := by
  cases hs with
  | stutter => exact .same rfl (by intro w st h; cases h)
  | batch hc hb =>
    refine .same rfl ?_
    intro w st h
    cases hb <;> simp at h
  | halt _ _ => exact .same rfl (by intro w st h; cases h)
  | raise _ _ => exact .same rfl (by intro w st h; exact absurd h (not_mem_exitEv_of_ne_exit (by simp)))
  | kill _ => exact .same rfl (by intro w st h; simp at h)
  | forceQuit _ => exact .same rfl (by intro w st h; simp at h)
  | enqAct _ => exact .same rfl (by intro w st h; cases h)
  | schedule hc => exact .op hc rfl (List.mem_cons_self ..) (.bottom _ _ rfl)
  | pushScr hc => exact .op hc rfl (List.mem_cons_self ..) (.top _ _)
  | replace hc hold => exact .op hc rfl (List.mem_cons_self ..) (.repl _ _ _ hold rfl)
  | apprun _ => exact .same rfl (by intro w st h; cases h)
  | restore _ _ => exact .same rfl (by intro w st h; cases h)
  | «open» _ _ => exact .same rfl (by intro w st h; simp at h)
  | pop _ _ _ => exact .same rfl (by intro w st h; simp at h)
  | popExit _ _ _ => exact .same rfl (by intro w st h; simp at h)
  | pushModal hc => exact .op hc rfl (List.mem_cons_of_mem _ (List.mem_cons_self ..)) (.top _ _)
  | closeScreen hc he => exact .op hc rfl (List.mem_cons_self ..) (.pop _ _ he)
  | discard hc he => exact .op hc rfl (List.mem_cons_self ..) (.pop _ _ he)
  | identSkip _ _ _ => exact .same rfl (by intro w st h; cases h)

theorem intact_count {S st : List Entry} (h : Intact S st) :
    ∃ ins above, st = ins ++ S ++ above ∧ (∀ y ∈ ins, y.modal = false) ∧ (∀ a l, above = a :: l → a.modal = true) ∧
      modalCount st = modalCount S + modalCount above := by
  obtain ⟨ins, above, h1, h2, h3⟩ := h
  refine ⟨ins, above, h1, h2, h3, ?_⟩
  rw [h1, modalCount_append, modalCount_append, modalCount_nonmodal h2]; omega

/-- a stack operation keeps `S` in place as long as a modal entry is left above it -/
theorem intact_op {S s s' : List Entry} (hJ : Intact S s) (hop : StackOp s s') (hcnt : modalCount S < modalCount s) :
    Intact S s' := by
  obtain ⟨ins, above, h1, h2, h3, h4⟩ := intact_count hJ
  have hne : above ≠ [] := by
    intro h0; rw [h0] at h4
    have : modalCount ([] : List Entry) = 0 := rfl
    omega
  obtain ⟨init, lst, hal⟩ : ∃ init lst, above = init ++ [lst] := by
    rcases List.eq_nil_or_concat above with h0 | ⟨init, lst, h0⟩
    · exact absurd h0 hne
    · exact ⟨init, lst, by simpa using h0⟩
  have hlast : s.getLast? = some lst := by rw [h1, hal]; simp [← List.append_assoc]
  have hdrop : s.dropLast = ins ++ S ++ init := by
    rw [h1, hal, ← List.append_assoc, List.dropLast_concat]
  cases hop with
  | bottom x hx =>
    refine ⟨x :: ins, above, by rw [h1]; rfl, ?_, h3⟩
    intro y hy
    rcases List.mem_cons.1 hy with rfl | hy
    · exact hx
    · exact h2 y hy
  | top x =>
    refine ⟨ins, above ++ [x], by rw [h1, List.append_assoc], h2, ?_⟩
    intro a l hal'
    cases above with
    | nil => exact absurd rfl hne
    | cons a0 l0 =>
      simp only [List.cons_append, List.cons.injEq] at hal'
      rw [← hal'.1]; exact h3 a0 l0 rfl
  | repl old x hold hx =>
    rw [hlast] at hold; cases hold
    refine ⟨ins, init ++ [x], by rw [hdrop, List.append_assoc], h2, ?_⟩
    intro a l hal'
    cases init with
    | nil =>
      simp only [List.nil_append, List.cons.injEq] at hal'
      rw [← hal'.1, hx]
      exact h3 lst [] (by rw [hal]; rfl)
    | cons a0 l0 =>
      simp only [List.cons_append, List.cons.injEq] at hal'
      rw [← hal'.1]
      exact h3 a0 (l0 ++ [lst]) (by rw [hal]; rfl)
  | pop old hold =>
    refine ⟨ins, init, hdrop, h2, ?_⟩
    intro a l hal'
    rw [hal'] at hal
    exact h3 a (l ++ [lst]) (by rw [hal]; rfl)

/-- a level stays open unless `close_loop` pops it, `force_quit` is called or the run ends -/
theorem level_step {P : Prog} {v v' : SV} {evs : List Tr} {q : Nat} (hs : SStepE P v evs v')
    (hq : q ∈ v.levels) :
    q ∈ v'.levels ∨ Tr.closeLevel q ∈ evs ∨ Tr.forceQuit ∈ evs := by
  cases hs with
  | forceQuit _ => exact .inr (.inr (List.mem_cons_self ..))
  | «open» _ _ => exact .inl (List.mem_append_left _ hq)
  | pop hc hl ha =>
    rename_i rest q0 a
    by_cases hqq : q = q0
    · subst hqq; exact .inr (.inl (List.mem_cons_self ..))
    · left
      show q ∈ v.levels.dropLast
      obtain ⟨l', hl'⟩ : ∃ l', v.levels = l' ++ [q0] := by
        rcases List.eq_nil_or_concat v.levels with h' | ⟨l', x, h'⟩
        · rw [h'] at hl; cases hl
        · rw [h'] at hl; simp at hl; subst hl; exact ⟨l', by simpa using h'⟩
      rw [hl'] at hq ⊢
      simp only [List.dropLast_concat]
      rcases List.mem_append.1 hq with h2 | h2
      · exact h2
      · simp only [List.mem_singleton] at h2; exact absurd h2 hqq
  | popExit hc hl hn =>
    rename_i rest q0
    have : v.levels = [q0] := by
      rcases List.eq_nil_or_concat v.levels with h' | ⟨l', x, h'⟩
      · rw [h'] at hl; cases hl
      · rw [h'] at hl hn; simp at hl hn; subst hl; subst hn; simpa using h'
    rw [this] at hq
    simp only [List.mem_singleton] at hq
    subst hq
    exact .inr (.inl (by simp))
  | stutter | batch _ _ | halt _ _ | raise _ _ | kill _ | enqAct _ | schedule _ | pushScr _ | replace _ _ | apprun _
  | restore _ _ | pushModal _ | closeScreen _ _ | discard _ _ | identSkip _ _ _ => exact .inl hq

/-! ### the history hypotheses are inherited by earlier configurations (C05 ones) -/

theorem NoErr.mono {c c' : Cfg} (g : Grow c c') (h : NoErr c') : NoErr c := by
  obtain ⟨n, hn⟩ := g
  unfold NoErr cleanTr at h ⊢
  rw [hn, List.all_append, Bool.and_eq_true] at h
  exact h.2

theorem WFQuietDrain.mono {c c' : Cfg} (g : Grow c c') (h : WFQuietDrain c') : WFQuietDrain c := by
  obtain ⟨n, hn⟩ := g
  unfold WFQuietDrain at h ⊢
  rw [hn] at h
  exact drainQuietScan_append _ h

/-- the history hypotheses of the intact clause (`NoErr` is not among them: since `close_screen` checks
`closed_from` before it pops, quiescence outside the windows needs no such hypothesis —
`quiescent_of_head_fix`) -/
structure IntactHyps (c : Cfg) : Prop where
  qd : WFQuietDrain c
  wc : WFClose c
  wd : WFDrain c
  nf : NoForceQuit c

theorem IntactHyps.mono {c c' : Cfg} (g : Grow c c') (h : IntactHyps c') : IntactHyps c :=
  ⟨WFQuietDrain.mono g h.qd, WFClose.mono g h.wc, WFDrain.mono g h.wd, NoForceQuit.mono g h.nf⟩

theorem overCode_frame (X : List Instr) (q : Nat) (K : List Instr) : overCode (X ++ .mainCheck q :: K) = false := by
  cases X with
  | nil => cases K <;> rfl
  | cons x X =>
    cases X with
    | nil => cases x <;> rfl
    | cons y X => cases x <;> rfl

variable {P : Prog} {c0 c c' c1 c2 c3 : Cfg}

/-- at a call of `execute_new_loop` in a well-formed history: `_run_loop` is true and the activations
behind the call serve exactly the open levels -/
theorem call_exact (h0 : Started c0) (hr : Reach P c0 c) {s : Sig} {K : List Instr}
    (hc : c.code = .newLoop s :: K) (hfq : c.L.forceQuit = false) (hs : step P c = .ok c1) (g13 : Grow c1 c3)
    (hw : WFOpen c3) (hd : WFDrain c3) (hf : NoForceQuit c3) :
    c.L.runLoop = true ∧ markersA K = c.L.levels.reverse := by
  obtain ⟨c1', hs', hsv⟩ := step_newLoop (P := P) hc hfq
  rw [hs] at hs'; cases hs'
  have g01 : Grow c c1 := trans_grow (.step hs)
  have g03 : Grow c c3 := g01.trans g13
  have hrl : c.L.runLoop = true := by
    have hmem : Tr.openLevel c.sv.nq c.sv.runLoop ∈ c1.tr := by
      have : Tr.openLevel c.sv.nq c.sv.runLoop ∈ c1.sv.ev := by rw [hsv]; exact List.mem_cons_self ..
      exact (mem_shapeTr.1 this).1
    have hmem3 : Tr.openLevel c.sv.nq c.sv.runLoop ∈ c3.tr := by
      obtain ⟨n, hn⟩ := g13
      rw [hn]; exact List.mem_append_right _ hmem
    have := (List.all_eq_true.1 hw) _ hmem3
    cases hb : c.L.runLoop with
    | true => rfl
    | false =>
      have hb' : c.sv.runLoop = false := hb
      rw [hb'] at this; cases this
  refine ⟨hrl, ?_⟩
  rcases reach_exact h0 hr (WFOpen.mono g03 hw) (WFDrain.mono g03 hd) (NoForceQuit.mono g03 hf) with
    ho | ⟨_, hA | hB' | hB⟩
  · have : overCode (Instr.newLoop s :: K) = true := by rw [← hc]; exact ho
    cases K <;> cases this
  · have := hA.2
    rw [show c.sv.code = _ from hc] at this
    exact this
  · have : c.sv.runLoop = false := hB'.1
    rw [show c.sv.runLoop = c.L.runLoop from rfl, hrl] at this; cases this
  · have : c.sv.runLoop = false := hB.1
    rw [show c.sv.runLoop = c.L.runLoop from rfl, hrl] at this; cases this

/-- while level `q` is open and its frame is on the call stack, the levels that were open at the call
are still open beneath it -/
theorem levels_above_call {ca : Cfg} (h0 : Started c0) (hra : Reach P c0 ca) {q : Nat} {K X : List Instr}
    {L : List Nat} (hK : markersA K = L.reverse) (hqL : q ∉ L) (hcode : ca.code = X ++ .mainCheck q :: K)
    (hw : WFOpen ca) (hd : WFDrain ca) (hf : NoForceQuit ca) (hq : q ∈ ca.L.levels) :
    L.length + 1 ≤ ca.L.levels.length := by
  have hm : markersA ca.code = markersA X ++ q :: L.reverse := by
    rw [hcode, markersA_append]
    show markersA X ++ (q :: markersA K) = _
    rw [hK]
  rcases reach_exact h0 hra hw hd hf with ho | ⟨_, hA | hB' | hB⟩
  · have : overCode ca.code = true := ho
    rw [hcode, overCode_frame] at this; cases this
  · have h1 : markersA ca.code = ca.L.levels.reverse := hA.2
    have := congrArg List.length (h1.symm.trans hm)
    simp at this; omega
  · have h1 : markersA ca.code = ca.L.levels.reverse := hB'.2.2
    have := congrArg List.length (h1.symm.trans hm)
    simp at this; omega
  · obtain ⟨_, _, _, _, q', _, h6⟩ := hB
    have h1 : markersA ca.code = q' :: ca.L.levels.reverse := h6
    rw [hm] at h1
    cases hX : markersA X with
    | nil =>
      rw [hX] at h1
      simp only [List.nil_append, List.cons.injEq] at h1
      have : ca.L.levels = L := List.reverse_inj.1 h1.2.symm
      rw [this] at hq
      exact absurd hq hqL
    | cons m ms =>
      rw [hX] at h1
      have := congrArg List.length h1
      simp at this; omega

/-- **intact**, at the moment the modal loop's activation returns -/
theorem intact (h0 : Started c0) (hi : InitScreenOnly c0) (hP : ScreenOnly P) (hC : ClosedSilent P)
    (hr : Reach P c0 c) {scr : Nat} {args : Option Nat} {K0 : List Instr}
    (hc : c.code = .pushModal scr args :: K0) (hs1 : step P c = .ok c') (hs2 : step P c' = .ok c1)
    (hr2 : Reach P c1 c2) (ht : Trans P c2 c3) (hret : Tr.loopReturn c.L.queues.length ∈ newTr c2 c3)
    (hh : IntactHyps c3)
    (hafter : ∀ t1 t0, newTr c1 c2 = t1 ++ Tr.closeLevel c.L.queues.length :: t0 →
      ∀ w st, Tr.stackOp w st ∉ t1) :
    (∃ ins, c2.A.stack = ins ++ c.A.stack ∧ ∀ y ∈ ins, y.modal = false) ∧
    c2.code = .mainCheck c.L.queues.length :: .modalRet ⟨c.A.nextEid, scr, args, true⟩ :: K0 ∧
    c3.code = .restoreRun :: .modalRet ⟨c.A.nextEid, scr, args, true⟩ :: K0 ∧ c3.A.stack = c2.A.stack := by
  -- the two steps of the call
  obtain ⟨c'', s, hs1', hsv'⟩ := step_pushModal (P := P) hc
  rw [hs1] at hs1'; cases hs1'
  let e : Entry := ⟨c.A.nextEid, scr, args, true⟩
  let q := c.L.queues.length
  let K : List Instr := .modalRet e :: K0
  have hc' : c'.code = .newLoop s :: K := by show c'.sv.code = _; rw [hsv']; rfl
  have hlev' : c'.L.levels = c.L.levels := by show c'.sv.levels = _; rw [hsv']; rfl
  have hnq' : c'.L.queues.length = c.L.queues.length := by show c'.sv.nq = _; rw [hsv']; rfl
  have hst' : c'.A.stack = c.A.stack ++ [e] := by show c'.sv.stack = _; rw [hsv']; rfl
  have hr' : Reach P c0 c' := .step hr hs1
  have hr1 : Reach P c0 c1 := .step hr' hs2
  have hr02 : Reach P c0 c2 := reach_reach hr1 hr2
  have g01 : Grow c c' := trans_grow (.step hs1)
  have g12' : Grow c' c1 := trans_grow (.step hs2)
  have g12 : Grow c1 c2 := reach_grow hr2
  have g23 : Grow c2 c3 := trans_grow ht
  have g13 : Grow c1 c3 := g12.trans g23
  have g03 : Grow c c3 := (g01.trans g12').trans g13
  have hfq' : c'.L.forceQuit = false := by
    cases hb : c'.L.forceQuit with
    | false => rfl
    | true =>
      have h1 := reach_fq_event h0 hr' hb
      obtain ⟨n, hn⟩ := g12'.trans g13
      exact absurd (by rw [hn]; exact List.mem_append_right _ h1) hh.nf
  obtain ⟨c1', hs2', hsv1⟩ := step_newLoop (P := P) hc' hfq'
  rw [hs2] at hs2'; cases hs2'
  have hc1 : c1.code = .mainCheck q :: K := by
    show c1.sv.code = _; rw [hsv1]; show Instr.mainCheck c'.L.queues.length :: K = _; rw [hnq']
  have hst1 : c1.A.stack = c.A.stack ++ [e] := by show c1.sv.stack = _; rw [hsv1]; exact hst'
  have hq1 : q ∈ c1.L.levels := by
    show q ∈ c1.sv.levels; rw [hsv1]
    show q ∈ c'.L.levels ++ [c'.L.queues.length]
    rw [hnq']; exact List.mem_append_right _ (List.mem_cons_self ..)
  have hnq1 : q < c1.sv.nq := by
    rw [hsv1]; show q < c'.L.queues.length + 1; rw [hnq']; exact Nat.lt_succ_self _
  -- the situation at the call
  obtain ⟨_, hKm⟩ := call_exact h0 hr' hc' hfq' hs2 g13 (WFOpen.of_WFClose hh.wc) hh.wd hh.nf
  have hKL : markersA K = c.L.levels.reverse := by rw [hKm, hlev']
  have hqL : q ∉ c.L.levels := fun hm => Nat.lt_irrefl _ ((reach_basic h0 hr).llt q hm)
  have hcnt0 : modalCount c.A.stack + 1 = c.L.levels.length := by
    rcases quiescent_of_head_fix h0 hi hP hC hr (WFQuietDrain.mono g03 hh.qd) hc rfl with
      ho | ⟨_, _, h3⟩
    · have : overCode c.code = true := ho
      rw [hc] at this; cases K0 <;> cases this
    · exact h3
  -- the invariant along the execution
  have key : ∀ cx, Reach P c1 cx → (∃ X, cx.code = X ++ .mainCheck q :: K) →
      (∀ t1 t0, newTr c1 cx = t1 ++ Tr.closeLevel q :: t0 → ∀ w st, Tr.stackOp w st ∉ t1) → IntactHyps cx →
      Intact c.A.stack cx.A.stack ∧ (q ∈ cx.L.levels ∨ Tr.closeLevel q ∈ newTr c1 cx) := by
    intro cx hrx
    refine reach_induction_trans (P := P) (c1 := c1)
      (motive := fun cx => (∃ X, cx.code = X ++ .mainCheck q :: K) →
        (∀ t1 t0, newTr c1 cx = t1 ++ Tr.closeLevel q :: t0 → ∀ w st, Tr.stackOp w st ∉ t1) → IntactHyps cx →
        Intact c.A.stack cx.A.stack ∧ (q ∈ cx.L.levels ∨ Tr.closeLevel q ∈ newTr c1 cx)) ?_ ?_ hrx
    · intro _ _ _
      refine ⟨⟨[], [e], (by rw [hst1]; rfl), (by intro y hy; cases hy), ?_⟩, .inl hq1⟩
      intro a l hal; cases hal; rfl
    · intro ca cb hra htab ih hfr haft hhb
      have hra0 : Reach P c0 ca := reach_reach hr1 hra
      have gab : Grow ca cb := trans_grow htab
      have g1a : Grow c1 ca := reach_grow hra
      have hsplit := newTr_trans g1a gab
      obtain ⟨evs, hs, hev, _⟩ := trans_sstep htab
      have hha : IntactHyps ca := hhb.mono gab
      -- the frame is there before the transition
      have hfra : ∃ X, ca.code = X ++ .mainCheck q :: K := by
        rcases (reach_frameInv h0 hr1 (.inl ⟨[], hc1⟩) hnq1 hra).1 with h | h
        · exact h
        · exfalso
          have hqa := (reach_frameInv h0 hr1 (.inl ⟨[], hc1⟩) hnq1 hra).2
          have hgone := frame_gone_step hqa h hs
          obtain ⟨Y, hY⟩ := hfr
          exact hgone (by show q ∈ markersA cb.code; rw [hY]; exact mem_markersA_append_mainCheck Y q K)
      have hafta : ∀ t1 t0, newTr c1 ca = t1 ++ Tr.closeLevel q :: t0 → ∀ w st, Tr.stackOp w st ∉ t1 := by
        intro t1 t0 h1 w st hm
        exact haft (newTr ca cb ++ t1) t0 (by rw [hsplit, h1, List.append_assoc]) w st (List.mem_append_right _ hm)
      obtain ⟨hJ, hlv⟩ := ih hfra hafta hha
      obtain ⟨X, hX⟩ := hfra
      refine ⟨?_, ?_⟩
      · -- the stack
        cases stack_step hs with
        | same h1 _ => show Intact _ cb.sv.stack; rw [h1]; exact hJ
        | op hcode hwin hop hstack =>
          rename_i h rest w st
          -- the level is still open (no stack operation after it was closed)
          have hqa : q ∈ ca.L.levels := by
            rcases hlv with h1 | h1
            · exact h1
            · exfalso
              obtain ⟨t1, t0, h2⟩ := List.append_of_mem h1
              have hopm : Tr.stackOp w st ∈ newTr ca cb := (mem_newTr_iff hev rfl).2 hop
              exact haft (newTr ca cb ++ t1) t0 (by rw [hsplit, h2, List.append_assoc]) w st
                (List.mem_append_left _ hopm)
          have hcnt : modalCount ca.A.stack + 1 = ca.L.levels.length := by
            rcases quiescent_of_head_fix h0 hi hP hC hra0 hha.qd (show ca.code = h :: rest from hcode) hwin with
              ho | ⟨_, _, h3⟩
            · have : overCode ca.code = true := ho
              rw [hX, overCode_frame] at this; cases this
            · exact h3
          have hlen := levels_above_call h0 hra0 hKL hqL hX (WFOpen.of_WFClose hha.wc) hha.wd hha.nf hqa
          exact intact_op hJ hstack (by omega)
      · -- the level
        rcases hlv with h1 | h1
        · rcases level_step hs h1 with h2 | h2 | h2
          · exact .inl h2
          · right
            rw [hsplit]
            exact List.mem_append_left _ ((mem_newTr_iff hev rfl).2 h2)
          · exfalso
            have : Tr.forceQuit ∈ newTr ca cb := (mem_newTr_iff hev rfl).2 h2
            exact hhb.nf (mem_tr_of_mem_newTr gab this)
        · right
          rw [hsplit]; exact List.mem_append_right _ h1
  -- the return
  have hfi := (reach_frameInv h0 hr1 (.inl ⟨[], hc1⟩) hnq1 hr2).1
  obtain ⟨rest, hc2, hrl2, hc3, hl3, _⟩ := return_shape ht hret
  have hrest : rest = K := frame_at_return (reach_basic h0 hr02) hfi hc2
  rw [hrest] at hc2 hc3
  have hh2 : IntactHyps c2 := hh.mono g23
  obtain ⟨hJ, _⟩ := key c2 hr2 ⟨[], hc2⟩ hafter hh2
  -- levels and stack at the return
  have hlev2 : c2.L.levels = c.L.levels := by
    rcases reach_exact h0 hr02 (WFOpen.of_WFClose hh2.wc) hh2.wd hh2.nf with ho | ⟨_, hA | hB' | hB⟩
    · have : overCode c2.code = true := ho
      rw [hc2] at this; cases this
    · have : c2.sv.runLoop = true := hA.1
      rw [show c2.sv.runLoop = c2.L.runLoop from rfl, hrl2] at this; cases this
    · have : headIsRestore c2.sv.code = true := hB'.2.1
      rw [show c2.sv.code = _ from hc2] at this; cases this
    · obtain ⟨_, _, _, _, q', _, h6⟩ := hB
      rw [show c2.sv.code = _ from hc2] at h6
      have h7 : markersA K = c2.L.levels.reverse := (List.cons.inj h6).2
      exact List.reverse_inj.1 (h7.symm.trans hKL)
  have hcnt2 : modalCount c2.A.stack + 1 = c2.L.levels.length := by
    rcases quiescent_of_head_fix h0 hi hP hC hr02 hh2.qd hc2 rfl with ho | ⟨_, _, h3⟩
    · have : overCode c2.code = true := ho
      rw [hc2] at this; cases this
    · exact h3
  obtain ⟨ins, above, h1, h2, h3, h4⟩ := intact_count hJ
  have habove : above = [] := by
    cases above with
    | nil => rfl
    | cons a l =>
      exfalso
      have ha := h3 a l rfl
      have : modalCount (a :: l) = modalCount l + 1 := by rw [modalCount_cons, ha]; simp
      rw [hlev2] at hcnt2
      omega
  refine ⟨⟨ins, by rw [h1, habove, List.append_nil], h2⟩, hc2, hc3, ?_⟩
  obtain ⟨evs, hs, hev, _⟩ := trans_sstep ht
  obtain ⟨rest', _, _, _, h5⟩ := loopReturn_step hs ((mem_newTr_iff hev rfl).1 hret)
  show c3.sv.stack = c2.sv.stack
  rw [h5]

theorem noOpAfterClose_spec {q : Nat} {t1 t0 : List Tr} (h : noOpAfterCloseB q (t1 ++ Tr.closeLevel q :: t0) = true) :
    ∀ w st, Tr.stackOp w st ∉ t1 := by
  induction t1 with
  | nil => intro w st hm; cases hm
  | cons t t1 ih =>
    simp only [List.cons_append, noOpAfterCloseB, Bool.and_eq_true] at h
    intro w st hm
    rcases List.mem_cons.1 hm with h1 | h1
    · subst h1
      have h2 := h.1
      simp [Tr.isStackOp'] at h2
    · exact ih h.2 w st h1

/-- the property-level statement, without `NoErr` -/
theorem intact'_fix (h0 : Started c0) (hi : InitScreenOnly c0) (hP : ScreenOnly P) (hC : ClosedSilent P)
    (hr : Reach P c0 c) {scr : Nat} {args : Option Nat} {K0 : List Instr}
    (hc : c.code = .pushModal scr args :: K0) (hs1 : step P c = .ok c') (hs2 : step P c' = .ok c1)
    (hr2 : Reach P c1 c2) (ht : Trans P c2 c3) (hret : Tr.loopReturn c.L.queues.length ∈ newTr c2 c3)
    (hq : WFQuietDrain c3) (hw : WFClose c3) (hd : WFDrain c3) (hf : NoForceQuit c3)
    (hafter : NoStackOpAfterClose c.L.queues.length (newTr c1 c2)) :
    (∃ ins, c2.A.stack = ins ++ c.A.stack ∧ ∀ y ∈ ins, y.modal = false) ∧
    c2.code = .mainCheck c.L.queues.length :: .modalRet ⟨c.A.nextEid, scr, args, true⟩ :: K0 ∧
    c3.code = .restoreRun :: .modalRet ⟨c.A.nextEid, scr, args, true⟩ :: K0 ∧ c3.A.stack = c2.A.stack :=
  intact h0 hi hP hC hr hc hs1 hs2 hr2 ht hret ⟨hq, hw, hd, hf⟩
    (fun t1 t0 h => noOpAfterClose_spec (by rw [← h]; exact hafter))

/-- the property-level statement as it was proved before `close_screen` was fixed: with the (now
superfluous) hypothesis `NoErr` -/
theorem intact' (h0 : Started c0) (hi : InitScreenOnly c0) (hP : ScreenOnly P) (hC : ClosedSilent P)
    (hr : Reach P c0 c) {scr : Nat} {args : Option Nat} {K0 : List Instr}
    (hc : c.code = .pushModal scr args :: K0) (hs1 : step P c = .ok c') (hs2 : step P c' = .ok c1)
    (hr2 : Reach P c1 c2) (ht : Trans P c2 c3) (hret : Tr.loopReturn c.L.queues.length ∈ newTr c2 c3)
    (_hn : NoErr c3) (hq : WFQuietDrain c3) (hw : WFClose c3) (hd : WFDrain c3) (hf : NoForceQuit c3)
    (hafter : NoStackOpAfterClose c.L.queues.length (newTr c1 c2)) :
    (∃ ins, c2.A.stack = ins ++ c.A.stack ∧ ∀ y ∈ ins, y.modal = false) ∧
    c2.code = .mainCheck c.L.queues.length :: .modalRet ⟨c.A.nextEid, scr, args, true⟩ :: K0 ∧
    c3.code = .restoreRun :: .modalRet ⟨c.A.nextEid, scr, args, true⟩ :: K0 ∧ c3.A.stack = c2.A.stack :=
  intact'_fix h0 hi hP hC hr hc hs1 hs2 hr2 ht hret hq hw hd hf hafter

end Shape

end Simpleline
