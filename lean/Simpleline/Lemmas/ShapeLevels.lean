/-
  Basic invariants relating markers, levels and flags (no history hypothesis needed):
  markers strictly decreasing and below the number of queue objects, levels strictly increasing,
  force-quit empties the levels, the active queue is the top level.
-/
import Simpleline.Lemmas.ShapeMarkers

namespace Simpleline

structure Basic (v : SV) : Prop where
  chained : Chained v.code
  nq_pos : 0 < v.nq
  msorted : (markersA v.code).Pairwise (· > ·)
  mlt : ∀ q ∈ markersA v.code, q < v.nq
  lsorted : v.levels.Pairwise (· < ·)
  llt : ∀ q ∈ v.levels, q < v.nq
  fq : v.forceQuit = true → v.levels = [] ∧ v.runLoop = false
  active : ∀ a, v.levels.getLast? = some a → v.active = a

namespace Shape

/-- how a transition changes the markers: it removes some (normally none), or `execute_new_loop`
pushes the new level's marker -/
theorem sstepE_markers_sub {P : Prog} {v v' : SV} {evs : List Tr} (hs : SStepE P v evs v') :
    ((markersA v'.code).Sublist (markersA v.code) ∧ v'.nq = v.nq) ∨
    (markersA v'.code = v.nq :: markersA v.code ∧ v'.nq = v.nq + 1) := by
  have tailsub : ∀ {h : Instr} {rest : List Instr}, v.code = h :: rest →
      (markersA rest).Sublist (markersA v.code) := by
    intro h rest hc
    rw [hc]; exact markersA_sublist (List.sublist_cons_self _ _)
  cases hs with
  | stutter => exact .inl ⟨List.Sublist.refl _, rfl⟩
  | batch hc hb =>
    left
    refine ⟨?_, rfl⟩
    show (markersA (_ ++ _)).Sublist _
    rw [hc, markersA_append]
    rcases batch_markers hb with ⟨h1, _, _⟩ | ⟨q, rfl, rfl, _, _⟩
    · rw [h1, ← markersA_append]; exact List.Sublist.refl _
    · exact markersA_sublist (List.sublist_cons_self _ _)
  | halt hc _ => exact .inl ⟨tailsub hc, rfl⟩
  | raise hc _ => exact .inl ⟨(markersA_sublist (unwindTo_sublist _ _)).trans (tailsub hc), rfl⟩
  | kill _ => exact .inl ⟨List.nil_sublist _, rfl⟩
  | forceQuit hc => exact .inl ⟨tailsub hc, rfl⟩
  | schedule hc => exact .inl ⟨tailsub hc, rfl⟩
  | enqAct hc => exact .inl ⟨tailsub hc, rfl⟩
  | pushScr hc => exact .inl ⟨tailsub hc, rfl⟩
  | replace hc _ => exact .inl ⟨tailsub hc, rfl⟩
  | apprun hc => left; refine ⟨?_, rfl⟩; rw [hc]; exact List.Sublist.refl _
  | restore hc _ => exact .inl ⟨tailsub hc, rfl⟩
  | «open» hc _ =>
    right; refine ⟨?_, rfl⟩
    rw [hc]; rfl
  | pop hc _ _ => exact .inl ⟨tailsub hc, rfl⟩
  | popExit hc _ _ => exact .inl ⟨(markersA_sublist (unwindTo_sublist _ _)).trans (tailsub hc), rfl⟩
  | pushModal hc => have := tailsub hc; exact .inl ⟨this, rfl⟩
  | closeScreen hc _ => have := tailsub hc; exact .inl ⟨this, rfl⟩
  | discard hc _ =>
    left; refine ⟨?_, rfl⟩
    show (markersA ((if _ then _ else _) ++ _)).Sublist _
    have := tailsub hc
    split
    · exact this
    · exact this
  | identSkip hc _ _ =>
    exact .inl ⟨(markersA_sublist (List.dropWhile_sublist _)).trans (tailsub hc), rfl⟩

theorem basic_markers {P : Prog} {v v' : SV} {evs : List Tr} (hb : Basic v) (hs : SStepE P v evs v') :
    0 < v'.nq ∧ (markersA v'.code).Pairwise (· > ·) ∧ ∀ q ∈ markersA v'.code, q < v'.nq := by
  rcases sstepE_markers_sub hs with ⟨h1, h2⟩ | ⟨h1, h2⟩
  · rw [h2]
    exact ⟨hb.nq_pos, hb.msorted.sublist h1, fun q hq => hb.mlt q (h1.subset hq)⟩
  · rw [h1, h2]
    refine ⟨by omega, List.pairwise_cons.2 ⟨fun q hq => hb.mlt q hq, hb.msorted⟩, ?_⟩
    intro q hq
    rcases List.mem_cons.1 hq with rfl | hq
    · omega
    · have := hb.mlt q hq; omega

theorem getLast?_dropLast_lt {l : List Nat} (hs : l.Pairwise (· < ·)) {q : Nat} (hq : l.getLast? = some q) :
    ∀ x ∈ l.dropLast, x < q := by
  obtain ⟨l', rfl⟩ : ∃ l', l = l' ++ [q] := by
    rcases List.eq_nil_or_concat l with rfl | ⟨l', a, rfl⟩
    · cases hq
    · simp at hq; subst hq; exact ⟨l', by simp⟩
  intro x hx
  simp only [List.dropLast_concat] at hx
  rw [List.pairwise_append] at hs
  exact hs.2.2 x hx q (by simp)

theorem basic_step {P : Prog} {v v' : SV} {evs : List Tr} (hb : Basic v) (hs : SStepE P v evs v') : Basic v' := by
  have hch := sstep_chained hb.chained hs
  obtain ⟨h1, h2, h3⟩ := basic_markers hb hs
  cases hs with
  | stutter => exact hb
  | batch _ _ => exact ⟨hch, h1, h2, h3, hb.lsorted, hb.llt, hb.fq, hb.active⟩
  | halt _ _ => exact ⟨hch, h1, h2, h3, hb.lsorted, hb.llt, hb.fq, hb.active⟩
  | raise _ _ => exact ⟨hch, h1, h2, h3, hb.lsorted, hb.llt, hb.fq, hb.active⟩
  | kill _ => exact ⟨hch, h1, h2, h3, hb.lsorted, hb.llt, hb.fq, hb.active⟩
  | forceQuit _ =>
    exact ⟨hch, h1, h2, h3, List.Pairwise.nil, (by intro q hq; cases hq), fun _ => ⟨rfl, rfl⟩, (by intro a ha; cases ha)⟩
  | schedule _ => exact ⟨hch, h1, h2, h3, hb.lsorted, hb.llt, hb.fq, hb.active⟩
  | enqAct _ => exact ⟨hch, h1, h2, h3, hb.lsorted, hb.llt, hb.fq, hb.active⟩
  | pushScr _ => exact ⟨hch, h1, h2, h3, hb.lsorted, hb.llt, hb.fq, hb.active⟩
  | replace _ _ => exact ⟨hch, h1, h2, h3, hb.lsorted, hb.llt, hb.fq, hb.active⟩
  | apprun _ => exact ⟨hch, h1, h2, h3, hb.lsorted, hb.llt, (by intro h; cases h), hb.active⟩
  | restore _ hf => exact ⟨hch, h1, h2, h3, hb.lsorted, hb.llt, (by intro h; rw [hf] at h; cases h), hb.active⟩
  | «open» _ hf =>
    refine ⟨hch, h1, h2, h3, ?_, ?_, ?_, ?_⟩
    · show (v.levels ++ [v.nq]).Pairwise (· < ·)
      rw [List.pairwise_append]
      refine ⟨hb.lsorted, by simp, ?_⟩
      intro a ha b hb'
      simp only [List.mem_singleton] at hb'
      subst hb'
      exact hb.llt a ha
    · intro q hq
      show q < v.nq + 1
      have hq' : q ∈ v.levels ++ [v.nq] := hq
      rcases List.mem_append.1 hq' with hq | hq
      · have := hb.llt q hq; omega
      · simp only [List.mem_singleton] at hq; omega
    · intro h; rw [hf] at h; cases h
    · intro a ha
      have ha' : (v.levels ++ [v.nq]).getLast? = some a := ha
      simp at ha'
      exact ha'
  | pop _ hq ha =>
    refine ⟨hch, h1, h2, h3, hb.lsorted.sublist (List.dropLast_sublist _),
      fun q hq => hb.llt q (List.dropLast_subset _ hq), ?_, ?_⟩
    · intro hf
      have := (hb.fq hf).1
      rw [this] at hq; cases hq
    · intro a' ha'
      have : v.levels.dropLast.getLast? = some a' := ha'
      rw [ha] at this; cases this; rfl
  | popExit _ _ _ =>
    exact ⟨hch, h1, h2, h3, List.Pairwise.nil, (by intro q hq; cases hq),
      fun hf => ⟨rfl, (hb.fq hf).2⟩, (by intro a ha; cases ha)⟩
  | pushModal _ => exact ⟨hch, h1, h2, h3, hb.lsorted, hb.llt, hb.fq, hb.active⟩
  | closeScreen _ _ => exact ⟨hch, h1, h2, h3, hb.lsorted, hb.llt, hb.fq, hb.active⟩
  | discard _ _ => exact ⟨hch, h1, h2, h3, hb.lsorted, hb.llt, hb.fq, hb.active⟩
  | identSkip _ _ _ => exact ⟨hch, h1, h2, h3, hb.lsorted, hb.llt, hb.fq, hb.active⟩

theorem markersA_init (init : List Act) : markersA (init.map Instr.act ++ [.apprun]) = [0] := by
  rw [markersA_append, markersA_nil_of_nonLC]
  · rfl
  · intro i hi
    obtain ⟨a, _, rfl⟩ := List.mem_map.1 hi
    exact .inl rfl

theorem basic_init (init : List Act) (handlers : List (Cls × HRef × Option Nat)) (quitCb : Option Nat)
    (stdin : List Str) : Basic (initCfg init handlers quitCb stdin).sv := by
  refine ⟨chained_init init, (show 0 < 1 by omega), ?_, ?_, ?_, ?_, ?_, ?_⟩
  · show (markersA (init.map Instr.act ++ [.apprun])).Pairwise _
    rw [markersA_init]; simp
  · show ∀ q ∈ markersA (init.map Instr.act ++ [.apprun]), q < 1
    rw [markersA_init]; simp
  · show [0].Pairwise _; simp
  · show ∀ q ∈ [0], q < 1; simp
  · intro h; cases h
  · intro a ha; cases ha; rfl

theorem reach_basic {P : Prog} {c0 c : Cfg} (h0 : Started c0) (h : Reach P c0 c) : Basic c.sv := by
  obtain ⟨init, handlers, quitCb, stdin, rfl⟩ := h0
  exact reach_sv_induction Basic (basic_init init handlers quitCb stdin) (fun _ _ _ hb hs => basic_step hb hs) h

end Shape

end Simpleline
