/-
  `markersA` (the `_mainloop` activations on the call stack) under the abstract transitions.
-/
import Simpleline.Lemmas.ShapeExc

namespace Simpleline

/-- `mainCheck` or the pending `apprun` -/
def Instr.isMarkerA : Instr → Bool
  | .mainCheck _ | .apprun => true
  | _ => false

/-- events about levels and activations -/
def Tr.isLevelEv : Tr → Bool
  | .openLevel .. | .closeLevel _ | .loopReturn _ | .forceQuit | .exit | .kill => true
  | _ => false

namespace Shape

theorem markersA_cons_of_not {i : Instr} (l : List Instr) (h : i.isMarkerA = false) :
    markersA (i :: l) = markersA l := by
  cases i <;> first | rfl | (cases h; done)

theorem markersA_append (l r : List Instr) : markersA (l ++ r) = markersA l ++ markersA r := by
  induction l with
  | nil => rfl
  | cons a l ih =>
    by_cases ha : a.isMarkerA = true
    · cases a <;> first | (cases ha; done) | (simp [markersA, ih])
    · have ha' : a.isMarkerA = false := by simpa using ha
      rw [List.cons_append, markersA_cons_of_not _ ha', markersA_cons_of_not _ ha', ih]

theorem markersA_nil_of_nonLC {l : List Instr} (h : ∀ i ∈ l, i.isLC = false ∨ i = .catchHandler) : markersA l = [] := by
  induction l with
  | nil => rfl
  | cons a l ih =>
    have : a.isMarkerA = false := by
      rcases h a (by simp) with ha | rfl
      · cases a <;> first | rfl | (cases ha; done)
      · rfl
    rw [markersA_cons_of_not _ this]
    exact ih fun i hi => h i (by simp [hi])

theorem markersA_sublist {l1 l2 : List Instr} (h : l1.Sublist l2) : (markersA l1).Sublist (markersA l2) := by
  induction h with
  | slnil => exact .slnil
  | cons a _ ih =>
    by_cases ha : a.isMarkerA = true
    · cases a <;> first | (cases ha; done) | exact ih.cons _
    · rw [markersA_cons_of_not _ (by simpa using ha)]; exact ih
  | cons_cons a _ ih =>
    by_cases ha : a.isMarkerA = true
    · cases a <;> first | (cases ha; done) | exact ih.cons_cons _
    · rw [markersA_cons_of_not _ (by simpa using ha), markersA_cons_of_not _ (by simpa using ha)]; exact ih

theorem unwindTo_sublist (k : Kind) (l : List Instr) : ((unwindTo k l).getD []).Sublist l := by
  induction l with
  | nil => exact .slnil
  | cons a l ih =>
    cases k <;> cases a <;>
      first
        | exact ih.cons _
        | exact (List.Sublist.refl _).cons _
        | exact (((List.drop_sublist _ _).trans (List.dropWhile_sublist _))).cons _

theorem markers_le_markersA (l : List Instr) : (markers l).Sublist (markersA l) := by
  induction l with
  | nil => exact .slnil
  | cons a l ih =>
    cases a <;> first | exact ih | exact ih.cons_cons _ | exact ih.cons _

theorem markers_eq_markersA {l : List Instr} (h : ∀ i ∈ l, i ≠ Instr.apprun) : markers l = markersA l := by
  induction l with
  | nil => rfl
  | cons a l ih =>
    have ih' := ih fun i hi => h i (by simp [hi])
    cases a <;> first | exact ih' | exact absurd rfl (h _ (List.mem_cons_self ..)) | (simp [markers, markersA, ih'])

/-- a batch either leaves the markers alone or is the exit of the head `mainCheck` -/
theorem batch_markers {P : Prog} {v : SV} {h : Instr} {B : List Instr} {evs : List Tr} (hb : Batch P v h B evs) :
    (markersA B = markersA [h] ∧ headIsRestore B = false ∧ ∀ t ∈ evs, t.isLevelEv = false) ∨
    (∃ q, h = .mainCheck q ∧ B = [.restoreRun] ∧ evs = [.loopReturn q] ∧ v.runLoop = false) := by
  cases hb
  case mainExit q hr => exact .inr ⟨q, rfl, rfl, rfl, hr⟩
  case passive hp =>
    left
    refine ⟨?_, rfl, by simp⟩
    cases h <;> first | rfl | (cases hp; done)
  case callUser hid d s n =>
    left
    refine ⟨?_, ?_, by simp⟩
    · rw [markersA_append]
      have : markersA ((P.handlerScript hid n).map Instr.act) = [] :=
        markersA_nil_of_nonLC (by
          intro i hi
          obtain ⟨a, _, rfl⟩ := List.mem_map.1 hi
          exact .inl rfl)
      rw [this]; rfl
    · cases P.handlerScript hid n <;> rfl
  case callScr scr cb arg key n =>
    left
    refine ⟨?_, ?_, by simp⟩
    · rw [markersA_append, markersA_append]
      have h1 : markersA ((P.screenScript scr cb n).acts.map Instr.act) = [] :=
        markersA_nil_of_nonLC (by
          intro i hi
          obtain ⟨a, _, rfl⟩ := List.mem_map.1 hi
          exact .inl rfl)
      have h2 : markersA (if cb = Cb.show then [Instr.printWidget scr] else []) = [] := by split <;> rfl
      rw [h1, h2]; rfl
    · split
      · rfl
      · cases (P.screenScript scr cb n).acts <;> rfl
  case printWidget scr hB =>
    left
    refine ⟨?_, ?_, by simp⟩
    · rw [markersA_nil_of_nonLC]
      · rfl
      · intro i hi
        rcases hB i hi with ⟨ls, rfl⟩ | rfl <;> exact .inl rfl
    · cases B with
      | nil => rfl
      | cons b B =>
        rcases hB b (by simp) with ⟨ls, rfl⟩ | rfl <;> rfl
  all_goals
    left
    refine ⟨rfl, rfl, ?_⟩
    intro t ht
    simp only [List.mem_cons, List.mem_nil_iff, or_false] at ht <;>
      first | (cases ht; done) | (rcases ht with rfl | rfl <;> rfl) | (subst ht; rfl)

end Shape

end Simpleline
