/-
  Modal entries and levels: the counting invariant
  `modalCount stack + 1 + pendCloses code = levels.length + pendOpens code`
  for screen-level programs, as long as no exception escaped a callback.
-/
import Simpleline.Lemmas.ShapeResume

namespace Simpleline

/-- every action pending in the code is a screen-level one -/
def ScreenCode (code : List Instr) : Prop := ∀ a, Instr.act a ∈ code → a.screenLevel = true

def MatchInv (v : SV) : Prop :=
  overCode v.code = true ∨
  (v.forceQuit = false ∧ ScreenCode v.code ∧
    modalCount v.stack + 1 + pendCloses v.code = v.levels.length + pendOpens v.code)

namespace Shape

/-! ### counting -/

theorem pendOpens_append (l r : List Instr) : pendOpens (l ++ r) = pendOpens l + pendOpens r := by
  induction l with
  | nil => simp [pendOpens]
  | cons a l ih => cases a <;> simp [pendOpens, ih] <;> omega

theorem pendCloses_append (l r : List Instr) : pendCloses (l ++ r) = pendCloses l + pendCloses r := by
  induction l with
  | nil => simp [pendCloses]
  | cons a l ih => cases a <;> simp [pendCloses, ih] <;> omega

/-- instructions that are neither a pending open nor a pending close -/
def Instr.pendFree : Instr → Bool
  | .newLoop _ | .closeLoop | .popLevel | .closeScreen2 .. => false
  | _ => true

theorem pendOpens_cons_free {i : Instr} (l : List Instr) (h : Instr.pendFree i = true) :
    pendOpens (i :: l) = pendOpens l := by
  cases i <;> first | rfl | (cases h; done)

theorem pendCloses_cons_free {i : Instr} (l : List Instr) (h : Instr.pendFree i = true) :
    pendCloses (i :: l) = pendCloses l := by
  cases i <;> first | rfl | (cases h; done)

theorem pend_free_list {l : List Instr} (h : ∀ i ∈ l, Instr.pendFree i = true) : pendOpens l = 0 ∧ pendCloses l = 0 := by
  induction l with
  | nil => exact ⟨rfl, rfl⟩
  | cons a l ih =>
    have ha := h a (by simp)
    have := ih fun i hi => h i (by simp [hi])
    rw [pendOpens_cons_free _ ha, pendCloses_cons_free _ ha]
    exact this

theorem pendOpens_sublist {l1 l2 : List Instr} (h : l1.Sublist l2) : pendOpens l1 ≤ pendOpens l2 := by
  induction h with
  | slnil => exact Nat.le_refl _
  | cons a _ ih => cases a <;> simp only [pendOpens] <;> omega
  | cons_cons a _ ih => cases a <;> simp only [pendOpens] <;> omega

theorem pendCloses_sublist {l1 l2 : List Instr} (h : l1.Sublist l2) : pendCloses l1 ≤ pendCloses l2 := by
  induction h with
  | slnil => exact Nat.le_refl _
  | cons a _ ih => cases a <;> simp only [pendCloses] <;> omega
  | cons_cons a _ ih => cases a <;> simp only [pendCloses] <;> omega

theorem modalCount_cons (e : Entry) (st : List Entry) :
    modalCount (e :: st) = modalCount st + (if e.modal then 1 else 0) := by
  unfold modalCount
  rw [List.filter_cons]
  split <;> simp_all

theorem modalCount_append_singleton (st : List Entry) (e : Entry) :
    modalCount (st ++ [e]) = modalCount st + (if e.modal then 1 else 0) := by
  unfold modalCount
  rw [List.filter_append, List.length_append, List.filter_cons]
  split <;> simp_all

theorem modalCount_dropLast {st : List Entry} {e : Entry} (h : st.getLast? = some e) :
    modalCount st = modalCount st.dropLast + (if e.modal then 1 else 0) := by
  rcases List.eq_nil_or_concat st with rfl | ⟨l', x, rfl⟩
  · cases h
  · simp at h; subst h
    rw [List.concat_eq_append, List.dropLast_concat, modalCount_append_singleton]

theorem _root_.Simpleline.ScreenCode.tail {h : Instr} {rest : List Instr} (hs : ScreenCode (h :: rest)) : ScreenCode rest :=
  fun a ha => hs a (List.mem_cons_of_mem _ ha)

theorem _root_.Simpleline.ScreenCode.append {B rest : List Instr} (hB : ScreenCode B) (hr : ScreenCode rest) : ScreenCode (B ++ rest) := by
  intro a ha
  rcases List.mem_append.1 ha with h | h
  · exact hB a h
  · exact hr a h

theorem _root_.Simpleline.ScreenCode.sublist {l1 l2 : List Instr} (h : l1.Sublist l2) (hs : ScreenCode l2) : ScreenCode l1 :=
  fun a ha => hs a (h.subset ha)

theorem screenCode_acts {acts : List Act} (h : ∀ a ∈ acts, a.screenLevel = true) : ScreenCode (acts.map Instr.act) := by
  intro a ha
  obtain ⟨b, hb, hab⟩ := List.mem_map.1 ha
  cases hab
  exact h a hb

theorem pendFree_acts (acts : List Act) : ∀ i ∈ acts.map Instr.act, Instr.pendFree i = true := by
  intro i hi
  obtain ⟨b, _, rfl⟩ := List.mem_map.1 hi
  rfl

/-- a batch keeps the pending opens / closes of its head (in a screen-level program, not force-quit) -/
theorem batch_pend {P : Prog} {v : SV} {h : Instr} {B : List Instr} {evs : List Tr} (hb : Batch P v h B evs)
    (hP : ScreenOnly P) (hh : ∀ a, h = .act a → a.screenLevel = true) (hf : v.forceQuit = false) :
    pendOpens B = pendOpens [h] ∧ pendCloses B = pendCloses [h] ∧ ScreenCode B := by
  cases hb
  case actNewLoop cls prio sid => have := hh _ rfl; cases this
  case actCloseLoop => have := hh _ rfl; cases this
  case newLoopFQ s hfq => rw [hf] at hfq; cases hfq
  case close2Modal e frm hm =>
    refine ⟨rfl, ?_, by intro a ha; simp at ha⟩
    simp [pendCloses, hm]
  case close2Plain e frm hm =>
    refine ⟨rfl, ?_, by intro a ha; simp at ha⟩
    simp [pendCloses, hm]
  case passive hp =>
    refine ⟨?_, ?_, by intro a ha; cases ha⟩
    · cases h <;> first | rfl | (cases hp; done)
    · cases h <;> first | rfl | (cases hp; done)
  case callUser hid d s n =>
    have h1 := pend_free_list (pendFree_acts (P.handlerScript hid n))
    refine ⟨?_, ?_, ?_⟩
    · rw [pendOpens_append, h1.1]; rfl
    · rw [pendCloses_append, h1.2]; rfl
    · exact ScreenCode.append (screenCode_acts (hP.1 hid n)) (by intro a ha; simp at ha)
  case callScr scr cb arg key n =>
    have h1 := pend_free_list (pendFree_acts (P.screenScript scr cb n).acts)
    have h2 : pendOpens (if cb = Cb.show then [Instr.printWidget scr] else []) = 0 ∧
        pendCloses (if cb = Cb.show then [Instr.printWidget scr] else []) = 0 := by split <;> exact ⟨rfl, rfl⟩
    refine ⟨?_, ?_, ?_⟩
    · rw [pendOpens_append, pendOpens_append, h1.1, h2.1]; rfl
    · rw [pendCloses_append, pendCloses_append, h1.2, h2.2]; rfl
    · refine ScreenCode.append (ScreenCode.append ?_ (screenCode_acts (hP.2 scr cb n))) (by intro a ha; simp at ha)
      intro a ha; split at ha <;> simp at ha
  case printWidget scr hB =>
    have hfree : ∀ i ∈ B, Instr.pendFree i = true := by
      intro i hi
      rcases hB i hi with ⟨ls, rfl⟩ | rfl <;> rfl
    refine ⟨(pend_free_list hfree).1, (pend_free_list hfree).2, ?_⟩
    intro a ha
    rcases hB _ ha with ⟨ls, h⟩ | h <;> cases h
  all_goals exact ⟨rfl, rfl, by intro a ha; simp at ha⟩

theorem raised_clean {k : Kind} {v : SV} (hc : (raisedSV k v).clean = true) :
    k ≠ .err ∨ (raisedSV k v).code = [] := by
  cases k with
  | exit => exact .inl (by simp)
  | sysexit => exact .inl (by simp)
  | err =>
    right
    cases hu : unwindTo .err v.code with
    | none => simp [raisedSV, hu]
    | some post => simp [raisedSV, hu] at hc

/-- in `Chained` code, raising an exception without enqueueing an `ExceptionSignal` ends the run -/
theorem raise_clean_over {v : SV} {h : Instr} {rest : List Instr} {k : Kind} (hch : Chained v.code)
    (hc : v.code = h :: rest) (hr : h.canRaise k = true)
    (hcl : (raisedSV k { v with code := rest }).clean = true) :
    overCode (raisedSV k { v with code := rest }).code = true := by
  rcases raised_clean hcl with hk | h0
  · rcases raise_cases hch hc hr with ho | ⟨rfl, _⟩
    · exact ho
    · exact absurd rfl hk
  · rw [h0]; rfl

/-- the step lemma of the counting invariant, with the treatment of a raised exception left to the
caller (`hraise`) -/
theorem match_step_core {P : Prog} {v v' : SV} {evs : List Tr} (hP : ScreenOnly P) (hb : Basic v) (hi : MatchInv v)
    (hs : SStepE P v evs v')
    (hraise : ∀ {h : Instr} {rest : List Instr} {k : Kind}, v.code = h :: rest → h.canRaise k = true →
      v' = raisedSV k { v with code := rest } → MatchInv v') : MatchInv v' := by
  rcases hi with ho | ⟨hf, hsc, heq⟩
  · exact .inl (over_step ho hs)
  have hch := hb.chained
  cases hs with
  | stutter => exact .inr ⟨hf, hsc, heq⟩
  | batch hc hbt =>
    rename_i h rest B
    rw [hc] at hsc heq
    obtain ⟨h1, h2, h3⟩ := batch_pend hbt hP (fun a ha => hsc a (by rw [ha]; exact List.mem_cons_self ..)) hf
    refine .inr ⟨hf, h3.append hsc.tail, ?_⟩
    show modalCount v.stack + 1 + pendCloses (B ++ rest) = v.levels.length + pendOpens (B ++ rest)
    rw [pendCloses_append, pendOpens_append, h1, h2]
    have e1 : pendCloses (h :: rest) = pendCloses [h] + pendCloses rest := pendCloses_append [h] rest
    have e2 : pendOpens (h :: rest) = pendOpens [h] + pendOpens rest := pendOpens_append [h] rest
    omega
  | halt hc hh =>
    rename_i h rest
    rw [hc] at hsc heq
    have hfree : Instr.pendFree h = true := by cases h <;> first | rfl | (cases hh; done)
    refine .inr ⟨hf, hsc.tail, ?_⟩
    rw [pendCloses_cons_free _ hfree, pendOpens_cons_free _ hfree] at heq
    exact heq
  | raise hc hr => exact hraise hc hr rfl
  | kill _ => exact .inl rfl
  | forceQuit hc =>
    have := hsc _ (by rw [hc]; exact List.mem_cons_self ..)
    cases this
  | enqAct hc =>
    rw [hc] at hsc heq
    exact .inr ⟨hf, hsc.tail, heq⟩
  | schedule hc =>
    rw [hc] at hsc heq
    refine .inr ⟨hf, hsc.tail, ?_⟩
    show modalCount (_ :: v.stack) + 1 + _ = _
    rw [modalCount_cons]
    exact heq
  | pushScr hc =>
    rw [hc] at hsc heq
    refine .inr ⟨hf, hsc.tail, ?_⟩
    show modalCount (v.stack ++ [_]) + 1 + _ = _
    rw [modalCount_append_singleton]
    exact heq
  | replace hc hold =>
    rename_i rest scr args old
    rw [hc] at hsc heq
    refine .inr ⟨hf, hsc.tail, ?_⟩
    show modalCount (v.stack.dropLast ++ [_]) + 1 + _ = _
    rw [modalCount_append_singleton]
    rw [modalCount_dropLast hold] at heq
    exact heq
  | apprun hc =>
    rw [hc] at hsc heq
    refine .inr ⟨rfl, ?_, heq⟩
    intro a ha
    simp only [List.cons_append, List.nil_append, List.mem_cons, reduceCtorEq, false_or] at ha
    exact hsc a (List.mem_cons_of_mem _ ha)
  | restore hc hfq =>
    rw [hc] at hsc heq
    exact .inr ⟨hf, hsc.tail, heq⟩
  | «open» hc hfq =>
    rename_i rest s
    rw [hc] at hsc heq
    refine .inr ⟨hf, ?_, ?_⟩
    · intro a ha
      have ha' : Instr.act a ∈ Instr.mainCheck v.nq :: rest := ha
      simp only [List.mem_cons, reduceCtorEq, false_or] at ha'
      exact hsc a (List.mem_cons_of_mem _ ha')
    · show modalCount v.stack + 1 + pendCloses (.mainCheck v.nq :: rest) =
        (v.levels ++ [v.nq]).length + pendOpens (.mainCheck v.nq :: rest)
      simp only [pendCloses, pendOpens, List.length_append, List.length_singleton] at heq ⊢
      omega
  | pop hc hq ha =>
    rename_i rest q a
    rw [hc] at hsc heq
    refine .inr ⟨hf, hsc.tail, ?_⟩
    show modalCount v.stack + 1 + pendCloses rest = v.levels.dropLast.length + pendOpens rest
    have hlen : v.levels.length = v.levels.dropLast.length + 1 := by
      rcases List.eq_nil_or_concat v.levels with h | ⟨l', x, h⟩
      · rw [h] at hq; cases hq
      · rw [h]; simp
    simp only [pendCloses, pendOpens] at heq
    omega
  | popExit hc _ _ => rw [hc] at hch; exact .inl (unwind_exit_chained hch.2)
  | pushModal hc =>
    rename_i rest scr args s
    rw [hc] at hsc heq
    refine .inr ⟨hf, ?_, ?_⟩
    · intro a ha
      have ha' : Instr.act a ∈ Instr.newLoop s :: Instr.modalRet _ :: rest := ha
      simp only [List.mem_cons, reduceCtorEq, false_or] at ha'
      exact hsc a (List.mem_cons_of_mem _ ha')
    · show modalCount (v.stack ++ [_]) + 1 + pendCloses (.newLoop s :: .modalRet _ :: rest) =
        v.levels.length + pendOpens (.newLoop s :: .modalRet _ :: rest)
      rw [modalCount_append_singleton]
      simp only [pendCloses, pendOpens] at heq ⊢
      simp only [if_true]
      omega
  | closeScreen hc he =>
    rename_i rest frm e
    rw [hc] at hsc heq
    refine .inr ⟨hf, ?_, ?_⟩
    · intro a ha
      have ha' : Instr.act a ∈ Instr.callScr e.screen .closed none none :: Instr.closeScreen2 e frm :: rest := ha
      simp only [List.mem_cons, reduceCtorEq, false_or] at ha'
      exact hsc a (List.mem_cons_of_mem _ ha')
    · show modalCount v.stack.dropLast + 1 + pendCloses (.callScr e.screen .closed none none :: .closeScreen2 e frm :: rest) =
        v.levels.length + pendOpens (.callScr e.screen .closed none none :: .closeScreen2 e frm :: rest)
      rw [modalCount_dropLast he] at heq
      simp only [pendCloses, pendOpens] at heq ⊢
      omega
  | discard hc he =>
    rename_i rest top e
    rw [hc] at hsc heq
    rw [modalCount_dropLast he] at heq
    simp only [pendCloses, pendOpens] at heq
    refine .inr ⟨hf, ?_, ?_⟩
    · show ScreenCode ((if _ then _ else _) ++ _)
      refine ScreenCode.append ?_ hsc.tail
      intro a ha; split at ha <;> simp at ha
    · show modalCount v.stack.dropLast + 1 + pendCloses ((if e.modal then [.closeLoop, .afterSetupFail e] else []) ++ rest) =
        v.levels.length + pendOpens ((if e.modal then [.closeLoop, .afterSetupFail e] else []) ++ rest)
      split
      · rename_i hm
        simp only [hm, if_true] at heq
        simp only [List.cons_append, List.nil_append, pendCloses, pendOpens]
        omega
      · rename_i hm
        simp only [hm] at heq
        simp only [List.nil_append]
        simpa using heq
  | identSkip hc _ _ =>
    rw [hc] at hch hsc heq
    refine .inr ⟨hf, ?_, ?_⟩
    · show ScreenCode (List.dropWhile _ _)
      rw [identSkip_chained hch]; exact hsc.tail
    · show _ + pendCloses (List.dropWhile _ _) = _ + pendOpens (List.dropWhile _ _)
      rw [identSkip_chained hch]
      exact heq

/-- … when no exception escaped: a raise ends the run -/
theorem match_step {P : Prog} {v v' : SV} {evs : List Tr} (hP : ScreenOnly P) (hb : Basic v) (hi : MatchInv v)
    (hs : SStepE P v evs v') (hcl : v'.clean = true) : MatchInv v' :=
  match_step_core hP hb hi hs fun hc hr hv => by
    subst hv
    exact .inl (raise_clean_over hb.chained hc hr hcl)

theorem match_init {c0 : Cfg} (init : List Act) (handlers : List (Cls × HRef × Option Nat)) (quitCb : Option Nat)
    (stdin : List Str) (hc0 : c0 = initCfg init handlers quitCb stdin) (hi : InitScreenOnly c0) : MatchInv c0.sv := by
  subst hc0
  right
  refine ⟨rfl, hi, ?_⟩
  show modalCount [] + 1 + pendCloses (init.map Instr.act ++ [.apprun]) = [0].length + pendOpens (init.map Instr.act ++ [.apprun])
  have h1 := pend_free_list (pendFree_acts init)
  rw [pendCloses_append, pendOpens_append, h1.1, h1.2]
  rfl

theorem clean_mono {P : Prog} {v v' : SV} {evs : List Tr} (hs : SStepE P v evs v') (h : v'.clean = true) :
    v.clean = true := by
  cases hs with
  | raise _ _ =>
    simp only [raisedSV, Bool.and_eq_true] at h
    exact h.2
  | popExit _ _ _ =>
    simp only [raisedSV, Bool.and_eq_true] at h
    exact h.2
  | enqAct _ =>
    simp only [SV.noteExc, Bool.and_eq_true] at h
    exact h.2
  | «open» _ _ =>
    simp only [SV.noteExc, Bool.and_eq_true] at h
    exact h.2
  | stutter | batch _ _ | halt _ _ | kill _ | forceQuit _ | schedule _ | pushScr _ | replace _ _ | apprun _
  | restore _ _ | pop _ _ _ | pushModal _ | closeScreen _ _ | discard _ _ | identSkip _ _ _ => exact h

theorem reach_match {P : Prog} {c0 c : Cfg} (h0 : Started c0) (hi : InitScreenOnly c0) (hP : ScreenOnly P)
    (hr : Reach P c0 c) (hn : NoErr c) : MatchInv c.sv := by
  have hn' : c.sv.clean = true := hn
  clear hn
  induction hr with
  | init =>
    obtain ⟨init, handlers, quitCb, stdin, hc0⟩ := h0
    exact match_init init handlers quitCb stdin hc0 hi
  | step hr hst ih =>
    obtain ⟨evs, h1, _, _⟩ := trans_sstep (.step hst)
    exact match_step hP (reach_basic h0 hr) (ih (clean_mono h1 hn')) h1 hn'
  | deliver hr hd ih =>
    obtain ⟨evs, h1, _, _⟩ := trans_sstep (P := P) (.deliver hd)
    exact match_step hP (reach_basic h0 hr) (ih (clean_mono h1 hn')) h1 hn'
  | halt hr hst ih =>
    obtain ⟨evs, h1, _, _⟩ := trans_sstep (.halt hst)
    exact match_step hP (reach_basic h0 hr) (ih (clean_mono h1 hn')) h1 hn'

end Shape

end Simpleline
