/-
  Lemmas behind C03 "blocks / resumes": the frame of an `execute_new_loop` call along an execution.
-/
import Simpleline.Lemmas.Shape

namespace Simpleline

namespace Shape

variable {P : Prog} {c0 c c1 c2 c3 : Cfg}

/-- along any execution from a configuration in which activation `q`'s frame is on the call stack:
the frame is still there, or the activation is gone for good -/
theorem reach_frameInv {q : Nat} {K : List Instr} (h0 : Started c0) (hr1 : Reach P c0 c1)
    (hi : FrameInv q K c1.sv) (hq : q < c1.sv.nq) (hr2 : Reach P c1 c2) :
    FrameInv q K c2.sv ∧ q < c2.sv.nq := by
  induction hr2 with
  | init => exact ⟨hi, hq⟩
  | step hr hst ih =>
    obtain ⟨evs, hs, _, _⟩ := trans_sstep (.step hst)
    exact ⟨frameInv_step (reach_basic h0 (reach_reach hr1 hr)) ih.2 ih.1 hs, Nat.lt_of_lt_of_le ih.2 (nq_mono hs)⟩
  | deliver hr hd ih =>
    obtain ⟨evs, hs, _, _⟩ := trans_sstep (P := P) (.deliver hd)
    exact ⟨frameInv_step (reach_basic h0 (reach_reach hr1 hr)) ih.2 ih.1 hs, Nat.lt_of_lt_of_le ih.2 (nq_mono hs)⟩
  | halt hr hst ih =>
    obtain ⟨evs, hs, _, _⟩ := trans_sstep (.halt hst)
    exact ⟨frameInv_step (reach_basic h0 (reach_reach hr1 hr)) ih.2 ih.1 hs, Nat.lt_of_lt_of_le ih.2 (nq_mono hs)⟩

theorem reach_induction_trans {motive : Cfg → Prop} (h0 : motive c1)
    (hs : ∀ ca cb, Reach P c1 ca → Trans P ca cb → motive ca → motive cb) (hr : Reach P c1 c2) : motive c2 := by
  induction hr with
  | init => exact h0
  | step hr hst ih => exact hs _ _ hr (.step hst) ih
  | deliver hr hd ih => exact hs _ _ hr (.deliver hd) ih
  | halt hr hst ih => exact hs _ _ hr (.halt hst) ih

/-- … and the frame is still there as long as the activation has not returned and the run has not been
ended by `ExitMainLoop` or the uncaught-exception exit -/
theorem reach_frame {q : Nat} {K : List Instr} (h0 : Started c0) (hr1 : Reach P c0 c1)
    (hi : ∃ X, c1.code = X ++ .mainCheck q :: K) (hr2 : Reach P c1 c2)
    (hno : ∀ t ∈ newTr c1 c2, t ≠ .loopReturn q ∧ t ≠ .exit ∧ t ≠ .kill) :
    ∃ X, c2.code = X ++ .mainCheck q :: K := by
  revert hno
  refine reach_induction_trans (P := P) (c1 := c1)
    (motive := fun c2 => (∀ t ∈ newTr c1 c2, t ≠ .loopReturn q ∧ t ≠ .exit ∧ t ≠ .kill) →
      ∃ X, c2.code = X ++ .mainCheck q :: K) (fun _ => hi) ?_ hr2
  intro ca cb hr ht ih hno
  obtain ⟨evs, hs, hev, hg⟩ := trans_sstep ht
  have hsplit := newTr_trans (reach_grow hr) hg
  have ih' := ih fun t ht => hno t (by rw [hsplit]; exact List.mem_append_right _ ht)
  have hno' : ∀ t ∈ evs, t ≠ .loopReturn q ∧ t ≠ .exit ∧ t ≠ .kill := by
    intro t ht
    apply hno
    rw [hsplit]
    apply List.mem_append_left
    rw [← hev] at ht
    exact (mem_shapeTr.1 ht).1
  rcases frame_step (reach_chained h0 (reach_reach hr1 hr)) ih' hs with h | ⟨_, h | h⟩ | ⟨h, _⟩
  · exact h
  · exact absurd rfl (hno' _ h).2.1
  · exact absurd rfl (hno' _ h).2.2
  · exact absurd rfl (hno' (.loopReturn q) (by rw [h]; simp)).1

/-- when activation `q` returns, its frame is the head of the code -/
theorem frame_at_return {q : Nat} {K : List Instr} (hb : Basic c2.sv) (hi : FrameInv q K c2.sv)
    {rest : List Instr} (hc : c2.sv.code = .mainCheck q :: rest) : rest = K := by
  rcases hi with ⟨X, hX⟩ | hn
  · rw [hc] at hX
    cases X with
    | nil => simp only [List.nil_append, List.cons.injEq, true_and] at hX; exact hX
    | cons x X =>
      simp only [List.cons_append, List.cons.injEq] at hX
      obtain ⟨rfl, hX⟩ := hX
      exfalso
      have := hb.msorted
      rw [hc] at this
      have h1 := (List.pairwise_cons.1 this).1 q (by rw [hX]; exact mem_markersA_append_mainCheck X q K)
      omega
  · rw [hc] at hn
    exact absurd (List.mem_cons_self ..) hn

/-! ### the property-level statements -/

theorem return_shape (ht : Trans P c c2) {q : Nat} (hq : Tr.loopReturn q ∈ newTr c c2) :
    ∃ K, c.code = .mainCheck q :: K ∧ c.L.runLoop = false ∧ c2.code = .restoreRun :: K ∧
      c2.L.levels = c.L.levels ∧ c2.L.active = c.L.active := by
  obtain ⟨evs, hs, hev, _⟩ := trans_sstep ht
  obtain ⟨rest, h1, h2, _, h4⟩ := loopReturn_step hs ((mem_newTr_iff hev rfl).1 hq)
  refine ⟨rest, h1, h2, ?_, ?_, ?_⟩
  · show c2.sv.code = _; rw [h4]
  · show c2.sv.levels = _; rw [h4]; rfl
  · show c2.sv.active = _; rw [h4]; rfl

theorem blocks (h0 : Started c0) (hr : Reach P c0 c) (ht : Trans P c c2) (hw : WFOpen c) {q : Nat}
    (hq : Tr.loopReturn q ∈ newTr c c2) :
    q ∉ c.L.levels ∧ (Tr.closeLevel q ∈ c.tr ∨ Tr.forceQuit ∈ c.tr) := by
  obtain ⟨K, h1, h2, _⟩ := return_shape ht hq
  have hnot : q ∉ c.L.levels := by
    rcases reach_sub h0 hr hw with ho | hi
    · have : overCode (Instr.mainCheck q :: K) = true := by rw [← h1]; exact ho
      cases K <;> cases this
    · exact hi.2 h2 (by show headIsRestore c.code = false; rw [h1]; rfl) q
        (by show (markersA c.code).head? = some q; rw [h1]; rfl)
  refine ⟨hnot, ?_⟩
  rcases Shape_closed h0 hr q (by rw [h1]; exact List.mem_cons_self ..) with h | h
  · exact absurd h hnot
  · exact h

theorem resumes_frame (h0 : Started c0) (hr : Reach P c0 c) {s : Sig} {K : List Instr}
    (hc : c.code = .newLoop s :: K) (hfq : c.L.forceQuit = false) (hs : step P c = .ok c1)
    (hr2 : Reach P c1 c2)
    (hno : ∀ t ∈ newTr c1 c2, t ≠ .loopReturn c.L.queues.length ∧ t ≠ .exit ∧ t ≠ .kill) :
    c1.code = .mainCheck c.L.queues.length :: K ∧ ∃ X, c2.code = X ++ .mainCheck c.L.queues.length :: K := by
  obtain ⟨c1', hs', hsv⟩ := step_newLoop (P := P) hc hfq
  rw [hs] at hs'; cases hs'
  have h1 : c1.code = .mainCheck c.L.queues.length :: K := by
    show c1.sv.code = _; rw [hsv]; rfl
  exact ⟨h1, reach_frame h0 (.step hr hs) ⟨[], h1⟩ hr2 hno⟩

theorem resumes (h0 : Started c0) (hr : Reach P c0 c) {s : Sig} {K : List Instr}
    (hc : c.code = .newLoop s :: K) (hfq : c.L.forceQuit = false) (hs : step P c = .ok c1)
    (hr2 : Reach P c1 c2) (ht : Trans P c2 c3) (hret : Tr.loopReturn c.L.queues.length ∈ newTr c2 c3)
    (hw : WFClose c3) (hd : WFDrain c3) (hf : NoForceQuit c3) :
    c2.code = .mainCheck c.L.queues.length :: K ∧ c3.code = .restoreRun :: K ∧
    ∃ c4, step P c3 = .ok c4 ∧ c4.code = K ∧ c4.L.runLoop = true ∧ c4.L.levels = c.L.levels ∧
      c4.L.active = c.L.active := by
  obtain ⟨c1', hs', hsv⟩ := step_newLoop (P := P) hc hfq
  rw [hs] at hs'; cases hs'
  have hr1 : Reach P c0 c1 := .step hr hs
  have hr02 : Reach P c0 c2 := reach_reach hr1 hr2
  have h1 : c1.code = .mainCheck c.L.queues.length :: K := by
    show c1.sv.code = _; rw [hsv]; rfl
  -- the frame at the moment of the return
  have hfi := (reach_frameInv h0 hr1 (.inl ⟨[], h1⟩) (by rw [hsv]; show c.sv.nq < c.sv.nq + 1; omega) hr2).1
  obtain ⟨rest, hc2, hrl2, hc3, hl3, ha3⟩ := return_shape ht hret
  have hK : rest = K := frame_at_return (reach_basic h0 hr02) hfi hc2
  rw [hK] at hc2 hc3
  clear hK
  -- histories
  have g01 : Grow c c1 := trans_grow (.step hs)
  have g12 : Grow c1 c2 := reach_grow hr2
  have g23 : Grow c2 c3 := trans_grow ht
  have g03 : Grow c c3 := (g01.trans g12).trans g23
  have hwo := WFOpen.of_WFClose hw
  -- `_run_loop` was true when `execute_new_loop` was called
  have hrl : c.L.runLoop = true := by
    have hmem : Tr.openLevel c.sv.nq c.sv.runLoop ∈ c1.tr := by
      have : Tr.openLevel c.sv.nq c.sv.runLoop ∈ c1.sv.ev := by rw [hsv]; exact List.mem_cons_self ..
      exact (mem_shapeTr.1 this).1
    have hmem3 : Tr.openLevel c.sv.nq c.sv.runLoop ∈ c3.tr := by
      obtain ⟨n, hn⟩ := g12.trans g23
      rw [hn]; exact List.mem_append_right _ hmem
    have := (List.all_eq_true.1 hwo) _ hmem3
    cases hb : c.L.runLoop with
    | true => rfl
    | false =>
      have hb' : c.sv.runLoop = false := hb
      rw [hb'] at this; cases this
  -- the exact correspondence before the call …
  have hlc : markersA K = c.L.levels.reverse := by
    rcases reach_exact h0 hr (WFOpen.mono g03 hwo) (WFDrain.mono g03 hd) (NoForceQuit.mono g03 hf) with ho | ⟨_, hA | hB' | hB⟩
    · have : overCode (Instr.newLoop s :: K) = true := by rw [← hc]; exact ho
      cases K <;> cases this
    · have := hA.2
      rw [show c.sv.code = _ from hc] at this
      exact this
    · have : c.sv.runLoop = false := hB'.1
      rw [show c.sv.runLoop = c.L.runLoop from rfl, hrl] at this; cases this
    · have : c.sv.runLoop = false := hB.1
      rw [show c.sv.runLoop = c.L.runLoop from rfl, hrl] at this; cases this
  -- … and at the return
  have hx2 := reach_exact h0 hr02 (WFOpen.mono g23 hwo) (WFDrain.mono g23 hd) (NoForceQuit.mono g23 hf)
  have h2 : c2.L.forceQuit = false ∧ c2.L.levels ≠ [] ∧ markersA K = c2.L.levels.reverse := by
    rcases hx2 with ho | ⟨hfq2, hA | hB' | hB⟩
    · have : overCode (Instr.mainCheck c.L.queues.length :: K) = true := by rw [← hc2]; exact ho
      cases K <;> cases this
    · have : c2.sv.runLoop = true := hA.1
      rw [show c2.sv.runLoop = c2.L.runLoop from rfl, hrl2] at this; cases this
    · have : headIsRestore c2.sv.code = true := hB'.2.1
      rw [show c2.sv.code = _ from hc2] at this; cases this
    · obtain ⟨_, _, _, h4, q', _, h6⟩ := hB
      rw [show c2.sv.code = _ from hc2] at h6
      exact ⟨hfq2, h4, (List.cons.inj h6).2⟩
  obtain ⟨hfq2, hne2, hm2⟩ := h2
  have hlev : c2.L.levels = c.L.levels := by
    have := hm2.symm.trans hlc
    exact List.reverse_inj.1 this
  have hfq3 : c3.L.forceQuit = false := by
    obtain ⟨evs, hs3, hev, _⟩ := trans_sstep ht
    obtain ⟨rest', _, _, _, h4⟩ := loopReturn_step hs3 ((mem_newTr_iff hev rfl).1 hret)
    show c3.sv.forceQuit = false
    rw [h4]; exact hfq2
  refine ⟨hc2, hc3, _, step_restoreRun hc3 hfq3, rfl, rfl, ?_, ?_⟩
  · show c3.L.levels = c.L.levels
    rw [hl3, hlev]
  · show c3.L.active = c.L.active
    rw [ha3]
    obtain ⟨a, ha⟩ : ∃ a, c2.L.levels.getLast? = some a := by
      cases h : c2.L.levels.getLast? with
      | none => exact absurd (List.getLast?_eq_none_iff.1 h) hne2
      | some a => exact ⟨a, rfl⟩
    have e2 : c2.L.active = a := (reach_basic h0 hr02).active a ha
    have e0 : c.L.active = a := (reach_basic h0 hr).active a (by show c.L.levels.getLast? = _; rw [← hlev]; exact ha)
    rw [e2, e0]

end Shape

end Simpleline
