/-
  Concrete executions for kernel-checked examples and counterexamples: `runOk P n c0` is the
  configuration after exactly `n` machine steps (none of which halts).
-/
import Simpleline.Lemmas.ShapeClosed

namespace Simpleline

/-- the configuration after exactly `n` successful steps -/
def runOk (P : Prog) : Nat → Cfg → Option Cfg
  | 0, c => some c
  | n + 1, c =>
    match runOk P n c with
    | some c' =>
      match step P c' with
      | .ok c'' => some c''
      | .error _ => none
    | none => none

namespace Shape

theorem reach_reach {P : Prog} {c0 c1 c2 : Cfg} (h1 : Reach P c0 c1) (h2 : Reach P c1 c2) : Reach P c0 c2 := by
  induction h2 with
  | init => exact h1
  | step _ hs ih => exact .step ih hs
  | deliver _ hd ih => exact .deliver ih hd
  | halt _ hs ih => exact .halt ih hs

theorem reach_runOk {P : Prog} {c0 c : Cfg} {n : Nat} (h : runOk P n c0 = some c) : Reach P c0 c := by
  induction n generalizing c with
  | zero => cases h; exact .init
  | succ n ih =>
    unfold runOk at h
    split at h
    · rename_i c' hc'
      split at h
      · rename_i c'' hs
        cases h
        exact .step (ih hc') hs
      · cases h
    · cases h

theorem trans_runOk {P : Prog} {c0 c c' : Cfg} {n : Nat} (h : runOk P n c0 = some c) (h' : runOk P (n + 1) c0 = some c') :
    Trans P c c' := by
  unfold runOk at h'
  rw [h] at h'
  dsimp only at h'
  split at h'
  · rename_i c'' hs
    cases h'
    exact .step hs
  · cases h'

/-- boolean test on the `n`-th configuration of a run -/
def testAt (P : Prog) (n : Nat) (c0 : Cfg) (f : Cfg → Bool) : Bool :=
  match runOk P n c0 with
  | some c => f c
  | none => false

theorem testAt_spec {P : Prog} {n : Nat} {c0 : Cfg} {f : Cfg → Bool} (h : testAt P n c0 f = true) :
    ∃ c, runOk P n c0 = some c ∧ Reach P c0 c ∧ f c = true := by
  unfold testAt at h
  split at h
  · rename_i c hc
    exact ⟨c, hc, reach_runOk hc, h⟩
  · cases h

/-- boolean test on the `n`-th transition of a run -/
def testTrans (P : Prog) (n : Nat) (c0 : Cfg) (f : Cfg → Cfg → Bool) : Bool :=
  match runOk P n c0, runOk P (n + 1) c0 with
  | some c, some c' => f c c'
  | _, _ => false

theorem testTrans_spec {P : Prog} {n : Nat} {c0 : Cfg} {f : Cfg → Cfg → Bool} (h : testTrans P n c0 f = true) :
    ∃ c c', Reach P c0 c ∧ Trans P c c' ∧ f c c' = true := by
  unfold testTrans at h
  split at h
  · rename_i c c' hc hc'
    exact ⟨c, c', reach_runOk hc, trans_runOk hc hc', h⟩
  · cases h

theorem step_runOk {P : Prog} {c0 c c' : Cfg} {n : Nat} (h : runOk P n c0 = some c) (h' : runOk P (n + 1) c0 = some c') :
    step P c = .ok c' := by
  unfold runOk at h'
  rw [h] at h'
  dsimp only at h'
  split at h'
  · rename_i c'' hs
    cases h'
    exact hs
  · cases h'

theorem reach_runOk_from {P : Prog} {c0 c1 c2 : Cfg} {n : Nat} (k : Nat) (h1 : runOk P n c0 = some c1)
    (h2 : runOk P (n + k) c0 = some c2) : Reach P c1 c2 := by
  induction k generalizing c2 with
  | zero => rw [Nat.add_zero, h1] at h2; cases h2; exact .init
  | succ k ih =>
    rw [← Nat.add_assoc] at h2
    unfold runOk at h2
    split at h2
    · rename_i c' hc'
      split at h2
      · rename_i c'' hs
        cases h2
        exact .step (ih hc') hs
      · cases h2
    · cases h2

def headIsNewLoop : List Instr → Bool
  | .newLoop _ :: _ => true
  | _ => false

theorem headIsNewLoop_spec {l : List Instr} (h : headIsNewLoop l = true) : ∃ s K, l = .newLoop s :: K := by
  cases l with
  | nil => cases h
  | cons a l => cases a <;> first | (cases h; done) | exact ⟨_, _, rfl⟩

/-- boolean test on an `execute_new_loop` call (step `n`) and a later transition (step `n + 1 + k`) -/
def testCall (P : Prog) (n k : Nat) (c0 : Cfg) (f : Cfg → Cfg → Cfg → Cfg → Bool) : Bool :=
  match runOk P n c0, runOk P (n + 1) c0, runOk P (n + 1 + k) c0, runOk P (n + 1 + k + 1) c0 with
  | some c, some c1, some c2, some c3 => headIsNewLoop c.code && f c c1 c2 c3
  | _, _, _, _ => false

theorem testCall_spec {P : Prog} {n k : Nat} {c0 : Cfg} {f : Cfg → Cfg → Cfg → Cfg → Bool}
    (h : testCall P n k c0 f = true) :
    ∃ c c1 c2 c3 s K, Reach P c0 c ∧ c.code = .newLoop s :: K ∧ step P c = .ok c1 ∧ Reach P c1 c2 ∧ Trans P c2 c3 ∧
      f c c1 c2 c3 = true := by
  unfold testCall at h
  split at h
  · rename_i c c1 c2 c3 hc hc1 hc2 hc3
    rw [Bool.and_eq_true] at h
    obtain ⟨s, K, hK⟩ := headIsNewLoop_spec h.1
    exact ⟨c, c1, c2, c3, s, K, reach_runOk hc, hK, step_runOk hc hc1, reach_runOk_from k hc1 hc2,
      trans_runOk hc2 hc3, h.2⟩
  · cases h

/-- boolean test on a transition of the run that continues after the reader thread delivers a line
right after step `n` -/
def testDeliver (P : Prog) (n k : Nat) (c0 : Cfg) (f : Cfg → Cfg → Bool) : Bool :=
  match runOk P n c0 with
  | some c =>
    match c.deliver with
    | some d => testTrans P k d f
    | none => false
  | none => false

theorem testDeliver_spec {P : Prog} {n k : Nat} {c0 : Cfg} {f : Cfg → Cfg → Bool} (h : testDeliver P n k c0 f = true) :
    ∃ c c', Reach P c0 c ∧ Trans P c c' ∧ f c c' = true := by
  unfold testDeliver at h
  split at h
  · rename_i cn hcn
    split at h
    · rename_i d hd
      obtain ⟨c, c', hr, ht, hf⟩ := testTrans_spec h
      exact ⟨c, c', reach_reach (.deliver (reach_runOk hcn) hd) hr, ht, hf⟩
    · cases h
  · cases h

def headIsPushModal : List Instr → Bool
  | .pushModal .. :: _ => true
  | _ => false

theorem headIsPushModal_spec {l : List Instr} (h : headIsPushModal l = true) :
    ∃ scr args K, l = .pushModal scr args :: K := by
  cases l with
  | nil => cases h
  | cons a l => cases a <;> first | (cases h; done) | exact ⟨_, _, _, rfl⟩

/-- boolean test on a `push_screen_modal` call (steps `n`, `n + 1`) and a later transition -/
def testModal (P : Prog) (n k : Nat) (c0 : Cfg) (f : Cfg → Cfg → Cfg → Cfg → Bool) : Bool :=
  match runOk P n c0, runOk P (n + 1) c0, runOk P (n + 1 + 1) c0, runOk P (n + 1 + 1 + k) c0,
      runOk P (n + 1 + 1 + k + 1) c0 with
  | some c, some _, some c1, some c2, some c3 => headIsPushModal c.code && f c c1 c2 c3
  | _, _, _, _, _ => false

theorem testModal_spec {P : Prog} {n k : Nat} {c0 : Cfg} {f : Cfg → Cfg → Cfg → Cfg → Bool}
    (h : testModal P n k c0 f = true) :
    ∃ c c' c1 c2 c3 scr args K, Reach P c0 c ∧ c.code = .pushModal scr args :: K ∧ step P c = .ok c' ∧
      step P c' = .ok c1 ∧ Reach P c1 c2 ∧ Trans P c2 c3 ∧ f c c1 c2 c3 = true := by
  unfold testModal at h
  split at h
  · rename_i c c' c1 c2 c3 hc hc' hc1 hc2 hc3
    rw [Bool.and_eq_true] at h
    obtain ⟨scr, args, K, hK⟩ := headIsPushModal_spec h.1
    exact ⟨c, c', c1, c2, c3, scr, args, K, reach_runOk hc, hK, step_runOk hc hc', step_runOk hc' hc1,
      reach_runOk_from k hc1 hc2, trans_runOk hc2 hc3, h.2⟩
  · cases h

end Shape

end Simpleline
