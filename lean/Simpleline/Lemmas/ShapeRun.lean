/-
  Concrete executions for kernel-checked examples and counterexamples: `runOk P n c0` is the
  configuration after exactly `n` machine steps (none of which halts).
-/
import Simpleline.Lemmas.ShapeClosed

namespace Simpleline

/-- the configuration after exactly `n` successful steps -/
def runOk (P : Prog) : Nat → Cfg → Option Cfg
  | 0, c => some c
  | n + 1, c =>
    match runOk P n c with
    | some c' =>
      match step P c' with
      | .ok c'' => some c''
      | .error _ => none
    | none => none

namespace Shape

theorem reach_runOk {P : Prog} {c0 c : Cfg} {n : Nat} (h : runOk P n c0 = some c) : Reach P c0 c := by
  induction n generalizing c with
  | zero => cases h; exact .init
  | succ n ih =>
    unfold runOk at h
    split at h
    · rename_i c' hc'
      split at h
      · rename_i c'' hs
        cases h
        exact .step (ih hc') hs
      · cases h
    · cases h

theorem trans_runOk {P : Prog} {c0 c c' : Cfg} {n : Nat} (h : runOk P n c0 = some c) (h' : runOk P (n + 1) c0 = some c') :
    Trans P c c' := by
  unfold runOk at h'
  rw [h] at h'
  dsimp only at h'
  split at h'
  · rename_i c'' hs
    cases h'
    exact .step hs
  · cases h'

/-- boolean test on the `n`-th configuration of a run -/
def testAt (P : Prog) (n : Nat) (c0 : Cfg) (f : Cfg → Bool) : Bool :=
  match runOk P n c0 with
  | some c => f c
  | none => false

theorem testAt_spec {P : Prog} {n : Nat} {c0 : Cfg} {f : Cfg → Bool} (h : testAt P n c0 f = true) :
    ∃ c, runOk P n c0 = some c ∧ Reach P c0 c ∧ f c = true := by
  unfold testAt at h
  split at h
  · rename_i c hc
    exact ⟨c, hc, reach_runOk hc, h⟩
  · cases h

/-- boolean test on the `n`-th transition of a run -/
def testTrans (P : Prog) (n : Nat) (c0 : Cfg) (f : Cfg → Cfg → Bool) : Bool :=
  match runOk P n c0, runOk P (n + 1) c0 with
  | some c, some c' => f c c'
  | _, _ => false

theorem testTrans_spec {P : Prog} {n : Nat} {c0 : Cfg} {f : Cfg → Cfg → Bool} (h : testTrans P n c0 f = true) :
    ∃ c c', Reach P c0 c ∧ Trans P c c' ∧ f c c' = true := by
  unfold testTrans at h
  split at h
  · rename_i c c' hc hc'
    exact ⟨c, c', reach_runOk hc, trans_runOk hc hc', h⟩
  · cases h

end Shape

end Simpleline
