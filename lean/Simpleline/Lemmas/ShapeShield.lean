/-
  Lemmas behind C05 "shield": when a screen is drawn or refreshed the modal structure is intact
  (nothing pending, every open nested level has its modal entry on the stack), and the drawn entry is
  the top of the stack.
-/
import Simpleline.Lemmas.ShapeWindow

namespace Simpleline

/-- `drawScreen top` at the head: `top` is (by identity) the top of the stack -/
def DrawInv (v : SV) : Prop :=
  ∀ top rest, v.code = .drawScreen top :: rest → ∃ l, v.stack.getLast? = some l ∧ l.eid = top.eid

namespace Shape

theorem win_init {c0 : Cfg} (init : List Act) (handlers : List (Cls × HRef × Option Nat)) (quitCb : Option Nat)
    (stdin : List Str) (hc0 : c0 = initCfg init handlers quitCb stdin) (hi : InitScreenOnly c0) : WinInv c0.sv := by
  subst hc0
  right
  refine ⟨rfl, hi, .quiet ?_⟩
  show Quiet (init.map Instr.act ++ [.apprun])
  have h1 := pend_free_list (pendFree_acts init)
  exact quiet_batch h1.1 h1.2 ⟨rfl, rfl⟩

theorem reach_win {P : Prog} {c0 c : Cfg} (h0 : Started c0) (hi : InitScreenOnly c0) (hP : ScreenOnly P)
    (hC : ClosedSilent P) (hr : Reach P c0 c) (hn : NoErr c) (hq : WFQuietDrain c) : WinInv c.sv := by
  have hn' : c.sv.clean = true := hn
  have hq' : drainQuietScan false c.sv.ev = true := by
    show drainQuietScan false (shapeTr c.tr) = true
    rw [drainQuietScan_shapeTr]; exact hq
  clear hn hq
  induction hr with
  | init =>
    obtain ⟨init, handlers, quitCb, stdin, hc0⟩ := h0
    exact win_init init handlers quitCb stdin hc0 hi
  | step hr hst ih =>
    obtain ⟨evs, h1, _, _⟩ := trans_sstep (.step hst)
    have hq'' := hq'
    rw [SStepE.ev_eq h1] at hq''
    exact win_step hP hC (reach_basic h0 hr) (ih (clean_mono h1 hn') (drainQuietScan_append _ hq'')) h1 hn' hq'
  | deliver hr hd ih =>
    obtain ⟨evs, h1, _, _⟩ := trans_sstep (P := P) (.deliver hd)
    have hq'' := hq'
    rw [SStepE.ev_eq h1] at hq''
    exact win_step hP hC (reach_basic h0 hr) (ih (clean_mono h1 hn') (drainQuietScan_append _ hq'')) h1 hn' hq'
  | halt hr hst ih =>
    obtain ⟨evs, h1, _, _⟩ := trans_sstep (.halt hst)
    have hq'' := hq'
    rw [SStepE.ev_eq h1] at hq''
    exact win_step hP hC (reach_basic h0 hr) (ih (clean_mono h1 hn') (drainQuietScan_append _ hq'')) h1 hn' hq'

/-- only `drawScreen x` at the head logs `.show x` -/
theorem show_step {P : Prog} {v v' : SV} {evs : List Tr} {x : Entry} (hs : SStepE P v evs v')
    (h : Tr.show x ∈ evs) : ∃ rest, v.code = .drawScreen x :: rest := by
  cases hs with
  | batch hc hb =>
    cases hb <;> simp at h
    subst h
    exact ⟨_, hc⟩
  | raise _ _ => exact absurd h (not_mem_exitEv_of_ne_exit (by simp))
  | stutter | halt _ _ | apprun _ | restore _ _ | identSkip _ _ _ | enqAct _ => cases h
  | kill _ | forceQuit _ | schedule _ | pushScr _ | replace _ _ | «open» _ _ | pop _ _ _ | popExit _ _ _
  | pushModal _ | closeScreen _ _ | discard _ _ => simp at h

/-- only `afterSetup2 x` at the head logs `.refresh x` -/
theorem refresh_step {P : Prog} {v v' : SV} {evs : List Tr} {x : Entry} (hs : SStepE P v evs v')
    (h : Tr.refresh x ∈ evs) : ∃ rest, v.code = .afterSetup2 x :: rest := by
  cases hs with
  | batch hc hb =>
    cases hb <;> simp at h
    subst h
    exact ⟨_, hc⟩
  | raise _ _ => exact absurd h (not_mem_exitEv_of_ne_exit (by simp))
  | stutter | halt _ _ | apprun _ | restore _ _ | identSkip _ _ _ | enqAct _ => cases h
  | kill _ | forceQuit _ | schedule _ | pushScr _ | replace _ _ | «open» _ _ | pop _ _ _ | popExit _ _ _
  | pushModal _ | closeScreen _ _ | discard _ _ => simp at h

theorem not_allows_headOnly (h x : Instr) (hx : x.isHeadOnly = true) : h.fclass.allows x = false := by
  cases x <;> first | (cases hx; done) | (cases h <;> rfl)

theorem headOnly_not_second {h x : Instr} {rest l : List Instr} (hc : Chained (h :: rest)) (hx : x.isHeadOnly = true) :
    rest ≠ x :: l := by
  intro hr
  subst hr
  have : h.fclass.allows x = true := hc.1
  rw [not_allows_headOnly _ _ hx] at this; cases this

theorem headOnly_not_inner {l r : List Instr} {x : Instr} (hc : Chained (l ++ x :: r)) (hl : l ≠ [])
    (hx : x.isHeadOnly = true) : False := by
  obtain ⟨init, y, hy⟩ : ∃ init y, l = init ++ [y] := by
    rcases List.eq_nil_or_concat l with h0 | ⟨init, y, h0⟩
    · exact absurd h0 hl
    · exact ⟨init, y, by simpa using h0⟩
  rw [hy, List.append_assoc] at hc
  have : y.fclass.allows x = true := (hc.of_append).1
  rw [not_allows_headOnly _ _ hx] at this; cases this

theorem batch_head_draw {P : Prog} {v : SV} {h : Instr} {B B' : List Instr} {evs : List Tr} {top : Entry}
    (hb : Batch P v h B evs) (hB : B = .drawScreen top :: B') :
    ∃ l, v.stack.getLast? = some l ∧ l.eid = top.eid := by
  cases hb
  case identOk top' l hl he =>
    simp only [List.cons.injEq, Instr.drawScreen.injEq] at hB
    obtain ⟨rfl, _⟩ := hB
    exact ⟨l, hl, he⟩
  case callUser hid d s n =>
    cases hacts : P.handlerScript hid n <;> rw [hacts] at hB <;> cases hB
  case callScr scr cb arg key n =>
    split at hB
    · cases hB
    · cases hacts : (P.screenScript scr cb n).acts <;> rw [hacts] at hB <;> cases hB
  case printWidget scr hBs =>
    rcases hBs (.drawScreen top) (by rw [hB]; exact List.mem_cons_self ..) with ⟨ls, h1⟩ | h1 <;> cases h1
  all_goals cases hB

theorem draw_step {P : Prog} {v v' : SV} {evs : List Tr} (hb : Basic v) (hi : DrawInv v) (hs : SStepE P v evs v') :
    DrawInv v' := by
  have hch := hb.chained
  intro top r hp
  cases hs with
  | stutter => exact hi top r hp
  | batch hc hbt =>
    rename_i h rest B
    rw [hc] at hch
    have hp' : B ++ rest = Instr.drawScreen top :: r := hp
    cases B with
    | nil => exact absurd hp' (headOnly_not_second hch rfl)
    | cons b B =>
      simp only [List.cons_append, List.cons.injEq] at hp'
      obtain ⟨rfl, _⟩ := hp'
      exact batch_head_draw (v := v) hbt rfl
  | halt hc _ => rw [hc] at hch; exact absurd hp (headOnly_not_second hch rfl)
  | raise hc hr =>
    rename_i h rest k
    rcases raise_cases hch hc hr with ho | ⟨rfl, hn, pre, post, h1, h2, h3⟩
    · rw [hp] at ho; cases r <;> cases ho
    · rw [hc, h1] at hch
      rw [h2] at hp
      subst hp
      exact (headOnly_not_inner (l := h :: pre) hch (by simp) rfl).elim
  | kill _ => cases hp
  | forceQuit hc | enqAct hc | schedule hc | pushScr hc | replace hc _ | restore hc _ | pop hc _ _ =>
    rw [hc] at hch; exact absurd hp (headOnly_not_second hch rfl)
  | apprun hc => cases hp
  | «open» hc _ => cases hp
  | popExit hc _ _ =>
    rw [hc] at hch
    have ho := unwind_exit_chained hch.2
    have hp' : (unwindTo Kind.exit _).getD [] = Instr.drawScreen top :: r := hp
    rw [hp'] at ho; cases r <;> cases ho
  | pushModal hc => cases hp
  | closeScreen hc _ => cases hp
  | discard hc hlast =>
    rename_i rest top' e
    rw [hc] at hch
    have hp' : (if e.modal = true then [Instr.closeLoop, Instr.afterSetupFail e] else []) ++ rest =
        Instr.drawScreen top :: r := hp
    split at hp'
    · cases hp'
    · exact absurd hp' (headOnly_not_second hch rfl)
  | identSkip hc _ _ =>
    rw [hc] at hch
    have hp' : List.dropWhile notCatchPS _ = Instr.drawScreen top :: r := hp
    rw [identSkip_chained hch] at hp'
    exact absurd hp' (headOnly_not_second hch rfl)

theorem reach_draw {P : Prog} {c0 c : Cfg} (h0 : Started c0) (hr : Reach P c0 c) : DrawInv c.sv := by
  induction hr with
  | init =>
    obtain ⟨init, handlers, quitCb, stdin, rfl⟩ := h0
    intro top rest hp
    have hp' : init.map Instr.act ++ [Instr.apprun] = Instr.drawScreen top :: rest := hp
    cases init with
    | nil => cases hp'
    | cons a init => cases hp'
  | step hr hst ih =>
    obtain ⟨evs, h1, _, _⟩ := trans_sstep (.step hst)
    exact draw_step (reach_basic h0 hr) ih h1
  | deliver hr hd ih =>
    obtain ⟨evs, h1, _, _⟩ := trans_sstep (P := P) (.deliver hd)
    exact draw_step (reach_basic h0 hr) ih h1
  | halt hr hst ih =>
    obtain ⟨evs, h1, _, _⟩ := trans_sstep (.halt hst)
    exact draw_step (reach_basic h0 hr) ih h1

/-- outside the open / close windows the modal structure is intact -/
theorem quiescent_of_head {P : Prog} {c0 c : Cfg} (h0 : Started c0) (hi : InitScreenOnly c0) (hP : ScreenOnly P)
    (hC : ClosedSilent P) (hr : Reach P c0 c) (hn : NoErr c) (hq : WFQuietDrain c) {h : Instr} {rest : List Instr}
    (hc : c.code = h :: rest) (hh : h.isWindowHead = false) :
    c.Over ∨ (pendOpens c.code = 0 ∧ pendCloses c.code = 0 ∧ modalCount c.A.stack + 1 = c.L.levels.length) := by
  rcases reach_win h0 hi hP hC hr hn hq with ho | ⟨_, _, hw⟩
  · exact .inl ho
  have hQ : Quiet c.code := by
    cases hw with
    | quiet hq => exact hq
    | w1 hc' _ | w2 hc' _ | w3 hc' _ | w4 hc' _ | w5 hc' _ | w6 hc' _ _ | w7 hc' _ =>
      have hc'' : c.code = _ := hc'
      rw [hc] at hc''
      cases hc''
      cases hh
  rcases reach_match h0 hi hP hr hn with ho | ⟨_, _, heq⟩
  · exact .inl ho
  · right
    have h1 : pendOpens c.code = 0 := hQ.1
    have h2 : pendCloses c.code = 0 := hQ.2
    refine ⟨h1, h2, ?_⟩
    have heq' : modalCount c.A.stack + 1 + pendCloses c.code = c.L.levels.length + pendOpens c.code := heq
    omega

theorem shield {P : Prog} {c0 c c' : Cfg} (h0 : Started c0) (hi : InitScreenOnly c0) (hP : ScreenOnly P)
    (hC : ClosedSilent P) (hr : Reach P c0 c) (ht : Trans P c c') (hn : NoErr c) (hq : WFQuietDrain c) {x : Entry}
    (hx : Tr.show x ∈ newTr c c' ∨ Tr.refresh x ∈ newTr c c') :
    pendOpens c.code = 0 ∧ pendCloses c.code = 0 ∧ modalCount c.A.stack + 1 = c.L.levels.length ∧
    (Tr.show x ∈ newTr c c' → ∃ l, c.A.stack.getLast? = some l ∧ l.eid = x.eid) := by
  obtain ⟨evs, hs, hev, _⟩ := trans_sstep ht
  have hhead : ∃ h rest, c.code = h :: rest ∧ h.isWindowHead = false ∧ overCode c.code = false := by
    rcases hx with hx | hx
    · obtain ⟨rest, hc⟩ := show_step hs ((mem_newTr_iff hev rfl).1 hx)
      exact ⟨_, rest, hc, rfl, by rw [show c.code = _ from hc]; cases rest <;> rfl⟩
    · obtain ⟨rest, hc⟩ := refresh_step hs ((mem_newTr_iff hev rfl).1 hx)
      exact ⟨_, rest, hc, rfl, by rw [show c.code = _ from hc]; cases rest <;> rfl⟩
  obtain ⟨h, rest, hc, hh, hno⟩ := hhead
  rcases quiescent_of_head h0 hi hP hC hr hn hq hc hh with ho | ⟨h1, h2, h3⟩
  · have : overCode c.code = true := ho
    rw [hno] at this; cases this
  · refine ⟨h1, h2, h3, ?_⟩
    intro hx'
    obtain ⟨rest', hc'⟩ := show_step hs ((mem_newTr_iff hev rfl).1 hx')
    exact reach_draw h0 hr x rest' hc'

/-- only `closeLoop` at the head logs `.closeReq` -/
theorem closeReq_step {P : Prog} {v v' : SV} {evs : List Tr} {b : Bool} {n : Nat} (hs : SStepE P v evs v')
    (h : Tr.closeReq b n ∈ evs) : ∃ rest, v.code = .closeLoop :: rest := by
  cases hs with
  | batch hc hb =>
    cases hb <;> simp at h
    exact ⟨_, hc⟩
  | raise _ _ => exact absurd h (not_mem_exitEv_of_ne_exit (by simp))
  | stutter | halt _ _ | apprun _ | restore _ _ | identSkip _ _ _ | enqAct _ => cases h
  | kill _ | forceQuit _ | schedule _ | pushScr _ | replace _ _ | «open» _ _ | pop _ _ _ | popExit _ _ _
  | pushModal _ | closeScreen _ _ | discard _ _ => simp at h

theorem close_only_for_modal {P : Prog} {c0 c c' : Cfg} (h0 : Started c0) (hi : InitScreenOnly c0)
    (hP : ScreenOnly P) (hC : ClosedSilent P) (hr : Reach P c0 c) (ht : Trans P c c') (hn : NoErr c)
    (hq : WFQuietDrain c) {b : Bool} {n : Nat} (hx : Tr.closeReq b n ∈ newTr c c') :
    modalCount c.A.stack + 2 = c.L.levels.length := by
  obtain ⟨evs, hs, hev, _⟩ := trans_sstep ht
  obtain ⟨rest, hc⟩ := closeReq_step hs ((mem_newTr_iff hev rfl).1 hx)
  have hc' : c.code = .closeLoop :: rest := hc
  have hno : overCode c.code = false := by rw [hc']; cases rest <;> rfl
  have hQ : Quiet rest := by
    rcases reach_win h0 hi hP hC hr hn hq with ho | ⟨_, _, hw⟩
    · have : overCode c.code = true := ho
      rw [hno] at this; cases this
    · cases hw with
      | quiet hq' =>
        have : Quiet (Instr.closeLoop :: rest) := by rw [← hc']; exact hq'
        exact quiet_tail this
      | w5 hc'' hq' =>
        have hc3 : c.code = _ := hc''
        rw [hc'] at hc3; cases hc3; exact hq'
      | w1 hc'' _ | w2 hc'' _ | w3 hc'' _ | w4 hc'' _ | w6 hc'' _ _ | w7 hc'' _ =>
        have hc3 : c.code = _ := hc''
        rw [hc'] at hc3; cases hc3
  rcases reach_match h0 hi hP hr hn with ho | ⟨_, _, heq⟩
  · have : overCode c.code = true := ho
    rw [hno] at this; cases this
  · have heq' : modalCount c.A.stack + 1 + pendCloses c.code = c.L.levels.length + pendOpens c.code := heq
    rw [hc'] at heq'
    have h1 : pendCloses (Instr.closeLoop :: rest) = pendCloses rest + 1 := rfl
    have h2 : pendOpens (Instr.closeLoop :: rest) = pendOpens rest := rfl
    have := hQ.1; have := hQ.2
    omega

end Shape

end Simpleline
