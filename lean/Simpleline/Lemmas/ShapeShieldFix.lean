/-
  C05 "shield" without the hypothesis `NoErr`.

  Since `close_screen` checks `closed_from` *before* it pops (a refused request pops nothing), no
  exception can separate the pop of a modal entry from the `close_loop` of its level in a program whose
  `closed()` callbacks are silent and whose `close_loop` drains dispatch nothing: the straight-line
  windows between the two (`Win`) contain no instruction that can raise — the only candidates are
  `closeScreen2` (its `closed_from` check is now a repetition of the check that was passed before the
  pop: `AccCode`) and `popLevel` (which finds at least two levels, by the counting invariant).  An
  exception raised anywhere else finds nothing pending and unwinds nothing that matters.

  So the window invariant and the counting invariant hold in *every* reachable configuration of such
  a program, whether or not exceptions escaped from callbacks.
-/
import Simpleline.Lemmas.ShapeShield

namespace Simpleline

/-- every pending `closeScreen2` (the part of `close_screen` after the pop) stands for a request that
was accepted: no requester, or the popped screen itself -/
def AccCode (code : List Instr) : Prop :=
  ∀ e frm, Instr.closeScreen2 e frm ∈ code → frm = none ∨ frm = some (.scr e.screen)

/-- the window invariant, the counting invariant and the accepted requests, together -/
def FixInv (v : SV) : Prop := WinInv v ∧ MatchInv v ∧ AccCode v.code

namespace Shape

/-! ### accepted requests -/

theorem _root_.Simpleline.AccCode.sublist {l1 l2 : List Instr} (h : l1.Sublist l2) (ha : AccCode l2) : AccCode l1 :=
  fun e frm hm => ha e frm (h.subset hm)

theorem _root_.Simpleline.AccCode.tail {h : Instr} {rest : List Instr} (ha : AccCode (h :: rest)) : AccCode rest :=
  ha.sublist (List.sublist_cons_self ..)

theorem _root_.Simpleline.AccCode.append {B rest : List Instr} (hB : ∀ e frm, Instr.closeScreen2 e frm ∉ B) (hr : AccCode rest) :
    AccCode (B ++ rest) := by
  intro e frm hm
  rcases List.mem_append.1 hm with h | h
  · exact absurd h (hB e frm)
  · exact hr e frm h

/-- no batch contains a `closeScreen2` -/
theorem batch_no_close2 {P : Prog} {v : SV} {h : Instr} {B : List Instr} {evs : List Tr} (hb : Batch P v h B evs)
    (e : Entry) (frm : Option Src) : Instr.closeScreen2 e frm ∉ B := by
  intro hm
  cases hb
  case callUser hid d s n =>
    rcases List.mem_append.1 hm with h1 | h1
    · obtain ⟨a, _, ha⟩ := List.mem_map.1 h1; cases ha
    · simp at h1
  case callScr scr cb arg key n =>
    rcases List.mem_append.1 hm with h1 | h1
    · rcases List.mem_append.1 h1 with h2 | h2
      · split at h2 <;> simp at h2
      · obtain ⟨a, _, ha⟩ := List.mem_map.1 h2; cases ha
    · simp at h1
  case printWidget scr hB =>
    rcases hB _ hm with ⟨ls, h1⟩ | h1 <;> cases h1
  all_goals simp at hm

/-- every abstract transition but the pop of `close_screen` keeps the pending requests accepted -/
theorem acc_sstep {P : Prog} {v v' : SV} {evs : List Tr} (hs : SStepE P v evs v')
    (hnc : ∀ frm rest, v.code ≠ .closeScreen frm :: rest) (ha : AccCode v.code) : AccCode v'.code := by
  cases hs with
  | stutter => exact ha
  | batch hc hb => rw [hc] at ha; exact AccCode.append (batch_no_close2 hb) ha.tail
  | halt hc _ => rw [hc] at ha; exact ha.tail
  | raise hc _ => rw [hc] at ha; exact ha.tail.sublist (unwindTo_sublist _ _)
  | kill _ => intro e frm hm; cases hm
  | forceQuit hc | enqAct hc | schedule hc | pushScr hc | replace hc _ | restore hc _ | pop hc _ _ =>
    rw [hc] at ha; exact ha.tail
  | apprun hc => rw [hc] at ha; exact AccCode.append (by intro e frm hm; simp at hm) ha.tail
  | «open» hc _ =>
    rw [hc] at ha
    exact AccCode.append (B := [.mainCheck v.nq]) (by intro e frm hm; simp at hm) ha.tail
  | popExit hc _ _ => rw [hc] at ha; exact ha.tail.sublist (unwindTo_sublist _ _)
  | pushModal hc =>
    rw [hc] at ha
    exact AccCode.append (B := [.newLoop _, .modalRet _]) (by intro e frm hm; simp at hm) ha.tail
  | closeScreen hc _ => exact absurd hc (hnc _ _)
  | discard hc _ =>
    rw [hc] at ha
    exact AccCode.append (by intro e frm hm; split at hm <;> simp at hm) ha.tail
  | identSkip hc _ _ =>
    rw [hc] at ha
    exact ha.tail.sublist (List.dropWhile_sublist _)

/-- the code after raising is a sublist of the code before -/
theorem raise_code_sublist (c : Cfg) (k : Kind) : (outCfg (c.raise k)).code.Sublist c.code := by
  have h : (outCfg (c.raise k)).sv.code = (raisedSV k c.sv).code := by rw [sv_raise]
  have h' : (outCfg (c.raise k)).code = (unwindTo k c.code).getD [] := h
  rw [h']
  exact unwindTo_sublist k c.code

/-- … and so does the pop of `close_screen`: the `closeScreen2` it pushes carries a request that passed
the check -/
theorem acc_closeScreen {P : Prog} {c c' : Cfg} {frm : Option Src} {rest : List Instr}
    (hc : c.code = .closeScreen frm :: rest) (ht : Trans P c c') (ha : AccCode c.code) : AccCode c'.code := by
  have hstep : AccCode (outCfg (step P c)).code := by
    rw [hc] at ha
    unfold step
    simp only [hc]
    split
    · exact ha.tail.sublist (raise_code_sublist _ _)
    · rename_i e he
      split
      · exact ha.tail.sublist (raise_code_sublist _ _)
      · rename_i hacc
        intro e' frm' hm
        have hm' : Instr.closeScreen2 e' frm' ∈
            Instr.callScr e.screen .closed none none :: Instr.closeScreen2 e frm :: rest := hm
        simp only [List.mem_cons, reduceCtorEq, false_or, Instr.closeScreen2.injEq] at hm'
        rcases hm' with ⟨rfl, rfl⟩ | hm'
        · by_cases h1 : frm' = none
          · exact .inl h1
          · exact .inr (Classical.byContradiction fun h2 => hacc ⟨h1, h2⟩)
        · exact ha.tail e' frm' hm'
  cases ht with
  | step h => rwa [outCfg_of_ok h] at hstep
  | deliver h =>
    have : c'.sv.code = c.sv.code := by rw [sv_deliver h]
    exact (show c'.code = c.code from this) ▸ ha
  | halt h => rwa [outCfg_of_error h] at hstep

theorem acc_trans {P : Prog} {c c' : Cfg} (ht : Trans P c c') (ha : AccCode c.code) : AccCode c'.code := by
  by_cases hnc : ∃ frm rest, c.code = .closeScreen frm :: rest
  · obtain ⟨frm, rest, hc⟩ := hnc
    exact acc_closeScreen hc ht ha
  · obtain ⟨evs, hs, _, _⟩ := trans_sstep ht
    exact acc_sstep hs (fun frm rest hc => hnc ⟨frm, rest, hc⟩) ha

/-! ### the two window instructions that could raise, do not -/

theorem raisedSV_code_length (k : Kind) (v : SV) : (raisedSV k v).code.length ≤ v.code.length :=
  (unwindTo_sublist k v.code).length_le

/-- an accepted `closeScreen2` goes on: it is not a raise -/
theorem close2_not_raise {P : Prog} {c c' : Cfg} {e : Entry} {frm : Option Src} {rest : List Instr}
    (hc : c.code = .closeScreen2 e frm :: rest) (hacc : frm = none ∨ frm = some (.scr e.screen))
    (ht : Trans P c c') : rest.length < c'.code.length := by
  have hrf : ¬ (frm ≠ none ∧ frm ≠ some (.scr e.screen)) := by
    rintro ⟨h1, h2⟩
    rcases hacc with h | h
    · exact h1 h
    · exact h2 h
  have hstep : ∃ d, step P c = .ok d ∧ rest.length < d.code.length := by
    unfold step
    simp only [hc, hrf, if_false]
    split
    · exact ⟨_, rfl, by simp [push]; omega⟩
    · exact ⟨_, rfl, by simp [push]⟩
  obtain ⟨d, hd, hlen⟩ := hstep
  cases ht with
  | step h => rw [hd] at h; cases h; exact hlen
  | deliver h =>
    have : c'.sv.code = c.sv.code := by rw [sv_deliver h]
    rw [show c'.code = c.code from this, hc]; simp
  | halt h => rw [hd] at h; cases h

/-- `popLevel` with two levels open pops: it is not a raise -/
theorem pop_not_raise {P : Prog} {c c' : Cfg} {rest : List Instr} (hc : c.code = .popLevel :: rest)
    (hl : 2 ≤ c.L.levels.length) (ht : Trans P c c') :
    rest.length < c'.code.length ∨ c'.L.levels.length < c.L.levels.length := by
  have hstep : ∃ d, step P c = .ok d ∧ d.L.levels.length < c.L.levels.length := by
    unfold step
    simp only [hc]
    split
    · rename_i hnone
      have : c.L.levels = [] := by simpa using hnone
      rw [this] at hl; simp at hl
    · split
      · rename_i hnone
        have : c.L.levels.dropLast = [] := by simpa using hnone
        have := congrArg List.length this
        simp at this; omega
      · exact ⟨_, rfl, by simp; omega⟩
  obtain ⟨d, hd, hlen⟩ := hstep
  cases ht with
  | step h => rw [hd] at h; cases h; exact .inr hlen
  | deliver h =>
    have : c'.sv.code = c.sv.code := by rw [sv_deliver h]
    left
    rw [show c'.code = c.code from this, hc]; simp
  | halt h => rw [hd] at h; cases h

/-! ### the step -/

/-- raising from a quiescent configuration leaves a quiescent configuration: whatever is unwound,
nothing was pending in it -/
theorem fix_raise_quiet {v : SV} {h : Instr} {rest : List Instr} {k : Kind} (hf : v.forceQuit = false)
    (hsc : ScreenCode v.code) (hq : Quiet v.code) (hc : v.code = h :: rest)
    (heq : modalCount v.stack + 1 + pendCloses v.code = v.levels.length + pendOpens v.code) :
    WinInv (raisedSV k { v with code := rest }) ∧ MatchInv (raisedSV k { v with code := rest }) := by
  have hsub : (raisedSV k { v with code := rest }).code.Sublist v.code := by
    rw [hc]
    exact (unwindTo_sublist k rest).trans (List.sublist_cons_self ..)
  have hq' := quiet_sublist hsub hq
  have hsc' := hsc.sublist hsub
  refine ⟨.inr ⟨hf, hsc', .quiet hq'⟩, .inr ⟨hf, hsc', ?_⟩⟩
  show modalCount v.stack + 1 + pendCloses (raisedSV k { v with code := rest }).code =
    v.levels.length + pendOpens (raisedSV k { v with code := rest }).code
  rw [hq'.1, hq'.2]
  rw [hq.1, hq.2] at heq
  exact heq

theorem fix_step {P : Prog} {c c' : Cfg} (hP : ScreenOnly P) (hC : ClosedSilent P) (hb : Basic c.sv)
    (hi : FixInv c.sv) (ht : Trans P c c') (hdq : drainQuietScan false c'.sv.ev = true) : FixInv c'.sv := by
  obtain ⟨hw, hm, ha⟩ := hi
  obtain ⟨evs, hs, _, _⟩ := trans_sstep ht
  refine ⟨?_, ?_, acc_trans ht ha⟩
  all_goals
    -- what a raise does, from the three invariants
    have hraise : ∀ {h : Instr} {rest : List Instr} {k : Kind}, c.sv.code = h :: rest → h.canRaise k = true →
        c'.sv = raisedSV k { c.sv with code := rest } → WinInv c'.sv ∧ MatchInv c'.sv := by
      intro h rest k hc hr hv
      rcases hw with ho | ⟨hf, hsc, hwin⟩
      · have := over_step ho hs
        exact ⟨.inl this, .inl this⟩
      rcases hm with ho | ⟨_, _, heq⟩
      · have := over_step ho hs
        exact ⟨.inl this, .inl this⟩
      have hlen : c'.sv.code.length ≤ rest.length := by
        rw [hv]; exact raisedSV_code_length k { c.sv with code := rest }
      cases hwin with
      | quiet hq => rw [hv]; exact fix_raise_quiet hf hsc hq hc heq
      | w1 hc' _ => rw [hc] at hc'; cases hc'; cases k <;> cases hr
      | w2 hc' _ => rw [hc] at hc'; cases hc'; cases k <;> cases hr
      | w3 hc' _ => rw [hc] at hc'; cases hc'; cases k <;> cases hr
      | w5 hc' _ => rw [hc] at hc'; cases hc'; cases k <;> cases hr
      | w6 hc' _ _ => rw [hc] at hc'; cases hc'; cases k <;> cases hr
      | @w4 e frm rest' hc' _ =>
        exfalso
        have hcode : c.code = .closeScreen2 e frm :: rest' := hc'
        have hacc := ha e frm (by rw [show c.sv.code = c.code from rfl, hcode]; exact List.mem_cons_self ..)
        have := close2_not_raise hcode hacc ht
        rw [hc] at hc'; cases hc'
        have hlen' : c'.code.length ≤ rest.length := hlen
        omega
      | @w7 rest' hc' hq =>
        exfalso
        have hcode : c.code = .popLevel :: rest' := hc'
        have heq' : modalCount c.A.stack + 1 + pendCloses c.code = c.L.levels.length + pendOpens c.code := heq
        rw [hcode] at heq'
        have h1 : pendCloses (Instr.popLevel :: rest') = pendCloses rest' + 1 := rfl
        have h2 : pendOpens (Instr.popLevel :: rest') = pendOpens rest' := rfl
        have hl : 2 ≤ c.L.levels.length := by have := hq.1; have := hq.2; omega
        rw [hc] at hc'; cases hc'
        rcases pop_not_raise hcode hl ht with h3 | h3
        · have hlen' : c'.code.length ≤ rest.length := hlen
          omega
        · have : c'.sv.levels = c.sv.levels := by rw [hv]; rfl
          have : c'.L.levels = c.L.levels := this
          rw [this] at h3; omega
  · exact win_step_core hP hC hb hw hs hdq fun hc hr hv => (hraise hc hr hv).1
  · exact match_step_core hP hb hm hs fun hc hr hv => (hraise hc hr hv).2

/-! ### the invariant -/

theorem fix_init {c0 : Cfg} (init : List Act) (handlers : List (Cls × HRef × Option Nat)) (quitCb : Option Nat)
    (stdin : List Str) (hc0 : c0 = initCfg init handlers quitCb stdin) (hi : InitScreenOnly c0) : FixInv c0.sv := by
  refine ⟨win_init init handlers quitCb stdin hc0 hi, match_init init handlers quitCb stdin hc0 hi, ?_⟩
  subst hc0
  intro e frm hm
  have hm' : Instr.closeScreen2 e frm ∈ init.map Instr.act ++ [Instr.apprun] := hm
  rcases List.mem_append.1 hm' with h | h
  · obtain ⟨a, _, ha⟩ := List.mem_map.1 h; cases ha
  · simp at h

/-- **the window, counting and accepted-request invariants hold in every reachable configuration** of a
screen-level program with silent `closed()` callbacks whose `close_loop` drains dispatched nothing —
whether or not exceptions escaped from callbacks -/
theorem reach_fix {P : Prog} {c0 c : Cfg} (h0 : Started c0) (hi : InitScreenOnly c0) (hP : ScreenOnly P)
    (hC : ClosedSilent P) (hr : Reach P c0 c) (hq : WFQuietDrain c) : FixInv c.sv := by
  have key : ∀ {c c' : Cfg}, Reach P c0 c → Trans P c c' → WFQuietDrain c' →
      (WFQuietDrain c → FixInv c.sv) → FixInv c'.sv := by
    intro c c' hr ht hq' ih
    have hq1 : drainQuietScan false c'.sv.ev = true := by
      show drainQuietScan false (shapeTr c'.tr) = true
      rw [drainQuietScan_shapeTr]; exact hq'
    obtain ⟨n, hn⟩ := trans_grow ht
    have hq0 : WFQuietDrain c := by
      unfold WFQuietDrain at hq' ⊢
      rw [hn] at hq'
      exact drainQuietScan_append _ hq'
    exact fix_step hP hC (reach_basic h0 hr) (ih hq0) ht hq1
  induction hr with
  | init =>
    obtain ⟨init, handlers, quitCb, stdin, hc0⟩ := h0
    exact fix_init init handlers quitCb stdin hc0 hi
  | step hr hst ih => exact key hr (.step hst) hq ih
  | deliver hr hd ih => exact key hr (.deliver hd) hq ih
  | halt hr hst ih => exact key hr (.halt hst) hq ih

/-! ### the clauses of C05 that used `NoErr` only through the two invariants -/

/-- outside the open / close windows the modal structure is intact -/
theorem quiescent_of_head_fix {P : Prog} {c0 c : Cfg} (h0 : Started c0) (hi : InitScreenOnly c0) (hP : ScreenOnly P)
    (hC : ClosedSilent P) (hr : Reach P c0 c) (hq : WFQuietDrain c) {h : Instr} {rest : List Instr}
    (hc : c.code = h :: rest) (hh : h.isWindowHead = false) :
    c.Over ∨ (pendOpens c.code = 0 ∧ pendCloses c.code = 0 ∧ modalCount c.A.stack + 1 = c.L.levels.length) := by
  obtain ⟨hwi, hmi, _⟩ := reach_fix h0 hi hP hC hr hq
  rcases hwi with ho | ⟨_, _, hw⟩
  · exact .inl ho
  have hQ : Quiet c.code := by
    cases hw with
    | quiet hq => exact hq
    | w1 hc' _ | w2 hc' _ | w3 hc' _ | w4 hc' _ | w5 hc' _ | w6 hc' _ _ | w7 hc' _ =>
      have hc'' : c.code = _ := hc'
      rw [hc] at hc''
      cases hc''
      cases hh
  rcases hmi with ho | ⟨_, _, heq⟩
  · exact .inl ho
  · right
    have h1 : pendOpens c.code = 0 := hQ.1
    have h2 : pendCloses c.code = 0 := hQ.2
    refine ⟨h1, h2, ?_⟩
    have heq' : modalCount c.A.stack + 1 + pendCloses c.code = c.L.levels.length + pendOpens c.code := heq
    omega

theorem shield_fix {P : Prog} {c0 c c' : Cfg} (h0 : Started c0) (hi : InitScreenOnly c0) (hP : ScreenOnly P)
    (hC : ClosedSilent P) (hr : Reach P c0 c) (ht : Trans P c c') (hq : WFQuietDrain c) {x : Entry}
    (hx : Tr.show x ∈ newTr c c' ∨ Tr.refresh x ∈ newTr c c') :
    pendOpens c.code = 0 ∧ pendCloses c.code = 0 ∧ modalCount c.A.stack + 1 = c.L.levels.length ∧
    (Tr.show x ∈ newTr c c' → ∃ l, c.A.stack.getLast? = some l ∧ l.eid = x.eid) := by
  obtain ⟨evs, hs, hev, _⟩ := trans_sstep ht
  have hhead : ∃ h rest, c.code = h :: rest ∧ h.isWindowHead = false ∧ overCode c.code = false := by
    rcases hx with hx | hx
    · obtain ⟨rest, hc⟩ := show_step hs ((mem_newTr_iff hev rfl).1 hx)
      exact ⟨_, rest, hc, rfl, by rw [show c.code = _ from hc]; cases rest <;> rfl⟩
    · obtain ⟨rest, hc⟩ := refresh_step hs ((mem_newTr_iff hev rfl).1 hx)
      exact ⟨_, rest, hc, rfl, by rw [show c.code = _ from hc]; cases rest <;> rfl⟩
  obtain ⟨h, rest, hc, hh, hno⟩ := hhead
  rcases quiescent_of_head_fix h0 hi hP hC hr hq hc hh with ho | ⟨h1, h2, h3⟩
  · have : overCode c.code = true := ho
    rw [hno] at this; cases this
  · refine ⟨h1, h2, h3, ?_⟩
    intro hx'
    obtain ⟨rest', hc'⟩ := show_step hs ((mem_newTr_iff hev rfl).1 hx')
    exact reach_draw h0 hr x rest' hc'

theorem close_only_for_modal_fix {P : Prog} {c0 c c' : Cfg} (h0 : Started c0) (hi : InitScreenOnly c0)
    (hP : ScreenOnly P) (hC : ClosedSilent P) (hr : Reach P c0 c) (ht : Trans P c c')
    (hq : WFQuietDrain c) {b : Bool} {n : Nat} (hx : Tr.closeReq b n ∈ newTr c c') :
    modalCount c.A.stack + 2 = c.L.levels.length := by
  obtain ⟨evs, hs, hev, _⟩ := trans_sstep ht
  obtain ⟨rest, hc⟩ := closeReq_step hs ((mem_newTr_iff hev rfl).1 hx)
  have hc' : c.code = .closeLoop :: rest := hc
  have hno : overCode c.code = false := by rw [hc']; cases rest <;> rfl
  obtain ⟨hwi, hmi, _⟩ := reach_fix h0 hi hP hC hr hq
  have hQ : Quiet rest := by
    rcases hwi with ho | ⟨_, _, hw⟩
    · have : overCode c.code = true := ho
      rw [hno] at this; cases this
    · cases hw with
      | quiet hq' =>
        have : Quiet (Instr.closeLoop :: rest) := by rw [← hc']; exact hq'
        exact quiet_tail this
      | w5 hc'' hq' =>
        have hc3 : c.code = _ := hc''
        rw [hc'] at hc3; cases hc3; exact hq'
      | w1 hc'' _ | w2 hc'' _ | w3 hc'' _ | w4 hc'' _ | w6 hc'' _ _ | w7 hc'' _ =>
        have hc3 : c.code = _ := hc''
        rw [hc'] at hc3; cases hc3
  rcases hmi with ho | ⟨_, _, heq⟩
  · have : overCode c.code = true := ho
    rw [hno] at this; cases this
  · have heq' : modalCount c.A.stack + 1 + pendCloses c.code = c.L.levels.length + pendOpens c.code := heq
    rw [hc'] at heq'
    have h1 : pendCloses (Instr.closeLoop :: rest) = pendCloses rest + 1 := rfl
    have h2 : pendOpens (Instr.closeLoop :: rest) = pendOpens rest := rfl
    have := hQ.1; have := hQ.2
    omega

end Shape

end Simpleline
